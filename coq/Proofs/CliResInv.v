(* Proofs/CliResInv.v - C12/C11, part 1: how one Ctx evolves under the connection's goroutines (`cev`), the effect
   relation `eff` on connection states (what a piece of the model may do to the Ctx table, the queue `in`, the request
   table and the trace), and the effect of every function of Impl/ClientConn.v below the event handlers.
   Everything is generic in the HPACK coder. *)
From H2V Require Import Base.Bytes Base.MachineInt Base.Result Gen.GenConsts Impl.ServerConn Impl.ClientConn Proofs.CliBase.
From Coq Require Import ZArith Lia ZifyN ZifyNat ZifyBool List Bool.
Import ListNotations.
Local Open Scope N_scope.

(* ---------- vocabulary ---------- *)

(* the caller has its answer, or it is waiting for him in Err *)
Definition answered (x : cctx) : bool :=
  ct_returned x || match ct_err x with Some _ => true | None => false end.

(* trace items every part of the model may emit; the others have one emitter each:
   COHeaders writeRequest, COResult/COPoolPut the caller's receive, COPanic the read loop's recover,
   COSelfDeadlock/COBlocked a goroutine that parks on a Ctx.lck for ever *)
Definition benign (o : coutev) : bool :=
  match o with
  | COHeaders _ _ _ | COResult _ _ _ _ | COPoolPut _ | COSelfDeadlock _ _ | COBlocked _ _ | COPanic _ => false
  | _ => true
  end.

(* the pending bodies l' come from those of l: same stream and Ctx each, and no id twice if none was *)
Definition pend_sub (l' l : list cpending) : Prop :=
  (forall pb', In pb' l' -> exists pb, In pb l /\ pb_id pb' = pb_id pb /\ pb_tag pb' = pb_tag pb) /\
  (NoDup (map pb_id l) -> NoDup (map pb_id l')).

Lemma pending_same (l l' : list cpending) : l' = l -> pend_sub l' l.
Proof. intros ->. split; [intros pb H; exists pb; auto | auto]. Qed.

Lemma NoDup_pend_del (l : list cpending) id : NoDup (map pb_id l) -> NoDup (map pb_id (cl_pend_del l id)).
Proof.
  induction l as [|y t IH]; cbn [cl_pend_del map]; [auto|]. intro H. inversion H as [|? ? NI ND]; subst.
  destruct (pb_id y =? id); [exact ND|]. cbn [map]. constructor; [|auto]. intro J. apply NI.
  apply in_map_iff in J. destruct J as (p & E & J). rewrite <- E. apply in_map. eapply cl_pend_del_In; eassumption.
Qed.

Lemma pending_del (l : list cpending) id : pend_sub (cl_pend_del l id) l.
Proof. split; [intros pb H; exists pb; split; [eapply cl_pend_del_In; eassumption | auto] | apply NoDup_pend_del]. Qed.

Lemma pending_put (l : list cpending) x x0 : In x0 l -> pb_id x = pb_id x0 -> pb_tag x = pb_tag x0 -> pend_sub (cl_pend_put l x) l.
Proof.
  intros I A B. split.
  - intros pb H. destruct (cl_pend_put_In _ _ _ H) as [->|H']; [exists x0 | exists pb]; auto.
  - rewrite cl_pend_put_ids. auto.
Qed.

Lemma pending_map (l : list cpending) f : (forall pb, pb_id (f pb) = pb_id pb /\ pb_tag (f pb) = pb_tag pb) -> pend_sub (map f l) l.
Proof.
  intros Hf. split.
  - intros pb H. apply in_map_iff in H. destruct H as (q & <- & I). exists q. destruct (Hf q). auto.
  - rewrite map_map. replace (map (fun x => pb_id (f x)) l) with (map pb_id l); [auto|]. apply map_ext. intro a. symmetry. apply Hf.
Qed.

Lemma pend_del_not_id (l : list cpending) id pb : NoDup (map pb_id l) -> In pb (cl_pend_del l id) -> pb_id pb <> id.
Proof.
  induction l as [|y t IH]; cbn [cl_pend_del map]; [intros _ []|]. intro H. inversion H as [|? ? NI ND]; subst.
  destruct (pb_id y =? id) eqn:E.
  - intros J F. apply NI. apply N.eqb_eq in E. rewrite E, <- F. apply in_map, J.
  - intros [<-|J]; [apply N.eqb_neq, E | apply IH; assumption].
Qed.

(* what is left of the pending bodies when the one of stream id has been taken off holds no body of the Ctx tag, if the
   bodies of that Ctx are on stream id *)
Lemma pend_del_no_tag (l : list cpending) id tag : NoDup (map pb_id l) -> (forall pb, In pb l -> pb_tag pb = tag -> pb_id pb = id) ->
  forall pb, In pb (cl_pend_del l id) -> pb_tag pb <> tag.
Proof. intros ND H pb J E. apply (pend_del_not_id l id pb ND J). apply H; [eapply cl_pend_del_In; eassumption | exact E]. Qed.

Lemma cl_pend_del_absent (l : list cpending) id : cl_pend_get l id = None -> cl_pend_del l id = l.
Proof.
  induction l as [|y t IH]; cbn [cl_pend_get cl_pend_del]; [reflexivity|]. destruct (pb_id y =? id); [discriminate|]. intro H. rewrite (IH H). reflexivity.
Qed.

Lemma pend_sub_trans a b c : pend_sub a b -> pend_sub b c -> pend_sub a c.
Proof.
  intros [A1 A2] [B1 B2]. split; [|auto]. intros pb H. destruct (A1 _ H) as (p1 & I1 & E1 & F1). destruct (B1 _ I1) as (p0 & I0 & E0 & F0).
  exists p0. repeat split; congruence.
Qed.

(* hdrErr only ever holds the error of a malformed response header *)
Definition herr_ok (h : option cerr) : Prop := forall e, h = Some e -> e = CEMalformed.

(* Parameters of the whole analysis (instantiated per theorem):
   Eok sid e : the connection may put e into the empty Err of a Ctx whose stream is sid;
   Vok x x'  : what else it may do to a Ctx (its response, gotStatus);
   Wok c c'  : what it may do to the header-block registers of the connection. *)
Class cparams : Type := mkCParams {
  Eok : N -> cerr -> Prop;
  Vok : cctx -> cctx -> Prop;
  Wok : forall hstate : Type, cconn hstate -> cconn hstate -> Prop;
  V_refl : forall x, Vok x x;
  V_trans : forall x y z, Vok x y -> Vok y z -> Vok x z;
  V_frame : forall x x', ct_resp x' = ct_resp x -> ct_gotStatus x' = ct_gotStatus x -> Vok x x';
  W_refl : forall h (c : cconn h), Wok h c c;
  W_trans : forall h (a b c : cconn h), Wok h a b -> Wok h b c -> Wok h a c;
  W_frame : forall h (c c' : cconn h), cc_hdrStream c' = cc_hdrStream c -> cc_hdrStatus c' = cc_hdrStatus c ->
            cc_hdrErr c' = cc_hdrErr c -> cc_hdrEndStream c' = cc_hdrEndStream c -> Wok h c c'
}.
(* every error that is neither retryable nor nil may be put anywhere (asked by the lemmas about the loops) *)
Class cplain (CP : cparams) : Prop :=
  Enr : forall sid e, cl_retryable e = false -> e <> CENil -> Eok sid e.

Section WithE.
Context {CP : cparams} {NR : cplain CP}.
#[local] Hint Resolve V_refl W_refl V_frame W_frame : core.
Definition Eall (e : cerr) : Prop := forall sid, Eok sid e.
Lemma Eall_nr e : cl_retryable e = false -> e <> CENil -> Eall e.
Proof. intros A B sid. apply Enr; assumption. Qed.

(* one Ctx under the connection's goroutines (everything but its caller's own steps and writeRequest's
   taking it on): only Err (once, while the caller has not taken it back), finished, the response and
   the body-closed mark can change *)
Record cev (x x' : cctx) : Prop := mkCev {
  cev_tag : ct_tag x' = ct_tag x;
  cev_req : ct_req x' = ct_req x;
  cev_sid : ct_sid x' = ct_sid x;
  cev_conn : ct_conn x' = ct_conn x;
  cev_done : ct_done x' = ct_done x;
  cev_resolved : ct_resolved x' = ct_resolved x;
  cev_armed : ct_armed x' = ct_armed x;
  cev_fired : ct_fired x' = ct_fired x;
  cev_cancelled : ct_cancelled x' = ct_cancelled x;
  cev_writing : ct_writing x' = ct_writing x;
  cev_returned : ct_returned x' = ct_returned x;
  cev_pooled : ct_pooled x' = ct_pooled x;
  cev_lckStuck : ct_lckStuck x' = ct_lckStuck x;
  cev_err : ct_err x' = ct_err x \/
            (ct_err x = None /\ ct_resolved x = false /\ exists e, ct_err x' = Some e /\ Eok (ct_sid x) e);
  cev_finished : ct_finished x = true -> ct_finished x' = true;
  cev_v : Vok x x'
}.

Lemma cev_refl x : cev x x.
Proof. constructor; auto. Qed.

Lemma cev_trans x y z : cev x y -> cev y z -> cev x z.
Proof.
  intros [] []. constructor; try congruence; auto; [|eapply V_trans; eassumption].
  destruct cev_err0 as [A|(A & R & e & B & C)], cev_err1 as [F|(F & R' & e' & B' & C')].
  - left. congruence.
  - right. split; [congruence|]. split; [congruence|]. exists e'. split; [assumption|]. rewrite <- cev_sid0. assumption.
  - right. split; [assumption|]. split; [assumption|]. exists e. split; [congruence | assumption].
  - congruence.
Qed.

Lemma cev_answered x x' : cev x x' -> answered x = true -> answered x' = true.
Proof.
  intros [] H. unfold answered in *. rewrite cev_returned0. destruct (ct_returned x); [reflexivity|].
  cbn [orb] in *. destruct cev_err0 as [A|(A & _)]; [rewrite A; assumption|]. rewrite A in H. discriminate.
Qed.

(* the atomic updates *)
Lemma cev_resolve x e : Eok (ct_sid x) e -> cev x (cl_ctx_resolve x e).
Proof.
  intro He. rewrite cl_ctx_resolve_eq. destruct (ct_resolved x) eqn:R; cbn [negb andb]; [apply cev_refl|].
  destruct (ct_err x) eqn:A; [apply cev_refl|]. constructor; cbn; auto.
  right. split; [exact A|]. split; [exact R|]. exists e. auto.
Qed.
Lemma cev_finished_true x : cev x (ctu_finished x true).
Proof. constructor; cbn; auto. Qed.
Lemma cev_bodyClosed x b : cev x (ctu_bodyClosed x b).
Proof. constructor; cbn; auto. Qed.
Lemma cev_resp x r : Vok x (ctu_resp x r) -> cev x (ctu_resp x r).
Proof. intro. constructor; cbn; auto. Qed.
Lemma cev_gotStatus x b : Vok x (ctu_gotStatus x b) -> cev x (ctu_gotStatus x b).
Proof. intro. constructor; cbn; auto. Qed.
Lemma cev_finish_resolve x e : Eok (ct_sid x) e -> cev x (cl_ctx_resolve (ctu_finished x true) e).
Proof. intro He. eapply cev_trans; [apply cev_finished_true | apply cev_resolve; exact He]. Qed.

Lemma answered_resolve x e : ct_resolved x = false -> answered (cl_ctx_resolve x e) = true.
Proof.
  intro R. rewrite cl_ctx_resolve_eq, R. cbn [negb andb]. unfold answered.
  destruct (ct_err x) eqn:A; cbn; [rewrite A|]; apply orb_true_r.
Qed.

Section Eff.
Context {hstate : Type}.
Implicit Types c : cconn hstate.

(* the tags the connection still has to answer: queued in `in`, or on the request table *)
Definition held c (t : N) : Prop := In t (cc_inQ c) \/ In t (map snd (cc_reqQueued c)).

(* c' comes after c: same Ctx objects, each evolved by cev; the queue and the request table have only lost entries;
   the trace has grown by items of P *)
Record eff (P : coutev -> Prop) (c c' : cconn hstate) : Prop := mkEff {
  e_tags : map ct_tag (cc_ctxs c') = map ct_tag (cc_ctxs c);
  e_ctx : forall t x, cl_ctx_get c t = Some x -> exists x', cl_ctx_get c' t = Some x' /\ cev x x';
  e_inQ : exists p, cc_inQ c' = filter p (cc_inQ c);
  e_rq : exists p, cc_reqQueued c' = filter p (cc_reqQueued c);
  e_nextID : cc_nextID c' = cc_nextID c;
  e_goAway : cc_goAway c = true -> cc_goAway c' = true;
  e_closed : cc_closed c = true -> cc_closed c' = true;
  e_wl_done : cc_wl_done c = true -> cc_wl_done c' = true;
  e_rl_done : cc_rl_done c = true -> cc_rl_done c' = true;
  e_wl_new : cc_wl_done c = false -> cc_wl_done c' = true ->
             cc_closed c' = true /\ cc_reqQueued c' = [] /\ cc_inQ c' = [];
  e_rl_new : cc_rl_done c = false -> cc_rl_done c' = true -> cc_closed c' = true;
  e_rl_stuck : cc_rl_stuck c' = cc_rl_stuck c;
  e_wl_stuck : cc_wl_stuck c' = cc_wl_stuck c;
  e_out : exists l, cc_out c' = l ++ cc_out c /\ Forall P l;
  e_outQ : Forall (fun o => benign o = true) (cc_outQ c) -> Forall (fun o => benign o = true) (cc_outQ c');
  e_pending : pend_sub (cc_pending c') (cc_pending c);
  e_w : Wok hstate c c';
  e_hdrErr : herr_ok (cc_hdrErr c) -> herr_ok (cc_hdrErr c');
  e_lastErr : cc_lastErr c <> Some CENil -> cc_lastErr c' <> Some CENil;
  (* markFinished only after the connection has let go of the request *)
  e_fin : forall t x x', cl_ctx_get c t = Some x -> cl_ctx_get c' t = Some x' -> ct_finished x = false -> ct_finished x' = true ->
          ~ held c' t /\ forall pb, In pb (cc_pending c') -> pb_tag pb <> t
}.

Lemma filter_nil_eq {A} (p : A -> bool) : filter p [] = [].
Proof. reflexivity. Qed.

Lemma filter_filter {A} (p q : A -> bool) l : filter q (filter p l) = filter (fun a => p a && q a) l.
Proof.
  induction l as [|a l IH]; cbn [filter]; [reflexivity|].
  destruct (p a); cbn [filter andb]; [destruct (q a); rewrite IH; reflexivity | assumption].
Qed.

Lemma filter_true {A} (l : list A) : l = filter (fun _ => true) l.
Proof. induction l as [|a l IH]; cbn [filter]; congruence. Qed.
Lemma filter_false {A} (l : list A) : [] = filter (fun _ => false) l.
Proof. induction l as [|a l IH]; cbn [filter]; congruence. Qed.

Lemma eff_refl P c : eff P c c.
Proof.
  constructor; auto; try congruence.
  - intros t x H. exists x. split; [assumption | apply cev_refl].
  - exists (fun _ => true). apply filter_true.
  - exists (fun _ => true). apply filter_true.
  - exists []. split; [reflexivity | constructor].
  - apply pending_same. reflexivity.
Qed.

Lemma eff_trans P a b c : eff P a b -> eff P b c -> eff P a c.
Proof.
  intros [] []. constructor; try congruence; auto.
  - intros t x H. destruct (e_ctx0 _ _ H) as (y & Hy & C1). destruct (e_ctx1 _ _ Hy) as (z & Hz & C2).
    exists z. split; [assumption | eapply cev_trans; eassumption].
  - destruct e_inQ0 as [p Hp], e_inQ1 as [q Hq]. exists (fun a => p a && q a). rewrite Hq, Hp. apply filter_filter.
  - destruct e_rq0 as [p Hp], e_rq1 as [q Hq]. exists (fun a => p a && q a). rewrite Hq, Hp. apply filter_filter.
  - intros A C. destruct (cc_wl_done b) eqn:B.
    + destruct (e_wl_new0 A eq_refl) as (X & Y & Z). split; [auto|]. destruct e_inQ1 as [q Hq], e_rq1 as [r Hr].
      rewrite Hr, Y, Hq, Z. auto.
    + auto.
  - intros A C. destruct (cc_rl_done b) eqn:B; auto.
  - destruct e_out0 as (l1 & H1 & F1), e_out1 as (l2 & H2 & F2). exists (l2 ++ l1). rewrite H2, H1, app_assoc.
    split; [reflexivity | apply Forall_app; auto].
  - eapply pend_sub_trans; eassumption.
  - eapply W_trans; eassumption.
  - intros t x z Gx Gz Fx Fz. destruct (e_ctx0 _ _ Gx) as (y & Gy & _). destruct (ct_finished y) eqn:Fy.
    + destruct (e_fin0 _ _ _ Gx Gy Fx Fy) as [NH NP]. split.
      * intro H. apply NH. destruct H as [H|H]; [left|right].
        -- destruct e_inQ1 as [p Hp]. rewrite Hp in H. apply filter_In in H. apply H.
        -- destruct e_rq1 as [p Hp]. rewrite Hp in H. apply in_map_iff in H. destruct H as (en & <- & H). apply filter_In in H. apply in_map, H.
      * intros pb Hpb. destruct (proj1 e_pending1 _ Hpb) as (pb1 & I1 & _ & B1). rewrite B1. apply NP, I1.
    + apply (e_fin1 _ _ _ Gy Gz Fy Fz).
Qed.

Lemma eff_weaken (P Q : coutev -> Prop) c c' : (forall o, P o -> Q o) -> eff P c c' -> eff Q c c'.
Proof.
  intros H []. constructor; auto. destruct e_out0 as (l & E & F). exists l. split; [assumption|].
  eapply Forall_impl; eassumption.
Qed.

(* c' differs from c in none of the fields eff looks at, except that the trace may have grown, frames may have been
   queued, and pending bodies may have changed or gone *)
Lemma eff_frame P c c' l :
  cc_ctxs c' = cc_ctxs c -> cc_inQ c' = cc_inQ c -> cc_reqQueued c' = cc_reqQueued c -> cc_nextID c' = cc_nextID c ->
  cc_goAway c' = cc_goAway c -> cc_closed c' = cc_closed c -> cc_wl_done c' = cc_wl_done c -> cc_rl_done c' = cc_rl_done c ->
  cc_rl_stuck c' = cc_rl_stuck c -> cc_wl_stuck c' = cc_wl_stuck c ->
  cc_hdrStream c' = cc_hdrStream c -> cc_hdrStatus c' = cc_hdrStatus c -> cc_hdrErr c' = cc_hdrErr c ->
  cc_hdrEndStream c' = cc_hdrEndStream c -> cc_lastErr c' = cc_lastErr c ->
  (Forall (fun o => benign o = true) (cc_outQ c) -> Forall (fun o => benign o = true) (cc_outQ c')) ->
  pend_sub (cc_pending c') (cc_pending c) ->
  cc_out c' = l ++ cc_out c -> Forall P l -> eff P c c'.
Proof.
  intros H1 H2 H3 H4 H5 H6 H7 H8 H9 H10 W1 W2 W3 W4 W5 H11 H12 H13 H14. constructor; try congruence; auto; try (rewrite W3; auto).
  - intros t x H. exists x. unfold cl_ctx_get in *. rewrite H1. split; [assumption | apply cev_refl].
  - exists (fun _ => true). rewrite H2. apply filter_true.
  - exists (fun _ => true). rewrite H3. apply filter_true.
  - exists l. auto.
  - intros t x x' G G' F F'. unfold cl_ctx_get in *. rewrite H1, G in G'. inversion G'; subst. congruence.
Qed.

(* the lookup the other way round *)
Lemma eff_ctx_back P c c' t x' : eff P c c' -> cl_ctx_get c' t = Some x' -> exists x, cl_ctx_get c t = Some x /\ cev x x'.
Proof.
  intros E H. destruct (cl_ctx_get c t) as [x|] eqn:G.
  - destruct (e_ctx _ _ _ E _ _ G) as (x'' & H' & C). exists x. split; [reflexivity|]. congruence.
  - exfalso. unfold cl_ctx_get in *. apply cl_ctxs_get_None_tags in G. rewrite <- (e_tags _ _ _ E) in G.
    apply cl_ctxs_get_None_tags in G. congruence.
Qed.

Lemma eff_ctx_none P c c' t : eff P c c' -> cl_ctx_get c t = None -> cl_ctx_get c' t = None.
Proof.
  intros E G. unfold cl_ctx_get in *. apply cl_ctxs_get_None_tags. rewrite (e_tags _ _ _ E). apply cl_ctxs_get_None_tags, G.
Qed.

(* lookup-based: see st_tags_nodup for the In-based reading *)
Definition nostuck c : Prop :=
  (forall t x, cl_ctx_get c t = Some x -> ct_lckStuck x = false) /\ cc_rl_stuck c = false /\ cc_wl_stuck c = false.

Lemma eff_nostuck P c c' : eff P c c' -> nostuck c -> nostuck c'.
Proof.
  intros E (A & B & C). split; [|split].
  - intros t x' H. destruct (eff_ctx_back _ _ _ _ _ E H) as (x & G & V). rewrite (cev_lckStuck _ _ V). eauto.
  - rewrite (e_rl_stuck _ _ _ E). assumption.
  - rewrite (e_wl_stuck _ _ _ E). assumption.
Qed.

End Eff.

(* ---------- the effect of the small helpers ---------- *)
Section EffHelpers.
Context {hstate : Type}.
Implicit Types c : cconn hstate.
Variable P : coutev -> Prop.
Hypothesis Pben : forall o, benign o = true -> P o.

(* the general frame: tables may shrink, goAway / closed may be set *)
Lemma eff_frame' c c' l :
  cc_ctxs c' = cc_ctxs c -> (exists p, cc_inQ c' = filter p (cc_inQ c)) ->
  (exists p, cc_reqQueued c' = filter p (cc_reqQueued c)) -> cc_nextID c' = cc_nextID c ->
  (cc_goAway c = true -> cc_goAway c' = true) -> (cc_closed c = true -> cc_closed c' = true) ->
  cc_wl_done c' = cc_wl_done c -> cc_rl_done c' = cc_rl_done c ->
  cc_rl_stuck c' = cc_rl_stuck c -> cc_wl_stuck c' = cc_wl_stuck c ->
  cc_hdrStream c' = cc_hdrStream c -> cc_hdrStatus c' = cc_hdrStatus c -> cc_hdrErr c' = cc_hdrErr c ->
  cc_hdrEndStream c' = cc_hdrEndStream c -> cc_lastErr c' = cc_lastErr c ->
  (Forall (fun o => benign o = true) (cc_outQ c) -> Forall (fun o => benign o = true) (cc_outQ c')) ->
  pend_sub (cc_pending c') (cc_pending c) ->
  cc_out c' = l ++ cc_out c -> Forall P l -> eff P c c'.
Proof.
  intros H1 H2 H3 H4 H5 H6 H7 H8 H9 H10 W1 W2 W3 W4 W5 H11 H12 H13 H14. constructor; try congruence; auto; try (rewrite W3; auto).
  - intros t x H. exists x. unfold cl_ctx_get in *. rewrite H1. split; [assumption | apply cev_refl].
  - exists l. auto.
  - intros t x x' G G' F F'. unfold cl_ctx_get in *. rewrite H1, G in G'. inversion G'; subst. congruence.
Qed.

Lemma same_filter {A} (l' l : list A) : l' = l -> exists p, l' = filter p l.
Proof. intros ->. exists (fun _ => true). apply filter_true. Qed.

Lemma eff_note c o : P o -> eff P c (cl_note c o).
Proof.
  intro H. apply (eff_frame P c _ [o]); try reflexivity; auto. apply pending_same. reflexivity.
Qed.

Lemma eff_notes c l : Forall P l -> eff P c (cl_notes c l).
Proof.
  intro H. rewrite cl_notes_eq. apply (eff_frame P c _ (rev l)); try reflexivity; auto.
  - apply pending_same. reflexivity.
  - apply Forall_rev. assumption.
Qed.

Lemma eff_ctx_put_gen c x x' : cl_ctx_get c (ct_tag x') = Some x -> cev x x' ->
  (ct_finished x = false -> ct_finished x' = true ->
   ~ held c (ct_tag x') /\ forall pb, In pb (cc_pending c) -> pb_tag pb <> ct_tag x') -> eff P c (cl_ctx_put c x').
Proof.
  intros G V HF. constructor; try reflexivity; auto; try congruence;
    try (unfold cl_ctx_put; cc_cbn; intros; congruence).
  - apply tags_cl_ctx_put.
  - intros t y H. rewrite cl_ctx_get_put. destruct (t =? ct_tag x') eqn:E.
    + replace t with (ct_tag x') in * by lia. rewrite H. exists x'. split; [reflexivity|]. congruence.
    + exists y. split; [assumption | apply cev_refl].
  - exists (fun _ => true). apply filter_true.
  - exists (fun _ => true). apply filter_true.
  - exists []. split; [reflexivity | constructor].
  - apply pending_same. reflexivity.
  - intros t y y' Gy Gy' Fy Fy'. rewrite cl_ctx_get_put in Gy'. destruct (t =? ct_tag x') eqn:E.
    + apply N.eqb_eq in E. subst t. rewrite Gy in Gy'. inversion Gy'; subst y'. rewrite G in Gy. inversion Gy; subst y. apply HF; assumption.
    + rewrite Gy in Gy'. inversion Gy'; subst y'. congruence.
Qed.

Lemma eff_ctx_put c x x' : cl_ctx_get c (ct_tag x') = Some x -> cev x x' -> ct_finished x' = ct_finished x -> eff P c (cl_ctx_put c x').
Proof. intros G V F. apply eff_ctx_put_gen with x; auto. intros A B. congruence. Qed.

(* an update that does not finish the request *)
Lemma eff_ctx_upd' c tag f : (forall x, cl_ctx_get c tag = Some x -> cev x (f x) /\ ct_finished (f x) = ct_finished x) ->
  eff P c (cl_ctx_upd c tag f).
Proof.
  intro Hf. unfold cl_ctx_upd. destruct (cl_ctx_get c tag) as [x|] eqn:G; [|apply eff_refl]. destruct (Hf x eq_refl) as [V F].
  apply eff_ctx_put with x; [|exact V | exact F]. rewrite (cev_tag _ _ V).
  destruct (cl_ctxs_get_In _ _ _ G) as [_ ->]. assumption.
Qed.

(* markFinished (+ resolve): the request must have left the queue and the table *)
Lemma eff_ctx_upd_fin c tag f : (forall x, cl_ctx_get c tag = Some x -> cev x (f x)) -> ~ held c tag ->
  (forall pb, In pb (cc_pending c) -> pb_tag pb <> tag) -> eff P c (cl_ctx_upd c tag f).
Proof.
  intros Hf NH NP. unfold cl_ctx_upd. destruct (cl_ctx_get c tag) as [x|] eqn:G; [|apply eff_refl]. pose proof (Hf x eq_refl) as V.
  destruct (cl_ctxs_get_In _ _ _ G) as [_ T].
  apply eff_ctx_put_gen with x; [rewrite (cev_tag _ _ V), T; exact G | exact V|]. intros _ _. rewrite (cev_tag _ _ V), T. split; [exact NH | exact NP].
Qed.

Lemma eff_ctx_upd c tag f : (forall x, cev x (f x)) -> (forall x, ct_finished (f x) = ct_finished x) -> eff P c (cl_ctx_upd c tag f).
Proof. intros Hf Hg. apply eff_ctx_upd'. intros x _. auto. Qed.

Lemma finished_resolve x e : ct_finished (cl_ctx_resolve x e) = ct_finished x.
Proof. rewrite cl_ctx_resolve_eq. destruct (_ && _); reflexivity. Qed.

Lemma eff_resolve c tag e : Eall e -> eff P c (cl_resolve c tag e).
Proof. intro He. apply eff_ctx_upd; [intro x; apply cev_resolve, He | intro x; apply finished_resolve]. Qed.

Lemma eff_resolve_all c tags e : Eall e -> eff P c (cl_resolve_all c tags e).
Proof.
  intro He. revert c. induction tags as [|t r IH]; intro c; cbn [cl_resolve_all]; [apply eff_refl|].
  eapply eff_trans; [apply eff_resolve, He | apply IH].
Qed.

Ltac by_frame l :=
  apply (eff_frame' _ _ l);
  [ first [reflexivity | cc_unf] | apply same_filter; first [reflexivity | cc_unf] | apply same_filter; first [reflexivity | cc_unf]
  | first [reflexivity | cc_unf] | intro; first [assumption | cc_unf] | intro; first [assumption | cc_unf]
  | first [reflexivity | cc_unf] | first [reflexivity | cc_unf] | first [reflexivity | cc_unf] | first [reflexivity | cc_unf]
  | first [reflexivity | cc_unf] | first [reflexivity | cc_unf] | first [reflexivity | cc_unf] | first [reflexivity | cc_unf]
  | first [reflexivity | cc_unf]
  | | | | ].

Lemma eff_set_last_err c e : e <> CENil -> eff P c (cl_set_last_err c e).
Proof.
  intro Ne. unfold cl_set_last_err. destruct (cc_lastErr c) eqn:L; [apply eff_refl|].
  constructor; try reflexivity; cbn [cc_ctxs cc_inQ cc_reqQueued cc_nextID cc_goAway cc_closed cc_wl_done cc_rl_done cc_rl_stuck
                                     cc_wl_stuck cc_out cc_outQ cc_pending cc_hdrErr cc_lastErr ccu_lastErr]; auto; try congruence.
  - intros t x G. exists x. split; [exact G | apply cev_refl].
  - exists (fun _ => true). apply filter_true.
  - exists (fun _ => true). apply filter_true.
  - exists []. split; [reflexivity | constructor].
  - apply pending_same. reflexivity.
  - intros t x x' G G' F F'. unfold cl_ctx_get in *. cbn [cc_ctxs ccu_lastErr] in G'. rewrite G in G'. inversion G'; subst. congruence.
Qed.

Lemma eff_take_req_count c id : eff P c (cl_take_req_count c id).
Proof.
  apply (eff_frame' _ _ []).
  - apply cc_ctxs_cl_take_req_count.
  - apply same_filter, cc_inQ_cl_take_req_count.
  - eexists. apply cc_reqQueued_cl_take_req_count.
  - apply cc_nextID_cl_take_req_count.
  - rewrite cc_goAway_cl_take_req_count. auto.
  - rewrite cc_closed_cl_take_req_count. auto.
  - apply cc_wl_done_cl_take_req_count.
  - apply cc_rl_done_cl_take_req_count.
  - apply cc_rl_stuck_cl_take_req_count.
  - apply cc_wl_stuck_cl_take_req_count.
  - apply cc_hdrStream_cl_take_req_count.
  - apply cc_hdrStatus_cl_take_req_count.
  - apply cc_hdrErr_cl_take_req_count.
  - apply cc_hdrEndStream_cl_take_req_count.
  - apply cc_lastErr_cl_take_req_count.
  - rewrite cc_outQ_cl_take_req_count. auto.
  - apply pending_same, cc_pending_cl_take_req_count.
  - rewrite cc_out_cl_take_req_count. reflexivity.
  - constructor.
Qed.

Lemma eff_write_out c o : benign o = true -> eff P c (cl_write_out c o).
Proof.
  intro B. by_frame (@nil coutev).
  - rewrite cc_outQ_cl_write_out. destruct (cc_closed c); [auto|]. intro H. apply Forall_app. split; [assumption|]. repeat constructor. assumption.
  - apply pending_same. apply cc_pending_cl_write_out.
  - rewrite cc_out_cl_write_out. reflexivity.
  - constructor.
Qed.

Lemma eff_cancel_stream c id code : eff P c (cl_cancel_stream c id code).
Proof. apply eff_write_out. reflexivity. Qed.
Lemma eff_update_window c sid n : eff P c (cl_update_window c sid n).
Proof. apply eff_write_out. reflexivity. Qed.

Lemma eff_signal_window c : eff P c (cl_signal_window c).
Proof. apply (eff_frame P c _ []); try reflexivity; auto. apply pending_same. reflexivity. Qed.

Lemma eff_conn_close c : eff P c (cl_conn_close c).
Proof.
  apply (eff_frame' _ _ (if negb (cc_closed c) && cl_can_write c then [COGoAway 0 c_NoError] else [])).
  - apply cc_ctxs_cl_conn_close.
  - apply same_filter, cc_inQ_cl_conn_close.
  - apply same_filter, cc_reqQueued_cl_conn_close.
  - apply cc_nextID_cl_conn_close.
  - rewrite cc_goAway_cl_conn_close. auto.
  - intros _. apply cc_closed_cl_conn_close.
  - apply cc_wl_done_cl_conn_close.
  - apply cc_rl_done_cl_conn_close.
  - apply cc_rl_stuck_cl_conn_close.
  - apply cc_wl_stuck_cl_conn_close.
  - apply cc_hdrStream_cl_conn_close.
  - apply cc_hdrStatus_cl_conn_close.
  - apply cc_hdrErr_cl_conn_close.
  - apply cc_hdrEndStream_cl_conn_close.
  - apply cc_lastErr_cl_conn_close.
  - rewrite cc_outQ_cl_conn_close. auto.
  - apply pending_same, cc_pending_cl_conn_close.
  - rewrite cc_out_cl_conn_close. destruct (negb (cc_closed c) && cl_can_write c); reflexivity.
  - destruct (negb (cc_closed c) && cl_can_write c); repeat constructor. apply Pben. reflexivity.
Qed.

Lemma eff_close_body c pb : eff P c (cl_close_body c pb).
Proof.
  unfold cl_close_body. destruct (pb_stream pb); [|apply eff_refl].
  eapply eff_trans; [apply eff_ctx_upd; [intro; apply cev_bodyClosed | reflexivity] | apply eff_note, Pben; reflexivity].
Qed.

(* a goroutine that holds no Ctx.lck takes one: never the outcome "parked" while no lck is stuck *)
Lemma acquire_for_nostuck c tag id : nostuck c ->
  cl_acquire_for [] c tag id = CLOk \/ cl_acquire_for [] c tag id = CLRefused.
Proof.
  intros (A & _ & _). unfold cl_acquire_for. destruct (cl_ctx_get c tag) as [x|] eqn:G; [|auto].
  cbn [existsb]. rewrite (A _ _ G). destruct (ct_done x || negb (ct_conn x) || negb (ct_sid x =? id)); auto.
Qed.

Lemma nostuck_ccu_pending c l : nostuck c -> nostuck (ccu_pending c l).
Proof. intros H. exact H. Qed.

Lemma eff_delete_pending who c id : nostuck c ->
  eff P c (fst (cl_delete_pending who [] c id)) /\ snd (cl_delete_pending who [] c id) = false.
Proof.
  intro NS. unfold cl_delete_pending. destruct (cl_pend_get (cc_pending c) id) as [pb|] eqn:G; [|split; [apply eff_refl | reflexivity]].
  assert (E1 : eff P c (ccu_pending c (cl_pend_del (cc_pending c) id))).
  { apply (eff_frame P c _ []); try reflexivity; auto. apply pending_del. }
  destruct (pb_stream pb) eqn:S; [|split; [exact E1 | reflexivity]].
  destruct (acquire_for_nostuck (ccu_pending c (cl_pend_del (cc_pending c) id)) (pb_tag pb) id NS) as [-> | ->]; cbn [fst snd].
  - split; [|reflexivity]. eapply eff_trans; [exact E1 | apply eff_close_body].
  - split; [exact E1 | reflexivity].
Qed.

Lemma cc_pending_cl_delete_pending' who hl c id :
  cc_pending (fst (cl_delete_pending who hl c id)) = cl_pend_del (cc_pending c) id.
Proof.
  unfold cl_delete_pending. destruct (cl_pend_get (cc_pending c) id) as [pb|] eqn:G; [|cbn [fst]; symmetry; apply cl_pend_del_absent, G].
  destruct (pb_stream pb); [|reflexivity]. destruct (cl_acquire_for hl _ (pb_tag pb) id); cbn [fst];
    rewrite ?cc_pending_cl_close_body, ?cc_pending_cl_go_stuck; reflexivity.
Qed.

Lemma eff_apply_initial_window c size : eff P c (cl_apply_initial_window c size).
Proof.
  apply (eff_frame P c _ []); try reflexivity; auto.
  apply pending_map. intro pb. split; reflexivity.
Qed.

Lemma eff_add_window c sid inc : eff P c (cl_add_window c sid inc).
Proof.
  unfold cl_add_window. eapply eff_trans; [|apply eff_signal_window].
  destruct (sid =? 0).
  - apply (eff_frame P c _ []); try reflexivity; auto. apply pending_same. reflexivity.
  - destruct (cl_pend_get (cc_pending c) sid) as [pb|] eqn:G; [|apply eff_refl].
    apply (eff_frame P c _ []); try reflexivity; auto. cbn [cc_pending ccu_pending].
    destruct (cl_pend_get_In _ _ _ G). apply pending_put with pb; auto.
Qed.

Lemma eff_handle_settings c st : eff P c (cl_handle_settings c st).
Proof.
  unfold cl_handle_settings. eapply eff_trans; [|apply eff_write_out; reflexivity].
  set (c1 := ccu_maxFrame _ _).
  assert (E1 : eff P c c1). { apply (eff_frame P c _ []); try reflexivity; auto. apply pending_same. reflexivity. }
  eapply eff_trans; [exact E1|].
  destruct (cl_settings_has st c_HeaderTableSize).
  - eapply eff_trans; [apply (eff_frame P c1 (ccu_encTableSize c1 (cs_table st)) []); try reflexivity; auto; apply pending_same; reflexivity|].
    destruct (cs_hasWin st); [apply eff_apply_initial_window | apply eff_refl].
  - destruct (cs_hasWin st); [apply eff_apply_initial_window | apply eff_refl].
Qed.

Lemma eff_finish c tag id e : (forall x, cl_ctx_get c tag = Some x -> Eok (ct_sid x) e) ->
  ~ In tag (cc_inQ c) -> (forall i, In (i, tag) (cc_reqQueued c) -> i = id) ->
  NoDup (map pb_id (cc_pending c)) -> (forall pb, In pb (cc_pending c) -> pb_tag pb = tag -> pb_id pb = id) ->
  eff P c (cl_finish c tag id e).
Proof.
  intros He NQ NR' PND PT. unfold cl_finish.
  set (c1 := cl_take_req_count c id).
  set (c2 := match cl_pend_get (cc_pending c1) id with Some pb => cl_close_body (ccu_pending c1 (cl_pend_del (cc_pending c1) id)) pb | None => c1 end).
  assert (E2 : eff P c c2).
  { eapply eff_trans; [apply eff_take_req_count|]. unfold c2. fold c1.
    destruct (cl_pend_get (cc_pending c1) id) as [pb|]; [|apply eff_refl].
    eapply eff_trans; [|apply eff_close_body].
    apply (eff_frame P c1 _ []); try reflexivity; auto. apply pending_del. }
  eapply eff_trans; [exact E2|]. apply eff_ctx_upd_fin.
  - intros x2 G2. apply cev_finish_resolve.
    destruct (eff_ctx_back _ _ _ _ _ E2 G2) as (x & G & V). rewrite (cev_sid _ _ V). apply He, G.
  - assert (I2 : cc_inQ c2 = cc_inQ c).
    { unfold c2. destruct (cl_pend_get (cc_pending c1) id); [rewrite cc_inQ_cl_close_body; cbn [cc_inQ ccu_pending]|]; apply cc_inQ_cl_take_req_count. }
    assert (Q2 : cc_reqQueued c2 = filter (fun en => negb (fst en =? id)) (cc_reqQueued c)).
    { unfold c2. destruct (cl_pend_get (cc_pending c1) id); [rewrite cc_reqQueued_cl_close_body; cbn [cc_reqQueued ccu_pending]|]; apply cc_reqQueued_cl_take_req_count. }
    intros [H|H]; [rewrite I2 in H; contradiction|]. rewrite Q2 in H. apply in_map_iff in H. destruct H as ([i u] & Hu & H). cbn in Hu. subst u.
    apply filter_In in H. destruct H as [H F]. cbn in F. rewrite (NR' i H), N.eqb_refl in F. discriminate.
  - assert (P1 : cc_pending c1 = cc_pending c) by apply cc_pending_cl_take_req_count.
    unfold c2. destruct (cl_pend_get (cc_pending c1) id) as [pb0|] eqn:PG.
    + intros pb J. rewrite cc_pending_cl_close_body in J. cbn [cc_pending ccu_pending] in J. rewrite P1 in J.
      apply (pend_del_no_tag (cc_pending c) id tag PND PT pb J).
    + intros pb J E'. rewrite P1 in J, PG. apply (cl_pend_get_None _ _ PG pb J). apply PT; assumption.
Qed.

End EffHelpers.

(* ---------- the structural invariant, and "nothing is dropped unanswered" ---------- *)
Section Struct.
Context {hstate : Type}.
Implicit Types c : cconn hstate.

(* whoever lets go of a request answers it *)
Definition obl c c' : Prop :=
  forall t, held c t -> ~ held c' t -> exists x', cl_ctx_get c' t = Some x' /\ answered x' = true.

Definition effo (P : coutev -> Prop) c c' : Prop := eff P c c' /\ obl c c'.

Lemma held_filter P c c' t : eff P c c' -> held c' t -> held c t.
Proof.
  intros E [H|H]; [left|right].
  - destruct (e_inQ _ _ _ E) as [p Hp]. rewrite Hp in H. apply filter_In in H. tauto.
  - destruct (e_rq _ _ _ E) as [p Hp]. rewrite Hp in H. apply in_map_iff in H. destruct H as (e & <- & H).
    apply filter_In in H. apply in_map. tauto.
Qed.

Lemma effo_refl P c : effo P c c.
Proof. split; [apply eff_refl|]. intros t H N. contradiction. Qed.

Lemma held_dec c t : held c t \/ ~ held c t.
Proof.
  unfold held. destruct (in_dec N.eq_dec t (cc_inQ c)); [auto|].
  destruct (in_dec N.eq_dec t (map snd (cc_reqQueued c))); tauto.
Qed.

Lemma effo_trans P a b c : effo P a b -> effo P b c -> effo P a c.
Proof.
  intros [E1 O1] [E2 O2]. split; [eapply eff_trans; eassumption|].
  intros t H N. destruct (held_dec b t) as [B|B]; [auto|].
  destruct (O1 t H B) as (y & G & A). destruct (e_ctx _ _ _ E2 _ _ G) as (z & G' & V).
  exists z. split; [assumption | eapply cev_answered; eassumption].
Qed.

Lemma effo_weaken (P Q : coutev -> Prop) c c' : (forall o, P o -> Q o) -> effo P c c' -> effo Q c c'.
Proof. intros H [E O]. split; [eapply eff_weaken; eassumption | assumption]. Qed.

(* nothing let go *)
Lemma effo_keep P c c' : eff P c c' -> cc_inQ c' = cc_inQ c -> cc_reqQueued c' = cc_reqQueued c -> effo P c c'.
Proof. intros E A B. split; [assumption|]. intros t H N. exfalso. apply N. unfold held in *. rewrite A, B. assumption. Qed.

Record st_ok c : Prop := mkStOk {
  s_tags : NoDup (map ct_tag (cc_ctxs c));
  s_nostuck : nostuck c;
  s_inQ_nodup : NoDup (cc_inQ c);
  s_inQ : forall t, In t (cc_inQ c) -> exists x, cl_ctx_get c t = Some x /\ ct_sid x = 0 /\ ct_conn x = false;
  s_rq_ids : NoDup (map fst (cc_reqQueued c));
  s_rq_tags : NoDup (map snd (cc_reqQueued c));
  s_rq : forall id t, In (id, t) (cc_reqQueued c) ->
         exists x, cl_ctx_get c t = Some x /\ ct_sid x = id /\ ct_conn x = true /\ id <> 0 /\ id < cc_nextID c;
  s_ret : forall t x, cl_ctx_get c t = Some x ->
          ct_resolved x = ct_returned x /\ (ct_returned x = true -> ct_err x = None /\ ct_done x = true);
  s_sid : forall t x, cl_ctx_get c t = Some x -> ct_sid x < cc_nextID c /\ (ct_conn x = false -> ct_sid x = 0);
  s_sid_unique : forall t t' x x', cl_ctx_get c t = Some x -> cl_ctx_get c t' = Some x' ->
                 ct_sid x = ct_sid x' -> ct_sid x <> 0 -> t = t';
  s_next : 0 < cc_nextID c;
  s_wl_done : cc_wl_done c = true -> cc_closed c = true /\ cc_reqQueued c = [];
  s_rl_done : cc_rl_done c = true -> cc_closed c = true;
  s_outQ : Forall (fun o => benign o = true) (cc_outQ c);
  s_hdrErr : herr_ok (cc_hdrErr c);
  s_lastErr : cc_lastErr c <> Some CENil;
  s_pending : forall pb, In pb (cc_pending c) ->
              pb_id pb < cc_nextID c /\ forall t, In (pb_id pb, t) (cc_reqQueued c) -> t = pb_tag pb;
  (* a pending body belongs to the Ctx that has its stream *)
  s_pb : forall pb, In pb (cc_pending c) -> pb_id pb <> 0 /\ exists x, cl_ctx_get c (pb_tag pb) = Some x /\ ct_sid x = pb_id pb;
  s_pnd : NoDup (map pb_id (cc_pending c))
}.

Lemma NoDup_map_filter {A B} (f : A -> B) p l : NoDup (map f l) -> NoDup (map f (filter p l)).
Proof.
  induction l as [|a l IH]; cbn [map filter]; [auto|]. intro H. inversion H as [|? ? NI ND]; subst.
  destruct (p a); cbn [map]; [|auto]. constructor; [|auto]. intro I. apply NI.
  apply in_map_iff in I. destruct I as (b & E & I). apply filter_In in I. rewrite <- E. apply in_map. tauto.
Qed.

Lemma st_ok_eff P c c' : st_ok c -> eff P c c' -> st_ok c'.
Proof.
  intros S E. destruct (e_inQ _ _ _ E) as [p Hp]. destruct (e_rq _ _ _ E) as [q Hq]. constructor.
  - rewrite (e_tags _ _ _ E). apply S.
  - eapply eff_nostuck; [eassumption | apply S].
  - rewrite Hp. apply NoDup_filter, S.
  - intros t H. rewrite Hp in H. apply filter_In in H. destruct (s_inQ _ S t (proj1 H)) as (x & G & A & B).
    destruct (e_ctx _ _ _ E _ _ G) as (x' & G' & V). exists x'. rewrite (cev_sid _ _ V), (cev_conn _ _ V). auto.
  - rewrite Hq. apply NoDup_map_filter, S.
  - rewrite Hq. apply NoDup_map_filter, S.
  - intros id t H. rewrite Hq in H. apply filter_In in H. destruct (s_rq _ S id t (proj1 H)) as (x & G & A & B & C & D).
    destruct (e_ctx _ _ _ E _ _ G) as (x' & G' & V). exists x'.
    rewrite (cev_sid _ _ V), (cev_conn _ _ V), (e_nextID _ _ _ E). auto.
  - intros t x' G'. destruct (eff_ctx_back _ _ _ _ _ E G') as (x & G & V). destruct (s_ret _ S _ _ G) as [A B].
    rewrite (cev_resolved _ _ V), (cev_returned _ _ V), (cev_done _ _ V). split; [assumption|]. intro R.
    destruct (B R) as [B1 B2]. split; [|assumption].
    destruct (cev_err _ _ V) as [F|(_ & F & _)]; [congruence|]. rewrite A, R in F. discriminate.
  - intros t x' G'. destruct (eff_ctx_back _ _ _ _ _ E G') as (x & G & V). destruct (s_sid _ S _ _ G) as [A B].
    rewrite (cev_sid _ _ V), (cev_conn _ _ V), (e_nextID _ _ _ E). auto.
  - intros t t' x1 x1' G1 G1'. destruct (eff_ctx_back _ _ _ _ _ E G1) as (x & G & V). destruct (eff_ctx_back _ _ _ _ _ E G1') as (x' & G' & V').
    rewrite (cev_sid _ _ V), (cev_sid _ _ V'). apply (s_sid_unique _ S _ _ _ _ G G').
  - rewrite (e_nextID _ _ _ E). apply S.
  - intro W. destruct (cc_wl_done c) eqn:W0.
    + destruct (s_wl_done _ S W0) as [A B]. split; [apply (e_closed _ _ _ E A)|]. rewrite Hq, B. reflexivity.
    + destruct (e_wl_new _ _ _ E W0 W) as (A & B & _). auto.
  - intro W. destruct (cc_rl_done c) eqn:W0.
    + apply (e_closed _ _ _ E), (s_rl_done _ S W0).
    + apply (e_rl_new _ _ _ E W0 W).
  - apply (e_outQ _ _ _ E), S.
  - apply (e_hdrErr _ _ _ E), S.
  - apply (e_lastErr _ _ _ E), S.
  - intros pb' H. destruct (proj1 (e_pending _ _ _ E) _ H) as (pb & I & A & B). destruct (s_pending _ S _ I) as [C D].
    rewrite A, B, (e_nextID _ _ _ E). split; [assumption|]. intros t J. apply D. rewrite Hq in J. apply filter_In in J. tauto.
  - intros pb' H. destruct (proj1 (e_pending _ _ _ E) _ H) as (pb & I & A & B). destruct (s_pb _ S _ I) as (C & x & G & D).
    rewrite A, B. split; [assumption|]. destruct (e_ctx _ _ _ E _ _ G) as (x' & G' & V). exists x'. rewrite (cev_sid _ _ V). auto.
  - apply (proj2 (e_pending _ _ _ E)), S.
Qed.

Record an_ok c : Prop := mkAnOk {
  a_dropped : forall t x, cl_ctx_get c t = Some x -> ~ held c t -> answered x = true;
  a_done : forall t x, cl_ctx_get c t = Some x -> ct_done x = true -> answered x = true;
  a_fired : forall t x, cl_ctx_get c t = Some x -> ct_fired x = true -> answered x = true;
  a_wl : cc_wl_done c = true ->
         forall t x, In t (cc_inQ c) -> cl_ctx_get c t = Some x -> ct_writing x = true \/ answered x = true;
  (* a Ctx marked finished has left the queue and the table: the caller may put it back in the pool *)
  a_fin : forall t x, cl_ctx_get c t = Some x -> ct_finished x = true ->
          ~ held c t /\ forall pb, In pb (cc_pending c) -> pb_tag pb <> t
}.

Lemma an_ok_effo P c c' : an_ok c -> effo P c c' -> an_ok c'.
Proof.
  intros A [E O]. constructor.
  - intros t x' G' N. destruct (held_dec c t) as [H|H].
    + destruct (O t H N) as (y & Gy & Ay). congruence.
    + destruct (eff_ctx_back _ _ _ _ _ E G') as (x & G & V). eapply cev_answered; [eassumption|]. eapply a_dropped; eassumption.
  - intros t x' G' D. destruct (eff_ctx_back _ _ _ _ _ E G') as (x & G & V). eapply cev_answered; [eassumption|].
    eapply a_done; [eassumption..|]. rewrite <- (cev_done _ _ V). assumption.
  - intros t x' G' D. destruct (eff_ctx_back _ _ _ _ _ E G') as (x & G & V). eapply cev_answered; [eassumption|].
    eapply a_fired; [eassumption..|]. rewrite <- (cev_fired _ _ V). assumption.
  - intros W t x' I G'. destruct (eff_ctx_back _ _ _ _ _ E G') as (x & G & V). destruct (cc_wl_done c) eqn:W0.
    + destruct (e_inQ _ _ _ E) as [p Hp]. rewrite Hp in I. apply filter_In in I.
      destruct (a_wl _ A W0 t x (proj1 I) G) as [B|B]; [left; rewrite (cev_writing _ _ V); assumption|].
      right. eapply cev_answered; eassumption.
    + destruct (e_wl_new _ _ _ E W0 W) as (_ & _ & Q). rewrite Q in I. destruct I.
  - intros t x' G' F'. destruct (eff_ctx_back _ _ _ _ _ E G') as (x & G & V). destruct (ct_finished x) eqn:F.
    + destruct (a_fin _ A _ _ G F) as [NH NP]. split.
      * intro H. apply NH. apply (held_filter _ _ _ _ E H).
      * intros pb Hpb. destruct (proj1 (e_pending _ _ _ E) _ Hpb) as (pb0 & I0 & _ & B0). rewrite B0. apply NP, I0.
    + apply (e_fin _ _ _ E _ _ _ G G' F F').
Qed.

End Struct.

(* ---------- effo for the helpers that let go of nothing ---------- *)
Section EffoHelpers.
Context {hstate : Type}.
Implicit Types c : cconn hstate.
Variable P : coutev -> Prop.
Hypothesis Pben : forall o, benign o = true -> P o.

Lemma effo_note c o : P o -> effo P c (cl_note c o).
Proof. intro H. apply effo_keep; [apply eff_note, H | reflexivity | reflexivity]. Qed.
Lemma effo_notes c l : Forall P l -> effo P c (cl_notes c l).
Proof. intro H. apply effo_keep; [apply eff_notes, H | apply cc_inQ_cl_notes | apply cc_reqQueued_cl_notes]. Qed.
Lemma effo_ctx_upd c tag f : (forall x, cev x (f x)) -> (forall x, ct_finished (f x) = ct_finished x) -> effo P c (cl_ctx_upd c tag f).
Proof. intros H H'. apply effo_keep; [apply eff_ctx_upd; assumption | apply cc_inQ_cl_ctx_upd | apply cc_reqQueued_cl_ctx_upd]. Qed.
Lemma effo_ctx_upd_fin c tag f : (forall x, cl_ctx_get c tag = Some x -> cev x (f x)) -> ~ held c tag ->
  (forall pb, In pb (cc_pending c) -> pb_tag pb <> tag) -> effo P c (cl_ctx_upd c tag f).
Proof. intros H H' H''. apply effo_keep; [apply eff_ctx_upd_fin; assumption | apply cc_inQ_cl_ctx_upd | apply cc_reqQueued_cl_ctx_upd]. Qed.
Lemma effo_ctx_put c x x' : cl_ctx_get c (ct_tag x') = Some x -> cev x x' -> ct_finished x' = ct_finished x -> effo P c (cl_ctx_put c x').
Proof. intros G V F. apply effo_keep; [eapply eff_ctx_put; eassumption | reflexivity | reflexivity]. Qed.
Lemma effo_resolve c tag e : Eall e -> effo P c (cl_resolve c tag e).
Proof. intro He. apply effo_keep; [apply eff_resolve, He | apply cc_inQ_cl_resolve | apply cc_reqQueued_cl_resolve]. Qed.
Lemma effo_resolve_all c tags e : Eall e -> effo P c (cl_resolve_all c tags e).
Proof. intro He. apply effo_keep; [apply eff_resolve_all, He | apply cc_inQ_cl_resolve_all | apply cc_reqQueued_cl_resolve_all]. Qed.
Lemma effo_set_last_err c e : e <> CENil -> effo P c (cl_set_last_err c e).
Proof. intro Ne. apply effo_keep; [apply eff_set_last_err; assumption | apply cc_inQ_cl_set_last_err | apply cc_reqQueued_cl_set_last_err]. Qed.
Lemma effo_write_out c o : benign o = true -> effo P c (cl_write_out c o).
Proof. intro H. apply effo_keep; [apply eff_write_out; assumption | apply cc_inQ_cl_write_out | apply cc_reqQueued_cl_write_out]. Qed.
Lemma effo_cancel_stream c id code : effo P c (cl_cancel_stream c id code).
Proof. apply effo_write_out. reflexivity. Qed.
Lemma effo_update_window c sid n : effo P c (cl_update_window c sid n).
Proof. apply effo_write_out. reflexivity. Qed.
Lemma effo_conn_close c : effo P c (cl_conn_close c).
Proof. apply effo_keep; [apply eff_conn_close; assumption | apply cc_inQ_cl_conn_close | apply cc_reqQueued_cl_conn_close]. Qed.
Lemma effo_close_body c pb : effo P c (cl_close_body c pb).
Proof. apply effo_keep; [apply eff_close_body; assumption | apply cc_inQ_cl_close_body | apply cc_reqQueued_cl_close_body]. Qed.
Lemma effo_delete_pending who c id : nostuck c ->
  effo P c (fst (cl_delete_pending who [] c id)) /\ snd (cl_delete_pending who [] c id) = false.
Proof.
  intro NS. destruct (eff_delete_pending P Pben who c id NS) as [E F]. split; [|assumption].
  apply effo_keep; [assumption | apply cc_inQ_cl_delete_pending | apply cc_reqQueued_cl_delete_pending].
Qed.
Lemma effo_add_window c sid inc : effo P c (cl_add_window c sid inc).
Proof. apply effo_keep; [apply eff_add_window | apply cc_inQ_cl_add_window | apply cc_reqQueued_cl_add_window]. Qed.
Lemma effo_handle_settings c st : effo P c (cl_handle_settings c st).
Proof. apply effo_keep; [apply eff_handle_settings; assumption | apply cc_inQ_cl_handle_settings | apply cc_reqQueued_cl_handle_settings]. Qed.

(* a frame step *)
Lemma effo_frame c c' l :
  cc_ctxs c' = cc_ctxs c -> cc_inQ c' = cc_inQ c -> cc_reqQueued c' = cc_reqQueued c -> cc_nextID c' = cc_nextID c ->
  cc_goAway c' = cc_goAway c -> cc_closed c' = cc_closed c -> cc_wl_done c' = cc_wl_done c -> cc_rl_done c' = cc_rl_done c ->
  cc_rl_stuck c' = cc_rl_stuck c -> cc_wl_stuck c' = cc_wl_stuck c ->
  cc_hdrStream c' = cc_hdrStream c -> cc_hdrStatus c' = cc_hdrStatus c -> cc_hdrErr c' = cc_hdrErr c ->
  cc_hdrEndStream c' = cc_hdrEndStream c -> cc_lastErr c' = cc_lastErr c ->
  (Forall (fun o => benign o = true) (cc_outQ c) -> Forall (fun o => benign o = true) (cc_outQ c')) ->
  pend_sub (cc_pending c') (cc_pending c) ->
  cc_out c' = l ++ cc_out c -> Forall P l -> effo P c c'.
Proof. intros. apply effo_keep; [eapply eff_frame; eassumption | assumption | assumption]. Qed.

(* resolving answers *)
Lemma answered_resolve' x e : ct_resolved x = ct_returned x -> answered (cl_ctx_resolve x e) = true.
Proof.
  intro R. destruct (ct_resolved x) eqn:F; [|apply answered_resolve, F].
  rewrite cl_ctx_resolve_eq, F. cbn [negb andb]. unfold answered. rewrite <- R. reflexivity.
Qed.

Lemma upd_resolve_answered c tag g e x :
  cl_ctx_get c tag = Some x -> (forall y, ct_tag (g y) = ct_tag y) -> ct_resolved (g x) = ct_returned (g x) ->
  exists x', cl_ctx_get (cl_ctx_upd c tag (fun y => cl_ctx_resolve (g y) e)) tag = Some x' /\ answered x' = true.
Proof.
  intros G Hg R. rewrite cl_ctx_get_upd, N.eqb_refl, G.
  - eexists. split; [reflexivity | apply answered_resolve', R].
  - intro y. rewrite ct_tag_cl_ctx_resolve. apply Hg.
Qed.

Lemma upd_resolve_get c tag g e x :
  cl_ctx_get c tag = Some x -> (forall y, ct_tag (g y) = ct_tag y) ->
  cl_ctx_get (cl_ctx_upd c tag (fun y => cl_ctx_resolve (g y) e)) tag = Some (cl_ctx_resolve (g x) e).
Proof.
  intros G Hg. rewrite cl_ctx_get_upd, N.eqb_refl, G; [reflexivity|]. intro y. rewrite ct_tag_cl_ctx_resolve. apply Hg.
Qed.

Lemma resolve_all_answered c tags e t x : Eall e ->
  (forall t x, cl_ctx_get c t = Some x -> ct_resolved x = ct_returned x) -> In t tags -> cl_ctx_get c t = Some x ->
  exists x', cl_ctx_get (cl_resolve_all c tags e) t = Some x' /\ answered x' = true.
Proof.
  intro He. revert c x. induction tags as [|u r IH]; intros c x R I G; [destruct I|]. cbn [cl_resolve_all].
  assert (R' : forall t x, cl_ctx_get (cl_resolve c u e) t = Some x -> ct_resolved x = ct_returned x).
  { intros t' x' G'. destruct (eff_ctx_back _ _ _ _ _ (eff_resolve P c u e He) G') as (y & Gy & V).
    rewrite (cev_resolved _ _ V), (cev_returned _ _ V). eauto. }
  destruct I as [->|I].
  - assert (A : exists y, cl_ctx_get (cl_resolve c t e) t = Some y /\ answered y = true).
    { rewrite cl_ctx_get_resolve, N.eqb_refl, G. eexists. split; [reflexivity | apply answered_resolve'; eauto]. }
    destruct A as (y & Gy & Ay). destruct (e_ctx _ _ _ (eff_resolve_all P (cl_resolve c t e) r e He) _ _ Gy) as (z & Gz & V).
    exists z. split; [assumption | eapply cev_answered; eassumption].
  - destruct (e_ctx _ _ _ (eff_resolve P c u e He) _ _ G) as (y & Gy & V). eapply IH; eassumption.
Qed.

End EffoHelpers.

(* ---------- the write loop below writeRequest ---------- *)
Section EffoWL.
Context {hstate : Type}.
Implicit Types c : cconn hstate.
Variable cfg : cl_config.
Variable P : coutev -> Prop.
Hypothesis Pben : forall o, benign o = true -> P o.

(* stream id is taken off the table, then its Ctx is resolved *)
Lemma obl_take_resolve c c2 id tag g e :
  st_ok c -> eff P c c2 -> cc_inQ c2 = cc_inQ c ->
  cc_reqQueued c2 = filter (fun en => negb (fst en =? id)) (cc_reqQueued c) ->
  (forall t, In (id, t) (cc_reqQueued c) -> t = tag) ->
  (forall y, ct_tag (g y) = ct_tag y) -> (forall y, ct_resolved (g y) = ct_resolved y /\ ct_returned (g y) = ct_returned y) ->
  obl c (cl_ctx_upd c2 tag (fun y => cl_ctx_resolve (g y) e)).
Proof.
  intros S E HI HR Hid Hg Hr t H N.
  assert (K : forall i, In (i, t) (cc_reqQueued c) -> i = id).
  { intros i I. destruct (i =? id) eqn:F; [lia|]. exfalso. apply N. right. rewrite cc_reqQueued_cl_ctx_upd, HR.
    apply in_map_iff. exists (i, t). split; [reflexivity|]. apply filter_In. split; [assumption|]. cbn [fst]. rewrite F. reflexivity. }
  destruct H as [H|H]; [exfalso; apply N; left; rewrite cc_inQ_cl_ctx_upd, HI; assumption|].
  apply in_map_iff in H. destruct H as ([i u] & Hu & I). cbn [snd] in Hu. subst u.
  pose proof (K i I). subst i. pose proof (Hid _ I). subst t.
  destruct (s_rq _ S _ _ I) as (x & G & _). destruct (e_ctx _ _ _ E _ _ G) as (x2 & G2 & V).
  apply upd_resolve_answered with x2; [assumption | assumption|].
  destruct (Hr x2) as [-> ->]. apply (s_ret _ (st_ok_eff _ _ _ S E) _ _ G2).
Qed.

Lemma cc_reqQueued_cl_finish c tag id e :
  cc_reqQueued (cl_finish c tag id e) = filter (fun en => negb (fst en =? id)) (cc_reqQueued c).
Proof.
  unfold cl_finish. rewrite cc_reqQueued_cl_ctx_upd.
  destruct (cl_pend_get (cc_pending (cl_take_req_count c id)) id);
    [rewrite cc_reqQueued_cl_close_body; cbn [cc_reqQueued ccu_pending]|]; apply cc_reqQueued_cl_take_req_count.
Qed.

Lemma effo_finish c tag id e : (forall x, cl_ctx_get c tag = Some x -> Eok (ct_sid x) e) -> st_ok c ->
  (forall t, In (id, t) (cc_reqQueued c) -> t = tag) ->
  ~ In tag (cc_inQ c) -> (forall i, In (i, tag) (cc_reqQueued c) -> i = id) ->
  (forall x, cl_ctx_get c tag = Some x -> ct_sid x = id) -> effo P c (cl_finish c tag id e).
Proof.
  intros He S Hid NQ NR' HSid.
  assert (PT : forall pb, In pb (cc_pending c) -> pb_tag pb = tag -> pb_id pb = id).
  { intros pb J E'. destruct (s_pb _ S _ J) as (_ & y & Gy & Sy). rewrite E' in Gy. rewrite <- Sy. apply HSid, Gy. }
  split; [apply eff_finish; try exact Pben; try assumption; apply (s_pnd _ S)|]. unfold cl_finish.
  set (c2 := match cl_pend_get _ id with Some _ => _ | None => _ end).
  assert (E : eff P c c2).
  { unfold c2. eapply eff_trans; [apply eff_take_req_count|].
    destruct (cl_pend_get (cc_pending (cl_take_req_count c id)) id) as [pb|]; [|apply eff_refl].
    eapply eff_trans; [|apply eff_close_body; try exact Pben].
    apply (eff_frame P _ _ []); try reflexivity; auto. apply pending_del. }
  apply (obl_take_resolve c c2 id tag (fun y => ctu_finished y true) e S E); auto.
  - unfold c2. destruct (cl_pend_get _ id); [rewrite cc_inQ_cl_close_body; cbn [cc_inQ ccu_pending]|]; apply cc_inQ_cl_take_req_count.
  - unfold c2. destruct (cl_pend_get _ id); [rewrite cc_reqQueued_cl_close_body; cbn [cc_reqQueued ccu_pending]|]; apply cc_reqQueued_cl_take_req_count.
Qed.

Lemma data_frames_benign k sid step body endb : Forall (fun o => benign o = true) (cl_data_frames k sid step body endb).
Proof.
  revert body. induction k as [|k IH]; intro body; cbn [cl_data_frames]; [repeat constructor|].
  destruct (len body <=? step); repeat constructor. apply IH.
Qed.
Lemma write_data_benign mf sid body endb : Forall (fun o => benign o = true) (cl_write_data mf sid body endb).
Proof.
  unfold cl_write_data. destruct body; [destruct endb; repeat constructor | apply data_frames_benign].
Qed.

Lemma nostuck_frame c c' : cc_ctxs c' = cc_ctxs c -> cc_rl_stuck c' = cc_rl_stuck c -> cc_wl_stuck c' = cc_wl_stuck c ->
  nostuck c -> nostuck c'.
Proof. intros A B C (X & Y & Z). unfold nostuck, cl_ctx_get. rewrite A, B, C. auto. Qed.

Lemma effo_send_pending fuel c id : st_ok c ->
  effo P c (fst (cl_send_pending fuel c id)) /\ snd (cl_send_pending fuel c id) <> CSPStuck.
Proof.
  revert c. induction fuel as [|fuel IH]; intros c S; cbn [cl_send_pending]; [split; [apply effo_refl | discriminate]|].
  destruct (cl_pend_get (cc_pending c) id) as [pb|] eqn:G; [|split; [apply effo_refl | discriminate]].
  destruct (cl_pend_get_In _ _ _ G) as [Ipb Hid].
  destruct (cl_is_nil (pb_body pb) && match pb_stream pb with Some _ => true | None => false end && negb (pb_drained pb)).
  - destruct (cl_refill pb) as [pb'|] eqn:R.
    + (* refilled *)
      set (c1 := ccu_pending c (cl_pend_put (cc_pending c) pb')).
      assert (E1 : effo P c c1).
      { apply (effo_frame P c c1 []); try reflexivity; auto. cbn [cc_pending c1 ccu_pending].
        apply pending_put with pb; [assumption| |].
        - unfold cl_refill in R. destruct (pb_stream pb); [|inversion R; reflexivity].
          destruct l as [|[ch er] rest]; cbn zeta in R.
          + cbn [cl_is_nil] in R. cbv iota beta in R. inversion R. destruct ((0 <=? pb_size pb) && _)%Z; reflexivity.
          + cbv iota beta in R. destruct er; [destruct (cl_is_nil ch); [discriminate|] | | discriminate]; inversion R;
              repeat match goal with |- context [if ?b then _ else _] => destruct b end; reflexivity.
        - unfold cl_refill in R. destruct (pb_stream pb); [|inversion R; reflexivity].
          destruct l as [|[ch er] rest]; cbn zeta in R.
          + cbn [cl_is_nil] in R. cbv iota beta in R. inversion R. destruct ((0 <=? pb_size pb) && _)%Z; reflexivity.
          + cbv iota beta in R. destruct er; [destruct (cl_is_nil ch); [discriminate|] | | discriminate]; inversion R;
              repeat match goal with |- context [if ?b then _ else _] => destruct b end; reflexivity. }
      destruct (IH c1 (st_ok_eff _ _ _ S (proj1 E1))) as [E2 NS]. split; [eapply effo_trans; eassumption | assumption].
    + (* the reader failed *)
      destruct (effo_delete_pending P Pben 1 c id (s_nostuck _ S)) as [E1 F1].
      destruct (cl_delete_pending 1 [] c id) as [c1 stuck] eqn:D. cbn [fst snd] in E1, F1. subst stuck.
      assert (IQ1 : cc_inQ c1 = cc_inQ c) by (replace c1 with (fst (cl_delete_pending 1 [] c id)) by (rewrite D; reflexivity); apply cc_inQ_cl_delete_pending).
      assert (RQ1 : cc_reqQueued c1 = cc_reqQueued c) by (replace c1 with (fst (cl_delete_pending 1 [] c id)) by (rewrite D; reflexivity); apply cc_reqQueued_cl_delete_pending).
      assert (PD1 : cc_pending c1 = cl_pend_del (cc_pending c) id) by (replace c1 with (fst (cl_delete_pending 1 [] c id)) by (rewrite D; reflexivity); apply cc_pending_cl_delete_pending').
      (* only whoever takes the request off the table ends it *)
      destruct (cl_req_find (cc_reqQueued c1) id) as [tg|]; [|cbn [fst snd]; split; [exact E1 | discriminate]].
      set (c2 := cl_take_req_count c1 id).
      set (c3 := cl_ctx_upd c2 (pb_tag pb) (fun x => cl_ctx_resolve (ctu_finished x true) CEBody)).
      assert (E3 : effo P c c3).
      { split.
        - eapply eff_trans; [apply E1|]. eapply eff_trans; [apply eff_take_req_count|].
          apply eff_ctx_upd_fin; [intros; apply cev_finish_resolve, Enr; [reflexivity | discriminate]| |].
          2:{ (* no other pending body belongs to this Ctx *)
              unfold c2. rewrite cc_pending_cl_take_req_count, PD1.
              apply (pend_del_no_tag (cc_pending c) id (pb_tag pb) (s_pnd _ S)). intros pb2 J2 E2.
              destruct (s_pb _ S _ J2) as (_ & y2 & Gy2 & Sy2). destruct (s_pb _ S _ Ipb) as (_ & y1 & Gy1 & Sy1). rewrite E2 in Gy2. congruence. }
          (* the Ctx of this body has stream id, which has just left the table *)
          destruct (s_pb _ S _ Ipb) as (NZ & xp & Gp & SP0). rewrite Hid in NZ, SP0.
          assert (SP : forall y, cl_ctx_get c (pb_tag pb) = Some y -> ct_sid y = id) by (intros y Gy; congruence).
          intros [H|H].
          + unfold c2 in H. rewrite cc_inQ_cl_take_req_count, IQ1 in H. destruct (s_inQ _ S _ H) as (y & Gy & Zy & _).
            rewrite (SP _ Gy) in Zy. contradiction.
          + unfold c2 in H. rewrite cc_reqQueued_cl_take_req_count, RQ1 in H. apply in_map_iff in H.
            destruct H as ([i u] & Hu & H). cbn in Hu. subst u. apply filter_In in H. destruct H as [H F]. cbn in F.
            destruct (s_rq _ S _ _ H) as (y & Gy & Sy & _). rewrite (SP _ Gy) in Sy. subst i. rewrite N.eqb_refl in F. discriminate.
        - apply (obl_take_resolve c c2 id (pb_tag pb) (fun y => ctu_finished y true) CEBody S); auto.
          + eapply eff_trans; [apply E1 | apply eff_take_req_count].
          + unfold c2. rewrite cc_inQ_cl_take_req_count. exact IQ1.
          + unfold c2. rewrite cc_reqQueued_cl_take_req_count, RQ1. reflexivity.
          + intros t I. apply (proj2 (s_pending _ S _ Ipb)). rewrite Hid. assumption. }
      destruct (cl_can_write c3); cbn [fst snd]; (split; [|discriminate]); [|exact E3].
      eapply effo_trans; [exact E3 | apply effo_note, Pben; reflexivity].
  - (* a chunk goes out *)
    set (n := if (_ <? 0)%Z then 0%Z else _).
    set (pb' := pbu_body _ _). set (endb := negb (cl_has_more pb')).
    set (c1 := ccu_connWindow c _). set (c2 := ccu_pending c1 _).
    assert (E2 : effo P c c2).
    { apply (effo_frame P c c2 []); try reflexivity; auto. cbn [cc_pending c2 c1 ccu_pending ccu_connWindow].
      destruct endb; [apply pending_del | apply pending_put with pb; auto]. }
    pose proof (st_ok_eff _ _ _ S (proj1 E2)) as S2.
    destruct ((n =? 0)%Z && negb endb); [split; [exact E2 | discriminate]|].
    destruct (acquire_for_nostuck c2 (pb_tag pb) id (s_nostuck _ S2)) as [-> | ->].
    + destruct (cl_can_write c2); [|split; [exact E2 | discriminate]].
      set (c3 := cl_notes c2 _).
      assert (E3 : effo P c2 c3).
      { apply effo_notes. eapply Forall_impl; [|apply write_data_benign]. exact Pben. }
      destruct endb.
      * split; [|discriminate]. eapply effo_trans; [exact E2|]. eapply effo_trans; [exact E3 | apply effo_close_body; try exact Pben].
      * destruct (IH c3 (st_ok_eff _ _ _ S2 (proj1 E3))) as [E4 NS]. split; [|assumption].
        eapply effo_trans; [exact E2|]. eapply effo_trans; eassumption.
    + (* the chunk is dropped: its debit of the connection window is given back first (a frame step) *)
      set (c2' := if (0 <? n)%Z then cl_add_window c2 0 n else c2).
      assert (E2' : effo P c2 c2') by (unfold c2'; destruct (0 <? n)%Z; [apply effo_add_window | apply effo_refl]).
      pose proof (st_ok_eff _ _ _ S2 (proj1 E2')) as S2'.
      destruct (effo_delete_pending P Pben 1 c2' id (s_nostuck _ S2')) as [E3 F3].
      destruct (cl_delete_pending 1 [] c2' id) as [c3 stuck]. cbn [fst snd] in *. subst stuck. split; [|discriminate].
      eapply effo_trans; [exact E2|]. eapply effo_trans; eassumption.
Qed.

Lemma effo_flush_pending c ids : st_ok c ->
  effo P c (fst (cl_flush_pending c ids)) /\ snd (cl_flush_pending c ids) <> CSPStuck.
Proof.
  revert c. induction ids as [|id t IH]; intros c S; cbn [cl_flush_pending]; [split; [apply effo_refl | discriminate]|].
  destruct (effo_send_pending (cl_send_fuel c id) c id S) as [E1 N1].
  destruct (cl_send_pending (cl_send_fuel c id) c id) as [c1 r]. cbn [fst snd] in *.
  destruct r; [|split; [assumption | discriminate] | contradiction].
  destruct (IH c1 (st_ok_eff _ _ _ S (proj1 E1))) as [E2 N2]. split; [eapply effo_trans; eassumption | assumption].
Qed.

(* the loop returns *)
Lemma eff_set_wl_done c : cc_closed c = true -> cc_reqQueued c = [] -> cc_inQ c = [] -> eff P c (ccu_wl_done c true).
Proof.
  intros A B C. constructor; try reflexivity; auto.
  - intros t x G. exists x. split; [exact G | apply cev_refl].
  - exists (fun _ => true). apply filter_true.
  - exists (fun _ => true). apply filter_true.
  - exists []. split; [reflexivity | constructor].
  - apply pending_same. reflexivity.
  - intros t x x' G G' F F'. unfold cl_ctx_get in *. cbn in G'. rewrite G in G'. inversion G'; subst. congruence.
Qed.

Lemma effo_wl_exit c le why : Eall (match le with Some e => e | None => CEConn end) ->
  (match le with Some e => e | None => CEConn end) <> CENil -> st_ok c -> effo P c (cl_wl_exit c le why).
Proof.
  intros He Hne S. unfold cl_wl_exit.
  set (e := match le with Some e => e | None => CEConn end).
  set (c1 := cl_conn_close (cl_set_last_err c e)).
  set (c2' := cl_resolve_all c1 (map snd (cc_reqQueued c1)) e). set (c2 := ccu_reqQueued c2' []).
  set (c3' := cl_resolve_all c2 (cc_inQ c2) e). set (c3 := ccu_outQ (ccu_inQ c3' []) []).
  assert (E1 : effo P c c1). { eapply effo_trans; [apply effo_set_last_err; first [exact Pben | exact Hne] | apply effo_conn_close; try exact Pben]. }
  assert (E2' : effo P c1 c2') by (apply effo_resolve_all; exact He).
  assert (E2 : eff P c2' c2).
  { apply (eff_frame' P c2' c2 []); try reflexivity; auto.
    - apply same_filter. reflexivity.
    - exists (fun _ => false). apply filter_false.
    - apply pending_same. reflexivity. }
  assert (E3' : effo P c2 c3') by (apply effo_resolve_all; exact He).
  assert (E3 : eff P c3' c3).
  { apply (eff_frame' P c3' c3 []); try reflexivity; auto.
    - exists (fun _ => false). apply filter_false.
    - apply same_filter. reflexivity.
    - intros _. constructor.
    - apply pending_same. reflexivity. }
  assert (C3 : cc_closed c3 = true).
  { cbn [c3 cc_closed ccu_outQ ccu_inQ]. unfold c3'. rewrite cc_closed_cl_resolve_all. cbn [c2 cc_closed ccu_reqQueued].
    unfold c2'. rewrite cc_closed_cl_resolve_all. apply cc_closed_cl_conn_close. }
  assert (R3 : cc_reqQueued c3 = []).
  { cbn [c3 cc_reqQueued ccu_outQ ccu_inQ]. unfold c3'. rewrite cc_reqQueued_cl_resolve_all. reflexivity. }
  assert (E4 : eff P c3 (cl_note (ccu_wl_done c3 true) (COExit 1 why))).
  { eapply eff_trans; [apply eff_set_wl_done; auto | apply eff_note, Pben; reflexivity]. }
  assert (Eall : eff P c (cl_note (ccu_wl_done c3 true) (COExit 1 why))).
  { eapply eff_trans; [apply E1|]. eapply eff_trans; [apply E2'|]. eapply eff_trans; [apply E2|].
    eapply eff_trans; [apply E3'|]. eapply eff_trans; [apply E3 | apply E4]. }
  split; [exact Eall|].
  (* everything that was held is answered *)
  pose proof (st_ok_eff _ _ _ S (proj1 E1)) as S1.
  assert (Q1 : cc_reqQueued c1 = cc_reqQueued c) by (unfold c1; rewrite cc_reqQueued_cl_conn_close; apply cc_reqQueued_cl_set_last_err).
  assert (I1 : cc_inQ c1 = cc_inQ c) by (unfold c1; rewrite cc_inQ_cl_conn_close; apply cc_inQ_cl_set_last_err).
  intros t H _. destruct H as [H|H].
  - (* queued *)
    assert (I2 : cc_inQ c2 = cc_inQ c). { cbn [c2 cc_inQ ccu_reqQueued]. unfold c2'. rewrite cc_inQ_cl_resolve_all. exact I1. }
    pose proof (st_ok_eff _ _ _ S1 (eff_trans _ _ _ _ (proj1 E2') E2)) as S2.
    destruct (s_inQ _ S _ H) as (x & G & _).
    destruct (e_ctx _ _ _ (eff_trans _ _ _ _ (proj1 E1) (eff_trans _ _ _ _ (proj1 E2') E2)) _ _ G) as (x2 & G2 & _).
    destruct (resolve_all_answered P c2 (cc_inQ c2) e t x2 He) as (x3 & G3 & A3); [intros ? ? HH; apply (s_ret _ S2 _ _ HH) | rewrite I2; exact H | exact G2|].
    destruct (e_ctx _ _ _ (eff_trans _ _ _ _ E3 E4) _ _ G3) as (x4 & G4 & V). exists x4. split; [exact G4 | eapply cev_answered; eassumption].
  - (* on the table *)
    apply in_map_iff in H. destruct H as ([i u] & Hu & I). cbn [snd] in Hu. subst u.
    destruct (s_rq _ S _ _ I) as (x & G & _). destruct (e_ctx _ _ _ (proj1 E1) _ _ G) as (x1 & G1 & _).
    destruct (resolve_all_answered P c1 (map snd (cc_reqQueued c1)) e t x1 He) as (x2 & G2 & A2);
      [intros ? ? HH; apply (s_ret _ S1 _ _ HH) | rewrite Q1; apply in_map_iff; exists (i, t); auto | exact G1|].
    destruct (e_ctx _ _ _ (eff_trans _ _ _ _ E2 (eff_trans _ _ _ _ (proj1 E3') (eff_trans _ _ _ _ E3 E4))) _ _ G2) as (x4 & G4 & V).
    exists x4. split; [exact G4 | eapply cev_answered; eassumption].
Qed.

Lemma effo_wl_after c : st_ok c -> effo P c (cl_wl_after cfg c).
Proof. intro S. unfold cl_wl_after. destruct (negb (ccf_disableAcks cfg) && (3 <=? cc_unacks c)%Z); [apply effo_wl_exit; [apply Eall_nr; [reflexivity | discriminate] | discriminate | exact S] | apply effo_refl]. Qed.

Lemma effo_wl_out c : st_ok c -> effo P c (cl_wl_out cfg c).
Proof.
  intro S. unfold cl_wl_out. destruct (cc_outQ c) as [|o q] eqn:Q; [apply effo_refl|].
  assert (E1 : effo P c (ccu_outQ c q)).
  { apply (effo_frame P c _ []); try reflexivity; auto.
    - cbn [cc_outQ ccu_outQ]. rewrite Q. intro H. inversion H. assumption.
    - apply pending_same. reflexivity. }
  pose proof (st_ok_eff _ _ _ S (proj1 E1)) as S1.
  assert (Bo : benign o = true). { pose proof (s_outQ _ S) as H. rewrite Q in H. inversion H. assumption. }
  destruct (cl_can_write (ccu_outQ c q)).
  - eapply effo_trans; [exact E1|]. assert (E2 : effo P (ccu_outQ c q) (cl_note (ccu_outQ c q) o)) by (apply effo_note, Pben, Bo).
    eapply effo_trans; [exact E2 | apply effo_wl_after, (st_ok_eff _ _ _ S1 (proj1 E2))].
  - eapply effo_trans; [exact E1 | apply effo_wl_exit; [apply Eall_nr; [reflexivity | discriminate] | discriminate | exact S1]].
Qed.

Lemma effo_wl_win c order : st_ok c -> effo P c (cl_wl_win cfg c order).
Proof.
  intro S. unfold cl_wl_win. destruct (cc_winCh c); [|apply effo_refl]. cbn [negb].
  set (c1 := ccu_winCh c false).
  assert (E1 : effo P c c1). { apply (effo_frame P c _ []); try reflexivity; auto. apply pending_same. reflexivity. }
  pose proof (st_ok_eff _ _ _ S (proj1 E1)) as S1.
  destruct (effo_flush_pending c1 (cl_pending_order c1 order) S1) as [E2 N2].
  destruct (cl_flush_pending c1 (cl_pending_order c1 order)) as [c2 r]. cbn [fst snd] in *.
  pose proof (st_ok_eff _ _ _ S1 (proj1 E2)) as S2.
  destruct r; [| | contradiction].
  - eapply effo_trans; [exact E1|]. eapply effo_trans; [exact E2 | apply effo_wl_after, S2].
  - eapply effo_trans; [exact E1|]. eapply effo_trans; [exact E2 | apply effo_wl_exit; [apply Eall_nr; [reflexivity | discriminate] | discriminate | exact S2]].
Qed.

Lemma effo_wl_ping c : st_ok c -> effo P c (cl_wl_ping cfg c).
Proof.
  intro S. unfold cl_wl_ping. destruct (cl_can_write c); [|apply effo_wl_exit; [apply Eall_nr; [reflexivity | discriminate] | discriminate | exact S]].
  set (c1 := ccu_unacks _ _).
  assert (E1 : effo P c c1). { apply (effo_frame P c _ [COPing]); try reflexivity; auto; try (apply pending_same; reflexivity).
    all: repeat constructor; apply Pben; reflexivity. }
  eapply effo_trans; [exact E1 | apply effo_wl_after, (st_ok_eff _ _ _ S (proj1 E1))].
Qed.

Lemma effo_wl_done c : st_ok c -> effo P c (cl_wl_done c).
Proof. intro S. unfold cl_wl_done. destruct (cc_closed c); [apply effo_wl_exit; [apply Eall_nr; [reflexivity | discriminate] | discriminate | exact S] | apply effo_refl]. Qed.

End EffoWL.

(* ---------- the read loop ---------- *)
Section EffoRL.
Context {hstate : Type}.
Implicit Types c : cconn hstate.
Variable dec_field : hstate -> N -> bytes -> dec_res hstate.
Variable P : coutev -> Prop.
Hypothesis Pben : forall o, benign o = true -> P o.
(* the recover of readLoop is either allowed to show in the trace, or never runs *)
Hypothesis Ppanic : P (COPanic 0) \/ (forall d n b, dec_field d n b <> DPanic hstate).

Lemma eff_set_rl_done c : cc_closed c = true -> eff P c (ccu_rl_done c true).
Proof.
  intros A. constructor; try reflexivity; auto; try (cbn; congruence).
  - intros t x G. exists x. split; [exact G | apply cev_refl].
  - exists (fun _ => true). apply filter_true.
  - exists (fun _ => true). apply filter_true.
  - exists []. split; [reflexivity | constructor].
  - apply pending_same. reflexivity.
  - intros t x x' G G' F F'. unfold cl_ctx_get in *. cbn in G'. rewrite G in G'. inversion G'; subst. congruence.
Qed.

Lemma effo_rl_exit c why : effo P c (cl_rl_exit c why).
Proof.
  unfold cl_rl_exit. eapply effo_trans; [apply effo_conn_close, Pben|].
  apply effo_keep; [|reflexivity|reflexivity].
  eapply eff_trans; [apply eff_set_rl_done, cc_closed_cl_conn_close | apply eff_note, Pben; reflexivity].
Qed.

Lemma effo_rl_fail c : effo P c (cl_rl_fail c).
Proof. unfold cl_rl_fail. apply (effo_trans _ _ (cl_set_last_err c CEConn)); [apply effo_set_last_err; first [exact Pben | discriminate] | apply effo_rl_exit]. Qed.

Lemma effo_rl_panic c : P (COPanic 0) -> st_ok c -> effo P c (cl_rl_panic c).
Proof.
  intros Pp S. unfold cl_rl_panic. assert (He : Eall CEConn) by (apply Eall_nr; [reflexivity | discriminate]).
  set (c1 := cl_set_last_err (cl_note c (COPanic 0)) CEConn).
  set (c2' := cl_resolve_all c1 (map snd (cc_reqQueued c1)) CEConn). set (c2 := ccu_reqQueued c2' []).
  assert (E1 : effo P c c1). { eapply effo_trans; [apply effo_note, Pp | apply effo_set_last_err; first [exact Pben | discriminate]]. }
  assert (E2' : effo P c1 c2') by (apply effo_resolve_all; exact He).
  assert (E2 : eff P c2' c2).
  { apply (eff_frame' P c2' c2 []); try reflexivity; auto.
    - apply same_filter. reflexivity.
    - exists (fun _ => false). apply filter_false.
    - apply pending_same. reflexivity. }
  assert (E3 : effo P c2 (cl_rl_exit c2 5)) by apply effo_rl_exit.
  split; [eapply eff_trans; [apply E1|]; eapply eff_trans; [apply E2'|]; eapply eff_trans; [apply E2 | apply E3]|].
  pose proof (st_ok_eff _ _ _ S (proj1 E1)) as S1.
  assert (Q1 : cc_reqQueued c1 = cc_reqQueued c) by (unfold c1; rewrite cc_reqQueued_cl_set_last_err; reflexivity).
  intros t H N. destruct H as [H|H].
  - exfalso. apply N. left. unfold cl_rl_exit. cbn [cl_note cc_inQ ccu_out ccu_rl_done]. rewrite cc_inQ_cl_conn_close.
    cbn [c2 cc_inQ ccu_reqQueued]. unfold c2'. rewrite cc_inQ_cl_resolve_all. unfold c1. rewrite cc_inQ_cl_set_last_err. exact H.
  - apply in_map_iff in H. destruct H as ([i u] & Hu & I). cbn [snd] in Hu. subst u.
    destruct (s_rq _ S _ _ I) as (x & G & _). destruct (e_ctx _ _ _ (proj1 E1) _ _ G) as (x1 & G1 & _).
    destruct (resolve_all_answered P c1 (map snd (cc_reqQueued c1)) CEConn t x1 He) as (x2 & G2 & A2);
      [intros ? ? HH; apply (s_ret _ S1 _ _ HH) | rewrite Q1; apply in_map_iff; exists (i, t); auto | exact G1|].
    destruct (e_ctx _ _ _ (eff_trans _ _ _ _ E2 (proj1 E3)) _ _ G2) as (x4 & G4 & V).
    exists x4. split; [exact G4 | eapply cev_answered; eassumption].
Qed.

(* readStream and below: only the header-block registers, the decoder, the receive window and queued WINDOW_UPDATEs *)
Lemma hdr_loop_no_panic fuel eh d fields rseen status herr res b :
  (forall d n b, dec_field d n b <> DPanic hstate) ->
  snd (cl_hdr_loop dec_field fuel eh d fields rseen status herr res b) <> CRSPanic.
Proof.
  intro Hd. revert d fields rseen status herr res b. induction fuel as [|fuel IH]; intros; cbn [cl_hdr_loop]; [discriminate|].
  destruct b as [|b0 b']; [discriminate|]. destruct (dec_field d fields (b0 :: b')) as [kk vv rest d'|d'|d'|d'|] eqn:D; try discriminate.
  - destruct res as [r|]; [destruct herr; [apply IH|] | apply IH].
    destruct (cl_read_header_field rseen status r kk vv) as [[[rs st] r'] e']. apply IH.
  - destruct eh; discriminate.
  - exfalso. eapply Hd. eassumption.
Qed.

Definition rs_conn {A B C} (r : cconn hstate * A * B * C) : cconn hstate := fst (fst (fst r)).

(* from here on the header-block registers, the response and gotStatus change: the analysis that cares about them
   looks at dispatch itself (Proofs/CliResNil.v) *)
Hypothesis W_any : forall c c' : cconn hstate, Wok hstate c c'.
Hypothesis V_any : forall x x', Vok x x'.

Lemma effo_frame_rl c c' l :
  cc_ctxs c' = cc_ctxs c -> cc_inQ c' = cc_inQ c -> cc_reqQueued c' = cc_reqQueued c -> cc_nextID c' = cc_nextID c ->
  cc_goAway c' = cc_goAway c -> cc_closed c' = cc_closed c -> cc_wl_done c' = cc_wl_done c -> cc_rl_done c' = cc_rl_done c ->
  cc_rl_stuck c' = cc_rl_stuck c -> cc_wl_stuck c' = cc_wl_stuck c ->
  (Forall (fun o => benign o = true) (cc_outQ c) -> Forall (fun o => benign o = true) (cc_outQ c')) ->
  pend_sub (cc_pending c') (cc_pending c) ->
  cc_out c' = l ++ cc_out c -> Forall P l -> (herr_ok (cc_hdrErr c) -> herr_ok (cc_hdrErr c')) ->
  cc_lastErr c' = cc_lastErr c -> effo P c c'.
Proof.
  intros H1 H2 H3 H4 H5 H6 H7 H8 H9 H10 H11 H12 H13 H14 H15 H16. apply effo_keep; [|assumption|assumption].
  constructor; try congruence; auto.
  - intros t x H. exists x. unfold cl_ctx_get in *. rewrite H1. split; [assumption | apply cev_refl].
  - exists (fun _ => true). rewrite H2. apply filter_true.
  - exists (fun _ => true). rewrite H3. apply filter_true.
  - exists l. auto.
  - intros t x x' G G' F F'. unfold cl_ctx_get in *. rewrite H1, G in G'. inversion G'; subst. congruence.
Qed.

Lemma read_header_field_err rseen status r k v : herr_ok (snd (cl_read_header_field rseen status r k v)).
Proof.
  unfold cl_read_header_field, herr_ok. intro e.
  repeat match goal with
         | |- context [if ?b then _ else _] => destruct b
         | |- context [match parse_uint ?v with Some _ => _ | None => _ end] => destruct (parse_uint v)
         end; cbn [snd]; intro H; inversion H; reflexivity.
Qed.

Lemma hdr_loop_herr fuel eh d fields rseen status herr res b : herr_ok herr ->
  herr_ok (snd (fst (fst (fst (cl_hdr_loop dec_field fuel eh d fields rseen status herr res b))))).
Proof.
  revert d fields rseen status herr res b. induction fuel as [|fuel IH]; intros d fields rseen status herr res b Hh; cbn [cl_hdr_loop]; [exact Hh|].
  destruct b as [|b0 b']; [exact Hh|]. destruct (dec_field d fields (b0 :: b')) as [kk vv rest d'|d'|d'|d'|]; try exact Hh.
  - destruct res as [r|]; [destruct herr; [apply IH, Hh|] | apply IH, Hh].
    pose proof (read_header_field_err rseen status r kk vv) as Hf.
    destruct (cl_read_header_field rseen status r kk vv) as [[[rs st] r'] e']. apply IH. exact Hf.
  - destruct eh; exact Hh.
Qed.

Lemma effo_read_header_fragment c id frag eh res :
  effo P c (rs_conn (cl_read_header_fragment dec_field c id frag eh res)).
Proof.
  unfold cl_read_header_fragment.
  pose proof (hdr_loop_herr (S (length (cc_hdrPrev c ++ frag))) eh (cc_dec c) (cc_hdrFields c) (cc_hdrRegularSeen c) (cc_hdrStatus c)
                (cc_hdrErr c) res (cc_hdrPrev c ++ frag)) as Hh.
  destruct (cl_hdr_loop dec_field _ eh (cc_dec c) (cc_hdrFields c) (cc_hdrRegularSeen c) (cc_hdrStatus c) (cc_hdrErr c) res _)
    as [[[[[[[d' fields] rseen] status] herr] res'] prev] e]. cbn [fst snd] in Hh.
  destruct e; [destruct eh; cbn [negb]; [destruct herr | destruct (cl_maxHeaderPrev <? len prev)] | | |]; unfold rs_conn; cbn [fst];
    (apply (effo_frame_rl c _ []); try reflexivity; auto; try (apply pending_same; reflexivity)).
Qed.

Lemma read_header_fragment_no_panic c id frag eh res :
  (forall d n b, dec_field d n b <> DPanic hstate) -> snd (cl_read_header_fragment dec_field c id frag eh res) <> CRSPanic.
Proof.
  intro Hd. unfold cl_read_header_fragment.
  pose proof (hdr_loop_no_panic (S (length (cc_hdrPrev c ++ frag))) eh (cc_dec c) (cc_hdrFields c) (cc_hdrRegularSeen c)
                (cc_hdrStatus c) (cc_hdrErr c) res (cc_hdrPrev c ++ frag) Hd) as H.
  destruct (cl_hdr_loop dec_field _ eh (cc_dec c) (cc_hdrFields c) (cc_hdrRegularSeen c) (cc_hdrStatus c) (cc_hdrErr c) res _)
    as [[[[[[[d' fields] rseen] status] herr] res'] prev] e]. cbn [snd] in H.
  destruct e; [destruct eh; cbn [negb]; [destruct herr | destruct (cl_maxHeaderPrev <? len prev)] | | |]; cbn [snd]; congruence.
Qed.

Lemma effo_read_stream c fr res : effo P c (rs_conn (cl_read_stream dec_field c fr res)).
Proof.
  unfold cl_read_stream. destruct (sf_kind fr); try apply effo_refl.
  - (* DATA *)
    unfold rs_conn. cbn [fst].
    set (cur := cl_i32 _). set (c1 := ccu_currentWindow c cur).
    assert (E1 : effo P c c1). { apply (effo_frame P c _ []); try reflexivity; auto. apply pending_same. reflexivity. }
    set (c2 := match res with Some _ => _ | None => c1 end).
    assert (E2 : effo P c1 c2).
    { unfold c2. destruct res; [|apply effo_refl]. destruct (negb (sf_len fr =? 0) && negb (flag_has (sf_flags fr) FL_ES)); [apply effo_update_window | apply effo_refl]. }
    eapply effo_trans; [exact E1|]. eapply effo_trans; [exact E2|].
    destruct (cur <? cl_maxWindow / 2)%Z; [|apply effo_refl].
    eapply effo_trans; [|apply effo_update_window].
    apply (effo_frame P c2 _ []); try reflexivity; auto. apply pending_same. reflexivity.
  - (* HEADERS *)
    eapply effo_trans; [|apply effo_read_header_fragment].
    apply (effo_frame_rl c _ []); try reflexivity; auto; try (apply pending_same; reflexivity).
    intros _ e He. discriminate.
  - apply effo_read_header_fragment.
Qed.

Lemma read_stream_no_panic c fr res :
  (forall d n b, dec_field d n b <> DPanic hstate) -> snd (cl_read_stream dec_field c fr res) <> CRSPanic.
Proof.
  intro Hd. unfold cl_read_stream. destruct (sf_kind fr); try discriminate; apply read_header_fragment_no_panic, Hd.
Qed.

Lemma ctxs_read_header_fragment c id frag eh res :
  cc_ctxs (rs_conn (cl_read_header_fragment dec_field c id frag eh res)) = cc_ctxs c.
Proof.
  unfold cl_read_header_fragment.
  destruct (cl_hdr_loop dec_field _ eh (cc_dec c) (cc_hdrFields c) (cc_hdrRegularSeen c) (cc_hdrStatus c) (cc_hdrErr c) res _)
    as [[[[[[[d' fields] rseen] status] herr] res'] prev] e].
  destruct e; [destruct eh; cbn [negb]; [destruct herr | destruct (cl_maxHeaderPrev <? len prev)] | | |]; reflexivity.
Qed.

Lemma ctxs_read_stream c fr res : cc_ctxs (rs_conn (cl_read_stream dec_field c fr res)) = cc_ctxs c.
Proof.
  unfold cl_read_stream. destruct (sf_kind fr); try reflexivity.
  - unfold rs_conn. cbn [fst]. destruct (_ <? _)%Z; [rewrite cc_ctxs_cl_update_window; cbn [cc_ctxs ccu_currentWindow]|];
      (destruct res; [destruct (negb _ && negb _); [rewrite cc_ctxs_cl_update_window|]|]; reflexivity).
  - rewrite ctxs_read_header_fragment. reflexivity.
  - apply ctxs_read_header_fragment.
Qed.

(* the errors readStream hands to dispatch are never retryable, never nil *)
Definition err_plain (e : cerr) : Prop := cl_retryable e = false /\ e <> CENil.
Definition rs_plain (r : cl_rserr) : Prop := forall e, r = CRSStream e \/ r = CRSConn e -> err_plain e.

Lemma rs_plain_none : rs_plain CRSNone. Proof. intros e [H|H]; discriminate. Qed.
Lemma rs_plain_panic : rs_plain CRSPanic. Proof. intros e [H|H]; discriminate. Qed.
Lemma rs_plain_conn e : err_plain e -> rs_plain (CRSConn e). Proof. intros He e0 [H|H]; inversion H; subst; exact He. Qed.
Lemma rs_plain_stream e : err_plain e -> rs_plain (CRSStream e). Proof. intros He e0 [H|H]; inversion H; subst; exact He. Qed.
Lemma err_plain_conn : err_plain CEConn. Proof. split; [reflexivity | discriminate]. Qed.
Lemma err_plain_malformed : err_plain CEMalformed. Proof. split; [reflexivity | discriminate]. Qed.
Lemma err_plain_reset code : err_plain (CEReset code). Proof. split; [reflexivity | discriminate]. Qed.
Ltac plain := first [apply rs_plain_none | apply rs_plain_panic | apply rs_plain_conn, err_plain_conn
                    | apply rs_plain_stream, err_plain_malformed | apply rs_plain_stream, err_plain_reset].

Lemma read_header_fragment_errs c id frag eh res : herr_ok (cc_hdrErr c) ->
  rs_plain (snd (cl_read_header_fragment dec_field c id frag eh res)).
Proof.
  intro Hc. unfold cl_read_header_fragment.
  pose proof (hdr_loop_herr (S (length (cc_hdrPrev c ++ frag))) eh (cc_dec c) (cc_hdrFields c) (cc_hdrRegularSeen c) (cc_hdrStatus c)
                (cc_hdrErr c) res (cc_hdrPrev c ++ frag) Hc) as Hh.
  assert (HL : forall fuel eh d fields rseen status herr res b,
             rs_plain (snd (cl_hdr_loop dec_field fuel eh d fields rseen status herr res b))).
  { clear. induction fuel as [|fuel IH]; intros; cbn [cl_hdr_loop]; [plain|].
    destruct b as [|b0 b']; [plain|].
    destruct (dec_field d fields (b0 :: b')) as [kk vv rest d'|d'|d'|d'|]; cbn [snd]; try plain.
    - destruct res as [r|]; [destruct herr; [apply IH|] | apply IH].
      destruct (cl_read_header_field rseen status r kk vv) as [[[rs st] r'] e']. apply IH.
    - destruct eh; cbn [snd]; plain. }
  pose proof (HL (S (length (cc_hdrPrev c ++ frag))) eh (cc_dec c) (cc_hdrFields c) (cc_hdrRegularSeen c) (cc_hdrStatus c)
                (cc_hdrErr c) res (cc_hdrPrev c ++ frag)) as He.
  destruct (cl_hdr_loop dec_field _ eh (cc_dec c) (cc_hdrFields c) (cc_hdrRegularSeen c) (cc_hdrStatus c) (cc_hdrErr c) res _)
    as [[[[[[[d' fields] rseen] status] herr] res'] prev] e]. cbn [fst snd] in Hh, He.
  destruct e; [destruct eh; cbn [negb]; [destruct herr as [he|] | destruct (cl_maxHeaderPrev <? len prev)] | | |]; cbn [snd];
    try exact He; try plain.
  rewrite (Hh _ eq_refl). plain.
Qed.

Lemma read_stream_errs c fr res : herr_ok (cc_hdrErr c) -> rs_plain (snd (cl_read_stream dec_field c fr res)).
Proof.
  intro Hc. unfold cl_read_stream. destruct (sf_kind fr); cbn [snd]; try plain.
  - apply read_header_fragment_errs. intros e H. discriminate.
  - apply read_header_fragment_errs, Hc.
Qed.

Lemma rq_unique c id tag : st_ok c -> cl_req_find (cc_reqQueued c) id = Some tag ->
  forall t, In (id, t) (cc_reqQueued c) -> t = tag.
Proof. intros S F t I. pose proof (cl_req_find_NoDup _ _ _ (s_rq_ids _ S) I). congruence. Qed.

End EffoRL.

(* ---------- dispatch ---------- *)
Section Disp.
Context {hstate : Type}.
Implicit Types c : cconn hstate.
Variable dec_field : hstate -> N -> bytes -> dec_res hstate.

(* dispatch, cut into its stages *)
Definition disp_pre c (id : N) : (cconn hstate * option cctx) + cconn hstate :=
  match cl_req_find (cc_reqQueued c) id with
  | None => inl (c, None)
  | Some tag =>
    match cl_acquire_for [] c tag id with
    | CLOk => inl (c, cl_ctx_get c tag)
    | CLRefused => inl (cl_take_req_count c id, None)
    | CLBlocked | CLSelf => inr (cl_go_stuck 0 [] c false tag)
    end
  end.
Definition disp_ok1 (ok : option cctx) (res' : option cresponse) : option cctx :=
  match ok, res' with Some x, Some r => Some (ctu_resp x r) | _, _ => ok end.
Definition disp_chk c1 (fr : sframe) (ok1 : option cctx) (err : cl_rserr) : option cctx * cl_rserr :=
  match ok1, err with
  | Some x, CRSNone =>
    if (cc_hdrStream c1 =? 0) && (fkind_eqb (sf_kind fr) KHeaders || fkind_eqb (sf_kind fr) KCont) then
      if (cc_hdrStatus c1 =? 0)%Z then
        if negb (ct_gotStatus x) || negb (cc_hdrEndStream c1) then (ok1, CRSStream CEMalformed) else (ok1, CRSNone)
      else if ct_gotStatus x then (ok1, CRSStream CEMalformed)
      else
        let final := (200 <=? cc_hdrStatus c1)%Z in
        (Some (ctu_gotStatus x final), if negb final && cc_hdrEndStream c1 then CRSStream CEMalformed else CRSNone)
    else (ok1, err)
  | _, _ => (ok1, err)
  end.
Definition disp_err3 (fr : sframe) (ok2 : option cctx) (err2 : cl_rserr) : cl_rserr :=
  match ok2, err2 with
  | Some x, CRSNone => if fkind_eqb (sf_kind fr) KData && negb (ct_gotStatus x) then CRSStream CEMalformed else err2
  | _, _ => err2
  end.
Definition disp_tail c2 (id : N) (ok2 : option cctx) (ended : bool) (err3 : cl_rserr) : cconn hstate * cl_dres :=
  match err3 with
  | CRSPanic => (c2, CDPanic)
  | CRSConn e =>
    let c3 := cl_set_last_err c2 e in
    (match ok2 with Some x => cl_finish c3 (ct_tag x) id e | None => c3 end, CDStop)
  | CRSStream e =>
    let c3 := match ok2 with Some x => cl_finish c2 (ct_tag x) id e | None => c2 end in
    (c3, if cl_gone_away c3 then CDStop else CDCont)
  | CRSNone =>
    let c3 := match ok2 with
              | Some x => if ended then cl_finish c2 (ct_tag x) id CENil else c2
              | None => c2
              end in
    (c3, if cl_gone_away c3 then CDStop else CDCont)
  end.

(* this dispatch ends its request with a nil error: the stream is on the table and its Ctx could be taken, the frame
   completes the response (END_STREAM), and the checks of dispatch pass *)
Definition nil_at c (fr : sframe) : Prop :=
  match disp_pre c (sf_sid fr) with
  | inr _ => False
  | inl (c0, ok) =>
    let '(c1, res', ended, err) := cl_read_stream dec_field c0 fr (match ok with Some x => Some (ct_resp x) | None => None end) in
    let '(ok2, err2) := disp_chk c1 fr (disp_ok1 ok res') err in
    ok2 <> None /\ ended = true /\ disp_err3 fr ok2 err2 = CRSNone
  end.

Lemma cl_dispatch_eq c fr :
  cl_dispatch dec_field c fr =
  match disp_pre c (sf_sid fr) with
  | inr c' => (c', CDStuck)
  | inl (c0, ok) =>
    let '(c1, res', ended, err) := cl_read_stream dec_field c0 fr (match ok with Some x => Some (ct_resp x) | None => None end) in
    let '(ok2, err2) := disp_chk c1 fr (disp_ok1 ok res') err in
    let c2 := match ok2 with Some x => cl_ctx_put c1 x | None => c1 end in
    disp_tail c2 (sf_sid fr) ok2 ended (disp_err3 fr ok2 err2)
  end.
Proof. reflexivity. Qed.

Variable P : coutev -> Prop.
Hypothesis Pben : forall o, benign o = true -> P o.
Hypothesis W_any : forall c c' : cconn hstate, Wok hstate c c'.
Hypothesis V_any : forall x x', Vok x x'.

Lemma rq_unique_eff' c c' id tag : eff P c c' ->
  (forall t, In (id, t) (cc_reqQueued c) -> t = tag) -> forall t, In (id, t) (cc_reqQueued c') -> t = tag.
Proof. intros E H t I. apply H. destruct (e_rq _ _ _ E) as [p Hp]. rewrite Hp in I. apply filter_In in I. apply I. Qed.

Lemma disp_pre_spec c id : st_ok c -> an_ok c ->
  exists c0 ok, disp_pre c id = inl (c0, ok) /\ effo P c c0 /\
    (forall x, ok = Some x -> cl_ctx_get c0 (ct_tag x) = Some x /\ ct_sid x = id /\ id <> 0 /\ forall t, In (id, t) (cc_reqQueued c0) -> t = ct_tag x).
Proof.
  intros S A. unfold disp_pre. destruct (cl_req_find (cc_reqQueued c) id) as [tag|] eqn:F.
  - pose proof (rq_unique c id tag S F) as U. pose proof (cl_req_find_In _ _ _ F) as I.
    destruct (s_rq _ S _ _ I) as (x & G & Hs & Hc & NZ0 & _).
    destruct (acquire_for_nostuck c tag id (s_nostuck _ S)) as [Q|Q]; rewrite Q.
    + exists c, (cl_ctx_get c tag). split; [reflexivity|]. split; [apply effo_refl|]. intros y Hy. rewrite G in Hy. inversion Hy; subst y.
      destruct (cl_ctxs_get_In _ _ _ G) as [_ T]. rewrite T. auto.
    + exists (cl_take_req_count c id), None. split; [reflexivity|]. split; [|discriminate].
      split; [apply eff_take_req_count|]. intros t H N.
      assert (Ht : t = tag).
      { destruct H as [H|H]; [exfalso; apply N; left; rewrite cc_inQ_cl_take_req_count; exact H|].
        apply in_map_iff in H. destruct H as ([i u] & Hu & J). cbn [snd] in Hu. subst u.
        destruct (i =? id) eqn:Ei; [replace i with id in J by lia; auto|].
        exfalso. apply N. right. rewrite cc_reqQueued_cl_take_req_count. apply in_map_iff. exists (i, t). split; [reflexivity|].
        apply filter_In. cbn [fst]. rewrite Ei. auto. }
      subst t. exists x. unfold cl_ctx_get. rewrite cc_ctxs_cl_take_req_count. split; [exact G|].
      apply (a_done _ A _ _ G). unfold cl_acquire_for in Q. rewrite G in Q. cbn [existsb] in Q.
      rewrite (proj1 (s_nostuck _ S) _ _ G), Hs, Hc, N.eqb_refl in Q. cbn [negb orb] in Q.
      destruct (ct_done x); [reflexivity | discriminate].
  - exists c, None. split; [reflexivity|]. split; [apply effo_refl | discriminate].
Qed.

Lemma disp_chk_cev c1 fr ok res' err ok2 err2 : disp_chk c1 fr (disp_ok1 ok res') err = (ok2, err2) ->
  (forall x2, ok2 = Some x2 -> exists x, ok = Some x /\ cev x x2) /\ (err2 = CRSPanic -> err = CRSPanic).
Proof.
  unfold disp_chk, disp_ok1. intro H. destruct ok as [x|]; [|destruct err; inversion H; subst; (split; [discriminate | auto])].
  assert (V1 : cev x match res' with Some r => ctu_resp x r | None => x end) by (destruct res'; [apply cev_resp, V_any | apply cev_refl]).
  set (x1 := match res' with Some r => ctu_resp x r | None => x end) in *.
  replace (match res' with Some r => Some (ctu_resp x r) | None => Some x end) with (Some x1) in H by (unfold x1; destruct res'; reflexivity).
  destruct err;
    [repeat match type of H with context [if ?b then _ else _] => destruct b end | ..]; inversion H; subst;
    (split; [intros x2 E; inversion E; subst; exists x; split; [reflexivity|]; first [assumption | eapply cev_trans; [exact V1 | apply cev_gotStatus, V_any]] | congruence]).
Qed.

Lemma disp_chk_finished c1 fr ok res' err ok2 err2 : disp_chk c1 fr (disp_ok1 ok res') err = (ok2, err2) ->
  forall x2, ok2 = Some x2 -> exists x, ok = Some x /\ ct_finished x2 = ct_finished x.
Proof.
  unfold disp_chk, disp_ok1. intro H. destruct ok as [x|]; [|destruct err; inversion H; subst; discriminate].
  intros x2 E. exists x. split; [reflexivity|]. subst ok2.
  destruct res'; destruct err;
    repeat match type of H with context [if ?b then _ else _] => destruct b end; inversion H; subst; reflexivity.
Qed.

Lemma disp_chk_plain c1 fr ok1 err : rs_plain err -> rs_plain (snd (disp_chk c1 fr ok1 err)).
Proof.
  intro H. unfold disp_chk. destruct ok1 as [x|]; [|exact H]. destruct err; try exact H.
  repeat match goal with |- context [if ?b then _ else _] => destruct b end; cbn [snd];
    first [exact H | apply rs_plain_stream; split; [reflexivity | discriminate]].
Qed.

Lemma disp_err3_plain fr ok2 err2 : rs_plain err2 -> rs_plain (disp_err3 fr ok2 err2).
Proof.
  intro H. unfold disp_err3. destruct ok2; [|exact H]. destruct err2; try exact H.
  destruct (_ && _); [apply rs_plain_stream; split; [reflexivity | discriminate] | exact H].
Qed.

Lemma disp_err3_panic fr ok2 err2 : disp_err3 fr ok2 err2 = CRSPanic -> err2 = CRSPanic.
Proof. unfold disp_err3. destruct ok2; [|auto]. destruct err2; auto. destruct (_ && _); [discriminate | auto]. Qed.

Lemma disp_tail_spec c2 id ok2 ended err3 : st_ok c2 -> rs_plain err3 ->
  (ok2 <> None -> ended = true -> err3 = CRSNone -> Eok id CENil) ->
  (forall x2, ok2 = Some x2 -> cl_ctx_get c2 (ct_tag x2) = Some x2 /\ ct_sid x2 = id /\ id <> 0) ->
  (forall x2, ok2 = Some x2 -> forall t, In (id, t) (cc_reqQueued c2) -> t = ct_tag x2) ->
  effo P c2 (fst (disp_tail c2 id ok2 ended err3)) /\ snd (disp_tail c2 id ok2 ended err3) <> CDStuck /\
  (snd (disp_tail c2 id ok2 ended err3) = CDPanic -> err3 = CRSPanic).
Proof.
  intros S PL Hnil HX U. unfold disp_tail.
  assert (HE : forall e, err3 = CRSStream e \/ err3 = CRSConn e -> Eall e).
  { intros e H. destruct (PL e H). apply Eall_nr; assumption. }
  (* the Ctx dispatch holds is the one on the table under id: it is in no queue and has no other stream *)
  assert (NH : forall x2, ok2 = Some x2 -> ~ In (ct_tag x2) (cc_inQ c2) /\ forall i, In (i, ct_tag x2) (cc_reqQueued c2) -> i = id).
  { intros x2 E2. destruct (HX _ E2) as (G2 & Sx & NZ). split.
    - intro J. destruct (s_inQ _ S _ J) as (y & Gy & Zy & _). rewrite G2 in Gy. inversion Gy; subst y. congruence.
    - intros i J. destruct (s_rq _ S _ _ J) as (y & Gy & Sy & _). rewrite G2 in Gy. inversion Gy; subst y. congruence. }
  assert (HSid : forall x2, ok2 = Some x2 -> forall x, cl_ctx_get c2 (ct_tag x2) = Some x -> ct_sid x = id).
  { intros x2 E2 x G. destruct (HX _ E2) as (G2 & Sx & _). rewrite G2 in G. inversion G; subst x. exact Sx. }
  destruct err3 as [|e|e|]; cbn [fst snd].
  - split; [|split; [destruct (cl_gone_away _); discriminate | destruct (cl_gone_away _); discriminate]].
    destruct ok2 as [x2|]; [|apply effo_refl]. destruct ended; [|apply effo_refl]. destruct (NH _ eq_refl). apply effo_finish; auto; try (apply (HSid _ eq_refl)).
    intros x G. destruct (HX _ eq_refl) as (G2 & Sx & _). rewrite G2 in G. inversion G; subst x. rewrite Sx. apply Hnil; [discriminate | reflexivity | reflexivity].
  - split; [|split; [destruct (cl_gone_away _); discriminate | destruct (cl_gone_away _); discriminate]].
    destruct ok2 as [x2|]; [|apply effo_refl]. destruct (NH _ eq_refl). apply effo_finish; auto; try (apply (HSid _ eq_refl)). intros x _. apply HE. auto.
  - split; [|split; discriminate].
    assert (E : effo P c2 (cl_set_last_err c2 e)) by (apply effo_set_last_err; first [exact Pben | destruct (PL e (or_intror eq_refl)); assumption]).
    destruct ok2 as [x2|]; [|exact E]. eapply effo_trans; [exact E|]. destruct (NH _ eq_refl) as [N1 N2].
    apply effo_finish; [assumption | intros x _; apply HE; auto | apply (st_ok_eff _ _ _ S (proj1 E)) | | | |].
    + intros t I. apply (U _ eq_refl). rewrite cc_reqQueued_cl_set_last_err in I. exact I.
    + rewrite cc_inQ_cl_set_last_err. exact N1.
    + rewrite cc_reqQueued_cl_set_last_err. exact N2.
    + intros x G. apply (HSid _ eq_refl x). unfold cl_ctx_get in *. rewrite cc_ctxs_cl_set_last_err in G. exact G.
  - split; [apply effo_refl | split; [discriminate | reflexivity]].
Qed.

Lemma effo_dispatch c fr : st_ok c -> an_ok c -> (nil_at c fr -> Eok (sf_sid fr) CENil) ->
  effo P c (fst (cl_dispatch dec_field c fr)) /\ snd (cl_dispatch dec_field c fr) <> CDStuck /\
  (snd (cl_dispatch dec_field c fr) = CDPanic -> ~ (forall d n b, dec_field d n b <> DPanic hstate)).
Proof.
  intros S A Hnil. unfold nil_at in Hnil. rewrite cl_dispatch_eq. destruct (disp_pre_spec c (sf_sid fr) S A) as (c0 & ok & PRE & E0 & Hok).
  rewrite PRE in *.
  pose proof (st_ok_eff _ _ _ S (proj1 E0)) as S0.
  set (res0 := match ok with Some x => Some (ct_resp x) | None => None end) in *.
  assert (E1 : effo P c0 (rs_conn (cl_read_stream dec_field c0 fr res0))) by (apply effo_read_stream; assumption).
  assert (NP : (forall d n b, dec_field d n b <> DPanic hstate) -> snd (cl_read_stream dec_field c0 fr res0) <> CRSPanic)
    by (apply read_stream_no_panic).
  assert (C1 : cc_ctxs (rs_conn (cl_read_stream dec_field c0 fr res0)) = cc_ctxs c0) by (apply ctxs_read_stream).
  assert (PL1 : rs_plain (snd (cl_read_stream dec_field c0 fr res0))) by (apply read_stream_errs, (s_hdrErr _ S0)).
  destruct (cl_read_stream dec_field c0 fr res0) as [[[c1 res'] ended] err]. unfold rs_conn in E1, C1. cbn [fst snd] in E1, NP, C1, PL1.
  pose proof (st_ok_eff _ _ _ S0 (proj1 E1)) as S1.
  pose proof (disp_chk_plain c1 fr (disp_ok1 ok res') err PL1) as PL2.
  destruct (disp_chk c1 fr (disp_ok1 ok res') err) as [ok2 err2] eqn:K. destruct (disp_chk_cev _ _ _ _ _ _ _ K) as [H2 HP]. cbn [snd] in PL2.
  cbv zeta. set (c2 := match ok2 with Some x => cl_ctx_put c1 x | None => c1 end).
  assert (E2 : effo P c1 c2).
  { unfold c2. destruct ok2 as [x2|]; [|apply effo_refl]. destruct (H2 _ eq_refl) as (x & -> & V).
    destruct (disp_chk_finished _ _ _ _ _ _ _ K _ eq_refl) as (x0 & E0' & Fx). inversion E0'; subst x0.
    destruct (Hok _ eq_refl) as [G0 _]. apply effo_ctx_put with x; [|exact V | exact Fx].
    rewrite (cev_tag _ _ V). unfold cl_ctx_get in *. rewrite C1. exact G0. }
  pose proof (st_ok_eff _ _ _ S1 (proj1 E2)) as S2.
  assert (U2 : forall x2, ok2 = Some x2 -> forall t, In (sf_sid fr, t) (cc_reqQueued c2) -> t = ct_tag x2).
  { intros x2 -> t I. destruct (H2 _ eq_refl) as (x & -> & V). destruct (Hok _ eq_refl) as (_ & _ & _ & U). rewrite (cev_tag _ _ V).
    apply (rq_unique_eff' c0 c2 (sf_sid fr) (ct_tag x) (eff_trans _ _ _ _ (proj1 E1) (proj1 E2)) U t I). }
  assert (HX : forall x2, ok2 = Some x2 -> cl_ctx_get c2 (ct_tag x2) = Some x2 /\ ct_sid x2 = sf_sid fr /\ sf_sid fr <> 0).
  { intros x2 ->. destruct (H2 _ eq_refl) as (x & -> & V). destruct (Hok _ eq_refl) as (G0 & Sx & NZ & _). split; [|split; [|exact NZ]].
    - unfold c2. rewrite cl_ctx_get_put, N.eqb_refl. rewrite (cev_tag _ _ V). unfold cl_ctx_get in *. rewrite C1, G0. reflexivity.
    - rewrite (cev_sid _ _ V). exact Sx. }
  assert (HN : ok2 <> None -> ended = true -> disp_err3 fr ok2 err2 = CRSNone -> Eok (sf_sid fr) CENil).
  { intros A1 A2 A3. apply Hnil. auto. }
  destruct (disp_tail_spec c2 (sf_sid fr) ok2 ended (disp_err3 fr ok2 err2) S2 (disp_err3_plain fr ok2 err2 PL2) HN HX U2) as (E3 & N3 & P3).
  split; [|split; [exact N3|]].
  - eapply effo_trans; [exact E0|]. eapply effo_trans; [exact E1|]. eapply effo_trans; [exact E2 | exact E3].
  - intros Q Hd. apply (NP Hd). apply HP. apply (disp_err3_panic fr ok2). apply P3. exact Q.
Qed.
End Disp.

(* ---------- GOAWAY, the frame handler, one step of the read loop ---------- *)
Section EffoRL2.
Context {hstate : Type}.
Implicit Types c : cconn hstate.
Variable dec_field : hstate -> N -> bytes -> dec_res hstate.
Variable P : coutev -> Prop.
Hypothesis Pben : forall o, benign o = true -> P o.

Lemma goaway_fail_spec l : forall c, st_ok c ->
  (forall id t x, In (id, t) l -> cl_ctx_get c t = Some x -> ct_sid x = id /\ Eok id CEGoAway) ->
  (forall id t, In (id, t) l -> ~ held c t) ->
  snd (cl_goaway_fail c l) = false /\ effo P c (fst (cl_goaway_fail c l)) /\
  cc_inQ (fst (cl_goaway_fail c l)) = cc_inQ c /\ cc_reqQueued (fst (cl_goaway_fail c l)) = cc_reqQueued c /\
  (forall id t x, In (id, t) l -> cl_ctx_get c t = Some x ->
     exists x', cl_ctx_get (fst (cl_goaway_fail c l)) t = Some x' /\ answered x' = true /\ ct_finished x' = true).
Proof.
  induction l as [|[id tag] l IH]; intros c S HL HNH; cbn [cl_goaway_fail].
  - split; [reflexivity|]. split; [apply effo_refl|]. split; [reflexivity|]. split; [reflexivity|]. intros ? ? ? [].
  - set (c1 := ccu_open c (cc_open c - 1)%Z).
    assert (E1 : effo P c c1). { apply (effo_frame P c _ []); try reflexivity; auto. apply pending_same. reflexivity. }
    pose proof (st_ok_eff _ _ _ S (proj1 E1)) as S1.
    destruct (effo_delete_pending P Pben 0 c1 id (s_nostuck _ S1)) as [E2 F2].
    pose proof (cc_inQ_cl_delete_pending _ c1 0 [] id) as I2. pose proof (cc_reqQueued_cl_delete_pending _ c1 0 [] id) as Q2.
    pose proof (cc_pending_cl_delete_pending' 0 [] c1 id) as P2.
    destruct (cl_delete_pending 0 [] c1 id) as [c2 stuck]. cbn [fst snd] in *. subst stuck.
    pose proof (st_ok_eff _ _ _ S1 (proj1 E2)) as S2.
    set (c3 := cl_ctx_upd c2 tag (fun x => cl_ctx_resolve (ctu_finished x true) CEGoAway)).
    assert (E02 : eff P c c2) by (eapply eff_trans; [apply E1 | apply E2]).
    assert (E3 : effo P c2 c3).
    { apply effo_ctx_upd_fin.
      - intros x2 G2. apply cev_finish_resolve. destruct (eff_ctx_back _ _ _ _ _ E02 G2) as (x0 & G0 & V0).
        destruct (HL id tag x0 (or_introl eq_refl) G0) as [Hs He]. rewrite (cev_sid _ _ V0), Hs. exact He.
      - intro H. apply (HNH id tag (or_introl eq_refl)). apply (held_filter _ _ _ _ E02 H).
      - rewrite P2. cbn [c1 cc_pending ccu_open]. apply (pend_del_no_tag (cc_pending c) id tag (s_pnd _ S)). intros pb J E'.
        destruct (s_pb _ S _ J) as (_ & y & Gy & Sy). rewrite E' in Gy. destruct (HL id tag y (or_introl eq_refl) Gy) as [Hs _]. congruence. }
    pose proof (st_ok_eff _ _ _ S2 (proj1 E3)) as S3.
    assert (E03 : eff P c c3) by (eapply eff_trans; [apply E02 | apply E3]).
    assert (HL3 : forall i t x, In (i, t) l -> cl_ctx_get c3 t = Some x -> ct_sid x = i /\ Eok i CEGoAway).
    { intros i t x3 J G3. destruct (eff_ctx_back _ _ _ _ _ E03 G3) as (x0 & G0 & V0).
      destruct (HL i t x0 (or_intror J) G0) as [Hs He]. rewrite (cev_sid _ _ V0). auto. }
    assert (HNH3 : forall i t, In (i, t) l -> ~ held c3 t).
    { intros i t J H. apply (HNH i t (or_intror J)). apply (held_filter _ _ _ _ E03 H). }
    destruct (IH c3 S3 HL3 HNH3) as (F & E4 & I4 & Q4 & A4).
    split; [exact F|]. split; [eapply effo_trans; [exact E1|]; eapply effo_trans; [exact E2|]; eapply effo_trans; [exact E3 | exact E4]|].
    split; [rewrite I4; unfold c3; rewrite cc_inQ_cl_ctx_upd, I2; reflexivity|].
    split; [rewrite Q4; unfold c3; rewrite cc_reqQueued_cl_ctx_upd, Q2; reflexivity|].
    intros i t x [J|J] G.
    + inversion J; subst i t. destruct (e_ctx _ _ _ (eff_trans _ _ _ _ (proj1 E1) (proj1 E2)) _ _ G) as (x2 & G2 & _).
      pose proof (upd_resolve_get c2 tag (fun y => ctu_finished y true) CEGoAway x2 G2 (fun _ => eq_refl)) as G3.
      destruct (e_ctx _ _ _ (proj1 E4) _ _ G3) as (x4 & G4 & V). exists x4. split; [exact G4|]. split.
      * eapply cev_answered; [exact V|]. apply answered_resolve'. cbn. apply (s_ret _ S2 _ _ G2).
      * apply (cev_finished _ _ V). rewrite finished_resolve. reflexivity.
    + destruct (e_ctx _ _ _ E03 _ _ G) as (x3 & G3 & _). eapply A4; eassumption.
Qed.

Lemma effo_goaway c last : (forall id, last < id -> Eok id CEGoAway) -> st_ok c ->
  effo P c (fst (cl_goaway c last)) /\ snd (cl_goaway c last) = false /\
  cc_reqQueued (fst (cl_goaway c last)) = filter (fun e => negb (last <? fst e)) (cc_reqQueued c) /\
  cc_goAway (fst (cl_goaway c last)) = true /\ cc_closeRef (fst (cl_goaway c last)) = last /\
  (forall id t, In (id, t) (cc_reqQueued c) -> last < id ->
     exists x', cl_ctx_get (fst (cl_goaway c last)) t = Some x' /\ answered x' = true /\ ct_finished x' = true).
Proof.
  intros Hga S. unfold cl_goaway.
  set (c1 := ccu_closeRef _ last).
  set (above := filter (fun e => last <? fst e) (cc_reqQueued c1)).
  set (c2 := ccu_reqQueued c1 _).
  assert (E2 : eff P c c2).
  { apply (eff_frame' P c c2 []); try reflexivity; auto.
    - apply same_filter. reflexivity.
    - eexists. reflexivity.
    - apply pending_same. reflexivity. }
  pose proof (st_ok_eff _ _ _ S E2) as S2.
  assert (HL : forall id t x, In (id, t) above -> cl_ctx_get c2 t = Some x -> ct_sid x = id /\ Eok id CEGoAway).
  { intros id t x2 J G2. apply filter_In in J. cbn [fst] in J. destruct J as [J L].
    destruct (s_rq _ S _ _ J) as (x & G & Hs & _). destruct (e_ctx _ _ _ E2 _ _ G) as (x2' & G2' & V2). rewrite G2 in G2'. inversion G2'; subst x2'.
    rewrite (cev_sid _ _ V2). split; [exact Hs | apply Hga; clear - L; lia]. }
  assert (HNH : forall id t, In (id, t) above -> ~ held c2 t).
  { intros id t J [H|H].
    - apply filter_In in J. destruct J as [J _]. destruct (s_rq _ S _ _ J) as (x & G & Sx & _ & NZ & _).
      cbn [c2 cc_inQ ccu_reqQueued c1 ccu_closeRef ccu_stateClosed ccu_goAway] in H. destruct (s_inQ _ S _ H) as (y & Gy & Zy & _). congruence.
    - apply filter_In in J. cbn [fst] in J. destruct J as [J L]. cbn [c2 cc_reqQueued ccu_reqQueued] in H. apply in_map_iff in H.
      destruct H as ([i u] & Hu & H). cbn in Hu. subst u. apply filter_In in H. cbn [fst] in H. destruct H as [H L'].
      assert (i = id).
      { destruct (s_rq _ S _ _ H) as (y & Gy & Sy & _). destruct (s_rq _ S _ _ J) as (y' & Gy' & Sy' & _). congruence. }
      subst i. rewrite L in L'. discriminate. }
  destruct (goaway_fail_spec above c2 S2 HL HNH) as (F & E3 & I3 & Q3 & A3).
  assert (AB : forall id t, In (id, t) (cc_reqQueued c) -> last < id ->
               exists x', cl_ctx_get (fst (cl_goaway_fail c2 above)) t = Some x' /\ answered x' = true /\ ct_finished x' = true).
  { intros id t J L. destruct (s_rq _ S _ _ J) as (x & G & _). destruct (e_ctx _ _ _ E2 _ _ G) as (x2 & G2 & _).
    apply (A3 id t x2); [|exact G2]. apply filter_In. cbn [fst]. split; [exact J | clear - L; lia]. }
  split; [|split; [exact F|split; [exact Q3|split; [apply (e_goAway _ _ _ (proj1 E3)); reflexivity|split; [|exact AB]]]]].
  2:{ assert (CR : forall l c0, cc_closeRef (fst (cl_goaway_fail c0 l)) = cc_closeRef c0).
      { clear. induction l as [|[id tag] l IH]; intro c0; cbn [cl_goaway_fail]; [reflexivity|].
        pose proof (cc_closeRef_cl_delete_pending _ (ccu_open c0 (cc_open c0 - 1)%Z) 0 [] id) as D.
        destruct (cl_delete_pending 0 [] (ccu_open c0 (cc_open c0 - 1)%Z) id) as [c2 stuck]. cbn [fst] in D.
        destruct stuck; [exact D|]. rewrite IH, cc_closeRef_cl_ctx_upd. exact D. }
      rewrite CR. reflexivity. }
  split; [eapply eff_trans; [exact E2 | apply E3]|].
  intros t H N. destruct H as [H|H]; [exfalso; apply N; left; rewrite I3; exact H|].
  apply in_map_iff in H. destruct H as ([i u] & Hu & J). cbn [snd] in Hu. subst u.
  destruct (last <? i) eqn:L.
  - destruct (AB i t J) as (x' & G' & A' & _); [clear - L; lia|]. exists x'. auto.
  - exfalso. apply N. right. rewrite Q3. cbn [c2 cc_reqQueued ccu_reqQueued]. apply in_map_iff. exists (i, t). split; [reflexivity|].
    apply filter_In. cbn [fst]. rewrite L. split; [exact J | reflexivity].
Qed.

(* the recover of readLoop shows in the trace only if the decoder can panic *)
Hypothesis Ppanic : ~ (forall d n b, dec_field d n b <> DPanic hstate) -> P (COPanic 0).
Hypothesis W_any : forall c c' : cconn hstate, Wok hstate c c'.
Hypothesis V_any : forall x x', Vok x x'.

Lemma effo_rl_frame c fr : st_ok c -> an_ok c ->
  (forall c1, (sf_kind fr <> KWinUpd -> c1 = c) -> nil_at dec_field c1 fr -> Eok (sf_sid fr) CENil) ->
  effo P c (cl_rl_frame dec_field c fr).
Proof.
  intros S A Hnil. unfold cl_rl_frame.
  assert (EX : forall why, effo P c (cl_rl_exit (cl_set_last_err c CEConn) why)).
  { intro why. apply (effo_trans _ _ (cl_set_last_err c CEConn)); [apply effo_set_last_err; first [exact Pben | discriminate] | apply effo_rl_exit; try exact Pben]. }
  destruct (fkind_eqb (sf_kind fr) KPush); [apply EX|].
  destruct (negb (cc_hdrStream c =? 0) && _); [apply EX|].
  destruct ((cc_hdrStream c =? 0) && _); [apply EX|].
  set (c1 := if fkind_eqb (sf_kind fr) KWinUpd then _ else c).
  assert (E1 : effo P c c1) by (unfold c1; destruct (fkind_eqb (sf_kind fr) KWinUpd); [apply effo_add_window | apply effo_refl]).
  assert (Hn1 : nil_at dec_field c1 fr -> Eok (sf_sid fr) CENil).
  { apply Hnil. intro NK. unfold c1. destruct (sf_kind fr); try reflexivity. contradiction. }
  pose proof (st_ok_eff _ _ _ S (proj1 E1)) as S1. pose proof (an_ok_effo _ _ _ A E1) as A1.
  assert (D : effo P c1 (fst (cl_dispatch dec_field c1 fr)) /\ snd (cl_dispatch dec_field c1 fr) <> CDStuck /\
              (snd (cl_dispatch dec_field c1 fr) = CDPanic -> ~ (forall d n b, dec_field d n b <> DPanic hstate)))
    by (apply effo_dispatch; assumption).
  destruct D as (E2 & NS & NP).
  destruct (cl_dispatch dec_field c1 fr) as [c2 r]. cbn [fst snd] in *.
  pose proof (st_ok_eff _ _ _ S1 (proj1 E2)) as S2.
  destruct r.
  - eapply effo_trans; eassumption.
  - eapply effo_trans; [exact E1|]. eapply effo_trans; [exact E2 | apply effo_rl_exit; try exact Pben].
  - contradiction.
  - eapply effo_trans; [exact E1|]. eapply effo_trans; [exact E2|]. apply effo_rl_panic; [exact Pben | | exact S2].
    apply Ppanic, NP, eq_refl.
Qed.

Lemma effo_rl_step c i : st_ok c -> an_ok c ->
  (forall fr, i = RFrame fr -> sf_kind fr = KGoAway -> sf_sid fr = 0 -> cc_netClosed c = false ->
     forall id, sf_dep fr < id -> Eok id CEGoAway) ->
  (forall fr, i = RFrame fr -> cc_netClosed c = false ->
     forall c1, (sf_kind fr <> KWinUpd -> sf_kind fr <> KGoAway -> c1 = c) -> nil_at dec_field c1 fr -> Eok (sf_sid fr) CENil) ->
  effo P c (cl_rl_step dec_field c i).
Proof.
  intros S A Hga Hnil. unfold cl_rl_step. destruct (cc_netClosed c) eqn:NC; [apply effo_rl_fail; try exact Pben|].
  destruct i as [fr| | |]; try apply effo_rl_fail; try exact Pben; [|apply effo_refl].
  destruct (sf_sid fr =? 0) eqn:Z; [|apply effo_rl_frame; try assumption; intros c1 H1; apply (Hnil fr eq_refl eq_refl c1); intros K1 _; apply H1, K1].
  destruct (sf_kind fr) eqn:K; try apply effo_refl.
  - (* SETTINGS *)
    destruct (cl_settings_deserialize _ _); [|apply effo_rl_fail; try exact Pben].
    destruct (flag_has (sf_flags fr) FL_ES); [apply effo_refl | apply effo_handle_settings; try exact Pben].
  - (* PING *)
    destruct (flag_has (sf_flags fr) FL_ES); [|apply effo_write_out; reflexivity].
    apply (effo_frame P c _ []); try reflexivity; auto. apply pending_same. reflexivity.
  - (* GOAWAY *)
    destruct (effo_goaway c (sf_dep fr) (Hga fr eq_refl K (proj1 (N.eqb_eq _ _) Z) eq_refl) S) as (E1 & F1 & _). destruct (cl_goaway c (sf_dep fr)) as [c1 stuck]. cbn [fst snd] in *. subst stuck.
    eapply effo_trans; [exact E1|]. apply effo_rl_frame; [apply (st_ok_eff _ _ _ S (proj1 E1)) | apply (an_ok_effo _ _ _ A E1)|].
    intros c2 _. apply (Hnil fr eq_refl eq_refl c2). intros _ NG. contradiction.
  - apply effo_add_window.
Qed.

End EffoRL2.

End WithE.

(* the instance that allows everything: for the structural invariants, which do not care *)
Definition cp_any : cparams.
Proof.
  refine {| Eok := fun _ _ => True; Vok := fun _ _ => True; Wok := fun _ _ _ => True |}; auto.
Defined.
#[export] Instance cplain_any : cplain cp_any.
Proof. intros sid e _ _. exact I. Qed.
