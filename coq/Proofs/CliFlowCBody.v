(* Proofs/CliFlowCBody.v - C07, "and finishes": the vocabulary of the whole-run upload theorem.
   What a request body is as the connection will see it (a buffered body, or the chunks the caller's reader
   answers with until EOF / the declared length / a failure, exactly as refillPending consumes them), what is
   left of it in a pending body, and what the trace says has been sent on a stream. *)
From H2V Require Import Base.Bytes Base.MachineInt Base.Result Gen.GenConsts Impl.ServerConn Impl.ClientConn
     Proofs.CliDefs Spec.FlowLedger Proofs.CliFlowMoves Proofs.CliFlowOut Proofs.CliFlowSettings Proofs.CliFlowSafe Proofs.CliFlowEs.
From Coq Require Import ZArith Lia ZifyN ZifyNat ZifyBool List Bool.
Import ListNotations.
Local Open Scope N_scope.
Set Default Proof Using "Type".

(* ---------- the bytes a body reader will deliver ---------- *)

(* refillPending, iterated: the bytes the connection gets from the scripted reads from now on, and whether the
   reader ends well (EOF, or the declared length reached) rather than with an error or with (0, nil).
   size: the declared length (< 0: none); read: the bytes read so far *)
Fixpoint rd_fut (reads : list (bytes * rerr)) (size read : Z) : bytes * bool :=
  match reads with
  | [] => ([], true)
  | (ch, e) :: t =>
    match e with
    | REof => (ch, true)
    | RFail => ([], false)
    | RNil =>
      if cl_is_nil ch then ([], false)
      else if ((0 <=? size) && (size <=? read + Z.of_N (len ch)))%Z then (ch, true)
      else (ch ++ fst (rd_fut t size (read + Z.of_N (len ch))%Z), snd (rd_fut t size (read + Z.of_N (len ch))%Z))
    end
  end.

(* what the reader of a pending body still has to deliver *)
Definition pb_fut (pb : cpending) : bytes * bool :=
  match pb_stream pb with
  | None => ([], true)
  | Some reads => if pb_drained pb then ([], true) else rd_fut reads (pb_size pb) (pb_read pb)
  end.

(* everything of the body that has not been handed to writeData yet; does the reader end well *)
Definition pb_all (pb : cpending) : bytes := pb_body pb ++ fst (pb_fut pb).
Definition pb_ok (pb : cpending) : bool := snd (pb_fut pb).

(* the body of a request as the connection will see it: (bytes, the reader ends well) *)
Definition rq_body (rq : crequest) : bytes * bool :=
  match cq_body rq with
  | CBuf b => (b, true)
  | CStream reads size => if (size =? 0)%Z then ([], true) else rd_fut reads size 0
  end.

Lemma refill_all pb pb' : refill_cond pb = true -> cl_refill pb = Some pb' ->
  pb_all pb' = pb_all pb /\ pb_ok pb' = pb_ok pb.
Proof.
  unfold refill_cond, cl_refill, pb_all, pb_ok, pb_fut.
  destruct (pb_stream pb) as [reads|] eqn:S; [|rewrite andb_false_r; discriminate].
  intro RC. apply andb_prop in RC. destruct RC as [RC D0]. apply andb_prop in RC. destruct RC as [B0 _].
  apply negb_true_iff in D0. rewrite D0.
  assert (BN : pb_body pb = []) by (destruct (pb_body pb); [reflexivity | discriminate]). rewrite BN. cbn [app].
  destruct reads as [|[ch e] t].
  - cbn [cl_is_nil rd_fut]. intro H. inversion H. clear H.
    destruct ((0 <=? pb_size _) && _)%Z; cbn [pb_stream pb_drained pb_body pb_size pb_read pbu_drained pbu_stream pbu_read pbu_body fst snd];
      rewrite ?BN; split; reflexivity.
  - destruct e; cbn [rd_fut].
    + (* (chunk, nil) *)
      destruct (cl_is_nil ch) eqn:CN; [discriminate|]. intro H. inversion H. clear H.
      cbn [pb_stream pb_drained pb_body pb_size pb_read pbu_drained pbu_stream pbu_read pbu_body].
      destruct ((0 <=? pb_size pb) && (pb_size pb <=? pb_read pb + Z.of_N (len ch)))%Z eqn:SZ;
        cbn [pb_stream pb_drained pb_body pb_size pb_read pbu_drained pbu_stream pbu_read pbu_body fst snd]; rewrite ?D0.
      * rewrite app_nil_r. split; reflexivity.
      * split; reflexivity.
    + (* (chunk, EOF) *)
      intro H. inversion H. clear H.
      destruct (cl_is_nil ch) eqn:CN;
        destruct ((0 <=? pb_size _) && _)%Z;
        cbn [pb_stream pb_drained pb_body pb_size pb_read pbu_drained pbu_stream pbu_read pbu_body fst snd];
        rewrite ?BN, ?app_nil_r; try (split; reflexivity);
        destruct ch; try discriminate; split; reflexivity.
    + discriminate.
Qed.

(* the reader fails (or answers 0, nil): it does not end well *)
Lemma refill_none pb : refill_cond pb = true -> cl_refill pb = None -> pb_ok pb = false.
Proof.
  unfold refill_cond, cl_refill, pb_ok, pb_fut.
  destruct (pb_stream pb) as [reads|] eqn:S; [|rewrite andb_false_r; discriminate].
  intro RC. apply andb_prop in RC. destruct RC as [_ D0]. apply negb_true_iff in D0. rewrite D0.
  destruct reads as [|[ch e] t]; [discriminate|]. destruct e; cbn [rd_fut].
  - destruct (cl_is_nil ch); [reflexivity | destruct (_ && _)%Z; discriminate].
  - discriminate.
  - reflexivity.
Qed.

Section CS.
Variable hstate : Type.
Notation cconn := (cconn hstate).

(* one critical section of sendPending takes the chunk off the front of what is left *)
Lemma cs_all (c : cconn) pb : cs_chunk c pb ++ pb_all (cs_pb c pb) = pb_all pb /\ pb_ok (cs_pb c pb) = pb_ok pb.
Proof.
  unfold cs_chunk, cs_pb, pb_all, pb_ok, pb_fut. cbn [pb_body pb_stream pb_drained pb_size pb_read pbu_body pbu_window].
  split; [|reflexivity]. rewrite app_assoc, takeN_dropN. reflexivity.
Qed.

(* when the critical section ends the body, nothing is left and the reader has ended well *)
Lemma cs_end_all (c : cconn) pb : cs_end c pb = true -> pb_all (cs_pb c pb) = [] /\ pb_ok (cs_pb c pb) = true.
Proof.
  unfold cs_end, cl_has_more, pb_all, pb_ok, pb_fut. intro E. apply negb_true_iff in E. apply orb_false_iff in E. destruct E as [E1 E2].
  apply negb_false_iff in E1.
  assert (BN : pb_body (cs_pb c pb) = []) by (destruct (pb_body (cs_pb c pb)); [reflexivity | discriminate]).
  rewrite BN. cbn [app]. destruct (pb_stream (cs_pb c pb)); [|split; reflexivity].
  cbn [andb] in E2. apply negb_false_iff in E2. rewrite E2. split; reflexivity.
Qed.

End CS.

(* ---------- what the trace says has been sent on a stream ---------- *)

Definition o_data (id : N) (o : coutev) : bytes :=
  match o with COData s _ p => if s =? id then p else [] | _ => [] end.
Definition o_es (id : N) (o : coutev) : nat :=
  match o with COData s es _ | COHeaders s es _ => if (s =? id) && es then 1%nat else 0%nat | _ => 0%nat end.

(* on cc_out (newest first): the DATA payload bytes written on stream id, in the order written; the number of
   END_STREAM flags written on it (HEADERS or DATA) *)
Fixpoint dbytes (id : N) (out : list coutev) : bytes :=
  match out with [] => [] | o :: t => dbytes id t ++ o_data id o end.
Fixpoint esn (id : N) (out : list coutev) : nat :=
  match out with [] => 0%nat | o :: t => (esn id t + o_es id o)%nat end.
(* the same on a list of items oldest first *)
Definition dbl (id : N) (l : list coutev) : bytes := concat (map (o_data id) l).
Definition esl (id : N) (l : list coutev) : nat := list_sum (map (o_es id) l).

Lemma dbytes_app id l : forall out, dbytes id (rev l ++ out) = dbytes id out ++ dbl id l.
Proof.
  induction l as [|o t IH]; intro out; cbn [rev app]; [unfold dbl; cbn; rewrite app_nil_r; reflexivity|].
  rewrite <- app_assoc. cbn [app]. rewrite IH. cbn [dbytes]. unfold dbl. cbn [map concat]. rewrite app_assoc. reflexivity.
Qed.

Lemma esn_app id l : forall out, esn id (rev l ++ out) = (esn id out + esl id l)%nat.
Proof.
  induction l as [|o t IH]; intro out; cbn [rev app]; [unfold esl; cbn [map list_sum fold_right]; rewrite Nat.add_0_r; reflexivity|].
  rewrite <- app_assoc. cbn [app]. rewrite IH. cbn [esn]. unfold esl. cbn [map list_sum fold_right]. rewrite Nat.add_assoc. reflexivity.
Qed.

(* in the vocabulary of Proofs/CliDefs.v, on the trace oldest first *)
Lemma data_of_app sid a b : data_of sid (a ++ b) = data_of sid a ++ data_of sid b.
Proof. apply flat_map_app. Qed.
Lemma headers_of_app a b : headers_of (a ++ b) = headers_of a ++ headers_of b.
Proof. apply flat_map_app. Qed.

Lemma dbytes_data_bytes id out : data_bytes id (rev out) = dbytes id out.
Proof.
  unfold data_bytes. induction out as [|o t IH]; [reflexivity|]. cbn [rev dbytes].
  rewrite data_of_app, map_app, concat_app, IH. f_equal.
  destruct o; cbn [data_of flat_map o_data app map concat]; try reflexivity.
  destruct (sid =? id); cbn [app map concat snd]; [rewrite app_nil_r|]; reflexivity.
Qed.

Lemma esn_end_streams id out : end_streams id (rev out) = esn id out.
Proof.
  unfold end_streams. induction out as [|o t IH]; [reflexivity|]. cbn [rev esn].
  rewrite headers_of_app, data_of_app, !filter_app, !app_length. rewrite <- IH.
  destruct o; cbn [headers_of data_of flat_map o_es app filter length fst snd]; try lia.
  - destruct es; cbn [Bool.eqb andb]; destruct (sid =? id); cbn [filter length andb]; lia.
  - destruct (sid =? id); cbn [app filter length andb fst]; [destruct es; cbn [length]|]; lia.
Qed.

(* one run of DATA frames of writeData *)
Lemma dbl_frames id sid l : dbl id (frames_of sid l) = if sid =? id then concat (map snd l) else [].
Proof.
  unfold dbl, frames_of. rewrite map_map. cbn [o_data]. destruct (sid =? id).
  - induction l as [|x t IH]; cbn [map concat]; [reflexivity | rewrite IH; reflexivity].
  - induction l as [|x t IH]; cbn [map concat]; [reflexivity | exact IH].
Qed.

Lemma esl_frames id sid l e : es_shape l e -> esl id (frames_of sid l) = if (sid =? id) && e then 1%nat else 0%nat.
Proof.
  unfold esl, frames_of. induction 1 as [|e p|p l e S IH NE]; cbn [map list_sum fold_right o_es fst snd].
  - rewrite andb_false_r. reflexivity.
  - destruct ((sid =? id) && e); reflexivity.
  - rewrite andb_false_r. cbn [Nat.add]. exact IH.
Qed.

Lemma dbl_write_data id mf sid body endb : dbl id (cl_write_data mf sid body endb) = if sid =? id then body else [].
Proof.
  destruct (write_data_shape mf sid body endb) as (l & A & B & _). rewrite A, dbl_frames, B. reflexivity.
Qed.

Lemma esl_write_data id mf sid body endb :
  esl id (cl_write_data mf sid body endb) = if (sid =? id) && endb then 1%nat else 0%nat.
Proof.
  destruct (write_data_shape mf sid body endb) as (l & A & _ & _ & S & _). rewrite A. apply esl_frames. exact S.
Qed.

(* items that are not HEADERS or DATA *)
Definition nostream (o : coutev) : Prop := match o with COHeaders _ _ _ | COData _ _ _ => False | _ => True end.

Lemma esl_cons id o t : esl id (o :: t) = (o_es id o + esl id t)%nat.
Proof. reflexivity. Qed.
Lemma dbl_cons id o t : dbl id (o :: t) = o_data id o ++ dbl id t.
Proof. reflexivity. Qed.

Lemma dbl_nostream id l : Forall nostream l -> dbl id l = [] /\ esl id l = 0%nat.
Proof.
  induction 1 as [|o t Ho Ht IH]; [split; reflexivity|]. destruct IH as [A B]. rewrite esl_cons, dbl_cons, A, B.
  destruct o; try contradiction; split; reflexivity.
Qed.
