(* Proofs/SrvReqTraceEx.v - C01, the trace-level statement on a concrete run of the server instantiated with the real HPACK
   model: stream 1 has been dispatched and its handler is still running (the stream is in the table, half-closed); a POST
   arrives on stream 3 with its header block cut into three fragments (inside fields) and its body in two DATA frames. *)
From H2V Require Import Base.Bytes Base.MachineInt Base.Result Gen.GenConsts Impl.Hpack Impl.ServerConn Impl.ServerInst
  Spec.Http2Messages Proofs.SrvBase Proofs.SrvMsgDefs Proofs.SrvMsgStream Proofs.SrvMsgExamples
  Proofs.SrvIsoRef Proofs.SrvIsoSteps Proofs.SrvIsoHdr Proofs.SrvIsoRun Proofs.SrvIsoReq Proofs.SrvReqTraceA.
From Coq Require Import ZArith List String.
Import ListNotations.
Local Open Scope N_scope.

Definition x_evs0 : list event := lockstep (req_frames 1 hfrags1 chunks1 tfrags1).
Definition x_hfrags : list bytes := [firstn 20 (blk fs1); firstn 25 (skipn 20 (blk fs1)); skipn 45 (blk fs1)].
Definition x_chunks : list bytes := [octets "he"; octets "llo"].
Definition x_evs : list event := flat_map (fun f => [EvRL (RFrame f); EvSL]) (req_frames1 3 x_hfrags x_chunks).
Notation x_run := (run srv_dec_field srv_enc_field set_max_table_size cfgE srv_init_hpack).

Lemma x_clean : clean srv_dec_field srv_enc_field set_max_table_size cfgE srv_init_hpack (x_evs0 ++ x_evs).
Proof. apply cleanb_sound. vm_compute. reflexivity. Qed.

(* the state the request finds: stream 1 in the table with its handler running, ready for stream 3 *)
Lemma x_ready :
  map (fun s => (st_id s, st_state s, st_handlerRunning s)) (sc_strms (x_run x_evs0)) = [(1, SHalfClosed, true)] /\
  N.land 3 1 = 1 /\ sc_highestID (x_run x_evs0) < 3 /\ (sc_open (x_run x_evs0) < cf_maxStreams cfgE)%Z /\
  sc_closing (x_run x_evs0) = false /\ sc_sl_done (x_run x_evs0) = false /\ sc_rl_done (x_run x_evs0) = false /\
  sc_wl_dead (x_run x_evs0) = false /\ sc_readerQ (x_run x_evs0) = [] /\ sc_expectCont (x_run x_evs0) = 0.
Proof. repeat split; vm_compute; reflexivity. Qed.

Lemma x_decodes :
  ref_frames_fs srv_dec_field (sc_dec (x_run x_evs0), 0, []) (filter is_hdr_frame (req_frames1 3 x_hfrags x_chunks)) fs1
                (sc_dec (x_run (x_evs0 ++ x_evs)), 7, []).
Proof. apply rff_run_sound. vm_compute. reflexivity. Qed.

Lemma x_accepted :
  exists hF,
    hfold cfgE (hh1 (new_stream 3 (sc_initWin (x_run x_evs0))) (mkSFrame KHeaders 0 3 0 [] 0 0 0 false 0 false 0)) fs1 = Some hF /\
    hd_pMethod hF = true /\ hd_pScheme hF = true /\ hd_pPath hF = true /\ hd_path hF <> [] /\
    (hd_hasCL hF = true -> hd_contentLength hF = Z.of_N (len (List.concat x_chunks))).
Proof.
  eexists. split; [vm_compute; reflexivity|]. cbn [hd_pMethod hd_pScheme hd_pPath hd_path hd_hasCL hd_contentLength].
  repeat split; try discriminate.
Qed.

Lemma x_body : ((0 <? cf_maxBody cfgE) && (cf_maxBody cfgE <? Z.of_N (len (List.concat x_chunks))))%Z = false.
Proof. vm_compute. reflexivity. Qed.

(* what the theorem says: one window update (first DATA frame), then the dispatch, with the request the peer sent *)
Lemma x_trace :
  trace (x_run (x_evs0 ++ x_evs)) =
  trace (x_run x_evs0) ++ [OWinUpd 3 2] ++ ODispatch 3 (rq_append_body (request_of empty_req fs1) (List.concat x_chunks)) :: [].
Proof. vm_compute. reflexivity. Qed.
