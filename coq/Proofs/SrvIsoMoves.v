(* Proofs/SrvIsoMoves.v - C09/C01 groundwork: what every part of the stream loop that is NOT header
   decoding does to the things header decoding depends on.

   Tracked here: the HPACK decoder state (sc_dec), the discard registers (sc_discardID/Prev/Fields), the
   header-decoding view of every table stream (id, headersFinished, previousHeaderBytes, blockFields), the
   closed-stream ring, lastID/highestID, the error outputs (GOAWAY, panic), sc_closing, sc_sl_done.

   `hmv` : one primitive move; `hmvs` : sequences.  Every function of the stream loop other than
   handle_header_frame / discard_* is a sequence of moves (this file and SrvIsoSteps.v); the moves preserve
   the invariant `HInv` and the place where the carry of an unfinished header block lives (`carry_at`). *)
From H2V Require Import Base.Bytes Base.MachineInt Base.Result Gen.GenConsts Impl.ServerConn Proofs.SrvBase.
From Coq Require Import ZArith Lia ZifyN ZifyNat ZifyBool.
Local Open Scope N_scope.

(* ---------- lists / the stream table ---------- *)
Section Tbl.

Lemma iso_search_put_same l x old :
  strms_search l (st_id x) = Some old -> strms_search (strms_put l x) (st_id x) = Some x.
Proof.
  induction l as [|y t IH]; cbn [strms_search strms_put]; [discriminate|].
  destruct (st_id y =? st_id x) eqn:E; intro H; cbn [strms_search].
  - rewrite N.eqb_refl. reflexivity.
  - rewrite E. auto.
Qed.

Lemma iso_search_put_other l x id : id <> st_id x -> strms_search (strms_put l x) id = strms_search l id.
Proof.
  intro Hn. induction l as [|y t IH]; cbn [strms_search strms_put]; [reflexivity|].
  destruct (st_id y =? st_id x) eqn:E; cbn [strms_search].
  - replace (st_id x =? id) with false by lia. replace (st_id y =? id) with false by lia. reflexivity.
  - rewrite IH. reflexivity.
Qed.

Lemma iso_put_none l x : strms_search l (st_id x) = None -> strms_put l x = l.
Proof.
  induction l as [|y t IH]; cbn [strms_search strms_put]; [reflexivity|].
  destruct (st_id y =? st_id x); [discriminate|]. intro H. rewrite (IH H). reflexivity.
Qed.

Lemma iso_search_del_other l id id' : id <> id' -> strms_search (strms_del l id') id = strms_search l id.
Proof.
  intro Hn. induction l as [|y t IH]; cbn [strms_search strms_del]; [reflexivity|].
  destruct (st_id y =? id') eqn:E.
  - replace (st_id y =? id) with false by lia. reflexivity.
  - cbn [strms_search]. rewrite IH. reflexivity.
Qed.

Lemma iso_search_not_in l id : ~ In id (map st_id l) -> strms_search l id = None.
Proof.
  induction l as [|y t IH]; cbn [strms_search map In]; [reflexivity|]. intro H.
  destruct (st_id y =? id) eqn:E; [exfalso; apply H; left; lia | apply IH; tauto].
Qed.

Lemma iso_search_in l id s : strms_search l id = Some s -> In id (map st_id l).
Proof. intro H. apply strms_search_In in H. destruct H as [I E]. rewrite <- E. apply in_map. assumption. Qed.

Lemma iso_NoDup_search l p : NoDup (map st_id l) -> In p l -> strms_search l (st_id p) = Some p.
Proof.
  induction l as [|y t IH]; cbn [map strms_search]; [intros _ []|]. intros ND [->|I].
  - rewrite N.eqb_refl. reflexivity.
  - inversion ND as [|a b NI ND']; subst. destruct (st_id y =? st_id p) eqn:E; [|auto].
    exfalso. apply NI. replace (st_id y) with (st_id p) by lia. apply in_map. assumption.
Qed.

Lemma iso_del_ids_incl l id x : In x (map st_id (strms_del l id)) -> In x (map st_id l).
Proof.
  induction l as [|y t IH]; cbn [strms_del map]; [intros []|].
  destruct (st_id y =? id); cbn [map In]; [auto|]. intros [H|H]; auto.
Qed.

Lemma iso_del_NoDup l id : NoDup (map st_id l) -> NoDup (map st_id (strms_del l id)).
Proof.
  induction l as [|y t IH]; cbn [strms_del map]; [auto|]. intro ND. inversion ND as [|a b NI ND']; subst.
  destruct (st_id y =? id); [assumption|]. cbn [map]. constructor; [|auto].
  intro I. apply NI. eapply iso_del_ids_incl. exact I.
Qed.

Lemma iso_del_gone l id : NoDup (map st_id l) -> ~ In id (map st_id (strms_del l id)).
Proof.
  induction l as [|y t IH]; cbn [strms_del map]; [intros _ []|]. intro ND. inversion ND as [|a b NI ND']; subst.
  destruct (st_id y =? id) eqn:E.
  - replace id with (st_id y) by lia. assumption.
  - cbn [map In]. intros [H|H]; [lia | apply IH; assumption].
Qed.

Lemma NoDup_app_one_iso (A : Type) (l : list A) (x : A) : NoDup l -> ~ In x l -> NoDup (l ++ [x]).
Proof.
  induction l as [|a l IH]; cbn [app]; intros ND NI; [constructor; [intros []|constructor]|].
  inversion ND as [|a' l' Na ND']; subst. constructor.
  - intro I. apply in_app_or in I. destruct I as [I|[I|[]]]; [tauto|]. apply NI. left. symmetry. assumption.
  - apply IH; [assumption|]. intro I. apply NI. right. assumption.
Qed.

Lemma set_nth_N_In l i x e : In e (set_nth_N l i x) -> e = x \/ In e l.
Proof.
  revert i. induction l as [|h t IH]; intros [|i]; cbn [set_nth_N In]; try tauto.
  - intros [H|H]; auto.
  - intros [H|H]; auto. destruct (IH _ H); auto.
Qed.

End Tbl.

(* ---------- error outputs ---------- *)
Definition conn_err_out (o : outev) : bool :=
  match o with OGoAway _ _ | OPanic _ _ | OLate (OGoAway _ _) => true | _ => false end.
Definition gcount (l : list outev) : nat := length (filter conn_err_out l).

Lemma gcount_app a b : gcount (a ++ b) = (gcount a + gcount b)%nat.
Proof. unfold gcount. rewrite filter_app, app_length. reflexivity. Qed.
Lemma gcount_cons o l : gcount (o :: l) = ((if conn_err_out o then 1 else 0) + gcount l)%nat.
Proof. unfold gcount. cbn [filter]. destruct (conn_err_out o); reflexivity. Qed.

(* ---------- the header-decoding view of a stream, and how a stream may evolve outside header decoding ---------- *)
Definition hv (s : stream) : N * bool * bytes * N := (st_id s, st_headersFinished s, st_prev s, st_blockFields s).

(* a stream whose header block is open may only be closed once the server has reset it (or answered it:
   impossible, see P) *)
Definition close_ok (k : bool) (x : stream) : Prop :=
  k = true -> st_headersFinished x = false -> st_weReset x = true \/ st_responded x = true.

(* what a stream has collected of its request (C01): only frames of the stream itself may change it *)
Definition rqv (s : stream) :=
  (st_pMethod s, st_pScheme s, st_pPath s, st_pAuth s, st_regularSeen s, st_contentLength s, st_hasCL s,
   st_headerListSize s, st_path s, st_req s, st_recvBody s).

Section TR.
(* the stream the step is about (the frame's stream id) *)
Variable own : N.

(* k = true: strict, the last clause is tracked as well *)
Definition tr (k : bool) (s x : stream) : Prop :=
  (st_id s <> own -> rqv x = rqv s) /\
  hv x = hv s /\
  sstate_rank (st_state s) <= sstate_rank (st_state x) /\
  (st_responded s = true -> st_responded x = true) /\
  (st_responded x = true -> st_responded s = true \/ (st_headersFinished s = true /\ 3 <= sstate_rank (st_state x))) /\
  (st_handlerRunning x = true -> st_handlerRunning s = true \/ st_responded x = true) /\
  (st_weReset s = true -> st_weReset x = true) /\
  (st_state x = SClosed -> st_state s = SClosed \/ close_ok k x).

Lemma tr_refl k s : tr k s s.
Proof. unfold tr. repeat split; auto; lia. Qed.

Lemma tr_trans k a b c : tr k a b -> tr k b c -> tr k a c.
Proof.
  unfold tr, hv. intros (A0 & A1 & A2 & A3 & A4 & A5 & A6 & A7) (B0 & B1 & B2 & B3 & B4 & B5 & B6 & B7).
  assert (Ei : st_id b = st_id a) by (inversion A1; reflexivity).
  split; [intro NO; rewrite B0, A0; [reflexivity | exact NO | rewrite Ei; exact NO]|].
  inversion A1 as [[Ai Ah Ap Ab]]. inversion B1 as [[Bi Bh Bp Bb]].
  split; [congruence|]. split; [lia|]. split; [auto|]. split; [|split; [|split; [auto|]]].
  - intro H. destruct (B4 H) as [H1|[H1 H2]].
    + destruct (A4 H1) as [H3|[H3 H4]]; [left; assumption | right; split; [congruence | lia]].
    + right. split; [congruence | assumption].
  - intro H. destruct (B5 H) as [H1|H1]; [|right; assumption].
    destruct (A5 H1) as [H2|H2]; [left; assumption | right; auto].
  - intro H. destruct (B7 H) as [H1|H1]; [|right; assumption].
    destruct (A7 H1) as [H2|H2]; [left; assumption|]. right.
    intros K Hf. destruct (H2 K) as [W|R]; [congruence | left; auto | right; auto].
Qed.

Lemma tr_id k s x : tr k s x -> st_id x = st_id s.
Proof. intros (_ & H & _). inversion H. reflexivity. Qed.
Lemma tr_hf k s x : tr k s x -> st_headersFinished x = st_headersFinished s.
Proof. intros (_ & H & _). inversion H. reflexivity. Qed.
Lemma tr_prev k s x : tr k s x -> st_prev x = st_prev s.
Proof. intros (_ & H & _). inversion H. reflexivity. Qed.
Lemma tr_bf k s x : tr k s x -> st_blockFields x = st_blockFields s.
Proof. intros (_ & H & _). inversion H. reflexivity. Qed.
Lemma tr_responded k s x : tr k s x -> st_responded s = true -> st_responded x = true.
Proof. unfold tr. tauto. Qed.

Ltac tr_tac := unfold tr, hv; cbn; repeat split; auto; try lia.

(* transformers that keep the state *)
Lemma tr_set_weReset k s : tr k s (set_weReset s). Proof. tr_tac. Qed.
Lemma tr_set_window k s w : tr k s (set_window s w). Proof. tr_tac. Qed.
Lemma tr_set_snd k s n : tr k s (set_snd s n). Proof. tr_tac. Qed.
Lemma tr_set_recv k s r q : st_id s = own -> tr k s (set_recv s r q). Proof. intro E. tr_tac; try (intro NE; congruence). Qed.
Lemma tr_rqv k s x : tr k s x -> st_id s <> own -> rqv x = rqv s.
Proof. unfold tr. tauto. Qed.
Lemma tr_done_flags k s : tr k s (set_flags s (st_responded s) false (st_abandoned s)).
Proof. tr_tac; try (intro; discriminate). Qed.
Lemma tr_respond k s r a : st_headersFinished s = true -> 3 <= sstate_rank (st_state s) -> tr k s (set_flags s true r a).
Proof. intros H1 H2. tr_tac. Qed.

(* closing *)
Lemma tr_set_state_closed k s : close_ok k s -> tr k s (set_state s SClosed).
Proof. intro OK. tr_tac. destruct (st_state s); cbn; lia. Qed.
Lemma tr_reset_closed k s : tr k s (set_state (set_weReset s) SClosed).
Proof. tr_tac; [destruct (st_state s); cbn; lia|]. intros _. right. intros _ _. left. reflexivity. Qed.
Lemma tr_set_state k s st : st <> SClosed -> sstate_rank (st_state s) <= sstate_rank st -> tr k s (set_state s st).
Proof. intros N0 H. tr_tac. intro E. congruence. Qed.
Lemma tr_handle_state k fr s : (st_state (handle_state fr s) = SClosed -> close_ok k s) -> tr k s (handle_state fr s).
Proof.
  unfold handle_state. destruct (fkind_eqb (sf_kind fr) KRst).
  - cbn [st_state set_state]. intro OK. apply tr_set_state_closed. apply OK. reflexivity.
  - intros _. destruct (st_state s) eqn:E;
    repeat match goal with |- context [if ?b then _ else _] => destruct b end;
    try apply tr_refl; apply tr_set_state; try discriminate; rewrite E; cbn; lia.
Qed.

(* the per-stream invariant; idp says which ids may be in the middle of a header block *)
Definition P (idp : N -> Prop) (s : stream) : Prop :=
  (st_headersFinished s = true -> st_prev s = []) /\
  (st_responded s = true -> st_headersFinished s = true /\ 3 <= sstate_rank (st_state s)) /\
  (st_handlerRunning s = true -> st_responded s = true) /\
  (st_headersFinished s = false -> idp (st_id s)) /\
  (st_state s = SClosed -> close_ok true s).

Lemma P_tr idp s x : P idp s -> tr true s x -> P idp x.
Proof.
  unfold P, tr, hv. intros (P1 & P2 & P3 & P4 & P5) (_ & T1 & T2 & T3 & T4 & T5 & T6 & T7). inversion T1 as [[Ti Th Tp Tb]].
  split; [|split; [|split; [|split]]].
  - rewrite Th, Tp. assumption.
  - intro H. destruct (T4 H) as [H1|[H1 H2]].
    + destruct (P2 H1). split; [congruence | lia].
    + split; [congruence | assumption].
  - intro H. destruct (T5 H) as [H1|H1]; auto.
  - rewrite Th, Ti. assumption.
  - intro H. destruct (T7 H) as [H1|H1]; [|assumption].
    intros K Hf. rewrite Th in Hf. destruct (P5 H1 K Hf) as [W|R]; [left | right]; auto.
Qed.

Lemma Forall2_tr_refl k l : Forall2 (tr k) l l.
Proof. induction l; constructor; auto using tr_refl. Qed.

Lemma put_tr k l x s : strms_search l (st_id x) = Some s -> tr k s x -> Forall2 (tr k) l (strms_put l x).
Proof.
  induction l as [|y t IH]; cbn [strms_search strms_put]; [discriminate|].
  destruct (st_id y =? st_id x) eqn:E; intros H S.
  - inversion H; subst. constructor; [assumption | apply Forall2_tr_refl].
  - constructor; [apply tr_refl | auto].
Qed.

Lemma Forall2_tr_ids k l l' : Forall2 (tr k) l l' -> map st_id l' = map st_id l.
Proof. induction 1 as [|a b l l' H _ IH]; cbn [map]; [reflexivity|]. rewrite IH, (tr_id _ _ _ H). reflexivity. Qed.

Lemma Forall2_tr_search k l l' id : Forall2 (tr k) l l' ->
  match strms_search l id with
  | Some s => exists x, strms_search l' id = Some x /\ tr k s x
  | None => strms_search l' id = None
  end.
Proof.
  induction 1 as [|a b l l' H _ IH]; cbn [strms_search]; [reflexivity|].
  rewrite (tr_id _ _ _ H). destruct (st_id a =? id); [exists b; auto | exact IH].
Qed.

Lemma Forall2_tr_P idp l l' : Forall2 (tr true) l l' -> Forall (P idp) l -> Forall (P idp) l'.
Proof. induction 1 as [|a b l l' H _ IH]; intro F; [constructor|]. inversion F; subst. constructor; eauto using P_tr. Qed.

Lemma Forall2_tr_In k l l' x : Forall2 (tr k) l l' -> In x l' -> exists s, In s l /\ tr k s x.
Proof.
  induction 1 as [|a b l l' H _ IH]; [intros []|]. intros [->|I]; [exists a; split; [left; reflexivity | assumption]|].
  destruct (IH I) as (s & Is & T). exists s. split; [right|]; assumption.
Qed.

End TR.

(* ---------- connection-level ---------- *)
Section Moves.
Variable hstate : Type.
Variable own : N.
Local Notation tr := (tr own).
Notation sconn := (sconn hstate).
Implicit Types c : sconn.

Definition oext c c' : Prop := exists new, sc_out c' = new ++ sc_out c.
Lemma oext_refl c : oext c c. Proof. exists []. reflexivity. Qed.
Lemma oext_trans a b c : oext a b -> oext b c -> oext a c.
Proof. intros [l1 E1] [l2 E2]. exists (l2 ++ l1). rewrite E2, E1, app_assoc. reflexivity. Qed.
Lemma oext_same c c' : sc_out c' = sc_out c -> oext c c'.
Proof. intro H. exists []. assumption. Qed.
Lemma oext_gcount c c' : oext c c' -> (gcount (sc_out c) <= gcount (sc_out c'))%nat.
Proof. intros [l E]. rewrite E, gcount_app. lia. Qed.
(* the parts every stream-loop move leaves alone or changes in a known way *)
Definition closing_eff c c' : Prop :=
  (sc_closing c' = sc_closing c /\ sc_closeRef c' = sc_closeRef c) \/
  (sc_closing c' = true /\ (sc_wl_dead c = false -> (gcount (sc_out c) < gcount (sc_out c'))%nat)).
Definition done_eff c c' : Prop :=
  sc_sl_done c' = sc_sl_done c \/
  (sc_sl_done c' = true /\ (sc_closing c = true \/ (sc_wl_dead c = false -> (gcount (sc_out c) < gcount (sc_out c'))%nat))).

(* what never changes in a stream-loop step: the decoder is handled apart *)
Definition base c c' : Prop :=
  oext c c' /\ sc_wl_dead c' = sc_wl_dead c /\ sc_rl_done c' = sc_rl_done c /\ sc_readerQ c' = sc_readerQ c /\
  sc_expectCont c' = sc_expectCont c /\ sc_now c' = sc_now c /\ sc_closer c' = sc_closer c.

(* same header-decoding state *)
Definition hsame c c' : Prop :=
  sc_dec c' = sc_dec c /\ sc_discardID c' = sc_discardID c /\ sc_discardPrev c' = sc_discardPrev c /\
  sc_discardFields c' = sc_discardFields c /\ sc_strms c' = sc_strms c /\ sc_ring c' = sc_ring c /\
  sc_lastID c' = sc_lastID c /\ sc_highestID c' = sc_highestID c /\ sc_sl_done c' = sc_sl_done c /\
  sc_closing c' = sc_closing c /\ sc_closeRef c' = sc_closeRef c /\ base c c'.

Lemma base_refl c : base c c.
Proof. unfold base. repeat split; auto using oext_refl. Qed.
Lemma base_trans a b c : base a b -> base b c -> base a c.
Proof.
  unfold base. intros (A1 & A2 & A3 & A4 & A5 & A6 & A7) (B1 & B2 & B3 & B4 & B5 & B6 & B7).
  repeat split; try congruence. eapply oext_trans; eassumption.
Qed.
Lemma hsame_refl c : hsame c c.
Proof. unfold hsame. repeat (split; [reflexivity|]). apply base_refl. Qed.
Lemma hsame_trans a b c : hsame a b -> hsame b c -> hsame a c.
Proof.
  unfold hsame. intros (A1 & A2 & A3 & A4 & A5 & A6 & A7 & A8 & A9 & A10 & A11 & A12)
                       (B1 & B2 & B3 & B4 & B5 & B6 & B7 & B8 & B9 & B10 & B11 & B12).
  repeat (split; [congruence|]). eapply base_trans; eassumption.
Qed.

(* strict = true: a stream whose header block is still open is only closed if the server reset it
   (then closeStream keeps the carry) or if it has been answered (impossible: see P) *)
Inductive hmv (strict : bool) : sconn -> sconn -> Prop :=
| hm_same c c' : hsame c c' -> hmv strict c c'
| hm_map c l : Forall2 (tr strict) (sc_strms c) l -> hmv strict c (upd_strms c l)
| hm_close c s x : strms_search (sc_strms c) (st_id x) = Some s -> tr strict s x -> close_ok strict x ->
    hmv strict c (close_stream c x)
| hm_mark c id w : id <= sc_highestID c -> hmv strict c (mark_closed c id w)
| hm_highest c sid : sc_highestID c < sid -> hmv strict c (upd_highestID c sid)
| hm_goaway c sid code : hmv strict c (write_goaway c sid code)
| hm_brk c : sc_closing c = true -> hmv strict c (fst (brk c))
| hm_panic c : hmv strict c (fst (brk (note c (OPanic 1 0))))
| hm_fatal c c' : sc_dec c' = sc_dec c -> base c c' -> sc_sl_done c' = true -> closing_eff c c' ->
    (sc_wl_dead c = false -> (gcount (sc_out c) < gcount (sc_out c'))%nat) -> hmv strict c c'.

Inductive hmvs (strict : bool) : sconn -> sconn -> Prop :=
| hms_nil c : hmvs strict c c
| hms_cons a b c : hmv strict a b -> hmvs strict b c -> hmvs strict a c.

Lemma hmvs_one k a b : hmv k a b -> hmvs k a b.
Proof. intro H. econstructor; [eassumption | constructor]. Qed.
Lemma hmvs_trans k a b c : hmvs k a b -> hmvs k b c -> hmvs k a c.
Proof. induction 1; intro H2; [assumption|]. econstructor; [eassumption | auto]. Qed.
Lemma hmvs_same k a b : hsame a b -> hmvs k a b.
Proof. intro H. apply hmvs_one, hm_same, H. Qed.

Lemma hmvs_ind_rel k (R : sconn -> sconn -> Prop) :
  (forall a, R a a) -> (forall a b c, R a b -> R b c -> R a c) -> (forall a b, hmv k a b -> R a b) ->
  forall a b, hmvs k a b -> R a b.
Proof. intros Hr Ht Hm a b M. induction M; eauto. Qed.

(* put = map *)
Lemma hmv_put k c s x : strms_search (sc_strms c) (st_id x) = Some s -> tr k s x -> hmv k c (put c x).
Proof. intros H T. unfold put. apply hm_map. eapply put_tr; eassumption. Qed.

(* ---------- what the moves keep ---------- *)
Lemma base_emit c o : base c (emit c o).
Proof.
  unfold base. sc_rw. repeat split; auto. rewrite emit_eq. unfold oext. sc_cbn. rewrite sc_out_emit.
  destruct (sc_wl_dead c); [exists []; reflexivity|]. destruct (sc_sl_done c); [exists [OLate o] | exists [o]]; reflexivity.
Qed.
Lemma base_note c o : base c (note c o).
Proof. unfold base, note. sc_cbn. repeat split; auto. exists [o]. reflexivity. Qed.
Lemma base_same_out c c' : sc_out c' = sc_out c -> sc_wl_dead c' = sc_wl_dead c -> sc_rl_done c' = sc_rl_done c ->
  sc_readerQ c' = sc_readerQ c -> sc_expectCont c' = sc_expectCont c -> sc_now c' = sc_now c -> sc_closer c' = sc_closer c ->
  base c c'.
Proof. intros. unfold base. repeat split; auto using oext_same. Qed.

Lemma base_close_stream c x : base c (close_stream c x).
Proof.
  unfold base. sc_rw. repeat split; auto. unfold oext. rewrite sc_out_close_stream.
  destruct (st_handlerRunning x); [exists [] | exists [ORelease (st_id x) true]]; reflexivity.
Qed.
Lemma base_mark_closed c id w : base c (mark_closed c id w).
Proof. apply base_same_out; sc_rw; reflexivity. Qed.
Lemma base_write_goaway c sid code : base c (write_goaway c sid code).
Proof.
  rewrite write_goaway_eq. eapply base_trans; [|apply base_emit]. apply base_same_out; reflexivity.
Qed.
Lemma base_brk c : base c (fst (brk c)).
Proof. unfold brk. cbn [fst]. eapply base_trans; [|apply base_note]. apply base_same_out; reflexivity. Qed.

Lemma hmv_base k a b : hmv k a b -> base a b.
Proof.
  intros []; auto.
  - unfold hsame in *. tauto.
  - apply base_same_out; reflexivity.
  - apply base_close_stream.
  - apply base_mark_closed.
  - apply base_same_out; reflexivity.
  - apply base_write_goaway.
  - apply base_brk.
  - eapply base_trans; [apply base_note | apply base_brk].
Qed.
Lemma hmvs_base k a b : hmvs k a b -> base a b.
Proof. apply hmvs_ind_rel; eauto using base_refl, hmv_base. intros; eapply base_trans; eassumption. Qed.

Lemma hmv_dec k a b : hmv k a b -> sc_dec b = sc_dec a.
Proof. intros []; sc_rw; auto. unfold hsame in *. tauto. Qed.
Lemma hmvs_dec k a b : hmvs k a b -> sc_dec b = sc_dec a.
Proof. apply (hmvs_ind_rel k (fun a b => sc_dec b = sc_dec a)); eauto using hmv_dec. intros; congruence. Qed.

Lemma gcount_write_goaway c sid code : sc_wl_dead c = false ->
  (gcount (sc_out c) < gcount (sc_out (write_goaway c sid code)))%nat.
Proof.
  intro H. rewrite sc_out_write_goaway, H. destruct (sc_sl_done c); rewrite gcount_cons; cbn [conn_err_out]; lia.
Qed.

Lemma closing_eff_refl c : closing_eff c c.
Proof. left. auto. Qed.
Lemma closing_eff_trans a b c : base a b -> base b c -> closing_eff a b -> closing_eff b c -> closing_eff a c.
Proof.
  intros B1 B2 [[E1 F1]|[E1 G1]] [[E2 F2]|[E2 G2]].
  - left. split; congruence.
  - right. split; [assumption|]. intro W. destruct B1 as (O1 & W1 & _). apply oext_gcount in O1.
    rewrite W1 in G2. specialize (G2 W). lia.
  - right. split; [congruence|]. intro W. destruct B2 as (O2 & _). apply oext_gcount in O2. specialize (G1 W). lia.
  - right. split; [assumption|]. intro W. destruct B2 as (O2 & _). apply oext_gcount in O2. specialize (G1 W). lia.
Qed.

Lemma hmv_closing k a b : hmv k a b -> closing_eff a b.
Proof.
  intros []; auto.
  - left. unfold hsame in *. tauto.
  - left. split; reflexivity.
  - left. sc_rw. split; reflexivity.
  - left. sc_rw. split; reflexivity.
  - left. split; reflexivity.
  - right. split; [apply sc_closing_write_goaway | apply gcount_write_goaway].
  - left. split; reflexivity.
  - left. split; reflexivity.
Qed.
Lemma hmvs_closing k a b : hmvs k a b -> closing_eff a b.
Proof.
  induction 1 as [|a b c M MS IH]; [apply closing_eff_refl|].
  eapply closing_eff_trans; [eapply hmv_base; eassumption | eapply hmvs_base; eassumption | eapply hmv_closing; eassumption | assumption].
Qed.

Lemma hmv_done k a b : hmv k a b -> done_eff a b.
Proof.
  intros []; try (left; sc_rw; reflexivity).
  - left. unfold hsame in *. tauto.
  - right. split; [reflexivity | left; assumption].
  - right. split; [reflexivity | right]. intros _. unfold brk, note. sc_cbn. rewrite !gcount_cons. cbn [conn_err_out]. lia.
  - right. split; [assumption | right; assumption].
Qed.

(* closing, once set, stays; so "was closing at some point of the step" is "is closing or a GOAWAY went out" *)
Lemma hmvs_done k a b : hmvs k a b ->
  sc_sl_done b = sc_sl_done a \/
  (sc_sl_done b = true /\ (sc_closing a = true \/ (sc_wl_dead a = false -> (gcount (sc_out a) < gcount (sc_out b))%nat))).
Proof.
  induction 1 as [|a b c M MS IH]; [left; reflexivity|].
  pose proof (hmv_base _ _ _ M) as (O1 & W1 & _). pose proof (hmvs_base _ _ _ MS) as (O2 & _).
  apply oext_gcount in O1. apply oext_gcount in O2.
  destruct (hmv_done _ _ _ M) as [E1|[E1 G1]]; destruct IH as [E2|[E2 G2]].
  - left. congruence.
  - right. split; [assumption|]. destruct G2 as [G2|G2].
    + destruct (hmv_closing _ _ _ M) as [[C1 _]|[_ C1]]; [left; congruence|]. right. intro W. specialize (C1 W). lia.
    + right. intro W. rewrite W1 in G2. specialize (G2 W). lia.
  - right. split; [congruence|]. destruct G1 as [G1|G1]; [left; assumption|]. right. intro W. specialize (G1 W). lia.
  - right. split; [assumption|]. destruct G1 as [G1|G1]; [left; assumption|]. right. intro W. specialize (G1 W). lia.
Qed.

(* ---------- the effect of a whole stream-loop step on everything outside header decoding ---------- *)
Definition eff c c' : Prop := base c c' /\ closing_eff c c' /\ done_eff c c'.

Lemma eff_refl c : eff c c.
Proof. split; [apply base_refl|]. split; [apply closing_eff_refl | left; reflexivity]. Qed.

Lemma eff_trans a b c : eff a b -> eff b c -> eff a c.
Proof.
  intros (B1 & C1 & D1) (B2 & C2 & D2).
  split; [eapply base_trans; eassumption|]. split; [eapply closing_eff_trans; eassumption|].
  pose proof B1 as (O1 & W1 & _). pose proof B2 as (O2 & _). apply oext_gcount in O1. apply oext_gcount in O2.
  unfold done_eff in *.
  destruct D1 as [E1|[E1 G1]]; destruct D2 as [E2|[E2 G2]].
  - left. congruence.
  - right. split; [assumption|]. destruct G2 as [G2|G2].
    + destruct C1 as [[C1 _]|[_ C1]]; [left; congruence|]. right. intro W. specialize (C1 W). lia.
    + right. intro W. rewrite W1 in G2. specialize (G2 W). lia.
  - right. split; [congruence|]. destruct G1 as [G1|G1]; [left; assumption|]. right. intro W. specialize (G1 W). lia.
  - right. split; [assumption|]. destruct G1 as [G1|G1]; [left; assumption|]. right. intro W. specialize (G1 W). lia.
Qed.

Lemma hmv_eff k a b : hmv k a b -> eff a b.
Proof. intro M. split; [eapply hmv_base; exact M|]. split; [eapply hmv_closing; exact M | eapply hmv_done; exact M]. Qed.

Lemma hmvs_eff k a b : hmvs k a b -> eff a b.
Proof. induction 1; [apply eff_refl|]. eapply eff_trans; [eapply hmv_eff; eassumption | assumption]. Qed.

(* nothing but the decoder, the discard registers and the table changed *)
Lemma eff_quiet c c' : sc_out c' = sc_out c -> sc_wl_dead c' = sc_wl_dead c -> sc_rl_done c' = sc_rl_done c ->
  sc_readerQ c' = sc_readerQ c -> sc_expectCont c' = sc_expectCont c -> sc_now c' = sc_now c -> sc_closer c' = sc_closer c ->
  sc_closing c' = sc_closing c -> sc_closeRef c' = sc_closeRef c -> sc_sl_done c' = sc_sl_done c -> eff c c'.
Proof.
  intros. split; [apply base_same_out; assumption|]. split; [left; split; assumption | left; assumption].
Qed.

(* without an error output: nothing happened to sc_closing, and the loop only ends if the connection was closing *)
Lemma eff_clean c c' : eff c c' -> sc_wl_dead c = false -> (gcount (sc_out c') <= gcount (sc_out c))%nat ->
  sc_closing c' = sc_closing c /\ sc_closeRef c' = sc_closeRef c /\
  (sc_sl_done c' = sc_sl_done c \/ (sc_sl_done c' = true /\ sc_closing c = true)).
Proof.
  intros (B & C & D) W G. destruct C as [[C1 C2]|[_ C]]; [|specialize (C W); lia].
  split; [assumption|]. split; [assumption|].
  destruct D as [D|[D1 [D2|D2]]]; [left; assumption | right; auto | specialize (D2 W); lia].
Qed.

(* ---------- the invariant ---------- *)
Definition carry_at c (id : N) : option (N * bytes) :=
  if sc_discardID c =? id then Some (sc_discardFields c, sc_discardPrev c)
  else match strms_search (sc_strms c) id with
       | Some s => if st_headersFinished s then None else Some (st_blockFields s, st_prev s)
       | None => None
       end.

Record HInv (idp : N -> Prop) c : Prop := mkHInv {
  hi_nodup : NoDup (map st_id (sc_strms c));
  hi_P : Forall (P idp) (sc_strms c);
  hi_ids : forall s, In s (sc_strms c) -> st_id s <= sc_lastID c /\ st_id s <> 0;
  hi_last : sc_lastID c <= sc_highestID c;
  hi_disc : sc_discardID c <> 0 -> ~ In (sc_discardID c) (map st_id (sc_strms c)) /\ sc_discardID c <= sc_highestID c;
  hi_ring : forall e, In e (sc_ring c) -> fst e <= sc_highestID c
}.

Lemma mark_closed_ring_In c id w e : In e (sc_ring (mark_closed c id w)) -> e = (id, w) \/ In e (sc_ring c).
Proof.
  unfold mark_closed. destruct (in_ring c id); [auto|]. destruct (_ <? _); sc_cbn.
  - intro H. apply in_app_or in H. destruct H as [H|[H|[]]]; auto.
  - apply set_nth_N_In.
Qed.

Lemma close_stream_discard c x :
  (sc_discardID (close_stream c x), sc_discardPrev (close_stream c x), sc_discardFields (close_stream c x)) =
  if st_weReset x && negb (st_headersFinished x) && negb (sc_discardID c =? st_id x)
  then (st_id x, st_prev x, st_blockFields x) else (sc_discardID c, sc_discardPrev c, sc_discardFields c).
Proof.
  rewrite close_stream_eq. cbv zeta. unfold close_discard. sc_rw.
  destruct (st_weReset x && negb (st_headersFinished x) && negb (sc_discardID c =? st_id x))%bool;
    destruct (st_handlerRunning x); unfold release_stream, note; sc_split_ifs; sc_cbn; sc_rw; reflexivity.
Qed.

Lemma hmv_HInv idp a b : hmv true a b -> HInv idp a -> sc_sl_done b = false -> HInv idp b.
Proof.
  intros M H Hd. destruct M as [c c' S|c l F|c s x SS T W|c id w Hid|c sid Hs|c sid code|c Hc|c|c c' _ _ D _ _].
  - unfold hsame in S. destruct S as (_ & E1 & _ & _ & E2 & E3 & E4 & E5 & _). destruct H.
    constructor; rewrite ?E1, ?E2, ?E3, ?E4, ?E5; assumption.
  - destruct H. constructor; sc_cbn; auto.
    + rewrite (Forall2_tr_ids _ _ _ _ F). assumption.
    + eapply Forall2_tr_P; eassumption.
    + intros y I. destruct (Forall2_tr_In _ _ _ _ _ F I) as (s & Is & Ts). rewrite (tr_id _ _ _ _ Ts). auto.
    + rewrite (Forall2_tr_ids _ _ _ _ F). assumption.
  - destruct H. pose proof (close_stream_discard c x) as CD.
    pose proof (strms_search_In _ _ _ SS) as [Is Eid].
    constructor; rewrite ?sc_strms_close_stream; sc_rw; auto.
    + apply iso_del_NoDup. assumption.
    + apply strms_del_Forall. assumption.
    + intros y I. apply hi_ids0. eapply strms_del_In. eassumption.
    + destruct (st_weReset x && negb (st_headersFinished x) && negb (sc_discardID c =? st_id x))%bool;
        inversion CD as [[E1 E2 E3]]; rewrite E1.
      * intros _. split; [apply iso_del_gone; assumption|]. destruct (hi_ids0 _ Is). lia.
      * intro N0. destruct (hi_disc0 N0) as [NI LE]. split; [|assumption]. intro I. apply NI. eapply iso_del_ids_incl. exact I.
    + intros e I. rewrite sc_ring_close_stream in I. destruct (mark_closed_ring_In _ _ _ _ I) as [->|I']; [|auto].
      cbn [fst]. destruct (hi_ids0 _ Is). lia.
  - destruct H. constructor; sc_rw; auto.
    intros e I. destruct (mark_closed_ring_In _ _ _ _ I) as [->|I']; [assumption | auto].
  - destruct H. constructor; sc_cbn; auto; try lia.
    + intro N0. destruct (hi_disc0 N0). split; [assumption | lia].
    + intros e I. specialize (hi_ring0 e I). lia.
  - destruct H. constructor; sc_rw; auto.
  - cbn in Hd. discriminate.
  - cbn in Hd. discriminate.
  - congruence.
Qed.

Lemma hmv_sl_done_mono k a b : hmv k a b -> sc_sl_done a = true -> sc_sl_done b = true.
Proof.
  intros M Hd. destruct M; sc_rw; auto.
  unfold hsame in *. intuition congruence.
Qed.
Lemma hmvs_sl_done_mono k a b : hmvs k a b -> sc_sl_done a = true -> sc_sl_done b = true.
Proof. induction 1; eauto using hmv_sl_done_mono. Qed.

Lemma hmvs_HInv idp a b : hmvs true a b -> HInv idp a -> sc_sl_done b = false -> HInv idp b.
Proof.
  induction 1 as [|a b c M MS IH]; intros H Hd; [assumption|].
  apply IH; [|assumption]. eapply hmv_HInv; [eassumption | assumption|].
  destruct (sc_sl_done b) eqn:E; [|reflexivity]. rewrite (hmvs_sl_done_mono _ _ _ MS E) in Hd. discriminate.
Qed.

(* the carry of the block in progress stays where the next CONTINUATION will look for it *)
Lemma hmv_carry cur a b v : hmv true a b -> HInv (eq cur) a -> sc_sl_done b = false ->
  carry_at a cur = Some v -> carry_at b cur = Some v.
Proof.
  intros M H Hd. destruct M as [c c' S|c l F|c s x SS T W|c id w Hid|c sid Hs|c sid code|c Hc|c|c c' _ _ D _ _];
    unfold carry_at; sc_rw; auto.
  - unfold hsame in S. destruct S as (_ & E1 & E2 & E3 & E4 & _). rewrite E1, E2, E3, E4. auto.
  - sc_cbn. destruct (sc_discardID c =? cur); [auto|].
    pose proof (Forall2_tr_search _ _ _ _ cur F) as FS. destruct (strms_search (sc_strms c) cur) as [s|]; [|discriminate].
    destruct FS as (x & -> & T). rewrite (tr_hf _ _ _ _ T), (tr_bf _ _ _ _ T), (tr_prev _ _ _ _ T). auto.
  - pose proof (close_stream_discard c x) as CD. rewrite sc_strms_close_stream.
    pose proof (strms_search_In _ _ _ SS) as [Is Eid].
    assert (Px : P (eq cur) x). { eapply P_tr; [|exact T]. destruct H. rewrite Forall_forall in hi_P0. auto. }
    destruct (sc_discardID c =? cur) eqn:Ed.
    + (* in the registers: they are not overwritten *)
      destruct (st_weReset x && negb (st_headersFinished x) && negb (sc_discardID c =? st_id x))%bool eqn:Fire.
      * exfalso. apply andb_prop in Fire. destruct Fire as [Fire F3]. apply andb_prop in Fire. destruct Fire as [_ F2].
        destruct Px as (_ & _ & _ & P4 & _). apply negb_true_iff in F2. specialize (P4 F2). lia.
      * inversion CD as [[E1 E2 E3]]. rewrite E1, E2, E3, Ed. auto.
    + destruct (strms_search (sc_strms c) cur) as [s0|] eqn:S0; [|discriminate].
      destruct (st_headersFinished s0) eqn:H0; [discriminate|]. intro V.
      destruct (N.eq_dec (st_id x) cur) as [Ex|Nx].
      * (* the stream in the middle of its block is closed: it was reset, the carry moves to the registers *)
        rewrite Ex in SS. rewrite SS in S0. inversion S0; subst s0.
        assert (Hx : st_headersFinished x = false) by (rewrite (tr_hf _ _ _ _ T); assumption).
        assert (Wx : st_weReset x = true).
        { destruct (W eq_refl Hx) as [Wx|Rx]; [assumption|]. destruct Px as (_ & P2 & _). destruct (P2 Rx). congruence. }
        rewrite Wx, Hx in CD. replace (sc_discardID c =? st_id x) with false in CD by lia. cbn [andb negb] in CD.
        inversion CD as [[E1 E2 E3]]. rewrite E1, E2, E3. replace (st_id x =? cur) with true by lia.
        rewrite (tr_bf _ _ _ _ T), (tr_prev _ _ _ _ T). assumption.
      * destruct (st_weReset x && negb (st_headersFinished x) && negb (sc_discardID c =? st_id x))%bool eqn:Fire.
        -- exfalso. apply andb_prop in Fire. destruct Fire as [Fire F3]. apply andb_prop in Fire. destruct Fire as [_ F2].
           destruct Px as (_ & _ & _ & P4 & _). apply negb_true_iff in F2. specialize (P4 F2). congruence.
        -- inversion CD as [[E1 E2 E3]]. rewrite E1, Ed. rewrite iso_search_del_other by congruence. rewrite S0, H0. assumption.
  - congruence.
Qed.

Lemma hmvs_carry cur a b v : hmvs true a b -> HInv (eq cur) a -> sc_sl_done b = false ->
  carry_at a cur = Some v -> carry_at b cur = Some v.
Proof.
  induction 1 as [|a b c M MS IH]; intros H Hd V; [assumption|].
  assert (Hb : sc_sl_done b = false).
  { destruct (sc_sl_done b) eqn:E; [|reflexivity]. rewrite (hmvs_sl_done_mono _ _ _ MS E) in Hd. discriminate. }
  apply IH; [eapply hmv_HInv; eassumption | assumption | eapply hmv_carry; eassumption].
Qed.

(* C01 / C09 (c): a step about stream `own` leaves alone what the other streams have collected of their
   requests (rqv) and where they are in their header blocks (hv) *)
Definition oth c c' : Prop :=
  forall x, In x (sc_strms c') -> st_id x <> own ->
  exists s, In s (sc_strms c) /\ st_id s = st_id x /\ rqv x = rqv s /\ hv x = hv s.

Lemma oth_refl c : oth c c.
Proof. intros x Ix _. exists x. auto. Qed.
Lemma oth_trans a b c : oth a b -> oth b c -> oth a c.
Proof.
  intros H1 H2 x Ix NO. destruct (H2 x Ix NO) as (s & Is & Ei & Er & Eh).
  destruct (H1 s Is) as (s' & Is' & Ei' & Er' & Eh'); [congruence|]. exists s'. repeat split; congruence.
Qed.
Lemma oth_same_strms c c' : sc_strms c' = sc_strms c -> oth c c'.
Proof. intros E x Ix _. rewrite E in Ix. exists x. auto. Qed.
Lemma oth_put c x : st_id x = own -> oth c (put c x).
Proof.
  intros E y Iy NO. rewrite sc_strms_put in Iy. destruct (strms_put_In _ _ _ Iy) as [->|Iy']; [congruence|]. exists y. auto.
Qed.

Lemma hmv_other k a b : hmv k a b -> sc_sl_done b = false -> oth a b.
Proof.
  intros M Hd x Ix NO. destruct M as [c c' S|c l F|c s0 x0 SS T W|c id w Hid|c sid Hs|c sid code|c Hc|c|c c' _ _ D _ _].
  - unfold hsame in S. destruct S as (_ & _ & _ & _ & E & _). rewrite E in Ix. exists x. auto.
  - sc_cbn_in Ix. destruct (Forall2_tr_In _ _ _ _ _ F Ix) as (s & Is & T). exists s. split; [exact Is|].
    split; [symmetry; eapply tr_id; exact T|]. split; [|destruct T as (_ & T1 & _); exact T1].
    eapply tr_rqv; [exact T|]. rewrite <- (tr_id _ _ _ _ T). exact NO.
  - rewrite sc_strms_close_stream in Ix. exists x. split; [eapply strms_del_In; exact Ix | auto].
  - rewrite sc_strms_mark_closed in Ix. exists x. auto.
  - sc_cbn_in Ix. exists x. auto.
  - rewrite sc_strms_write_goaway in Ix. exists x. auto.
  - cbn in Hd. discriminate.
  - cbn in Hd. discriminate.
  - congruence.
Qed.

Lemma hmvs_other k a b : hmvs k a b -> sc_sl_done b = false -> oth a b.
Proof.
  induction 1 as [|a b c M MS IH]; intros Hd; [apply oth_refl|].
  assert (Hb : sc_sl_done b = false).
  { destruct (sc_sl_done b) eqn:E; [|reflexivity]. rewrite (hmvs_sl_done_mono _ _ _ MS E) in Hd. discriminate. }
  eapply oth_trans; [eapply hmv_other; eassumption | apply IH; exact Hd].
Qed.

(* the moves never add a stream to the table *)
Lemma hmv_ids k a b : hmv k a b -> sc_sl_done b = false -> forall x, In x (sc_strms b) -> In (st_id x) (map st_id (sc_strms a)).
Proof.
  intros M Hd x Ix. destruct M as [c c' S|c l F|c s0 x0 SS T W|c id w Hid|c sid Hs|c sid code|c Hc|c|c c' _ _ D _ _].
  - unfold hsame in S. destruct S as (_ & _ & _ & _ & E & _). rewrite E in Ix. apply in_map. exact Ix.
  - sc_cbn_in Ix. rewrite <- (Forall2_tr_ids _ _ _ _ F). apply in_map. exact Ix.
  - rewrite sc_strms_close_stream in Ix. apply in_map. eapply strms_del_In. exact Ix.
  - rewrite sc_strms_mark_closed in Ix. apply in_map. exact Ix.
  - sc_cbn_in Ix. apply in_map. exact Ix.
  - rewrite sc_strms_write_goaway in Ix. apply in_map. exact Ix.
  - cbn in Hd. discriminate.
  - cbn in Hd. discriminate.
  - congruence.
Qed.

Lemma hmvs_ids k a b : hmvs k a b -> sc_sl_done b = false -> forall x, In x (sc_strms b) -> In (st_id x) (map st_id (sc_strms a)).
Proof.
  induction 1 as [|a b c M MS IH]; intros Hd x Ix; [apply in_map; exact Ix|].
  assert (Hb : sc_sl_done b = false).
  { destruct (sc_sl_done b) eqn:E; [|reflexivity]. rewrite (hmvs_sl_done_mono _ _ _ MS E) in Hd. discriminate. }
  specialize (IH Hd x Ix). apply in_map_iff in IH. destruct IH as (y & Ey & Iy). rewrite <- Ey.
  eapply hmv_ids; eassumption.
Qed.

(* sc_highestID only grows *)
Lemma hmv_highest k a b : hmv k a b -> sc_sl_done b = false -> sc_highestID a <= sc_highestID b.
Proof.
  intros M Hd. destruct M as [c c' S|c l F|c s0 x0 SS T W|c id w Hid|c sid Hs|c sid code|c Hc|c|c c' _ _ D _ _]; sc_rw; try lia.
  unfold hsame in S. destruct S as (_ & _ & _ & _ & _ & _ & _ & E & _). lia.
Qed.
Lemma hmvs_highest k a b : hmvs k a b -> sc_sl_done b = false -> sc_highestID a <= sc_highestID b.
Proof.
  induction 1 as [|a b c M MS IH]; intros Hd; [lia|].
  assert (Hb : sc_sl_done b = false).
  { destruct (sc_sl_done b) eqn:E; [|reflexivity]. rewrite (hmvs_sl_done_mono _ _ _ MS E) in Hd. discriminate. }
  pose proof (hmv_highest _ _ _ M Hb). specialize (IH Hd). lia.
Qed.

End Moves.

Arguments oext {hstate}. Arguments base {hstate}. Arguments hsame {hstate}. Arguments closing_eff {hstate}.
Arguments done_eff {hstate}. Arguments eff {hstate}. Arguments hmv {hstate}. Arguments hmvs {hstate}. Arguments carry_at {hstate}.
Arguments HInv {hstate}. Arguments oth {hstate}.
