(* Proofs/TeardownProofs.v -- proofs about the blocking-structure LTSs of Impl/Teardown.v.
   Statements: Props/Teardown.v.  Layout: generic lemmas (wait cycles, leads-to under weak and strong
   fairness, concrete traces); server: invariants, rank, progress (S1), fair runs (S2), examples and
   findings; client: invariants, lock order (S3), findings, liveness under fairness (S3). *)
From Coq Require Import Arith Lia Bool List.
From RecordUpdate Require Import RecordSet.
Import RecordSetNotations.
Import ListNotations.
From H2V Require Import Impl.Teardown.

(* ---------------------------------------------------------------------------------------- *)
(** * Generic: ordered acquisition admits no wait cycle                                        *)
(* ---------------------------------------------------------------------------------------- *)
Section WaitCycleProofs.
  Context {Proc : Type}.
  Variable wants : Proc -> option nat.
  Variable holds : Proc -> nat -> Prop.

  Lemma chain_wants : forall l p q, wait_chain wants holds p l q -> exists m, wants p = Some m.
  Proof.
    intros l; destruct l as [|x l]; cbn; intros p q H.
    - destruct H as (m & H & _); eauto.
    - destruct H as ((m & H & _) & _); eauto.
  Qed.

  Lemma chain_increasing :
    ordered wants holds ->
    forall l p q m, wait_chain wants holds p l q -> wants p = Some m ->
      exists m', holds q m' /\ m <= m'.
  Proof.
    intros Ho; induction l as [|x l IH]; cbn; intros p q m H Hw.
    - destruct H as (m0 & H1 & H2). rewrite Hw in H1; inversion H1; subst. eauto.
    - destruct H as ((m0 & H1 & H2) & Hc). rewrite Hw in H1; inversion H1; subst m0.
      destruct (chain_wants _ _ _ Hc) as (mx & Hx).
      destruct (IH _ _ _ Hc Hx) as (m' & Hq & Hle).
      exists m'; split; auto. specialize (Ho _ _ _ Hx H2). lia.
  Qed.

  Theorem ordered_no_wait_cycle : ordered wants holds -> ~ wait_cycle wants holds.
  Proof.
    intros Ho (p & l & Hc).
    destruct (chain_wants _ _ _ Hc) as (m & Hw).
    destruct (chain_increasing Ho _ _ _ _ Hc Hw) as (m' & Hh & Hle).
    specialize (Ho _ _ _ Hw Hh). lia.
  Qed.
End WaitCycleProofs.

(* ---------------------------------------------------------------------------------------- *)
(** * Generic: leads-to under weak fairness                                                    *)
(* ---------------------------------------------------------------------------------------- *)
Section LeadsTo.
  Context {St Act : Type}.
  Variable guard : Act -> St -> Prop.
  Variable eff : Act -> St -> St.
  Variable r : run guard eff.
  Variable Inv : St -> Prop.
  Hypothesis Inv_run : forall i, Inv (st r i).

  Notation "P ~> Q" := (leadsto r P Q) (at level 70).

  Lemma run_step : forall i, st r (S i) = st r i \/ exists a, guard a (st r i) /\ st r (S i) = eff a (st r i).
  Proof.
    intros i. pose proof (run_ok _ _ r i) as H. destruct (lab r i); [right|left]; eauto.
  Qed.

  (* a set closed under every step (inside Inv) *)
  Definition stable (S : St -> Prop) : Prop :=
    forall s a, Inv s -> S s -> guard a s -> S (eff a s).

  Lemma stable_run : forall S, stable S -> forall i j, i <= j -> S (st r i) -> S (st r j).
  Proof.
    intros S HS i j Hij Hi. induction Hij; auto.
    destruct (run_step m) as [E|(a & G & E)]; rewrite E; auto.
  Qed.

  Lemma lt_refl : forall P, P ~> P.
  Proof. intros P i H; exists i; auto. Qed.

  Lemma lt_weaken : forall (P P' Q Q' : St -> Prop),
    P ~> Q -> (forall s, Inv s -> P' s -> P s) -> (forall s, Inv s -> Q s -> Q' s) -> P' ~> Q'.
  Proof.
    intros P P' Q Q' H HP HQ i Hi. destruct (H i (HP _ (Inv_run i) Hi)) as (j & Hj & Hq).
    exists j; split; auto.
  Qed.

  Lemma lt_trans : forall P Q R, P ~> Q -> Q ~> R -> P ~> R.
  Proof.
    intros P Q R H1 H2 i Hi. destruct (H1 i Hi) as (j & Hj & Hq).
    destruct (H2 j Hq) as (k & Hk & Hr). exists k; split; auto; lia.
  Qed.

  Lemma lt_or : forall P1 P2 Q, P1 ~> Q -> P2 ~> Q -> (fun s => P1 s \/ P2 s) ~> Q.
  Proof. intros P1 P2 Q H1 H2 i [H|H]; eauto. Qed.

  Lemma lt_stable : forall P Q S, P ~> Q -> stable S -> (fun s => P s /\ S s) ~> (fun s => Q s /\ S s).
  Proof.
    intros P Q S H HS i (Hp & Hs). destruct (H i Hp) as (j & Hj & Hq).
    exists j; repeat split; auto. eapply stable_run; eauto.
  Qed.

  (* well-founded induction on a variant *)
  Lemma lt_variant : forall (P Q : St -> Prop) (v : St -> nat),
    (forall n, (fun s => P s /\ v s = n) ~> (fun s => Q s \/ (P s /\ v s < n))) -> P ~> Q.
  Proof.
    intros P Q v H.
    assert (forall n i, P (st r i) -> v (st r i) < n -> exists j, i <= j /\ Q (st r j)) as K.
    { induction n; intros i Hp Hv; [lia|].
      destruct (H (v (st r i)) i (conj Hp eq_refl)) as (j & Hj & [Hq|(Hp' & Hv')]).
      - eauto.
      - destruct (IHn j Hp' ltac:(lia)) as (k & Hk & Hq). exists k; split; auto; lia. }
    intros i Hp. eapply K; eauto.
  Qed.

  (* the basic rule: while P holds the group G stays enabled, everybody's steps keep P or
     establish Q, and G's steps establish Q *)
  Lemma lt_ensures : forall (G : Act -> Prop) (P Q : St -> Prop),
    fair G r ->
    (forall s a, Inv s -> P s -> guard a s -> P (eff a s) \/ Q (eff a s)) ->
    (forall s a, Inv s -> P s -> G a -> guard a s -> Q (eff a s)) ->
    (forall s, Inv s -> P s -> exists a, G a /\ guard a s) ->
    P ~> Q.
  Proof.
    intros G P Q HF H1 H2 H3 i Hi.
    destruct (HF i) as (j & Hij & Hj).
    assert (forall k, i <= k -> k <= j -> (exists m, i <= m /\ Q (st r m)) \/ P (st r k)) as K.
    { intros k Hik. induction Hik; intros Hkj; auto.
      destruct IHHik as [?|Hp]; [lia|auto|].
      destruct (run_step m) as [E|(a & Ga & E)]; rewrite E; auto.
      destruct (H1 _ _ (Inv_run m) Hp Ga) as [?|Hq]; auto.
      left; exists (S m); split; [lia|]. rewrite E; auto. }
    destruct (K j Hij (le_n _)) as [?|Hp]; auto.
    destruct Hj as [Ht|Hd].
    - pose proof (run_ok _ _ r j) as Hr. unfold taken in Ht. destruct (lab r j) as [a|]; [|tauto].
      destruct Hr as (Ga & E). exists (S j); split; [lia|]. rewrite E. eapply H2; eauto.
    - destruct (H3 _ (Inv_run j) Hp) as (a & Ha & Ga). exfalso; eapply Hd; eauto.
  Qed.

  (* walking along the run while P holds "unless" Q *)
  Lemma walk_unless : forall (P Q : St -> Prop),
    (forall s a, Inv s -> P s -> guard a s -> P (eff a s) \/ Q (eff a s)) ->
    forall i j, i <= j -> P (st r i) -> (exists m, i <= m /\ m <= j /\ Q (st r m)) \/ P (st r j).
  Proof.
    intros P Q H1 i j Hij Hi. induction Hij; auto.
    destruct IHHij as [(m0 & ? & ? & ?)|Hp]; [left; exists m0; repeat split; auto|].
    destruct (run_step m) as [E|(a & Ga & E)]; rewrite E; auto.
    destruct (H1 _ _ (Inv_run m) Hp Ga) as [?|Hq]; auto.
    left; exists (S m); repeat split; auto. rewrite E; auto.
  Qed.

  (* P unless Q, and A leads to B: then from P /\ A either Q shows up or P is still there when B does *)
  Lemma lt_unless : forall (P Q A B : St -> Prop),
    (forall s a, Inv s -> P s -> guard a s -> P (eff a s) \/ Q (eff a s)) ->
    A ~> B -> (fun s => P s /\ A s) ~> (fun s => Q s \/ (P s /\ B s)).
  Proof.
    intros P Q A B H1 HAB i (Hp & Ha). destruct (HAB i Ha) as (j & Hj & Hb).
    destruct (walk_unless P Q H1 i j Hj Hp) as [(m & ? & ? & ?)|Hp'].
    - exists m; auto.
    - exists j; auto.
  Qed.

  Lemma sfair_fair : forall G, sfair G r -> fair G r.
  Proof.
    intros G H i. destruct (H i) as [(j & Hj & Ht)|(j & Hj & Hd)]; exists j; split; auto.
  Qed.

  (* the rule for strong fairness: the group need not stay enabled, it only has to become
     enabled again and again for as long as P lasts *)
  Lemma lt_ensures_s : forall (G : Act -> Prop) (P Q : St -> Prop),
    sfair G r ->
    (forall s a, Inv s -> P s -> guard a s -> P (eff a s) \/ Q (eff a s)) ->
    (forall s a, Inv s -> P s -> G a -> guard a s -> Q (eff a s)) ->
    P ~> (fun s => Q s \/ exists a, G a /\ guard a s) ->
    P ~> Q.
  Proof.
    intros G P Q HF H1 H2 H3 i Hi.
    destruct (HF i) as [(j & Hij & Ht)|(j & Hij & Hd)].
    - destruct (walk_unless P Q H1 i j Hij Hi) as [(m & ? & ? & ?)|Hp]; [exists m; auto|].
      pose proof (run_ok _ _ r j) as Hr. unfold taken in Ht. destruct (lab r j) as [a|]; [|tauto].
      destruct Hr as (Ga & E). exists (S j); split; [lia|]. rewrite E. eapply H2; eauto.
    - destruct (walk_unless P Q H1 i j Hij Hi) as [(m & ? & ? & ?)|Hp]; [exists m; auto|].
      destruct (H3 j Hp) as (k & Hk & [Hq|(a & Ga & Gd)]).
      + exists k; split; auto; lia.
      + exfalso. eapply (Hd k Hk); eauto.
  Qed.
End LeadsTo.

Lemma reach_run : forall {St Act} (guard : Act -> St -> Prop) eff init (r : run guard eff),
  reach guard eff init (st r 0) -> forall i, reach guard eff init (st r i).
Proof.
  intros. induction i; auto.
  destruct (run_step guard eff r i) as [E|(a & G & E)]; rewrite E; auto.
  apply reach_step; auto.
Qed.

Lemma path_length_rank : forall {St Act} (guard : Act -> St -> Prop) eff (ok : Act -> Prop)
  (P : St -> Prop) (rank : St -> nat),
  (forall s a, P s -> guard a s -> P (eff a s)) ->
  (forall s a, P s -> ok a -> guard a s -> rank (eff a s) < rank s) ->
  forall s l s', P s -> path guard eff ok s l s' -> length l + rank s' <= rank s.
Proof.
  intros St Act guard eff ok P rank HP Hr s l s' Hs Hp. induction Hp; cbn; [lia|].
  specialize (IHHp (HP _ _ Hs H0)). specialize (Hr _ _ Hs H H0). lia.
Qed.

Lemma path_reach : forall {St Act} (guard : Act -> St -> Prop) eff init ok s l s',
  reach guard eff init s -> path guard eff ok s l s' -> reach guard eff init s'.
Proof. intros. induction H0; auto. apply IHpath. apply reach_step; auto. Qed.

(* ---------------------------------------------------------------------------------------- *)
(** * Generic: concrete traces                                                                 *)
(* ---------------------------------------------------------------------------------------- *)
Section Traces.
  Context {St Act : Type}.
  Variable guard : Act -> St -> Prop.
  Variable eff : Act -> St -> St.
  Variable init : St -> Prop.

  Fixpoint run_acts (l : list Act) (s : St) : St :=
    match l with [] => s | a :: l' => run_acts l' (eff a s) end.
  Fixpoint guards (l : list Act) (s : St) : Prop :=
    match l with [] => True | a :: l' => guard a s /\ guards l' (eff a s) end.

  Lemma reach_acts : forall l s, reach guard eff init s -> guards l s ->
    reach guard eff init (run_acts l s).
  Proof.
    induction l; cbn; intros s R G; auto. destruct G. apply IHl; auto. apply reach_step; auto.
  Qed.

  Lemma guards_cons_intro : forall a l s s',
    guard a s -> s' = eff a s -> guards l s' -> guards (a :: l) s.
  Proof. intros; subst; split; auto. Qed.

  Definition const_run (s : St) : run guard eff.
  Proof. refine {| st := fun _ => s; lab := fun _ => None |}. intros; reflexivity. Defined.
End Traces.

Ltac norm_eq :=
  match goal with |- ?x = ?rhs => let v := eval cbv -[Init.Nat.pred Init.Nat.add] in rhs in unify x v; reflexivity end.
Ltac guards_tac :=
  repeat first [ exact I
               | eapply guards_cons_intro;
                 [solve [cbn; repeat split; eauto; try lia; try discriminate] | norm_eq | ] ].

Module SrvP.
Import Srv.

Ltac break :=
  repeat match goal with
         | H : _ /\ _ |- _ => destruct H
         | H : exists _, _ |- _ => destruct H
         end.
Ltac rw_pcs :=
  repeat match goal with
         | H : sv ?s = _ |- _ => rewrite H in *; clear H
         | H : sl ?s = _ |- _ => rewrite H in *; clear H
         | H : wl ?s = _ |- _ => rewrite H in *; clear H
         | H : pg ?s = _ |- _ => rewrite H in *; clear H
         end.
Ltac bools :=
  repeat match goal with
         | H : ?f ?s = true |- _ => rewrite H in *; clear H
         | H : ?f ?s = false |- _ => rewrite H in *; clear H
         end.

Section P.
Variable cap : nat.

Notation guard := (Srv.guard cap).
Notation reachable := (Srv.reachable cap).

(* ---- invariants ---- *)
Definition wl_is_done (p : wl_pc) : bool := match p with WDone => true | _ => false end.
Definition sl_is_done (p : sl_pc) : bool := match p with SDone => true | _ => false end.
Definition sl_past_a (p : sl_pc) : bool :=
  match p with SExitB | SExitC | SDone => true | _ => false end.
Definition sv_past_close (p : sv_pc) : bool := match p with VWait | VEnd => true | _ => false end.
Definition sv_is_end (p : sv_pc) : bool := match p with VEnd => true | _ => false end.
Definition wl_past_close (p : wl_pc) : bool :=
  match p with WCloseDone | WDone => true | _ => false end.
Definition wl_draining (p : wl_pc) : bool :=
  match p with WDrain | WFlush | WSock true | WCloseSock | WCloseDone | WDone => false | _ => true end.

Record inv (s : state) : Prop := {
  i_wdone : wdone s = wl_is_done (wl s);
  i_wstop : wstop s = sl_is_done (sl s);
  i_hstop : hstop s = sl_past_a (sl s);
  i_rdc : rdc s = sv_past_close (sv s);
  i_svend : sv_is_end (sv s) = true -> sclosed s = true;
  i_wlclose : wl_past_close (wl s) = true -> sclosed s = true;
  i_rd : rd s <= cap;
  i_wr : wr s <= cap;
  i_hd : hd s <= cap }.



Lemma inv_init : forall s, init s -> inv s.
Proof.
  unfold init; intros s H; break.
  constructor; try (rw_pcs; cbn; congruence); try lia.
  - destruct H; rw_pcs; cbn; congruence.
  - destruct H; rw_pcs; cbn; congruence.
Qed.

Lemma inv_step : forall s a, inv s -> guard a s -> inv (eff a s).
Proof.
  intros s a [] G.
  destruct a; try destruct c; cbn in G; break;
    constructor; cbn; rw_pcs; cbn in *;
      auto; try congruence; try lia;
      try (match goal with |- context [match ?x with _ => _ end] => destruct x end; cbn in *; auto; congruence).
Qed.

Lemma reachable_inv : forall s, reachable s -> inv s.
Proof. induction 1; auto using inv_init, inv_step. Qed.

(* ---- the rank ---- *)

Lemma dead_gone : forall s, gone s = true -> dead s = true.
Proof. unfold dead; intros s ->; auto. Qed.

Theorem rank_decreases : forall s a, refills a = false -> guard a s -> rank (eff a s) < rank s.
Proof.
  intros s a Hr G.
  destruct a; try discriminate Hr; try destruct c; cbn in G; break;
    unfold rank; cbn -[Nat.mul]; rw_pcs; bools; cbn -[Nat.mul];
    try lia;
    try (match goal with x : bool |- _ => destruct x end; cbn -[Nat.mul]; lia).
  - destruct (pg s), (i_armed s); cbn; lia.
  - destruct d, r, (i_armed s); cbn -[Nat.mul]; lia.
  - destruct (pg s); cbn; lia.
Qed.
End P.
End SrvP.

Module SrvP1.
Import Srv SrvP.

Section P.
Variable cap : nat.
Hypothesis cap_pos : 1 <= cap.
Notation guard := (Srv.guard cap).
Notation reachable := (Srv.reachable cap).
Notation inv := (SrvP.inv cap).

Definition proc_act (a : act) : Prop := is_env a = false.

Ltac fire a := right; exists a; split; [reflexivity | cbn; repeat split; eauto; try lia].

(* S1, deadlock freedom: with the peer gone, either nothing is left of the connection but handlers
   in user code and armed timers, or some goroutine can take a step. *)
Lemma progress_dead : forall s, inv s -> dead s = true ->
  quiet s \/ exists a, proc_act a /\ guard a s.
Proof.
  intros s I D. destruct I.
  (* the write loop moves unless parked in its select or gone *)
  destruct (wl s) eqn:Ewl.
  2:{ fire WSockFail. }
  2:{ destruct (Nat.eq_dec (wr s) 0); [fire WDrainEmpty | fire WDrainTake]. }
  2:{ fire WFlushRet. }
  2:{ fire WSockClose. }
  2:{ fire WDoneClose. }
  - (* WSelect *)
    destruct (Nat.eq_dec (wr s) 0) as [Ewr|]; [|fire WTake].
    destruct (sl s) eqn:Esl.
    + (* SSelect *)
      destruct (closer s) eqn:?; [fire SCloser|].
      destruct (Nat.eq_dec (hd s) 0); [|fire STakeHd].
      destruct (rt s) eqn:?; [fire STakeTimer|].
      destruct (Nat.eq_dec (rd s) 0); [|fire (STakeRd false false)].
      destruct (sv s) eqn:Esv.
      * fire RReadFail.
      * fire RFwdSend.
      * fire (RWr ViaQueue).
      * fire VStopTimers.
      * fire VCloseReader.
      * fire SRdClosed.
      * fire SRdClosed.
    + fire SBodyCont.
    + fire (SWr ViaQueue).
    + fire SCloseHStop.
    + fire SStopPing.
    + fire SCloseWStop.
    + cbn in *. fire WStop.
  - (* WDone: writeDone is closed *)
    cbn in i_wdone0.
    destruct (sl s) eqn:Esl.
    + destruct (closer s) eqn:?; [fire SCloser|].
      destruct (Nat.eq_dec (hd s) 0); [|fire STakeHd].
      destruct (rt s) eqn:?; [fire STakeTimer|].
      destruct (Nat.eq_dec (rd s) 0); [|fire (STakeRd false false)].
      destruct (sv s) eqn:Esv.
      * fire RReadFail.
      * fire RFwdSend.
      * fire (RWr ViaDone).
      * fire VStopTimers.
      * fire VCloseReader.
      * fire SRdClosed.
      * fire SRdClosed.
    + fire SBodyCont.
    + fire (SWr ViaDone).
    + fire SCloseHStop.
    + fire SStopPing.
    + fire SCloseWStop.
    + cbn in *.
      destruct (sv s) eqn:Esv.
      * fire RReadFail.
      * fire RFwdStop.
      * fire (RWr ViaDone).
      * fire VStopTimers.
      * fire VCloseReader.
      * fire VWaitDone.
      * destruct (Nat.eq_dec (h_send s) 0); [|fire HStop].
        destruct (Nat.eq_dec (Srv.i_wr s) 0); [|fire (IWr ViaDone)].
        destruct (Nat.eq_dec (i_cl s) 0); [|fire ICloseCloser].
        destruct (pg s) eqn:Epg.
        -- left; repeat split; auto; congruence.
        -- fire (PWr ViaDone).
        -- fire PRearm.
        -- left; repeat split; auto; congruence.
Qed.

(* S1, termination: every action that is not a frame arriving, the request timer or the ping
   timer firing lowers the rank (SrvP.rank_decreases); so a path without those has at most
   [rank s] steps. *)
Definition no_refill (a : act) : Prop := refills a = false.

Theorem bounded_paths : forall s l s',
  path guard eff no_refill s l s' -> length l + rank s' <= rank s.
Proof.
  intros s l s' H.
  eapply (path_length_rank guard eff no_refill (fun _ => True) rank); eauto.
  intros; apply (rank_decreases cap); auto.
Qed.

Lemma dead_stable : forall s a, dead s = true -> dead (eff a s) = true.
Proof.
  unfold dead; intros s a H. apply orb_true_iff in H. apply orb_true_iff.
  destruct a; try destruct c; cbn; tauto.
Qed.

Lemma gone_stable : forall s a, gone s = true -> gone (eff a s) = true.
Proof. intros s a H; destruct a; try destruct c; cbn; auto. Qed.

(* S1, conclusion: from a reachable state where the peer is gone, the goroutines can always run
   to the quiet state, in at most [rank s] steps of their own ... *)
Theorem can_finish : forall n s, reachable s -> dead s = true -> rank s <= n ->
  exists l s', path guard eff proc_act s l s' /\ quiet s' /\ length l <= n.
Proof.
  induction n; intros s R D Hn.
  - destruct (progress_dead s (reachable_inv cap s R) D) as [Q|(a & Pa & G)].
    + exists [], s; split; [apply path_nil | split; [auto | cbn; lia]].
    + assert (refills a = false) by (destruct a; auto; discriminate).
      pose proof (rank_decreases cap s a H G). lia.
  - destruct (progress_dead s (reachable_inv cap s R) D) as [Q|(a & Pa & G)].
    + exists [], s; split; [apply path_nil | split; [auto | cbn; lia]].
    + assert (refills a = false) by (destruct a; auto; discriminate).
      pose proof (rank_decreases cap s a H G).
      destruct (IHn (eff a s)) as (l & s' & Hp & Hq & Hl).
      * apply reach_step; auto.
      * apply dead_stable; auto.
      * lia.
      * exists (a :: l), s'; split; [apply path_cons; auto | split; [auto | cbn; lia]].
Qed.

(* ... and whatever they do, they cannot avoid it: a sequence of their steps that cannot be
   extended ends in the quiet state. *)
Theorem must_finish : forall s l s', reachable s -> dead s = true ->
  path guard eff proc_act s l s' -> (forall a, proc_act a -> ~ guard a s') -> quiet s'.
Proof.
  intros s l s' R D Hp Hmax.
  assert (reachable s' /\ dead s' = true) as (R' & D').
  { clear Hmax. induction Hp; auto. apply IHHp; [apply reach_step; auto | apply dead_stable; auto]. }
  destruct (progress_dead s' (reachable_inv cap s' R') D') as [Q|(a & Pa & G)]; auto.
  exfalso; eapply Hmax; eauto.
Qed.

(* the three loops stay exited *)
Lemma loops_exited_stable : forall s a, loops_exited s -> guard a s -> loops_exited (eff a s).
Proof.
  unfold loops_exited; intros s a (H1 & H2 & H3) G.
  destruct a; try destruct c; cbn in G |- *; break; try congruence; auto.
Qed.

(* once they have, nothing that is left can park: handlers that return, and the callbacks of
   timers that were re-armed, all find handlerStop / writeStop closed *)
Lemma exited_never_parks : forall s, inv s -> loops_exited s ->
  (0 < h_send s -> guard HStop s) /\ (pg s = PWrite -> guard (PWr ViaStop) s) /\
  (0 < Srv.i_wr s -> guard (IWr ViaStop) s).
Proof.
  intros s [] (H1 & H2 & H3). rewrite H2 in *; cbn in *. repeat split; auto.
Qed.
End P.
End SrvP1.

Module SrvP2.
Import Srv SrvP SrvP1.

Ltac act_cases a := destruct a; try match goal with c : wchoice |- _ => destruct c end.
Ltac injs :=
  repeat match goal with
         | H : RWrite _ = RWrite _ |- _ => inversion H; clear H; subst
         | H : WSock _ = WSock _ |- _ => inversion H; clear H; subst
         end.
Ltac done_goal := cbn; rw_pcs; injs; cbn; repeat split; auto; try congruence; try lia.
Ltac ens1 :=
  let s := fresh "s" in let a := fresh "a" in let I := fresh "I" in
  let HP := fresh "HP" in let G := fresh "G" in
  intros s a I HP G; act_cases a; cbn in G |- *; break; try congruence;
  first [ left; solve [done_goal] | right; solve [done_goal] | idtac ].
Ltac ens2 :=
  let s := fresh "s" in let a := fresh "a" in let I := fresh "I" in
  let HP := fresh "HP" in let G := fresh "G" in let Ga := fresh "Ga" in
  intros s a I HP Ga G; act_cases a; cbn in Ga; try contradiction; cbn in G |- *; break;
  try congruence; try solve [done_goal].

Ltac rd_case :=
  first [ left; solve [cbn; auto 6]
        | right; bools; cbn -[Nat.mul] in *; repeat split; eauto; lia ].

Section P.
Variable cap : nat.
Hypothesis cap_pos : 1 <= cap.
Notation guard := (Srv.guard cap).
Notation reachable := (Srv.reachable cap).
Notation inv := (SrvP.inv cap).

Variable r : run guard eff.
Hypothesis F : fair_run cap r.
Hypothesis R0 : reachable (st r 0).

Lemma Inv_run : forall i, inv (st r i).
Proof. intros; apply reachable_inv; apply reach_run; auto. Qed.

Notation "P ~> Q" := (leadsto r P Q) (at level 70).
Notation ensures := (lt_ensures guard eff r inv Inv_run).

Let Fsv : fair g_sv r := proj1 F.
Let Fsl : fair g_sl r := proj1 (proj2 F).
Let Fwl : fair g_wl r := proj1 (proj2 (proj2 F)).
Let Ftmo : fair g_tmo r := proj2 (proj2 (proj2 (proj2 (proj2 (proj2 F))))).

(* -- the stream loop's goroutine finishes its three statements -- *)
Lemma slA : (fun s => sl s = SExitA) ~> (fun s => sl s = SExitB).
Proof. apply (ensures g_sl); auto; [ens1 | ens2 | intros s I H; exists SCloseHStop; cbn; auto]. Qed.
Lemma slB : (fun s => sl s = SExitB) ~> (fun s => sl s = SExitC).
Proof. apply (ensures g_sl); auto; [ens1 | ens2 | intros s I H; exists SStopPing; cbn; auto]. Qed.
Lemma slC : (fun s => sl s = SExitC) ~> (fun s => sl s = SDone).
Proof. apply (ensures g_sl); auto; [ens1 | ens2 | intros s I H; exists SCloseWStop; cbn; auto]. Qed.

Lemma sl_finishes : sl_exited ~> (fun s => sl s = SDone).
Proof.
  intros i [H|[H|[H|H]]].
  - eapply (lt_trans _ _ _ _ _ _ slA (lt_trans _ _ _ _ _ _ slB slC)); eauto.
  - eapply (lt_trans _ _ _ _ _ _ slB slC); eauto.
  - eapply slC; eauto.
  - exists i; auto.
Qed.

Lemma sl_done_stable : stable guard eff inv (fun s => sl s = SDone).
Proof. intros s a I H G; act_cases a; cbn in G |- *; break; congruence. Qed.
Lemma sl_exited_stable : stable guard eff inv sl_exited.
Proof.
  unfold sl_exited; intros s a I H G; act_cases a; cbn in G |- *; break; auto;
    destruct H as [H|[H|[H|H]]]; try congruence; auto.
Qed.

(* -- Serve's teardown, once readLoop has returned, ends within the drain timeout -- *)
Lemma svStop : (fun s => sv s = VStop) ~> (fun s => sv s = VCloseRd).
Proof. apply (ensures g_sv); auto; [ens1 | ens2 | intros s I H; exists VStopTimers; cbn; auto]. Qed.
Lemma svCloseRd : (fun s => sv s = VCloseRd) ~> (fun s => sv s = VWait).
Proof. apply (ensures g_sv); auto; [ens1 | ens2 | intros s I H; exists VCloseReader; cbn; auto]. Qed.
Lemma svWait1 : (fun s => sv s = VWait /\ wdone s = false /\ tmo s = false) ~>
                (fun s => sv s = VWait /\ (wdone s = true \/ tmo s = true)).
Proof.
  apply (ensures g_tmo); auto; [ens1 | ens2 | intros s I (H1 & H2 & H3); exists EDrainTimeout; cbn; auto].
Qed.
Lemma svWait2 : (fun s => sv s = VWait /\ (wdone s = true \/ tmo s = true)) ~> (fun s => sv s = VEnd).
Proof.
  apply (ensures g_sv); auto; [ens1 | ens2 | ].
  - intros s I (H1 & [H2|H2]); [exists VWaitDone | exists VWaitTmo]; cbn; auto.
Qed.
Lemma svWait : (fun s => sv s = VWait) ~> (fun s => sv s = VEnd).
Proof.
  intros i H. destruct (wdone (st r i)) eqn:E1; [|destruct (tmo (st r i)) eqn:E2].
  - apply svWait2; auto.
  - apply svWait2; auto.
  - eapply (lt_trans _ _ _ _ _ _ svWait1 svWait2); eauto.
Qed.
Lemma sv_teardown : (fun s => sv s = VStop \/ sv s = VCloseRd \/ sv s = VWait \/ sv s = VEnd) ~>
                    (fun s => sv s = VEnd).
Proof.
  intros i [H|[H|[H|H]]].
  - eapply (lt_trans _ _ _ _ _ _ svStop (lt_trans _ _ _ _ _ _ svCloseRd svWait)); eauto.
  - eapply (lt_trans _ _ _ _ _ _ svCloseRd svWait); eauto.
  - eapply svWait; eauto.
  - exists i; auto.
Qed.
Lemma sv_end_stable : stable guard eff inv (fun s => sv s = VEnd).
Proof. intros s a I H G; act_cases a; cbn in G |- *; break; congruence. Qed.

(* -- the parking points of the read loop, once the stream loop's goroutine is through -- *)
Lemma svWriteRet : (fun s => sv s = RWrite true /\ sl s = SDone) ~> (fun s => sv s = VStop).
Proof.
  apply (ensures g_sv); auto; [ens1 | ens2 | ].
  intros s I (H1 & H2). exists (RWr ViaStop); cbn; repeat split; eauto.
  destruct I. rewrite i_wstop0, H2; auto.
Qed.
Lemma svWriteGo : (fun s => sv s = RWrite false /\ sl s = SDone) ~> (fun s => sv s = RRead).
Proof.
  apply (ensures g_sv); auto; [ens1 | ens2 | ].
  intros s I (H1 & H2). exists (RWr ViaStop); cbn; repeat split; eauto.
  destruct I. rewrite i_wstop0, H2; auto.
Qed.
Lemma svFwd : (fun s => sv s = RFwd /\ sl s = SDone) ~> (fun s => sv s = RRead \/ sv s = VStop).
Proof.
  apply (ensures g_sv); auto; [ens1 | ens2 | ].
  intros s I (H1 & H2). exists RFwdStop; cbn; repeat split; eauto.
  destruct I. rewrite i_hstop0, H2; auto.
Qed.
(* reader is full: forward can only take the handlerStop case *)
Lemma svFwdFull : (fun s => sv s = RFwd /\ cap <= rd s /\ sl s = SDone) ~> (fun s => sv s = VStop).
Proof.
  apply (ensures g_sv); auto; [ens1 | ens2 | ].
  intros s I (H1 & H2 & H3). exists RFwdStop; cbn; repeat split; eauto.
  destruct I. rewrite i_hstop0, H3; auto.
Qed.

(* -- once the socket is dead and writeStop closed, the write loop's goroutine ends -- *)
Definition wl_rank_dead (p : wl_pc) : nat :=
  match p with
  | WDone => 0 | WCloseDone => 1 | WCloseSock => 2 | WFlush => 3 | WSock true => 3 | WDrain => 4
  | WSock false => 5 | WSelect => 6
  end.
Definition wlP (s : state) : Prop := dead s = true /\ sl s = SDone.
Lemma wlP_stable : stable guard eff inv wlP.
Proof.
  intros s a I (H1 & H2) G. split; [apply dead_stable; auto | eapply sl_done_stable; eauto].
Qed.
Lemma wl_step : forall n,
  (fun s => (wlP s /\ wl s <> WDone) /\ wl_rank_dead (wl s) = n) ~>
  (fun s => wlP s /\ wl_rank_dead (wl s) < n).
Proof.
  intros n. apply (ensures g_wl); auto.
  - intros s a I ((HP & Hw) & Hn) G.
    pose proof (wlP_stable s a I HP G) as HP'.
    unfold wlP in *; act_cases a; cbn in G, HP' |- *; break;
      first [ left; solve [repeat split; auto]
            | right; (split; [auto|]); rw_pcs; injs; cbn in *; try lia ];
      try congruence; try (destruct x; cbn in *; lia).
  - intros s a I ((HP & Hw) & Hn) Ga G.
    pose proof (wlP_stable s a I HP G) as HP'.
    unfold wlP in *; act_cases a; cbn in Ga; try contradiction; cbn in G, HP' |- *; break;
      (split; [auto|]); rw_pcs; injs; cbn in *; try lia;
      try congruence; try (destruct x; cbn in *; lia).
  - intros s I (((D & Hs) & Hw) & Hn). destruct I.
    destruct (wl s) eqn:E; try congruence.
    + exists WStop; cbn; repeat split; auto. rewrite i_wstop0, Hs; auto.
    + exists WSockFail; cbn; repeat split; eauto.
    + destruct (Nat.eq_dec (wr s) 0); [exists WDrainEmpty | exists WDrainTake]; cbn; repeat split; auto; lia.
    + exists WFlushRet; cbn; repeat split; auto.
    + exists WSockClose; cbn; auto.
    + exists WDoneClose; cbn; auto.
Qed.
Lemma wl_finishes : wlP ~> (fun s => wl s = WDone).
Proof.
  apply (lt_variant guard eff r wlP (fun s => wl s = WDone) (fun s => wl_rank_dead (wl s))).
  intros n i (HP & Hn).
  assert (wl (st r i) = WDone \/ wl (st r i) <> WDone) as [E|E]
    by (destruct (wl (st r i)); auto; right; congruence).
  - exists i; split; auto.
  - destruct (wl_step n i) as (j & Hj & HP' & Hlt); [repeat split; auto; apply HP|].
    exists j; split; auto.
Qed.

(* -- S2: the read loop does not stay parked on reader or in sc.write -- *)
Lemma sv_pc_dec : forall p q : sv_pc, {p = q} + {p <> q}.
Proof. decide equality; apply bool_dec. Qed.

Theorem unpark_forward :
  (fun s => sl_exited s /\ sv s = RFwd) ~> (fun s => sv s <> RFwd).
Proof.
  intros i (Hx & Hs).
  destruct (sl_finishes i Hx) as (j & Hj & Hd).
  destruct (sv_pc_dec (sv (st r j)) RFwd) as [E|E]; [|exists j; auto].
  destruct (svFwd j (conj E Hd)) as (k & Hk & Hq).
  exists k; split; [lia|]. destruct Hq; congruence.
Qed.

Theorem unpark_write :
  (fun s => sl_exited s /\ exists b, sv s = RWrite b) ~> (fun s => forall b, sv s <> RWrite b).
Proof.
  intros i (Hx & Hs).
  destruct (sl_finishes i Hx) as (j & Hj & Hd).
  destruct (sv (st r j)) eqn:E; try (exists j; split; [auto | intros; congruence]).
  destruct ret.
  - destruct (svWriteRet j (conj E Hd)) as (k & Hk & Hq). exists k; split; [lia|]. intros; congruence.
  - destruct (svWriteGo j (conj E Hd)) as (k & Hk & Hq). exists k; split; [lia|]. intros; congruence.
Qed.

(* -- S2: once the read loop is on its way out, Serve returns and everything unwinds -- *)
Lemma leaving_stable : stable guard eff inv (fun s => sl_exited s /\ sv_leaving cap s).
Proof.
  intros s a I (Hx & Hl) G. split; [eapply sl_exited_stable; eauto|].
  unfold sv_leaving, sl_exited in *.
  act_cases a; cbn in G |- *; break; auto;
    try (destruct Hl as [Hl|[(Hl & Hr)|[Hl|[Hl|[Hl|Hl]]]]]; rw_pcs; injs; cbn; auto 10; try congruence; try lia; fail).
  all: destruct Hx as [Hx|[Hx|[Hx|Hx]]]; congruence.
Qed.

Lemma leaving_to_teardown :
  (fun s => sv_leaving cap s /\ sl s = SDone) ~>
  (fun s => sv s = VStop \/ sv s = VCloseRd \/ sv s = VWait \/ sv s = VEnd).
Proof.
  intros i (Hl & Hd). destruct Hl as [Hl|[(Hl & Hr)|Hl]].
  - destruct (svWriteRet i (conj Hl Hd)) as (k & Hk & Hq). exists k; auto.
  - destruct (svFwdFull i (conj Hl (conj Hr Hd))) as (k & Hk & Hq). exists k; auto.
  - exists i; auto.
Qed.

Lemma end_to_exited : (fun s => sv s = VEnd /\ sl s = SDone) ~> loops_exited.
Proof.
  intros i (H1 & H2).
  assert (wlP (st r i)) as HP.
  { split; auto. pose proof (Inv_run i) as I. destruct I. unfold dead.
    rewrite i_svend0; [apply orb_true_r | rewrite H1; auto]. }
  assert (stable guard eff inv (fun s => sv s = VEnd /\ sl s = SDone)) as HS.
  { intros s a I (A & B) G; split; [eapply sv_end_stable | eapply sl_done_stable]; eauto. }
  destruct (lt_stable guard eff r inv Inv_run _ _ _ wl_finishes HS i) as (j & Hj & Hw & H3 & H4); auto.
  exists j; repeat split; auto.
Qed.

Theorem serve_returns :
  (fun s => sl_exited s /\ sv_leaving cap s) ~> loops_exited.
Proof.
  intros i H.
  destruct (lt_stable guard eff r inv Inv_run _ _ _ sl_finishes leaving_stable i)
    as (j & Hj & Hd & Hx & Hl); [tauto|].
  destruct (lt_stable guard eff r inv Inv_run _ _ _ leaving_to_teardown sl_done_stable j)
    as (k & Hk & Ht & Hd'); [tauto|].
  destruct (lt_stable guard eff r inv Inv_run _ _ _ sv_teardown sl_done_stable k)
    as (m & Hm & He & Hd''); [tauto|].
  destruct (end_to_exited m (conj He Hd'')) as (n & Hn & Hq).
  exists n; split; auto; lia.
Qed.

(* -- S2/S1 under fairness: if the socket is dead (the peer closed, or the write loop closed it
      after its drain), the read loop leaves whatever it is doing -- *)
Definition sv_rank_dead (s : state) : nat :=
  20 * b2n (rdy s) + sv_rank (sv s).
Definition rdP (s : state) : Prop := dead s = true /\ sl s = SDone.
Definition sv_reading (s : state) : Prop := sv s = RRead \/ sv s = RFwd \/ exists b, sv s = RWrite b.
Definition sv_tearing (s : state) : Prop :=
  sv s = VStop \/ sv s = VCloseRd \/ sv s = VWait \/ sv s = VEnd.

Lemma rd_step : forall n,
  (fun s => (rdP s /\ sv_reading s) /\ sv_rank_dead s = n) ~>
  (fun s => sv_tearing s \/ ((rdP s /\ sv_reading s) /\ sv_rank_dead s < n)).
Proof.
  intros n. apply (ensures g_sv); auto.
  - intros s a I ((HP & Hr) & Hn) G.
    pose proof (wlP_stable s a I HP G) as HP'.
    unfold rdP, wlP, sv_reading, sv_tearing, sv_rank_dead in *.
    act_cases a; cbn -[Nat.mul] in G, HP' |- *; break;
      first [ left; solve [repeat split; auto]
            | right; destruct Hr as [Hr|[Hr|(b' & Hr)]]; rw_pcs; injs; try discriminate;
              repeat match goal with b : bool |- _ => destruct b end; try rd_case ];
      try (unfold dead in *; bools; cbn in *; congruence).
  - intros s a I ((HP & Hr) & Hn) Ga G.
    pose proof (wlP_stable s a I HP G) as HP'.
    unfold rdP, wlP, sv_reading, sv_tearing, sv_rank_dead in *.
    act_cases a; cbn in Ga; try contradiction; cbn -[Nat.mul] in G, HP' |- *; break;
      destruct Hr as [Hr|[Hr|(b' & Hr)]]; rw_pcs; injs; try discriminate;
      repeat match goal with b : bool |- _ => destruct b end; try rd_case;
      try (unfold dead in *; bools; cbn in *; congruence).
  - intros s I (((D & Hs) & Hr) & Hn). destruct I.
    destruct Hr as [Hr|[Hr|(b' & Hr)]].
    + exists RReadFail; cbn; auto.
    + exists RFwdStop; cbn; repeat split; auto. rewrite i_hstop0, Hs; auto.
    + exists (RWr ViaStop); cbn; repeat split; eauto. rewrite i_wstop0, Hs; auto.
Qed.

Lemma reading_or_tearing : forall s, sv_reading s \/ sv_tearing s.
Proof. intros s; unfold sv_reading, sv_tearing; destruct (sv s); eauto 8. Qed.

Lemma rd_finishes : (fun s => rdP s /\ sv_reading s) ~> sv_tearing.
Proof.
  apply (lt_variant guard eff r _ _ sv_rank_dead). intros n i H.
  destruct (rd_step n i H) as (j & Hj & Hq). exists j; auto.
Qed.

Theorem dead_returns : (fun s => sl_exited s /\ dead s = true) ~> loops_exited.
Proof.
  intros i (Hx & Hd).
  assert (stable guard eff inv (fun s => dead s = true)) as HS
    by (intros s a I H G; apply dead_stable; auto).
  destruct (lt_stable guard eff r inv Inv_run _ _ _ sl_finishes HS i) as (j & Hj & Hs & Hd'); [tauto|].
  assert (exists k, j <= k /\ sv_tearing (st r k) /\ sl (st r k) = SDone) as (k & Hk & Ht & Hs').
  { destruct (reading_or_tearing (st r j)) as [Hr|Ht]; [|exists j; auto].
    destruct (lt_stable guard eff r inv Inv_run _ _ _ rd_finishes sl_done_stable j)
      as (k & Hk & Ht & Hs'); [unfold rdP; tauto|]. exists k; auto. }
  destruct (lt_stable guard eff r inv Inv_run _ _ _ sv_teardown sl_done_stable k)
    as (m & Hm & He & Hs''); [tauto|].
  destruct (end_to_exited m (conj He Hs'')) as (n & Hn & Hq).
  exists n; split; auto; lia.
Qed.
End P.
End SrvP2.

Module SrvEx.
Import Srv SrvP SrvP1 SrvP2.

Section P.
Variable cap : nat.
Hypothesis cap_pos : 1 <= cap.
Notation guard := (Srv.guard cap).
Notation reachable := (Srv.reachable cap).

(* a connection with both timers configured, just after Serve has started its goroutines *)
Definition start (idle : bool) (b : nat) : state :=
  mk RRead SSelect WSelect PArmed 0 0 0 false false false false false 0 0 idle 0 0 false false
     false false false false b.
Lemma start_init : forall i b, init (start i b).
Proof. intros; unfold init; cbn; repeat split; auto. Qed.
Lemma start_reach : forall i b, reachable (start i b).
Proof. intros; apply reach_init, start_init. Qed.

Ltac reach_by := apply reach_acts; [apply start_reach | unfold start; solve [guards_tac]].

(* ---- finding (C10 iv): a connection error ends the stream loop; the peer neither reads nor
   sends nor closes; the write loop is in the socket write of the drain; the read loop is in the
   socket read.  Nothing can move except the peer (or the request timer, which nobody listens to
   any more): the drain timeout is not even armed, because Serve is still inside readLoop. ---- *)
Definition silent_trace : list act :=
  [EPeerSend 1; RGetFwd; RFwdSend; STakeRd false false; SBodyWrite; SWr ViaQueue; SBodyBreak;
   SCloseHStop; SStopPing; SCloseWStop; EPeerStall; WStop; WDrainTake].
Definition silent_state : state := Eval vm_compute in run_acts eff silent_trace (start false 0).

Lemma silent_reachable : reachable silent_state.
Proof.
  replace silent_state with (run_acts eff silent_trace (start false 0)) by (vm_compute; reflexivity).
  unfold silent_trace. reach_by.
Qed.

Lemma silent_shape :
  sv silent_state = RRead /\ sl silent_state = SDone /\ wl silent_state = WSock true /\
  stalled silent_state = true /\ gone silent_state = false /\ sclosed silent_state = false.
Proof. cbn; repeat split. Qed.

Lemma silent_only_peer : forall a, guard a silent_state ->
  (exists b, a = EPeerSend b) \/ a = EPeerClose \/ (exists b, a = EReqTimer b).
Proof.
  intros a G. unfold silent_state in G.
  act_cases a; cbn in G; break; try discriminate; try lia; eauto.
Qed.

Theorem silent_peer_never_returns :
  exists r : run guard eff,
    fair_run cap r /\ reachable (st r 0) /\ sl_exited (st r 0) /\
    forall i, sv (st r i) = RRead /\ wl (st r i) = WSock true /\ sv (st r i) <> VEnd.
Proof.
  exists (const_run guard eff silent_state).
  assert (forall G : act -> Prop, (forall a, G a -> is_env a = false \/ a = EDrainTimeout) ->
            fair G (const_run guard eff silent_state)) as K.
  { intros G HG i. exists i; split; auto. right. intros a Ga Gd.
    destruct (silent_only_peer a Gd) as [(b & ->)|[->|(b & ->)]];
      destruct (HG _ Ga); discriminate. }
  split; [|split; [|split]].
  - repeat split; apply K; intros a Ga; act_cases a; cbn in Ga; try contradiction; auto.
  - apply silent_reachable.
  - right; right; right; reflexivity.
  - intros i; cbn; repeat split; discriminate.
Qed.

(* ---- finding (C17): the ping timer survives the connection.  Its callback was running while
   both pingTimer.Stop() calls were made, so its own Reset re-arms it after everything else is
   gone; from then on it fires every interval, finds writeStop closed, and re-arms itself. ---- *)
Definition ping_trace : list act :=
  [EPingFire; EPeerClose; RReadFail; VStopTimers; VCloseReader; SRdClosed; SCloseHStop; SStopPing;
   SCloseWStop; PWr ViaStop; PRearm; WStop; WDrainEmpty; WFlushRet; WSockClose; WDoneClose; VWaitDone].
Definition ping_state : state := Eval vm_compute in run_acts eff ping_trace (start false 0).

Theorem ping_timer_survives :
  reachable ping_state /\ quiet ping_state /\ pg ping_state = PArmed /\ i_armed ping_state = false /\
  guards guard eff [EPingFire; PWr ViaStop; PRearm] ping_state /\
  run_acts eff [EPingFire; PWr ViaStop; PRearm] ping_state = ping_state.
Proof.
  split.
  { replace ping_state with (run_acts eff ping_trace (start false 0)) by (vm_compute; reflexivity).
    unfold ping_trace. reach_by. }
  unfold ping_state. split; [|split; [|split; [|split]]]; try reflexivity.
  - cbv; repeat split; auto; discriminate.
  - guards_tac.
Qed.

(* ---- example for S1: the peer floods and vanishes; a handler is still in user code, a frame
   is queued for the socket, the read loop is inside sc.write, the stream loop inside an
   iteration ---- *)
Definition s1_trace : list act :=
  [EPeerSend 2; RGetFwd; RFwdSend; STakeRd true true; SBodyWrite; SWr ViaQueue; EPeerSend 0;
   RGetPing; EPeerClose].
Definition s1_state : state := Eval vm_compute in run_acts eff s1_trace (start true 0).
Lemma s1_example :
  reachable s1_state /\ dead s1_state = true /\ sv s1_state = RWrite false /\ sl s1_state = SBody /\
  wr s1_state = 1 /\ h_run s1_state = 1 /\ ~ quiet s1_state.
Proof.
  split.
  { replace s1_state with (run_acts eff s1_trace (start true 0)) by (vm_compute; reflexivity).
    unfold s1_trace. reach_by. }
  unfold s1_state; cbn; repeat split; auto. intros ((H & _) & _); discriminate.
Qed.

(* ---- example for S2: the idle timer has made the stream loop break; the peer has stopped
   reading and sends a malformed frame; the read loop is inside writeGoAway -> sc.write ---- *)
Definition s2_trace : list act :=
  [EIdleFire; IWr ViaQueue; ICloseCloser; SCloser; EPeerStall; EPeerSend 0; RGetBad].
Definition s2_state : state := Eval vm_compute in run_acts eff s2_trace (start true 0).
Lemma s2_example :
  reachable s2_state /\ sl_exited s2_state /\ sv_leaving cap s2_state /\
  sv s2_state = RWrite true /\ wr s2_state = 1 /\ stalled s2_state = true.
Proof.
  split.
  { replace s2_state with (run_acts eff s2_trace (start true 0)) by (vm_compute; reflexivity).
    unfold s2_trace. reach_by. }
  unfold s2_state, sv_leaving, sl_exited; cbn; repeat split; auto.
Qed.
End P.

(* ---- example for S2 (cap = 1): the idle timer has made the stream loop break; the peer keeps
   sending and has stopped reading; reader is full and the read loop is parked in forward ---- *)
Definition s2b_trace : list act :=
  [EPeerSend 0; RGetFwd; RFwdSend; EPeerSend 0; RGetFwd; EIdleFire; IWr ViaQueue; ICloseCloser;
   SCloser; EPeerStall].
Definition s2b_state : state := Eval vm_compute in run_acts eff s2b_trace (start true 0).
Lemma s2b_example :
  Srv.reachable 1 s2b_state /\ sl_exited s2b_state /\ sv_leaving 1 s2b_state /\
  sv s2b_state = RFwd /\ rd s2b_state = 1 /\ stalled s2b_state = true.
Proof.
  split.
  { replace s2b_state with (run_acts eff s2b_trace (start true 0)) by (vm_compute; reflexivity).
    unfold s2b_trace. apply reach_acts; [apply start_reach | unfold start; solve [guards_tac]]. }
  unfold s2b_state, sv_leaving, sl_exited; cbn; repeat split; auto.
Qed.
End SrvEx.

Module CliP.
Import Cli.

Ltac break :=
  repeat match goal with
         | H : _ /\ _ |- _ => destruct H
         | H : exists _, _ |- _ => destruct H
         end.
Ltac rw_pcs :=
  repeat match goal with
         | H : xc ?s = _ |- _ => rewrite H in *; clear H
         | H : tx ?s = _ |- _ => rewrite H in *; clear H
         | H : wl ?s = _ |- _ => rewrite H in *; clear H
         | H : rl ?s = _ |- _ => rewrite H in *; clear H
         | H : uc ?s = _ |- _ => rewrite H in *; clear H
         end.
Ltac rwk :=
  repeat match goal with
         | H : xc ?s = _ |- _ => progress (rewrite H in * )
         | H : tx ?s = _ |- _ => progress (rewrite H in * )
         | H : wl ?s = _ |- _ => progress (rewrite H in * )
         | H : rl ?s = _ |- _ => progress (rewrite H in * )
         | H : uc ?s = _ |- _ => progress (rewrite H in * )
         end.
Ltac bools :=
  repeat match goal with
         | H : ?f ?s = true |- _ => rewrite H in *; clear H
         | H : ?f ?s = false |- _ => rewrite H in *; clear H
         end.

Definition lx_of (hw hr : hold) : lx_t :=
  match hw, hr with HX, _ => LxWl | _, HX => LxRl | _, _ => LxNone end.
Definition bw_of_state (s : state) : bw_t :=
  match wl s, rl s, uc s with
  | LWrite _, _, _ | LClose CWrite, _, _ => BwWl
  | _, RClose CWrite, _ => BwRl
  | _, _, UClose CWrite => BwUc
  | _, _, _ => BwNone
  end.
Definition bcount (s : state) : nat :=
  b2n (match wl s with LWrite _ | LClose CWrite => true | _ => false end) +
  b2n (match rl s with RClose CWrite => true | _ => false end) +
  b2n (match uc s with UClose CWrite => true | _ => false end).
Definition is_mid (o : option close_pc) : bool :=
  match o with Some CDone | Some CLock | Some CWrite => true | _ => false end.
Definition is_cdone (o : option close_pc) : bool :=
  match o with Some CDone => true | _ => false end.
Definition is_late (o : option close_pc) : bool :=
  match o with Some CLock | Some CWrite => true | _ => false end.
Definition midn (s : state) : nat :=
  b2n (is_mid (cpc 0 s)) + b2n (is_mid (cpc 1 s)) + b2n (is_mid (cpc 2 s)).
Definition wl_torn (p : wl_pc) : bool := match p with LT2 | LT3 | LDone => true | _ => false end.
Definition wl_drained (p : wl_pc) : bool := match p with LT3 | LDone => true | _ => false end.
Definition wl_early (p : wl_pc) : bool := match p with LIter | LAcq => true | _ => false end.
Definition waiting (p : xc_pc) : bool :=
  match p with KW1 | KW2 | KLck | KSelf | KErr => true | _ => false end.
Definition tx_fired (p : tx_pc) : bool := match p with TDel | TTake | TOut | TDone => true | _ => false end.
Definition is_ret (p : xc_pc) : bool := match p with KRet => true | _ => false end.

Section P.
Variable cap : nat.
Notation guard := (Cli.guard cap).
Notation reachable := (Cli.reachable cap).

Record inv1 (s : state) : Prop := {
  i_lx : lx s = lx_of (wl_hold s) (rl_hold s);
  i_lx2 : wl_hold s = HX -> rl_hold s = HX -> False;
  i_bw : bw s = bw_of_state s;
  i_bw1 : bcount s <= 1 }.
Record inv2 (s : state) : Prop := {
  i_done : done s = true -> closed s = true;
  i_mid0 : closed s = false -> midn s = 0;
  i_mid1 : midn s <= 1;
  i_cd : closed s && negb (done s) = is_cdone (cpc 0 s) || is_cdone (cpc 1 s) || is_cdone (cpc 2 s);
  i_late0 : is_late (cpc 0 s) = true -> done s = true;
  i_late1 : is_late (cpc 1 s) = true -> done s = true;
  i_late2 : is_late (cpc 2 s) = true -> done s = true;
  i_scl : sclosed s = true -> done s = true;
  i_raced : wl_torn (wl s) = true -> done s = true \/ raced s = true }.
Record inv3 (s : state) : Prop := {
  i_in : inq s + xin s <= cap;
  i_out : outq s <= cap }.
Record inv4 (s : state) : Prop := {
  i_w1 : xc s = KW1 -> xloc s = XOut;
  i_w2 : xc s = KW2 -> xloc s <> XOut;
  i_w3 : xc s = KLck -> xloc s <> XOut;
  i_sid : xsid s = true -> xloc s = XTab \/ xloc s = XGone;
  i_acq : wl s = LAcq -> xloc s = XWl \/ xloc s = XTab \/ xloc s = XGone;
  i_res : xres s = true -> xc s = KRet;
  i_xdone : waiting (xc s) = true -> xdone s = true -> xerr s = true;
  i_gone : waiting (xc s) = true -> xloc s = XGone -> xerr s = true;
  i_fired : waiting (xc s) = true -> tx_fired (tx s) = true -> xerr s = true;
  i_out_err : xc s = KErr -> xloc s = XOut -> xerr s = true;
  i_xwl : xloc s = XWl -> wl_early (wl s) = true;
  i_drained : wl_drained (wl s) = true -> xloc s <> XTab /\ xloc s <> XWl;
  i_j : xc s = KErr -> xloc s = XIn -> wl s = LDone -> raced s = true \/ xerr s = true }.
Definition inv (s : state) : Prop := inv1 s /\ inv2 s /\ inv3 s /\ inv4 s.

Ltac unf := unfold lx_of, bcount, wl_hold, rl_hold, rl_k, bw_of_state, midn, cpc, xin, resolveX, release, set_cpc, end_cpc,
  bw_of, dead in *.
Ltac act_cases a :=
  destruct a;
  try match goal with p : nat |- _ => destruct p as [|[|[|p]]] end.
Ltac dm :=
  match goal with
  | |- context[match ?x with _ => _ end] =>
      lazymatch x with
      | context[match _ with _ => _ end] => fail
      | _ => destruct x eqn:?
      end
  | H : context[match ?x with _ => _ end] |- _ =>
      lazymatch x with
      | context[match _ with _ => _ end] => fail
      | _ => destruct x eqn:?
      end
  end.
Ltac easy_fin := solve [auto | congruence | lia | tauto | (intuition congruence) ].
Ltac fwd :=
  repeat match goal with
         | H : ?A -> _, H' : ?A |- _ => specialize (H H')
         | H : ?x = ?x -> _ |- _ => specialize (H eq_refl)
         end.
Ltac rwx :=
  repeat match goal with
         | H : xloc ?s = _ |- _ => progress (rewrite H in * )
         end.
Ltac fin := cbn in *; intros; subst; rwk; rwx; fwd; rwk; cbn in *; rewrite ?orb_false_r in *;
  first [ easy_fin | dm; fin ].
Ltac prep G := cbn in G; break; try lia;
  repeat match goal with b : bool |- _ => destruct b | h : hold |- _ => destruct h end;
  unf; rwk; cbn in *; unf;
  try match goal with |- context[xres ?s] => destruct (xres s) eqn:? end; cbn in *.

Lemma inv_init : forall s, init cap s -> inv s.
Proof.
  unfold init; intros s H; break.
  repeat split; unfold bcount, midn, bw_of_state, cpc, wl_hold, rl_hold, xin in *; rw_pcs; bools; cbn; auto;
    try congruence; try lia; try (intros; discriminate).
  all: try (rewrite H4; lia); try (destruct H0 as [-> | ->]; cbn; intros; discriminate).
  all: try (rewrite H4; intros; discriminate).
Qed.

Lemma inv1_step : forall s a, inv1 s -> guard a s -> inv1 (eff a s).
Proof.
  intros s a I G. destruct I.
  act_cases a; prep G.
  all: constructor; cbn; unf; cbn; rwk; cbn; auto; try congruence; try lia.
  all: try (timeout 20 fin).
Qed.

Lemma inv2_step : forall s a, inv2 s -> guard a s -> inv2 (eff a s).
Proof.
  intros s a I G. destruct I.
  act_cases a; prep G.
  all: constructor; cbn; unf; cbn; rwk; cbn; auto; try congruence; try lia.
  all: try (timeout 20 fin).
  all: try (repeat match goal with H : match _ with _ => _ end = Some _ |- _ => rewrite H in * end;
            destruct (done s) eqn:?; destruct (closed s) eqn:?; destruct (raced s) eqn:?;
            timeout 20 fin).
Qed.

Lemma inv3_step : forall s a, inv3 s -> guard a s -> inv3 (eff a s).
Proof.
  intros s a I G. destruct I.
  act_cases a; prep G.
  all: constructor; cbn; unf; cbn; rwk; cbn; auto; try congruence; try lia.
  all: try (timeout 20 fin).
Qed.

End P.
End CliP.

Module CliPb.
Import Cli CliP.
Ltac unf := unfold lx_of, bcount, wl_hold, rl_hold, rl_k, bw_of_state, midn, cpc, xin, resolveX, release, set_cpc, end_cpc,
  bw_of, dead in *.
Ltac act_cases a :=
  destruct a;
  try match goal with p : nat |- _ => destruct p as [|[|[|p]]] end.
Ltac dm :=
  match goal with
  | |- context[match ?x with _ => _ end] =>
      lazymatch x with
      | context[match _ with _ => _ end] => fail
      | _ => destruct x eqn:?
      end
  | H : context[match ?x with _ => _ end] |- _ =>
      lazymatch x with
      | context[match _ with _ => _ end] => fail
      | _ => destruct x eqn:?
      end
  end.
Ltac easy_fin := solve [auto | congruence | lia | tauto | (intuition congruence) ].
Ltac fwd :=
  repeat match goal with
         | H : ?A -> _, H' : ?A |- _ => specialize (H H')
         | H : ?x = ?x -> _ |- _ => specialize (H eq_refl)
         end.
Ltac rwx :=
  repeat match goal with
         | H : xloc ?s = _ |- _ => progress (rewrite H in * )
         end.
Ltac fin := cbn in *; intros; subst; rwk; rwx; fwd; rwk; cbn in *; rewrite ?orb_false_r in *;
  first [ easy_fin | dm; fin ].
Ltac prep G := cbn in G; break; try lia;
  repeat match goal with b : bool |- _ => destruct b | h : hold |- _ => destruct h end;
  unf; rwk; cbn in *; unf;
  try match goal with |- context[xres ?s] => destruct (xres s) eqn:? end; cbn in *.


Section P.
Variable cap : nat.
Notation guard := (Cli.guard cap).
Lemma inv4_step : forall s a, inv2 s -> inv4 s -> guard a s -> inv4 (eff a s).
Proof.
  intros s a I2 I G. destruct I. pose proof (i_raced _ I2) as Hr. clear I2.
  act_cases a; prep G.
  all: constructor; cbn; unf; cbn; rwk; cbn; auto; try congruence; try lia.
  all: try (timeout 20 fin).
Qed.

End P.
End CliPb.

Module CliP2.
Import Cli CliP CliPb.

Ltac unf := unfold lx_of, bcount, wl_hold, rl_hold, rl_k, bw_of_state, midn, cpc, xin, resolveX, release, set_cpc, end_cpc,
  bw_of, dead in *.
Ltac act_cases a :=
  destruct a;
  try match goal with p : nat |- _ => destruct p as [|[|[|p]]] end.
Ltac dm :=
  match goal with
  | |- context[match ?x with _ => _ end] =>
      lazymatch x with
      | context[match _ with _ => _ end] => fail
      | _ => destruct x eqn:?
      end
  | H : context[match ?x with _ => _ end] |- _ =>
      lazymatch x with
      | context[match _ with _ => _ end] => fail
      | _ => destruct x eqn:?
      end
  end.
Ltac easy_fin := solve [auto | congruence | lia | tauto | (intuition congruence) ].
Ltac fwd :=
  repeat match goal with
         | H : ?A -> _, H' : ?A |- _ => specialize (H H')
         | H : ?x = ?x -> _ |- _ => specialize (H eq_refl)
         end.
Ltac rwx :=
  repeat match goal with
         | H : xloc ?s = _ |- _ => progress (rewrite H in * )
         end.
Ltac fin := cbn in *; intros; subst; rwk; rwx; fwd; rwk; cbn in *; rewrite ?orb_false_r in *;
  first [ easy_fin | dm; fin ].
Ltac prep G := cbn in G; break; try lia;
  repeat match goal with b : bool |- _ => destruct b | h : hold |- _ => destruct h end;
  unf; rwk; cbn in *; unf;
  try match goal with |- context[xres ?s] => destruct (xres s) eqn:? end; cbn in *.


Section P.
Variable cap : nat.
Notation guard := (Cli.guard cap).
Notation reachable := (Cli.reachable cap).
Notation inv := (CliP.inv cap).

Lemma inv_step : forall s a, inv s -> guard a s -> inv (eff a s).
Proof.
  intros s a (I1 & I2 & I3 & I4) G.
  split; [|split; [|split]];
    eauto using (inv1_step cap), (inv2_step cap), (inv3_step cap), (CliPb.inv4_step cap).
Qed.

Lemma reachable_inv : forall s, reachable s -> inv s.
Proof. induction 1; auto using (inv_init cap), inv_step. Qed.

(* ---- S3, locks ---- *)
(* the static table respects the order, and never nests a mutex in itself *)
Theorem lock_order : forall a o i, In (o, i) (nest a) -> mrank o < mrank i.
Proof.
  intros a o i H. destruct a; cbn in H; try contradiction;
    try (destruct h; cbn in H; try contradiction);
    repeat (destruct H as [H|H]; [inversion H; subst; cbn; lia|]); contradiction.
Qed.

(* whoever is parked on a mutex holds only smaller ones: in particular not that one *)
Theorem ordered_reachable : forall s, reachable s -> ordered (wants s) (holds s).
Proof.
  intros s R p m m' Hw Hh. destruct (reachable_inv s R) as ([] & _).
  unfold wants, holds in *. unf.
  destruct p as [|[|[|[|[|]]]]]; try contradiction; try discriminate.
  - destruct (wl s) eqn:E; try discriminate; cbn in *;
      try (destruct c; try discriminate); inversion Hw; subst;
      destruct Hh as [(-> & Hh)|[(-> & Hh)|(-> & Hh)]]; try lia; try discriminate;
      rewrite Hh in *; try discriminate;
      repeat match goal with H : context[match ?x with _ => _ end] |- _ => destruct x end;
      try discriminate.
  - destruct (rl s) eqn:E; try discriminate; cbn in *;
      try (destruct c; try discriminate); inversion Hw; subst;
      destruct Hh as [(-> & Hh)|[(-> & Hh)|(-> & Hh)]]; try lia; try discriminate;
      rewrite Hh in *; try discriminate;
      repeat match goal with H : context[match ?x with _ => _ end] |- _ => destruct x end;
      try discriminate.
  - destruct (uc s) eqn:E; try discriminate. destruct c; try discriminate. inversion Hw; subst.
    destruct Hh as (-> & Hh). rewrite Hh in *.
    repeat match goal with H : context[match ?x with _ => _ end] |- _ => destruct x end;
      try discriminate.
Qed.

Theorem no_wait_cycle : forall s, reachable s -> ~ wait_cycle (wants s) (holds s).
Proof. intros s R. apply ordered_no_wait_cycle, ordered_reachable; auto. Qed.

(* no goroutine is parked on a mutex it holds itself *)
Theorem no_self_wait : forall s p m, reachable s -> wants s p = Some m -> ~ holds s p m.
Proof.
  intros s p m R Hw Hh. pose proof (ordered_reachable s R p m m Hw Hh). lia.
Qed.
End P.
End CliP2.

Module CliEx.
Import Cli.

Ltac break :=
  repeat match goal with
         | H : _ /\ _ |- _ => destruct H
         | H : exists _, _ |- _ => destruct H
         end.
Ltac act_cases a :=
  destruct a;
  try match goal with p : nat |- _ => destruct p as [|[|[|p]]] end.

Section P.
Variable cap : nat.
Hypothesis cap_pos : 1 <= cap.
Notation guard := (Cli.guard cap).
Notation reachable := (Cli.reachable cap).

(* X has just been handed to Conn.Write; q requests are queued in c.in, o frames in c.out *)
Definition start (t : tx_pc) (q o : nat) : state :=
  mk KW1 t LSel RRead UIdle XOut false false false false false LxNone BwNone false false q o
     false false 0 false false false false 0 false.
Lemma start_reach : forall t q o, (t = TArmed \/ t = TOff) -> q <= cap -> o <= cap ->
  reachable (start t q o).
Proof. intros; apply reach_init; unfold init; cbn; repeat split; auto. Qed.

(* the only things that can still happen in a state *)
Definition only_env (s : state) : Prop := forall a, guard a s -> is_env a = true.

(* ---- F1: Conn.Close behind a socket write that does not return ---- *)
Definition f1_trace : list act :=
  [KSend; KCheckOpen; LSelInX 1; LGoAcqX; LAcqX; LLock; EPeerStall; EUserClose; CCasWin 2;
   CCloseDone 2].
Definition f1_state : state := Eval vm_compute in run_acts eff f1_trace (start TOff 0 0).
Theorem close_behind_stuck_write :
  reachable f1_state /\ only_env f1_state /\
  wl f1_state = LWrite HX /\ uc f1_state = UClose CLock /\ done f1_state = true /\
  sclosed f1_state = false /\ xc f1_state = KErr /\ xerr f1_state = false.
Proof.
  split.
  { replace f1_state with (run_acts eff f1_trace (start TOff 0 0)) by (vm_compute; reflexivity).
    apply reach_acts; [apply start_reach; auto; lia | unfold start, f1_trace; guards_tac]. }
  split; [|cbn; repeat split].
  intros a G. unfold f1_state in G. act_cases a; cbn in G; break; try discriminate; try lia; auto.
Qed.

Ltac reach_from t q o tr :=
  match goal with |- reachable ?st =>
    replace st with (run_acts eff tr (start t q o)) by (cbv -[Init.Nat.pred Init.Nat.add]; reflexivity);
    apply reach_acts; [apply start_reach; auto; lia | unfold start, tr; solve [guards_tac]]
  end.
Ltac only_env_tac st :=
  let a := fresh "a" in let G := fresh "G" in
  intros a G; unfold st in G; act_cases a; cbn in G; break; try discriminate; try lia; auto.

(* ... and with the request's timeout armed: the timer resolves the request, the caller receives
   the error, and then parks in takeBack on the Ctx.lck the write loop holds: RoundTrip does not
   return either *)
Definition f1b_trace : list act :=
  f1_trace ++ [ETimerFire; TResolve; KRecv; TDelSkip; TTakeReq; TOutSend].
Definition f1b_state : state := Eval vm_compute in run_acts eff f1b_trace (start TArmed 0 0).
Theorem roundtrip_stuck_in_takeback :
  reachable f1b_state /\ only_env f1b_state /\
  xc f1b_state = KTb /\ lx f1b_state = LxWl /\ wl f1b_state = LWrite HX /\ tx f1b_state = TDone.
Proof.
  split; [reach_from TArmed 0 0 f1b_trace|].
  split; [only_env_tac f1b_state | cbn; repeat split].
Qed.

(* ---- F2: Conn.Write parked on a full c.in behind a write loop that is stuck in a socket write;
   nobody closes c.done; the request's own timeout fires, resolves, and changes nothing: the
   caller is not yet listening on ctx.Err ---- *)
Definition f2_trace : list act :=
  [LSelInO 1; LGoLockB HO; LLock; EPeerStall; EOtherCaller; OSend; ETimerFire; TResolve].
Definition f2_state : state := Eval cbv -[Init.Nat.pred Init.Nat.add] in run_acts eff f2_trace (start TArmed cap 0).

Theorem write_parked_past_timeout :
  reachable f2_state /\ only_env f2_state /\
  xc f2_state = KW1 /\ xerr f2_state = true /\ tx f2_state = TDone /\ done f2_state = false /\
  wl f2_state = LWrite HO /\ inq f2_state = cap.
Proof.
  split; [reach_from TArmed cap 0 f2_trace|].
  split; [only_env_tac f2_state | cbn; repeat split; lia].
Qed.

(* ---- F5: a wait cycle through a mutex and a channel, with a healthy peer.  The read loop holds
   X's Ctx.lck in dispatch and is parked in writeOut because c.out is full; the write loop, the
   only receiver of c.out, is parked in sendPending -> acquireFor on that Ctx.lck.  c.done is
   open, so writeOut has no way out. ---- *)
Definition f5_trace : list act :=
  [KSend; KCheckOpen; LSelInX 2; LGoAcqX; LAcqX; LLock; LWriteOk; EPeerSend; RGet; RGoAcqX; RAcqX;
   RHoldOut; LGoAcqX].
Definition f5_state : state := Eval cbv -[Init.Nat.pred Init.Nat.add] in run_acts eff f5_trace (start TOff 0 cap).
Theorem out_full_lock_cycle :
  reachable f5_state /\ only_env f5_state /\
  stalled f5_state = false /\ gone f5_state = false /\ done f5_state = false /\
  wl f5_state = LAcq /\ rl f5_state = ROutL HX 1 /\ lx f5_state = LxRl /\ outq f5_state = cap /\
  xc f5_state = KErr /\ xerr f5_state = false.
Proof.
  split; [reach_from TOff 0 cap f5_trace|].
  split; [only_env_tac f5_state | cbn; repeat split; lia].
Qed.

(* ---- F4: Close is not atomic.  The read loop wins the CAS and is preempted before
   close(c.done); the write loop leaves on a write error, its own c.Close() returns io.EOF at
   once, it drains an empty c.in and exits; X is then sent on c.in, Write's second select still
   sees c.done open; the read loop finishes Close.  Both loops are gone and X sits in c.in. ---- *)
Definition f4_trace : list act :=
  [EPeerClose; RReadFail; RDeferClose; CCasWin 1; ETick; LSelTick 1; LGoLockB HNone; LLock; LWriteFail false;
   LSetErr; CCasLose 0; LT2Take; LT3End; KSend; KCheckOpen; CCloseDone 1; CLockB 1; CWriteRet 1].
Definition f4_state : state := Eval vm_compute in run_acts eff f4_trace (start TOff 0 0).
Theorem stranded_by_close_race :
  reachable f4_state /\ loops_exited f4_state /\ done f4_state = true /\
  xc f4_state = KErr /\ xloc f4_state = XIn /\ xerr f4_state = false /\ tx f4_state = TOff /\
  raced f4_state = true /\
  (forall a, guard a f4_state -> a = EPeerStall \/ a = ETick \/ a = EUserClose).
Proof.
  split; [reach_from TOff 0 0 f4_trace|].
  unfold loops_exited; cbn. repeat (split; [solve [auto]|]).
  intros a G; unfold f4_state in G; act_cases a; cbn in G; break; try discriminate; try lia; auto.
Qed.

(* ---- example for the liveness theorem: Client.Close has just won the CAS while the write loop
   is writing X's HEADERS under X's Ctx.lck and bwLck, and the read loop is in dispatch for another
   request; the peer is reading ---- *)
Definition s3_trace : list act :=
  [KSend; KCheckOpen; LSelInX 2; LGoAcqX; LAcqX; LLock; EPeerSend; RGet; RGoHoldO; EUserClose;
   CCasWin 2].
Definition s3_state : state := Eval vm_compute in run_acts eff s3_trace (start TArmed 0 0).
Lemma s3_example :
  reachable s3_state /\ closed s3_state = true /\ done s3_state = false /\ stalled s3_state = false /\
  wl s3_state = LWrite HX /\ rl s3_state = RHold HO 2 /\ uc s3_state = UClose CDone /\
  xc s3_state = KErr /\ xloc s3_state = XTab /\ xerr s3_state = false.
Proof.
  split; [reach_from TArmed 0 0 s3_trace | cbn; repeat split].
Qed.
End P.
End CliEx.

Module CliL.
Import Cli CliP CliP2.

Ltac unf := unfold lx_of, bcount, wl_hold, rl_hold, rl_k, bw_of_state, midn, cpc, xin, resolveX, release,
  set_cpc, end_cpc, bw_of, dead in *.
Ltac act_cases a :=
  destruct a;
  try match goal with
      | G : Cli.guard _ (CCasWin ?p) _ |- _ => destruct p as [|[|[|p]]]
      | G : Cli.guard _ (CCasLose ?p) _ |- _ => destruct p as [|[|[|p]]]
      | G : Cli.guard _ (CCloseDone ?p) _ |- _ => destruct p as [|[|[|p]]]
      | G : Cli.guard _ (CLockB ?p) _ |- _ => destruct p as [|[|[|p]]]
      | G : Cli.guard _ (CWriteRet ?p) _ |- _ => destruct p as [|[|[|p]]]
      end.
Ltac params :=
  repeat match goal with b : bool |- _ => destruct b | h : hold |- _ => destruct h end.
Ltac dm :=
  match goal with
  | |- context[match ?x with _ => _ end] =>
      lazymatch x with
      | context[match _ with _ => _ end] => fail
      | _ => destruct x eqn:?
      end
  | H : context[match ?x with _ => _ end] |- _ =>
      lazymatch x with
      | context[match _ with _ => _ end] => fail
      | _ => destruct x eqn:?
      end
  end.
Ltac easy_fin := solve [auto | congruence | lia | tauto | (intuition congruence) ].
Ltac fwd :=
  repeat match goal with
         | H : ?A -> _, H' : ?A |- _ => specialize (H H')
         | H : ?x = ?x -> _ |- _ => specialize (H eq_refl)
         end.
Ltac rwx :=
  repeat match goal with
         | H : xloc ?s = _ |- _ => progress (rewrite H in * )
         end.
Ltac fin := cbn in *; intros; subst; rwk; rwx; fwd; rwk; cbn in *; rewrite ?orb_false_r in *;
  first [ easy_fin | dm; fin ].
Ltac prep G := cbn in G; break; try lia; params; unf; rwk; cbn in *; unf;
  try match goal with |- context[xres ?s] => destruct (xres s) eqn:? end; cbn in *.

Record inv5 (s : state) : Prop := {
  i_fin : done s = true ->
          sclosed s = true \/ is_late (cpc 0 s) || is_late (cpc 1 s) || is_late (cpc 2 s) = true;
  i_k : rl_k s <= 2 }.

Section P.
Variable cap : nat.
Hypothesis cap_pos : 1 <= cap.
Notation guard := (Cli.guard cap).
Notation reachable := (Cli.reachable cap).
Notation inv := (CliP.inv cap).

Lemma inv5_init : forall s, init cap s -> inv5 s.
Proof.
  unfold init; intros s H; break. constructor; unf; rwk; cbn; auto; congruence.
Qed.

Lemma inv5_step : forall s a, inv5 s -> guard a s -> inv5 (eff a s).
Proof.
  intros s a I G. destruct I.
  act_cases a; prep G.
  all: constructor; cbn; unf; cbn; rwk; cbn; auto; try congruence; try lia.
  all: try (timeout 20 fin).
Qed.
End P.
End CliL.

Module CliL2.
Import Cli CliP CliP2 CliL.

Definition Inv (cap : nat) (s : state) : Prop :=
  CliP.inv cap s /\ inv5 s /\ (stalled s = false \/ dead s = true).

Ltac easy_fin ::= solve [auto | congruence | lia | tauto | (intuition congruence)
                         | (intuition (try congruence; try lia)) ].
Ltac xr := try match goal with |- context[xres ?s] => destruct (xres s) eqn:? end; cbn in *.
(* obligations of the ensures rules: P and Q speak about a few fields *)
Ltac solve_side := cbn; unf; rwk; cbn;
  first [ solve [repeat split; auto; try congruence; try lia]
        | match goal with |- _ \/ _ => first [ solve [left; solve_side] | solve [right; solve_side] ] end
        | solve [timeout 10 fin] ].
Ltac cens1 :=
  let s := fresh "s" in let a := fresh "a" in let I := fresh "I" in
  let HP := fresh "HP" in let G := fresh "G" in
  intros s a I HP G; clear I; act_cases a; cbn in G; break; try lia; params; unf; rwk; cbn in *; unf; xr;
  try congruence;
  first [ left; solve [solve_side] | right; solve [solve_side] | idtac ].
Ltac cens1_w1 :=
  let s := fresh "s" in let a := fresh "a" in let I := fresh "I" in
  let HP := fresh "HP" in let G := fresh "G" in
  intros s a I HP G;
  assert (xc s = KW1 -> xloc s = XOut) by (destruct I as ((_ & _ & _ & I4) & _); apply I4);
  clear I; act_cases a; cbn in G; break; try lia; params; unf; rwk; fwd; rwx; cbn in *; unf; xr;
  try congruence;
  first [ left; solve [solve_side] | right; solve [solve_side] | idtac ].
Ltac cens2 :=
  let s := fresh "s" in let a := fresh "a" in let I := fresh "I" in
  let HP := fresh "HP" in let G := fresh "G" in let Ga := fresh "Ga" in
  intros s a I HP Ga G; clear I; act_cases a; cbn in Ga; try contradiction; try lia;
  cbn in G; break; try lia; params; unf; rwk; cbn in *; unf; xr; try congruence; try solve [solve_side].

Section P.
Variable cap : nat.
Hypothesis cap_pos : 1 <= cap.
Notation guard := (Cli.guard cap).
Notation reachable := (Cli.reachable cap).
Notation inv := (CliP.inv cap).

Variable r : run guard eff.
Hypothesis F : fair_run cap r.
Hypothesis R0 : reachable (st r 0).
Hypothesis NS : forall i, stalled (st r i) = false \/ dead (st r i) = true.

Lemma inv5_reach : forall s, reachable s -> inv5 s.
Proof. induction 1; auto using (inv5_init cap), (inv5_step cap). Qed.

Lemma Inv_run : forall i, Inv cap (st r i).
Proof.
  intros i. pose proof (reach_run guard eff _ r R0 i) as R.
  split; [apply reachable_inv; auto | split; [apply inv5_reach; auto | apply NS]].
Qed.

Notation "P ~> Q" := (leadsto r P Q) (at level 70).
Notation ensures := (lt_ensures guard eff r (Inv cap) Inv_run).
Notation ensures_s := (lt_ensures_s guard eff r (Inv cap) Inv_run).

Let Fx : sfair g_x r := proj1 F.
Let Fo : sfair g_o r := proj1 (proj2 F).
Let Ft : sfair g_t r := proj1 (proj2 (proj2 F)).
Let Fwl : sfair g_wl r := proj1 (proj2 (proj2 (proj2 F))).
Let Frl : sfair g_rl r := proj1 (proj2 (proj2 (proj2 (proj2 F)))).
Let Fuc : sfair g_uc r := proj1 (proj2 (proj2 (proj2 (proj2 (proj2 F))))).
Let Fsd : sfair g_seldone r := proj1 (proj2 (proj2 (proj2 (proj2 (proj2 (proj2 F)))))).
Let Fbody : sfair g_body r := proj2 (proj2 (proj2 (proj2 (proj2 (proj2 (proj2 F)))))).
Let Wx := sfair_fair guard eff r g_x Fx.
Let Wwl := sfair_fair guard eff r g_wl Fwl.
Let Wrl := sfair_fair guard eff r g_rl Frl.
Let Wuc := sfair_fair guard eff r g_uc Fuc.
Let Wbody := sfair_fair guard eff r g_body Fbody.

Definition g_of (p : nat) : act -> Prop :=
  match p with 0 => g_wl | 1 => g_rl | _ => g_uc end.
Lemma W_of : forall p, fair (g_of p) r.
Proof. intros [|[|p]]; cbn; auto. Qed.

(* -- (A) whoever won the CAS closes c.done -- *)
Lemma cdone_step : forall p, p < 3 ->
  (fun s => cpc p s = Some CDone) ~> (fun s => done s = true).
Proof.
  intros p Hp. apply (ensures (g_of p)); [apply W_of | | | ].
  - destruct p as [|[|[|p]]]; try lia; cens1.
  - destruct p as [|[|[|p]]]; try lia; cens2.
  - intros s I H. exists (CCloseDone p). split.
    + destruct p as [|[|[|p]]]; try lia; cbn; auto.
    + cbn; auto.
Qed.

Lemma closed_to_done : (fun s => closed s = true) ~> (fun s => done s = true).
Proof.
  intros i H. destruct (done (st r i)) eqn:E; [exists i; auto|].
  destruct (Inv_run i) as ((_ & I2 & _) & _). pose proof (i_cd _ I2) as Hc.
  rewrite H, E in Hc. cbn [andb negb] in Hc. symmetry in Hc.
  apply orb_true_iff in Hc. destruct Hc as [Hc|Hc]; [apply orb_true_iff in Hc; destruct Hc as [Hc|Hc]|].
  - apply (cdone_step 0); [lia|]. destruct (cpc 0 (st r i)) as [[]|]; cbn in Hc; try discriminate Hc; auto.
  - apply (cdone_step 1); [lia|]. destruct (cpc 1 (st r i)) as [[]|]; cbn in Hc; try discriminate Hc; auto.
  - apply (cdone_step 2); [lia|]. destruct (cpc 2 (st r i)) as [[]|]; cbn in Hc; try discriminate Hc; auto.
Qed.

Ltac stab := let s := fresh "s" in let a := fresh "a" in let I := fresh "I" in
  let H := fresh "H" in let G := fresh "G" in
  intros s a I H G; clear I; act_cases a; cbn in G; break; try lia; params; unf; rwk; cbn in *;
  try congruence; try solve [solve_side].

Lemma done_stable : stable guard eff (Inv cap) (fun s => done s = true).
Proof. stab. Qed.
Lemma closed_stable : stable guard eff (Inv cap) (fun s => closed s = true).
Proof. stab. Qed.
Lemma sclosed_stable : stable guard eff (Inv cap) (fun s => sclosed s = true).
Proof. stab. Qed.

(* -- the read loop lets go of X's Ctx.lck once c.done is closed -- *)
Definition rk (s : state) : nat :=
  match rl s with RHold _ k => 2 * k | ROutL _ k => 2 * k + 1 | _ => 0 end.
Lemma rl_release_step : forall n,
  (fun s => (done s = true /\ rl_hold s = HX) /\ rk s = n) ~>
  (fun s => rl_hold s <> HX \/ ((done s = true /\ rl_hold s = HX) /\ rk s < n)).
Proof.
  intros n. apply (ensures g_rl); auto.
  - unfold rk; cens1.
  - unfold rk; cens2.
  - intros s I ((Hd & Hh) & Hn). unfold rl_hold in Hh.
    destruct (rl s) eqn:E; try discriminate; subst.
    + exists (RHoldFinish false false); cbn; eauto.
    + exists ROutLDone; cbn; eauto.
Qed.
Lemma rl_release : (fun s => done s = true /\ rl_hold s = HX) ~> (fun s => rl_hold s <> HX).
Proof.
  apply (lt_variant guard eff r _ _ rk). intros n i H.
  destruct (rl_release_step n i H) as (j & Hj & Hq). exists j; auto.
Qed.

(* -- bwLck comes back -- *)
Lemma cwrite_release : forall p, p < 3 ->
  (fun s => cpc p s = Some CWrite) ~> (fun s => bw s = BwNone).
Proof.
  intros p Hp. apply (ensures (g_of p)); [apply W_of | | | ].
  - destruct p as [|[|[|p]]]; try lia; cens1.
  - destruct p as [|[|[|p]]]; try lia; cens2.
  - intros s (_ & _ & Hs) H. exists (CWriteRet p). split.
    + destruct p as [|[|[|p]]]; try lia; cbn; auto.
    + cbn; repeat split; auto; tauto.
Qed.

(* -- one iteration of the write loop ends -- *)
Definition pcw (p : wl_pc) : nat :=
  match p with LAcq => 4 | LLockB _ => 3 | LWrite _ => 2 | LRefill | LSelfOut => 1 | _ => 0 end.
Definition wm (s : state) : nat :=
  6 * bud s + pcw (wl s) + match xloc s with XWl => 1 | _ => 0 end.
Definition wl_iter (s : state) : Prop :=
  match wl s with LIter | LAcq | LLockB _ | LWrite _ | LRefill | LSelfOut => True | _ => False end.
Definition wl_t (s : state) : Prop :=
  match wl s with LT0 | LClose _ | LT2 | LT3 | LDone => True | _ => False end.
Definition iterQ (n : nat) (s : state) : Prop :=
  wl s = LSel \/ wl_t s \/ ((done s = true /\ wl_iter s) /\ wm s < n).

Ltac wunf := unfold iterQ, wl_t, wl_iter, wm, pcw in *.

Lemma it_LIter : forall n,
  (fun s => (done s = true /\ wl s = LIter) /\ wm s = n) ~> iterQ n.
Proof.
  intros n. apply (ensures g_wl); auto.
  - wunf; cens1_w1.
  - wunf; cens2.
  - intros s I ((Hd & Hw) & Hn).
    destruct (xloc s) eqn:E;
      try (exists LIterEnd; cbn; repeat split; auto; congruence).
    exists LRejectX; cbn; auto.
Qed.

End P.
End CliL2.

Module CliL3.
Import Cli CliP CliP2 CliL CliL2.

Ltac easy_fin ::= solve [auto | congruence | lia | tauto | (intuition congruence)
                         | (intuition (try congruence; try lia))
                         | (repeat split; eauto; try congruence; try lia)
                         | (left; repeat split; eauto; try congruence; try lia)
                         | (right; right; right; repeat split; eauto; try congruence; try lia) ].
Ltac solve_side ::= cbn; unf; rwk; rwx; cbn;
  first [ solve [repeat split; eauto; try congruence; try lia]
        | match goal with |- _ \/ _ => first [ solve [left; solve_side] | solve [right; solve_side] ] end
        | solve [timeout 10 fin] ].
Ltac wunf := unfold iterQ, wl_t, wl_iter, wm, pcw in *.

Section P.
Variable cap : nat.
Hypothesis cap_pos : 1 <= cap.
Notation guard := (Cli.guard cap).
Notation reachable := (Cli.reachable cap).
Notation inv := (CliP.inv cap).
Variable r : run guard eff.
Hypothesis F : fair_run cap r.
Hypothesis R0 : reachable (st r 0).
Hypothesis NS : forall i, stalled (st r i) = false \/ dead (st r i) = true.

Notation Inv_run := (CliL2.Inv_run cap cap_pos r R0 NS).
Notation "P ~> Q" := (leadsto r P Q) (at level 70).
Notation ensures := (lt_ensures guard eff r (Inv cap) Inv_run).
Notation ensures_s := (lt_ensures_s guard eff r (Inv cap) Inv_run).
Let Fwl : sfair g_wl r := proj1 (proj2 (proj2 (proj2 F))).
Let Fbody : sfair g_body r := proj2 (proj2 (proj2 (proj2 (proj2 (proj2 (proj2 F)))))).
Let Wwl := sfair_fair guard eff r g_wl Fwl.
Let Wbody := sfair_fair guard eff r g_body Fbody.
Notation rl_release := (CliL2.rl_release cap cap_pos r F R0 NS).

Lemma it_LWrite : forall n,
  (fun s => (done s = true /\ exists h, wl s = LWrite h) /\ wm s = n) ~> iterQ n.
Proof.
  intros n. apply (ensures g_wl); auto.
  - wunf; cens1_w1.
  - wunf; cens2.
  - intros s (_ & _ & Hs) ((Hd & h & Hw) & Hn).
    destruct (dead s) eqn:E.
    + exists (LWriteFail false); cbn; eauto.
    + destruct Hs as [Hs|Hs]; [|congruence]. exists LWriteOk; cbn; eauto.
Qed.

Lemma it_LRefill : forall n,
  (fun s => (done s = true /\ wl s = LRefill) /\ wm s = n) ~> iterQ n.
Proof.
  intros n. apply (ensures g_body); auto.
  - wunf; cens1_w1.
  - wunf; cens2.
  - intros s I ((Hd & Hw) & Hn). exists (EBodyRead false); cbn; auto.
Qed.

Lemma it_LSelfOut : forall n,
  (fun s => (done s = true /\ wl s = LSelfOut) /\ wm s = n) ~> iterQ n.
Proof.
  intros n. apply (ensures g_wl); auto.
  - wunf; cens1_w1.
  - wunf; cens2.
  - intros s I ((Hd & Hw) & Hn). exists LSelfOutDone; cbn; auto.
Qed.

Lemma lacq_unless : forall n s a, Inv cap s ->
  (done s = true /\ wl s = LAcq) /\ wm s = n -> guard a s ->
  ((done (eff a s) = true /\ wl (eff a s) = LAcq) /\ wm (eff a s) = n) \/ iterQ n (eff a s).
Proof. intros n; wunf; cens1_w1. Qed.

Lemma it_LAcq : forall n,
  (fun s => (done s = true /\ wl s = LAcq) /\ wm s = n) ~> iterQ n.
Proof.
  intros n. apply (ensures_s g_wl); auto.
  - apply lacq_unless.
  - wunf; cens2.
  - intros i HP.
    assert (forall s, Inv cap s -> ((done s = true /\ wl s = LAcq) /\ wm s = n) -> rl_hold s <> HX ->
              exists a, g_wl a /\ guard a s) as En.
    { intros s ((I1 & _ & _ & _) & _ & _) ((Hd & Hw) & Hn) Hr. pose proof (i_lx _ I1) as Hl.
      unfold wl_hold in Hl. rewrite Hw in Hl.
      assert (lx s = LxNone) by (destruct (rl_hold s); cbn in Hl; congruence).
      destruct (xdone s) eqn:E; [exists LAcqXFail | exists LAcqX]; cbn; auto. }
    destruct (rl_hold (st r i)) eqn:E.
    1,3: exists i; split; auto; right; apply En; auto using Inv_run; congruence.
    destruct (lt_unless guard eff r (Inv cap) Inv_run _ _ _ _ (lacq_unless n) rl_release i)
      as (j & Hj & [Hq|(HP' & Hr)]).
    + split; auto. split; auto. apply HP.
    + exists j; auto.
    + exists j; split; auto. right. apply En; auto using Inv_run.
Qed.

Lemma llock_unless : forall n s a, Inv cap s ->
  (done s = true /\ exists h, wl s = LLockB h) /\ wm s = n -> guard a s ->
  ((done (eff a s) = true /\ exists h, wl (eff a s) = LLockB h) /\ wm (eff a s) = n) \/ iterQ n (eff a s).
Proof. intros n; wunf; cens1_w1. Qed.
End P.
End CliL3.

Module CliL4.
Import Cli CliP CliP2 CliL CliL2 CliL3.

Ltac easy_fin ::= solve [auto | congruence | lia | tauto | (intuition congruence)
                         | (intuition (try congruence; try lia))
                         | (repeat split; eauto; try congruence; try lia)
                         | (left; repeat split; eauto; try congruence; try lia)
                         | (right; right; right; repeat split; eauto; try congruence; try lia) ].
Ltac solve_side ::= cbn; unf; rwk; rwx; cbn;
  first [ solve [repeat split; eauto; try congruence; try lia]
        | match goal with |- _ \/ _ => first [ solve [left; solve_side] | solve [right; solve_side] ] end
        | solve [timeout 10 fin] ].
Ltac wunf := unfold iterQ, wl_t, wl_iter, wm, pcw in *.

Section P.
Variable cap : nat.
Hypothesis cap_pos : 1 <= cap.
Notation guard := (Cli.guard cap).
Notation reachable := (Cli.reachable cap).
Notation inv := (CliP.inv cap).
Variable r : run guard eff.
Hypothesis F : fair_run cap r.
Hypothesis R0 : reachable (st r 0).
Hypothesis NS : forall i, stalled (st r i) = false \/ dead (st r i) = true.

Notation Inv_run := (CliL2.Inv_run cap cap_pos r R0 NS).
Notation "P ~> Q" := (leadsto r P Q) (at level 70).
Notation ensures := (lt_ensures guard eff r (Inv cap) Inv_run).
Notation ensures_s := (lt_ensures_s guard eff r (Inv cap) Inv_run).
Let Fwl : sfair g_wl r := proj1 (proj2 (proj2 (proj2 F))).
Let Fbody : sfair g_body r := proj2 (proj2 (proj2 (proj2 (proj2 (proj2 (proj2 F)))))).
Let Wwl := sfair_fair guard eff r g_wl Fwl.
Let Wbody := sfair_fair guard eff r g_body Fbody.
Notation rl_release := (CliL2.rl_release cap cap_pos r F R0 NS).

Notation cwrite_release := (CliL2.cwrite_release cap cap_pos r F R0 NS).
Notation done_stable := (CliL2.done_stable cap cap_pos r NS).
Let Fsd : sfair g_seldone r := proj1 (proj2 (proj2 (proj2 (proj2 (proj2 (proj2 F)))))).

Lemma bw_holder : forall s, inv1 s ->
  (bw s = BwRl -> cpc 1 s = Some CWrite) /\ (bw s = BwUc -> cpc 2 s = Some CWrite) /\
  ((exists h, wl s = LLockB h) -> bw s <> BwWl).
Proof.
  intros s I. pose proof (i_bw _ I) as H. unfold bw_of_state, cpc in *.
  repeat split.
  - intros E; rewrite E in H. destruct (wl s) as [| | |?|?| | | |[]| | |]; try discriminate;
      destruct (rl s) as [|?| |? ?|? ?| | |[]|]; try discriminate; auto;
      destruct (uc s) as [|[]|]; discriminate.
  - intros E; rewrite E in H. destruct (wl s) as [| | |?|?| | | |[]| | |]; try discriminate;
      destruct (rl s) as [|?| |? ?|? ?| | |[]|]; try discriminate;
      destruct (uc s) as [|[]|]; try discriminate; auto.
  - intros (h & E) Hb. rewrite E, Hb in H.
    destruct (rl s) as [|?| |? ?|? ?| | |[]|]; try discriminate;
      destruct (uc s) as [|[]|]; discriminate.
Qed.

Lemma it_LLockB : forall n,
  (fun s => (done s = true /\ exists h, wl s = LLockB h) /\ wm s = n) ~> iterQ n.
Proof.
  intros n. apply (ensures_s g_wl); auto.
  - apply (CliL3.llock_unless cap cap_pos r NS).
  - wunf; cens2.
  - intros i HP.
    assert (forall s, ((done s = true /\ exists h, wl s = LLockB h) /\ wm s = n) -> bw s = BwNone ->
              exists a, g_wl a /\ guard a s) as En.
    { intros s ((Hd & h & Hw) & Hn) Hb. exists LLock; cbn; eauto. }
    destruct (Inv_run i) as ((I1 & _) & _). destruct (bw_holder _ I1) as (B1 & B2 & B3).
    destruct (bw (st r i)) eqn:Eb.
    + exists i; split; auto.
    + exfalso. apply B3; auto. apply HP.
    + destruct (lt_unless guard eff r (Inv cap) Inv_run _ _ _ _
                  (CliL3.llock_unless cap cap_pos r NS n) (cwrite_release 1 ltac:(lia)) i)
        as (j & Hj & [Hq|(HP' & Hr)]); [split; auto | exists j; auto | exists j; split; auto].
    + destruct (lt_unless guard eff r (Inv cap) Inv_run _ _ _ _
                  (CliL3.llock_unless cap cap_pos r NS n) (cwrite_release 2 ltac:(lia)) i)
        as (j & Hj & [Hq|(HP' & Hr)]); [split; auto | exists j; auto | exists j; split; auto].
Qed.

Lemma wl_iter_step : forall n,
  (fun s => (done s = true /\ wl_iter s) /\ wm s = n) ~> iterQ n.
Proof.
  intros n i ((Hd & Hi) & Hn). unfold wl_iter in Hi.
  destruct (wl (st r i)) eqn:E; try contradiction.
  - apply (CliL2.it_LIter cap cap_pos r F R0 NS n); auto.
  - apply (CliL3.it_LAcq cap cap_pos r F R0 NS n); auto.
  - apply (it_LLockB n); eauto.
  - apply (CliL3.it_LWrite cap cap_pos r F R0 NS n); eauto.
  - apply (CliL3.it_LRefill cap cap_pos r F R0 NS n); auto.
  - apply (CliL3.it_LSelfOut cap cap_pos r F R0 NS n); auto.
Qed.

Lemma wl_iter_end : (fun s => done s = true /\ wl_iter s) ~> (fun s => wl s = LSel \/ wl_t s).
Proof.
  apply (lt_variant guard eff r _ _ wm). intros n i H.
  destruct (wl_iter_step n i H) as (j & Hj & Hq). exists j; split; auto.
  unfold iterQ in Hq. tauto.
Qed.

Definition wl_loop (s : state) : Prop := done s = true /\ (wl s = LSel \/ wl_iter s).

Lemma wl_loop_unless : forall s a, Inv cap s -> wl_loop s -> guard a s ->
  wl_loop (eff a s) \/ wl_t (eff a s).
Proof. unfold wl_loop; wunf; cens1. Qed.

Lemma wl_to_t : (fun s => done s = true) ~> wl_t.
Proof.
  assert (wl_loop ~> wl_t) as K.
  { apply (ensures_s g_seldone); auto.
    - apply wl_loop_unless.
    - unfold wl_loop; wunf; cens2.
    - intros i (Hd & [Hs|Hi]).
      + exists i; split; auto. right. exists LSelDone; cbn; auto.
      + destruct (lt_stable guard eff r (Inv cap) Inv_run _ _ _ wl_iter_end done_stable i)
          as (j & Hj & [Hs|Ht] & Hd'); [tauto| |].
        * exists j; split; auto. right. exists LSelDone; cbn; auto.
        * exists j; auto. }
  intros i Hd. destruct (wl (st r i)) eqn:E.
  1-7: apply K; split; auto; unfold wl_iter; rewrite E; auto.
  all: exists i; split; auto; unfold wl_t; rewrite E; auto.
Qed.
End P.
End CliL4.

Module CliL5.
Import Cli CliP CliP2 CliL CliL2 CliL3 CliL4.

Ltac easy_fin ::= solve [auto | congruence | lia | tauto | (intuition congruence)
                         | (intuition (try congruence; try lia))
                         | (repeat split; eauto; try congruence; try lia)
                         | (left; repeat split; eauto; try congruence; try lia)
                         | (right; right; right; repeat split; eauto; try congruence; try lia) ].
Ltac solve_side ::= cbn; unf; rwk; rwx; cbn;
  first [ solve [repeat split; eauto; try congruence; try lia]
        | match goal with |- _ \/ _ => first [ solve [left; solve_side] | solve [right; solve_side] ] end
        | solve [timeout 10 fin] ].
Ltac wunf := unfold iterQ, wl_t, wl_iter, wm, pcw in *.

Section P.
Variable cap : nat.
Hypothesis cap_pos : 1 <= cap.
Notation guard := (Cli.guard cap).
Notation reachable := (Cli.reachable cap).
Notation inv := (CliP.inv cap).
Variable r : run guard eff.
Hypothesis F : fair_run cap r.
Hypothesis R0 : reachable (st r 0).
Hypothesis NS : forall i, stalled (st r i) = false \/ dead (st r i) = true.

Notation Inv_run := (CliL2.Inv_run cap cap_pos r R0 NS).
Notation "P ~> Q" := (leadsto r P Q) (at level 70).
Notation ensures := (lt_ensures guard eff r (Inv cap) Inv_run).
Notation ensures_s := (lt_ensures_s guard eff r (Inv cap) Inv_run).
Let Fwl : sfair g_wl r := proj1 (proj2 (proj2 (proj2 F))).
Let Fbody : sfair g_body r := proj2 (proj2 (proj2 (proj2 (proj2 (proj2 (proj2 F)))))).
Let Wwl := sfair_fair guard eff r g_wl Fwl.
Let Wbody := sfair_fair guard eff r g_body Fbody.
Notation rl_release := (CliL2.rl_release cap cap_pos r F R0 NS).

Notation done_stable := (CliL2.done_stable cap cap_pos r NS).
Let Frl : sfair g_rl r := proj1 (proj2 (proj2 (proj2 (proj2 F)))).
Let Fuc : sfair g_uc r := proj1 (proj2 (proj2 (proj2 (proj2 (proj2 F))))).
Let Wrl := sfair_fair guard eff r g_rl Frl.
Let Wuc := sfair_fair guard eff r g_uc Fuc.
Lemma W_of : forall p, fair (g_of p) r.
Proof. intros [|[|p]]; cbn; auto. Qed.
Lemma S_of : forall p, sfair (g_of p) r.
Proof. intros [|[|p]]; cbn; auto. Qed.

(* -- (C) whoever won the CAS gets through Close: the socket is closed -- *)
Lemma lwrite_release : (fun s => exists h, wl s = LWrite h) ~> (fun s => bw s = BwNone).
Proof.
  apply (ensures g_wl); auto.
  - cens1.
  - cens2.
  - intros s (_ & _ & Hs) (h & Hw). destruct (dead s) eqn:E.
    + exists (LWriteFail false); cbn; eauto.
    + destruct Hs as [Hs|Hs]; [|congruence]. exists LWriteOk; cbn; eauto.
Qed.

Lemma clock_holder : forall s p, p < 3 -> CliP.inv cap s -> cpc p s = Some CLock ->
  bw s = BwNone \/ exists h, wl s = LWrite h.
Proof.
  intros s p Hp (I1 & I2 & _) Hc. pose proof (i_bw _ I1) as Hb. pose proof (i_mid1 _ I2) as Hm.
  unfold bw_of_state, midn, cpc in *.
  destruct p as [|[|[|p]]]; try lia.
  - destruct (wl s) as [| | |?|?| | | |[]| | |]; try discriminate.
    destruct (rl s) as [|?| |? ?|? ?| | |[]|]; cbn in *; try lia; auto;
      destruct (uc s) as [|[]|]; cbn in *; try lia; auto.
  - destruct (rl s) as [|?| |? ?|? ?| | |[]|]; try discriminate.
    destruct (wl s) as [| | |?|?| | | |[]| | |]; cbn in *; try lia; eauto;
      destruct (uc s) as [|[]|]; cbn in *; try lia; auto.
  - destruct (uc s) as [|[]|]; try discriminate.
    destruct (wl s) as [| | |?|?| | | |[]| | |]; cbn in *; try lia; eauto;
      destruct (rl s) as [|?| |? ?|? ?| | |[]|]; cbn in *; try lia; auto.
Qed.

Lemma clock_unless : forall p, p < 3 -> forall s a, Inv cap s ->
  cpc p s = Some CLock -> guard a s ->
  cpc p (eff a s) = Some CLock \/ cpc p (eff a s) = Some CWrite.
Proof. intros p Hp. destruct p as [|[|[|p]]]; try lia; cens1. Qed.

Lemma clock_step : forall p, p < 3 ->
  (fun s => cpc p s = Some CLock) ~> (fun s => cpc p s = Some CWrite).
Proof.
  intros p Hp. apply (ensures_s (g_of p)); [apply S_of | apply clock_unless; auto | | ].
  - destruct p as [|[|[|p]]]; try lia; cens2.
  - intros i HP.
    assert (forall s, cpc p s = Some CLock -> bw s = BwNone -> exists a, g_of p a /\ guard a s) as En.
    { intros s Hc Hb. exists (CLockB p). split; [destruct p as [|[|[|p]]]; try lia; cbn; auto|].
      cbn; auto. }
    destruct (Inv_run i) as (I & _). destruct (clock_holder _ p Hp I HP) as [Hb|Hw].
    + exists i; auto.
    + destruct (lt_unless guard eff r (Inv cap) Inv_run (fun s => cpc p s = Some CLock)
                  (fun s => cpc p s = Some CWrite) _ _ (clock_unless p Hp) lwrite_release i)
        as (j & Hj & [Hq|(HP' & Hr)]); [split; auto | exists j; auto | exists j; split; auto].
Qed.

Lemma cwrite_step : forall p, p < 3 ->
  (fun s => cpc p s = Some CWrite) ~> (fun s => sclosed s = true).
Proof.
  intros p Hp. apply (ensures (g_of p)); [apply W_of | | | ].
  - destruct p as [|[|[|p]]]; try lia; cens1.
  - destruct p as [|[|[|p]]]; try lia; cens2.
  - intros s (_ & _ & Hs) H. exists (CWriteRet p). split.
    + destruct p as [|[|[|p]]]; try lia; cbn; auto.
    + cbn; repeat split; auto; tauto.
Qed.

Lemma done_to_sclosed : (fun s => done s = true) ~> (fun s => sclosed s = true).
Proof.
  intros i Hd. destruct (Inv_run i) as (_ & I5 & _). destruct (i_fin _ I5 Hd) as [Hs|Hl].
  { exists i; auto. }
  assert (forall p, p < 3 -> is_late (cpc p (st r i)) = true ->
            exists j, i <= j /\ sclosed (st r j) = true) as K.
  { intros p Hp Hl'. destruct (cpc p (st r i)) as [[]|] eqn:E; try discriminate.
    - eapply (lt_trans _ _ _ _ _ _ (clock_step p Hp) (cwrite_step p Hp)); eauto.
    - eapply (cwrite_step p Hp); eauto. }
  apply orb_true_iff in Hl. destruct Hl as [Hl|Hl]; [apply orb_true_iff in Hl; destruct Hl as [Hl|Hl]|].
  - apply (K 0); auto.
  - apply (K 1); auto.
  - apply (K 2); auto.
Qed.
End P.
End CliL5.

Module CliL6.
Import Cli CliP CliP2 CliL CliL2 CliL3 CliL4 CliL5.

Ltac easy_fin ::= solve [auto | congruence | lia | tauto | (intuition congruence)
                         | (intuition (try congruence; try lia))
                         | (repeat split; eauto; try congruence; try lia)
                         | (left; repeat split; eauto; try congruence; try lia)
                         | (right; right; right; repeat split; eauto; try congruence; try lia) ].
Ltac solve_side ::= cbn; unf; rwk; rwx; cbn;
  first [ solve [repeat split; eauto; try congruence; try lia]
        | match goal with |- _ \/ _ => first [ solve [left; solve_side] | solve [right; solve_side] ] end
        | solve [timeout 10 fin] ].
Ltac stab := let s := fresh "s" in let a := fresh "a" in let I := fresh "I" in
  let H := fresh "H" in let G := fresh "G" in
  intros s a I H G; clear I; act_cases a; cbn in G; break; try lia; params; unf; rwk; cbn in *;
  try congruence; try solve [solve_side].
Ltac wunf := unfold iterQ, wl_t, wl_iter, wm, pcw in *.

Section P.
Variable cap : nat.
Hypothesis cap_pos : 1 <= cap.
Notation guard := (Cli.guard cap).
Notation reachable := (Cli.reachable cap).
Notation inv := (CliP.inv cap).
Variable r : run guard eff.
Hypothesis F : fair_run cap r.
Hypothesis R0 : reachable (st r 0).
Hypothesis NS : forall i, stalled (st r i) = false \/ dead (st r i) = true.

Notation Inv_run := (CliL2.Inv_run cap cap_pos r R0 NS).
Notation "P ~> Q" := (leadsto r P Q) (at level 70).
Notation ensures := (lt_ensures guard eff r (Inv cap) Inv_run).
Notation ensures_s := (lt_ensures_s guard eff r (Inv cap) Inv_run).
Let Fwl : sfair g_wl r := proj1 (proj2 (proj2 (proj2 F))).
Let Fbody : sfair g_body r := proj2 (proj2 (proj2 (proj2 (proj2 (proj2 (proj2 F)))))).
Let Wwl := sfair_fair guard eff r g_wl Fwl.
Let Wbody := sfair_fair guard eff r g_body Fbody.
Notation rl_release := (CliL2.rl_release cap cap_pos r F R0 NS).

Notation done_stable := (CliL2.done_stable cap cap_pos r NS).
Notation sclosed_stable := (CliL2.sclosed_stable cap cap_pos r NS).
Let Frl : sfair g_rl r := proj1 (proj2 (proj2 (proj2 (proj2 F)))).
Let Wrl := sfair_fair guard eff r g_rl Frl.

Lemma wl_t_stable : stable guard eff (Inv cap) wl_t.
Proof. wunf; stab. Qed.

(* -- (D) with the socket closed and the write loop in its teardown, the read loop ends -- *)
Definition rlr (p : rl_pc) : nat :=
  match p with
  | RDone => 0 | RClose CWrite => 1 | RClose CLock => 2 | RClose CDone => 3 | RClose CCas => 4
  | RExit => 5 | RRead => 6 | RIter false => 7 | ROut => 8 | RHold _ k => 9 + 2 * k
  | ROutL _ k => 10 + 2 * k | RAcq => 14 | RIter true => 15
  end.
Definition rm (s : state) : nat := (if rdy s then 20 else 0) + rlr (rl s).
Definition PD (s : state) : Prop := sclosed s = true /\ done s = true /\ wl_t s.

Lemma PD_stable : stable guard eff (Inv cap) PD.
Proof.
  intros s a I (H1 & H2 & H3) G. repeat split.
  - eapply sclosed_stable; eauto.
  - eapply done_stable; eauto.
  - eapply wl_t_stable; eauto.
Qed.

Lemma rl_step : forall n,
  (fun s => (PD s /\ rl s <> RDone) /\ rm s = n) ~> (fun s => PD s /\ rm s < n).
Proof.
  intros n. apply (ensures g_rl); auto.
  - intros s a I ((HP & Hr) & Hn) G. pose proof (PD_stable s a I HP G) as HP'.
    revert HP'. generalize (PD (eff a s)). intros PD' HP'. unfold PD, rm, rlr in *.
    clear I; act_cases a; cbn in G; break; try lia; params; unf; rwk; cbn in *; unf; xr;
      try congruence;
      first [ left; solve [solve_side] | right; solve [solve_side] | idtac ].
  - intros s a I ((HP & Hr) & Hn) Ga G. pose proof (PD_stable s a I HP G) as HP'.
    revert HP'. generalize (PD (eff a s)). intros PD' HP'. unfold PD, rm, rlr in *.
    clear I; act_cases a; cbn in Ga; try contradiction; try lia;
      cbn in G; break; try lia; params; unf; rwk; cbn in *; unf; xr; try congruence;
      try solve [solve_side].
  - intros s I (((Hs & Hd & Ht) & Hr) & Hn).
    destruct I as (I & _ & Hst). pose proof I as (I1 & I2 & _).
    assert (dead s = true) as Dd by (unfold dead; rewrite Hs; apply orb_true_r).
    destruct (rl s) eqn:E; try congruence.
    + exists RReadFail; cbn; auto.
    + exists (RIterEnd false); cbn; eauto.
    + assert (lx s = LxNone) as Hl.
      { pose proof (i_lx _ I1) as Hl. unfold rl_hold, wl_hold, wl_t in *. rewrite E in Hl.
        destruct (wl s); try contradiction; cbn in Hl; auto. }
      destruct (xdone s) eqn:Ex; [exists RAcqXFail | exists RAcqX]; cbn; auto.
    + exists (RHoldFinish false false); cbn; eauto.
    + exists ROutLDone; cbn; eauto.
    + exists ROutDone; cbn; eauto.
    + exists RDeferClose; cbn; auto.
    + destruct c.
      * exists (CCasLose 1); cbn; rewrite E; repeat split; auto. apply (i_done _ I2); auto.
      * exists (CCloseDone 1); cbn; rewrite E; auto.
      * exists (CLockB 1); cbn; rewrite E; repeat split; auto.
        destruct (clock_holder cap cap_pos s 1 ltac:(lia) I) as [Hb|(h & Hw)]; auto.
        { unfold cpc; rewrite E; auto. }
        unfold wl_t in Ht; rewrite Hw in Ht; contradiction.
      * exists (CWriteRet 1); cbn; rewrite E; repeat split; auto; try lia; tauto.
Qed.

Lemma rl_finishes : PD ~> (fun s => rl s = RDone).
Proof.
  apply (lt_variant guard eff r PD (fun s => rl s = RDone) rm). intros n i (HP & Hn).
  assert (rl (st r i) = RDone \/ rl (st r i) <> RDone) as [E|E]
    by (destruct (rl (st r i)); auto; right; congruence).
  - exists i; auto.
  - destruct (rl_step n i) as (j & Hj & HP' & Hlt); [|exists j; split; auto].
    repeat split; auto; apply HP.
Qed.
End P.
End CliL6.

Module CliL7.
Import Cli CliP CliP2 CliL CliL2 CliL3 CliL4 CliL5 CliL6.

Ltac easy_fin ::= solve [auto | congruence | lia | tauto | (intuition congruence)
                         | (intuition (try congruence; try lia))
                         | (repeat split; eauto; try congruence; try lia)
                         | (left; repeat split; eauto; try congruence; try lia)
                         | (right; right; right; repeat split; eauto; try congruence; try lia) ].
Ltac solve_side ::= cbn; unf; rwk; rwx; cbn;
  first [ solve [repeat split; eauto; try congruence; try lia]
        | match goal with |- _ \/ _ => first [ solve [left; solve_side] | solve [right; solve_side] ] end
        | solve [timeout 10 fin] ].
Ltac stab := let s := fresh "s" in let a := fresh "a" in let I := fresh "I" in
  let H := fresh "H" in let G := fresh "G" in
  intros s a I H G; clear I; act_cases a; cbn in G; break; try lia; params; unf; rwk; cbn in *;
  try congruence; try solve [solve_side].
Ltac wunf := unfold iterQ, wl_t, wl_iter, wm, pcw in *.

Section P.
Variable cap : nat.
Hypothesis cap_pos : 1 <= cap.
Notation guard := (Cli.guard cap).
Notation reachable := (Cli.reachable cap).
Notation inv := (CliP.inv cap).
Variable r : run guard eff.
Hypothesis F : fair_run cap r.
Hypothesis R0 : reachable (st r 0).
Hypothesis NS : forall i, stalled (st r i) = false \/ dead (st r i) = true.

Notation Inv_run := (CliL2.Inv_run cap cap_pos r R0 NS).
Notation "P ~> Q" := (leadsto r P Q) (at level 70).
Notation ensures := (lt_ensures guard eff r (Inv cap) Inv_run).
Notation ensures_s := (lt_ensures_s guard eff r (Inv cap) Inv_run).
Let Fwl : sfair g_wl r := proj1 (proj2 (proj2 (proj2 F))).
Let Fbody : sfair g_body r := proj2 (proj2 (proj2 (proj2 (proj2 (proj2 (proj2 F)))))).
Let Wwl := sfair_fair guard eff r g_wl Fwl.
Let Wbody := sfair_fair guard eff r g_body Fbody.
Notation rl_release := (CliL2.rl_release cap cap_pos r F R0 NS).

Notation done_stable := (CliL2.done_stable cap cap_pos r NS).
Notation closed_stable := (CliL2.closed_stable cap cap_pos r NS).
Notation wl_t_stable := (CliL6.wl_t_stable cap cap_pos r NS).

Lemma rl_done_stable : stable guard eff (Inv cap) (fun s => rl s = RDone).
Proof. stab. Qed.

(* -- (E) the write loop gets through its teardown and out of the drain loop -- *)
Definition PE (s : state) : Prop := closed s = true /\ done s = true /\ rl s = RDone /\ wl_t s.
Lemma PE_stable : stable guard eff (Inv cap) PE.
Proof.
  intros s a I (H1 & H2 & H3 & H4) G. repeat split.
  - eapply closed_stable; eauto.
  - eapply done_stable; eauto.
  - eapply rl_done_stable; eauto.
  - eapply wl_t_stable; eauto.
Qed.

Definition ws (p : wl_pc) : nat :=
  match p with
  | LT0 => 7 | LClose CCas => 6 | LClose CDone => 5 | LClose CLock => 4 | LClose CWrite => 3
  | LT2 => 2 | LT3 => 1 | _ => 0
  end.

Lemma wt_step : forall n,
  (fun s => (PE s /\ 2 <= ws (wl s)) /\ ws (wl s) = n) ~> (fun s => PE s /\ ws (wl s) < n).
Proof.
  intros n. apply (ensures g_wl); auto.
  - intros s a I ((HP & Hr) & Hn) G. pose proof (PE_stable s a I HP G) as HP'.
    revert HP'. generalize (PE (eff a s)). intros PE' HP'. unfold PE, ws in *.
    clear I; act_cases a; cbn in G; break; try lia; params; unf; rwk; cbn in *; unf; xr;
      try congruence; try lia;
      first [ left; solve [solve_side] | right; solve [solve_side] | idtac ].
  - intros s a I ((HP & Hr) & Hn) Ga G. pose proof (PE_stable s a I HP G) as HP'.
    revert HP'. generalize (PE (eff a s)). intros PE' HP'. unfold PE, ws in *.
    clear I; act_cases a; cbn in Ga; try contradiction; try lia;
      cbn in G; break; try lia; params; unf; rwk; cbn in *; unf; xr; try congruence; try lia;
      try solve [solve_side].
  - intros s I (((Hc & Hd & Hrl & Ht) & Hr) & Hn).
    destruct I as (I & _ & Hst). pose proof I as (I1 & I2 & _).
    destruct (wl s) eqn:E; cbn in Hr; try lia.
    + exists LSetErr; cbn; auto.
    + destruct c.
      * exists (CCasLose 0); cbn; rewrite E; repeat split; auto; lia.
      * exists (CCloseDone 0); cbn; rewrite E; repeat split; auto; lia.
      * exists (CLockB 0); cbn; rewrite E; repeat split; auto; try lia.
        destruct (clock_holder cap cap_pos s 0 ltac:(lia) I) as [Hb|(h & Hw)]; auto.
        { unfold cpc; rewrite E; auto. }
        congruence.
      * exists (CWriteRet 0); cbn; rewrite E; repeat split; auto; try lia; tauto.
    + exists LT2Take; cbn; auto.
Qed.

Lemma wt_to_drain : PE ~> (fun s => PE s /\ ws (wl s) <= 1).
Proof.
  apply (lt_variant guard eff r PE _ (fun s => ws (wl s))). intros n i (HP & Hn).
  destruct (le_lt_dec 2 (ws (wl (st r i)))) as [Hge|Hlt].
  - destruct (wt_step n i) as (j & Hj & HP' & Hl); [repeat split; auto; apply HP|].
    exists j; split; auto.
  - exists i; split; auto. left; split; auto; lia.
Qed.

Definition tx_active (p : tx_pc) : nat :=
  match p with TArmed | TRes | TDel | TTake | TOut => 2 | _ => 0 end.
Definition V (s : state) : nat :=
  inq s + outq s + xin s + 2 * ow s + (match xc s with KW1 => 2 | _ => 0 end) + tx_active (tx s).
Definition PE3 (s : state) : Prop := PE s /\ wl s = LT3.

Lemma drain_step : forall n,
  (fun s => PE3 s /\ V s = n) ~> (fun s => wl s = LDone \/ (PE3 s /\ V s < n)).
Proof.
  intros n. apply (ensures g_wl); auto.
  - intros s a I ((HP & Hw) & Hn) G. pose proof (PE_stable s a I HP G) as HP'.
    revert HP'. unfold PE3. generalize (PE (eff a s)). intros PE' HP'.
    destruct HP as (Hc & Hd & Hrl & _). unfold V, tx_active in *.
    assert (xc s = KW1 -> xloc s = XOut) by (destruct I as ((_ & _ & _ & I4) & _); apply I4).
    clear I; act_cases a; cbn in G; break; try lia; params; unf; rwk; fwd; rwx; cbn -[Nat.mul] in *;
      unf; xr; try congruence; try lia;
      first [ left; solve [solve_side] | right; solve [solve_side] | idtac ].
    all: try (destruct (tx s) eqn:?; cbn in *; first [ left; solve [solve_side] | right; solve [solve_side] ]).
    all: try (destruct (xloc s) eqn:?; cbn in *; first [ left; solve [solve_side] | right; solve [solve_side] ]).
    all: try (destruct (xsid s) eqn:?; cbn in *; first [ left; solve [solve_side] | right; solve [solve_side] ]).
  - intros s a I ((HP & Hw) & Hn) Ga G. pose proof (PE_stable s a I HP G) as HP'.
    revert HP'. unfold PE3. generalize (PE (eff a s)). intros PE' HP'.
    destruct HP as (Hc & Hd & Hrl & _). unfold V, tx_active in *.
    clear I; act_cases a; cbn in Ga; try contradiction; try lia;
      cbn in G; break; try lia; params; unf; rwk; rwx; cbn -[Nat.mul] in *; unf; xr;
      try congruence; try lia;
      first [ left; solve [solve_side] | right; solve [solve_side] | idtac ].
  - intros s I (((Hc & Hd & Hrl & Ht) & Hw) & Hn).
    destruct (Nat.eq_dec (inq s) 0) as [E1|E1]; [|exists LT3InO; cbn; repeat split; auto; lia].
    destruct (Nat.eq_dec (outq s) 0) as [E2|E2]; [|exists LT3Out; cbn; repeat split; auto; lia].
    destruct (xloc s) eqn:E3;
      try (exists LT3End; cbn; repeat split; auto; congruence).
    exists LT3InX; cbn; auto.
Qed.

Lemma drain_finishes : PE3 ~> (fun s => wl s = LDone).
Proof.
  apply (lt_variant guard eff r PE3 _ V). intros n i H.
  destruct (drain_step n i H) as (j & Hj & Hq). exists j; auto.
Qed.

Theorem wl_finishes : PE ~> (fun s => wl s = LDone).
Proof.
  intros i HP. destruct (wt_to_drain i HP) as (j & Hj & HP' & Hw).
  destruct (wl (st r j)) eqn:E; cbn in Hw; try lia;
    try (destruct HP' as (_ & _ & _ & Ht); unfold wl_t in Ht; rewrite E in Ht; contradiction).
  - destruct c; cbn in Hw; lia.
  - destruct (drain_finishes j) as (k & Hk & Hq); [split; auto|]. exists k; split; auto; lia.
  - exists j; auto.
Qed.
End P.
End CliL7.

Module CliL8.
Import Cli CliP CliP2 CliL CliL2 CliL3 CliL4 CliL5 CliL6 CliL7.

Ltac easy_fin ::= solve [auto | congruence | lia | tauto | (intuition congruence)
                         | (intuition (try congruence; try lia))
                         | (repeat split; eauto; try congruence; try lia)
                         | (left; repeat split; eauto; try congruence; try lia)
                         | (right; right; right; repeat split; eauto; try congruence; try lia) ].
Ltac solve_side ::= cbn; unf; rwk; rwx; cbn;
  first [ solve [repeat split; eauto; try congruence; try lia]
        | match goal with |- _ \/ _ => first [ solve [left; solve_side] | solve [right; solve_side] ] end
        | solve [timeout 10 fin] ].
Ltac stab := let s := fresh "s" in let a := fresh "a" in let I := fresh "I" in
  let H := fresh "H" in let G := fresh "G" in
  intros s a I H G; clear I; act_cases a; cbn in G; break; try lia; params; unf; rwk; cbn in *;
  try congruence; try solve [solve_side].
Ltac wunf := unfold iterQ, wl_t, wl_iter, wm, pcw in *.

Section P.
Variable cap : nat.
Hypothesis cap_pos : 1 <= cap.
Notation guard := (Cli.guard cap).
Notation reachable := (Cli.reachable cap).
Notation inv := (CliP.inv cap).
Variable r : run guard eff.
Hypothesis F : fair_run cap r.
Hypothesis R0 : reachable (st r 0).
Hypothesis NS : forall i, stalled (st r i) = false \/ dead (st r i) = true.

Notation Inv_run := (CliL2.Inv_run cap cap_pos r R0 NS).
Notation "P ~> Q" := (leadsto r P Q) (at level 70).
Notation ensures := (lt_ensures guard eff r (Inv cap) Inv_run).
Notation ensures_s := (lt_ensures_s guard eff r (Inv cap) Inv_run).
Let Fwl : sfair g_wl r := proj1 (proj2 (proj2 (proj2 F))).
Let Fbody : sfair g_body r := proj2 (proj2 (proj2 (proj2 (proj2 (proj2 (proj2 F)))))).
Let Wwl := sfair_fair guard eff r g_wl Fwl.
Let Wbody := sfair_fair guard eff r g_body Fbody.
Notation rl_release := (CliL2.rl_release cap cap_pos r F R0 NS).

Notation done_stable := (CliL2.done_stable cap cap_pos r NS).
Notation closed_stable := (CliL2.closed_stable cap cap_pos r NS).
Notation sclosed_stable := (CliL2.sclosed_stable cap cap_pos r NS).
Notation wl_t_stable := (CliL6.wl_t_stable cap cap_pos r NS).
Notation rl_done_stable := (CliL7.rl_done_stable cap cap_pos r NS).
Notation srun := (stable_run guard eff r (Inv cap) Inv_run).
Let Fx : sfair g_x r := proj1 F.
Let Wx := sfair_fair guard eff r g_x Fx.

Lemma wl_done_stable : stable guard eff (Inv cap) (fun s => wl s = LDone).
Proof. stab. Qed.

(* -- after Close has been entered, by anyone, both loops exit -- *)
Theorem both_loops_exit :
  (fun s => closed s = true) ~> (fun s => loops_exited s /\ done s = true).
Proof.
  intros i Hc.
  destruct (CliL2.closed_to_done cap cap_pos r F R0 NS i Hc) as (j1 & L1 & Hd).
  destruct (CliL4.wl_to_t cap cap_pos r F R0 NS j1 Hd) as (j2 & L2 & Ht).
  pose proof (srun _ done_stable j1 j2 L2 Hd) as Hd2.
  destruct (CliL5.done_to_sclosed cap cap_pos r F R0 NS j2 Hd2) as (j3 & L3 & Hs).
  pose proof (srun _ done_stable j2 j3 L3 Hd2) as Hd3.
  pose proof (srun _ wl_t_stable j2 j3 L3 Ht) as Ht3.
  destruct (CliL6.rl_finishes cap cap_pos r F R0 NS j3) as (j4 & L4 & Hr); [repeat split; auto|].
  pose proof (srun _ done_stable j3 j4 L4 Hd3) as Hd4.
  pose proof (srun _ wl_t_stable j3 j4 L4 Ht3) as Ht4.
  assert (closed (st r j4) = true) as Hc4.
  { apply (srun _ closed_stable i j4); auto; lia. }
  destruct (CliL7.wl_finishes cap cap_pos r F R0 NS j4) as (j5 & L5 & Hw); [repeat split; auto|].
  exists j5. split; [lia|]. repeat split; auto.
  - apply (srun _ rl_done_stable j4 j5); auto.
  - apply (srun _ done_stable j4 j5); auto.
Qed.

(* -- and X's caller gets its delivery, unless the write loop's own Close returned while c.done
      was still open (finding F4) -- *)
Definition LE (s : state) : Prop := wl s = LDone /\ rl s = RDone /\ done s = true.
Lemma LE_stable : stable guard eff (Inv cap) LE.
Proof.
  intros s a I (H1 & H2 & H3) G; split; [eapply wl_done_stable | split; [eapply rl_done_stable | eapply done_stable]]; eauto.
Qed.

Lemma kerr_resolved : forall s, Inv cap s -> wl s = LDone -> xc s = KErr ->
  raced s = true \/ xerr s = true.
Proof.
  intros s ((_ & _ & _ & I4) & _) Hw Hx. destruct I4.
  destruct (xloc s) eqn:E.
  - right; auto.
  - auto.
  - rewrite Hw in *; cbn in *. destruct i_drained0; auto; congruence.
  - rewrite Hw in *; cbn in *. destruct i_drained0; auto; congruence.
  - right. apply i_gone0; auto. rewrite Hx; auto.
Qed.

Lemma xW1 : (fun s => LE s /\ xc s = KW1) ~> (fun s => LE s /\ (xc s = KW2 \/ xc s = KSelf)).
Proof.
  apply (ensures g_x); auto.
  - intros s a I (HP & Hx) G. pose proof (LE_stable s a I HP G) as HP'.
    revert HP'. generalize (LE (eff a s)). intros LE' HP'. destruct HP as (Hw & Hrl & Hd).
    clear I; act_cases a; cbn in G; break; try lia; params; unf; rwk; cbn in *; unf; xr;
      try congruence; first [ left; solve [solve_side] | right; solve [solve_side] | idtac ].
  - intros s a I (HP & Hx) Ga G. pose proof (LE_stable s a I HP G) as HP'.
    revert HP'. generalize (LE (eff a s)). intros LE' HP'. destruct HP as (Hw & Hrl & Hd).
    clear I; act_cases a; cbn in Ga; try contradiction; cbn in G; break; try lia; params; unf; rwk;
      cbn in *; unf; xr; try congruence; try solve [solve_side].
  - intros s I ((Hw & Hrl & Hd) & Hx). exists KSeeDone; cbn; auto.
Qed.

Ltac xob1 :=
  let s := fresh "s" in let a := fresh "a" in let I := fresh "I" in let HP := fresh "HP" in
  let Hx := fresh "Hx" in let G := fresh "G" in let HP' := fresh "HP'" in let LE' := fresh "LE'" in
  intros s a I (HP & Hx) G; pose proof (LE_stable s a I HP G) as HP';
  revert HP'; generalize (LE (eff a s)); intros LE' HP'; destruct HP as (? & ? & ?);
  clear I; act_cases a; cbn in G; break; try lia; params; unf; rwk; cbn in *; unf; xr;
  try congruence; first [ left; solve [solve_side] | right; solve [solve_side] | idtac ].
Ltac xob2 :=
  let s := fresh "s" in let a := fresh "a" in let I := fresh "I" in let HP := fresh "HP" in
  let Hx := fresh "Hx" in let G := fresh "G" in let Ga := fresh "Ga" in
  let HP' := fresh "HP'" in let LE' := fresh "LE'" in
  intros s a I (HP & Hx) Ga G; pose proof (LE_stable s a I HP G) as HP';
  revert HP'; generalize (LE (eff a s)); intros LE' HP'; destruct HP as (? & ? & ?);
  clear I; act_cases a; cbn in Ga; try contradiction; cbn in G; break; try lia; params; unf; rwk;
  cbn in *; unf; xr; try congruence; try solve [solve_side].

Lemma xW2 : (fun s => LE s /\ xc s = KW2) ~> (fun s => LE s /\ xc s = KLck).
Proof.
  apply (ensures g_x); auto; [xob1 | xob2 | ].
  intros s I ((Hw & Hrl & Hd) & Hx). exists KCheckDone; cbn; auto.
Qed.
Lemma xLck : (fun s => LE s /\ xc s = KLck) ~> (fun s => LE s /\ xc s = KErr).
Proof.
  apply (ensures g_x); auto; [xob1 | xob2 | ].
  intros s ((I1 & _ & _ & _) & _ & _) ((Hw & Hrl & Hd) & Hx). exists KLockChk; cbn; repeat split; auto.
  pose proof (i_lx _ I1) as Hl. unfold wl_hold, rl_hold in Hl. rewrite Hw, Hrl in Hl. auto.
Qed.
Lemma xSelf : (fun s => LE s /\ xc s = KSelf) ~> (fun s => LE s /\ xc s = KErr).
Proof.
  apply (ensures g_x); auto; [xob1 | xob2 | ].
  intros s I ((Hw & Hrl & Hd) & Hx). exists KResolve; cbn; auto.
Qed.
Lemma xErr : (fun s => LE s /\ (xc s = KErr /\ xerr s = true)) ~> delivered.
Proof.
  unfold delivered. apply (ensures g_x); auto; [xob1 | xob2 | ].
  intros s I ((Hw & Hrl & Hd) & Hx & He). exists KRecv; cbn; auto.
Qed.

Theorem x_delivered : LE ~> (fun s => delivered s \/ raced s = true).
Proof.
  assert ((fun s => LE s /\ xc s = KErr) ~> (fun s => delivered s \/ raced s = true)) as K1.
  { intros i (HL & Hx). destruct (kerr_resolved _ (Inv_run i) (proj1 HL) Hx) as [Hr|He].
    - exists i; auto.
    - destruct (xErr i) as (j & Hj & Hd); [repeat split; auto; apply HL|]. exists j; auto. }
  assert ((fun s => LE s /\ xc s = KSelf) ~> (fun s => delivered s \/ raced s = true)) as K2
    by (eapply lt_trans; [apply xSelf | apply K1]).
  assert ((fun s => LE s /\ xc s = KLck) ~> (fun s => delivered s \/ raced s = true)) as K2'
    by (eapply lt_trans; [apply xLck | apply K1]).
  assert ((fun s => LE s /\ xc s = KW2) ~> (fun s => delivered s \/ raced s = true)) as K3
    by (eapply lt_trans; [apply xW2 | apply K2']).
  intros i HL. destruct (xc (st r i)) eqn:E.
  - destruct (xW1 i (conj HL E)) as (j & Hj & HL' & [E'|E']).
    + destruct (K3 j (conj HL' E')) as (k & Hk & Hq). exists k; split; auto; lia.
    + destruct (K2 j (conj HL' E')) as (k & Hk & Hq). exists k; split; auto; lia.
  - apply K3; auto.
  - apply K2'; auto.
  - apply K2; auto.
  - apply K1; auto.
  - exists i; split; auto. left; left; auto.
  - exists i; split; auto. left; right; auto.
Qed.

(* S3, liveness: once Close has been entered -- by Client.Close, or by a loop that saw the
   connection die -- both loops exit and X's caller receives from ctx.Err, unless the write
   loop's own Close returned while c.done was still open. *)
Theorem no_stranding :
  (fun s => closed s = true) ~>
  (fun s => loops_exited s /\ (delivered s \/ raced s = true)).
Proof.
  intros i Hc. destruct (both_loops_exit i Hc) as (j & Hj & (Hw & Hr) & Hd).
  destruct (x_delivered j (conj Hw (conj Hr Hd))) as (k & Hk & Hq).
  exists k; split; [lia|]. split; auto. split.
  - apply (srun _ wl_done_stable j k); auto.
  - apply (srun _ rl_done_stable j k); auto.
Qed.
End P.
End CliL8.

(* ---------------------------------------------------------------------------------------- *)
(** * The statements of Props/Teardown.v                                                      *)
(* ---------------------------------------------------------------------------------------- *)
Module Final.

Section Server.
Import Srv.
Variable cap : nat.
Hypothesis cap_pos : 1 <= cap.
Notation guard := (Srv.guard cap).
Notation reachable := (Srv.reachable cap).
Definition srv_step (a : act) : Prop := is_env a = false.
Definition srv_no_refill (a : act) : Prop := refills a = false.

Theorem S1_rank : forall s a, refills a = false -> guard a s -> rank (eff a s) < rank s.
Proof using All. intros; apply (SrvP.rank_decreases cap); auto. Qed.

Theorem S1_bounded : forall s l s',
  path guard eff srv_no_refill s l s' -> length l + rank s' <= rank s.
Proof using All. intros; eapply SrvP1.bounded_paths; eauto. Qed.

Theorem S1_progress : forall s, reachable s -> dead s = true ->
  quiet s \/ exists a, srv_step a /\ guard a s.
Proof using All. intros; eapply SrvP1.progress_dead; eauto using SrvP.reachable_inv. Qed.

Theorem S1_can_finish : forall s, reachable s -> dead s = true ->
  exists l s', path guard eff srv_step s l s' /\ quiet s' /\ length l <= rank s.
Proof using All. intros; eapply SrvP1.can_finish; eauto. Qed.

Theorem S1_must_finish : forall s l s', reachable s -> dead s = true ->
  path guard eff srv_step s l s' -> (forall a, srv_step a -> ~ guard a s') -> quiet s'.
Proof using All. intros; eapply SrvP1.must_finish; eauto. Qed.

Theorem S1_exited_stay : forall s a, loops_exited s -> guard a s -> loops_exited (eff a s).
Proof using All. intros; eapply SrvP1.loops_exited_stable; eauto. Qed.

Theorem S1_exited_never_parks : forall s, reachable s -> loops_exited s ->
  (0 < h_send s -> guard HStop s) /\ (pg s = PWrite -> guard (PWr ViaStop) s) /\
  (0 < Srv.i_wr s -> guard (IWr ViaStop) s).
Proof using All. intros; eapply SrvP1.exited_never_parks; eauto using SrvP.reachable_inv. Qed.

Theorem S1_example : exists s,
  reachable s /\ dead s = true /\ sv s = RWrite false /\ sl s = SBody /\ wr s = 1 /\ h_run s = 1 /\
  ~ quiet s.
Proof using All. exists (SrvEx.s1_state). apply SrvEx.s1_example; auto. Qed.

Section Runs.
Variable r : run guard eff.
Hypothesis F : fair_run cap r.
Hypothesis R0 : reachable (st r 0).

Theorem S2_stream_goroutine_finishes : leadsto r sl_exited (fun s => sl s = SDone).
Proof using All. eapply SrvP2.sl_finishes; eauto. Qed.

Theorem S2_unpark_forward :
  leadsto r (fun s => sl_exited s /\ sv s = RFwd) (fun s => sv s <> RFwd).
Proof using All. eapply SrvP2.unpark_forward; eauto. Qed.

Theorem S2_unpark_write :
  leadsto r (fun s => sl_exited s /\ exists b, sv s = RWrite b) (fun s => forall b, sv s <> RWrite b).
Proof using All. eapply SrvP2.unpark_write; eauto. Qed.

Theorem S2_serve_returns :
  leadsto r (fun s => sl_exited s /\ sv_leaving cap s) loops_exited.
Proof using All. eapply SrvP2.serve_returns; eauto. Qed.

Theorem S2_dead_returns :
  leadsto r (fun s => sl_exited s /\ dead s = true) loops_exited.
Proof using All. eapply SrvP2.dead_returns; eauto. Qed.
End Runs.

Theorem S2_example : exists s,
  reachable s /\ sl_exited s /\ sv_leaving cap s /\ sv s = RWrite true /\ wr s = 1 /\
  stalled s = true.
Proof using All. exists SrvEx.s2_state. apply SrvEx.s2_example; auto. Qed.

Theorem S2_silent_peer_never_returns :
  exists r : run guard eff,
    fair_run cap r /\ reachable (st r 0) /\ sl_exited (st r 0) /\
    forall i, sv (st r i) = RRead /\ wl (st r i) = WSock true /\ sv (st r i) <> VEnd.
Proof using All. apply SrvEx.silent_peer_never_returns; auto. Qed.

Theorem S2_silent_state : exists s,
  reachable s /\ sv s = RRead /\ sl s = SDone /\ wl s = WSock true /\ stalled s = true /\
  gone s = false /\ sclosed s = false /\
  forall a, guard a s -> (exists b, a = EPeerSend b) \/ a = EPeerClose \/ (exists b, a = EReqTimer b).
Proof using All.
  exists SrvEx.silent_state. split; [apply SrvEx.silent_reachable; auto|].
  pose proof SrvEx.silent_shape as (H1 & H2 & H3 & H4 & H5 & H6).
  repeat split; auto. apply SrvEx.silent_only_peer; auto.
Qed.

Theorem F_ping_timer_survives : exists s,
  reachable s /\ quiet s /\ pg s = PArmed /\
  guard EPingFire s /\ guard (PWr ViaStop) (eff EPingFire s) /\
  guard PRearm (eff (PWr ViaStop) (eff EPingFire s)) /\
  eff PRearm (eff (PWr ViaStop) (eff EPingFire s)) = s.
Proof using All.
  exists SrvEx.ping_state.
  pose proof SrvEx.ping_timer_survives as H. specialize (H cap). try specialize (H cap_pos).
  cbn [guards run_acts] in H. destruct H as (H1 & H2 & H3 & H4 & (G1 & G2 & G3 & _) & H6).
  split; [exact H1 | split; [exact H2 | split; [exact H3 | split; [exact G1 | split; [exact G2 | split; [exact G3 | exact H6]]]]]].
Qed.
End Server.

Theorem S2_example_reader_full : exists s,
  Srv.reachable 1 s /\ Srv.sl_exited s /\ Srv.sv_leaving 1 s /\ Srv.sv s = Srv.RFwd /\
  Srv.rd s = 1 /\ Srv.stalled s = true.
Proof. exists SrvEx.s2b_state. apply SrvEx.s2b_example. Qed.

Section Client.
Import Cli.
Variable cap : nat.
Hypothesis cap_pos : 1 <= cap.
Notation guard := (Cli.guard cap).
Notation reachable := (Cli.reachable cap).
Definition only_env (s : state) : Prop := forall a, guard a s -> is_env a = true.

Theorem S3_lock_order : forall a o i, In (o, i) (nest a) -> mrank o < mrank i.
Proof. exact CliP2.lock_order. Qed.

Theorem S3_ordered : forall s, reachable s -> ordered (wants s) (holds s).
Proof using All. intros; eapply CliP2.ordered_reachable; eauto. Qed.

Theorem S3_no_wait_cycle : forall s, reachable s -> ~ wait_cycle (wants s) (holds s).
Proof using All. intros; eapply CliP2.no_wait_cycle; eauto. Qed.

Theorem S3_no_self_wait : forall s p m, reachable s -> wants s p = Some m -> ~ holds s p m.
Proof using All. intros; eapply CliP2.no_self_wait; eauto. Qed.

Section Runs.
Variable r : run guard eff.
Hypothesis F : fair_run cap r.
Hypothesis R0 : reachable (st r 0).
Hypothesis NS : forall i, stalled (st r i) = false \/ dead (st r i) = true.

Theorem S3_both_loops_exit :
  leadsto r (fun s => closed s = true) (fun s => loops_exited s /\ done s = true).
Proof using All. eapply CliL8.both_loops_exit; eauto. Qed.

Theorem S3_no_stranding :
  leadsto r (fun s => closed s = true)
    (fun s => loops_exited s /\ (delivered s \/ raced s = true)).
Proof using All. eapply CliL8.no_stranding; eauto. Qed.
End Runs.

Theorem S3_example : exists s,
  reachable s /\ closed s = true /\ done s = false /\ stalled s = false /\
  wl s = LWrite HX /\ rl s = RHold HO 2 /\ uc s = UClose CDone /\
  xc s = KErr /\ xloc s = XTab /\ xerr s = false.
Proof using All. exists CliEx.s3_state. apply CliEx.s3_example; auto. Qed.

Theorem F1_close_behind_stuck_write : exists s,
  reachable s /\ only_env s /\
  wl s = LWrite HX /\ uc s = UClose CLock /\ done s = true /\
  sclosed s = false /\ xc s = KErr /\ xerr s = false.
Proof using All. exists CliEx.f1_state. apply CliEx.close_behind_stuck_write; auto. Qed.

Theorem F1b_roundtrip_stuck_in_takeback : exists s,
  reachable s /\ only_env s /\
  xc s = KTb /\ lx s = LxWl /\ wl s = LWrite HX /\ tx s = TDone.
Proof using All. exists CliEx.f1b_state. apply CliEx.roundtrip_stuck_in_takeback; auto. Qed.

Theorem F2_write_parked_past_timeout : exists s,
  reachable s /\ only_env s /\
  xc s = KW1 /\ xerr s = true /\ tx s = TDone /\ done s = false /\
  wl s = LWrite HO /\ inq s = cap.
Proof using All. exists (CliEx.f2_state cap). apply CliEx.write_parked_past_timeout; auto. Qed.

Theorem F4_stranded_by_close_race : exists s,
  reachable s /\ loops_exited s /\ done s = true /\
  xc s = KErr /\ xloc s = XIn /\ xerr s = false /\ tx s = TOff /\ raced s = true /\
  (forall a, guard a s -> a = EPeerStall \/ a = ETick \/ a = EUserClose).
Proof using All. exists CliEx.f4_state. apply CliEx.stranded_by_close_race; auto. Qed.

Theorem F5_out_full_lock_cycle : exists s,
  reachable s /\ only_env s /\
  stalled s = false /\ gone s = false /\ done s = false /\
  wl s = LAcq /\ rl s = ROutL HX 1 /\ lx s = LxRl /\ outq s = cap /\
  xc s = KErr /\ xerr s = false.
Proof using All. exists (CliEx.f5_state cap). apply CliEx.out_full_lock_cycle; auto. Qed.
End Client.
End Final.
