(* Proofs/TeardownProofs.v -- the statements of Props/Teardown.v, collected from the pieces:
     TeardownGen                        generic lemmas (wait cycles, leads-to, traces)
     TeardownSrvInv, SrvS1, SrvS2, SrvEx   server: invariants and rank, S1, S2, examples and finding
     TeardownCliInv, CliInv1..5, CliLocks  client: invariants, lock order (S3)
     TeardownCliEx                      client: findings and example
     TeardownCliLive1..7                client: liveness under fairness (S3), trigger closed
     TeardownCliGone0..5                client: the same with the trigger "the peer is gone"
   The pieces are independent where they can be, so that they build in parallel. *)
From Coq Require Import Arith Lia Bool List.
From RecordUpdate Require Import RecordSet.
Import RecordSetNotations.
Import ListNotations.
From H2V Require Import Impl.Teardown Proofs.TeardownGen Proofs.TeardownSrvInv Proofs.TeardownSrvS1 Proofs.TeardownSrvS2 Proofs.TeardownSrvEx Proofs.TeardownCliInv Proofs.TeardownCliInv1 Proofs.TeardownCliInv2 Proofs.TeardownCliInv3 Proofs.TeardownCliInv4 Proofs.TeardownCliInv5 Proofs.TeardownCliLocks Proofs.TeardownCliEx Proofs.TeardownCliLive1 Proofs.TeardownCliLive2a Proofs.TeardownCliLive2b Proofs.TeardownCliLive2c Proofs.TeardownCliLive2d Proofs.TeardownCliLive3 Proofs.TeardownCliLive4 Proofs.TeardownCliLive5 Proofs.TeardownCliLive6 Proofs.TeardownCliLive7 Proofs.TeardownCliGone0 Proofs.TeardownCliGone1 Proofs.TeardownCliGone2 Proofs.TeardownCliGone3 Proofs.TeardownCliGone4 Proofs.TeardownCliGone5.

(* ---------------------------------------------------------------------------------------- *)
(** * The statements of Props/Teardown.v                                                      *)
(* ---------------------------------------------------------------------------------------- *)
Module Final.

Theorem ordered_no_wait_cycle :
  forall (Proc : Type) (wants : Proc -> option nat) (holds : Proc -> nat -> Prop),
    ordered wants holds -> ~ wait_cycle wants holds.
Proof. intros Proc w h. apply ordered_no_wait_cycle. Qed.

Section Server.
Import Srv.
Variable cap : nat.
Hypothesis cap_pos : 1 <= cap.
Notation guard := (Srv.guard cap).
Notation reachable := (Srv.reachable cap).
Definition srv_step (a : act) : Prop := is_env a = false.
Definition srv_no_refill (a : act) : Prop := refills a = false.

Theorem S1_rank : forall s a, refills a = false -> guard a s -> rank (eff a s) < rank s.
Proof using All. intros; apply (SrvP.rank_decreases cap); auto. Qed.

Theorem S1_bounded : forall s l s',
  path guard eff srv_no_refill s l s' -> length l + rank s' <= rank s.
Proof using All. intros; eapply SrvP1.bounded_paths; eauto. Qed.

Theorem S1_progress : forall s, reachable s -> dead s = true ->
  quiet s \/ exists a, srv_step a /\ guard a s.
Proof using All. intros; eapply SrvP1.progress_dead; eauto using SrvP.reachable_inv. Qed.

Theorem S1_can_finish : forall s, reachable s -> dead s = true ->
  exists l s', path guard eff srv_step s l s' /\ quiet s' /\ length l <= rank s.
Proof using All. intros; eapply SrvP1.can_finish; eauto. Qed.

Theorem S1_must_finish : forall s l s', reachable s -> dead s = true ->
  path guard eff srv_step s l s' -> (forall a, srv_step a -> ~ guard a s') -> quiet s'.
Proof using All. intros; eapply SrvP1.must_finish; eauto. Qed.

Theorem S1_exited_stay : forall s a, loops_exited s -> guard a s -> loops_exited (eff a s).
Proof using All. intros; eapply SrvP1.loops_exited_stable; eauto. Qed.

Theorem S1_exited_never_parks : forall s, reachable s -> loops_exited s ->
  (0 < h_send s -> guard HStop s) /\ (pg s = PWrite -> guard (PWr ViaStop) s) /\
  (0 < Srv.i_wr s -> guard (IWr ViaStop) s).
Proof using All. intros; eapply SrvP1.exited_never_parks; eauto using SrvP.reachable_inv. Qed.

Theorem S1_example : exists s,
  reachable s /\ dead s = true /\ sv s = RWrite false /\ sl s = SBody /\ wr s = 1 /\ h_run s = 1 /\
  ~ quiet s.
Proof using All. exists (SrvEx.s1_state). apply SrvEx.s1_example; auto. Qed.

Section Runs.
Variable r : run guard eff.
Hypothesis F : fair_run cap r.
Hypothesis R0 : reachable (st r 0).

Theorem S2_stream_goroutine_finishes : leadsto r sl_exited (fun s => sl s = SDone).
Proof using All. eapply SrvP2.sl_finishes; eauto. Qed.

Theorem S2_unpark_forward :
  leadsto r (fun s => sl_exited s /\ sv s = RFwd) (fun s => sv s <> RFwd).
Proof using All. eapply SrvP2.unpark_forward; eauto. Qed.

Theorem S2_unpark_write :
  leadsto r (fun s => sl_exited s /\ exists b, sv s = RWrite b) (fun s => forall b, sv s <> RWrite b).
Proof using All. eapply SrvP2.unpark_write; eauto. Qed.

Theorem S2_serve_returns :
  leadsto r (fun s => sl_exited s /\ sv_leaving cap s) loops_exited.
Proof using All. eapply SrvP2.serve_returns; eauto. Qed.

Theorem S2_dead_returns :
  leadsto r (fun s => sl_exited s /\ dead s = true) loops_exited.
Proof using All. eapply SrvP2.dead_returns; eauto. Qed.
End Runs.

Theorem S2_example : exists s,
  reachable s /\ sl_exited s /\ sv_leaving cap s /\ sv s = RWrite true /\ wr s = 1 /\
  stalled s = true.
Proof using All. exists SrvEx.s2_state. apply SrvEx.s2_example; auto. Qed.

Theorem S2_silent_peer_never_returns :
  exists r : run guard eff,
    fair_run cap r /\ reachable (st r 0) /\ sl_exited (st r 0) /\
    forall i, sv (st r i) = RRead /\ wl (st r i) = WSock true /\ sv (st r i) <> VEnd.
Proof using All. apply SrvEx.silent_peer_never_returns; auto. Qed.

Theorem S2_silent_state : exists s,
  reachable s /\ sv s = RRead /\ sl s = SDone /\ wl s = WSock true /\ stalled s = true /\
  gone s = false /\ sclosed s = false /\
  forall a, guard a s -> (exists b, a = EPeerSend b) \/ a = EPeerClose \/ (exists b, a = EReqTimer b).
Proof using All.
  exists SrvEx.silent_state. split; [apply SrvEx.silent_reachable; auto|].
  pose proof SrvEx.silent_shape as (H1 & H2 & H3 & H4 & H5 & H6).
  repeat split; auto. apply SrvEx.silent_only_peer; auto.
Qed.

Theorem S1_ping_winds_down : forall s a, wstop s = true -> guard a s ->
  wstop (eff a s) = true /\
  pg_pot (pg (eff a s)) <= pg_pot (pg s) /\
  (pg_act a = true -> pg_pot (pg (eff a s)) < pg_pot (pg s)).
Proof using All.
  intros s a W G. split; [apply SrvP1.wstop_stable; auto|]. eapply SrvP1.ping_winds_down; eauto.
Qed.

Theorem S1_ping_bounded : forall s l s', wstop s = true ->
  path guard eff (fun _ => True) s l s' -> count_pg l + pg_pot (pg s') <= pg_pot (pg s).
Proof using All. intros; eapply SrvP1.ping_bounded_after_close; eauto. Qed.
End Server.

Theorem S2_example_reader_full : exists s,
  Srv.reachable 1 s /\ Srv.sl_exited s /\ Srv.sv_leaving 1 s /\ Srv.sv s = Srv.RFwd /\
  Srv.rd s = 1 /\ Srv.stalled s = true.
Proof. exists SrvEx.s2b_state. apply SrvEx.s2b_example. Qed.

Section Client.
Import Cli.
Variable cap : nat.
Hypothesis cap_pos : 1 <= cap.
Notation guard := (Cli.guard cap).
Notation reachable := (Cli.reachable cap).
Definition only_env (s : state) : Prop := forall a, guard a s -> is_env a = true.

Theorem S3_lock_order : forall a o i, In (o, i) (nest a) -> mrank o < mrank i.
Proof. exact CliP2.lock_order. Qed.

Theorem S3_ordered : forall s, reachable s -> ordered (wants s) (holds s).
Proof using All. intros; eapply CliP2.ordered_reachable; eauto. Qed.

Theorem S3_no_wait_cycle : forall s, reachable s -> ~ wait_cycle (wants s) (holds s).
Proof using All. intros; eapply CliP2.no_wait_cycle; eauto. Qed.

Theorem S3_no_self_wait : forall s p m, reachable s -> wants s p = Some m -> ~ holds s p m.
Proof using All. intros; eapply CliP2.no_self_wait; eauto. Qed.

Section Runs.
Variable r : run guard eff.
Hypothesis F : fair_run cap r.
Hypothesis R0 : reachable (st r 0).
Hypothesis NS : forall i, stalled (st r i) = false \/ dead (st r i) = true.

Theorem S3_both_loops_exit :
  leadsto r (fun s => closed s = true) (fun s => loops_exited s /\ done s = true).
Proof using All. eapply CliL8.both_loops_exit; eauto. Qed.

Theorem S3_no_stranding :
  leadsto r (fun s => closed s = true)
    (fun s => loops_exited s /\ (delivered s \/ raced s = true)).
Proof using All. eapply CliL8.no_stranding; eauto. Qed.

Theorem S3_gone_closes :
  leadsto r (fun s => gone s = true) (fun s => closed s = true).
Proof using All. eapply CliL11.gone_closes; eauto. Qed.

Theorem S3_gone_no_stranding :
  leadsto r (fun s => gone s = true)
    (fun s => loops_exited s /\ (delivered s \/ raced s = true)).
Proof using All. eapply CliL11.gone_no_stranding; eauto. Qed.
End Runs.

Theorem S3_example : exists s,
  reachable s /\ closed s = true /\ done s = false /\ stalled s = false /\
  wl s = LWrite HX /\ rl s = RHold HO /\ uc s = UClose CDone /\
  xc s = KErr /\ xloc s = XTab /\ xerr s = false.
Proof using All. exists CliEx.s3_state. apply CliEx.s3_example; auto. Qed.

Theorem F1_close_behind_stuck_write : exists s,
  reachable s /\ only_env s /\
  wl s = LWrite HX /\ uc s = UClose CLock /\ done s = true /\
  sclosed s = false /\ xc s = KErr /\ xerr s = false.
Proof using All. exists CliEx.f1_state. apply CliEx.close_behind_stuck_write; auto. Qed.

Theorem F1b_roundtrip_stuck_in_takeback : exists s,
  reachable s /\ only_env s /\
  xc s = KTb /\ lx s = LxWl /\ wl s = LWrite HX /\ tx s = TDone.
Proof using All. exists CliEx.f1b_state. apply CliEx.roundtrip_stuck_in_takeback; auto. Qed.

Theorem F2_write_parked_past_timeout : exists s,
  reachable s /\ only_env s /\
  xc s = KW1 /\ xerr s = true /\ tx s = TDone /\ done s = false /\
  wl s = LWrite HO /\ inq s = cap.
Proof using All. exists (CliEx.f2_state cap). apply CliEx.write_parked_past_timeout; auto. Qed.

Theorem F4_stranded_by_close_race : exists s,
  reachable s /\ loops_exited s /\ done s = true /\
  xc s = KErr /\ xloc s = XIn /\ xerr s = false /\ tx s = TOff /\ raced s = true /\
  (forall a, guard a s -> a = EPeerStall \/ a = ETick \/ a = EUserClose).
Proof using All. exists CliEx.f4_state. apply CliEx.stranded_by_close_race; auto. Qed.

Theorem S3_write_loop_never_sends_on_out : forall s a,
  g_wl a -> guard a s -> outq (eff a s) <= outq s.
Proof using All. intros; eapply CliP2.write_loop_never_sends_on_out; eauto. Qed.

Theorem S3_out_parks_hold_nothing : forall s p m,
  reachable s -> parked_on_out s p -> ~ holds s p m.
Proof using All. intros; eapply CliP2.out_parks_hold_nothing; eauto. Qed.

End Client.
End Final.
