(* Proofs/SrvMsgReq.v - C20: a whole request through the read loop and the stream loop, in lockstep. *)
From H2V Require Import Base.Bytes Base.MachineInt Base.Result Gen.GenConsts Impl.ServerConn Spec.Http2Messages
     Proofs.SrvBase Proofs.SrvMsgDefs Proofs.SrvMsgPure Proofs.SrvMsgLoop Proofs.SrvMsgStream Proofs.SrvMsgPhase.
From Coq Require Import ZArith Lia ZifyN ZifyNat ZifyBool.
Local Open Scope N_scope.

Section Feed.
Variable hstate : Type.
Variable dec_field : hstate -> N -> bytes -> dec_res hstate.
Variable enc_field : hstate -> bytes -> bytes -> bool -> bytes * hstate.
Variable enc_set_max : hstate -> N -> hstate.
Variable cfg : config.
Notation sconn := (sconn hstate).
Notation step := (step dec_field enc_field enc_set_max cfg).
Notation sl_frame := (sl_frame dec_field enc_set_max cfg).
Notation run_from := (run_from dec_field enc_field enc_set_max cfg).
Implicit Types c : sconn.

(* the peer sends a frame: the read loop takes it, then the stream loop *)
Definition feed c (fr : sframe) : sconn := step (step c (EvRL (RFrame fr))) EvSL.
Definition feeds c (frs : list sframe) : sconn := fold_left feed frs c.

Lemma run_from_lockstep frs : forall c, run_from c (lockstep frs) = feeds c frs.
Proof.
  induction frs as [|f t IH]; intro c; [reflexivity|].
  unfold lockstep. cbn [flat_map app]. rewrite !run_from_cons. apply IH.
Qed.

Lemma feeds_app c a b : feeds c (a ++ b) = feeds (feeds c a) b.
Proof. apply fold_left_app. Qed.
Lemma feeds_cons c f t : feeds c (f :: t) = feeds (feed c f) t.
Proof. reflexivity. Qed.

Lemma upd_expectCont_same c : upd_expectCont c (sc_expectCont c) = c.
Proof. destruct c; reflexivity. Qed.
Lemma upd_readerQ_same c : upd_readerQ c (sc_readerQ c) = c.
Proof. destruct c; reflexivity. Qed.

(* the read loop lets the frames of a request through *)
Lemma feed_blk c sid (iscont es eh : bool) frag :
  N.land sid 1 = 1 -> sc_rl_done c = false -> sc_sl_done c = false -> sc_readerQ c = [] ->
  sc_expectCont c = (if iscont then sid else 0) ->
  feed c (blk_frame iscont sid es eh frag) =
  fst (sl_frame (upd_expectCont c (if eh then 0 else sid)) (blk_frame iscont sid es eh frag)).
Proof.
  intros O Rl Sl Q E. assert (NZ : sid <> 0) by (intro; subst; discriminate).
  unfold feed. rewrite step_EvRL, Rl.
  assert (X : rl_step cfg c (RFrame (blk_frame iscont sid es eh frag)) =
              upd_readerQ (upd_expectCont c (if eh then 0 else sid)) [blk_frame iscont sid es eh frag]).
  { unfold rl_step, blk_frame. rewrite E.
    destruct iscont; cbn [sf_kind sf_sid sf_flags cont_frame headers_frame fkind_eqb negb andb orb].
    - replace (sid =? 0) with false by lia. rewrite N.eqb_refl, fl_has_eh. cbn [negb orb].
      unfold check_frame_with_stream. cbn [sf_sid sf_kind cont_frame headers_frame data_frame]. rewrite O. cbn [N.eqb Pos.eqb].
      unfold forward. destruct eh; sc_cbn; rewrite Sl, Q.
      + reflexivity.
      + replace (upd_expectCont c sid) with c; [reflexivity | rewrite <- E; symmetry; apply upd_expectCont_same].
    - cbn [N.eqb negb]. rewrite fl_has_eh. replace (sid =? 0) with false by lia. cbn [negb].
      unfold check_frame_with_stream. cbn [sf_sid sf_kind cont_frame headers_frame data_frame]. rewrite O. cbn [N.eqb Pos.eqb].
      unfold forward. destruct eh; cbn [negb]; sc_cbn; rewrite Sl, Q.
      + replace (upd_expectCont c 0) with c; [reflexivity | rewrite <- E; symmetry; apply upd_expectCont_same].
      + reflexivity. }
  rewrite X, step_EvSL. sc_cbn. rewrite Sl. f_equal. f_equal.
  rewrite <- Q. destruct c; reflexivity.
Qed.

Lemma feed_data c sid es dt :
  N.land sid 1 = 1 -> sc_rl_done c = false -> sc_sl_done c = false -> sc_readerQ c = [] -> sc_expectCont c = 0 ->
  feed c (data_frame sid es dt) = fst (sl_frame c (data_frame sid es dt)).
Proof.
  intros O Rl Sl Q E. assert (NZ : sid <> 0) by (intro; subst; discriminate).
  unfold feed. rewrite step_EvRL, Rl.
  assert (X : rl_step cfg c (RFrame (data_frame sid es dt)) = upd_readerQ c [data_frame sid es dt]).
  { unfold rl_step. rewrite E. cbn [sf_kind sf_sid sf_flags data_frame fkind_eqb negb andb orb N.eqb].
    replace (sid =? 0) with false by lia. cbn [negb].
    unfold check_frame_with_stream. cbn [sf_sid sf_kind cont_frame headers_frame data_frame]. rewrite O. cbn [N.eqb Pos.eqb].
    unfold forward. rewrite Sl, Q. reflexivity. }
  rewrite X, step_EvSL. sc_cbn. rewrite Sl. f_equal. f_equal. rewrite <- Q. destruct c; reflexivity.
Qed.

(* ---------- once the stream loop has ended no handler starts ---------- *)
Definition nd (o : outev) : Prop := forall s rq, o <> ODispatch s rq.
Definition ext c c' : Prop := sc_sl_done c' = sc_sl_done c /\ exists l, sc_out c' = l ++ sc_out c /\ Forall nd l.

Lemma ext_refl c : ext c c.
Proof. split; [reflexivity|]. exists []. split; [reflexivity | constructor]. Qed.
Lemma ext_trans a b c : ext a b -> ext b c -> ext a c.
Proof.
  intros [S1 (l1 & E1 & F1)] [S2 (l2 & E2 & F2)]. split; [congruence|].
  exists (l2 ++ l1). split; [rewrite E2, E1, app_assoc; reflexivity | apply Forall_app; auto].
Qed.
Lemma ext_same c c' : sc_sl_done c' = sc_sl_done c -> sc_out c' = sc_out c -> ext c c'.
Proof. intros S O. split; [assumption|]. exists []. split; [assumption | constructor]. Qed.
Lemma ext_emit c o : nd o -> nd (OLate o) -> ext c (emit c o).
Proof.
  intros N1 N2. split; [apply sc_sl_done_emit|]. rewrite sc_out_emit.
  destruct (sc_wl_dead c); [exists []; split; [reflexivity | constructor]|].
  destruct (sc_sl_done c); [exists [OLate o] | exists [o]]; (split; [reflexivity | repeat constructor; assumption]).
Qed.
Lemma ext_note c o : nd o -> ext c (note c o).
Proof. intro N1. split; [reflexivity|]. exists [o]. split; [reflexivity | repeat constructor; assumption]. Qed.
Lemma ext_goaway c x code : ext c (write_goaway c x code).
Proof.
  rewrite write_goaway_eq. eapply ext_trans; [|apply ext_emit; intros s rq; discriminate].
  apply ext_same; reflexivity.
Qed.
Lemma ext_rl_exit c why : ext c (rl_exit c why).
Proof. unfold rl_exit. eapply ext_trans; [|apply ext_note; intros s rq; discriminate]. apply ext_same; reflexivity. Qed.
Lemma ext_write_error_none c e : ext c (fst (write_error c None e)).
Proof. rewrite write_error_fst. destruct e; try apply ext_goaway. apply ext_refl. Qed.

Lemma ext_rl_step c i : ext c (rl_step cfg c i).
Proof.
  assert (G : forall c x code why, ext c (rl_exit (write_goaway c x code) why))
    by (intros; eapply ext_trans; [apply ext_goaway | apply ext_rl_exit]).
  assert (F : forall c fr, ext c (forward c fr)).
  { intros c1 fr. unfold forward. destruct (sc_sl_done c1); [apply ext_rl_exit | apply ext_same; reflexivity]. }
  assert (U : forall c x, ext c (upd_expectCont c x)) by (intros; apply ext_same; reflexivity).
  unfold rl_step. destruct i as [fr| |[code|]|]; try apply ext_rl_exit; try apply G.
  2:{ destruct (negb (sc_expectCont c =? 0)); [apply G | apply ext_refl]. }
  set (r := if negb (sc_expectCont c =? 0) then _ else _).
  assert (Hr : match r with inl c' => ext c c' | inr c1 => ext c c1 end).
  { unfold r. destruct (negb (sc_expectCont c =? 0)).
    - destruct (_ || _)%bool; [apply G|]. destruct (flag_has _ _); [apply U | apply ext_refl].
    - destruct (fkind_eqb (sf_kind fr) KCont); [apply G|]. destruct (_ && _)%bool; [apply U | apply ext_refl]. }
  destruct r as [c'|c1]; [exact Hr|].
  destruct (negb (sf_sid fr =? 0)).
  - destruct (check_frame_with_stream fr).
    + eapply ext_trans; [exact Hr|]. eapply ext_trans; [apply ext_write_error_none | apply ext_rl_exit].
    + eapply ext_trans; [exact Hr | apply F].
  - destruct (sf_kind fr); try (eapply ext_trans; [exact Hr | apply G]).
    + destruct (negb _); [eapply ext_trans; [exact Hr | apply F] | exact Hr].
    + destruct (negb _); [|exact Hr]. eapply ext_trans; [exact Hr|]. apply ext_emit; intros s rq; discriminate.
    + eapply ext_trans; [exact Hr | apply ext_rl_exit].
    + destruct (sf_inc fr =? 0); [eapply ext_trans; [exact Hr | apply G] | eapply ext_trans; [exact Hr | apply F]].
Qed.

Lemma ext_feed_gone c fr : sc_sl_done c = true -> ext c (feed c fr).
Proof.
  intro S. unfold feed. set (c1 := step c (EvRL (RFrame fr))).
  assert (E : ext c c1).
  { unfold c1. rewrite step_EvRL. destruct (sc_rl_done c); [apply ext_refl | apply ext_rl_step]. }
  rewrite step_EvSL. destruct E as [S1 E]. rewrite S1, S. split; [exact S1 | exact E].
Qed.

End Feed.

Arguments feed {hstate}. Arguments feeds {hstate}.

Section Req.
Variable hstate : Type.
Variable dec_field : hstate -> N -> bytes -> dec_res hstate.
Variable enc_field : hstate -> bytes -> bytes -> bool -> bytes * hstate.
Variable enc_set_max : hstate -> N -> hstate.
Variable cfg : config.
Notation sconn := (sconn hstate).
Notation sl_frame := (sl_frame dec_field enc_set_max cfg).
Notation tail := (tail dec_field cfg).
Notation feed := (feed dec_field enc_field enc_set_max cfg).
Notation feeds := (feeds dec_field enc_field enc_set_max cfg).
Notation frag_dec := (frag_dec dec_field).
Notation block_dec := (block_dec dec_field).
Implicit Types c : sconn.

Variable c0 : sconn.
Variable sid : N.
Hypothesis R0 : ready cfg c0 sid.
Let R : ready_sl cfg c0 sid := proj1 R0.

Notation holds := (holds cfg c0 sid).
Notation alive := (alive c0 sid).
Notation alive_core := (alive_core c0 sid).
Notation dead := (dead c0 sid).
Notation gone := (gone c0 sid).
Notation base := (base c0 sid).
Notation phase := (phase hstate).
Let win := sc_initWin c0.
Let t0 := sc_now c0.

Lemma odd : N.land sid 1 = 1.
Proof. apply (rd_odd _ _ _ _ R). Qed.
Lemma NZ : sid <> 0.
Proof. pose proof odd. intro; subst; discriminate. Qed.

(* the read loop's register is its own business *)
Lemma base_ec c ec ec' : base c ec -> base (upd_expectCont c ec') ec'.
Proof. intros []. constructor; sc_cbn; assumption || reflexivity. Qed.

Lemma alive_ec c ec ec' s d : alive c ec s d -> alive (upd_expectCont c ec') ec' s d.
Proof.
  intros [[] DI]. split; [|exact DI]. constructor; sc_cbn; try assumption. eapply base_ec; eassumption.
Qed.
Lemma dead_ec c ec ec' code d : dead c ec code d -> dead (upd_expectCont c ec') ec' code d.
Proof. intros []. constructor; sc_cbn; try assumption. eapply base_ec; eassumption. Qed.

Lemma holds_ec c ec ec' ph : holds c ec ph -> holds (upd_expectCont c ec') ec' ph.
Proof.
  destruct ph; cbn [SrvMsgPhase.holds].
  - intros (A & B). split; [apply (alive_ec _ ec); exact A | exact B].
  - intros (A & B). split; [apply (alive_ec _ ec); exact A | exact B].
  - intros (B & A). split; [eapply base_ec; eassumption | exact A].
  - intros (D & A). split; [apply (dead_ec _ ec); exact D | exact A].
  - apply dead_ec.
  - intros H; exact H.
Qed.

Lemma holds_gone_any c ec ec' : holds c ec PhGone -> holds c ec' PhGone.
Proof. intro H; exact H. Qed.

Lemma gone_feed c ec ec' fr : holds c ec PhGone -> holds (feed c fr) ec' PhGone.
Proof.
  cbn [SrvMsgPhase.holds]. intros [S (l & E & F)].
  destruct (ext_feed_gone _ dec_field enc_field enc_set_max cfg c fr S) as [S1 (l1 & E1 & F1)].
  split; [rewrite S1; exact S|]. exists (l1 ++ l). split; [rewrite E1, E, app_assoc; reflexivity|].
  apply Forall_app. split; [|exact F]. eapply Forall_impl; [|exact F1]. intros o Ho rq. apply Ho.
Qed.

Lemma gone_feeds frs : forall c ec, holds c ec PhGone -> holds (feeds c frs) 0 PhGone.
Proof.
  induction frs as [|f t IH]; intros c ec H; [exact H|]. rewrite feeds_cons. apply (IH _ 0). apply (gone_feed c ec 0). exact H.
Qed.

(* ---------- one frame of a header block ---------- *)
Definition carry_over (carry : bytes) : bool := list_over cfg (Z.of_N (len carry)).

(* the block is complete and every field was accepted *)
Definition blk_end (state' : sstate) (st' : vst) (size' : Z) (n' : N) (rq' : request) (recv : Z) (d' : hstate) : phase :=
  if v_valid st' then
    match state' with
    | SHalfClosed => if cl_okZ st' recv then PhDisp st' size' n' rq' recv d' else PhDead c_ProtocolError d'
    | _ => PhBody st' size' n' rq' recv d'
    end
  else PhDead c_ProtocolError d'.

Definition rej_ph (eh : bool) (d' : hstate) (n' : N) (carry : bytes) (ph : phase) : Prop :=
  ph = PhGone \/ exists code, ph = if eh then PhDead code d' else PhDeadBlock code carry n' d'.

Lemma blk_step c ec state h recv d (iscont es eh : bool) frag fs d' n' carry :
  alive c ec (S_of sid win t0 state h recv) d -> shape iscont es state h ->
  frag_dec eh d (if iscont then hd_blockFields h else 0) (hd_prev h ++ frag) fs d' n' carry ->
  list_over cfg (hd_headerListSize h) = false ->
  let c' := fst (tail c (S_of sid win t0 state h recv) (blk_frame iscont sid es eh frag) false) in
  let size' := (hd_headerListSize h + fsize fs)%Z in
  let rq' := req_fold (hd_req h) fs in
  if list_over cfg size' then exists ph, rej_ph eh d' n' carry ph /\ holds c' ec ph
  else match vrun cfg (v_start h) fs with
       | inl code => holds c' ec (if eh then PhDead code d' else if carry_over carry then PhGone else PhDeadBlock code carry n' d')
       | inr st' =>
         holds c' ec (if eh then blk_end (next_state iscont es state) st' size' n' rq' recv d'
                      else if carry_over carry then PhGone
                      else PhBlock (next_state iscont es state) st' size' n' carry rq' recv d')
       end.
Proof.
  intros AL SH Hdec H0 c' size' rq'.
  set (n0 := if iscont then hd_blockFields h else 0) in *.
  destruct (list_over cfg size') eqn:OV.
  - (* over the header-list limit: some field is refused *)
    destruct (fields_loop_over cfg fs (start_hdr h n0) H0 OV) as [e F].
    pose proof (blk_err _ dec_field enc_field enc_set_max cfg c0 sid R0 c ec state h recv d iscont es eh frag fs d' n' carry e AL SH Hdec F) as B.
    cbv zeta in B. fold c' in B.
    destruct (fields_loop_inl_kind cfg fs _ e F) as [-> | [code ->]].
    + exists PhGone. split; [left; reflexivity | apply B; discriminate].
    + destruct eh.
      * exists (PhDead code d'). split; [right; exists code; reflexivity | exact B].
      * destruct (list_over cfg (Z.of_N (len carry))).
        -- exists PhGone. split; [left; reflexivity | exact B].
        -- exists (PhDeadBlock code carry n' d'). split; [right; exists code; reflexivity | exact B].
  - destruct (vrun cfg (v_start h) fs) as [code|st'] eqn:V.
    + pose proof (fields_loop_inl cfg fs (start_hdr h n0) code OV V) as F.
      exact (blk_err _ dec_field enc_field enc_set_max cfg c0 sid R0 c ec state h recv d iscont es eh frag fs d' n' carry _ AL SH Hdec F).
    + exact (blk_ok _ dec_field enc_field enc_set_max cfg c0 sid R0 c ec state h recv d iscont es eh frag fs d' n' carry st' AL SH Hdec OV V).
Qed.

(* ---------- the frames of a request, one at a time, through both loops ---------- *)
Lemma lo0 : list_over cfg 0 = false.
Proof. unfold list_over. lia. Qed.

Lemma bo0 : body_over cfg 0 = false.
Proof. unfold body_over. lia. Qed.

Lemma ready_sl_ec c x : ready_sl cfg c sid -> ready_sl cfg (upd_expectCont c x) sid.
Proof. intros []. constructor; sc_cbn; assumption. Qed.

Definition blk_result (state' : sstate) (st : vst) (size : Z) (rq : request) (recv : Z) (eh : bool)
           (fs : list field) (d' : hstate) (n' : N) (carry : bytes) (c' : sconn) (ec' : N) : Prop :=
  let size' := (size + fsize fs)%Z in
  let rq' := req_fold rq fs in
  if list_over cfg size' then exists ph, rej_ph eh d' n' carry ph /\ holds c' ec' ph
  else match vrun cfg st fs with
       | inl code => holds c' ec' (if eh then PhDead code d' else if carry_over carry then PhGone else PhDeadBlock code carry n' d')
       | inr st' =>
         holds c' ec' (if eh then blk_end state' st' size' n' rq' recv d'
                       else if carry_over carry then PhGone else PhBlock state' st' size' n' carry rq' recv d')
       end.

Lemma step_first (es eh : bool) frag fs d' n' carry :
  frag_dec eh (sc_dec c0) 0 frag fs d' n' carry ->
  blk_result (if es then SHalfClosed else SOpen) v0 0 empty_req 0 eh fs d' n' carry
             (feed c0 (headers_frame sid es eh frag)) (if eh then 0 else sid).
Proof.
  intro Hdec. pose proof R0 as (Rs & Rl & Q & E). pose proof Rs as Rs'.
  destruct Rs' as [Hodd Hfresh Hlast Htab Hring Hold Hdisc Hquiet Hslot Hclosing Hsl Hwl].
  pose proof (feed_blk _ dec_field enc_field enc_set_max cfg c0 sid false es eh frag odd Rl Hsl Q E) as F.
  cbn [blk_frame] in F. rewrite F. set (ec' := if eh then 0 else sid). set (cx := upd_expectCont c0 ec').
  rewrite (sl_frame_fresh _ dec_field enc_field enc_set_max cfg cx sid es eh frag (ready_sl_ec c0 ec' Rs)).
  set (s := S_of sid (sc_initWin cx) (sc_now cx) SIdle h_init 0).
  set (c3 := upd_open (upd_strms (upd_lastID (upd_highestID cx sid) sid) (sc_strms cx ++ [s])) (sc_open cx + 1)).
  assert (AL : alive c3 ec' (S_of sid win t0 SIdle h_init 0) (sc_dec c0)).
  { split; [|unfold c3, cx; sc_cbn; assumption].
    constructor; unfold c3, cx; sc_cbn; try reflexivity.
    - constructor; sc_cbn; try assumption; reflexivity.
    - exists []. split; [reflexivity | constructor]. }
  pose proof (blk_step c3 ec' SIdle h_init 0 (sc_dec c0) false es eh frag fs d' n' carry AL
                       (or_introl (conj eq_refl (conj eq_refl eq_refl))) Hdec lo0) as B.
  cbv zeta in B. unfold blk_result. cbv zeta.
  change (hd_headerListSize h_init) with 0%Z in B. change (v_start h_init) with v0 in B.
  change (hd_req h_init) with empty_req in B. change (next_state false es SIdle) with (if es then SHalfClosed else SOpen) in B.
  exact B.
Qed.

(* a frame for the stream while it is in the table *)
Lemma feed_own c ec s d (iscont es eh : bool) frag :
  alive c ec s d -> st_id s = sid -> st_orig s = KHeaders -> ec = (if iscont then sid else 0) ->
  feed c (blk_frame iscont sid es eh frag) =
  fst (tail (upd_expectCont c (if eh then 0 else sid)) s (blk_frame iscont sid es eh frag) false) /\
  alive (upd_expectCont c (if eh then 0 else sid)) (if eh then 0 else sid) s d.
Proof.
  intros AL I O Ec. pose proof AL as [[Hb Hst Hd Hr Ho Hop Hout] DI]. pose proof Hb as B. destruct B as [Bc Bsl Brl Bwl Bq Bec Bl Bh Bg Be Bi Bcw Bcr Bcl Bn].
  assert (AL' := alive_ec c ec (if eh then 0 else sid) s d AL). split; [|exact AL'].
  rewrite (feed_blk _ dec_field enc_field enc_set_max cfg c sid iscont es eh frag odd Brl Bsl Bq) by congruence.
  set (cx := upd_expectCont c (if eh then 0 else sid)).
  rewrite (sl_frame_own _ dec_field enc_set_max cfg cx sid (sc_strms c0) s (blk_frame iscont sid es eh frag)).
  - unfold cx. sc_cbn. rewrite Bc. reflexivity.
  - unfold blk_frame. destruct iscont; reflexivity.
  - exact NZ.
  - unfold cx. sc_cbn. assumption.
  - apply (rd_table _ _ _ _ R).
  - assumption.
  - assumption.
  - unfold cx. sc_cbn. lia.
  - apply (rd_quiet _ _ _ _ R).
  - intros _. unfold cx. sc_cbn. assumption.
Qed.

Lemma step_cont c state st size nf carry0 rq recv d (eh : bool) frag fs d' n' carry :
  holds c sid (PhBlock state st size nf carry0 rq recv d) ->
  frag_dec eh d nf (carry0 ++ frag) fs d' n' carry ->
  blk_result state st size rq recv eh fs d' n' carry (feed c (cont_frame sid eh frag)) (if eh then 0 else sid).
Proof.
  cbn [SrvMsgPhase.holds]. intros (AL & ST & LS) Hdec.
  destruct (feed_own c sid _ d true false eh frag AL eq_refl eq_refl eq_refl) as [F AL'].
  cbn [blk_frame] in F. rewrite F.
  assert (SH : shape true false state (H_of false carry0 st size nf rq)) by (right; left; auto).
  pose proof (blk_step _ _ state (H_of false carry0 st size nf rq) recv d true false eh frag fs d' n' carry AL' SH Hdec LS) as B.
  cbv zeta in B. unfold blk_result. cbv zeta.
  rewrite (v_start_first (H_of false carry0 st size nf rq) eq_refl), vabs_H_of in B.
  exact B.
Qed.

Lemma step_trailers c st size nf rq recv d (eh : bool) frag fs d' n' carry :
  holds c 0 (PhBody st size nf rq recv d) ->
  frag_dec eh d 0 frag fs d' n' carry ->
  blk_result SHalfClosed (v_setr st) size rq recv eh fs d' n' carry (feed c (headers_frame sid true eh frag)) (if eh then 0 else sid).
Proof.
  cbn [SrvMsgPhase.holds]. intros (AL & V & LS) Hdec.
  destruct (feed_own c 0 _ d false true eh frag AL eq_refl eq_refl eq_refl) as [F AL'].
  cbn [blk_frame] in F. rewrite F.
  assert (SH : shape false true SOpen (H_of true [] st size nf rq)) by (right; right; auto).
  pose proof (blk_step _ _ SOpen (H_of true [] st size nf rq) recv d false true eh frag fs d' n' carry AL' SH Hdec LS) as B.
  cbv zeta in B. unfold blk_result. cbv zeta.
  rewrite (v_start_trailers (H_of true [] st size nf rq) eq_refl), vabs_H_of in B.
  exact B.
Qed.

Lemma step_data c st size nf rq recv d es dt :
  holds c 0 (PhBody st size nf rq recv d) ->
  let recv' := (recv + Z.of_N (len dt))%Z in
  let rq' := rq_append_body rq dt in
  holds (feed c (data_frame sid es dt)) 0
    (if body_over cfg recv' then PhDead c_EnhanceYourCalm d
     else if es then (if cl_okZ st recv' then PhDisp st size nf rq' recv' d else PhDead c_ProtocolError d)
     else PhBody st size nf rq' recv' d).
Proof.
  intros H recv' rq'. pose proof H as (AL & V & LS). pose proof AL as [[Hb Hst Hd Hr Ho Hop Hout] DI]. pose proof Hb as B. destruct B as [Bc Bsl Brl Bwl Bq Bec Bl Bh Bg Be Bi Bcw Bcr Bcl Bn].
  rewrite (feed_data _ dec_field enc_field enc_set_max cfg c sid es dt odd Brl Bsl Bq Bec).
  rewrite (sl_frame_own _ dec_field enc_set_max cfg c sid (sc_strms c0) _ (data_frame sid es dt) eq_refl NZ Hst
                        (rd_table _ _ _ _ R) eq_refl eq_refl ltac:(lia) (rd_quiet _ _ _ _ R) ltac:(discriminate)).
  rewrite Bc.
  exact (data_step _ dec_field enc_field enc_set_max cfg c0 sid R0 c 0 st size nf rq recv d es dt H).
Qed.

(* ... and once it has been reset *)
Lemma step_dead_data c code d es dt :
  holds c 0 (PhDead code d) -> holds (feed c (data_frame sid es dt)) 0 (PhDead code d).
Proof.
  intro H. pose proof H as D. cbn [SrvMsgPhase.holds] in D. destruct D as [Db Dst Dr Dd Dop Dout]. destruct Db as [Bc Bsl Brl Bwl Bq Bec Bl Bh Bg Be Bi Bcw Bcr Bcl Bn].
  rewrite (feed_data _ dec_field enc_field enc_set_max cfg c sid es dt odd Brl Bsl Bq Bec).
  exact (dead_data_step _ dec_field enc_field enc_set_max cfg c0 sid R0 c 0 code d es dt H).
Qed.

Definition dead_result (code : N) (eh : bool) (d' : hstate) (n' : N) (carry : bytes) (c' : sconn) (ec' : N) : Prop :=
  holds c' ec' (if eh then PhDead code d' else if carry_over carry then PhGone else PhDeadBlock code carry n' d').

Lemma step_dead_headers c code d (es eh : bool) frag fs d' n' carry :
  holds c 0 (PhDead code d) ->
  frag_dec eh d 0 frag fs d' n' carry ->
  dead_result code eh d' n' carry (feed c (headers_frame sid es eh frag)) (if eh then 0 else sid).
Proof.
  cbn [SrvMsgPhase.holds]. intros D Hdec. pose proof D as D'. destruct D' as [Db Dst Dr Dd Dop Dout]. destruct Db as [Bc Bsl Brl Bwl Bq Bec Bl Bh Bg Be Bi Bcw Bcr Bcl Bn].
  pose proof (feed_blk _ dec_field enc_field enc_set_max cfg c sid false es eh frag odd Brl Bsl Bq Bec) as F.
  cbn [blk_frame] in F. unfold dead_result. rewrite F. set (cx := upd_expectCont c (if eh then 0 else sid)).
  assert (DX : dead cx (if eh then 0 else sid) code d) by (apply (dead_ec c 0); exact D).
  rewrite (sl_frame_dead_headers _ dec_field enc_field enc_set_max cfg cx sid es eh frag NZ).
  - exact (dead_frag _ dec_field cfg c0 sid cx _ code d false es eh frag fs d' n' carry DX ltac:(discriminate) Hdec).
  - unfold cx. sc_cbn. rewrite Dst. apply (rd_table _ _ _ _ R).
  - destruct DX as [_ _ X _ _ _]. exact X.
Qed.

Lemma step_dead_cont c code carry0 nf d (eh : bool) frag fs d' n' carry :
  holds c sid (PhDeadBlock code carry0 nf d) ->
  frag_dec eh d nf (carry0 ++ frag) fs d' n' carry ->
  dead_result code eh d' n' carry (feed c (cont_frame sid eh frag)) (if eh then 0 else sid).
Proof.
  cbn [SrvMsgPhase.holds]. intros (D & DI & DP & DF) Hdec. pose proof D as D'. destruct D' as [Db Dst Dr Dd Dop Dout]. destruct Db as [Bc Bsl Brl Bwl Bq Bec Bl Bh Bg Be Bi Bcw Bcr Bcl Bn].
  pose proof (feed_blk _ dec_field enc_field enc_set_max cfg c sid true false eh frag odd Brl Bsl Bq Bec) as F.
  cbn [blk_frame] in F. unfold dead_result. rewrite F. set (cx := upd_expectCont c (if eh then 0 else sid)).
  assert (DX : dead cx (if eh then 0 else sid) code d) by (apply (dead_ec c sid); exact D).
  rewrite (sl_frame_dead_cont _ dec_field enc_field enc_set_max cfg cx sid eh frag NZ) by (unfold cx; sc_cbn; exact DI).
  apply (dead_frag _ dec_field cfg c0 sid cx _ code d true false eh frag fs d' n' carry DX).
  - intros _. unfold cx. sc_cbn. exact DI.
  - unfold cx. sc_cbn. rewrite DP, DF. exact Hdec.
Qed.

(* ---------- whole header blocks ---------- *)
Definition carries_over (carries : list bytes) : bool := existsb carry_over carries.

(* the stream is refused and the decoder has been through the whole block: reset (RST_STREAM sent), or the connection is gone *)
Definition rej (c' : sconn) (d' : hstate) : Prop := holds c' 0 PhGone \/ exists code, holds c' 0 (PhDead code d').

(* after the last frame of a block whose first frame found the stream in (state, st, size, rq, recv) *)
Definition blk_final (state : sstate) (st : vst) (size : Z) (rq : request) (recv : Z)
           (fs : list field) (d' : hstate) (carries : list bytes) (c' : sconn) : Prop :=
  if list_over cfg (size + fsize fs) || carries_over carries then rej c' d'
  else match vrun cfg st fs with
       | inl code => holds c' 0 (PhDead code d')
       | inr st' => exists nf, holds c' 0 (blk_end state st' (size + fsize fs)%Z nf (req_fold rq fs) recv d')
       end.

Lemma vrun_app st a b : vrun cfg st (a ++ b) = match vrun cfg st a with inl c => inl c | inr st1 => vrun cfg st1 b end.
Proof.
  revert st. induction a as [|[k v] t IH]; intro st; [reflexivity|]. cbn [app vrun].
  destruct (vstep cfg st (classify k) v); [reflexivity | apply IH].
Qed.

Lemma req_fold_app rq a b : req_fold rq (a ++ b) = req_fold (req_fold rq a) b.
Proof. apply fold_left_app. Qed.

Lemma list_over_mono' a b : (a <= b)%Z -> list_over cfg a = true -> list_over cfg b = true.
Proof. unfold list_over. lia. Qed.

Lemma dead_cont_run d n prev frags fs d' carries :
  block_dec d n prev frags fs d' carries ->
  forall c code, holds c sid (PhDeadBlock code prev n d) ->
  rej (feeds c (cont_frames sid frags)) d' /\
  (carries_over carries = false -> holds (feeds c (cont_frames sid frags)) 0 (PhDead code d')).
Proof.
  induction 1 as [d n prev frag fs d' n' Hf | d n prev frag frags fs1 d1 n1 carry fs2 d' carries NE Hf _ IH]; intros c code H.
  - cbn [cont_frames is_nil]. rewrite feeds_cons. cbn [SrvMsgReq.feeds fold_left].
    pose proof (step_dead_cont c code prev n d true frag fs d' n' [] H Hf) as S. unfold dead_result in S.
    split; [right; exists code; exact S | intros _; exact S].
  - cbn [cont_frames]. replace (is_nil frags) with false by (destruct frags; [congruence | reflexivity]).
    rewrite feeds_cons.
    pose proof (step_dead_cont c code prev n d false frag fs1 d1 n1 carry H Hf) as S. unfold dead_result in S.
    cbn [carries_over existsb]. fold (carries_over carries).
    destruct (carry_over carry).
    + split; [left; apply (gone_feeds _ _ sid); exact S | discriminate].
    + destruct (IH _ code S) as [A B]. split; [exact A | exact B].
Qed.

Lemma rej_ph_cont_run d1 n1 carry frags fs2 d' carries ph c1 :
  block_dec d1 n1 carry frags fs2 d' carries -> rej_ph false d1 n1 carry ph -> holds c1 sid ph ->
  rej (feeds c1 (cont_frames sid frags)) d'.
Proof.
  intros B [-> | [code ->]] H.
  - left. apply (gone_feeds _ _ sid). exact H.
  - apply (dead_cont_run _ _ _ _ _ _ _ B c1 code H).
Qed.

Lemma blk_final_last state st size rq recv fs d' n' c' :
  blk_result state st size rq recv true fs d' n' [] c' 0 -> blk_final state st size rq recv fs d' [] c'.
Proof.
  unfold blk_result, blk_final. cbv zeta. cbn [carries_over existsb]. rewrite orb_false_r.
  destruct (list_over cfg (size + fsize fs)).
  - intros (ph & [-> | [code ->]] & H); [left; exact H | right; exists code; exact H].
  - destruct (vrun cfg st fs) as [code|st']; [auto|]. intro H. exists n'. exact H.
Qed.

Lemma blk_final_step state st size rq recv fs1 d1 n1 carry c1 frags fs2 d' carries :
  blk_result state st size rq recv false fs1 d1 n1 carry c1 sid ->
  block_dec d1 n1 carry frags fs2 d' carries ->
  (forall st1 size1 rq1, holds c1 sid (PhBlock state st1 size1 n1 carry rq1 recv d1) ->
                         blk_final state st1 size1 rq1 recv fs2 d' carries (feeds c1 (cont_frames sid frags))) ->
  blk_final state st size rq recv (fs1 ++ fs2) d' (carry :: carries) (feeds c1 (cont_frames sid frags)).
Proof.
  unfold blk_result. cbv zeta. intros BR B IH. unfold blk_final at 1.
  rewrite fsize_app, vrun_app, req_fold_app. cbn [carries_over existsb]. fold (carries_over carries).
  pose proof (fsize_nonneg fs2) as P2.
  destruct (list_over cfg (size + fsize fs1)) eqn:O1.
  - rewrite (list_over_mono' (size + fsize fs1) (size + (fsize fs1 + fsize fs2)) ltac:(lia) O1). cbn [orb].
    destruct BR as (ph & RP & H). exact (rej_ph_cont_run _ _ _ _ _ _ _ _ _ B RP H).
  - destruct (vrun cfg st fs1) as [code|st1].
    + destruct (carry_over carry).
      * rewrite orb_true_r. left. apply (gone_feeds _ _ sid). exact BR.
      * destruct (dead_cont_run _ _ _ _ _ _ _ B c1 code BR) as [A Bp].
        cbn [orb]. destruct (list_over cfg _ || carries_over carries)%bool eqn:X; [exact A|].
        apply Bp. apply orb_false_iff in X. apply X.
    + destruct (carry_over carry).
      * rewrite orb_true_r. left. apply (gone_feeds _ _ sid). exact BR.
      * cbn [orb]. specialize (IH _ _ _ BR). unfold blk_final in IH.
        replace (size + (fsize fs1 + fsize fs2))%Z with (size + fsize fs1 + fsize fs2)%Z by lia. exact IH.
Qed.

Lemma cont_run d n prev frags fs d' carries :
  block_dec d n prev frags fs d' carries ->
  forall c state st size rq recv, holds c sid (PhBlock state st size n prev rq recv d) ->
  blk_final state st size rq recv fs d' carries (feeds c (cont_frames sid frags)).
Proof.
  induction 1 as [d n prev frag fs d' n' Hf | d n prev frag frags fs1 d1 n1 carry fs2 d' carries NE Hf B IH];
    intros c state st size rq recv H.
  - cbn [cont_frames is_nil]. rewrite feeds_cons. cbn [SrvMsgReq.feeds fold_left].
    apply (blk_final_last _ _ _ _ _ _ _ n'). exact (step_cont c state st size n prev rq recv d true frag fs d' n' [] H Hf).
  - cbn [cont_frames]. replace (is_nil frags) with false by (destruct frags; [congruence | reflexivity]).
    rewrite feeds_cons.
    apply (blk_final_step state st size rq recv fs1 d1 n1 carry _ frags fs2 d' carries).
    + exact (step_cont c state st size n prev rq recv d false frag fs1 d1 n1 carry H Hf).
    + exact B.
    + intros st1 size1 rq1 H1. apply IH. exact H1.
Qed.

(* a block from its HEADERS frame on, given what that frame does *)
Lemma block_run c state st size rq recv (es : bool) d frags fs d' carries :
  (forall (eh : bool) frag fs1 d1 n1 carry, frag_dec eh d 0 frag fs1 d1 n1 carry ->
     blk_result state st size rq recv eh fs1 d1 n1 carry (feed c (headers_frame sid es eh frag)) (if eh then 0 else sid)) ->
  block_dec d 0 [] frags fs d' carries ->
  blk_final state st size rq recv fs d' carries (feeds c (block_frames sid es frags)).
Proof.
  intros P B. inversion B as [d_ n_ prev_ frag fs_ d'_ n' Hf | d_ n_ prev_ frag frags' fs1 d1 n1 carry fs2 d'_ carries' NE Hf B'];
    subst.
  - cbn [block_frames is_nil cont_frames]. rewrite feeds_cons. cbn [SrvMsgReq.feeds fold_left].
    apply (blk_final_last _ _ _ _ _ _ _ n'). exact (P true frag fs d' n' [] Hf).
  - cbn [block_frames]. replace (is_nil frags') with false by (destruct frags'; [congruence | reflexivity]).
    rewrite feeds_cons.
    apply (blk_final_step state st size rq recv fs1 d1 n1 carry _ frags' fs2 d' carries').
    + exact (P false frag fs1 d1 n1 carry Hf).
    + exact B'.
    + intros st1 size1 rq1 H1. exact (cont_run _ _ _ _ _ _ _ B' _ _ _ _ _ _ H1).
Qed.

(* ---------- DATA frames ---------- *)
Definition bytes_len (chunks : list bytes) : Z := Z.of_N (len (concat chunks)).

Lemma bytes_len_cons d t : bytes_len (d :: t) = (Z.of_N (len d) + bytes_len t)%Z.
Proof. unfold bytes_len, len. cbn [concat]. rewrite app_length. lia. Qed.
Lemma bytes_len_nonneg l : (0 <= bytes_len l)%Z.
Proof. unfold bytes_len. lia. Qed.

Lemma rq_append_body_app rq a b : rq_append_body (rq_append_body rq a) b = rq_append_body rq (a ++ b).
Proof. unfold rq_append_body. cbn. rewrite app_assoc. reflexivity. Qed.
Lemma rq_append_body_nil rq : rq_append_body rq [] = rq.
Proof. destruct rq. unfold rq_append_body. cbn. rewrite app_nil_r. reflexivity. Qed.

Lemma dead_data_run chunks es : forall c code d,
  holds c 0 (PhDead code d) -> holds (feeds c (data_frames sid es chunks)) 0 (PhDead code d).
Proof.
  induction chunks as [|dt t IH]; intros c code d H; [exact H|].
  cbn [data_frames]. rewrite feeds_cons. apply IH. apply step_dead_data. exact H.
Qed.

Lemma body_over_mono a b : (a <= b)%Z -> body_over cfg a = true -> body_over cfg b = true.
Proof. unfold body_over. lia. Qed.

(* with es: END_STREAM on the last frame *)
Definition data_final (st : vst) (size : Z) (nf : N) (rq : request) (recv : Z) (d : hstate) (es : bool)
           (chunks : list bytes) (c' : sconn) : Prop :=
  let total := (recv + bytes_len chunks)%Z in
  let rq' := rq_append_body rq (concat chunks) in
  if body_over cfg total then holds c' 0 (PhDead c_EnhanceYourCalm d)
  else if es && negb (is_nil chunks)
       then holds c' 0 (if cl_okZ st total then PhDisp st size nf rq' total d else PhDead c_ProtocolError d)
       else holds c' 0 (PhBody st size nf rq' total d).

Lemma data_run chunks es : forall c st size nf rq recv d,
  holds c 0 (PhBody st size nf rq recv d) -> body_over cfg recv = false ->
  data_final st size nf rq recv d es chunks (feeds c (data_frames sid es chunks)).
Proof.
  induction chunks as [|dt t IH]; intros c st size nf rq recv d H B0; unfold data_final; cbv zeta.
  - cbn [data_frames SrvMsgReq.feeds fold_left concat is_nil negb]. unfold bytes_len. cbn [concat].
    change (Z.of_N (len [])) with 0%Z. rewrite Z.add_0_r, B0, andb_false_r, rq_append_body_nil. exact H.
  - cbn [data_frames]. rewrite feeds_cons. rewrite bytes_len_cons. cbn [concat is_nil negb]. rewrite andb_true_r.
    pose proof (step_data c st size nf rq recv d (es && is_nil t) dt H) as S. cbv zeta in S.
    pose proof (bytes_len_nonneg t) as Pt.
    destruct (body_over cfg (recv + Z.of_N (len dt))) eqn:O1.
    + rewrite (body_over_mono (recv + Z.of_N (len dt)) (recv + (Z.of_N (len dt) + bytes_len t)) ltac:(lia) O1).
      apply dead_data_run. exact S.
    + destruct t as [|dt2 t2].
      * (* the last DATA frame *)
        cbn [is_nil] in S. rewrite andb_true_r in S. cbn [data_frames SrvMsgReq.feeds fold_left].
        unfold bytes_len. cbn [concat]. change (Z.of_N (len [])) with 0%Z. rewrite Z.add_0_r, O1, app_nil_r.
        destruct es; exact S.
      * cbn [is_nil] in S. rewrite andb_false_r in S.
        specialize (IH _ _ _ _ _ _ _ S O1). unfold data_final in IH. cbv zeta in IH.
        replace (recv + (Z.of_N (len dt) + bytes_len (dt2 :: t2)))%Z with (recv + Z.of_N (len dt) + bytes_len (dt2 :: t2))%Z by lia.
        cbn [is_nil negb] in IH. rewrite andb_true_r in IH. rewrite rq_append_body_app in IH.
        cbn [is_nil]. rewrite andb_false_r. exact IH.
Qed.

(* ---------- the rest of a request whose stream has been refused ---------- *)
Lemma dead_block_run c code d (es : bool) frags fs d' carries :
  holds c 0 (PhDead code d) -> block_dec d 0 [] frags fs d' carries ->
  rej (feeds c (block_frames sid es frags)) d' /\
  (carries_over carries = false -> holds (feeds c (block_frames sid es frags)) 0 (PhDead code d')).
Proof.
  intros H B. inversion B as [d_ n_ prev_ frag fs_ d'_ n' Hf | d_ n_ prev_ frag frags' fs1 d1 n1 carry fs2 d'_ carries' NE Hf B'];
    subst.
  - cbn [block_frames is_nil cont_frames]. rewrite feeds_cons. cbn [SrvMsgReq.feeds fold_left].
    pose proof (step_dead_headers c code d es true frag fs d' n' [] H Hf) as S. unfold dead_result in S.
    split; [right; exists code; exact S | intros _; exact S].
  - cbn [block_frames]. replace (is_nil frags') with false by (destruct frags'; [congruence | reflexivity]).
    rewrite feeds_cons.
    pose proof (step_dead_headers c code d es false frag fs1 d1 n1 carry H Hf) as S. unfold dead_result in S.
    cbn [carries_over existsb]. fold (carries_over carries').
    destruct (carry_over carry).
    + split; [left; apply (gone_feeds _ _ sid); exact S | discriminate].
    + exact (dead_cont_run _ _ _ _ _ _ _ B' _ code S).
Qed.

(* what follows the header block: DATA frames, then maybe a trailer block *)
Definition trailers_dec (d1 : hstate) (tfrags : option (list bytes)) (tr : list field) (d2 : hstate) (carries2 : list bytes) : Prop :=
  match tfrags with
  | Some tf => block_dec d1 0 [] tf tr d2 carries2
  | None => tr = [] /\ d2 = d1 /\ carries2 = []
  end.

Definition rest_frames (chunks : list bytes) (tfrags : option (list bytes)) : list sframe :=
  match tfrags with
  | Some tf => data_frames sid false chunks ++ block_frames sid true tf
  | None => data_frames sid true chunks
  end.

Lemma req_frames_eq hfrags chunks tfrags :
  req_frames sid hfrags chunks tfrags =
  block_frames sid (match tfrags with Some _ => false | None => is_nil chunks end) hfrags ++ rest_frames chunks tfrags.
Proof. destruct tfrags; reflexivity. Qed.

Lemma rest_from_dead c code d1 chunks tfrags tr d2 carries2 :
  holds c 0 (PhDead code d1) -> trailers_dec d1 tfrags tr d2 carries2 ->
  rej (feeds c (rest_frames chunks tfrags)) d2 /\
  (carries_over carries2 = false -> holds (feeds c (rest_frames chunks tfrags)) 0 (PhDead code d2)).
Proof.
  intros H T. destruct tfrags as [tf|]; cbn [rest_frames trailers_dec] in *.
  - rewrite feeds_app. apply (dead_block_run _ code d1 true tf tr d2 carries2); [|exact T].
    apply dead_data_run. exact H.
  - destruct T as (-> & -> & ->). pose proof (dead_data_run chunks true c code d1 H) as D.
    split; [right; exists code; exact D | intros _; exact D].
Qed.

Lemma rest_from_rej c d1 chunks tfrags tr d2 carries2 :
  rej c d1 -> trailers_dec d1 tfrags tr d2 carries2 -> rej (feeds c (rest_frames chunks tfrags)) d2.
Proof.
  intros [G | [code H]] T.
  - left. apply (gone_feeds _ _ 0). exact G.
  - apply (rest_from_dead c code d1 chunks tfrags tr d2 carries2 H T).
Qed.

(* ---------- pure facts used by the assembly ---------- *)
Lemma vstep_code st (k : cls) v code : vstep cfg st k v = inl code -> code = c_ProtocolError \/ code = c_EnhanceYourCalm.
Proof.
  unfold vstep. destruct k; try (intro E; inversion E; auto; fail);
    try (destruct (_ || _)%bool; intro E; inversion E; auto; fail).
  - destruct (bytes_eqb v S_trailers); intro E; inversion E; auto.
  - destruct (parse_uint v); [|intro E; inversion E; auto].
    destruct (body_over cfg z); [intro E; inversion E; auto|].
    destruct (_ && _)%bool; intro E; inversion E; auto.
Qed.

Lemma vrun_code : forall fs st code, vrun cfg st fs = inl code -> code = c_ProtocolError \/ code = c_EnhanceYourCalm.
Proof.
  induction fs as [|[k v] t IH]; intros st code; cbn [vrun]; [discriminate|].
  destruct (vstep cfg st (classify k) v) as [cd|st1] eqn:E; [|apply IH].
  intro X. inversion X; subst. eapply vstep_code. exact E.
Qed.

Lemma cl_okZ_ok st n : cl_okZ st (Z.of_N n) = v_cl_ok st n.
Proof. unfold cl_okZ, v_cl_ok. destruct (v_has st); cbn [andb negb]; [apply negb_involutive | reflexivity]. Qed.

(* in a trailer block nothing changes the pseudo-header flags *)
Lemma vstep_regular_valid st (k : cls) v st' : v_r st = true -> vstep cfg st k v = inr st' -> v_valid st' = v_valid st /\ v_r st' = true.
Proof.
  intros Hr. unfold vstep. rewrite Hr. cbn [orb]. destruct k; try discriminate.
  - destruct (bytes_eqb v S_trailers); [|discriminate]. intro E. inversion E. auto.
  - destruct (parse_uint v); [|discriminate]. destruct (body_over cfg z); [discriminate|].
    destruct (_ && _)%bool; [discriminate|]. intro E. inversion E. auto.
  - intro E. inversion E. auto.
Qed.

Lemma vrun_regular_valid : forall fs st st', v_r st = true -> vrun cfg st fs = inr st' -> v_valid st' = v_valid st.
Proof.
  induction fs as [|[k v] t IH]; intros st st' Hr; cbn [vrun].
  - intro E. inversion E. reflexivity.
  - destruct (vstep cfg st (classify k) v) as [cd|st1] eqn:E; [discriminate|].
    destruct (vstep_regular_valid _ _ _ _ Hr E) as [V1 R1]. intro X. rewrite (IH _ _ R1 X). exact V1.
Qed.

Lemma carries_over_app a b : carries_over (a ++ b) = carries_over a || carries_over b.
Proof. apply existsb_app. Qed.

Lemma forallb_negb_existsb {A} (f : A -> bool) l : forallb (fun x => negb (f x)) l = negb (existsb f l).
Proof. induction l as [|x t IH]; [reflexivity|]. cbn [forallb existsb]. rewrite IH, negb_orb. reflexivity. Qed.

(* the limits whose violation costs the connection (GOAWAY): the header list and the carried-over partial fields *)
Definition hlimit (fs tr : list field) (k1 k2 : list bytes) : bool :=
  negb (list_over cfg (fsize fs + fsize tr)) && negb (carries_over k1) && negb (carries_over k2).

Lemma within_limits_eq fs tr (k1 k2 : list bytes) n :
  within_limits cfg fs tr (k1 ++ k2) n = hlimit fs tr k1 k2 && negb (body_over cfg (Z.of_N n)).
Proof.
  unfold within_limits, hlimit. rewrite fsize_app.
  change (forallb (fun x => negb (list_over cfg (Z.of_N (len x)))) (k1 ++ k2)) with (forallb (fun x => negb (carry_over x)) (k1 ++ k2)).
  rewrite forallb_negb_existsb. fold (carries_over (k1 ++ k2)). rewrite carries_over_app, negb_orb, !andb_assoc. reflexivity.
Qed.

(* ---------- the whole request ---------- *)
Definition final_req (fs : list field) (chunks : list bytes) (tr : list field) : request :=
  req_fold (rq_append_body (req_fold empty_req fs) (concat chunks)) tr.

Definition ok_code (code : N) : Prop := code = c_ProtocolError \/ code = c_EnhanceYourCalm.

Definition outcome (lim hlim acc : bool) (fs : list field) (chunks : list bytes) (tr : list field) (d2 : hstate) (c' : sconn) : Prop :=
  if lim && acc
  then exists st size nf, holds c' 0 (PhDisp st size nf (final_req fs chunks tr) (bytes_len chunks) d2)
  else rej c' d2 /\ (hlim = true -> exists code, ok_code code /\ holds c' 0 (PhDead code d2)).

Lemma outcome_cond lim hlim acc fs chunks tr d2 c' code :
  rej c' d2 -> (hlim = true -> holds c' 0 (PhDead code d2)) -> ok_code code -> lim && acc = false ->
  outcome lim hlim acc fs chunks tr d2 c'.
Proof. intros RJ H K F. unfold outcome. rewrite F. split; [exact RJ | intro L; exists code; auto]. Qed.

Lemma outcome_dead lim hlim acc fs chunks tr d2 c' code :
  holds c' 0 (PhDead code d2) -> ok_code code -> lim && acc = false -> outcome lim hlim acc fs chunks tr d2 c'.
Proof. intros H K F. apply (outcome_cond _ _ _ _ _ _ _ _ code); auto. right. exists code. exact H. Qed.

Lemma outcome_rej lim acc fs chunks tr d2 c' : rej c' d2 -> lim = false -> outcome lim false acc fs chunks tr d2 c'.
Proof. intros H ->. unfold outcome. cbn [andb]. split; [exact H | discriminate]. Qed.

Theorem request_run hfrags chunks tfrags fs tr d1 d2 carries1 carries2 :
  block_dec (sc_dec c0) 0 [] hfrags fs d1 carries1 ->
  trailers_dec d1 tfrags tr d2 carries2 ->
  let n := len (concat chunks) in
  outcome (within_limits cfg fs tr (carries1 ++ carries2) n) (hlimit fs tr carries1 carries2) (vacc2 cfg v0 fs tr n)
          fs chunks tr d2 (feeds c0 (req_frames sid hfrags chunks tfrags)).
Proof.
  intros B T n. rewrite req_frames_eq, feeds_app.
  set (esH := match tfrags with Some _ => false | None => is_nil chunks end).
  set (cH := feeds c0 (block_frames sid esH hfrags)).
  pose proof (block_run c0 (if esH then SHalfClosed else SOpen) v0 0 empty_req 0 esH (sc_dec c0) hfrags fs d1 carries1
                        (fun eh frag fs1 d1 n1 carry H => step_first esH eh frag fs1 d1 n1 carry H) B) as BF.
  fold cH in BF. unfold blk_final in BF. rewrite Z.add_0_l in BF.
  rewrite within_limits_eq. change (Z.of_N n) with (bytes_len chunks).
  set (hlim := hlimit fs tr carries1 carries2). set (lim := (hlim && _)%bool).
  assert (HLIM : hlim = true -> list_over cfg (fsize fs + fsize tr) = false /\ carries_over carries1 = false /\
                                carries_over carries2 = false).
  { unfold hlim, hlimit. intro H. repeat (apply andb_true_iff in H; destruct H as [H ?]).
    repeat match goal with X : negb _ = true |- _ => apply negb_true_iff in X end. auto. }
  assert (LIMH : lim = true -> hlim = true) by (unfold lim; intro H; apply andb_true_iff in H; apply H).
  assert (LIM : lim = true -> list_over cfg (fsize fs + fsize tr) = false /\ carries_over carries1 = false /\
                              carries_over carries2 = false /\ body_over cfg (bytes_len chunks) = false).
  { intro H. destruct (HLIM (LIMH H)) as (X1 & X2 & X3). repeat split; auto.
    unfold lim in H. apply andb_true_iff in H. destruct H as [_ H]. apply negb_true_iff in H. exact H. }
  assert (LIMI : list_over cfg (fsize fs + fsize tr) = false -> carries_over carries1 = false ->
                 carries_over carries2 = false -> body_over cfg (bytes_len chunks) = false -> lim = true).
  { unfold lim, hlim, hlimit. intros -> -> -> ->. reflexivity. }
  pose proof (fsize_nonneg tr) as Ptr.
  (* the stream is refused in the header block *)
  assert (DEAD1 : forall code, holds cH 0 (PhDead code d1) -> ok_code code -> lim && vacc2 cfg v0 fs tr n = false ->
                               outcome lim hlim (vacc2 cfg v0 fs tr n) fs chunks tr d2 (feeds cH (rest_frames chunks tfrags))).
  { intros code H K F. destruct (rest_from_dead cH code d1 chunks tfrags tr d2 carries2 H T) as [RJ PR].
    apply (outcome_cond _ _ _ _ _ _ _ _ code RJ); [|exact K | exact F]. intro L. apply PR. apply (HLIM L). }
  destruct (list_over cfg (fsize fs) || carries_over carries1)%bool eqn:A1.
  { (* over a limit in the header block *)
    assert (HL : hlim = false).
    { destruct hlim eqn:L; [|reflexivity]. destruct (HLIM eq_refl) as (L1 & L2 & _).
      apply orb_true_iff in A1. destruct A1 as [A1|A1]; [|congruence].
      rewrite (list_over_mono' (fsize fs) (fsize fs + fsize tr) ltac:(lia) A1) in L1. discriminate. }
    rewrite HL. apply outcome_rej; [|unfold lim; rewrite HL; reflexivity].
    exact (rest_from_rej cH d1 chunks tfrags tr d2 carries2 BF T). }
  apply orb_false_iff in A1. destruct A1 as [A1a A1b].
  unfold vacc2. unfold vacc2 in DEAD1.
  destruct (vrun cfg v0 fs) as [code|st1] eqn:V1.
  { apply (DEAD1 code BF (vrun_code _ _ _ V1)). apply andb_false_r. }
  destruct BF as [nf1 BF]. unfold blk_end in BF.
  destruct (v_valid st1) eqn:VV.
  2:{ apply (DEAD1 c_ProtocolError BF (or_introl eq_refl)). apply andb_false_r. }
  cbn [andb].
  destruct tfrags as [tf|]; cbn [trailers_dec rest_frames] in *.
  - (* trailers *)
    change esH with false in BF. cbn iota in BF. rewrite feeds_app.
    set (cD := feeds cH (data_frames sid false chunks)).
    pose proof (data_run chunks false cH st1 (fsize fs) nf1 (req_fold empty_req fs) 0 d1 BF bo0) as DR.
    fold cD in DR. unfold data_final in DR. cbv zeta in DR. cbn [andb] in DR. rewrite Z.add_0_l in DR.
    destruct (body_over cfg (bytes_len chunks)) eqn:BO.
    { assert (L : lim = false) by (destruct lim eqn:L; [destruct (LIM eq_refl) as (_ & _ & _ & X); congruence | reflexivity]).
      destruct (dead_block_run cD c_EnhanceYourCalm d1 true tf tr d2 carries2 DR T) as [RJ PR].
      apply (outcome_cond _ _ _ _ _ _ _ _ c_EnhanceYourCalm RJ); [|right; reflexivity | rewrite L; reflexivity].
      intro HL. apply PR. apply (HLIM HL). }
    pose proof (block_run cD SHalfClosed (v_setr st1) (fsize fs) (rq_append_body (req_fold empty_req fs) (concat chunks))
                          (bytes_len chunks) true d1 tf tr d2 carries2
                          (fun eh frag fs1 dd n1 carry H => step_trailers cD st1 (fsize fs) nf1 _ _ d1 eh frag fs1 dd n1 carry DR H) T) as TF.
    unfold blk_final in TF.
    destruct (list_over cfg (fsize fs + fsize tr) || carries_over carries2)%bool eqn:A2.
    { assert (HL : hlim = false).
      { destruct hlim eqn:L; [|reflexivity]. destruct (HLIM eq_refl) as (L1 & _ & L3).
        apply orb_true_iff in A2. destruct A2; congruence. }
      rewrite HL. apply outcome_rej; [exact TF | unfold lim; rewrite HL; reflexivity]. }
    apply orb_false_iff in A2. destruct A2 as [A2a A2b].
    assert (L : lim = true) by (apply LIMI; auto). rewrite L. unfold vacc.
    destruct (vrun cfg (v_setr st1) tr) as [code|st2] eqn:V2.
    { apply (outcome_dead true hlim false fs chunks tr d2 _ code TF (vrun_code _ _ _ V2) eq_refl). }
    destruct TF as [nf2 TF]. unfold blk_end in TF.
    rewrite (vrun_regular_valid tr (v_setr st1) st2 eq_refl V2) in TF. change (v_valid (v_setr st1)) with (v_valid st1) in TF.
    rewrite VV in TF. unfold bytes_len in TF at 1. fold n in TF. rewrite cl_okZ_ok in TF.
    destruct (v_cl_ok st2 n).
    + unfold outcome. cbn [andb]. exists st2, (fsize fs + fsize tr)%Z, nf2. exact TF.
    + apply (outcome_dead true hlim false fs chunks tr d2 _ c_ProtocolError TF (or_introl eq_refl) eq_refl).
  - (* no trailers *)
    destruct T as (-> & -> & ->). cbn [fsize fold_right] in LIMI. rewrite Z.add_0_r in LIMI.
    unfold vacc. cbn [vrun]. change (v_cl_ok (v_setr st1) n) with (v_cl_ok st1 n).
    destruct chunks as [|dt ch].
    + (* END_STREAM on the HEADERS frame *)
      change esH with true in BF. cbn iota in BF. cbn [data_frames SrvMsgReq.feeds fold_left].
      assert (L : lim = true) by (apply LIMI; auto using bo0). rewrite L.
      change 0%Z with (Z.of_N n) in BF at 1. rewrite cl_okZ_ok in BF.
      destruct (v_cl_ok st1 n).
      * unfold outcome. cbn [andb]. exists st1, (fsize fs), nf1. unfold final_req. cbn [concat req_fold fold_left].
        rewrite rq_append_body_nil. exact BF.
      * apply (outcome_dead true hlim false fs [] [] d1 _ c_ProtocolError BF (or_introl eq_refl) eq_refl).
    + change esH with false in BF. cbn iota in BF.
      pose proof (data_run (dt :: ch) true cH st1 (fsize fs) nf1 (req_fold empty_req fs) 0 d1 BF bo0) as DR.
      unfold data_final in DR. cbv zeta in DR. cbn [andb is_nil negb] in DR. rewrite Z.add_0_l in DR.
      destruct (body_over cfg (bytes_len (dt :: ch))) eqn:BO.
      { assert (L : lim = false) by (destruct lim eqn:L; [destruct (LIM eq_refl) as (_ & _ & _ & X); congruence | reflexivity]).
        apply (outcome_dead lim hlim _ fs (dt :: ch) [] d1 _ c_EnhanceYourCalm DR (or_intror eq_refl)). rewrite L. reflexivity. }
      assert (L : lim = true) by (apply LIMI; auto). rewrite L.
      unfold bytes_len in DR at 1. fold n in DR. rewrite cl_okZ_ok in DR.
      destruct (v_cl_ok st1 n).
      * unfold outcome. cbn [andb]. exists st1, (fsize fs), nf1. exact DR.
      * apply (outcome_dead true hlim false fs (dt :: ch) [] d1 _ c_ProtocolError DR (or_introl eq_refl) eq_refl).
Qed.

End Req.
