(* Proofs/SrvIsoNI.v - C09 (c) / C01 (c): each step only touches the stream it is about.
   `oth own c c'` (Proofs/SrvIsoMoves.v): every stream of c' other than `own` was in c with the same id, the same
   request collected so far (rqv: pseudo-header flags, content-length, header list size, path, the request record
   with its fields and body, bytes of body received) and the same place in its header block (hv: headersFinished,
   previousHeaderBytes, blockFields). *)
From H2V Require Import Base.Bytes Base.MachineInt Base.Result Gen.GenConsts Impl.ServerConn Proofs.SrvBase
  Proofs.SrvIsoRef Proofs.SrvIsoMoves Proofs.SrvIsoSteps Proofs.SrvIsoHdr Proofs.SrvIsoHdrStep Proofs.SrvIsoRun.
From Coq Require Import ZArith Lia ZifyN ZifyNat ZifyBool.
Local Open Scope N_scope.

Section NI.
Variable hstate : Type.
Variable dec_field : hstate -> N -> bytes -> dec_res hstate.
Variable enc_field : hstate -> bytes -> bytes -> bool -> bytes * hstate.
Variable enc_set_max : hstate -> N -> hstate.
Variable cfg : config.
Variable h0 : hstate.
Notation sconn := (sconn hstate).
Notation step := (step dec_field enc_field enc_set_max cfg).
Notation run := (run dec_field enc_field enc_set_max cfg h0).
Implicit Types c : sconn.

(* the stream a step is about: the stream of the frame the stream loop takes, the stream whose handler returns *)
Definition step_own c (e : event) : N :=
  match e with
  | EvSL => match sc_readerQ c with fr :: _ => sf_sid fr | [] => 0 end
  | EvDone sid _ => sid
  | _ => 0
  end.

Theorem other_streams_untouched evs e :
  clean dec_field enc_field enc_set_max cfg h0 evs -> clean_step dec_field enc_field enc_set_max cfg (run evs) e ->
  sc_sl_done (step (run evs) e) = false ->
  oth (step_own (run evs) e) (run evs) (step (run evs) e).
Proof.
  intros CL CS Hd'. set (c := run evs) in *.
  destruct e as [i| |sid r|t| | | |]; cbn [step_own].
  - rewrite step_EvRL in *. destruct (sc_rl_done c); [apply oth_refl|].
    apply oth_same_strms. destruct (rsame_rl_step _ cfg c i) as (_ & _ & _ & _ & E & _). exact E.
  - assert (Hd : sc_sl_done c = false).
    { destruct (sc_sl_done c) eqn:E; [|reflexivity]. rewrite (sl_done_mono _ dec_field enc_field enc_set_max cfg c EvSL E) in Hd'. discriminate. }
    destruct (sc_readerQ c) as [|fr q] eqn:RQ.
    { rewrite step_EvSL, Hd, RQ in *. destruct (sc_rl_done c); [discriminate Hd' | apply oth_refl]. }
    destruct (is_hdr_frame fr) eqn:IHF.
    + assert (HT : hdr_taken c EvSL = [fr]) by (unfold hdr_taken, sl_takes; rewrite Hd, RQ; cbn [hd_error]; rewrite IHF; reflexivity).
      destruct (CS fr HT) as [W G].
      destruct (hdr_step_reference _ dec_field enc_field enc_set_max cfg h0 evs fr q CL Hd RQ IHF W G)
        as (n & carry & _ & (fs & n' & carry' & _ & _ & GP)).
      destruct (GP Hd') as (_ & O & _). eapply oth_trans; [|exact O]. apply oth_same_strms. reflexivity.
    + rewrite step_EvSL, Hd, RQ in *.
      eapply oth_trans; [apply (oth_same_strms _ _ c (upd_readerQ c q)); reflexivity|].
      eapply hmvs_other; [|exact Hd'].
      apply (hmvs_sl_frame_other _ dec_field enc_set_max cfg (sf_sid fr) false _ fr IHF (fun _ => eq_refl) (no_open_block_false _ _)).
  - rewrite step_EvDone in *. destruct (sc_sl_done c) eqn:Hd; [apply oth_refl|].
    eapply (hmvs_other _ sid false); [|exact Hd']. apply hmvs_sl_done. intro K; discriminate K.
  - rewrite step_EvClock. destruct (_ <? _)%Z; [apply oth_same_strms; reflexivity | apply oth_refl].
  - rewrite step_EvTimer in *. destruct (sc_sl_done c) eqn:Hd; [apply oth_refl|].
    eapply (hmvs_other _ 0 false); [|exact Hd']. apply hmvs_sl_timer.
  - rewrite step_EvIdle. apply oth_same_strms. sc_rw. reflexivity.
  - rewrite step_EvCloser in *. destruct (_ && _)%bool; [discriminate Hd' | apply oth_refl].
  - apply oth_same_strms. reflexivity.
Qed.

End NI.
Arguments step_own {hstate}.
