(* Proofs/SrvFlowCTrackC.v - C06 completion: the tracked response through every step of the model. *)
From H2V Require Import Base.Bytes Base.MachineInt Base.Result Gen.GenConsts Impl.ServerConn Proofs.SrvBase
  Spec.FlowLedger Proofs.SrvFlowLedger Proofs.SrvFlowDefs Proofs.SrvFlowSend Proofs.SrvFlowEff Proofs.SrvFlowSafe
  Proofs.SrvFlowSafeB Proofs.SrvFlowSafeC Proofs.SrvFlowEs Proofs.SrvFlowRecv Proofs.SrvFlowStall Proofs.SrvFlowFuel
  Proofs.SrvFlowDone Proofs.SrvFlowCDecomp Proofs.SrvFlowCMono Proofs.SrvFlowCView Proofs.SrvFlowCEarly Proofs.SrvFlowCTrack
  Proofs.SrvFlowCTrackB.
From Coq Require Import ZArith Lia ZifyN ZifyNat ZifyBool List.
Import ListNotations.
Local Open Scope N_scope.
Set Default Proof Using "Type".

Section TrackC.
Variable hstate : Type.
Variable dec_field : hstate -> N -> bytes -> dec_res hstate.
Variable enc_field : hstate -> bytes -> bytes -> bool -> bytes * hstate.
Variable enc_set_max : hstate -> N -> hstate.
Variable cfg : config.
Notation sconn := (sconn hstate).
Implicit Types c : sconn.
Notation Sim := (SimX hstate None).
Notation AbortS := (AbortS hstate).
Notation Keeps := (Keeps hstate).
Notation FrameO := (FrameO hstate).
Notation Live := (Live hstate).
Notation Complete := (Complete hstate).
Notation Sent := (Sent hstate).
Notation Queued := (Queued hstate).
Notation Track := (Track hstate).
Notation NE := (NE hstate).

Lemma Sim_IdsHi c L : Sim c L -> IdsHi hstate c.
Proof. intros S s Hs. pose proof (sim_le _ _ _ _ S s Hs). pose proof (sim_hi _ _ _ _ S). flia. Qed.

(* handleFrame went through on the stream, or the peer has been told why not *)
Lemma HFok_cases c2 s fr cX sX : HFok dec_field cfg c2 s fr cX sX -> (Recv c2 cX /\ same_send s sX) \/ AbortS (st_id s) cX.
Proof.
  unfold HFok. intro HF.
  pose proof (handle_frame_Recv _ dec_field cfg c2 s fr) as R.
  pose proof (handle_frame_eff _ dec_field cfg c2 s fr) as (SS & _ & _).
  destruct (handle_frame dec_field cfg c2 s fr) as [[c3 s3] e]. cbn [fst snd] in *.
  assert (I3 : st_id s3 = st_id s) by apply SS.
  destruct e as [[code|code|]|].
  - destruct HF as (_ & -> & _). right. right; right; left. apply sc_closing_write_goaway.
  - destruct HF as (-> & _). right. rewrite I3.
    destruct (write_reset_seen _ c3 (st_id s) code) as [H|H]; [right; left; rewrite sc_wl_dead_write_reset; exact H | right; right; right; exact H].
  - contradiction.
  - destruct HF as (-> & ->). left. split; assumption.
Qed.

Lemma Keeps_Origin sid c fr c1 s : Origin c fr c1 s -> sf_sid fr <> sid -> Keeps sid c c1.
Proof.
  intros O NE. destruct O as [s LE F | KH FD HI LA]; [apply Keeps_refl|].
  constructor; sc_cbn; [apply search_app_other; unfold new_strm; cbn; congruence | reflexivity | flia].
Qed.

Lemma Track_ClosesR sid B c1 c2 : ClosesR hstate c1 c2 -> Track sid B c1 -> Track sid B c2.
Proof.
  intros [CL _ Why] H. destruct (Why sid) as [E|Ab]; [|left; exact Ab].
  eapply Track_Keeps; [|apply FrameO_Closes, CL | exact H]. constructor; [exact E| |rewrite (cl_highestID _ _ _ CL); flia].
  destruct (out_quiet_noframe _ _ _ (cl_out _ _ _ CL)) as (new & En & Fn). rewrite En, rf_app, (rf_noframe _ _ Fn). reflexivity.
Qed.

Lemma Track_settings sid B c fr ni delta : Track sid B c ->
  Track sid B (emit (upd_strms (upd_initWin (settings_c0 enc_set_max c fr) ni) (map (bump delta) (sc_strms c))) OSettingsAck).
Proof.
  intro H. set (cS := emit _ _).
  destruct (settings_c0_fields _ enc_set_max c fr) as (E1 & E2 & E3 & E4 & E5 & E6).
  assert (RFS : rf sid (sc_out cS) = rf sid (sc_out c)).
  { unfold cS. rewrite rf_emit_noframe by reflexivity. sc_cbn. rewrite E6. reflexivity. }
  assert (HS : sc_highestID cS = sc_highestID c) by (unfold cS; rewrite sc_highestID_emit; sc_cbn; exact E5).
  assert (SS : strms_search (sc_strms cS) sid = match strms_search (sc_strms c) sid with Some s => Some (bump delta s) | None => None end).
  { unfold cS. rewrite sc_strms_emit. sc_cbn. apply search_map_bump. }
  assert (FO : FrameO c cS).
  { unfold cS. eapply (FrameO_Frame _ _ _ any_out).
    - eapply Frame_trans; [|apply Frame_emit]. eapply Frame_trans; [|apply Frame_upd_strms].
      eapply Frame_trans; [|apply Frame_upd_initWin]. unfold settings_c0. destruct (sf_set_hastable fr); [apply Frame_upd_enc | apply Frame_refl].
    - eapply out_ext_trans; [|apply (out_ext_emit _ any_out); exact I]. apply out_ext_same. sc_cbn. exact E6. }
  destruct H as [H|[H|H]].
  - left. eapply AbortS_FrameO; eassumption.
  - right; left. destruct H as (s & frames & F & PT & BS & PE & PN & (blk & Q) & R). exists (bump delta s), frames.
    rewrite SS, F. split; [reflexivity|]. split; [exact PT|]. split; [exact BS|]. split; [exact PE|]. split; [exact PN|].
    split; [exists blk; rewrite RFS; exact Q | exact R].
  - right; right. destruct H as (F & Hh & (frames & (blk & Q) & R)). split; [rewrite SS, F; reflexivity|]. split; [rewrite HS; exact Hh|].
    exists frames. split; [exists blk; rewrite RFS; exact Q | exact R].
Qed.

Lemma sl_frame_Track sid B c fr L : Sim c L -> NE c -> Track sid B c -> (sf_sid fr = sid -> sf_kind fr <> KRst) ->
  Track sid B (fst (sl_frame dec_field enc_set_max cfg c fr)).
Proof.
  intros S HN H NR.
  destruct (sl_frame_SLX _ dec_field enc_set_max cfg c fr)
    as [c' Q R G0 G1 HH | c' F O SD | Z K HW c0 newInit delta Fa | Z K W | NZ K | c1 s p NZ Or KH Hp | c1 s c2 cX sX NZ Or CL HF].
  - eapply Track_Keeps; [apply Keeps_Quiet, Q | apply FrameO_Quiet, Q | exact H].
  - left. left. exact SD.
  - pose proof (settings_Sim _ enc_set_max c fr L S) as S2. cbv zeta in S2. fold c0 newInit delta in S2.
    apply flush_streams_Track; [apply (sim_nodup _ _ _ _ S2) | eapply Sim_IdsHi; exact S2 | apply Track_settings, H].
  - pose proof (winupd_Sim _ c (sf_inc fr) L S) as S2.
    apply flush_streams_Track; [apply (sim_nodup _ _ _ _ S2) | eapply Sim_IdsHi; exact S2|].
    eapply Track_Keeps; [| |exact H].
    + constructor; sc_cbn; try reflexivity; try flia.
    + apply FrameO_same; [apply Frame_upd_clientWindow | reflexivity].
  - eapply Track_Keeps; [apply Keeps_Recv, Recv_credit | apply FrameO_Recv, Recv_credit | exact H].
  - left. right; right; left. unfold put. sc_cbn. apply sc_closing_write_goaway.
  - (* the frame is handled on its stream *)
    pose proof (cr_closes _ _ _ CL) as CL'.
    destruct (after_pre_Sim _ dec_field cfg c fr c1 s c2 cX sX L S NZ Or CL' HF) as (SX & _ & LeX & IdX & _).
    assert (Ids : st_id s = sf_sid fr) by (eapply Origin_id; exact Or).
    assert (FO1 : FrameO c c1) by (eapply FrameO_Frame; apply (Origin_Frame _ _ _ _ _ Or)).
    destruct (HFok_eff _ dec_field cfg c2 s fr cX sX HF) as (c3 & s3 & Rc & Qc & _).
    assert (FOX : FrameO c2 cX) by (eapply FrameO_trans; [apply FrameO_Recv, Rc | apply FrameO_Quiet, Qc]).
    assert (FA : forall c0, FrameO c0 (fst (after_frame cfg c0 sX fr (sc_closing c)))) by (intro; apply FrameO_NoCredit, after_frame_NoCredit).
    destruct (N.eq_dec (sf_sid fr) sid) as [E|NEq].
    + (* the tracked stream *)
      specialize (NR E).
      destruct H as [H|[H|H]].
      * left. eapply AbortS_FrameO; [|exact H].
        eapply FrameO_trans; [exact FO1|]. eapply FrameO_trans; [apply FrameO_Closes, CL'|]. eapply FrameO_trans; [exact FOX | apply FA].
      * destruct H as (s0 & frames & F & PT & BS & PE & PN & Q & CB & ES & FS).
        pose proof (strms_search_In _ _ _ F) as [Hin0 _].
        assert (c1 = c /\ s = s0) as [-> ->].
        { destruct Or as [s LE F' | KH FD HI LA]; [split; [reflexivity | congruence]|]. exfalso.
          destruct (sf_sid fr <=? sc_lastID c) eqn:LE; [congruence|]. pose proof (sim_le _ _ _ _ S s0 Hin0).
          pose proof (strms_search_In _ _ _ F) as [_ X]. flia. }
        (* closing streams below *)
        destruct (cr_why _ _ _ CL sid) as [E2|Ab].
        2:{ left. eapply AbortS_FrameO; [|exact Ab]. eapply FrameO_trans; [exact FOX | apply FA]. }
        assert (Q2 : Queued sid false frames c2).
        { destruct Q as (blk & Q). exists blk. destruct (out_quiet_noframe _ _ _ (cl_out _ _ _ CL')) as (new & En & Fn).
          rewrite En, rf_app, (rf_noframe _ _ Fn). exact Q. }
        destruct (HFok_cases _ _ _ _ _ HF) as [[RX SS]|Ab].
        2:{ left. rewrite <- E, <- Ids. eapply AbortS_FrameO; [apply FA | exact Ab]. }
        destruct (proj1 HN s0 Hin0) as [_ PC].
        destruct (sc_closing c) eqn:CLO.
        { left. eapply AbortS_FrameO; [|right; right; left; exact CLO].
          eapply FrameO_trans; [apply FrameO_Closes, CL'|]. eapply FrameO_trans; [exact FOX | apply FA]. }
        assert (St : st_state s0 <> SClosed) by (intro X; specialize (PC X); discriminate).
        eapply (after_frame_own _ cfg cX s0 sX fr false sid B frames); try eassumption.
        -- apply (sim_nodup _ _ _ _ SX).
        -- rewrite <- E, <- Ids, <- IdX. pose proof (sim_hi _ _ _ _ SX). flia.
        -- rewrite (rv_strms _ _ _ RX), E2. exact F.
        -- eapply Queued_Keeps; [apply Keeps_Recv, RX | exact Q2].
      * exfalso. destruct H as (F & Hh & _). destruct Or as [s LE F' | KH FD HI LA]; [congruence | flia].
    + (* another stream *)
      assert (NEs : st_id sX <> sid) by congruence.
      eapply Track_Keeps; [apply Keeps_after_frame; exact NEs | apply FA|].
      eapply Track_Keeps; [eapply Keeps_trans; [apply Keeps_Recv, Rc | apply Keeps_Quiet, Qc] | exact FOX|].
      eapply Track_ClosesR; [exact CL|].
      eapply Track_Keeps; [eapply Keeps_Origin; eassumption | exact FO1 | exact H].
Qed.

(* a handler returns: of another stream, or to no effect *)
Lemma sl_done_Keeps sid c sid' r :
  (forall s, strms_search (sc_strms c) sid' = Some s -> st_handlerRunning s = true -> sid' <> sid) ->
  Keeps sid c (fst (sl_done enc_field cfg c sid' r)).
Proof.
  intro HN. unfold sl_done.
  destruct (take_stream (sc_gone c) sid') as [[s rest]|].
  - cbn [fst cont]. apply Keeps_Quiet. eapply Quiet_trans; [|apply Quiet_release_stream].
    constructor; sc_cbn; first [reflexivity | flia | (left; reflexivity) | (intro; assumption) | (apply out_ext_same; reflexivity)].
  - destruct (strms_search (sc_strms c) sid') as [s|] eqn:F; [|apply Keeps_refl].
    destruct (negb (st_handlerRunning s)) eqn:RU; [apply Keeps_refl|].
    pose proof (strms_search_In _ _ _ F) as [Hin Hid].
    assert (NEq : sid' <> sid) by (apply (HN s eq_refl); destruct (st_handlerRunning s); [reflexivity | discriminate]).
    set (s1 := set_flags s (st_responded s) false (st_abandoned s)).
    destruct (finish_request_stream _ enc_field c s1 r) as (A1 & _ & _ & _ & A5 & A6 & A7). cbv zeta in *.
    destruct (finish_request enc_field c s1 r) as [[c1 s2] fin]. cbn [fst snd] in *.
    assert (I1 : st_id s1 = sid') by exact Hid.
    assert (K1 : Keeps sid c c1) by (eapply Keeps_ext; [exact A5 | rewrite A6; flia | exact A7 | congruence]).
    match goal with |- context [if ?b then brk ?x else cont ?x] => assert (G : Keeps sid c x) end.
    { eapply Keeps_trans; [exact K1|]. destruct fin.
      - eapply Keeps_trans; [apply Keeps_put | apply Keeps_close]; cbn [st_id set_state]; congruence.
      - apply Keeps_put. congruence. }
    match goal with |- context [if ?b then brk ?x else cont ?x] => destruct b end; cbn [fst cont]; [|exact G].
    eapply Keeps_trans; [exact G | apply Keeps_brk].
Qed.

Lemma sl_done_Track sid B c sid' r : Track sid B c -> Track sid B (fst (sl_done enc_field cfg c sid' r)).
Proof.
  intro H. pose proof (FrameO_NoCredit _ _ _ (sl_done_NoCredit _ enc_field cfg c sid' r)) as FO.
  destruct H as [H|H]; [left; eapply AbortS_FrameO; eassumption|].
  eapply Track_Keeps; [|exact FO | right; exact H]. apply sl_done_Keeps.
  intros s F RU ->. destruct H as [(s0 & frames & F0 & PT & _)|(F0 & _)]; [|congruence].
  assert (s0 = s) by congruence. subst s0. unfold phase in PT. rewrite RU, Bool.andb_false_r in PT. discriminate.
Qed.

(* the handler of the tracked stream returns a buffered body *)
Lemma sl_done_start sid B c r L : Sim c L -> NE c -> rs_body r = BBuffered B ->
  take_stream (sc_gone c) sid = None ->
  (exists s, strms_search (sc_strms c) sid = Some s /\ st_handlerRunning s = true) ->
  Track sid B (fst (sl_done enc_field cfg c sid r)).
Proof.
  intros S HN RB TG (s & F & RU).
  pose proof (FrameO_NoCredit _ _ _ (sl_done_NoCredit _ enc_field cfg c sid r)) as FO.
  destruct (alive_or_abort _ sid c) as [Ab|[WD SD]]; [left; eapply AbortS_FrameO; eassumption|].
  pose proof (strms_search_In _ _ _ F) as [Hin Hid].
  destruct (proj1 HN s Hin) as [[Pa Pb] Pc].
  assert (RS : st_responded s = true) by (apply Pa, RU).
  assert (PF : phase s = false) by (unfold phase; rewrite RU, Bool.andb_false_r; reflexivity).
  destruct (Pb PF) as [BS RF]. rewrite Hid in RF.
  assert (Hhi : sid <= sc_highestID c) by (rewrite <- Hid; eapply Sim_IdsHi; eassumption).
  unfold sl_done. rewrite TG, F, RU. cbn [negb].
  set (s1 := set_flags s (st_responded s) false (st_abandoned s)).
  unfold finish_request. rewrite RB. destruct (response_block enc_field (sc_enc c) r) as [blk e'].
  set (hb := match B with [] => false | _ => true end).
  set (c1 := emit (upd_enc c e') (OHeaders (st_id s1) (negb hb) blk)).
  assert (O1 : sc_out c1 = OHeaders sid (negb hb) blk :: sc_out c).
  { subst c1. rewrite sc_out_emit. sc_cbn. rewrite WD, SD. subst s1. cbn [st_id set_flags]. rewrite Hid. reflexivity. }
  assert (RF1 : rf sid (sc_out c1) = [OHeaders sid (negb hb) blk]).
  { rewrite O1. cbn [rf filter]. unfold on_sid at 1. cbn [frame_sid strip]. rewrite N.eqb_refl. fold (rf sid (sc_out c)). rewrite RF. reflexivity. }
  assert (T1 : sc_strms c1 = sc_strms c) by (subst c1; rewrite sc_strms_emit; reflexivity).
  assert (H1 : sc_highestID c1 = sc_highestID c) by (subst c1; rewrite sc_highestID_emit; reflexivity).
  assert (WD1 : sc_wl_dead c1 = false) by (subst c1; rewrite sc_wl_dead_emit; exact WD).
  assert (SD1 : sc_sl_done c1 = false) by (subst c1; rewrite sc_sl_done_emit; exact SD).
  destruct B as [|b0 B'].
  - (* no body: HEADERS with END_STREAM *)
    subst hb. cbn [negb fst snd].
    set (s3 := set_state s1 SClosed). set (c3 := close_stream (put c1 s3) s3).
    assert (G : Complete sid [] c3).
    { split; [|split].
      - subst c3. rewrite sc_strms_close_stream. unfold put. sc_cbn. rewrite T1.
        assert (I3 : st_id s3 = sid) by exact Hid. rewrite I3. rewrite <- I3 at 1 2. rewrite I3 at 2.
        rewrite <- I3. apply search_del_same. rewrite strms_put_ids. apply (sim_nodup _ _ _ _ S).
      - subst c3. rewrite sc_highestID_close_stream. unfold put. sc_cbn. rewrite H1. exact Hhi.
      - exists []. split; [|split; [reflexivity | split; [reflexivity | constructor]]].
        exists blk. subst c3. destruct (out_quiet_noframe _ _ _ (close_stream_out _ (put c1 s3) s3)) as (new & E & Fn).
        rewrite E, rf_app, (rf_noframe _ _ Fn). exact RF1. }
    match goal with |- context [if ?b then brk c3 else cont c3] => destruct b end; cbn [fst cont]; [left; left; reflexivity | right; right; exact G].
  - (* a body *)
    subst hb. cbn [negb].
    set (B := b0 :: B') in *.
    match goal with |- context [send_data c1 ?x] => set (s2 := x) end.
    assert (Q1 : Queued sid false [] c1) by (exists blk; exact RF1).
    destruct (send_live _ c1 s2 sid B [] Hid BS eq_refl ltac:(discriminate) WD1 SD1 Q1 eq_refl eq_refl ltac:(constructor))
      as (frames' & Q' & FS' & I2 & St2 & R2 & Ru2 & BS2 & PE2 & T2 & SD2 & WD2 & CL2 & X).
    destruct (send_data_stream _ c1 s2) as (_ & _ & _ & _ & _ & A6 & _).
    cbv zeta in *. destruct (send_data c1 s2) as [[c2 s4] fin]. cbn [fst snd] in *.
    destruct fin.
    + destruct X as (CB' & ES' & P2).
      set (s3 := set_state s4 SClosed). set (c3 := close_stream (put c2 s3) s3).
      assert (G : Complete sid B c3).
      { split; [|split].
        - subst c3. rewrite sc_strms_close_stream. unfold put. sc_cbn. rewrite T2, T1.
          assert (I3 : st_id s3 = sid) by exact I2. rewrite I3. rewrite <- I3 at 1 2. rewrite I3 at 2.
          rewrite <- I3. apply search_del_same. rewrite strms_put_ids. apply (sim_nodup _ _ _ _ S).
        - subst c3. rewrite sc_highestID_close_stream. unfold put. sc_cbn. rewrite A6, H1. exact Hhi.
        - exists frames'. split; [|split; [exact CB' | split; [exact ES' | exact FS']]].
          destruct Q' as (blk' & Q'). exists blk'. subst c3.
          destruct (out_quiet_noframe _ _ _ (close_stream_out _ (put c2 s3) s3)) as (new & E & Fn).
          rewrite E, rf_app, (rf_noframe _ _ Fn). exact Q'. }
      match goal with |- context [if ?b then brk c3 else cont c3] => destruct b end; cbn [fst cont]; [left; left; reflexivity | right; right; exact G].
    + destruct X as (PN' & CB' & ES').
      assert (G : Live sid B (put c2 s4)).
      { exists s4, frames'. split; [unfold put; sc_cbn; rewrite T2, T1, <- I2; eapply search_put_same; rewrite I2; exact F|].
        split; [unfold phase; rewrite R2, Ru2; subst s2 s1; cbn [st_responded st_handlerRunning set_snd set_flags]; rewrite RS; reflexivity|].
        repeat (split; [assumption|]). assumption. }
      match goal with |- context [if ?b then brk ?x else cont ?x] => destruct b end; cbn [fst cont]; [left; left; reflexivity | right; left; exact G].
Qed.

End TrackC.
