(* Proofs/SrvInvC13.v - the statements of Props/C13.v (a)(b)(c), from the structural invariant. *)
From H2V Require Import Base.Bytes Base.MachineInt Base.Result Gen.GenConsts Impl.ServerConn Proofs.SrvBase
  Proofs.SrvInvMoves Proofs.SrvInvDecomp Proofs.SrvInvSteps Proofs.SrvInvSlots.
From Coq Require Import ZArith Lia ZifyN ZifyNat ZifyBool Permutation.
Local Open Scope N_scope.

Section C13.
Variable hstate : Type.
Variable dec_field : hstate -> N -> bytes -> dec_res hstate.
Variable enc_field : hstate -> bytes -> bytes -> bool -> bytes * hstate.
Variable enc_set_max : hstate -> N -> hstate.
Variable cfg : config.
Variable h0 : hstate.
Notation Q := QT.
Notation sconn := (sconn hstate).
Notation mv := (mv hstate dec_field cfg Q).
Notation mvs := (mvs hstate dec_field cfg Q).
Notation step := (step dec_field enc_field enc_set_max cfg).
Notation run := (run dec_field enc_field enc_set_max cfg h0).
Notation SI := (SI cfg Q).

(* (a) the handlers running never exceed the open-stream count, which never exceeds the limit *)
Theorem slots_bound evs :
  let c := run evs in (0 <= running c <= sc_open c)%Z /\ (sc_open c <= Z.max 0 (cf_maxStreams cfg))%Z.
Proof. apply (SI_slots _ dec_field enc_field enc_set_max cfg h0 _ Q). apply SI_run_T. Qed.

(* the open-stream count is exactly: HEADERS-opened streams in the table + abandoned streams whose handler runs *)
Theorem open_exact evs :
  let c := run evs in
  sc_open c = (count_hdr (sc_strms c) + Z.of_nat (length (sc_gone c)))%Z /\
  Forall (fun s => st_orig s = KHeaders /\ st_handlerRunning s = true) (sc_gone c).
Proof. destruct (SI_run_T _ dec_field enc_field enc_set_max cfg h0 evs). split; assumption. Qed.

(* an abandoned stream stays in sc_gone (and so keeps its slot) until an EvDone takes it out *)
Lemma mv_gone_kept a b : mv None a b -> incl (sc_gone a) (sc_gone b).
Proof.
  intro M. remember None as o eqn:EO. destruct M; try discriminate EO; sc_rw; try apply incl_refl.
  - rewrite (lite_gone _ _ _ _ H0). apply incl_refl.
  - rewrite sc_gone_close_stream. destruct (st_handlerRunning x); [apply incl_tl|]; apply incl_refl.
  - destruct H0 as [SC _]. destruct SC as (_ & S2 & _). rewrite S2. apply incl_refl.
Qed.
Lemma mvs_gone_kept l a b : mvs l a b -> l = [] -> incl (sc_gone a) (sc_gone b).
Proof.
  induction 1 as [c|o l a b c M MS IH]; intro E; [apply incl_refl|]. destruct o; [discriminate|].
  eapply incl_tran; [apply mv_gone_kept; exact M | apply IH; exact E].
Qed.
Lemma omvs_gone_kept pc a b : omvs hstate pc a b -> sc_gone b = sc_gone a.
Proof. induction 1 as [c|a b c M MS IH]; [reflexivity|]. rewrite IH. destruct M; sc_rw; reflexivity. Qed.

Theorem abandoned_keeps_slot evs e :
  (forall sid r, e <> EvDone sid r) -> incl (sc_gone (run evs)) (sc_gone (step (run evs) e)).
Proof.
  intro NE. pose proof (SI_run_T _ dec_field enc_field enc_set_max cfg h0 evs) as HS.
  assert (SH := step_shape hstate dec_field enc_field enc_set_max cfg Q
           (QT_closed _ dec_field cfg) (run evs) e (SI_ids_ok _ _ _ _ HS)).
  destruct e; try (destruct SH as (c0 & O & M); rewrite <- (omvs_gone_kept _ _ _ O); apply (mvs_gone_kept _ _ _ M eq_refl)).
  exfalso. eapply NE. reflexivity.
Qed.

(* (b) the closed-stream memory *)
Theorem ring_bound evs : (length (sc_ring (run evs)) <= 256)%nat.
Proof. eapply si_ring. apply SI_run_T. Qed.

(* (c) the stream table: bounded by the open-stream count, not by the number of frames *)
Theorem table_bound evs :
  let c := run evs in
  (Z.of_nat (length (sc_strms c)) <= sc_open c + 1)%Z /\
  (sc_sl_done c = false -> Forall (fun s => st_orig s = KHeaders) (sc_strms c) /\
                           (Z.of_nat (length (sc_strms c)) <= sc_open c)%Z).
Proof.
  intro c. pose proof (SI_run_T _ dec_field enc_field enc_set_max cfg h0 evs) as HS. fold c in HS.
  pose proof (si_open _ _ _ _ HS) as O. pose proof (si_len _ _ _ _ HS) as L. pose proof (si_hdrs _ _ _ _ HS) as A.
  split; [lia|]. intro Hd. split; [auto|]. rewrite (count_hdr_all _ (A Hd)) in O. lia.
Qed.

End C13.
