(* Proofs/SrvFlowCMono.v - C06 completion: what never goes back in a run: the stream loop and the write loop do not
   come back to life, a closing connection stays closing, the trace only grows. *)
From H2V Require Import Base.Bytes Base.MachineInt Base.Result Gen.GenConsts Impl.ServerConn Proofs.SrvBase
  Spec.FlowLedger Proofs.SrvFlowLedger Proofs.SrvFlowDefs Proofs.SrvFlowSend Proofs.SrvFlowEff Proofs.SrvFlowSafe
  Proofs.SrvFlowSafeB Proofs.SrvFlowSafeC Proofs.SrvFlowRecv Proofs.SrvFlowCDecomp.
From Coq Require Import ZArith Lia ZifyN ZifyNat ZifyBool List.
Import ListNotations.
Local Open Scope N_scope.
Set Default Proof Using "Type".

Section Mono.
Variable hstate : Type.
Variable dec_field : hstate -> N -> bytes -> dec_res hstate.
Variable enc_field : hstate -> bytes -> bytes -> bool -> bytes * hstate.
Variable enc_set_max : hstate -> N -> hstate.
Variable cfg : config.
Notation sconn := (sconn hstate).
Implicit Types c : sconn.

Definition any_out (o : outev) : Prop := True.

(* what a piece of the stream loop does to the flags, and a longer trace *)
Record FrameO c c' : Prop := mkFrameO {
  fo_wl : sc_wl_dead c' = sc_wl_dead c;
  fo_sl : sc_sl_done c' = sc_sl_done c \/ sc_sl_done c' = true;
  fo_closing : sc_closing c = true -> sc_closing c' = true;
  fo_hi : sc_highestID c <= sc_highestID c';
  fo_out : out_ext any_out c c'
}.

Lemma out_any P c c' : out_ext P c c' -> out_ext any_out c c'.
Proof. apply out_ext_weaken. intros; exact I. Qed.
Lemma FrameO_refl c : FrameO c c.
Proof. constructor; auto; [flia | apply out_ext_refl]. Qed.
Lemma FrameO_trans a b c : FrameO a b -> FrameO b c -> FrameO a c.
Proof.
  intros [a1 a2 a3 a4 a5] [b1 b2 b3 b4 b5]. constructor.
  - congruence.
  - destruct b2 as [E|E]; [rewrite E; exact a2 | right; exact E].
  - auto.
  - flia.
  - eapply out_ext_trans; eassumption.
Qed.
Lemma FrameO_Frame c c' P : Frame c c' -> out_ext P c c' -> FrameO c c'.
Proof. intros [] O. constructor; try assumption. eapply out_any, O. Qed.
Lemma FrameO_Quiet c c' : Quiet c c' -> FrameO c c'.
Proof. intro Q. eapply FrameO_Frame; [apply Quiet_Frame, Q | apply Q]. Qed.
Lemma FrameO_NoCredit c c' : NoCredit hstate c c' -> FrameO c c'.
Proof. intros [F O]. eapply FrameO_Frame; eassumption. Qed.
Lemma FrameO_Closes c c' : Closes c c' -> FrameO c c'.
Proof. intro Q. eapply FrameO_Frame; apply Q. Qed.
Lemma FrameO_Recv c c' : Recv c c' -> FrameO c c'.
Proof.
  intros []. constructor; [assumption | left; assumption | congruence | rewrite rv_highestID; flia | eapply out_any; eassumption].
Qed.
Lemma FrameO_same c c' : Frame c c' -> sc_out c' = sc_out c -> FrameO c c'.
Proof. intros F E. eapply (FrameO_Frame _ _ any_out); [exact F | apply out_ext_same, E]. Qed.

Lemma sl_frame_FrameO c fr : FrameO c (fst (sl_frame dec_field enc_set_max cfg c fr)).
Proof.
  destruct (sl_frame_SLX _ dec_field enc_set_max cfg c fr)
    as [c' Q R G0 G1 HH | c' F O SD | Z K HW c0 newInit delta Fa | Z K W | NZ K | c1 s p NZ Or KH Hp | c1 s c2 cX sX NZ Or CL HF].
  - apply FrameO_Quiet, Q.
  - eapply FrameO_Frame; eassumption.
  - eapply FrameO_trans; [|apply FrameO_NoCredit, flush_streams_NoCredit].
    eapply (FrameO_Frame _ _ any_out).
    + eapply Frame_trans; [|apply Frame_emit]. eapply Frame_trans; [|apply Frame_upd_strms].
      eapply Frame_trans; [|apply Frame_upd_initWin]. unfold c0, settings_c0. destruct (sf_set_hastable fr); [apply Frame_upd_enc | apply Frame_refl].
    + eapply out_ext_trans; [|apply (out_ext_emit _ any_out); exact I]. apply out_ext_same. sc_cbn.
      unfold c0, settings_c0. destruct (sf_set_hastable fr); reflexivity.
  - eapply FrameO_trans; [|apply FrameO_NoCredit, flush_streams_NoCredit].
    apply FrameO_same; [apply Frame_upd_clientWindow | reflexivity].
  - apply FrameO_Recv, Recv_credit.
  - eapply FrameO_trans; [eapply FrameO_Frame; apply (Origin_Frame _ _ _ _ _ Or)|].
    eapply FrameO_trans; [apply FrameO_Quiet, Quiet_write_goaway|]. apply FrameO_same; [apply Frame_put | reflexivity].
  - eapply FrameO_trans; [eapply FrameO_Frame; apply (Origin_Frame _ _ _ _ _ Or)|].
    eapply FrameO_trans; [apply FrameO_Closes, CL|].
    destruct (HFok_eff _ dec_field cfg c2 s fr cX sX HF) as (c3 & s3 & R & Q & _).
    eapply FrameO_trans; [apply FrameO_Recv, R|]. eapply FrameO_trans; [apply FrameO_Quiet, Q|].
    apply FrameO_NoCredit, after_frame_NoCredit.
Qed.

Notation step := (step dec_field enc_field enc_set_max cfg).

(* one step of the model *)
Record Mono c c' : Prop := mkMono {
  m_sl : sc_sl_done c = true -> sc_sl_done c' = true;
  m_wl : sc_wl_dead c = true -> sc_wl_dead c' = true;
  m_closing : sc_closing c = true -> sc_closing c' = true;
  m_hi : sc_sl_done c' = false -> sc_highestID c <= sc_highestID c';
  m_out : exists new, sc_out c' = new ++ sc_out c
}.

Lemma Mono_refl c : Mono c c.
Proof. constructor; auto; [intros; flia | exists []; reflexivity]. Qed.

Lemma Mono_trans a b c : Mono a b -> Mono b c -> (sc_sl_done c = false -> sc_sl_done b = false) -> Mono a c.
Proof.
  intros [a1 a2 a3 a4 (n1 & a5)] [b1 b2 b3 b4 (n2 & b5)] H. constructor; auto.
  - intro X. specialize (b4 X). specialize (a4 (H X)). flia.
  - exists (n2 ++ n1). rewrite b5, a5, app_assoc. reflexivity.
Qed.

Lemma Mono_FrameO c c' : FrameO c c' -> Mono c c'.
Proof.
  intros [f1 f2 f3 f4 (new & E & _)]. constructor.
  - intro H. destruct f2 as [X|X]; congruence.
  - intro H. rewrite f1. exact H.
  - exact f3.
  - intros _. exact f4.
  - exists new. exact E.
Qed.

Lemma step_Mono c e : Mono c (step c e).
Proof.
  destruct e as [i| |sid r|t| | | |].
  - rewrite step_EvRL. destruct (sc_rl_done c); [apply Mono_refl|].
    destruct (rl_step_eff _ cfg c i) as [[r1 r2 r3 r4 r5 r6 r7 r8 r9 (new & E & _)] _].
    constructor; [congruence | congruence | exact r9 | intros; rewrite r6; flia | exists new; exact E].
  - rewrite step_EvSL. destruct (sc_sl_done c) eqn:SD; [apply Mono_refl|].
    destruct (sc_readerQ c) as [|fr q].
    + destruct (sc_rl_done c); [|apply Mono_refl]. constructor; sc_cbn; auto; [discriminate | eexists [_]; reflexivity].
    + pose proof (sl_frame_FrameO (upd_readerQ c q) fr) as M. apply Mono_FrameO in M.
      destruct M as [a1 a2 a3 a4 a5]. constructor; auto.
  - rewrite step_EvDone. destruct (sc_sl_done c) eqn:SD; [apply Mono_refl|].
    apply Mono_FrameO, FrameO_NoCredit, sl_done_NoCredit.
  - rewrite step_EvClock. destruct (sc_now c <? t)%Z; [|apply Mono_refl].
    constructor; sc_cbn; auto; [intros; flia | exists []; reflexivity].
  - rewrite step_EvTimer. destruct (sc_sl_done c) eqn:SD; [apply Mono_refl|].
    apply Mono_FrameO, FrameO_NoCredit, sl_timer_NoCredit.
  - rewrite step_EvIdle.
    assert (Q : Quiet c (upd_closer (write_goaway c 0 c_NoError) true)).
    { eapply Quiet_trans; [apply Quiet_write_goaway|].
      constructor; sc_cbn; first [reflexivity | flia | (left; reflexivity) | (intro; assumption) | (apply out_ext_same; reflexivity)]. }
    apply Mono_FrameO, FrameO_Quiet, Q.
  - rewrite step_EvCloser. destruct (sc_closer c && negb (sc_sl_done c)); [|apply Mono_refl].
    apply Mono_FrameO, FrameO_Quiet, Quiet_brk.
  - rewrite step_EvWriteFail. constructor; sc_cbn; auto; [intros; flia | exists []; reflexivity].
Qed.

Lemma run_from_Mono evs : forall c, Mono c (run_from dec_field enc_field enc_set_max cfg c evs).
Proof.
  induction evs as [|e evs IH]; intro c; [apply Mono_refl|]. rewrite run_from_cons.
  eapply Mono_trans; [apply step_Mono | apply IH|].
  intro H. destruct (sc_sl_done (step c e)) eqn:E; [|reflexivity].
  rewrite (m_sl _ _ (IH (step c e)) E) in H. discriminate.
Qed.

End Mono.
