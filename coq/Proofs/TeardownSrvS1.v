(* Proofs/TeardownSrvS1.v -- blocking-structure model (Impl/Teardown.v), server, S1: progress, termination, the ping timer winds down.
   Statements: Props/Teardown.v; overview: Proofs/TeardownProofs.v. *)
From Coq Require Import Arith Lia Bool List.
From RecordUpdate Require Import RecordSet.
Import RecordSetNotations.
Import ListNotations.
From H2V Require Import Impl.Teardown Proofs.TeardownGen Proofs.TeardownSrvInv.

Module SrvP1.
Import Srv SrvP.

Section P.
Variable cap : nat.
Hypothesis cap_pos : 1 <= cap.
Notation guard := (Srv.guard cap).
Notation reachable := (Srv.reachable cap).
Notation inv := (SrvP.inv cap).

Definition proc_act (a : act) : Prop := is_env a = false.

Ltac fire a := right; exists a; split; [reflexivity | cbn; repeat split; eauto; try lia].

(* S1, deadlock freedom: with the peer gone, either nothing is left of the connection but handlers
   in user code and armed timers, or some goroutine can take a step. *)
Lemma progress_dead : forall s, inv s -> dead s = true ->
  quiet s \/ exists a, proc_act a /\ guard a s.
Proof.
  intros s I D. destruct I.
  (* the write loop moves unless parked in its select or gone *)
  destruct (wl s) eqn:Ewl.
  2:{ fire WSockFail. }
  2:{ destruct (Nat.eq_dec (wr s) 0); [fire WDrainEmpty | fire WDrainTake]. }
  2:{ fire WFlushRet. }
  2:{ fire WSockClose. }
  2:{ fire WDoneClose. }
  - (* WSelect *)
    destruct (Nat.eq_dec (wr s) 0) as [Ewr|]; [|fire WTake].
    destruct (sl s) eqn:Esl.
    + (* SSelect *)
      destruct (closer s) eqn:?; [fire SCloser|].
      destruct (Nat.eq_dec (hd s) 0); [|fire STakeHd].
      destruct (rt s) eqn:?; [fire STakeTimer|].
      destruct (Nat.eq_dec (rd s) 0); [|fire (STakeRd false false)].
      destruct (sv s) eqn:Esv.
      * fire RReadFail.
      * fire RFwdSend.
      * fire (RWr ViaQueue).
      * fire VStopTimers.
      * fire VCloseReader.
      * fire SRdClosed.
      * fire SRdClosed.
    + fire SBodyCont.
    + fire (SWr ViaQueue).
    + fire SCloseHStop.
    + fire SStopPing.
    + fire SCloseWStop.
    + cbn in *. fire WStop.
  - (* WDone: writeDone is closed *)
    cbn in i_wdone0.
    destruct (sl s) eqn:Esl.
    + destruct (closer s) eqn:?; [fire SCloser|].
      destruct (Nat.eq_dec (hd s) 0); [|fire STakeHd].
      destruct (rt s) eqn:?; [fire STakeTimer|].
      destruct (Nat.eq_dec (rd s) 0); [|fire (STakeRd false false)].
      destruct (sv s) eqn:Esv.
      * fire RReadFail.
      * fire RFwdSend.
      * fire (RWr ViaDone).
      * fire VStopTimers.
      * fire VCloseReader.
      * fire SRdClosed.
      * fire SRdClosed.
    + fire SBodyCont.
    + fire (SWr ViaDone).
    + fire SCloseHStop.
    + fire SStopPing.
    + fire SCloseWStop.
    + cbn in *.
      destruct (sv s) eqn:Esv.
      * fire RReadFail.
      * fire RFwdStop.
      * fire (RWr ViaDone).
      * fire VStopTimers.
      * fire VCloseReader.
      * fire VWaitDone.
      * destruct (Nat.eq_dec (h_send s) 0); [|fire HStop].
        destruct (Nat.eq_dec (Srv.i_wr s) 0); [|fire (IWr ViaDone)].
        destruct (Nat.eq_dec (i_cl s) 0); [|fire ICloseCloser].
        destruct (pg s) eqn:Epg.
        -- left; repeat split; auto; congruence.
        -- fire (PWr ViaDone).
        -- fire PCheckStop.
        -- fire PRearm.
        -- left; repeat split; auto; congruence.
Qed.

(* S1, termination: every action that is not a frame arriving, the request timer or the ping
   timer firing lowers the rank (SrvP.rank_decreases); so a path without those has at most
   [rank s] steps. *)
Definition no_refill (a : act) : Prop := refills a = false.

Theorem bounded_paths : forall s l s',
  path guard eff no_refill s l s' -> length l + rank s' <= rank s.
Proof.
  intros s l s' H.
  eapply (path_length_rank guard eff no_refill (fun _ => True) rank); eauto.
  intros; apply (rank_decreases cap); auto.
Qed.

Lemma dead_stable : forall s a, dead s = true -> dead (eff a s) = true.
Proof.
  unfold dead; intros s a H. apply orb_true_iff in H. apply orb_true_iff.
  destruct a; try destruct c; cbn; tauto.
Qed.

Lemma gone_stable : forall s a, gone s = true -> gone (eff a s) = true.
Proof. intros s a H; destruct a; try destruct c; cbn; auto. Qed.

(* S1, conclusion: from a reachable state where the peer is gone, the goroutines can always run
   to the quiet state, in at most [rank s] steps of their own ... *)
Theorem can_finish : forall n s, reachable s -> dead s = true -> rank s <= n ->
  exists l s', path guard eff proc_act s l s' /\ quiet s' /\ length l <= n.
Proof.
  induction n; intros s R D Hn.
  - destruct (progress_dead s (reachable_inv cap s R) D) as [Q|(a & Pa & G)].
    + exists [], s; split; [apply path_nil | split; [auto | cbn; lia]].
    + assert (refills a = false) by (destruct a; auto; discriminate).
      pose proof (rank_decreases cap s a H G). lia.
  - destruct (progress_dead s (reachable_inv cap s R) D) as [Q|(a & Pa & G)].
    + exists [], s; split; [apply path_nil | split; [auto | cbn; lia]].
    + assert (refills a = false) by (destruct a; auto; discriminate).
      pose proof (rank_decreases cap s a H G).
      destruct (IHn (eff a s)) as (l & s' & Hp & Hq & Hl).
      * apply reach_step; auto.
      * apply dead_stable; auto.
      * lia.
      * exists (a :: l), s'; split; [apply path_cons; auto | split; [auto | cbn; lia]].
Qed.

(* ... and whatever they do, they cannot avoid it: a sequence of their steps that cannot be
   extended ends in the quiet state. *)
Theorem must_finish : forall s l s', reachable s -> dead s = true ->
  path guard eff proc_act s l s' -> (forall a, proc_act a -> ~ guard a s') -> quiet s'.
Proof.
  intros s l s' R D Hp Hmax.
  assert (reachable s' /\ dead s' = true) as (R' & D').
  { clear Hmax. induction Hp; auto. apply IHHp; [apply reach_step; auto | apply dead_stable; auto]. }
  destruct (progress_dead s' (reachable_inv cap s' R') D') as [Q|(a & Pa & G)]; auto.
  exfalso; eapply Hmax; eauto.
Qed.

(* the three loops stay exited *)
Lemma loops_exited_stable : forall s a, loops_exited s -> guard a s -> loops_exited (eff a s).
Proof.
  unfold loops_exited; intros s a (H1 & H2 & H3) G.
  destruct a; try destruct c; cbn in G |- *; break; try congruence; auto.
Qed.

(* once they have, nothing that is left can park: handlers that return, and the callbacks of
   timers that were re-armed, all find handlerStop / writeStop closed *)
Lemma exited_never_parks : forall s, inv s -> loops_exited s ->
  (0 < h_send s -> guard HStop s) /\ (pg s = PWrite -> guard (PWr ViaStop) s) /\
  (0 < Srv.i_wr s -> guard (IWr ViaStop) s).
Proof.
  intros s [] (H1 & H2 & H3). rewrite H2 in *; cbn in *. repeat split; auto.
Qed.

(* the ping timer winds down once writeStop is closed (sendPingAndSchedule checks it before
   re-arming): the potential never rises, every step of the timer lowers it -- so after that the
   timer fires at most once more (a callback that passed the check just before the close) *)
Lemma wstop_stable : forall s a, wstop s = true -> wstop (eff a s) = true.
Proof. intros s a H; destruct a; try destruct c; cbn; auto. Qed.

Theorem ping_winds_down : forall s a, wstop s = true -> guard a s ->
  pg_pot (pg (eff a s)) <= pg_pot (pg s) /\
  (pg_act a = true -> pg_pot (pg (eff a s)) < pg_pot (pg s)).
Proof.
  intros s a W G.
  destruct a; try destruct c; cbn in G; break; cbn; rw_pcs; cbn; try (split; [lia | intros; try discriminate; lia]).
  all: try congruence.
  all: destruct (pg s); cbn; split; try lia; intros; discriminate.
Qed.

Theorem ping_bounded_after_close : forall s l s', wstop s = true ->
  path guard eff (fun _ => True) s l s' -> count_pg l + pg_pot (pg s') <= pg_pot (pg s).
Proof.
  intros s l s' W H. induction H; cbn; [lia|].
  specialize (IHpath (wstop_stable _ _ W)).
  destruct (ping_winds_down _ _ W H0) as (H2 & H3).
  destruct (pg_act a); [specialize (H3 eq_refl)|]; lia.
Qed.
End P.
End SrvP1.
