(* C05, write half: WriteTo puts on the wire exactly the RFC encoding of the frame the
   API value stands for. *)
From Coq Require Import List NArith ZArith Bool Lia.
From Coq Require Import ZifyN ZifyNat ZifyBool.
From H2V Require Import Base.Bytes Base.MachineInt Base.Result Gen.GenConsts Spec.Rfc7540Frames
  Impl.Pools Impl.Frames Impl.FrameView Proofs.FramesBits Proofs.FramesSpec.
Import ListNotations.
Local Open Scope N_scope.
Ltac Zify.zify_post_hook ::= Z.div_mod_to_equations.

(* ---- flags: with(f, on) on an octet; all 256 octets x both values checked ---- *)
Definition set_bit_ok (fl : N) : bool :=
  forallb (fun on : bool =>
    forallb (fun ib : N * N =>
      let r := set_bit fl (snd ib) on in
      (r <? 256) &&
      forallb (fun j => Bool.eqb (flag r j) (if fst ib =? j then on else flag fl j)) [0; 1; 2; 3; 4; 5; 6; 7])
      [(0, 1); (2, 4); (3, 8); (5, 32)])
    [true; false].

Lemma set_bit_table : forallb set_bit_ok (map N.of_nat (seq 0 256)) = true.
Proof. vm_compute. reflexivity. Qed.

Lemma set_bit_spec fl i bit on j :
  fl < 256 -> In (i, bit) [(0, 1); (2, 4); (3, 8); (5, 32)] -> In j [0; 1; 2; 3; 4; 5; 6; 7] ->
  set_bit fl bit on < 256 /\ flag (set_bit fl bit on) j = (if i =? j then on else flag fl j).
Proof.
  intros H Ib Ij. pose proof set_bit_table as T. rewrite forallb_forall in T.
  assert (In fl (map N.of_nat (seq 0 256))) as I.
  { replace fl with (N.of_nat (N.to_nat fl)) by apply N2Nat.id. apply in_map. apply in_seq. lia. }
  specialize (T _ I). unfold set_bit_ok in T. rewrite forallb_forall in T.
  assert (In on [true; false]) as Io by (destruct on; cbn; auto).
  specialize (T _ Io). rewrite forallb_forall in T. specialize (T _ Ib). cbn [fst snd] in T.
  apply andb_prop in T. destruct T as [T1 T2]. rewrite forallb_forall in T2. specialize (T2 _ Ij).
  split; [apply N.ltb_lt; exact T1|apply Bool.eqb_prop; exact T2].
Qed.

Lemma set_bit_lt fl i bit on : fl < 256 -> In (i, bit) [(0, 1); (2, 4); (3, 8); (5, 32)] -> set_bit fl bit on < 256.
Proof. intros H I. apply (set_bit_spec fl i bit on 0 H I). cbn; auto. Qed.

Ltac inl := cbn [In]; auto 10.
Ltac sbr t := let X := fresh "X" in assert (X := t); destruct X as [_ X]; [inl|inl|rewrite X; clear X].

Lemma flags_of_lt pre bd : pre < 256 -> flags_of pre bd < 256.
Proof.
  intros H. destruct bd; cbn [flags_of]; try assumption;
    repeat first [ assumption
                 | eapply (set_bit_lt _ 0 1); [|inl] | eapply (set_bit_lt _ 2 4); [|inl]
                 | eapply (set_bit_lt _ 3 8); [|inl] | eapply (set_bit_lt _ 5 32); [|inl] ].
Qed.

(* the PADDED / PRIORITY / ACK bits that go out are the ones the body asks for *)
Lemma flag_padded_data pre es hp b : pre < 256 -> flag (flags_of pre (BData es hp b)) PADDED = hp.
Proof.
  intros H. cbn [flags_of]. unfold PADDED, PRIORITY_FLAG, ACK.
  assert (set_bit pre 1 es < 256) as H1 by (eapply (set_bit_lt _ 0 1); [assumption|inl]).
  sbr (set_bit_spec (set_bit pre 1 es) 3 8 hp 3 H1). reflexivity.
Qed.

Lemma flags_headers pre hp st w es eh pr raw : pre < 256 ->
  flag (flags_of pre (BHeaders hp st w es eh pr raw)) PADDED = hp /\
  flag (flags_of pre (BHeaders hp st w es eh pr raw)) PRIORITY_FLAG = pr.
Proof.
  intros H. cbn [flags_of]. unfold PADDED, PRIORITY_FLAG, ACK.
  assert (set_bit pre 1 es < 256) as H1 by (eapply (set_bit_lt _ 0 1); [assumption|inl]).
  assert (set_bit (set_bit pre 1 es) 4 eh < 256) as H2 by (eapply (set_bit_lt _ 2 4); [assumption|inl]).
  assert (set_bit (set_bit (set_bit pre 1 es) 4 eh) 32 pr < 256) as H3 by (eapply (set_bit_lt _ 5 32); [assumption|inl]).
  split.
  - sbr (set_bit_spec _ 3 8 hp 3 H3). reflexivity.
  - sbr (set_bit_spec _ 3 8 hp 5 H3). cbn [N.eqb Pos.eqb].
    sbr (set_bit_spec _ 5 32 pr 5 H2). reflexivity.
Qed.

Lemma flag_ack_settings pre st : pre < 256 -> flag (flags_of pre (BSettings st)) ACK = st_ack st.
Proof.
  intros H. cbn [flags_of]. unfold ACK. sbr (set_bit_spec pre 0 1 (st_ack st) 0 H). reflexivity.
Qed.

Lemma flag_padded_pp pre pad ended st hdr : pre < 256 ->
  flag (flags_of pre (BPushPromise pad ended st hdr)) PADDED = false.
Proof.
  intros H. cbn [flags_of]. unfold PADDED, PRIORITY_FLAG, ACK.
  assert (set_bit pre 4 ended < 256) as H1 by (eapply (set_bit_lt _ 2 4); [assumption|inl]).
  sbr (set_bit_spec _ 3 8 false 3 H1). reflexivity.
Qed.

(* ---- Serialize ---- *)

Lemma len_repeat0 n : len (repeat 0 (N.to_nat n)) = n.
Proof. unfold len. rewrite repeat_length. apply N2Nat.id. Qed.

Lemma add_padding_spec b n : 9 <= n -> n < 256 ->
  add_padding b n = Ok (with_pad (Some (repeat 0 (N.to_nat n))) b).
Proof.
  intros L H. unfold add_padding, with_pad.
  assert (len b + n =? 0 = false) as -> by (apply N.eqb_neq; lia).
  rewrite len_repeat0, u8_small by assumption. reflexivity.
Qed.

Lemma low31_mod s : N.land s mask31 = s mod 2 ^ 31.
Proof. apply mask31_low31. Qed.

Lemma word31_false v : word31 false v = v.
Proof. reflexivity. Qed.

Lemma settings_encode_spec st :
  settings_encode st = flat_map setting_bytes (sent_settings st).
Proof.
  unfold settings_encode, sent_settings.
  change c_defaultHeaderTableSize with 4096. change c_defaultWindowSize with 65535.
  change c_defaultDataFrameSize with 16384.
  change c_HeaderTableSize with 1. change c_EnablePush with 2. change c_MaxConcurrentStreams with 3.
  change c_MaxWindowSize with 4. change c_MaxFrameSize with 5. change c_MaxHeaderListSize with 6.
  rewrite !flat_map_app, !setting_entry_be.
  destruct (st_tableSize st =? 4096); destruct (st_enablePush st); destruct (st_windowSize st =? 65535);
    destruct (st_frameSize st =? 0); destruct (st_frameSize st =? 16384); destruct (st_headerSize st =? 0);
    cbn [negb andb orb flat_map setting_bytes fst snd app]; rewrite ?app_nil_r; reflexivity.
Qed.

Lemma of_signed32_lt z : of_signed 32 z < 2 ^ 32.
Proof. unfold of_signed. change (Z.of_N (2 ^ 32)) with 4294967296%Z. change (2 ^ 32) with 4294967296. lia. Qed.

Definition same_value (bd bd1 : body) : Prop :=
  body_type bd1 = body_type bd /\ (body_ok bd -> body_ok bd1) /\
  forall pre s pn, frame_of pre s bd1 pn = frame_of pre s bd pn.

Lemma same_value_refl bd : same_value bd bd.
Proof. unfold same_value. split; [reflexivity|]. split; [auto|reflexivity]. Qed.

Lemma serialize_spec f bd padn : 9 <= padn -> padn < 256 ->
  exists f1 bd1, serialize f bd padn = Ok (f1, bd1) /\
    fh_flags f1 = flags_of (fh_flags f) bd /\ fh_payload f1 = payload_bytes (payload_of bd padn) /\
    fh_kind f1 = fh_kind f /\ fh_stream f1 = fh_stream f /\ fh_maxLen f1 = fh_maxLen f /\
    same_value bd bd1.
Proof.
  intros L H.
  destruct bd as [es hp b|hp st w es eh pr raw|st w|c|st|pad ended st hdr|ack d|st c d|inc|eh raw];
    cbn [serialize payload_of flags_of pad_of].
  - destruct hp.
    + rewrite (add_padding_spec b padn L H). cbn [bind]. do 2 eexists. split; [reflexivity|].
      cbn [fh_flags fh_payload fh_kind fh_stream fh_maxLen set_payload set_flags payload_bytes].
      repeat (split; [reflexivity|]); try apply same_value_refl.
    + do 2 eexists. split; [reflexivity|].
      cbn [fh_flags fh_payload fh_kind fh_stream fh_maxLen set_payload set_flags payload_bytes with_pad].
      repeat (split; [reflexivity|]); try apply same_value_refl.
  - assert ((if pr then uint32_to_bytes (N.land st mask31) ++ [w] else []) ++ raw =
            (match (if pr then Some (mkPrio false (st mod 2 ^ 31) w) else None) with
             | Some p => prio_bytes p | None => [] end) ++ raw) as E.
    { destruct pr; [|reflexivity]. unfold prio_bytes. cbn [p_excl p_dep p_weight].
      rewrite word31_false, uint32_to_bytes_be, low31_mod. reflexivity. }
    rewrite E. destruct hp.
    + rewrite (add_padding_spec _ padn L H). cbn [bind]. do 2 eexists. split; [reflexivity|].
      cbn [fh_flags fh_payload fh_kind fh_stream fh_maxLen set_payload set_flags payload_bytes].
      repeat (split; [reflexivity|]); try apply same_value_refl.
    + do 2 eexists. split; [reflexivity|].
      cbn [fh_flags fh_payload fh_kind fh_stream fh_maxLen set_payload set_flags payload_bytes with_pad].
      repeat (split; [reflexivity|]); try apply same_value_refl.
  - do 2 eexists. split; [reflexivity|].
    cbn [fh_flags fh_payload fh_kind fh_stream fh_maxLen set_payload payload_bytes].
    unfold prio_bytes. cbn [p_excl p_dep p_weight]. rewrite word31_false, uint32_to_bytes_be.
    repeat (split; [reflexivity|]); try apply same_value_refl.
  - do 2 eexists. split; [reflexivity|].
    cbn [fh_flags fh_payload fh_kind fh_stream fh_maxLen set_payload set_length payload_bytes].
    rewrite uint32_to_bytes_be. repeat (split; [reflexivity|]); try apply same_value_refl.
  - destruct (st_ack st) eqn:A.
    + do 2 eexists. split; [reflexivity|].
      cbn [fh_flags fh_payload fh_kind fh_stream fh_maxLen set_payload set_flags payload_bytes flat_map].
      repeat (split; [reflexivity|]); try apply same_value_refl.
    + do 2 eexists. split; [reflexivity|].
      cbn [fh_flags fh_payload fh_kind fh_stream fh_maxLen set_payload set_flags payload_bytes].
      rewrite settings_encode_spec. split; [reflexivity|]. split; [reflexivity|].
      split; [reflexivity|]. split; [reflexivity|]. split; [reflexivity|].
      destruct st. unfold same_value. split; [reflexivity|]. split; [auto|reflexivity].
  - do 2 eexists. split; [reflexivity|].
    cbn [fh_flags fh_payload fh_kind fh_stream fh_maxLen set_payload set_flags payload_bytes with_pad].
    rewrite word31_false, uint32_to_bytes_be, low31_mod. repeat (split; [reflexivity|]); try apply same_value_refl.
  - do 2 eexists. split; [reflexivity|].
    cbn [fh_flags fh_payload fh_kind fh_stream fh_maxLen set_payload set_flags payload_bytes].
    repeat (split; [reflexivity|]); try apply same_value_refl.
  - do 2 eexists. split; [reflexivity|].
    cbn [fh_flags fh_payload fh_kind fh_stream fh_maxLen set_payload payload_bytes].
    rewrite word31_false, !uint32_to_bytes_be. repeat (split; [reflexivity|]); try apply same_value_refl.
  - do 2 eexists. split; [reflexivity|].
    cbn [fh_flags fh_payload fh_kind fh_stream fh_maxLen set_payload set_length payload_bytes].
    rewrite uint32_to_bytes_be, word31_top_low by apply of_signed32_lt. repeat (split; [reflexivity|]); try apply same_value_refl.
  - do 2 eexists. split; [reflexivity|].
    cbn [fh_flags fh_payload fh_kind fh_stream fh_maxLen set_payload set_flags payload_bytes].
    repeat (split; [reflexivity|]); try apply same_value_refl.
Qed.

(* ---- the frame the value stands for is well-formed ---- *)

Lemma body_type_code bd padn : of_signed 8 (body_type bd) = type_code (payload_of bd padn).
Proof. destruct bd; reflexivity. Qed.

Lemma wf_pad_of fl hp padn : padn < 256 -> flag fl PADDED = hp -> wf_pad fl (pad_of hp padn).
Proof.
  intros H F. unfold pad_of, wf_pad. destruct hp; [|exact F].
  split; [exact F|]. split; [apply bytes_ok_repeat0|]. rewrite len_repeat0. assumption.
Qed.

Lemma mod31_lt s : s mod 2 ^ 31 < 2 ^ 31.
Proof. apply N.mod_lt. discriminate. Qed.

Lemma sent_settings_wf st : body_ok (BSettings st) -> Forall wf_setting (sent_settings st).
Proof.
  cbn [body_ok]. intros (H1 & H3 & H4 & H5 & H6). unfold sent_settings.
  repeat (apply Forall_app; split);
    repeat match goal with |- context [if ?c then _ else _] => destruct c end;
    repeat constructor; cbn [fst snd]; try assumption;
    try (change (2 ^ 16) with 65536; lia); try (change (2 ^ 32) with 4294967296; lia).
Qed.

Lemma wf_frame_of pre s bd padn :
  pre < 256 -> s < 2 ^ 32 -> body_ok bd -> padn < 256 ->
  payload_len (frame_of pre s bd padn) < 2 ^ 24 -> wf (frame_of pre s bd padn).
Proof.
  intros Hp Hs Hb Hn Hl. unfold wf, frame_of in *. cbn [f_flags f_stream f_body] in *.
  split; [apply flags_of_lt; assumption|]. split; [apply low31_lt|]. split; [exact Hl|]. clear Hl.
  destruct bd as [es hp b|hp st w es eh pr raw|st w|c|st|pad ended st hdr|ack d|st c d|inc|eh raw];
    cbn [payload_of wf_body body_ok] in *.
  - split; [|exact Hb]. apply wf_pad_of; [assumption|]. apply flag_padded_data. assumption.
  - destruct Hb as (H1 & H2 & H3). destruct (flags_headers pre hp st w es eh pr raw Hp) as [FP FQ].
    split; [apply wf_pad_of; assumption|]. split; [assumption|].
    destruct pr; [|exact FQ]. split; [exact FQ|]. split; [apply mod31_lt|assumption].
  - exact Hb.
  - exact Hb.
  - rewrite (flag_ack_settings pre st Hp). destruct (st_ack st).
    + split; [constructor|reflexivity].
    + split; [apply sent_settings_wf; exact Hb|discriminate].
  - destruct Hb as [H1 H2]. split; [apply (flag_padded_pp pre pad ended st hdr Hp)|].
    split; [apply mod31_lt|assumption].
  - exact Hb.
  - exact Hb.
  - apply low31_lt.
  - exact Hb.
Qed.

(* ---- WriteTo ---- *)

Theorem write_to_spec f bd padn :
  fh_body f = Some bd -> fh_kind f = body_type bd -> fh_flags f < 256 -> fh_stream f < 2 ^ 32 ->
  body_ok bd -> 9 <= padn -> padn < 256 ->
  let fr := frame_of (fh_flags f) (fh_stream f) bd padn in
  payload_len fr < 2 ^ 24 ->
  wf fr /\
  exists f' bd', write_to f padn = Ok (spec_write fr, f') /\
    fh_body f' = Some bd' /\ same_value bd bd' /\ fh_kind f' = fh_kind f /\
    fh_flags f' = f_flags fr /\ fh_stream f' = fh_stream f.
Proof.
  intros Hb Hk Hf Hs Ho L9 L256 fr Hl.
  pose proof (wf_frame_of _ _ _ _ Hf Hs Ho L256 Hl) as W. split; [exact W|].
  destruct (serialize_spec f bd padn L9 L256) as (f1 & bd1 & S & F1 & P1 & K1 & S1 & M1 & SV).
  unfold write_to. rewrite Hb, S. cbn [bind].
  do 2 eexists. split.
  - f_equal. f_equal.
    unfold spec_write, parse_header_bytes, header_bytes.
    cbn [fh_length fh_kind fh_flags fh_stream fh_payload put_body set_length].
    rewrite P1, F1, K1, S1, Hk.
    unfold fr, payload_len in *. unfold frame_of in *. cbn [f_body f_flags f_rsv f_stream] in *.
    rewrite u32_small by (change (2 ^ 32) with 4294967296; change (2 ^ 24) with 16777216 in Hl; lia).
    rewrite uint24_to_bytes_be, uint32_to_bytes_be, (body_type_code bd padn).
    rewrite u8_small by (apply flags_of_lt; assumption).
    rewrite word31_top_low by assumption. reflexivity.
  - cbn [fh_body fh_kind fh_flags fh_stream put_body set_length].
    split; [reflexivity|]. split; [exact SV|]. split; [exact K1|]. split; [exact F1|exact S1].
Qed.

(* C05, write: every value built through the API (AcquireFrameHeader, SetFlags, SetStream,
   SetBody, the setters of the body) is written as the RFC encoding of its frame, and an
   independent parser reads the same frame back, with nothing left over. *)
Theorem write_frame_parses pre stream bd padn :
  pre < 256 -> stream < 2 ^ 32 -> body_ok bd -> 9 <= padn -> padn < 256 ->
  let fr := frame_of pre stream bd padn in
  payload_len fr < 2 ^ 24 ->
  exists out f',
    write_to (build pre stream bd) padn = Ok (out, f') /\
    spec_parse out = Some (fr, []) /\ out = spec_write fr /\ wf fr /\
    firstn 9 out = header_bytes (payload_len fr) (type_code (f_body fr)) (flags_of pre bd)
                                (top_bit stream) (low31 stream).
Proof.
  intros Hp Hs Ho L9 L256 fr Hl.
  destruct (write_to_spec (build pre stream bd) bd padn eq_refl eq_refl Hp Hs Ho L9 L256 Hl)
    as (W & f' & bd' & E & _).
  exists (spec_write fr), f'. split; [exact E|]. split.
  - rewrite <- (app_nil_r (spec_write fr)). apply spec_parse_write. exact W.
  - split; [reflexivity|]. split; [exact W|].
    unfold spec_write.
    set (hdr := header_bytes (payload_len fr) (type_code (f_body fr)) (f_flags fr) (f_rsv fr) (f_stream fr)).
    assert (length hdr = 9%nat) as E9.
    { unfold hdr, header_bytes. rewrite !app_length, !be_length. reflexivity. }
    rewrite firstn_app, E9, Nat.sub_diag, firstn_O, app_nil_r.
    rewrite firstn_all2 by (rewrite E9; apply le_n). reflexivity.
Qed.

(* the same value written again (a retransmission, a frame kept for reuse) goes out as
   the same frame, with the newly drawn pad length *)
Theorem write_twice pre stream bd padn padn2 :
  pre < 256 -> stream < 2 ^ 32 -> body_ok bd -> 9 <= padn -> padn < 256 -> 9 <= padn2 -> padn2 < 256 ->
  payload_len (frame_of pre stream bd padn) < 2 ^ 24 ->
  payload_len (frame_of (flags_of pre bd) stream bd padn2) < 2 ^ 24 ->
  exists out1 f1 out2 f2,
    write_to (build pre stream bd) padn = Ok (out1, f1) /\ write_to f1 padn2 = Ok (out2, f2) /\
    out1 = spec_write (frame_of pre stream bd padn) /\
    out2 = spec_write (frame_of (flags_of pre bd) stream bd padn2).
Proof.
  intros Hp Hs Ho L9 L256 M9 M256 Hl1 Hl2.
  destruct (write_to_spec (build pre stream bd) bd padn eq_refl eq_refl Hp Hs Ho L9 L256 Hl1)
    as (W & f1 & bd1 & E & B1 & (T1 & O1 & V1) & K1 & F1 & S1).
  cbn [fh_flags fh_stream fh_kind build set_body set_stream set_flags acquire_header] in *.
  assert (fh_flags f1 < 256) as Hf1 by (rewrite F1; apply flags_of_lt; assumption).
  assert (payload_len (frame_of (fh_flags f1) (fh_stream f1) bd1 padn2) < 2 ^ 24) as Hl2'.
  { rewrite V1, F1, S1. exact Hl2. }
  assert (fh_stream f1 < 2 ^ 32) as Hs1 by (rewrite S1; assumption).
  assert (fh_kind f1 = body_type bd1) as Hk1 by (rewrite K1, T1; reflexivity).
  destruct (write_to_spec f1 bd1 padn2 B1 Hk1 Hf1 Hs1 (O1 Ho) M9 M256 Hl2')
    as (_ & f2 & bd2 & E2 & _).
  exists (spec_write (frame_of pre stream bd padn)), f1, (spec_write (frame_of (flags_of pre bd) stream bd padn2)), f2.
  split; [exact E|]. split; [|split; reflexivity].
  rewrite E2, V1, F1, S1. reflexivity.
Qed.

(* SETTINGS: the peer that applies the parameters on the wire to the RFC's initial values
   ends up with exactly the values the accessors hold (MaxFrameSize 0 = "not set") *)
Theorem settings_meaning st :
  st_frameSize st <> 0 ->
  apply_settings initial_params (sent_settings st) = params_of st.
Proof.
  intros NZ. unfold sent_settings, apply_settings, params_of, initial_params.
  rewrite !fold_left_app.
  destruct (st_tableSize st =? 4096) eqn:A; [apply N.eqb_eq in A|];
  destruct (st_enablePush st);
  destruct (st_windowSize st =? 65535) eqn:C; try apply N.eqb_eq in C;
  destruct (st_frameSize st =? 0) eqn:D; try (apply N.eqb_eq in D; contradiction);
  destruct (st_frameSize st =? 16384) eqn:E; try apply N.eqb_eq in E;
  destruct (st_headerSize st =? 0) eqn:F;
  cbn [fold_left apply_setting fst snd orb]; try rewrite A; try rewrite C; try rewrite E; reflexivity.
Qed.
