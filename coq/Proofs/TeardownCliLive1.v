(* Proofs/TeardownCliLive1.v -- blocking-structure model (Impl/Teardown.v), client, S3 liveness (1): set-up, done gets closed, lock releases, first iteration lemma.
   Statements: Props/Teardown.v; overview: Proofs/TeardownProofs.v. *)
From Coq Require Import Arith Lia Bool List.
From RecordUpdate Require Import RecordSet.
Import RecordSetNotations.
Import ListNotations.
From H2V Require Import Impl.Teardown Proofs.TeardownGen Proofs.TeardownCliInv Proofs.TeardownCliInv1 Proofs.TeardownCliInv2 Proofs.TeardownCliInv3 Proofs.TeardownCliInv4 Proofs.TeardownCliLocks Proofs.TeardownCliInv5.

Module CliL2.
Import Cli CliP CliP2 CliL.

Definition Inv (cap : nat) (s : state) : Prop :=
  CliP.inv cap s /\ inv5 s /\ (stalled s = false \/ dead s = true).

Ltac easy_fin ::= solve [auto | congruence | lia | tauto | (intuition congruence)
                         | (intuition (try congruence; try lia)) ].
Ltac xr := try match goal with |- context[xres ?s] => destruct (xres s) eqn:? end; cbn in *.
(* obligations of the ensures rules: P and Q speak about a few fields *)
Ltac solve_side := cbn; unf; rwk; cbn;
  first [ solve [repeat split; auto; try congruence; try lia]
        | match goal with |- _ \/ _ => first [ solve [left; solve_side] | solve [right; solve_side] ] end
        | solve [timeout 10 fin] ].
Ltac cens1 :=
  let s := fresh "s" in let a := fresh "a" in let I := fresh "I" in
  let HP := fresh "HP" in let G := fresh "G" in
  intros s a I HP G; clear I; act_cases a; cbn in G; break; try lia; params; unf; rwk; cbn in *; unf; xr;
  try congruence;
  first [ left; solve [solve_side] | right; solve [solve_side] | idtac ].
Ltac cens1_w1 :=
  let s := fresh "s" in let a := fresh "a" in let I := fresh "I" in
  let HP := fresh "HP" in let G := fresh "G" in
  intros s a I HP G;
  assert (xc s = KW1 -> xloc s = XOut) by (destruct I as ((_ & _ & _ & I4) & _); apply I4);
  clear I; act_cases a; cbn in G; break; try lia; params; unf; rwk; fwd; rwx; cbn in *; unf; xr;
  try congruence;
  first [ left; solve [solve_side] | right; solve [solve_side] | idtac ].
Ltac cens2 :=
  let s := fresh "s" in let a := fresh "a" in let I := fresh "I" in
  let HP := fresh "HP" in let G := fresh "G" in let Ga := fresh "Ga" in
  intros s a I HP Ga G; clear I; act_cases a; cbn in Ga; try contradiction; try lia;
  cbn in G; break; try lia; params; unf; rwk; cbn in *; unf; xr; try congruence; try solve [solve_side].

Section P.
Variable cap : nat.
Hypothesis cap_pos : 1 <= cap.
Notation guard := (Cli.guard cap).
Notation reachable := (Cli.reachable cap).
Notation inv := (CliP.inv cap).

Variable r : run guard eff.
Hypothesis F : fair_run cap r.
Hypothesis R0 : reachable (st r 0).
Hypothesis NS : forall i, stalled (st r i) = false \/ dead (st r i) = true.

Lemma inv5_reach : forall s, reachable s -> inv5 s.
Proof. induction 1; auto using (inv5_init cap), (inv5_step cap). Qed.

Lemma Inv_run : forall i, Inv cap (st r i).
Proof.
  intros i. pose proof (reach_run guard eff _ r R0 i) as R.
  split; [apply reachable_inv; auto | split; [apply inv5_reach; auto | apply NS]].
Qed.

Notation "P ~> Q" := (leadsto r P Q) (at level 70).
Notation ensures := (lt_ensures guard eff r (Inv cap) Inv_run).
Notation ensures_s := (lt_ensures_s guard eff r (Inv cap) Inv_run).

Let Fx : sfair g_x r := proj1 F.
Let Fo : sfair g_o r := proj1 (proj2 F).
Let Ft : sfair g_t r := proj1 (proj2 (proj2 F)).
Let Fwl : sfair g_wl r := proj1 (proj2 (proj2 (proj2 F))).
Let Frl : sfair g_rl r := proj1 (proj2 (proj2 (proj2 (proj2 F)))).
Let Fuc : sfair g_uc r := proj1 (proj2 (proj2 (proj2 (proj2 (proj2 F))))).
Let Fsd : sfair g_seldone r := proj1 (proj2 (proj2 (proj2 (proj2 (proj2 (proj2 F)))))).
Let Fbody : sfair g_body r := proj1 (proj2 (proj2 (proj2 (proj2 (proj2 (proj2 (proj2 F))))))).
Let Wx := sfair_fair guard eff r g_x Fx.
Let Wwl := sfair_fair guard eff r g_wl Fwl.
Let Wrl := sfair_fair guard eff r g_rl Frl.
Let Wuc := sfair_fair guard eff r g_uc Fuc.
Let Wbody := sfair_fair guard eff r g_body Fbody.

Definition g_of (p : nat) : act -> Prop :=
  match p with 0 => g_wl | 1 => g_rl | _ => g_uc end.
Lemma W_of : forall p, fair (g_of p) r.
Proof. intros [|[|p]]; cbn; auto. Qed.

(* -- (A) whoever won the CAS closes c.done -- *)
Lemma cdone_step : forall p, p < 3 ->
  (fun s => cpc p s = Some CDone) ~> (fun s => done s = true).
Proof.
  intros p Hp. apply (ensures (g_of p)); [apply W_of | | | ].
  - destruct p as [|[|[|p]]]; try lia; cens1.
  - destruct p as [|[|[|p]]]; try lia; cens2.
  - intros s I H. exists (CCloseDone p). split.
    + destruct p as [|[|[|p]]]; try lia; cbn; auto.
    + cbn; auto.
Qed.

Lemma closed_to_done : (fun s => closed s = true) ~> (fun s => done s = true).
Proof.
  intros i H. destruct (done (st r i)) eqn:E; [exists i; auto|].
  destruct (Inv_run i) as ((_ & I2 & _) & _). pose proof (i_cd _ I2) as Hc.
  rewrite H, E in Hc. cbn [andb negb] in Hc. symmetry in Hc.
  apply orb_true_iff in Hc. destruct Hc as [Hc|Hc]; [apply orb_true_iff in Hc; destruct Hc as [Hc|Hc]|].
  - apply (cdone_step 0); [lia|]. destruct (cpc 0 (st r i)) as [[]|]; cbn in Hc; try discriminate Hc; auto.
  - apply (cdone_step 1); [lia|]. destruct (cpc 1 (st r i)) as [[]|]; cbn in Hc; try discriminate Hc; auto.
  - apply (cdone_step 2); [lia|]. destruct (cpc 2 (st r i)) as [[]|]; cbn in Hc; try discriminate Hc; auto.
Qed.

Ltac stab := let s := fresh "s" in let a := fresh "a" in let I := fresh "I" in
  let H := fresh "H" in let G := fresh "G" in
  intros s a I H G; clear I; act_cases a; cbn in G; break; try lia; params; unf; rwk; cbn in *;
  try congruence; try solve [solve_side].

Lemma done_stable : stable guard eff (Inv cap) (fun s => done s = true).
Proof. stab. Qed.
Lemma closed_stable : stable guard eff (Inv cap) (fun s => closed s = true).
Proof. stab. Qed.
Lemma sclosed_stable : stable guard eff (Inv cap) (fun s => sclosed s = true).
Proof. stab. Qed.

(* -- the read loop lets go of X's Ctx.lck: dispatchLocked does not block -- *)
Lemma rl_release : (fun s => True /\ rl_hold s = HX) ~> (fun s => rl_hold s <> HX).
Proof.
  apply (ensures g_rl); auto.
  - cens1.
  - cens2.
  - intros s I (Hd & Hh). unfold rl_hold in Hh.
    destruct (rl s) eqn:E; try discriminate; subst.
    exists (RHoldFinish false false); cbn; eauto.
Qed.

(* -- bwLck comes back -- *)
Lemma cwrite_release : forall p, p < 3 ->
  (fun s => cpc p s = Some CWrite) ~> (fun s => bw s = BwNone).
Proof.
  intros p Hp. apply (ensures (g_of p)); [apply W_of | | | ].
  - destruct p as [|[|[|p]]]; try lia; cens1.
  - destruct p as [|[|[|p]]]; try lia; cens2.
  - intros s (_ & _ & Hs) H. exists (CWriteRet p). split.
    + destruct p as [|[|[|p]]]; try lia; cbn; auto.
    + cbn; repeat split; auto; tauto.
Qed.

(* -- one iteration of the write loop ends -- *)
Definition pcw (p : wl_pc) : nat :=
  match p with LAcq => 4 | LLockB _ => 3 | LWrite _ => 2 | LRefill => 1 | _ => 0 end.
Definition wm (s : state) : nat :=
  6 * bud s + pcw (wl s) + match xloc s with XWl => 1 | _ => 0 end.
Definition wl_iter (s : state) : Prop :=
  match wl s with LIter | LAcq | LLockB _ | LWrite _ | LRefill => True | _ => False end.
Definition wl_t (s : state) : Prop :=
  match wl s with LT0 | LClose _ | LT2 | LT3 | LDone => True | _ => False end.
Definition iterQ (n : nat) (s : state) : Prop :=
  wl s = LSel \/ wl_t s \/ ((True /\ wl_iter s) /\ wm s < n).

Ltac wunf := unfold iterQ, wl_t, wl_iter, wm, pcw in *.

Lemma it_LIter : forall n,
  (fun s => (True /\ wl s = LIter) /\ wm s = n) ~> iterQ n.
Proof.
  intros n. apply (ensures g_wl); auto.
  - wunf; cens1_w1.
  - wunf; cens2.
  - intros s I ((Hd & Hw) & Hn).
    destruct (xloc s) eqn:E;
      try (exists LIterEnd; cbn; repeat split; auto; congruence).
    exists LRejectX; cbn; auto.
Qed.

End P.
End CliL2.
