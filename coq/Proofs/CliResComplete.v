(* Proofs/CliResComplete.v - C11 (b), second half: a request on the table completes when the server delivers. *)
From H2V Require Import Base.Bytes Base.MachineInt Base.Result Gen.GenConsts Impl.ServerConn Impl.ClientConn Proofs.CliBase
     Proofs.CliResInv Proofs.CliResStep Proofs.CliResMoves Proofs.CliResThms.
From Coq Require Import ZArith Lia ZifyN ZifyNat ZifyBool List Bool.
Import ListNotations.
Local Open Scope N_scope.

(* HEADERS(END_HEADERS | END_STREAM) on stream id carrying the one byte 0x88: ":status 200" from the static table *)
Definition hdr200 (id : N) : sframe := mkSFrame KHeaders 5 id 1 [136] 0 0 0 false 0 false 0.

(* the instance under which the connection resolves nothing and leaves the response and gotStatus alone: for pieces of
   the model that only move table entries and close bodies *)
Definition cp_strict : cparams.
Proof.
  refine {| Eok := fun _ _ => False; Vok := fun x x' => ct_resp x' = ct_resp x /\ ct_gotStatus x' = ct_gotStatus x; Wok := fun _ _ _ => True |}; auto.
  - intros x y z [A B] [C D]. split; congruence.
Defined.

Section Complete.
Context {hstate : Type}.
Variable dec_field : hstate -> N -> bytes -> dec_res hstate.
Variable enc_field : hstate -> bytes -> bytes -> bool -> bytes * hstate.
Variable enc_set_max : hstate -> N -> hstate.
Variable cfg : cl_config.
Variable h0 : hstate.
Variable first : bytes.
Implicit Types c : cconn hstate.
Notation step := (cl_step dec_field enc_field enc_set_max cfg).
Notation run := (cl_run dec_field enc_field enc_set_max cfg h0 first).
Notation reach := (cl_reachable dec_field enc_field enc_set_max cfg h0 first).

(* the decoder reads 0x88 as the field (":status", "200") whatever its state *)
Hypothesis Hdec : forall d n, exists d', dec_field d n [136] = DField hstate S_status [50; 48; 48] [] d'.

(* the header-block registers after that frame *)
Definition regs200 c (d' : hstate) : cconn hstate :=
  ccu_hdrPrev (ccu_hdrStream (ccu_hdrErr (ccu_hdrStatus (ccu_hdrRegularSeen (ccu_hdrFields (ccu_hdrPrev (ccu_dec
    (ccu_hdrEndStream (ccu_hdrErr (ccu_hdrStatus (ccu_hdrRegularSeen (ccu_hdrFields (ccu_hdrPrev c []) 0) false) 0) None) true)
    d') []) (0 + 1)) false) 200) None) 0) [].

Lemma read_stream_200 c id r d' : dec_field (cc_dec c) 0 [136] = DField hstate S_status [50; 48; 48] [] d' ->
  cl_read_stream dec_field c (hdr200 id) (Some r) = (regs200 c d', Some (cl_resp_set_status r 200), true, CRSNone).
Proof.
  intro Hd. unfold cl_read_stream, hdr200. cbn [sf_kind sf_flags sf_payload sf_sid].
  unfold cl_read_header_fragment. cbn [cc_hdrPrev ccu_hdrEndStream ccu_hdrErr ccu_hdrStatus ccu_hdrRegularSeen ccu_hdrFields ccu_hdrPrev app length
                                       cc_dec cc_hdrFields cc_hdrRegularSeen cc_hdrStatus cc_hdrErr].
  cbn [cl_hdr_loop]. rewrite Hd. reflexivity.
Qed.

Lemma dispatch_200 c id tag x d' : cl_req_find (cc_reqQueued c) id = Some tag -> cl_ctx_get c tag = Some x ->
  ct_lckStuck x = false -> ct_done x = false -> ct_conn x = true -> ct_sid x = id -> ct_gotStatus x = false ->
  dec_field (cc_dec c) 0 [136] = DField hstate S_status [50; 48; 48] [] d' ->
  let x2 := ctu_gotStatus (ctu_resp x (cl_resp_set_status (ct_resp x) 200)) true in
  let cf := cl_finish (cl_ctx_put (regs200 c d') x2) (ct_tag x) id CENil in
  cl_dispatch dec_field c (hdr200 id) = (cf, if cl_gone_away cf then CDStop else CDCont).
Proof.
  intros F G LK Dn Cx Sx GS Hd. rewrite cl_dispatch_eq. unfold disp_pre. change (sf_sid (hdr200 id)) with id. rewrite F.
  unfold cl_acquire_for. rewrite G. cbn [existsb]. rewrite LK, Dn, Cx, Sx, N.eqb_refl. cbn [negb orb]. cbv iota beta.
  rewrite (read_stream_200 c id (ct_resp x) d' Hd). cbv iota beta. cbn [disp_ok1].
  unfold disp_chk. change (cc_hdrStream (regs200 c d')) with 0. change (cc_hdrStatus (regs200 c d')) with 200%Z.
  change (sf_kind (hdr200 id)) with KHeaders. cbn [N.eqb fkind_eqb orb andb Z.eqb ct_gotStatus ctu_resp]. rewrite GS. cbv iota beta.
  unfold disp_err3. change (sf_kind (hdr200 id)) with KHeaders. cbn [fkind_eqb andb]. unfold disp_tail.
  change (cc_hdrEndStream (regs200 c d')) with true. cbv iota. reflexivity.
Qed.


(* finish(r, stream, nil) on a Ctx that nothing has answered yet *)
Lemma finish_nil_spec c2 xo x2 tag id : cl_ctx_get c2 tag = Some xo -> ct_tag x2 = tag ->
  ct_err x2 = None -> ct_resolved x2 = false ->
  let cf := cl_finish (cl_ctx_put c2 x2) tag id CENil in
  exists x1, cl_ctx_get cf tag = Some x1 /\ ct_err x1 = Some CENil /\ ct_finished x1 = true /\
             ct_gotStatus x1 = ct_gotStatus x2 /\ ct_resp x1 = ct_resp x2 /\ ct_returned x1 = ct_returned x2 /\
             ct_lckStuck x1 = ct_lckStuck x2 /\
             cc_reqQueued cf = filter (fun en => negb (fst en =? id)) (cc_reqQueued c2).
Proof.
  intros G T2 En Rs. cbv zeta. set (c3 := cl_ctx_put c2 x2).
  assert (G3 : cl_ctx_get c3 tag = Some x2).
  { unfold c3. rewrite <- T2. apply (get_put_same c2 xo x2). rewrite T2. exact G. }
  unfold cl_finish.
  set (c4 := match cl_pend_get (cc_pending (cl_take_req_count c3 id)) id with
             | Some pb => cl_close_body (ccu_pending (cl_take_req_count c3 id) (cl_pend_del (cc_pending (cl_take_req_count c3 id)) id)) pb
             | None => cl_take_req_count c3 id end).
  assert (E34 : eff (CP:=cp_strict) (fun _ => True) c3 c4).
  { unfold c4. eapply eff_trans; [apply eff_take_req_count|].
    destruct (cl_pend_get (cc_pending (cl_take_req_count c3 id)) id) as [pb|]; [|apply eff_refl].
    eapply eff_trans; [|apply eff_close_body; intros; exact Logic.I].
    apply (eff_frame (fun _ => True) _ _ []); try reflexivity; auto. apply pending_del. }
  destruct (e_ctx _ _ _ E34 _ _ G3) as (x4 & G4 & V4).
  assert (Q4 : cc_reqQueued c4 = filter (fun en => negb (fst en =? id)) (cc_reqQueued c2)).
  { unfold c4. destruct (cl_pend_get _ id); [rewrite cc_reqQueued_cl_close_body; cbn [cc_reqQueued ccu_pending]|];
      rewrite cc_reqQueued_cl_take_req_count; reflexivity. }
  exists (cl_ctx_resolve (ctu_finished x4 true) CENil).
  split; [apply (upd_resolve_get c4 tag (fun y => ctu_finished y true) CENil x4 G4); reflexivity|].
  destruct (cev_err _ _ V4) as [Es|(_ & _ & e0 & _ & F0)]; [|destruct F0]. destruct (cev_v _ _ V4) as [Vr Vg].
  rewrite cl_ctx_resolve_eq. cbn [ct_resolved ct_err ctu_finished]. rewrite (cev_resolved _ _ V4), Rs, Es, En. cbn.
  rewrite Vg, Vr, (cev_returned _ _ V4), (cev_lckStuck _ _ V4), cc_reqQueued_cl_ctx_upd. repeat split; auto.
Qed.

(* C11 (b), second half / C12: a request that sits on the request table, not yet answered, completes with its full
   response when the server delivers it - here the smallest complete response, HEADERS(:status 200, END_STREAM) - whatever
   else the connection is doing (GOAWAY received or not): nil, status 200, off the table, and the caller's receive
   returns it *)
Theorem completes c id tag x : reach c -> cl_rl_live c = true -> cc_netClosed c = false -> cc_hdrStream c = 0 ->
  In (id, tag) (cc_reqQueued c) -> cl_ctx_get c tag = Some x -> ct_done x = false -> ct_err x = None -> ct_gotStatus x = false ->
  let c1 := step c (CEvRL (RFrame (hdr200 id))) in
  exists x1, cl_ctx_get c1 tag = Some x1 /\ ct_err x1 = Some CENil /\ ct_finished x1 = true /\ ct_gotStatus x1 = true /\
             cr_status (ct_resp x1) = 200%Z /\ ~ In (id, tag) (cc_reqQueued c1) /\
             exists l, cc_out (step c1 (CEvReceive tag)) = l ++ cc_out c1 /\ In (COResult tag false CENil (ct_resp x1)) l.
Proof.
  intros R RL NC HS I G Dn En GS. destruct (inv_reach dec_field enc_field enc_set_max cfg h0 first c R) as [St A].
  destruct (s_rq _ St _ _ I) as (x0 & G0 & Sx & Cx & NZ & _). rewrite G in G0. inversion G0; subst x0. clear G0.
  pose proof (proj1 (s_nostuck _ St) _ _ G) as LK. destruct (s_ret _ St _ _ G) as [RR RB].
  assert (RF : ct_returned x = false). { destruct (ct_returned x) eqn:Rx; [|reflexivity]. destruct (RB eq_refl). congruence. }
  assert (F : cl_req_find (cc_reqQueued c) id = Some tag) by (apply cl_req_find_NoDup; [apply St | exact I]).
  destruct (cl_ctxs_get_In _ _ _ G) as [_ T]. destruct (Hdec (cc_dec c) 0) as [d' Hd].
  pose proof (dispatch_200 c id tag x d' F G LK Dn Cx Sx GS Hd) as D. cbv zeta in D. rewrite T in D.
  set (x2 := ctu_gotStatus (ctu_resp x (cl_resp_set_status (ct_resp x) 200)) true) in *.
  set (c2 := regs200 c d') in *.
  assert (G2 : cl_ctx_get c2 tag = Some x) by exact G.
  destruct (finish_nil_spec c2 x x2 tag id G2 T En) as (x1 & Gf & X1 & X2 & X3 & X4 & X5 & X6 & Qf); [cbn; rewrite RR; exact RF|].
  set (cf := cl_finish (cl_ctx_put c2 x2) tag id CENil) in *.
  (* the step *)
  assert (ST : step c (CEvRL (RFrame (hdr200 id))) = if cl_gone_away cf then cl_rl_exit cf 2 else cf).
  { cbn [cl_step]. rewrite RL. unfold cl_rl_step. rewrite NC. change (sf_sid (hdr200 id)) with id.
    replace (id =? 0) with false by (clear - NZ; lia).
    unfold cl_rl_frame. change (sf_kind (hdr200 id)) with KHeaders. change (sf_sid (hdr200 id)) with id. cbn [fkind_eqb]. rewrite HS.
    cbn [N.eqb negb andb]. rewrite D. destruct (cl_gone_away cf); reflexivity. }
  cbv zeta. rewrite ST. clear ST D.
  set (cF := if cl_gone_away cf then cl_rl_exit cf 2 else cf).
  assert (GF : cl_ctx_get cF tag = Some x1 /\ cc_reqQueued cF = cc_reqQueued cf).
  { unfold cF. destruct (cl_gone_away cf); [|auto]. unfold cl_rl_exit, cl_ctx_get. cbn [cl_note cc_ctxs cc_reqQueued ccu_out ccu_rl_done].
    rewrite cc_ctxs_cl_conn_close, cc_reqQueued_cl_conn_close. auto. }
  destruct GF as [GF QF].
  exists x1. split; [exact GF|]. split; [exact X1|]. split; [exact X2|]. split; [rewrite X3; reflexivity|]. split; [rewrite X4; reflexivity|]. split.
  { rewrite QF, Qf. intro J. apply filter_In in J. destruct J as [_ J]. cbn in J. rewrite N.eqb_refl in J. discriminate. }
  assert (RV : cl_ctx_get cF tag = Some x1 -> ct_returned x1 = false -> ct_err x1 = Some CENil -> ct_lckStuck x1 = false ->
               exists l, cc_out (cl_receive cF tag) = l ++ cc_out cF /\ In (COResult tag false CENil (ct_resp x1)) l).
  { clear. intros G R E L. unfold cl_receive. rewrite G, R, E. cbv zeta. cbn [ct_lckStuck ctu_armed ctu_err]. rewrite L.
    match goal with |- context [if ?b then _ else _] => destruct b end.
    - exists [COPoolPut tag; COResult tag false CENil (ct_resp x1)]. split; [reflexivity | right; left; reflexivity].
    - exists [COResult tag false CENil (ct_resp x1)]. split; [reflexivity | left; reflexivity]. }
  cbn [cl_step]. apply RV; auto; [rewrite X5; exact RF | rewrite X6; exact LK].
Qed.

End Complete.
