(* Proofs/TeardownCliGone5.v -- blocking-structure model (Impl/Teardown.v), client, S3 with the peer gone (5): somebody notices; the stronger trigger.
   Statements: Props/Teardown.v; overview: Proofs/TeardownProofs.v. *)
From Coq Require Import Arith Lia Bool List.
From RecordUpdate Require Import RecordSet.
Import RecordSetNotations.
Import ListNotations.
From H2V Require Import Impl.Teardown Proofs.TeardownGen Proofs.TeardownCliInv Proofs.TeardownCliInv1 Proofs.TeardownCliInv2 Proofs.TeardownCliInv3 Proofs.TeardownCliInv4 Proofs.TeardownCliLocks Proofs.TeardownCliInv5 Proofs.TeardownCliLive1 Proofs.TeardownCliLive2a Proofs.TeardownCliLive2b Proofs.TeardownCliLive2c Proofs.TeardownCliLive2d Proofs.TeardownCliLive3 Proofs.TeardownCliLive4 Proofs.TeardownCliLive5 Proofs.TeardownCliLive6 Proofs.TeardownCliLive7 Proofs.TeardownCliGone0 Proofs.TeardownCliGone1 Proofs.TeardownCliGone2 Proofs.TeardownCliGone3 Proofs.TeardownCliGone4.

Module CliL11.
Import Cli CliP CliP2 CliL CliL2 CliL3a CliL3b CliL3c CliL3d CliL4 CliL5 CliL6 CliL7 CliL8 CliGd CliG1 CliG2 CliL9 CliL10.

Ltac easy_fin ::= solve [auto | congruence | lia | tauto | (intuition congruence)
                         | (intuition (try congruence; try lia))
                         | (repeat split; eauto; try congruence; try lia)
                         | (left; repeat split; eauto; try congruence; try lia)
                         | (right; right; right; repeat split; eauto; try congruence; try lia) ].
Ltac solve_side ::= cbn; unf; rwk; rwx; cbn;
  first [ solve [repeat split; eauto; try congruence; try lia]
        | match goal with |- _ \/ _ => first [ solve [left; solve_side] | solve [right; solve_side] ] end
        | solve [timeout 10 fin] ].
Ltac stab := let s := fresh "s" in let a := fresh "a" in let I := fresh "I" in
  let H := fresh "H" in let G := fresh "G" in
  intros s a I H G; clear I; act_cases a; cbn in G; break; try lia; params; unf; rwk; cbn in *;
  try congruence; try solve [solve_side].
Ltac wunf := unfold iterQ, wl_t, wl_iter, wm, pcw in *.

Section P.
Variable cap : nat.
Hypothesis cap_pos : 1 <= cap.
Notation guard := (Cli.guard cap).
Notation reachable := (Cli.reachable cap).
Notation inv := (CliP.inv cap).
Variable r : run guard eff.
Hypothesis F : fair_run cap r.
Hypothesis R0 : reachable (st r 0).
Hypothesis NS : forall i, stalled (st r i) = false \/ dead (st r i) = true.

Notation Inv_run := (CliL2.Inv_run cap cap_pos r R0 NS).
Notation "P ~> Q" := (leadsto r P Q) (at level 70).
Notation ensures := (lt_ensures guard eff r (Inv cap) Inv_run).
Notation ensures_s := (lt_ensures_s guard eff r (Inv cap) Inv_run).
Let Fwl : sfair g_wl r := proj1 (proj2 (proj2 (proj2 F))).
Let Fbody : sfair g_body r := proj1 (proj2 (proj2 (proj2 (proj2 (proj2 (proj2 (proj2 F))))))).
Let Wwl := sfair_fair guard eff r g_wl Fwl.
Let Wbody := sfair_fair guard eff r g_body Fbody.
Notation rl_release := (CliL2.rl_release cap cap_pos r F R0 NS).

Let Frl : sfair g_rl r := proj1 (proj2 (proj2 (proj2 (proj2 F)))).
Let Wrl := sfair_fair guard eff r g_rl Frl.
Notation pg_unless := (CliG1.pg_unless cap cap_pos r NS).
Notation inv6_run := (CliL9.inv6_run cap cap_pos r R0).
Notation open_facts := (CliL9.open_facts cap cap_pos).
Notation wx_release := (CliL10.wx_release cap cap_pos r F R0 NS).
Notation out_slot := (CliL10.out_slot cap cap_pos r F R0 NS).
Notation ob_closes := (CliL9.ob_closes cap cap_pos r F R0 NS).
Ltac gunf := unfold PG, QG, OB, rm, rlr in *.

Lemma g_free : forall n, (fun s => (PG s /\ rm s = n) /\ rl_free s) ~> QG n.
Proof.
  intros n. apply (ensures g_rl); auto.
  - intros s a I (HP & Hf) G. destruct (pg_unless n s a I HP G) as [(HP' & Er)|Q]; auto.
    left; split; auto. unfold rl_free; rewrite Er; auto.
  - intros s a I HP Ga G; eapply CliG2.free_ob2; eauto.
  - intros s I ((Hg & Hn) & Hf). unfold rl_free in Hf. destruct (rl s) eqn:E; try contradiction.
    + exists RReadFail; cbn; repeat split; auto. unfold dead; rewrite (proj1 Hg); auto.
    + exists (RIterEnd false); cbn; eauto.
    + exists (RHoldFinish false false); cbn; eauto.
    + exists RPostEnd; cbn; eauto.
Qed.

Lemma acq_unless : forall n s a, Inv cap s -> (PG s /\ rm s = n) /\ rl s = RAcq -> guard a s ->
  ((PG (eff a s) /\ rm (eff a s) = n) /\ rl (eff a s) = RAcq) \/ QG n (eff a s).
Proof.
  intros n s a I (HP & Hf) G. destruct (pg_unless n s a I HP G) as [(HP' & Er)|Q]; auto.
  left; split; auto. congruence.
Qed.

Lemma g_acq : forall n, (fun s => (PG s /\ rm s = n) /\ rl s = RAcq) ~> QG n.
Proof.
  intros n. apply (ensures_s g_rl); auto.
  - apply acq_unless.
  - intros s a I HP Ga G; eapply CliG2.acq_ob2; eauto.
  - intros i HP.
    assert (forall s, Inv cap s -> rl s = RAcq -> wl_hold s <> HX -> exists a, g_rl a /\ guard a s) as En.
    { intros s ((I1 & _ & _ & _) & _ & _) Ha Hh. pose proof (i_lx _ I1) as Hl.
      unfold rl_hold in Hl. rewrite Ha in Hl.
      assert (lx s = LxNone) by (destruct (wl_hold s); cbn in Hl; congruence).
      destruct (xdone s) eqn:E; [exists RAcqXFail | exists RAcqX]; cbn; auto. }
    destruct (wl_hold (st r i)) eqn:E.
    1,3: exists i; split; auto; right; apply En; auto using Inv_run; try apply HP; congruence.
    destruct (lt_unless guard eff r (Inv cap) Inv_run _ _ _ _ (acq_unless n) wx_release i)
      as (j & Hj & [Hq|(HP' & [Ht|Hr])]).
    + split; [exact HP | split; auto; apply HP].
    + exists j; auto.
    + exists j; split; auto. left. right; left. left; auto.
    + exists j; split; auto. right. apply En; auto using Inv_run. apply HP'.
Qed.

Lemma out_unless : forall n s a, Inv cap s -> (PG s /\ rm s = n) /\ rl_outp s -> guard a s ->
  ((PG (eff a s) /\ rm (eff a s) = n) /\ rl_outp (eff a s)) \/ QG n (eff a s).
Proof.
  intros n s a I (HP & Hf) G. destruct (pg_unless n s a I HP G) as [(HP' & Er)|Q]; auto.
  left; split; auto. unfold rl_outp in *. rewrite Er; auto.
Qed.

Lemma g_out : forall n, (fun s => (PG s /\ rm s = n) /\ rl_outp s) ~> QG n.
Proof.
  intros n. apply (ensures_s g_rl); auto.
  - apply out_unless.
  - intros s a I HP Ga G; eapply CliG2.out_ob2; eauto.
  - intros i HP.
    assert (forall s, rl_outp s -> outq s < cap -> exists a, g_rl a /\ guard a s) as En.
    { intros s [E|(k & st & E)] Ho; [exists ROutSend | exists RPostSend]; cbn; eauto. }
    destruct (lt_dec (outq (st r i)) cap) as [Hlt|Hge].
    { exists i; split; auto. right. apply En; auto. apply HP. }
    pose proof (Inv_run i) as I. destruct I as ((_ & _ & I3 & _) & _). pose proof (i_out _ _ I3) as Hle.
    destruct HP as ((Hg & Hn) & Ho). destruct Hg as (Hg & Hc).
    assert (forall j, closed (st r j) = false -> wl_t (st r j) -> QG n (st r j)) as Kt.
    { intros j Hcj Ht. destruct (open_facts _ (Inv_run j) (inv6_run j) Hcj) as (_ & _ & _ & Hw & _).
      right; left. destruct (Hw Ht); unfold OB; auto. }
    assert (wl (st r i) = LSel \/ wl_iter (st r i) \/ wl_t (st r i)) as [Hs|[Hi|Ht]].
    { unfold wl_iter, wl_t. destruct (wl (st r i)); auto. }
    3:{ exists i; split; auto. }
    1,2: destruct (lt_unless guard eff r (Inv cap) Inv_run _ _ _ _ (out_unless n) out_slot i)
           as (j & Hj & [Hq|(HP' & [Hq|[Hq|Hq]])]);
         [ unfold CliGd.P3, PG; repeat split; auto; lia
         | exists j; auto
         | exists j; split; auto; left; left; auto
         | exists j; split; auto; left; apply Kt; auto; apply HP'
         | exists j; split; auto; right; apply En; auto; apply HP' ].
Qed.

Lemma pg_step : forall n, (fun s => PG s /\ rm s = n) ~> QG n.
Proof.
  intros n i HP. pose proof HP as ((Hg & Hc) & Hn).
  destruct (open_facts _ (Inv_run i) (inv6_run i) Hc) as (_ & Hr & Hd & _).
  destruct (rl (st r i)) eqn:E.
  - apply (g_free n); split; auto. unfold rl_free; rewrite E; auto.
  - apply (g_free n); split; auto. unfold rl_free; rewrite E; auto.
  - apply (g_acq n); auto.
  - apply (g_free n); split; auto. unfold rl_free; rewrite E; auto.
  - apply (g_free n); split; auto. unfold rl_free; rewrite E; auto.
  - apply (g_out n); split; auto. right; eauto.
  - apply (g_out n); split; auto. left; auto.
  - exists i; split; auto. right; left. unfold OB; auto.
  - exists i; split; auto. right; left. rewrite (Hr _ eq_refl) in E. unfold OB; auto.
  - congruence.
Qed.

Lemma pg_notices : PG ~> (fun s => closed s = true \/ OB s).
Proof.
  apply (lt_variant guard eff r PG _ rm). intros n i H.
  destruct (pg_step n i H) as (j & Hj & [Hq|[Hq|Hq]]); exists j; split; auto.
Qed.

(* S3, the stronger trigger: once the peer is gone somebody enters Close *)
Theorem gone_closes : (fun s => gone s = true) ~> (fun s => closed s = true).
Proof.
  intros i Hg. destruct (closed (st r i)) eqn:Ec; [exists i; auto|].
  destruct (pg_notices i (conj Hg Ec)) as (j & Hj & [Hq|Hq]).
  - exists j; auto.
  - destruct (ob_closes j Hq) as (k & Hk & Hq'). exists k; split; auto; lia.
Qed.

Theorem gone_no_stranding :
  (fun s => gone s = true) ~> (fun s => loops_exited s /\ (delivered s \/ raced s = true)).
Proof.
  eapply lt_trans; [apply gone_closes | apply (CliL8.no_stranding cap cap_pos r F R0 NS)].
Qed.
End P.
End CliL11.
