(* Proofs/TeardownCliLive2b.v -- blocking-structure model (Impl/Teardown.v), client, S3 liveness (2b): acquiring X's Ctx.lck.
   Statements: Props/Teardown.v; overview: Proofs/TeardownProofs.v. *)
From Coq Require Import Arith Lia Bool List.
From RecordUpdate Require Import RecordSet.
Import RecordSetNotations.
Import ListNotations.
From H2V Require Import Impl.Teardown Proofs.TeardownGen Proofs.TeardownCliInv Proofs.TeardownCliInv1 Proofs.TeardownCliInv2 Proofs.TeardownCliInv3 Proofs.TeardownCliInv4 Proofs.TeardownCliLocks Proofs.TeardownCliInv5 Proofs.TeardownCliLive1.

Module CliL3b.
Import Cli CliP CliP2 CliL CliL2.

Ltac easy_fin ::= solve [auto | congruence | lia | tauto | (intuition congruence)
                         | (intuition (try congruence; try lia))
                         | (repeat split; eauto; try congruence; try lia)
                         | (left; repeat split; eauto; try congruence; try lia)
                         | (right; right; right; repeat split; eauto; try congruence; try lia) ].
Ltac solve_side ::= cbn; unf; rwk; rwx; cbn;
  first [ solve [repeat split; eauto; try congruence; try lia]
        | match goal with |- _ \/ _ => first [ solve [left; solve_side] | solve [right; solve_side] ] end
        | solve [timeout 10 fin] ].
Ltac wunf := unfold iterQ, wl_t, wl_iter, wm, pcw in *.

Section P.
Variable cap : nat.
Hypothesis cap_pos : 1 <= cap.
Notation guard := (Cli.guard cap).
Notation reachable := (Cli.reachable cap).
Notation inv := (CliP.inv cap).
Variable r : run guard eff.
Hypothesis F : fair_run cap r.
Hypothesis R0 : reachable (st r 0).
Hypothesis NS : forall i, stalled (st r i) = false \/ dead (st r i) = true.

Notation Inv_run := (CliL2.Inv_run cap cap_pos r R0 NS).
Notation "P ~> Q" := (leadsto r P Q) (at level 70).
Notation ensures := (lt_ensures guard eff r (Inv cap) Inv_run).
Notation ensures_s := (lt_ensures_s guard eff r (Inv cap) Inv_run).
Let Fwl : sfair g_wl r := proj1 (proj2 (proj2 (proj2 F))).
Let Fbody : sfair g_body r := proj1 (proj2 (proj2 (proj2 (proj2 (proj2 (proj2 (proj2 F))))))).
Let Wwl := sfair_fair guard eff r g_wl Fwl.
Let Wbody := sfair_fair guard eff r g_body Fbody.
Notation rl_release := (CliL2.rl_release cap cap_pos r F R0 NS).

Lemma lacq_unless : forall n s a, Inv cap s ->
  (True /\ wl s = LAcq) /\ wm s = n -> guard a s ->
  ((True /\ wl (eff a s) = LAcq) /\ wm (eff a s) = n) \/ iterQ n (eff a s).
Proof. intros n; wunf; cens1_w1. Qed.

Lemma it_LAcq : forall n,
  (fun s => (True /\ wl s = LAcq) /\ wm s = n) ~> iterQ n.
Proof.
  intros n. apply (ensures_s g_wl); auto.
  - apply lacq_unless.
  - wunf; cens2.
  - intros i HP.
    assert (forall s, Inv cap s -> ((True /\ wl s = LAcq) /\ wm s = n) -> rl_hold s <> HX ->
              exists a, g_wl a /\ guard a s) as En.
    { intros s ((I1 & _ & _ & _) & _ & _) ((Hd & Hw) & Hn) Hr. pose proof (i_lx _ I1) as Hl.
      unfold wl_hold in Hl. rewrite Hw in Hl.
      assert (lx s = LxNone) by (destruct (rl_hold s); cbn in Hl; congruence).
      destruct (xdone s) eqn:E; [exists LAcqXFail | exists LAcqX]; cbn; auto. }
    destruct (rl_hold (st r i)) eqn:E.
    1,3: exists i; split; auto; right; apply En; auto using Inv_run; congruence.
    destruct (lt_unless guard eff r (Inv cap) Inv_run _ _ _ _ (lacq_unless n) rl_release i)
      as (j & Hj & [Hq|(HP' & Hr)]).
    + split; [exact HP | split; auto].
    + exists j; auto.
    + exists j; split; auto. right. apply En; auto using Inv_run.
Qed.

End P.
End CliL3b.
