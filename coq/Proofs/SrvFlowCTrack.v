(* Proofs/SrvFlowCTrack.v - C06 completion: one buffered response followed through the run. Part 1: what is tracked,
   and one call of sendData on the tracked stream. *)
From H2V Require Import Base.Bytes Base.MachineInt Base.Result Gen.GenConsts Impl.ServerConn Proofs.SrvBase
  Spec.FlowLedger Proofs.SrvFlowLedger Proofs.SrvFlowDefs Proofs.SrvFlowSend Proofs.SrvFlowEff Proofs.SrvFlowSafe
  Proofs.SrvFlowSafeB Proofs.SrvFlowSafeC Proofs.SrvFlowEs Proofs.SrvFlowRecv Proofs.SrvFlowStall Proofs.SrvFlowFuel
  Proofs.SrvFlowDone Proofs.SrvFlowCDecomp Proofs.SrvFlowCMono Proofs.SrvFlowCView Proofs.SrvFlowCEarly.
From Coq Require Import ZArith Lia ZifyN ZifyNat ZifyBool List.
Import ListNotations.
Local Open Scope N_scope.
Set Default Proof Using "Type".

Definition isnil (b : bytes) : bool := match b with [] => true | _ => false end.
Definition small (f : bool * bytes) : Prop := 0 < len (snd f) <= 16384.

Lemma isnil_false b : b <> [] -> isnil b = false.
Proof. destruct b; [congruence | reflexivity]. Qed.

Lemma frames_out_app sid a b : frames_out sid (a ++ b) = frames_out sid a ++ frames_out sid b.
Proof. apply map_app. Qed.

Lemma rf_frames_out sid l : rf sid (frames_out sid l) = frames_out sid l.
Proof.
  induction l as [|f l IH]; [reflexivity|]. cbn [frames_out map rf filter]. unfold on_sid at 1. cbn [frame_sid strip].
  rewrite N.eqb_refl. f_equal. exact IH.
Qed.

Lemma rf_rev sid l : rf sid (rev l) = rev (rf sid l).
Proof.
  induction l as [|o l IH]; [reflexivity|]. cbn [rev]. rewrite rf_app, IH. cbn [rf filter].
  destruct (on_sid sid o); [reflexivity | rewrite app_nil_r; reflexivity].
Qed.

Lemma es_shape_len frames : es_shape frames true -> (1 <= length frames)%nat.
Proof.
  unfold es_shape. intro H. destruct frames as [|f t]; [cbn in H; discriminate | cbn [length]; lia].
Qed.

Lemma es_shape_app f1 f2 fin : es_shape f1 false -> es_shape f2 fin -> es_shape (f1 ++ f2) fin.
Proof.
  unfold es_shape. intros H1 H2. rewrite map_app, H1, H2, app_length, Nat.sub_0_r, app_nil_r, app_assoc, <- repeat_app.
  assert (L : ((if fin then 1 else 0) <= length f2)%nat).
  { destruct fin; [|lia]. destruct f2; [cbn in H2; discriminate | cbn; lia]. }
  f_equal. f_equal. lia.
Qed.

Lemma dropN_nonnil q (b : bytes) : q <= len b -> q <> len b -> dropN q b <> [].
Proof.
  intros H1 H2 X. assert (L : len (dropN q b) = 0) by (rewrite X; reflexivity). rewrite len_dropN in L. lia.
Qed.

Section Track.
Variable hstate : Type.
Variable dec_field : hstate -> N -> bytes -> dec_res hstate.
Variable enc_field : hstate -> bytes -> bytes -> bool -> bytes * hstate.
Variable enc_set_max : hstate -> N -> hstate.
Variable cfg : config.
Notation sconn := (sconn hstate).
Implicit Types c : sconn.
Notation AbortS := (AbortS hstate).
Notation Keeps := (Keeps hstate).
Notation FrameO := (FrameO hstate).

(* the frames of the response queued so far: HEADERS, then DATA frames carrying `frames` *)
Definition Queued (sid : N) (es : bool) (frames : list (bool * bytes)) c : Prop :=
  exists blk, rf sid (sc_out c) = rev (frames_out sid frames) ++ [OHeaders sid es blk].

(* all of the body has been queued, END_STREAM on the last frame *)
Definition Sent (sid : N) (B : bytes) c : Prop :=
  exists frames, Queued sid (isnil B) frames c /\ concat (map snd frames) = B /\
                 es_shape frames (negb (isnil B)) /\ Forall small frames.

(* the stream is in the table with the rest of the body *)
Definition Live (sid : N) (B : bytes) c : Prop :=
  exists s frames, strms_search (sc_strms c) sid = Some s /\ phase s = true /\ st_bodyStream s = None /\
    st_pendingEnd s = true /\ st_pending s <> [] /\ Queued sid false frames c /\
    concat (map snd frames) ++ st_pending s = B /\ es_shape frames false /\ Forall small frames.

Definition Complete (sid : N) (B : bytes) c : Prop :=
  strms_search (sc_strms c) sid = None /\ sid <= sc_highestID c /\ Sent sid B c.

Definition Track (sid : N) (B : bytes) c : Prop := AbortS sid c \/ Live sid B c \/ Complete sid B c.

Lemma AbortS_FrameO sid c c' : FrameO c c' -> AbortS sid c -> AbortS sid c'.
Proof.
  intros [f1 f2 f3 f4 f5] [H|[H|[H|H]]].
  - left. destruct f2 as [E|E]; congruence.
  - right; left. congruence.
  - right; right; left. auto.
  - right; right; right. eapply reset_seen_ext; eassumption.
Qed.

Lemma Queued_Keeps sid es frames c c' : Keeps sid c c' -> Queued sid es frames c -> Queued sid es frames c'.
Proof. intros K (blk & E). exists blk. rewrite (k_rf _ _ _ _ K). exact E. Qed.
Lemma Sent_Keeps sid B c c' : Keeps sid c c' -> Sent sid B c -> Sent sid B c'.
Proof. intros K (frames & Q & R). exists frames. split; [eapply Queued_Keeps; eassumption | exact R]. Qed.
Lemma Live_Keeps sid B c c' : Keeps sid c c' -> Live sid B c -> Live sid B c'.
Proof.
  intros K (s & frames & F & R). exists s, frames. rewrite (k_search _ _ _ _ K). split; [exact F|].
  destruct R as (R1 & R2 & R3 & R4 & Q & R5). repeat (split; [assumption|]). split; [eapply Queued_Keeps; eassumption | exact R5].
Qed.
Lemma Complete_Keeps sid B c c' : Keeps sid c c' -> Complete sid B c -> Complete sid B c'.
Proof.
  intros K (F & H & S). split; [rewrite (k_search _ _ _ _ K); exact F|]. split; [pose proof (k_hi _ _ _ _ K); flia|].
  eapply Sent_Keeps; eassumption.
Qed.
Lemma Track_Keeps sid B c c' : Keeps sid c c' -> FrameO c c' -> Track sid B c -> Track sid B c'.
Proof.
  intros K F [H|[H|H]]; [left; eapply AbortS_FrameO; eassumption | right; left; eapply Live_Keeps; eassumption|].
  right; right. eapply Complete_Keeps; eassumption.
Qed.

(* one call of sendData on the tracked stream (a working copy s with the fields of the table entry) *)
Lemma send_live c s sid B frames :
  st_id s = sid -> st_bodyStream s = None -> st_pendingEnd s = true -> st_pending s <> [] ->
  sc_wl_dead c = false -> sc_sl_done c = false ->
  Queued sid false frames c -> concat (map snd frames) ++ st_pending s = B -> es_shape frames false -> Forall small frames ->
  let c1 := fst (fst (send_data c s)) in let s1 := snd (fst (send_data c s)) in let fin := snd (send_data c s) in
  exists frames',
    Queued sid false frames' c1 /\ Forall small frames' /\
    st_id s1 = sid /\ st_state s1 = st_state s /\ st_responded s1 = st_responded s /\ st_handlerRunning s1 = st_handlerRunning s /\
    st_bodyStream s1 = None /\ st_pendingEnd s1 = true /\
    sc_strms c1 = sc_strms c /\ sc_sl_done c1 = false /\ sc_wl_dead c1 = false /\ sc_closing c1 = sc_closing c /\
    (if fin then concat (map snd frames') = B /\ es_shape frames' true /\ st_pending s1 = []
     else st_pending s1 <> [] /\ concat (map snd frames') ++ st_pending s1 = B /\ es_shape frames' false).
Proof.
  intros Id BS PE PN WD SD (blk & Q) CB ES FS. cbv zeta.
  destruct (send_data_buffered _ c s BS PE WD SD) as (frames2 & E & CC & PD & FA & ES2 & FN & _).
  destruct (send_data_buffered_stream _ c s BS PE WD SD) as (I2 & St2 & _ & R2 & Ru2 & BS2 & PE2 & T2 & SD2 & WD2 & CL2 & _).
  cbv zeta in *.
  set (q := Z.to_N (Z.max 0 (Z.min (Z.of_N (len (st_pending s))) (Z.min (st_window s) (sc_clientWindow c))))) in *.
  destruct (send_data c s) as [[c1 s1] fin]. cbn [fst snd] in *.
  replace (match st_pending s with [] => true | _ => false end) with false in ES2 by (destruct (st_pending s); [congruence | reflexivity]).
  rewrite Bool.andb_true_r in ES2.
  exists (frames ++ frames2).
  split.
  { exists blk. rewrite E, rf_app, Q, Id, rf_rev, rf_frames_out, frames_out_app, rev_app_distr, <- app_assoc. reflexivity. }
  split; [apply Forall_app; split; [exact FS | exact FA]|].
  split; [congruence|]. split; [exact St2|]. split; [exact R2|]. split; [exact Ru2|]. split; [exact BS2|]. split; [exact PE2|].
  split; [exact T2|]. split; [exact SD2|]. split; [exact WD2|]. split; [exact CL2|].
  assert (QL : q <= len (st_pending s)) by (unfold q; clear; lia).
  rewrite map_app, concat_app, CC.
  destruct fin.
  - symmetry in FN. apply N.eqb_eq in FN. rewrite FN in *.
    assert (LL : (length (st_pending s) <= N.to_nat (len (st_pending s)))%nat) by (unfold len; clear; lia).
    unfold takeN, dropN in *. rewrite firstn_all2 by exact LL. rewrite skipn_all2 in PD by exact LL.
    split; [exact CB|]. split; [apply es_shape_app; assumption | exact PD].
  - symmetry in FN. apply N.eqb_neq in FN. rewrite PD.
    split; [apply dropN_nonnil; assumption|]. split; [rewrite <- app_assoc, takeN_dropN; exact CB | apply es_shape_app; assumption].
Qed.

End Track.
