(* Proofs/CliMsgReqDecSz.v - C02 (client), request side: who writes encTableSize.
   The atomic `encTableSize` (cc_encTableSize: the HPACK table size the write loop applies to its encoder before the next
   request) is written by handleSettings only: one lemma per model function ("leaves cc_encTableSize alone"), then the step
   (ets_step) and its lifting to runs (ets_run).  Part 2 relates Settings.Read to the parameter pairs of the payload. *)
From H2V Require Import Base.Bytes Base.MachineInt Base.Result Gen.GenConsts Impl.ServerConn Impl.ClientConn
  Proofs.CliBase Proofs.CliDefs.
From Coq Require Import ZArith Lia ZifyN ZifyNat ZifyBool List Bool.
Import ListNotations.
Local Open Scope N_scope.
Set Default Proof Using "Type".

(* the frame lemmas of Proofs/CliBaseProj.v for this one projection *)
#[export] Hint Rewrite
  @cc_encTableSize_cl_note @cc_encTableSize_cl_notes @cc_encTableSize_cl_ctx_put @cc_encTableSize_cl_ctx_upd
  @cc_encTableSize_cl_resolve @cc_encTableSize_cl_resolve_all @cc_encTableSize_cl_set_last_err @cc_encTableSize_cl_req_del
  @cc_encTableSize_cl_take_req_count @cc_encTableSize_cl_write_out @cc_encTableSize_cl_signal_window
  @cc_encTableSize_cl_close_begin @cc_encTableSize_cl_close_net @cc_encTableSize_cl_conn_close @cc_encTableSize_cl_go_stuck
  @cc_encTableSize_cl_close_body @cc_encTableSize_cl_delete_pending @cc_encTableSize_cl_cancel_stream
  @cc_encTableSize_cl_apply_initial_window @cc_encTableSize_cl_add_window @cc_encTableSize_cl_update_window
  @cc_encTableSize_cl_finish : ets.

#[export] Hint Rewrite
  @cc_encTableSize_ccu_ctxs @cc_encTableSize_ccu_nextID @cc_encTableSize_ccu_open @cc_encTableSize_ccu_maxStreams
  @cc_encTableSize_ccu_maxFrame @cc_encTableSize_ccu_goAway @cc_encTableSize_ccu_closed @cc_encTableSize_ccu_closing
  @cc_encTableSize_ccu_netClosed @cc_encTableSize_ccu_writeFail @cc_encTableSize_ccu_enc
  @cc_encTableSize_ccu_encTableSeen @cc_encTableSize_ccu_dec @cc_encTableSize_ccu_currentWindow
  @cc_encTableSize_ccu_serverS @cc_encTableSize_ccu_hdrStream @cc_encTableSize_ccu_hdrPrev
  @cc_encTableSize_ccu_hdrFields @cc_encTableSize_ccu_hdrEndStream @cc_encTableSize_ccu_hdrRegularSeen
  @cc_encTableSize_ccu_hdrStatus @cc_encTableSize_ccu_hdrErr @cc_encTableSize_ccu_stateClosed
  @cc_encTableSize_ccu_closeRef @cc_encTableSize_ccu_reqQueued @cc_encTableSize_ccu_pending
  @cc_encTableSize_ccu_connWindow @cc_encTableSize_ccu_streamWindow @cc_encTableSize_ccu_inQ
  @cc_encTableSize_ccu_outQ @cc_encTableSize_ccu_winCh @cc_encTableSize_ccu_lastErr @cc_encTableSize_ccu_unacks
  @cc_encTableSize_ccu_rl_done @cc_encTableSize_ccu_wl_done @cc_encTableSize_ccu_rl_stuck
  @cc_encTableSize_ccu_wl_stuck @cc_encTableSize_ccu_out : ets.

(* destruct the outermost blocking `match`/`if`/`let '(..) :=` scrutinee, one at a time *)
Ltac ets_case :=
  match goal with
  | |- context [match ?s with _ => _ end] => tryif is_var s then destruct s else destruct s eqn:?
  end.

(* an equation `f .. = (c1, r)` left by ets_case becomes `cc_encTableSize (fst (f ..)) = cc_encTableSize c1` *)
Ltac ets_eqs :=
  subst;
  repeat match goal with
         | H : _ = (_, _) |- _ =>
           first [ apply (f_equal (fun x => cc_encTableSize (fst (fst (fst x))))) in H
                 | apply (f_equal (fun x => cc_encTableSize (fst x))) in H
                 | clear H ];
           try cbn beta in H; try cbn [fst] in H
         end.

(* `autorewrite .. in *` leaves the conclusion alone: both are needed *)
Ltac ets_norm := cc_cbn_all; autorewrite with ets in *; autorewrite with ets; cc_cbn_all.
(* a branch point left inside the argument of a destructed call *)
Ltac ets_hcase :=
  match goal with
  | H : context [cc_encTableSize (match ?s with _ => _ end)] |- _ => tryif is_var s then destruct s else destruct s eqn:?
  end.
Ltac ets_fin := ets_eqs; ets_norm; repeat (ets_hcase; ets_norm); congruence.
Ltac ets_go := repeat ets_case; ets_fin.

Section Sz.
Context {hstate : Type}.
Variable dec_field : hstate -> N -> bytes -> dec_res hstate.
Variable enc_field : hstate -> bytes -> bytes -> bool -> bytes * hstate.
Variable enc_set_max : hstate -> N -> hstate.
Variable cfg : cl_config.
Implicit Types c : cconn hstate.

Notation ets := cc_encTableSize.

(* ---------- sendPending, flushPending, writeRequest ---------- *)
Lemma ets_send_pending fuel c id : ets (fst (cl_send_pending fuel c id)) = ets c.
Proof.
  revert c. induction fuel as [|fuel IH]; intro c; [reflexivity|]. cbn [cl_send_pending].
  repeat ets_case; rewrite ?IH; ets_fin.
Qed.
Hint Rewrite ets_send_pending : ets.

Lemma ets_flush_pending c ids : ets (fst (cl_flush_pending c ids)) = ets c.
Proof.
  revert c. induction ids as [|id t IH]; intro c; [reflexivity|]. cbn [cl_flush_pending].
  repeat ets_case; rewrite ?IH; ets_fin.
Qed.
Hint Rewrite ets_flush_pending : ets.

Lemma ets_write_request c tag : ets (fst (cl_write_request enc_field enc_set_max c tag)) = ets c.
Proof. unfold cl_write_request. ets_go. Qed.
Hint Rewrite ets_write_request : ets.

(* ---------- the write loop ---------- *)
Lemma ets_wl_exit c le why : ets (cl_wl_exit c le why) = ets c.
Proof. unfold cl_wl_exit. ets_go. Qed.
Hint Rewrite ets_wl_exit : ets.

Lemma ets_wl_after c : ets (cl_wl_after cfg c) = ets c.
Proof. unfold cl_wl_after. ets_go. Qed.
Hint Rewrite ets_wl_after : ets.

Lemma ets_wl_in c : ets (cl_wl_in enc_field enc_set_max cfg c) = ets c.
Proof. unfold cl_wl_in. ets_go. Qed.

Lemma ets_wl_out c : ets (cl_wl_out cfg c) = ets c.
Proof. unfold cl_wl_out. ets_go. Qed.

Lemma ets_wl_win c order : ets (cl_wl_win cfg c order) = ets c.
Proof. unfold cl_wl_win. ets_go. Qed.

Lemma ets_wl_ping c : ets (cl_wl_ping cfg c) = ets c.
Proof. unfold cl_wl_ping. ets_go. Qed.

Lemma ets_wl_done c : ets (cl_wl_done c) = ets c.
Proof. unfold cl_wl_done. ets_go. Qed.

(* ---------- the read loop ---------- *)
Lemma ets_rl_exit c why : ets (cl_rl_exit c why) = ets c.
Proof. unfold cl_rl_exit. ets_go. Qed.
Hint Rewrite ets_rl_exit : ets.

Lemma ets_rl_fail c : ets (cl_rl_fail c) = ets c.
Proof. unfold cl_rl_fail. ets_go. Qed.
Hint Rewrite ets_rl_fail : ets.

Lemma ets_rl_panic c : ets (cl_rl_panic c) = ets c.
Proof. unfold cl_rl_panic. ets_go. Qed.
Hint Rewrite ets_rl_panic : ets.

Lemma ets_goaway_fail c l : ets (fst (cl_goaway_fail c l)) = ets c.
Proof.
  revert c. induction l as [|[id tag] t IH]; intro c; [reflexivity|]. cbn [cl_goaway_fail].
  repeat ets_case; rewrite ?IH; ets_fin.
Qed.
Hint Rewrite ets_goaway_fail : ets.

Lemma ets_goaway c last : ets (fst (cl_goaway c last)) = ets c.
Proof. unfold cl_goaway. ets_go. Qed.
Hint Rewrite ets_goaway : ets.

(* cl_hdr_loop computes on the decoder and the response only: no connection in, none out *)
Lemma ets_read_header_fragment c id fragment eh res :
  ets (fst (fst (fst (cl_read_header_fragment dec_field c id fragment eh res)))) = ets c.
Proof. unfold cl_read_header_fragment. ets_go. Qed.
Hint Rewrite ets_read_header_fragment : ets.

Lemma ets_read_stream c fr res : ets (fst (fst (fst (cl_read_stream dec_field c fr res)))) = ets c.
Proof. unfold cl_read_stream. ets_go. Qed.
Hint Rewrite ets_read_stream : ets.

Lemma ets_dispatch c fr : ets (fst (cl_dispatch dec_field c fr)) = ets c.
Proof.
  unfold cl_dispatch.
  destruct (cl_req_find (cc_reqQueued c) (sf_sid fr)) as [tag|]; [destruct (cl_acquire_for [] c tag (sf_sid fr))|]; cbv iota; ets_go.
Qed.
Hint Rewrite ets_dispatch : ets.

Lemma ets_rl_frame c fr : ets (cl_rl_frame dec_field c fr) = ets c.
Proof. unfold cl_rl_frame. ets_go. Qed.
Hint Rewrite ets_rl_frame : ets.

(* ---------- callers, timers, Close ---------- *)
Lemma ets_submit c tag rq q : ets (cl_submit cfg c tag rq q) = ets c.
Proof. unfold cl_submit. ets_go. Qed.

Lemma ets_submit_check c tag : ets (cl_submit_check c tag) = ets c.
Proof. unfold cl_submit_check. ets_go. Qed.

Lemma ets_receive c tag : ets (cl_receive c tag) = ets c.
Proof. unfold cl_receive. ets_go. Qed.

Lemma ets_timeout_fire c tag : ets (cl_timeout_fire c tag) = ets c.
Proof. unfold cl_timeout_fire. ets_go. Qed.

Lemma ets_timeout_cancel c tag : ets (cl_timeout_cancel c tag) = ets c.
Proof. unfold cl_timeout_cancel. ets_go. Qed.

Lemma ets_close_call c : ets (cl_close_call c) = ets c.
Proof. unfold cl_close_call. ets_go. Qed.

Lemma ets_close_finish c : ets (cl_close_finish c) = ets c.
Proof. unfold cl_close_finish. ets_go. Qed.

(* ---------- handleSettings: the one writer ---------- *)
Lemma ets_handle_settings c st :
  ets (cl_handle_settings c st) = if cl_settings_has st c_HeaderTableSize then cs_table st else ets c.
Proof. unfold cl_handle_settings. destruct (cl_settings_has st c_HeaderTableSize); ets_go. Qed.

Lemma ets_rl_step c i :
  ets (cl_rl_step dec_field c i) = ets c \/
  exists fr st, i = RFrame fr /\ sf_sid fr = 0 /\ sf_kind fr = KSettings /\ flag_has (sf_flags fr) FL_ES = false /\
    cc_netClosed c = false /\
    cl_settings_deserialize false (sf_payload fr) = Some st /\ cl_settings_has st c_HeaderTableSize = true /\
    ets (cl_rl_step dec_field c i) = cs_table st.
Proof.
  unfold cl_rl_step. destruct (cc_netClosed c) eqn:NC; [left; ets_go|].
  destruct i as [fr| | |]; try (left; ets_go).
  destruct (sf_sid fr =? 0) eqn:S0; [|left; ets_go]. apply N.eqb_eq in S0.
  destruct (sf_kind fr) eqn:K; try (left; ets_go).
  destruct (flag_has (sf_flags fr) FL_ES) eqn:ACK; [left; ets_go|].
  destruct (cl_settings_deserialize false (sf_payload fr)) as [st|] eqn:DS; [|left; ets_go].
  rewrite ets_handle_settings. destruct (cl_settings_has st c_HeaderTableSize) eqn:HAS; [right | left; reflexivity].
  exists fr, st. repeat split; assumption || reflexivity.
Qed.

(* ---------- the step ---------- *)
Theorem ets_step (c : cconn hstate) (e : cevent) :
  cc_encTableSize (cl_step dec_field enc_field enc_set_max cfg c e) = cc_encTableSize c \/
  exists fr st, e = CEvRL (RFrame fr) /\ sf_sid fr = 0 /\ sf_kind fr = KSettings /\ flag_has (sf_flags fr) FL_ES = false /\
    cl_rl_live c = true /\ cc_netClosed c = false /\
    cl_settings_deserialize false (sf_payload fr) = Some st /\ cl_settings_has st c_HeaderTableSize = true /\
    cc_encTableSize (cl_step dec_field enc_field enc_set_max cfg c e) = cs_table st.
Proof.
  destruct e as [tag rq q|tag| | |order| | |i|tag|tag|tag| | |]; cbn [cl_step].
  - left. apply ets_submit.
  - left. apply ets_submit_check.
  - left. destruct (cl_wl_live c); [apply ets_wl_in | reflexivity].
  - left. destruct (cl_wl_live c); [apply ets_wl_out | reflexivity].
  - left. destruct (cl_wl_live c); [apply ets_wl_win | reflexivity].
  - left. destruct (cl_wl_live c); [apply ets_wl_ping | reflexivity].
  - left. destruct (cl_wl_live c); [apply ets_wl_done | reflexivity].
  - destruct (cl_rl_live c) eqn:LV; [|left; reflexivity].
    destruct (ets_rl_step c i) as [H|(fr & st & -> & S0 & K & ACK & NC & DS & HAS & H)]; [left; exact H | right].
    exists fr, st. repeat split; assumption.
  - left. apply ets_timeout_fire.
  - left. apply ets_timeout_cancel.
  - left. apply ets_receive.
  - left. apply ets_close_call.
  - left. apply ets_close_finish.
  - left. reflexivity.
Qed.

(* ---------- along a run ---------- *)
Theorem ets_run (P : N -> Prop) h0 first :
  P (cc_encTableSize (cl_init enc_set_max h0 first)) ->
  forall evs,
  (forall fr st, In (CEvRL (RFrame fr)) evs -> sf_sid fr = 0 -> sf_kind fr = KSettings -> flag_has (sf_flags fr) FL_ES = false ->
     cl_settings_deserialize false (sf_payload fr) = Some st -> cl_settings_has st c_HeaderTableSize = true -> P (cs_table st)) ->
  P (cc_encTableSize (cl_run dec_field enc_field enc_set_max cfg h0 first evs)).
Proof.
  intros HI evs. induction evs as [|e evs IH] using rev_ind; intro HS; [exact HI|].
  rewrite cl_run_snoc.
  destruct (ets_step (cl_run dec_field enc_field enc_set_max cfg h0 first evs) e)
    as [H|(fr & st & -> & S0 & K & ACK & _ & _ & DS & HAS & H)]; rewrite H.
  - apply IH. intros fr st I. apply HS, in_or_app. left. exact I.
  - apply (HS fr st); try assumption. apply in_or_app. right. left. reflexivity.
Qed.

End Sz.

(* ---------- Part 2: Settings.Read and the parameter pairs of the payload ---------- *)
Definition table_of (a : N) (kv : N * N) : N := if fst kv =? c_HeaderTableSize then snd kv else a.

Lemma testbit_shiftl_1 k : 1 <= k -> N.testbit (N.shiftl 1 k) 1 = (k =? 1).
Proof.
  intro H. destruct (k =? 1) eqn:E.
  - apply N.eqb_eq in E. subst k. reflexivity.
  - apply N.shiftl_spec_low. lia.
Qed.

(* one parameter: HEADER_TABLE_SIZE overwrites the table size and sets its presence bit, no other key touches either *)
Lemma settings_apply_table st0 k v st :
  cl_settings_apply st0 k v = Some st ->
  cs_table st = table_of (cs_table st0) (k, v) /\
  N.testbit (cs_present st) 1 = N.testbit (cs_present st0) 1 || (k =? c_HeaderTableSize).
Proof.
  unfold cl_settings_apply, table_of. cbn [fst snd cs_table cs_push cs_streams cs_window cs_frame cs_hdr cs_hasWin cs_present].
  intro A.
  assert (B : N.testbit (if (1 <=? k) && (k <=? 6) then N.lor (cs_present st0) (N.shiftl 1 k) else cs_present st0) 1 =
              N.testbit (cs_present st0) 1 || (k =? c_HeaderTableSize)).
  { unfold c_HeaderTableSize. destruct ((1 <=? k) && (k <=? 6)) eqn:R.
    - rewrite N.lor_spec, testbit_shiftl_1 by lia. reflexivity.
    - replace (k =? 1) with false by lia. rewrite orb_false_r. reflexivity. }
  revert A.
  repeat match goal with
         | |- context [if ?b then _ else _] =>
           lazymatch b with
           | (1 <=? k) && (k <=? 6) => fail
           | _ => destruct b eqn:?
           end
         end; intro A; inversion A; subst; cbn [cs_table cs_present]; (split; [reflexivity | exact B]).
Qed.

Lemma settings_read_table n : forall d st0 st, (length d <= n)%nat -> cl_settings_read d st0 = Some st ->
  cs_table st = fold_left table_of (settings_pairs d) (cs_table st0) /\
  N.testbit (cs_present st) 1 =
    N.testbit (cs_present st0) 1 || existsb (fun kv => fst kv =? c_HeaderTableSize) (settings_pairs d).
Proof.
  induction n as [|n IH]; intros d st0 st L R.
  - destruct d; [|cbn [length] in L; lia]. cbn in R. inversion R; subst. cbn. rewrite orb_false_r. split; reflexivity.
  - destruct d as [|k1 [|k0 [|v3 [|v2 [|v1 [|v0 rest]]]]]]; cbn [cl_settings_read settings_pairs] in *;
      try (inversion R; subst; cbn [fold_left existsb]; rewrite orb_false_r; split; reflexivity).
    destruct (cl_settings_apply st0 (k1 * 256 + k0) (((v3 * 256 + v2) * 256 + v1) * 256 + v0)) as [st'|] eqn:A; [|discriminate].
    destruct (settings_apply_table _ _ _ _ A) as [T B].
    assert (L' : (length rest <= n)%nat) by (cbn [length] in L; lia).
    destruct (IH rest st' st L' R) as [T' B'].
    cbn [fold_left existsb fst]. rewrite T', B', T, B, orb_assoc. split; reflexivity.
Qed.

Lemma settings_table_pairs ack p st :
  cl_settings_deserialize ack p = Some st ->
  cs_table st = fold_left (fun a kv => if fst kv =? c_HeaderTableSize then snd kv else a) (settings_pairs p) c_defaultHeaderTableSize /\
  (cl_settings_has st c_HeaderTableSize = true -> exists kv, In kv (settings_pairs p) /\ fst kv = c_HeaderTableSize).
Proof.
  unfold cl_settings_deserialize. destruct (negb (len p mod 6 =? 0)); [discriminate|].
  destruct (ack && negb (len p =? 0)); [discriminate|]. intro R.
  destruct (settings_read_table (length p) p _ _ (le_n _) R) as [T B]. split; [exact T|].
  unfold cl_settings_has. change (1 <=? c_HeaderTableSize) with true. change (c_HeaderTableSize <=? 6) with true. cbn [andb].
  change (N.testbit (cs_present st) c_HeaderTableSize) with (N.testbit (cs_present st) 1). rewrite B. cbn [cl_settings_default cs_present]. change (N.testbit 0 1) with false. cbn [orb]. intro E.
  apply existsb_exists in E. destruct E as (kv & I & E). exists kv. split; [exact I | apply N.eqb_eq, E].
Qed.

(* the converse: the presence bit is set exactly when the payload carries the parameter *)
Lemma settings_has_table_pairs ack p st :
  cl_settings_deserialize ack p = Some st ->
  cl_settings_has st c_HeaderTableSize = existsb (fun kv => fst kv =? c_HeaderTableSize) (settings_pairs p).
Proof.
  unfold cl_settings_deserialize. destruct (negb (len p mod 6 =? 0)); [discriminate|].
  destruct (ack && negb (len p =? 0)); [discriminate|]. intro R.
  destruct (settings_read_table (length p) p _ _ (le_n _) R) as [_ B].
  unfold cl_settings_has. change (1 <=? c_HeaderTableSize) with true. change (c_HeaderTableSize <=? 6) with true. cbn [andb].
  change (N.testbit (cs_present st) c_HeaderTableSize) with (N.testbit (cs_present st) 1). rewrite B. reflexivity.
Qed.
