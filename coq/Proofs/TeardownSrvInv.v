(* Proofs/TeardownSrvInv.v -- blocking-structure model (Impl/Teardown.v), server: invariants of the reachable states, the rank decreases.
   Statements: Props/Teardown.v; overview: Proofs/TeardownProofs.v. *)
From Coq Require Import Arith Lia Bool List.
From RecordUpdate Require Import RecordSet.
Import RecordSetNotations.
Import ListNotations.
From H2V Require Import Impl.Teardown Proofs.TeardownGen.

Module SrvP.
Import Srv.

Ltac break :=
  repeat match goal with
         | H : _ /\ _ |- _ => destruct H
         | H : exists _, _ |- _ => destruct H
         end.
Ltac rw_pcs :=
  repeat match goal with
         | H : sv ?s = _ |- _ => rewrite H in *; clear H
         | H : sl ?s = _ |- _ => rewrite H in *; clear H
         | H : wl ?s = _ |- _ => rewrite H in *; clear H
         | H : pg ?s = _ |- _ => rewrite H in *; clear H
         end.
Ltac bools :=
  repeat match goal with
         | H : ?f ?s = true |- _ => rewrite H in *; clear H
         | H : ?f ?s = false |- _ => rewrite H in *; clear H
         end.

Section P.
Variable cap : nat.

Notation guard := (Srv.guard cap).
Notation reachable := (Srv.reachable cap).

(* ---- invariants ---- *)
Definition wl_is_done (p : wl_pc) : bool := match p with WDone => true | _ => false end.
Definition sl_is_done (p : sl_pc) : bool := match p with SDone => true | _ => false end.
Definition sl_past_a (p : sl_pc) : bool :=
  match p with SExitB | SExitC | SDone => true | _ => false end.
Definition sv_past_close (p : sv_pc) : bool := match p with VWait | VEnd => true | _ => false end.
Definition sv_is_end (p : sv_pc) : bool := match p with VEnd => true | _ => false end.
Definition wl_past_close (p : wl_pc) : bool :=
  match p with WCloseDone | WDone => true | _ => false end.
Definition wl_draining (p : wl_pc) : bool :=
  match p with WDrain | WFlush | WSock true | WCloseSock | WCloseDone | WDone => false | _ => true end.

Record inv (s : state) : Prop := {
  i_wdone : wdone s = wl_is_done (wl s);
  i_wstop : wstop s = sl_is_done (sl s);
  i_hstop : hstop s = sl_past_a (sl s);
  i_rdc : rdc s = sv_past_close (sv s);
  i_svend : sv_is_end (sv s) = true -> sclosed s = true;
  i_wlclose : wl_past_close (wl s) = true -> sclosed s = true;
  i_rd : rd s <= cap;
  i_wr : wr s <= cap;
  i_hd : hd s <= cap }.



Lemma inv_init : forall s, init s -> inv s.
Proof.
  unfold init; intros s H; break.
  constructor; try (rw_pcs; cbn; congruence); try lia.
  - destruct H; rw_pcs; cbn; congruence.
  - destruct H; rw_pcs; cbn; congruence.
Qed.

Lemma inv_step : forall s a, inv s -> guard a s -> inv (eff a s).
Proof.
  intros s a [] G.
  destruct a; try destruct c; cbn in G; break;
    constructor; cbn; rw_pcs; cbn in *;
      auto; try congruence; try lia;
      try (match goal with |- context [match ?x with _ => _ end] => destruct x end; cbn in *; auto; congruence).
Qed.

Lemma reachable_inv : forall s, reachable s -> inv s.
Proof. induction 1; auto using inv_init, inv_step. Qed.

(* ---- the rank ---- *)

Lemma dead_gone : forall s, gone s = true -> dead s = true.
Proof. unfold dead; intros s ->; auto. Qed.

Theorem rank_decreases : forall s a, refills a = false -> guard a s -> rank (eff a s) < rank s.
Proof.
  intros s a Hr G.
  destruct a; try discriminate Hr; try destruct c; cbn in G; break;
    unfold rank; cbn -[Nat.mul]; rw_pcs; bools; cbn -[Nat.mul];
    try lia;
    try (match goal with x : bool |- _ => destruct x end; cbn -[Nat.mul]; lia).
  - destruct (pg s), (i_armed s); cbn; lia.
  - destruct d, r, (i_armed s); cbn -[Nat.mul]; lia.
  - destruct (pg s); cbn; lia.
Qed.
End P.
End SrvP.
