(* C03: one representation. The pure core of nextField's field cases (HpackNext.one_core)
   against spec_dec_repr followed by spec_step, on reachable states. *)
From Coq Require Import List NArith ZArith Bool Lia.
From H2V Require Import Base.Bytes Base.MachineInt Base.Result Gen.GenConsts Gen.GenStatic
     Impl.Huffman Impl.Hpack Spec.Rfc7541Huffman Spec.Rfc7541
     Proofs.HpackDefs Proofs.HpackBytes Proofs.HpackStatic Proofs.HpackInt Proofs.HpackStr
     Proofs.HpackTable Proofs.HpackNext.
Import ListNotations.
Local Open Scope N_scope.
Local Opaque huffman_root.

Arguments N.land : simpl never.
Arguments N.pow : simpl never.

(* ---- the specification's parsers consume input ---- *)

Lemma dec_cont_length : forall a b m v rest, dec_cont a b m = Some (v, rest) -> (length rest < length b)%nat.
Proof.
  induction a as [|a IH]; intros b m v rest H; [discriminate|].
  destruct b as [|x b]; [discriminate|]. cbn [dec_cont] in H.
  destruct (x <? 128).
  - injection H as _ <-. cbn [length]. lia.
  - destruct (dec_cont a b (m + 7)) as [[v' r']|] eqn:E; [|discriminate].
    injection H as _ <-. apply IH in E. cbn [length]. lia.
Qed.

Lemma spec_dec_int_length n b v rest : spec_dec_int n b = Some (v, rest) -> (length rest < length b)%nat.
Proof.
  destruct b as [|x b]; [discriminate|]. cbn [spec_dec_int].
  destruct (x mod 2 ^ n <? 2 ^ n - 1).
  - intros H. injection H as _ <-. cbn [length]. lia.
  - destruct (dec_cont max_cont_octets b 0) as [[w r]|] eqn:E; [|discriminate].
    intros H. injection H as _ <-. apply dec_cont_length in E. cbn [length]. lia.
Qed.

Lemma spec_dec_str_length b h s rest : spec_dec_str b = Some (h, s, rest) -> (length rest < length b)%nat.
Proof.
  destruct b as [|x b]; [discriminate|]. cbn [spec_dec_str].
  destruct (spec_dec_int 7 (x :: b)) as [[n r]|] eqn:E; [|discriminate].
  apply spec_dec_int_length in E.
  destruct (len r <? n); [discriminate|].
  assert (Hd : (length (dropN n r) <= length r)%nat) by (unfold dropN; rewrite skipn_length; lia).
  destruct (128 <=? x).
  - destruct (spec_huff_decode (takeN n r)); [|discriminate]. intros H. injection H as _ _ <-. lia.
  - intros H. injection H as _ _ <-. lia.
Qed.

Lemma dec_literal_length m b r rest : dec_literal m b = Some (r, rest) -> (length rest < length b)%nat.
Proof.
  unfold dec_literal. destruct (spec_dec_int (mode_prefix m) b) as [[i r0]|] eqn:E; [|discriminate].
  apply spec_dec_int_length in E.
  destruct (i =? 0).
  - destruct (spec_dec_str r0) as [[[hn nm] r1]|] eqn:E1; [|discriminate]. apply spec_dec_str_length in E1.
    destruct (spec_dec_str r1) as [[[hv vl] r2]|] eqn:E2; [|discriminate]. apply spec_dec_str_length in E2.
    intros H. injection H as _ <-. lia.
  - destruct (spec_dec_str r0) as [[[hv vl] r1]|] eqn:E1; [|discriminate]. apply spec_dec_str_length in E1.
    intros H. injection H as _ <-. lia.
Qed.

Lemma spec_dec_repr_length b r rest : spec_dec_repr b = Some (r, rest) -> (length rest < length b)%nat.
Proof.
  destruct b as [|x b]; [discriminate|]. cbn [spec_dec_repr].
  destruct (128 <=? x).
  - destruct (spec_dec_int 7 (x :: b)) as [[i r0]|] eqn:E; [|discriminate].
    intros H. injection H as _ <-. eapply spec_dec_int_length; exact E.
  - destruct (64 <=? x); [apply dec_literal_length|].
    destruct (32 <=? x).
    + destruct (spec_dec_int 5 (x :: b)) as [[i r0]|] eqn:E; [|discriminate].
      intros H. injection H as _ <-. eapply spec_dec_int_length; exact E.
    + destruct (16 <=? x); apply dec_literal_length.
Qed.

(* ---- what the table holds ---- *)

Lemma table_ok_in st f : table_ok st -> In f (h_dynamic st) ->
  field_ok f = true /\ fsize f <= h_max_settings st.
Proof.
  intros Hok Hin. pose proof (table_ok_fsum st Hok) as [F1 F2].
  destruct Hok as [H1 [_ [H3 _]]]. rewrite forallb_forall in H1. split; [apply H1; exact Hin|].
  pose proof (fsum_in f _ Hin). lia.
Qed.

Lemma peek_ok st n f : table_ok st -> peek st n = Some f ->
  field_ok f = true /\ fsize f <= N.max (h_max_settings st) 64.
Proof.
  intros Hok Hp. destruct (peek_in _ _ _ Hp) as [Hin|Hin].
  - destruct (static_field_in f Hin) as [H1 H2]. split; [exact H1|]. unfold fsize. lia.
  - destruct (table_ok_in st f Hok Hin) as [H1 H2]. split; [exact H1 | lia].
Qed.

Lemma field_ok_inv f : field_ok f = true -> bytes_ok (f_key f) = true /\ bytes_ok (f_value f) = true /\ f_sens f = false.
Proof.
  unfold field_ok. intros H. apply andb_prop in H. destruct H as [H H3]. apply andb_prop in H.
  destruct H as [H1 H2]. destruct (f_sens f); [discriminate|]. auto.
Qed.

(* ---- a literal ---- *)

Definition name_of (t : dtable) (nr : nameref) : option bytes :=
  match nr with
  | NameLit n => Some n
  | NameIdx i => match lookup t i with Some (n, _) => Some n | None => None end
  end.

Lemma spec_step_literal t s m nr hn hv value :
  spec_step t s (Literal m nr hn hv value) =
  match name_of t nr with
  | None => None
  | Some n =>
      match m with
      | Incremental => Some (Some (n, value, false), add_entry t (n, value))
      | Without => Some (Some (n, value, false), t)
      | Never => Some (Some (n, value, true), t)
      end
  end.
Proof. destruct nr; reflexivity. Qed.

Theorem rl_core_spec hp m c r :
  bytes_ok (c :: r) = true -> table_ok hp ->
  let b := c :: r in
  let bi := negb (c mod 2 ^ mode_prefix m =? 0) in
  match dec_literal m b with
  | None => exists e, rl_core hp bi (mode_prefix m) b = Err e
  | Some (rp, rest) =>
      exists nr hn hv value, rp = Literal m nr hn hv value /\
        match name_of (abs hp) nr with
        | None => exists e, rl_core hp bi (mode_prefix m) b = Err e
        | Some name =>
            rl_core hp bi (mode_prefix m) b = Ok (name, value, rest) /\
            bytes_ok name = true /\ bytes_ok value = true /\ bytes_ok rest = true /\
            len name + len value + 32 + 2 * len rest <= N.max (h_max_settings hp) 64 + 2 * len b
        end
  end.
Proof.
  intros Hok Htab b bi. unfold dec_literal.
  assert (Hbits : 1 <= mode_prefix m <= 8) by (destruct m; cbn; lia).
  pose proof (read_int_spec (mode_prefix m) b Hbits Hok) as HI.
  destruct (spec_dec_int (mode_prefix m) b) as [[i r0]|] eqn:ES.
  2:{ destruct HI as [e HI]. exists e. unfold rl_core, bi.
      (* an integer that fails has an all-ones prefix, so the key is an index *)
      destruct (negb (c mod 2 ^ mode_prefix m =? 0)) eqn:Ebi.
      - rewrite HI. reflexivity.
      - exfalso. apply negb_false_iff, N.eqb_eq in Ebi. unfold b in ES. cbn [spec_dec_int] in ES.
        rewrite Ebi in ES.
        assert (2 ^ 1 <= 2 ^ mode_prefix m) by (apply N.pow_le_mono_r; lia).
        change (2 ^ 1) with 2 in *.
        replace (0 <? 2 ^ mode_prefix m - 1) with true in ES by (symmetry; apply N.ltb_lt; lia).
        discriminate. }
  destruct HI as [HI Hi].
  pose proof (spec_dec_int_prefix (mode_prefix m) c r i r0 ltac:(lia) ES) as Hz.
  pose proof (read_int_ok _ _ _ _ HI) as [p0 [Hb0 [Hne0 _]]].
  assert (Hr0 : bytes_ok r0 = true) by (unfold b in Hb0; rewrite Hb0 in Hok; apply bytes_ok_app in Hok; tauto).
  assert (Hl0 : len r0 + 1 <= len b).
  { rewrite Hb0, len_app. destruct p0; [congruence|]. rewrite len_cons. lia. }
  unfold bi, rl_core.
  destruct (N.eqb_spec i 0) as [Hi0|Hi0].
  - (* the name is a string literal; the prefix is zero, nothing but the first octet was read *)
    replace (c mod 2 ^ mode_prefix m =? 0) with true by (symmetry; apply N.eqb_eq; tauto). cbn [negb].
    assert (r0 = r).
    { unfold b in ES. cbn [spec_dec_int] in ES. destruct (c mod 2 ^ mode_prefix m <? 2 ^ mode_prefix m - 1).
      - injection ES as _ <-. reflexivity.
      - destruct (dec_cont max_cont_octets r 0) as [[w r']|]; [|discriminate]. injection ES as E1 _.
        assert (2 ^ 1 <= 2 ^ mode_prefix m) by (apply N.pow_le_mono_r; lia). change (2 ^ 1) with 2 in *. lia. }
    subst r0. unfold b.
    pose proof (read_string_spec r Hr0) as HS1.
    destruct (spec_dec_str r) as [[[hn nm] r1]|].
    2:{ destruct HS1 as [e ->]. exists e. reflexivity. }
    destruct HS1 as [-> [Hnm [Hr1 Hl1]]].
    pose proof (read_string_spec r1 Hr1) as HS2.
    destruct (spec_dec_str r1) as [[[hv vl] r2]|].
    2:{ destruct HS2 as [e ->]. exists e. reflexivity. }
    destruct HS2 as [-> [Hvl [Hr2 Hl2]]].
    exists (NameLit nm), hn, hv, vl. split; [reflexivity|]. cbn [name_of].
    split; [reflexivity|]. split; [exact Hnm|]. split; [exact Hvl|]. split; [exact Hr2|].
    unfold b in Hl0. lia.
  - replace (c mod 2 ^ mode_prefix m =? 0) with false by (symmetry; apply N.eqb_neq; tauto). cbn [negb].
    rewrite HI.
    pose proof (peek_lookup hp i ltac:(change (2 ^ 64) with (2 * 2 ^ 63); lia) (table_ok_length hp Htab)) as HP.
    pose proof (read_string_spec r0 Hr0) as HS1.
    destruct (spec_dec_str r0) as [[[hv vl] r1]|].
    + destruct HS1 as [HS1 [Hvl [Hr1 Hl1]]].
      exists (NameIdx i), false, hv, vl. split; [reflexivity|]. cbn [name_of].
      destruct (peek hp i) as [hf2|] eqn:Ep.
      * cbn [option_map] in HP. rewrite <- HP. unfold entry_of. rewrite HS1.
        destruct (peek_ok _ _ _ Htab Ep) as [Hf2 Hsz]. apply field_ok_inv in Hf2. destruct Hf2 as [Hk [_ _]].
        split; [reflexivity|]. split; [exact Hk|]. split; [exact Hvl|]. split; [exact Hr1|].
        unfold fsize in Hsz. lia.
      * cbn [option_map] in HP. rewrite <- HP. exists E_index_not_found. reflexivity.
    + destruct (peek hp i) as [hf2|]; [|exists E_index_not_found; reflexivity].
      destruct HS1 as [e ->]. exists e. reflexivity.
Qed.

(* ---- one field ---- *)

(* the first octet of a field representation, as the specification sees it *)
Lemma not_upd_byte c : c < 256 -> is_upd c = false -> c < 32 \/ 64 <= c.
Proof.
  intros Hc Hu. unfold is_upd in Hu.
  destruct (N.ltb_spec c 64) as [H64|H64]; [|right; exact H64].
  destruct (dispatch_low c H64) as [D1 [D2 D3]].
  rewrite dispatch_128, dispatch_64, D1, D2, D3 in Hu by lia.
  destruct (N.leb_spec 128 c); [lia|]. destruct (N.leb_spec 64 c); [lia|]. cbn [negb andb] in Hu.
  destruct (N.leb_spec 16 c), (N.ltb_spec c 32), (N.ltb_spec c 16), (N.leb_spec 32 c);
    cbn [negb andb] in Hu; try discriminate; lia.
Qed.

Lemma upd_byte c : c < 256 -> is_upd c = true -> 32 <= c < 64.
Proof.
  intros Hc Hu. unfold is_upd in Hu. rewrite dispatch_128 in Hu by exact Hc.
  destruct (N.leb_spec 128 c); [discriminate|]. rewrite dispatch_64 in Hu by lia.
  destruct (N.leb_spec 64 c); [discriminate|].
  destruct (dispatch_low c ltac:(lia)) as [_ [_ D3]]. rewrite D3 in Hu.
  destruct (N.leb_spec 32 c); [lia|]. rewrite !andb_false_r in Hu. discriminate.
Qed.

(* what one successfully decoded field looks like *)
Definition field_result (hp : hpack_state) (b : bytes) (fld : hfield) (t' : dtable) (rest : bytes)
           (f : field) (st : bool) : Prop :=
  triple_of f = fld /\
  t' = (if st then add_entry (abs hp) (entry_of f) else abs hp) /\
  (st = true -> f_sens f = false) /\
  bytes_ok (f_key f) = true /\ bytes_ok (f_value f) = true /\ bytes_ok rest = true /\
  fsize f + 2 * len rest <= N.max (h_max_settings hp) 64 + 2 * len b.

Theorem one_core_spec hp c r at_start :
  bytes_ok (c :: r) = true -> is_upd c = false -> table_ok hp ->
  let b := c :: r in
  match spec_dec_repr b with
  | None => exists e, one_core hp b = Err e
  | Some (rp, rest) =>
      match spec_step (abs hp) at_start rp with
      | None => exists e, one_core hp b = Err e
      | Some (None, _) => False
      | Some (Some fld, t') => exists f st, one_core hp b = Ok (f, rest, st) /\ field_result hp b fld t' rest f st
      end
  end.
Proof.
  intros Hok Hu Htab b. pose proof Hok as Hok'. apply bytes_ok_cons in Hok'. destruct Hok' as [Hc Hr].
  unfold b, spec_dec_repr, one_core. rewrite (dispatch_128 c Hc).
  destruct (N.leb_spec 128 c) as [H128|H128].
  - (* indexed *)
    pose proof (read_int_spec 7 (c :: r) ltac:(lia) Hok) as HI.
    destruct (spec_dec_int 7 (c :: r)) as [[i r0]|] eqn:ES.
    2:{ destruct HI as [e ->]. exists e. reflexivity. }
    destruct HI as [HI Hi]. rewrite HI. cbn [spec_step].
    pose proof (peek_lookup hp i ltac:(change (2 ^ 64) with (2 * 2 ^ 63); lia) (table_ok_length hp Htab)) as HP.
    destruct (peek hp i) as [hf2|] eqn:Ep; cbn [option_map] in HP; rewrite <- HP.
    + unfold entry_of. exists hf2, false. split; [reflexivity|].
      destruct (peek_ok _ _ _ Htab Ep) as [Hf2 Hsz]. apply field_ok_inv in Hf2. destruct Hf2 as [Hk [Hv Hs]].
      pose proof (read_int_ok _ _ _ _ HI) as [p0 [Hb0 [Hne0 _]]].
      assert (Hr0 : bytes_ok r0 = true) by (rewrite Hb0 in Hok; apply bytes_ok_app in Hok; tauto).
      assert (Hl0 : len r0 <= len (c :: r)) by (rewrite Hb0, len_app; lia).
      unfold field_result, triple_of. rewrite Hs. repeat (split; [reflexivity || assumption || discriminate|]). lia.
    + exists E_index_not_found. reflexivity.
  - rewrite (dispatch_64 c H128).
    destruct (N.leb_spec 64 c) as [H64|H64].
    + (* literal with incremental indexing *)
      pose proof (rl_core_spec hp Incremental c r Hok Htab) as HL. cbv zeta in HL. cbn [mode_prefix] in HL.
      change (2 ^ 6) with 64 in HL. rewrite <- (dispatch_eq64 c H64 H128) in HL.
      unfold lit_core.
      destruct (dec_literal Incremental (c :: r)) as [[rp rest]|].
      2:{ destruct HL as [e ->]. exists e. reflexivity. }
      destruct HL as [nr [hn [hv [vl [-> HL]]]]]. rewrite spec_step_literal.
      destruct (name_of (abs hp) nr) as [nm|].
      2:{ destruct HL as [e ->]. exists e. reflexivity. }
      destruct HL as [-> [Hk [Hv [Hrest Hsz]]]].
      exists (mkF nm vl false), true. split; [reflexivity|].
      unfold field_result, triple_of, entry_of, fsize. cbn [f_key f_value f_sens].
      repeat (split; [reflexivity || assumption|]). lia.
    + assert (Hlt : c < 32) by (destruct (not_upd_byte c Hc Hu); lia).
      replace (32 <=? c) with false by (symmetry; apply N.leb_gt; exact Hlt).
      destruct (dispatch_low c H64) as [D1 [D2 _]]. rewrite D1.
      destruct (N.leb_spec 16 c) as [H16|H16].
      * (* never indexed *)
        replace (c <? 32) with true by (symmetry; apply N.ltb_lt; exact Hlt). cbn [andb].
        pose proof (rl_core_spec hp Never c r Hok Htab) as HL. cbv zeta in HL. cbn [mode_prefix] in HL.
        change (2 ^ 4) with 16 in HL. rewrite <- (dispatch_15 c Hc) in HL.
        unfold lit_core.
        destruct (dec_literal Never (c :: r)) as [[rp rest]|].
        2:{ destruct HL as [e ->]. exists e. reflexivity. }
        destruct HL as [nr [hn [hv [vl [-> HL]]]]]. rewrite spec_step_literal.
        destruct (name_of (abs hp) nr) as [nm|].
        2:{ destruct HL as [e ->]. exists e. reflexivity. }
        destruct HL as [-> [Hk [Hv [Hrest Hsz]]]].
        exists (mkF nm vl true), false. split; [reflexivity|].
        unfold field_result, triple_of, entry_of, fsize. cbn [f_key f_value f_sens].
        repeat (split; [reflexivity || assumption || discriminate|]). lia.
      * (* without indexing *)
        cbn [andb].
        pose proof (rl_core_spec hp Without c r Hok Htab) as HL. cbv zeta in HL. cbn [mode_prefix] in HL.
        change (2 ^ 4) with 16 in HL. rewrite <- (dispatch_15 c Hc) in HL.
        unfold lit_core.
        destruct (dec_literal Without (c :: r)) as [[rp rest]|].
        2:{ destruct HL as [e ->]. exists e. reflexivity. }
        destruct HL as [nr [hn [hv [vl [-> HL]]]]]. rewrite spec_step_literal.
        destruct (name_of (abs hp) nr) as [nm|].
        2:{ destruct HL as [e ->]. exists e. reflexivity. }
        destruct HL as [-> [Hk [Hv [Hrest Hsz]]]].
        exists (mkF nm vl false), false. split; [reflexivity|].
        unfold field_result, triple_of, entry_of, fsize. cbn [f_key f_value f_sens].
        repeat (split; [reflexivity || assumption || discriminate|]). lia.
Qed.
