(* Proofs/SrvFlowGrant.v - C06 completion, one grant at a time: a stream WINDOW_UPDATE for a stream whose buffered
   response is blocked makes the stream loop send the next min(left, stream window, connection window) bytes at once;
   when that is all of it, the stream ends with one END_STREAM and leaves the table. *)
From H2V Require Import Base.Bytes Base.MachineInt Base.Result Gen.GenConsts Impl.ServerConn Proofs.SrvBase
  Proofs.SrvFlowDefs Proofs.SrvFlowSend Proofs.SrvFlowEff Proofs.SrvFlowFuel Proofs.SrvFlowDone.
From Coq Require Import ZArith Lia ZifyN ZifyNat ZifyBool List.
Import ListNotations.
Local Open Scope N_scope.
Set Default Proof Using "Type".

Section Grant.
Variable hstate : Type.
Variable dec_field : hstate -> N -> bytes -> dec_res hstate.
Variable enc_set_max : hstate -> N -> hstate.
Variable cfg : config.
Notation sconn := (sconn hstate).
Implicit Types c : sconn.

(* a stream whose request is complete and whose buffered response is (partly) waiting for window *)
Definition blocked_buffered (s : stream) : Prop :=
  st_state s = SHalfClosed /\ st_headersFinished s = true /\ st_responded s = true /\ st_handlerRunning s = false /\
  st_bodyStream s = None /\ st_pendingEnd s = true /\ st_pending s <> [].

Lemma strms_search_put l x s : strms_search l (st_id x) = Some s -> strms_search (strms_put l x) (st_id x) = Some x.
Proof.
  induction l as [|y t IH]; cbn [strms_search strms_put]; [discriminate|].
  destruct (st_id y =? st_id x) eqn:E; cbn [strms_search]; [rewrite N.eqb_refl; reflexivity|]. rewrite E. exact IH.
Qed.

Lemma strms_search_del_put l x : NoDup (map st_id l) -> strms_search (strms_del (strms_put l x) (st_id x)) (st_id x) = None.
Proof.
  induction l as [|y t IH]; cbn [strms_put strms_del map]; intro ND; [reflexivity|]. inversion ND; subst.
  destruct (st_id y =? st_id x) eqn:E; cbn [strms_del].
  - rewrite N.eqb_refl. destruct (strms_search t (st_id x)) as [z|] eqn:F; [|reflexivity].
    exfalso. apply strms_search_In in F. destruct F as [Hin Hid]. apply H1. replace (st_id y) with (st_id z) by lia.
    apply in_map. exact Hin.
  - rewrite E. cbn [strms_search]. rewrite E. apply IH. exact H2.
Qed.

Theorem stream_grant_resumes c fr s :
  sc_sl_done c = false -> sc_wl_dead c = false -> NoDup (map st_id (sc_strms c)) ->
  sf_kind fr = KWinUpd -> sf_sid fr <> 0 -> sf_sid fr <= sc_lastID c ->
  strms_search (sc_strms c) (sf_sid fr) = Some s -> blocked_buffered s ->
  sf_inc fr <> 0 -> (st_window s + Z.of_N (sf_inc fr) <= MAXWIN)%Z ->
  let w := (st_window s + Z.of_N (sf_inc fr))%Z in
  let q := Z.to_N (Z.max 0 (Z.min (Z.of_N (len (st_pending s))) (Z.min w (sc_clientWindow c)))) in
  let c' := fst (sl_frame dec_field enc_set_max cfg c fr) in
  exists frames rest,
    sc_out c' = rest ++ rev (frames_out (sf_sid fr) frames) ++ sc_out c /\ Forall quiet_out rest /\
    concat (map snd frames) = takeN q (st_pending s) /\
    Forall (fun f => 0 < len (snd f) <= 16384) frames /\
    sc_clientWindow c' = (sc_clientWindow c - Z.of_N q)%Z /\
    (if q =? len (st_pending s)
     then es_shape frames true /\ strms_search (sc_strms c') (sf_sid fr) = None
     else es_shape frames false /\
          exists s', strms_search (sc_strms c') (sf_sid fr) = Some s' /\ blocked_buffered s' /\
                     st_pending s' = dropN q (st_pending s) /\ st_window s' = (w - Z.of_N q)%Z).
Proof.
  intros SD WD ND K NZ LE F (B1 & B2 & B3 & B4 & B5 & B6 & B7) INC MW. cbv zeta.
  assert (Id : st_id s = sf_sid fr) by (apply strms_search_In in F; apply F).
  assert (Z0 : (sf_sid fr =? 0) = false) by flia.
  assert (DC : fkind_eqb (sf_kind fr) KCont && negb (sc_discardID c =? 0) && (sf_sid fr =? sc_discardID c) = false)
    by (rewrite K; reflexivity).
  rewrite (sl_frame_stream _ dec_field enc_set_max cfg c fr Z0 DC).
  assert (PRE : sl_pre dec_field cfg c fr = inr (c, s)).
  { unfold sl_pre. cbv zeta. assert (X : (sf_sid fr <=? sc_lastID c) = true) by flia. rewrite X, F. reflexivity. }
  rewrite PRE. unfold sl_tail. rewrite K. cbn [fkind_eqb].
  set (w := (st_window s + Z.of_N (sf_inc fr))%Z) in *.
  assert (HF : handle_frame dec_field cfg c s fr = (c, set_window s w, None)).
  { unfold handle_frame, verify_state, continuing_headers. rewrite B1, K. cbn [fkind_eqb andb orb sstate_eqb sstate_rank N.eqb Pos.eqb].
    assert (X1 : (sf_inc fr =? 0) = false) by flia. rewrite X1.
    assert (X2 : (MAXWIN <? st_window s + Z.of_N (sf_inc fr))%Z = false) by flia. cbn [set_window st_window]. rewrite X2. reflexivity. }
  rewrite HF. set (s1 := set_window s w).
  assert (HS : handle_state fr s1 = s1).
  { unfold handle_state. rewrite K. cbn [fkind_eqb]. subst s1. cbn [st_state set_window]. rewrite B1. reflexivity. }
  unfold after_frame. cbv zeta. rewrite HS.
  assert (C1 : sstate_eqb (st_state s1) SHalfClosed && st_headersFinished s1 && negb (st_responded s1) = false).
  { subst s1. cbn [st_state st_headersFinished st_responded set_window]. rewrite B1, B2, B3. reflexivity. }
  assert (C2 : st_responded s1 && negb (st_handlerRunning s1) && has_more_to_send s1 = true).
  { subst s1. unfold has_more_to_send. cbn [st_responded st_handlerRunning st_pending st_bodyStream set_window].
    rewrite B3, B4. destruct (st_pending s); [congruence | reflexivity]. }
  rewrite C1, C2.
  assert (BS1 : st_bodyStream s1 = None) by exact B5. assert (PE1 : st_pendingEnd s1 = true) by exact B6.
  destruct (send_data_buffered _ c s1 BS1 PE1 WD SD) as (frames & E & CC & PD & FA & ES & FN & W & CW).
  destruct (send_data_buffered_stream _ c s1 BS1 PE1 WD SD) as (I2 & St2 & HF2 & R2 & Ru2 & BS2 & PE2 & T2 & SD2 & WD2 & CL2 & CR2).
  cbv zeta in *. change (st_pending s1) with (st_pending s) in *. change (st_window s1) with w in *. change (st_id s1) with (st_id s) in *.
  set (q := Z.to_N (Z.max 0 (Z.min (Z.of_N (len (st_pending s))) (Z.min w (sc_clientWindow c))))) in *.
  destruct (send_data c s1) as [[c1 s2] fin]. cbn [fst snd] in *.
  replace (match st_pending s with [] => true | _ => false end) with false in ES by (destruct (st_pending s); [congruence | reflexivity]).
  rewrite Bool.andb_true_r in ES. rewrite Id in *.
  destruct (q =? len (st_pending s)) eqn:QE; subst fin.
  - (* finished *)
    cbn [st_state set_state sstate_eqb sstate_rank N.eqb Pos.eqb].
    set (s3 := set_state s2 SClosed).
    set (c3 := close_stream (put c1 s3) s3).
    assert (O3 : exists rest0, sc_out c3 = rest0 ++ sc_out c1 /\ Forall quiet_out rest0).
    { destruct (close_stream_out _ (put c1 s3) s3) as (r0 & E0 & F0). exists r0. split; [exact E0 | exact F0]. }
    destruct O3 as (rest0 & E3 & F3).
    assert (S3 : strms_search (sc_strms c3) (sf_sid fr) = None).
    { subst c3. rewrite sc_strms_close_stream. unfold put. sc_cbn. rewrite T2.
      replace (sf_sid fr) with (st_id s3) by (subst s3; cbn [st_id set_state]; exact I2).
      apply strms_search_del_put. exact ND. }
    assert (CW3 : sc_clientWindow c3 = (sc_clientWindow c - Z.of_N q)%Z).
    { subst c3. rewrite sc_clientWindow_close_stream. unfold put. sc_cbn. exact CW. }
    match goal with |- context [if ?b then brk c3 else cont c3] => destruct b end; cbn [fst cont brk].
    + exists frames, (OExit 1 0 :: rest0). unfold note. sc_cbn.
      split; [rewrite E3, E; reflexivity|]. split; [constructor; [exact I | exact F3]|].
      split; [exact CC|]. split; [exact FA|]. split; [exact CW3|]. split; [exact ES | exact S3].
    + exists frames, rest0. split; [rewrite E3, E; reflexivity|]. split; [exact F3|].
      split; [exact CC|]. split; [exact FA|]. split; [exact CW3|]. split; [exact ES | exact S3].
  - (* still blocked *)
    assert (NC : sstate_eqb (st_state s2) SClosed = false) by (rewrite St2; subst s1; cbn [st_state set_window]; rewrite B1; reflexivity).
    rewrite NC.
    assert (S3 : strms_search (sc_strms (put c1 s2)) (sf_sid fr) = Some s2).
    { unfold put. sc_cbn. rewrite T2. rewrite <- I2. eapply strms_search_put. rewrite I2. exact F. }
    assert (BB : blocked_buffered s2).
    { unfold blocked_buffered. rewrite St2, HF2, R2, Ru2, BS2, PE2, PD. subst s1.
      cbn [st_state st_headersFinished st_responded st_handlerRunning set_window].
      repeat split; try assumption. intro X.
      assert (L : len (dropN q (st_pending s)) = 0) by (rewrite X; reflexivity). rewrite len_dropN in L.
      apply N.eqb_neq in QE. assert (QL : q <= len (st_pending s)) by (unfold q; clear - w; lia). clear - L QE QL. lia. }
    match goal with |- context [if ?b then brk ?x else cont ?x] => destruct b end; cbn [fst cont brk].
    + exists frames, [OExit 1 0]. unfold note, put. sc_cbn.
      split; [rewrite E; reflexivity|]. split; [repeat constructor|].
      split; [exact CC|]. split; [exact FA|]. split; [exact CW|]. split; [exact ES|].
      exists s2. split; [exact S3|]. auto.
    + exists frames, []. unfold put. sc_cbn.
      split; [rewrite E; reflexivity|]. split; [constructor|].
      split; [exact CC|]. split; [exact FA|]. split; [exact CW|]. split; [exact ES|].
      exists s2. split; [exact S3|]. auto.
Qed.
End Grant.
