(* Proofs/SrvBase.v - shared base for every proof about Impl/ServerConn.v.
   OWNER: the SrvInv agent. Others: APPEND ONLY (at the end, in a new Section), recompile, and check nothing breaks.

   Conventions introduced here (they hold in every file that imports SrvBase):
   - `hstate` is an IMPLICIT argument of every ServerConn definition that takes a connection
     (`sc_strms c`, `upd_out c o`, `emit c o`, `step dec_field enc_field enc_set_max cfg c e`, `run dec enc sm cfg h0 evs`, ...).
     `dec_res hstate` and its constructors keep `hstate` explicit (as in Impl/ServerInst.v).
   - projection lemmas are named  <field>_<function>, e.g. `sc_strms_upd_out`, `sc_open_emit`, `sc_lastID_close_stream`;
     all of them are in the rewrite database `sc`: `autorewrite with sc` (or `sc_rw`, `sc_rw_in H`).
   - `sc_cbn` / `sc_cbn_in H`: reduce projections of `upd_*` by computation (cheaper than autorewrite).
   - `sc_unf`: unfold the small helpers (emit, note, write_*, mark_closed, release_stream, close_stream, put, ...),
     split their `if`s and close the goal by reflexivity: for frame ("does not change") goals.
   - `run_ind` / `run_ind_inv`: invariants over all event lists.  `run_app`, `run_snoc`, `run_nil`.
   Generated part (between the GENERATED markers): rebuilt in place by tools/gen_srvbase.sh from the field / upd_* lists in
   tools/gen_srvbase.py. When Impl/ServerConn.v gets a new field: add it there (and to the Arguments / sc_cbn lists
   below) and run the script. *)
From H2V Require Import Base.Bytes Base.MachineInt Base.Result Gen.GenConsts Impl.ServerConn.
From Coq Require Import ZArith Lia ZifyN ZifyNat ZifyBool.
Local Open Scope N_scope.

(* ---------- implicit arguments ---------- *)
Arguments mkConn {hstate}.
Arguments sc_strms {hstate}. Arguments sc_gone {hstate}. Arguments sc_open {hstate}. Arguments sc_initWin {hstate}.
Arguments sc_ring {hstate}. Arguments sc_oldest {hstate}. Arguments sc_lastID {hstate}. Arguments sc_highestID {hstate}. Arguments sc_clientWindow {hstate}.
Arguments sc_currentWindow {hstate}. Arguments sc_enc {hstate}. Arguments sc_dec {hstate}. Arguments sc_closing {hstate}.
Arguments sc_closeRef {hstate}. Arguments sc_expectCont {hstate}. Arguments sc_readerQ {hstate}. Arguments sc_rl_done {hstate}.
Arguments sc_sl_done {hstate}. Arguments sc_closer {hstate}. Arguments sc_wl_dead {hstate}. Arguments sc_now {hstate}.
Arguments sc_discardID {hstate}. Arguments sc_discardPrev {hstate}. Arguments sc_discardFields {hstate}. Arguments sc_out {hstate}.
Arguments upd_out {hstate}. Arguments upd_strms {hstate}. Arguments upd_gone {hstate}. Arguments upd_open {hstate}.
Arguments upd_initWin {hstate}. Arguments upd_ring {hstate}. Arguments upd_lastID {hstate}. Arguments upd_highestID {hstate}. Arguments upd_clientWindow {hstate}.
Arguments upd_currentWindow {hstate}. Arguments upd_enc {hstate}. Arguments upd_dec {hstate}. Arguments upd_closing {hstate}.
Arguments upd_expectCont {hstate}. Arguments upd_readerQ {hstate}. Arguments upd_done {hstate}. Arguments upd_closer {hstate}.
Arguments upd_wl_dead {hstate}. Arguments upd_now {hstate}. Arguments upd_discard {hstate}.
Arguments init_conn {hstate}. Arguments emit {hstate}. Arguments note {hstate}. Arguments put {hstate}.
Arguments in_ring {hstate}. Arguments ring_find {hstate}. Arguments mark_closed {hstate}. Arguments release_stream {hstate}.
Arguments close_stream {hstate}. Arguments can_close_after_goaway {hstate}. Arguments write_reset {hstate}.
Arguments reset_stream {hstate}. Arguments write_goaway {hstate}. Arguments write_error {hstate}.
Arguments write_window_update {hstate}. Arguments credit_conn_window {hstate}. Arguments consume_recv_window {hstate}.
Arguments header_loop {hstate}. Arguments discard_loop {hstate}. Arguments discard_fragment {hstate}.
Arguments discard_header_block {hstate}. Arguments handle_header_frame {hstate}. Arguments handle_frame {hstate}.
Arguments send_data_loop {hstate}. Arguments send_data {hstate}. Arguments enc_fields {hstate}. Arguments response_block {hstate}.
Arguments finish_request {hstate}. Arguments flush_loop {hstate}. Arguments close_all {hstate}. Arguments flush_streams {hstate}.
Arguments brk {hstate}. Arguments cont {hstate}. Arguments implicit_close {hstate}. Arguments after_frame {hstate}.
Arguments discard_or_break {hstate}. Arguments sl_frame {hstate}. Arguments sl_done {hstate}. Arguments close_heads {hstate}.
Arguments sl_timer {hstate}. Arguments rl_exit {hstate}. Arguments forward {hstate}. Arguments rl_step {hstate}.
Arguments lift {hstate}. Arguments step {hstate}. Arguments run {hstate}. Arguments trace {hstate}.

(* ---------- tactics ---------- *)
Ltac sc_cbn :=
  cbn [sc_strms sc_gone sc_open sc_initWin sc_ring sc_oldest sc_lastID sc_highestID sc_clientWindow sc_currentWindow sc_enc sc_dec
       sc_closing sc_closeRef sc_expectCont sc_readerQ sc_rl_done sc_sl_done sc_closer sc_wl_dead sc_now sc_discardID
       sc_discardPrev sc_discardFields sc_out
       upd_out upd_strms upd_gone upd_open upd_initWin upd_ring upd_lastID upd_highestID upd_clientWindow upd_currentWindow upd_enc
       upd_dec upd_closing upd_expectCont upd_readerQ upd_done upd_closer upd_wl_dead upd_now upd_discard fst snd].
Ltac sc_cbn_in H :=
  cbn [sc_strms sc_gone sc_open sc_initWin sc_ring sc_oldest sc_lastID sc_highestID sc_clientWindow sc_currentWindow sc_enc sc_dec
       sc_closing sc_closeRef sc_expectCont sc_readerQ sc_rl_done sc_sl_done sc_closer sc_wl_dead sc_now sc_discardID
       sc_discardPrev sc_discardFields sc_out
       upd_out upd_strms upd_gone upd_open upd_initWin upd_ring upd_lastID upd_highestID upd_clientWindow upd_currentWindow upd_enc
       upd_dec upd_closing upd_expectCont upd_readerQ upd_done upd_closer upd_wl_dead upd_now upd_discard fst snd] in H.
Ltac sc_rw := autorewrite with sc.
Ltac sc_rw_in H := autorewrite with sc in H.

(* split every `if`/`match` scrutinee that blocks the goal, one at a time *)
Ltac sc_split_ifs :=
  repeat match goal with
         | |- context [if ?b then _ else _] => destruct b eqn:?
         | |- context [match ?e with EGoAway _ => _ | EReset _ => _ | EPanic => _ end] => destruct e
         | |- context [match ?s with Some _ => _ | None => _ end] => destruct s
         end.
Ltac sc_unf :=
  unfold write_error, consume_recv_window, credit_conn_window, write_window_update, close_stream, release_stream,
         mark_closed, write_goaway, write_reset, forward, rl_exit, brk, put, note, emit;
  sc_split_ifs; sc_cbn; first [reflexivity | congruence].

Section Proj.
Variable hstate : Type.
(* BEGIN GENERATED (tools/gen_srvbase.sh) *)
Lemma sc_strms_upd_out (c : sconn hstate) o : sc_strms (upd_out c o) = sc_strms c. Proof. reflexivity. Qed.
Lemma sc_gone_upd_out (c : sconn hstate) o : sc_gone (upd_out c o) = sc_gone c. Proof. reflexivity. Qed.
Lemma sc_open_upd_out (c : sconn hstate) o : sc_open (upd_out c o) = sc_open c. Proof. reflexivity. Qed.
Lemma sc_initWin_upd_out (c : sconn hstate) o : sc_initWin (upd_out c o) = sc_initWin c. Proof. reflexivity. Qed.
Lemma sc_ring_upd_out (c : sconn hstate) o : sc_ring (upd_out c o) = sc_ring c. Proof. reflexivity. Qed.
Lemma sc_oldest_upd_out (c : sconn hstate) o : sc_oldest (upd_out c o) = sc_oldest c. Proof. reflexivity. Qed.
Lemma sc_lastID_upd_out (c : sconn hstate) o : sc_lastID (upd_out c o) = sc_lastID c. Proof. reflexivity. Qed.
Lemma sc_highestID_upd_out (c : sconn hstate) o : sc_highestID (upd_out c o) = sc_highestID c. Proof. reflexivity. Qed.
Lemma sc_clientWindow_upd_out (c : sconn hstate) o : sc_clientWindow (upd_out c o) = sc_clientWindow c. Proof. reflexivity. Qed.
Lemma sc_currentWindow_upd_out (c : sconn hstate) o : sc_currentWindow (upd_out c o) = sc_currentWindow c. Proof. reflexivity. Qed.
Lemma sc_enc_upd_out (c : sconn hstate) o : sc_enc (upd_out c o) = sc_enc c. Proof. reflexivity. Qed.
Lemma sc_dec_upd_out (c : sconn hstate) o : sc_dec (upd_out c o) = sc_dec c. Proof. reflexivity. Qed.
Lemma sc_closing_upd_out (c : sconn hstate) o : sc_closing (upd_out c o) = sc_closing c. Proof. reflexivity. Qed.
Lemma sc_closeRef_upd_out (c : sconn hstate) o : sc_closeRef (upd_out c o) = sc_closeRef c. Proof. reflexivity. Qed.
Lemma sc_expectCont_upd_out (c : sconn hstate) o : sc_expectCont (upd_out c o) = sc_expectCont c. Proof. reflexivity. Qed.
Lemma sc_readerQ_upd_out (c : sconn hstate) o : sc_readerQ (upd_out c o) = sc_readerQ c. Proof. reflexivity. Qed.
Lemma sc_rl_done_upd_out (c : sconn hstate) o : sc_rl_done (upd_out c o) = sc_rl_done c. Proof. reflexivity. Qed.
Lemma sc_sl_done_upd_out (c : sconn hstate) o : sc_sl_done (upd_out c o) = sc_sl_done c. Proof. reflexivity. Qed.
Lemma sc_closer_upd_out (c : sconn hstate) o : sc_closer (upd_out c o) = sc_closer c. Proof. reflexivity. Qed.
Lemma sc_wl_dead_upd_out (c : sconn hstate) o : sc_wl_dead (upd_out c o) = sc_wl_dead c. Proof. reflexivity. Qed.
Lemma sc_now_upd_out (c : sconn hstate) o : sc_now (upd_out c o) = sc_now c. Proof. reflexivity. Qed.
Lemma sc_discardID_upd_out (c : sconn hstate) o : sc_discardID (upd_out c o) = sc_discardID c. Proof. reflexivity. Qed.
Lemma sc_discardPrev_upd_out (c : sconn hstate) o : sc_discardPrev (upd_out c o) = sc_discardPrev c. Proof. reflexivity. Qed.
Lemma sc_discardFields_upd_out (c : sconn hstate) o : sc_discardFields (upd_out c o) = sc_discardFields c. Proof. reflexivity. Qed.
Lemma sc_out_upd_out (c : sconn hstate) o : sc_out (upd_out c o) = o. Proof. reflexivity. Qed.
Lemma sc_strms_upd_strms (c : sconn hstate) l : sc_strms (upd_strms c l) = l. Proof. reflexivity. Qed.
Lemma sc_gone_upd_strms (c : sconn hstate) l : sc_gone (upd_strms c l) = sc_gone c. Proof. reflexivity. Qed.
Lemma sc_open_upd_strms (c : sconn hstate) l : sc_open (upd_strms c l) = sc_open c. Proof. reflexivity. Qed.
Lemma sc_initWin_upd_strms (c : sconn hstate) l : sc_initWin (upd_strms c l) = sc_initWin c. Proof. reflexivity. Qed.
Lemma sc_ring_upd_strms (c : sconn hstate) l : sc_ring (upd_strms c l) = sc_ring c. Proof. reflexivity. Qed.
Lemma sc_oldest_upd_strms (c : sconn hstate) l : sc_oldest (upd_strms c l) = sc_oldest c. Proof. reflexivity. Qed.
Lemma sc_lastID_upd_strms (c : sconn hstate) l : sc_lastID (upd_strms c l) = sc_lastID c. Proof. reflexivity. Qed.
Lemma sc_highestID_upd_strms (c : sconn hstate) l : sc_highestID (upd_strms c l) = sc_highestID c. Proof. reflexivity. Qed.
Lemma sc_clientWindow_upd_strms (c : sconn hstate) l : sc_clientWindow (upd_strms c l) = sc_clientWindow c. Proof. reflexivity. Qed.
Lemma sc_currentWindow_upd_strms (c : sconn hstate) l : sc_currentWindow (upd_strms c l) = sc_currentWindow c. Proof. reflexivity. Qed.
Lemma sc_enc_upd_strms (c : sconn hstate) l : sc_enc (upd_strms c l) = sc_enc c. Proof. reflexivity. Qed.
Lemma sc_dec_upd_strms (c : sconn hstate) l : sc_dec (upd_strms c l) = sc_dec c. Proof. reflexivity. Qed.
Lemma sc_closing_upd_strms (c : sconn hstate) l : sc_closing (upd_strms c l) = sc_closing c. Proof. reflexivity. Qed.
Lemma sc_closeRef_upd_strms (c : sconn hstate) l : sc_closeRef (upd_strms c l) = sc_closeRef c. Proof. reflexivity. Qed.
Lemma sc_expectCont_upd_strms (c : sconn hstate) l : sc_expectCont (upd_strms c l) = sc_expectCont c. Proof. reflexivity. Qed.
Lemma sc_readerQ_upd_strms (c : sconn hstate) l : sc_readerQ (upd_strms c l) = sc_readerQ c. Proof. reflexivity. Qed.
Lemma sc_rl_done_upd_strms (c : sconn hstate) l : sc_rl_done (upd_strms c l) = sc_rl_done c. Proof. reflexivity. Qed.
Lemma sc_sl_done_upd_strms (c : sconn hstate) l : sc_sl_done (upd_strms c l) = sc_sl_done c. Proof. reflexivity. Qed.
Lemma sc_closer_upd_strms (c : sconn hstate) l : sc_closer (upd_strms c l) = sc_closer c. Proof. reflexivity. Qed.
Lemma sc_wl_dead_upd_strms (c : sconn hstate) l : sc_wl_dead (upd_strms c l) = sc_wl_dead c. Proof. reflexivity. Qed.
Lemma sc_now_upd_strms (c : sconn hstate) l : sc_now (upd_strms c l) = sc_now c. Proof. reflexivity. Qed.
Lemma sc_discardID_upd_strms (c : sconn hstate) l : sc_discardID (upd_strms c l) = sc_discardID c. Proof. reflexivity. Qed.
Lemma sc_discardPrev_upd_strms (c : sconn hstate) l : sc_discardPrev (upd_strms c l) = sc_discardPrev c. Proof. reflexivity. Qed.
Lemma sc_discardFields_upd_strms (c : sconn hstate) l : sc_discardFields (upd_strms c l) = sc_discardFields c. Proof. reflexivity. Qed.
Lemma sc_out_upd_strms (c : sconn hstate) l : sc_out (upd_strms c l) = sc_out c. Proof. reflexivity. Qed.
Lemma sc_strms_upd_gone (c : sconn hstate) l : sc_strms (upd_gone c l) = sc_strms c. Proof. reflexivity. Qed.
Lemma sc_gone_upd_gone (c : sconn hstate) l : sc_gone (upd_gone c l) = l. Proof. reflexivity. Qed.
Lemma sc_open_upd_gone (c : sconn hstate) l : sc_open (upd_gone c l) = sc_open c. Proof. reflexivity. Qed.
Lemma sc_initWin_upd_gone (c : sconn hstate) l : sc_initWin (upd_gone c l) = sc_initWin c. Proof. reflexivity. Qed.
Lemma sc_ring_upd_gone (c : sconn hstate) l : sc_ring (upd_gone c l) = sc_ring c. Proof. reflexivity. Qed.
Lemma sc_oldest_upd_gone (c : sconn hstate) l : sc_oldest (upd_gone c l) = sc_oldest c. Proof. reflexivity. Qed.
Lemma sc_lastID_upd_gone (c : sconn hstate) l : sc_lastID (upd_gone c l) = sc_lastID c. Proof. reflexivity. Qed.
Lemma sc_highestID_upd_gone (c : sconn hstate) l : sc_highestID (upd_gone c l) = sc_highestID c. Proof. reflexivity. Qed.
Lemma sc_clientWindow_upd_gone (c : sconn hstate) l : sc_clientWindow (upd_gone c l) = sc_clientWindow c. Proof. reflexivity. Qed.
Lemma sc_currentWindow_upd_gone (c : sconn hstate) l : sc_currentWindow (upd_gone c l) = sc_currentWindow c. Proof. reflexivity. Qed.
Lemma sc_enc_upd_gone (c : sconn hstate) l : sc_enc (upd_gone c l) = sc_enc c. Proof. reflexivity. Qed.
Lemma sc_dec_upd_gone (c : sconn hstate) l : sc_dec (upd_gone c l) = sc_dec c. Proof. reflexivity. Qed.
Lemma sc_closing_upd_gone (c : sconn hstate) l : sc_closing (upd_gone c l) = sc_closing c. Proof. reflexivity. Qed.
Lemma sc_closeRef_upd_gone (c : sconn hstate) l : sc_closeRef (upd_gone c l) = sc_closeRef c. Proof. reflexivity. Qed.
Lemma sc_expectCont_upd_gone (c : sconn hstate) l : sc_expectCont (upd_gone c l) = sc_expectCont c. Proof. reflexivity. Qed.
Lemma sc_readerQ_upd_gone (c : sconn hstate) l : sc_readerQ (upd_gone c l) = sc_readerQ c. Proof. reflexivity. Qed.
Lemma sc_rl_done_upd_gone (c : sconn hstate) l : sc_rl_done (upd_gone c l) = sc_rl_done c. Proof. reflexivity. Qed.
Lemma sc_sl_done_upd_gone (c : sconn hstate) l : sc_sl_done (upd_gone c l) = sc_sl_done c. Proof. reflexivity. Qed.
Lemma sc_closer_upd_gone (c : sconn hstate) l : sc_closer (upd_gone c l) = sc_closer c. Proof. reflexivity. Qed.
Lemma sc_wl_dead_upd_gone (c : sconn hstate) l : sc_wl_dead (upd_gone c l) = sc_wl_dead c. Proof. reflexivity. Qed.
Lemma sc_now_upd_gone (c : sconn hstate) l : sc_now (upd_gone c l) = sc_now c. Proof. reflexivity. Qed.
Lemma sc_discardID_upd_gone (c : sconn hstate) l : sc_discardID (upd_gone c l) = sc_discardID c. Proof. reflexivity. Qed.
Lemma sc_discardPrev_upd_gone (c : sconn hstate) l : sc_discardPrev (upd_gone c l) = sc_discardPrev c. Proof. reflexivity. Qed.
Lemma sc_discardFields_upd_gone (c : sconn hstate) l : sc_discardFields (upd_gone c l) = sc_discardFields c. Proof. reflexivity. Qed.
Lemma sc_out_upd_gone (c : sconn hstate) l : sc_out (upd_gone c l) = sc_out c. Proof. reflexivity. Qed.
Lemma sc_strms_upd_open (c : sconn hstate) n : sc_strms (upd_open c n) = sc_strms c. Proof. reflexivity. Qed.
Lemma sc_gone_upd_open (c : sconn hstate) n : sc_gone (upd_open c n) = sc_gone c. Proof. reflexivity. Qed.
Lemma sc_open_upd_open (c : sconn hstate) n : sc_open (upd_open c n) = n. Proof. reflexivity. Qed.
Lemma sc_initWin_upd_open (c : sconn hstate) n : sc_initWin (upd_open c n) = sc_initWin c. Proof. reflexivity. Qed.
Lemma sc_ring_upd_open (c : sconn hstate) n : sc_ring (upd_open c n) = sc_ring c. Proof. reflexivity. Qed.
Lemma sc_oldest_upd_open (c : sconn hstate) n : sc_oldest (upd_open c n) = sc_oldest c. Proof. reflexivity. Qed.
Lemma sc_lastID_upd_open (c : sconn hstate) n : sc_lastID (upd_open c n) = sc_lastID c. Proof. reflexivity. Qed.
Lemma sc_highestID_upd_open (c : sconn hstate) n : sc_highestID (upd_open c n) = sc_highestID c. Proof. reflexivity. Qed.
Lemma sc_clientWindow_upd_open (c : sconn hstate) n : sc_clientWindow (upd_open c n) = sc_clientWindow c. Proof. reflexivity. Qed.
Lemma sc_currentWindow_upd_open (c : sconn hstate) n : sc_currentWindow (upd_open c n) = sc_currentWindow c. Proof. reflexivity. Qed.
Lemma sc_enc_upd_open (c : sconn hstate) n : sc_enc (upd_open c n) = sc_enc c. Proof. reflexivity. Qed.
Lemma sc_dec_upd_open (c : sconn hstate) n : sc_dec (upd_open c n) = sc_dec c. Proof. reflexivity. Qed.
Lemma sc_closing_upd_open (c : sconn hstate) n : sc_closing (upd_open c n) = sc_closing c. Proof. reflexivity. Qed.
Lemma sc_closeRef_upd_open (c : sconn hstate) n : sc_closeRef (upd_open c n) = sc_closeRef c. Proof. reflexivity. Qed.
Lemma sc_expectCont_upd_open (c : sconn hstate) n : sc_expectCont (upd_open c n) = sc_expectCont c. Proof. reflexivity. Qed.
Lemma sc_readerQ_upd_open (c : sconn hstate) n : sc_readerQ (upd_open c n) = sc_readerQ c. Proof. reflexivity. Qed.
Lemma sc_rl_done_upd_open (c : sconn hstate) n : sc_rl_done (upd_open c n) = sc_rl_done c. Proof. reflexivity. Qed.
Lemma sc_sl_done_upd_open (c : sconn hstate) n : sc_sl_done (upd_open c n) = sc_sl_done c. Proof. reflexivity. Qed.
Lemma sc_closer_upd_open (c : sconn hstate) n : sc_closer (upd_open c n) = sc_closer c. Proof. reflexivity. Qed.
Lemma sc_wl_dead_upd_open (c : sconn hstate) n : sc_wl_dead (upd_open c n) = sc_wl_dead c. Proof. reflexivity. Qed.
Lemma sc_now_upd_open (c : sconn hstate) n : sc_now (upd_open c n) = sc_now c. Proof. reflexivity. Qed.
Lemma sc_discardID_upd_open (c : sconn hstate) n : sc_discardID (upd_open c n) = sc_discardID c. Proof. reflexivity. Qed.
Lemma sc_discardPrev_upd_open (c : sconn hstate) n : sc_discardPrev (upd_open c n) = sc_discardPrev c. Proof. reflexivity. Qed.
Lemma sc_discardFields_upd_open (c : sconn hstate) n : sc_discardFields (upd_open c n) = sc_discardFields c. Proof. reflexivity. Qed.
Lemma sc_out_upd_open (c : sconn hstate) n : sc_out (upd_open c n) = sc_out c. Proof. reflexivity. Qed.
Lemma sc_strms_upd_initWin (c : sconn hstate) n : sc_strms (upd_initWin c n) = sc_strms c. Proof. reflexivity. Qed.
Lemma sc_gone_upd_initWin (c : sconn hstate) n : sc_gone (upd_initWin c n) = sc_gone c. Proof. reflexivity. Qed.
Lemma sc_open_upd_initWin (c : sconn hstate) n : sc_open (upd_initWin c n) = sc_open c. Proof. reflexivity. Qed.
Lemma sc_initWin_upd_initWin (c : sconn hstate) n : sc_initWin (upd_initWin c n) = n. Proof. reflexivity. Qed.
Lemma sc_ring_upd_initWin (c : sconn hstate) n : sc_ring (upd_initWin c n) = sc_ring c. Proof. reflexivity. Qed.
Lemma sc_oldest_upd_initWin (c : sconn hstate) n : sc_oldest (upd_initWin c n) = sc_oldest c. Proof. reflexivity. Qed.
Lemma sc_lastID_upd_initWin (c : sconn hstate) n : sc_lastID (upd_initWin c n) = sc_lastID c. Proof. reflexivity. Qed.
Lemma sc_highestID_upd_initWin (c : sconn hstate) n : sc_highestID (upd_initWin c n) = sc_highestID c. Proof. reflexivity. Qed.
Lemma sc_clientWindow_upd_initWin (c : sconn hstate) n : sc_clientWindow (upd_initWin c n) = sc_clientWindow c. Proof. reflexivity. Qed.
Lemma sc_currentWindow_upd_initWin (c : sconn hstate) n : sc_currentWindow (upd_initWin c n) = sc_currentWindow c. Proof. reflexivity. Qed.
Lemma sc_enc_upd_initWin (c : sconn hstate) n : sc_enc (upd_initWin c n) = sc_enc c. Proof. reflexivity. Qed.
Lemma sc_dec_upd_initWin (c : sconn hstate) n : sc_dec (upd_initWin c n) = sc_dec c. Proof. reflexivity. Qed.
Lemma sc_closing_upd_initWin (c : sconn hstate) n : sc_closing (upd_initWin c n) = sc_closing c. Proof. reflexivity. Qed.
Lemma sc_closeRef_upd_initWin (c : sconn hstate) n : sc_closeRef (upd_initWin c n) = sc_closeRef c. Proof. reflexivity. Qed.
Lemma sc_expectCont_upd_initWin (c : sconn hstate) n : sc_expectCont (upd_initWin c n) = sc_expectCont c. Proof. reflexivity. Qed.
Lemma sc_readerQ_upd_initWin (c : sconn hstate) n : sc_readerQ (upd_initWin c n) = sc_readerQ c. Proof. reflexivity. Qed.
Lemma sc_rl_done_upd_initWin (c : sconn hstate) n : sc_rl_done (upd_initWin c n) = sc_rl_done c. Proof. reflexivity. Qed.
Lemma sc_sl_done_upd_initWin (c : sconn hstate) n : sc_sl_done (upd_initWin c n) = sc_sl_done c. Proof. reflexivity. Qed.
Lemma sc_closer_upd_initWin (c : sconn hstate) n : sc_closer (upd_initWin c n) = sc_closer c. Proof. reflexivity. Qed.
Lemma sc_wl_dead_upd_initWin (c : sconn hstate) n : sc_wl_dead (upd_initWin c n) = sc_wl_dead c. Proof. reflexivity. Qed.
Lemma sc_now_upd_initWin (c : sconn hstate) n : sc_now (upd_initWin c n) = sc_now c. Proof. reflexivity. Qed.
Lemma sc_discardID_upd_initWin (c : sconn hstate) n : sc_discardID (upd_initWin c n) = sc_discardID c. Proof. reflexivity. Qed.
Lemma sc_discardPrev_upd_initWin (c : sconn hstate) n : sc_discardPrev (upd_initWin c n) = sc_discardPrev c. Proof. reflexivity. Qed.
Lemma sc_discardFields_upd_initWin (c : sconn hstate) n : sc_discardFields (upd_initWin c n) = sc_discardFields c. Proof. reflexivity. Qed.
Lemma sc_out_upd_initWin (c : sconn hstate) n : sc_out (upd_initWin c n) = sc_out c. Proof. reflexivity. Qed.
Lemma sc_strms_upd_ring (c : sconn hstate) r o : sc_strms (upd_ring c r o) = sc_strms c. Proof. reflexivity. Qed.
Lemma sc_gone_upd_ring (c : sconn hstate) r o : sc_gone (upd_ring c r o) = sc_gone c. Proof. reflexivity. Qed.
Lemma sc_open_upd_ring (c : sconn hstate) r o : sc_open (upd_ring c r o) = sc_open c. Proof. reflexivity. Qed.
Lemma sc_initWin_upd_ring (c : sconn hstate) r o : sc_initWin (upd_ring c r o) = sc_initWin c. Proof. reflexivity. Qed.
Lemma sc_ring_upd_ring (c : sconn hstate) r o : sc_ring (upd_ring c r o) = r. Proof. reflexivity. Qed.
Lemma sc_oldest_upd_ring (c : sconn hstate) r o : sc_oldest (upd_ring c r o) = o. Proof. reflexivity. Qed.
Lemma sc_lastID_upd_ring (c : sconn hstate) r o : sc_lastID (upd_ring c r o) = sc_lastID c. Proof. reflexivity. Qed.
Lemma sc_highestID_upd_ring (c : sconn hstate) r o : sc_highestID (upd_ring c r o) = sc_highestID c. Proof. reflexivity. Qed.
Lemma sc_clientWindow_upd_ring (c : sconn hstate) r o : sc_clientWindow (upd_ring c r o) = sc_clientWindow c. Proof. reflexivity. Qed.
Lemma sc_currentWindow_upd_ring (c : sconn hstate) r o : sc_currentWindow (upd_ring c r o) = sc_currentWindow c. Proof. reflexivity. Qed.
Lemma sc_enc_upd_ring (c : sconn hstate) r o : sc_enc (upd_ring c r o) = sc_enc c. Proof. reflexivity. Qed.
Lemma sc_dec_upd_ring (c : sconn hstate) r o : sc_dec (upd_ring c r o) = sc_dec c. Proof. reflexivity. Qed.
Lemma sc_closing_upd_ring (c : sconn hstate) r o : sc_closing (upd_ring c r o) = sc_closing c. Proof. reflexivity. Qed.
Lemma sc_closeRef_upd_ring (c : sconn hstate) r o : sc_closeRef (upd_ring c r o) = sc_closeRef c. Proof. reflexivity. Qed.
Lemma sc_expectCont_upd_ring (c : sconn hstate) r o : sc_expectCont (upd_ring c r o) = sc_expectCont c. Proof. reflexivity. Qed.
Lemma sc_readerQ_upd_ring (c : sconn hstate) r o : sc_readerQ (upd_ring c r o) = sc_readerQ c. Proof. reflexivity. Qed.
Lemma sc_rl_done_upd_ring (c : sconn hstate) r o : sc_rl_done (upd_ring c r o) = sc_rl_done c. Proof. reflexivity. Qed.
Lemma sc_sl_done_upd_ring (c : sconn hstate) r o : sc_sl_done (upd_ring c r o) = sc_sl_done c. Proof. reflexivity. Qed.
Lemma sc_closer_upd_ring (c : sconn hstate) r o : sc_closer (upd_ring c r o) = sc_closer c. Proof. reflexivity. Qed.
Lemma sc_wl_dead_upd_ring (c : sconn hstate) r o : sc_wl_dead (upd_ring c r o) = sc_wl_dead c. Proof. reflexivity. Qed.
Lemma sc_now_upd_ring (c : sconn hstate) r o : sc_now (upd_ring c r o) = sc_now c. Proof. reflexivity. Qed.
Lemma sc_discardID_upd_ring (c : sconn hstate) r o : sc_discardID (upd_ring c r o) = sc_discardID c. Proof. reflexivity. Qed.
Lemma sc_discardPrev_upd_ring (c : sconn hstate) r o : sc_discardPrev (upd_ring c r o) = sc_discardPrev c. Proof. reflexivity. Qed.
Lemma sc_discardFields_upd_ring (c : sconn hstate) r o : sc_discardFields (upd_ring c r o) = sc_discardFields c. Proof. reflexivity. Qed.
Lemma sc_out_upd_ring (c : sconn hstate) r o : sc_out (upd_ring c r o) = sc_out c. Proof. reflexivity. Qed.
Lemma sc_strms_upd_lastID (c : sconn hstate) n : sc_strms (upd_lastID c n) = sc_strms c. Proof. reflexivity. Qed.
Lemma sc_gone_upd_lastID (c : sconn hstate) n : sc_gone (upd_lastID c n) = sc_gone c. Proof. reflexivity. Qed.
Lemma sc_open_upd_lastID (c : sconn hstate) n : sc_open (upd_lastID c n) = sc_open c. Proof. reflexivity. Qed.
Lemma sc_initWin_upd_lastID (c : sconn hstate) n : sc_initWin (upd_lastID c n) = sc_initWin c. Proof. reflexivity. Qed.
Lemma sc_ring_upd_lastID (c : sconn hstate) n : sc_ring (upd_lastID c n) = sc_ring c. Proof. reflexivity. Qed.
Lemma sc_oldest_upd_lastID (c : sconn hstate) n : sc_oldest (upd_lastID c n) = sc_oldest c. Proof. reflexivity. Qed.
Lemma sc_lastID_upd_lastID (c : sconn hstate) n : sc_lastID (upd_lastID c n) = n. Proof. reflexivity. Qed.
Lemma sc_highestID_upd_lastID (c : sconn hstate) n : sc_highestID (upd_lastID c n) = sc_highestID c. Proof. reflexivity. Qed.
Lemma sc_clientWindow_upd_lastID (c : sconn hstate) n : sc_clientWindow (upd_lastID c n) = sc_clientWindow c. Proof. reflexivity. Qed.
Lemma sc_currentWindow_upd_lastID (c : sconn hstate) n : sc_currentWindow (upd_lastID c n) = sc_currentWindow c. Proof. reflexivity. Qed.
Lemma sc_enc_upd_lastID (c : sconn hstate) n : sc_enc (upd_lastID c n) = sc_enc c. Proof. reflexivity. Qed.
Lemma sc_dec_upd_lastID (c : sconn hstate) n : sc_dec (upd_lastID c n) = sc_dec c. Proof. reflexivity. Qed.
Lemma sc_closing_upd_lastID (c : sconn hstate) n : sc_closing (upd_lastID c n) = sc_closing c. Proof. reflexivity. Qed.
Lemma sc_closeRef_upd_lastID (c : sconn hstate) n : sc_closeRef (upd_lastID c n) = sc_closeRef c. Proof. reflexivity. Qed.
Lemma sc_expectCont_upd_lastID (c : sconn hstate) n : sc_expectCont (upd_lastID c n) = sc_expectCont c. Proof. reflexivity. Qed.
Lemma sc_readerQ_upd_lastID (c : sconn hstate) n : sc_readerQ (upd_lastID c n) = sc_readerQ c. Proof. reflexivity. Qed.
Lemma sc_rl_done_upd_lastID (c : sconn hstate) n : sc_rl_done (upd_lastID c n) = sc_rl_done c. Proof. reflexivity. Qed.
Lemma sc_sl_done_upd_lastID (c : sconn hstate) n : sc_sl_done (upd_lastID c n) = sc_sl_done c. Proof. reflexivity. Qed.
Lemma sc_closer_upd_lastID (c : sconn hstate) n : sc_closer (upd_lastID c n) = sc_closer c. Proof. reflexivity. Qed.
Lemma sc_wl_dead_upd_lastID (c : sconn hstate) n : sc_wl_dead (upd_lastID c n) = sc_wl_dead c. Proof. reflexivity. Qed.
Lemma sc_now_upd_lastID (c : sconn hstate) n : sc_now (upd_lastID c n) = sc_now c. Proof. reflexivity. Qed.
Lemma sc_discardID_upd_lastID (c : sconn hstate) n : sc_discardID (upd_lastID c n) = sc_discardID c. Proof. reflexivity. Qed.
Lemma sc_discardPrev_upd_lastID (c : sconn hstate) n : sc_discardPrev (upd_lastID c n) = sc_discardPrev c. Proof. reflexivity. Qed.
Lemma sc_discardFields_upd_lastID (c : sconn hstate) n : sc_discardFields (upd_lastID c n) = sc_discardFields c. Proof. reflexivity. Qed.
Lemma sc_out_upd_lastID (c : sconn hstate) n : sc_out (upd_lastID c n) = sc_out c. Proof. reflexivity. Qed.
Lemma sc_strms_upd_highestID (c : sconn hstate) n : sc_strms (upd_highestID c n) = sc_strms c. Proof. reflexivity. Qed.
Lemma sc_gone_upd_highestID (c : sconn hstate) n : sc_gone (upd_highestID c n) = sc_gone c. Proof. reflexivity. Qed.
Lemma sc_open_upd_highestID (c : sconn hstate) n : sc_open (upd_highestID c n) = sc_open c. Proof. reflexivity. Qed.
Lemma sc_initWin_upd_highestID (c : sconn hstate) n : sc_initWin (upd_highestID c n) = sc_initWin c. Proof. reflexivity. Qed.
Lemma sc_ring_upd_highestID (c : sconn hstate) n : sc_ring (upd_highestID c n) = sc_ring c. Proof. reflexivity. Qed.
Lemma sc_oldest_upd_highestID (c : sconn hstate) n : sc_oldest (upd_highestID c n) = sc_oldest c. Proof. reflexivity. Qed.
Lemma sc_lastID_upd_highestID (c : sconn hstate) n : sc_lastID (upd_highestID c n) = sc_lastID c. Proof. reflexivity. Qed.
Lemma sc_highestID_upd_highestID (c : sconn hstate) n : sc_highestID (upd_highestID c n) = n. Proof. reflexivity. Qed.
Lemma sc_clientWindow_upd_highestID (c : sconn hstate) n : sc_clientWindow (upd_highestID c n) = sc_clientWindow c. Proof. reflexivity. Qed.
Lemma sc_currentWindow_upd_highestID (c : sconn hstate) n : sc_currentWindow (upd_highestID c n) = sc_currentWindow c. Proof. reflexivity. Qed.
Lemma sc_enc_upd_highestID (c : sconn hstate) n : sc_enc (upd_highestID c n) = sc_enc c. Proof. reflexivity. Qed.
Lemma sc_dec_upd_highestID (c : sconn hstate) n : sc_dec (upd_highestID c n) = sc_dec c. Proof. reflexivity. Qed.
Lemma sc_closing_upd_highestID (c : sconn hstate) n : sc_closing (upd_highestID c n) = sc_closing c. Proof. reflexivity. Qed.
Lemma sc_closeRef_upd_highestID (c : sconn hstate) n : sc_closeRef (upd_highestID c n) = sc_closeRef c. Proof. reflexivity. Qed.
Lemma sc_expectCont_upd_highestID (c : sconn hstate) n : sc_expectCont (upd_highestID c n) = sc_expectCont c. Proof. reflexivity. Qed.
Lemma sc_readerQ_upd_highestID (c : sconn hstate) n : sc_readerQ (upd_highestID c n) = sc_readerQ c. Proof. reflexivity. Qed.
Lemma sc_rl_done_upd_highestID (c : sconn hstate) n : sc_rl_done (upd_highestID c n) = sc_rl_done c. Proof. reflexivity. Qed.
Lemma sc_sl_done_upd_highestID (c : sconn hstate) n : sc_sl_done (upd_highestID c n) = sc_sl_done c. Proof. reflexivity. Qed.
Lemma sc_closer_upd_highestID (c : sconn hstate) n : sc_closer (upd_highestID c n) = sc_closer c. Proof. reflexivity. Qed.
Lemma sc_wl_dead_upd_highestID (c : sconn hstate) n : sc_wl_dead (upd_highestID c n) = sc_wl_dead c. Proof. reflexivity. Qed.
Lemma sc_now_upd_highestID (c : sconn hstate) n : sc_now (upd_highestID c n) = sc_now c. Proof. reflexivity. Qed.
Lemma sc_discardID_upd_highestID (c : sconn hstate) n : sc_discardID (upd_highestID c n) = sc_discardID c. Proof. reflexivity. Qed.
Lemma sc_discardPrev_upd_highestID (c : sconn hstate) n : sc_discardPrev (upd_highestID c n) = sc_discardPrev c. Proof. reflexivity. Qed.
Lemma sc_discardFields_upd_highestID (c : sconn hstate) n : sc_discardFields (upd_highestID c n) = sc_discardFields c. Proof. reflexivity. Qed.
Lemma sc_out_upd_highestID (c : sconn hstate) n : sc_out (upd_highestID c n) = sc_out c. Proof. reflexivity. Qed.
Lemma sc_strms_upd_clientWindow (c : sconn hstate) n : sc_strms (upd_clientWindow c n) = sc_strms c. Proof. reflexivity. Qed.
Lemma sc_gone_upd_clientWindow (c : sconn hstate) n : sc_gone (upd_clientWindow c n) = sc_gone c. Proof. reflexivity. Qed.
Lemma sc_open_upd_clientWindow (c : sconn hstate) n : sc_open (upd_clientWindow c n) = sc_open c. Proof. reflexivity. Qed.
Lemma sc_initWin_upd_clientWindow (c : sconn hstate) n : sc_initWin (upd_clientWindow c n) = sc_initWin c. Proof. reflexivity. Qed.
Lemma sc_ring_upd_clientWindow (c : sconn hstate) n : sc_ring (upd_clientWindow c n) = sc_ring c. Proof. reflexivity. Qed.
Lemma sc_oldest_upd_clientWindow (c : sconn hstate) n : sc_oldest (upd_clientWindow c n) = sc_oldest c. Proof. reflexivity. Qed.
Lemma sc_lastID_upd_clientWindow (c : sconn hstate) n : sc_lastID (upd_clientWindow c n) = sc_lastID c. Proof. reflexivity. Qed.
Lemma sc_highestID_upd_clientWindow (c : sconn hstate) n : sc_highestID (upd_clientWindow c n) = sc_highestID c. Proof. reflexivity. Qed.
Lemma sc_clientWindow_upd_clientWindow (c : sconn hstate) n : sc_clientWindow (upd_clientWindow c n) = n. Proof. reflexivity. Qed.
Lemma sc_currentWindow_upd_clientWindow (c : sconn hstate) n : sc_currentWindow (upd_clientWindow c n) = sc_currentWindow c. Proof. reflexivity. Qed.
Lemma sc_enc_upd_clientWindow (c : sconn hstate) n : sc_enc (upd_clientWindow c n) = sc_enc c. Proof. reflexivity. Qed.
Lemma sc_dec_upd_clientWindow (c : sconn hstate) n : sc_dec (upd_clientWindow c n) = sc_dec c. Proof. reflexivity. Qed.
Lemma sc_closing_upd_clientWindow (c : sconn hstate) n : sc_closing (upd_clientWindow c n) = sc_closing c. Proof. reflexivity. Qed.
Lemma sc_closeRef_upd_clientWindow (c : sconn hstate) n : sc_closeRef (upd_clientWindow c n) = sc_closeRef c. Proof. reflexivity. Qed.
Lemma sc_expectCont_upd_clientWindow (c : sconn hstate) n : sc_expectCont (upd_clientWindow c n) = sc_expectCont c. Proof. reflexivity. Qed.
Lemma sc_readerQ_upd_clientWindow (c : sconn hstate) n : sc_readerQ (upd_clientWindow c n) = sc_readerQ c. Proof. reflexivity. Qed.
Lemma sc_rl_done_upd_clientWindow (c : sconn hstate) n : sc_rl_done (upd_clientWindow c n) = sc_rl_done c. Proof. reflexivity. Qed.
Lemma sc_sl_done_upd_clientWindow (c : sconn hstate) n : sc_sl_done (upd_clientWindow c n) = sc_sl_done c. Proof. reflexivity. Qed.
Lemma sc_closer_upd_clientWindow (c : sconn hstate) n : sc_closer (upd_clientWindow c n) = sc_closer c. Proof. reflexivity. Qed.
Lemma sc_wl_dead_upd_clientWindow (c : sconn hstate) n : sc_wl_dead (upd_clientWindow c n) = sc_wl_dead c. Proof. reflexivity. Qed.
Lemma sc_now_upd_clientWindow (c : sconn hstate) n : sc_now (upd_clientWindow c n) = sc_now c. Proof. reflexivity. Qed.
Lemma sc_discardID_upd_clientWindow (c : sconn hstate) n : sc_discardID (upd_clientWindow c n) = sc_discardID c. Proof. reflexivity. Qed.
Lemma sc_discardPrev_upd_clientWindow (c : sconn hstate) n : sc_discardPrev (upd_clientWindow c n) = sc_discardPrev c. Proof. reflexivity. Qed.
Lemma sc_discardFields_upd_clientWindow (c : sconn hstate) n : sc_discardFields (upd_clientWindow c n) = sc_discardFields c. Proof. reflexivity. Qed.
Lemma sc_out_upd_clientWindow (c : sconn hstate) n : sc_out (upd_clientWindow c n) = sc_out c. Proof. reflexivity. Qed.
Lemma sc_strms_upd_currentWindow (c : sconn hstate) n : sc_strms (upd_currentWindow c n) = sc_strms c. Proof. reflexivity. Qed.
Lemma sc_gone_upd_currentWindow (c : sconn hstate) n : sc_gone (upd_currentWindow c n) = sc_gone c. Proof. reflexivity. Qed.
Lemma sc_open_upd_currentWindow (c : sconn hstate) n : sc_open (upd_currentWindow c n) = sc_open c. Proof. reflexivity. Qed.
Lemma sc_initWin_upd_currentWindow (c : sconn hstate) n : sc_initWin (upd_currentWindow c n) = sc_initWin c. Proof. reflexivity. Qed.
Lemma sc_ring_upd_currentWindow (c : sconn hstate) n : sc_ring (upd_currentWindow c n) = sc_ring c. Proof. reflexivity. Qed.
Lemma sc_oldest_upd_currentWindow (c : sconn hstate) n : sc_oldest (upd_currentWindow c n) = sc_oldest c. Proof. reflexivity. Qed.
Lemma sc_lastID_upd_currentWindow (c : sconn hstate) n : sc_lastID (upd_currentWindow c n) = sc_lastID c. Proof. reflexivity. Qed.
Lemma sc_highestID_upd_currentWindow (c : sconn hstate) n : sc_highestID (upd_currentWindow c n) = sc_highestID c. Proof. reflexivity. Qed.
Lemma sc_clientWindow_upd_currentWindow (c : sconn hstate) n : sc_clientWindow (upd_currentWindow c n) = sc_clientWindow c. Proof. reflexivity. Qed.
Lemma sc_currentWindow_upd_currentWindow (c : sconn hstate) n : sc_currentWindow (upd_currentWindow c n) = n. Proof. reflexivity. Qed.
Lemma sc_enc_upd_currentWindow (c : sconn hstate) n : sc_enc (upd_currentWindow c n) = sc_enc c. Proof. reflexivity. Qed.
Lemma sc_dec_upd_currentWindow (c : sconn hstate) n : sc_dec (upd_currentWindow c n) = sc_dec c. Proof. reflexivity. Qed.
Lemma sc_closing_upd_currentWindow (c : sconn hstate) n : sc_closing (upd_currentWindow c n) = sc_closing c. Proof. reflexivity. Qed.
Lemma sc_closeRef_upd_currentWindow (c : sconn hstate) n : sc_closeRef (upd_currentWindow c n) = sc_closeRef c. Proof. reflexivity. Qed.
Lemma sc_expectCont_upd_currentWindow (c : sconn hstate) n : sc_expectCont (upd_currentWindow c n) = sc_expectCont c. Proof. reflexivity. Qed.
Lemma sc_readerQ_upd_currentWindow (c : sconn hstate) n : sc_readerQ (upd_currentWindow c n) = sc_readerQ c. Proof. reflexivity. Qed.
Lemma sc_rl_done_upd_currentWindow (c : sconn hstate) n : sc_rl_done (upd_currentWindow c n) = sc_rl_done c. Proof. reflexivity. Qed.
Lemma sc_sl_done_upd_currentWindow (c : sconn hstate) n : sc_sl_done (upd_currentWindow c n) = sc_sl_done c. Proof. reflexivity. Qed.
Lemma sc_closer_upd_currentWindow (c : sconn hstate) n : sc_closer (upd_currentWindow c n) = sc_closer c. Proof. reflexivity. Qed.
Lemma sc_wl_dead_upd_currentWindow (c : sconn hstate) n : sc_wl_dead (upd_currentWindow c n) = sc_wl_dead c. Proof. reflexivity. Qed.
Lemma sc_now_upd_currentWindow (c : sconn hstate) n : sc_now (upd_currentWindow c n) = sc_now c. Proof. reflexivity. Qed.
Lemma sc_discardID_upd_currentWindow (c : sconn hstate) n : sc_discardID (upd_currentWindow c n) = sc_discardID c. Proof. reflexivity. Qed.
Lemma sc_discardPrev_upd_currentWindow (c : sconn hstate) n : sc_discardPrev (upd_currentWindow c n) = sc_discardPrev c. Proof. reflexivity. Qed.
Lemma sc_discardFields_upd_currentWindow (c : sconn hstate) n : sc_discardFields (upd_currentWindow c n) = sc_discardFields c. Proof. reflexivity. Qed.
Lemma sc_out_upd_currentWindow (c : sconn hstate) n : sc_out (upd_currentWindow c n) = sc_out c. Proof. reflexivity. Qed.
Lemma sc_strms_upd_enc (c : sconn hstate) h : sc_strms (upd_enc c h) = sc_strms c. Proof. reflexivity. Qed.
Lemma sc_gone_upd_enc (c : sconn hstate) h : sc_gone (upd_enc c h) = sc_gone c. Proof. reflexivity. Qed.
Lemma sc_open_upd_enc (c : sconn hstate) h : sc_open (upd_enc c h) = sc_open c. Proof. reflexivity. Qed.
Lemma sc_initWin_upd_enc (c : sconn hstate) h : sc_initWin (upd_enc c h) = sc_initWin c. Proof. reflexivity. Qed.
Lemma sc_ring_upd_enc (c : sconn hstate) h : sc_ring (upd_enc c h) = sc_ring c. Proof. reflexivity. Qed.
Lemma sc_oldest_upd_enc (c : sconn hstate) h : sc_oldest (upd_enc c h) = sc_oldest c. Proof. reflexivity. Qed.
Lemma sc_lastID_upd_enc (c : sconn hstate) h : sc_lastID (upd_enc c h) = sc_lastID c. Proof. reflexivity. Qed.
Lemma sc_highestID_upd_enc (c : sconn hstate) h : sc_highestID (upd_enc c h) = sc_highestID c. Proof. reflexivity. Qed.
Lemma sc_clientWindow_upd_enc (c : sconn hstate) h : sc_clientWindow (upd_enc c h) = sc_clientWindow c. Proof. reflexivity. Qed.
Lemma sc_currentWindow_upd_enc (c : sconn hstate) h : sc_currentWindow (upd_enc c h) = sc_currentWindow c. Proof. reflexivity. Qed.
Lemma sc_enc_upd_enc (c : sconn hstate) h : sc_enc (upd_enc c h) = h. Proof. reflexivity. Qed.
Lemma sc_dec_upd_enc (c : sconn hstate) h : sc_dec (upd_enc c h) = sc_dec c. Proof. reflexivity. Qed.
Lemma sc_closing_upd_enc (c : sconn hstate) h : sc_closing (upd_enc c h) = sc_closing c. Proof. reflexivity. Qed.
Lemma sc_closeRef_upd_enc (c : sconn hstate) h : sc_closeRef (upd_enc c h) = sc_closeRef c. Proof. reflexivity. Qed.
Lemma sc_expectCont_upd_enc (c : sconn hstate) h : sc_expectCont (upd_enc c h) = sc_expectCont c. Proof. reflexivity. Qed.
Lemma sc_readerQ_upd_enc (c : sconn hstate) h : sc_readerQ (upd_enc c h) = sc_readerQ c. Proof. reflexivity. Qed.
Lemma sc_rl_done_upd_enc (c : sconn hstate) h : sc_rl_done (upd_enc c h) = sc_rl_done c. Proof. reflexivity. Qed.
Lemma sc_sl_done_upd_enc (c : sconn hstate) h : sc_sl_done (upd_enc c h) = sc_sl_done c. Proof. reflexivity. Qed.
Lemma sc_closer_upd_enc (c : sconn hstate) h : sc_closer (upd_enc c h) = sc_closer c. Proof. reflexivity. Qed.
Lemma sc_wl_dead_upd_enc (c : sconn hstate) h : sc_wl_dead (upd_enc c h) = sc_wl_dead c. Proof. reflexivity. Qed.
Lemma sc_now_upd_enc (c : sconn hstate) h : sc_now (upd_enc c h) = sc_now c. Proof. reflexivity. Qed.
Lemma sc_discardID_upd_enc (c : sconn hstate) h : sc_discardID (upd_enc c h) = sc_discardID c. Proof. reflexivity. Qed.
Lemma sc_discardPrev_upd_enc (c : sconn hstate) h : sc_discardPrev (upd_enc c h) = sc_discardPrev c. Proof. reflexivity. Qed.
Lemma sc_discardFields_upd_enc (c : sconn hstate) h : sc_discardFields (upd_enc c h) = sc_discardFields c. Proof. reflexivity. Qed.
Lemma sc_out_upd_enc (c : sconn hstate) h : sc_out (upd_enc c h) = sc_out c. Proof. reflexivity. Qed.
Lemma sc_strms_upd_dec (c : sconn hstate) h : sc_strms (upd_dec c h) = sc_strms c. Proof. reflexivity. Qed.
Lemma sc_gone_upd_dec (c : sconn hstate) h : sc_gone (upd_dec c h) = sc_gone c. Proof. reflexivity. Qed.
Lemma sc_open_upd_dec (c : sconn hstate) h : sc_open (upd_dec c h) = sc_open c. Proof. reflexivity. Qed.
Lemma sc_initWin_upd_dec (c : sconn hstate) h : sc_initWin (upd_dec c h) = sc_initWin c. Proof. reflexivity. Qed.
Lemma sc_ring_upd_dec (c : sconn hstate) h : sc_ring (upd_dec c h) = sc_ring c. Proof. reflexivity. Qed.
Lemma sc_oldest_upd_dec (c : sconn hstate) h : sc_oldest (upd_dec c h) = sc_oldest c. Proof. reflexivity. Qed.
Lemma sc_lastID_upd_dec (c : sconn hstate) h : sc_lastID (upd_dec c h) = sc_lastID c. Proof. reflexivity. Qed.
Lemma sc_highestID_upd_dec (c : sconn hstate) h : sc_highestID (upd_dec c h) = sc_highestID c. Proof. reflexivity. Qed.
Lemma sc_clientWindow_upd_dec (c : sconn hstate) h : sc_clientWindow (upd_dec c h) = sc_clientWindow c. Proof. reflexivity. Qed.
Lemma sc_currentWindow_upd_dec (c : sconn hstate) h : sc_currentWindow (upd_dec c h) = sc_currentWindow c. Proof. reflexivity. Qed.
Lemma sc_enc_upd_dec (c : sconn hstate) h : sc_enc (upd_dec c h) = sc_enc c. Proof. reflexivity. Qed.
Lemma sc_dec_upd_dec (c : sconn hstate) h : sc_dec (upd_dec c h) = h. Proof. reflexivity. Qed.
Lemma sc_closing_upd_dec (c : sconn hstate) h : sc_closing (upd_dec c h) = sc_closing c. Proof. reflexivity. Qed.
Lemma sc_closeRef_upd_dec (c : sconn hstate) h : sc_closeRef (upd_dec c h) = sc_closeRef c. Proof. reflexivity. Qed.
Lemma sc_expectCont_upd_dec (c : sconn hstate) h : sc_expectCont (upd_dec c h) = sc_expectCont c. Proof. reflexivity. Qed.
Lemma sc_readerQ_upd_dec (c : sconn hstate) h : sc_readerQ (upd_dec c h) = sc_readerQ c. Proof. reflexivity. Qed.
Lemma sc_rl_done_upd_dec (c : sconn hstate) h : sc_rl_done (upd_dec c h) = sc_rl_done c. Proof. reflexivity. Qed.
Lemma sc_sl_done_upd_dec (c : sconn hstate) h : sc_sl_done (upd_dec c h) = sc_sl_done c. Proof. reflexivity. Qed.
Lemma sc_closer_upd_dec (c : sconn hstate) h : sc_closer (upd_dec c h) = sc_closer c. Proof. reflexivity. Qed.
Lemma sc_wl_dead_upd_dec (c : sconn hstate) h : sc_wl_dead (upd_dec c h) = sc_wl_dead c. Proof. reflexivity. Qed.
Lemma sc_now_upd_dec (c : sconn hstate) h : sc_now (upd_dec c h) = sc_now c. Proof. reflexivity. Qed.
Lemma sc_discardID_upd_dec (c : sconn hstate) h : sc_discardID (upd_dec c h) = sc_discardID c. Proof. reflexivity. Qed.
Lemma sc_discardPrev_upd_dec (c : sconn hstate) h : sc_discardPrev (upd_dec c h) = sc_discardPrev c. Proof. reflexivity. Qed.
Lemma sc_discardFields_upd_dec (c : sconn hstate) h : sc_discardFields (upd_dec c h) = sc_discardFields c. Proof. reflexivity. Qed.
Lemma sc_out_upd_dec (c : sconn hstate) h : sc_out (upd_dec c h) = sc_out c. Proof. reflexivity. Qed.
Lemma sc_strms_upd_closing (c : sconn hstate) b r : sc_strms (upd_closing c b r) = sc_strms c. Proof. reflexivity. Qed.
Lemma sc_gone_upd_closing (c : sconn hstate) b r : sc_gone (upd_closing c b r) = sc_gone c. Proof. reflexivity. Qed.
Lemma sc_open_upd_closing (c : sconn hstate) b r : sc_open (upd_closing c b r) = sc_open c. Proof. reflexivity. Qed.
Lemma sc_initWin_upd_closing (c : sconn hstate) b r : sc_initWin (upd_closing c b r) = sc_initWin c. Proof. reflexivity. Qed.
Lemma sc_ring_upd_closing (c : sconn hstate) b r : sc_ring (upd_closing c b r) = sc_ring c. Proof. reflexivity. Qed.
Lemma sc_oldest_upd_closing (c : sconn hstate) b r : sc_oldest (upd_closing c b r) = sc_oldest c. Proof. reflexivity. Qed.
Lemma sc_lastID_upd_closing (c : sconn hstate) b r : sc_lastID (upd_closing c b r) = sc_lastID c. Proof. reflexivity. Qed.
Lemma sc_highestID_upd_closing (c : sconn hstate) b r : sc_highestID (upd_closing c b r) = sc_highestID c. Proof. reflexivity. Qed.
Lemma sc_clientWindow_upd_closing (c : sconn hstate) b r : sc_clientWindow (upd_closing c b r) = sc_clientWindow c. Proof. reflexivity. Qed.
Lemma sc_currentWindow_upd_closing (c : sconn hstate) b r : sc_currentWindow (upd_closing c b r) = sc_currentWindow c. Proof. reflexivity. Qed.
Lemma sc_enc_upd_closing (c : sconn hstate) b r : sc_enc (upd_closing c b r) = sc_enc c. Proof. reflexivity. Qed.
Lemma sc_dec_upd_closing (c : sconn hstate) b r : sc_dec (upd_closing c b r) = sc_dec c. Proof. reflexivity. Qed.
Lemma sc_closing_upd_closing (c : sconn hstate) b r : sc_closing (upd_closing c b r) = b. Proof. reflexivity. Qed.
Lemma sc_closeRef_upd_closing (c : sconn hstate) b r : sc_closeRef (upd_closing c b r) = r. Proof. reflexivity. Qed.
Lemma sc_expectCont_upd_closing (c : sconn hstate) b r : sc_expectCont (upd_closing c b r) = sc_expectCont c. Proof. reflexivity. Qed.
Lemma sc_readerQ_upd_closing (c : sconn hstate) b r : sc_readerQ (upd_closing c b r) = sc_readerQ c. Proof. reflexivity. Qed.
Lemma sc_rl_done_upd_closing (c : sconn hstate) b r : sc_rl_done (upd_closing c b r) = sc_rl_done c. Proof. reflexivity. Qed.
Lemma sc_sl_done_upd_closing (c : sconn hstate) b r : sc_sl_done (upd_closing c b r) = sc_sl_done c. Proof. reflexivity. Qed.
Lemma sc_closer_upd_closing (c : sconn hstate) b r : sc_closer (upd_closing c b r) = sc_closer c. Proof. reflexivity. Qed.
Lemma sc_wl_dead_upd_closing (c : sconn hstate) b r : sc_wl_dead (upd_closing c b r) = sc_wl_dead c. Proof. reflexivity. Qed.
Lemma sc_now_upd_closing (c : sconn hstate) b r : sc_now (upd_closing c b r) = sc_now c. Proof. reflexivity. Qed.
Lemma sc_discardID_upd_closing (c : sconn hstate) b r : sc_discardID (upd_closing c b r) = sc_discardID c. Proof. reflexivity. Qed.
Lemma sc_discardPrev_upd_closing (c : sconn hstate) b r : sc_discardPrev (upd_closing c b r) = sc_discardPrev c. Proof. reflexivity. Qed.
Lemma sc_discardFields_upd_closing (c : sconn hstate) b r : sc_discardFields (upd_closing c b r) = sc_discardFields c. Proof. reflexivity. Qed.
Lemma sc_out_upd_closing (c : sconn hstate) b r : sc_out (upd_closing c b r) = sc_out c. Proof. reflexivity. Qed.
Lemma sc_strms_upd_expectCont (c : sconn hstate) n : sc_strms (upd_expectCont c n) = sc_strms c. Proof. reflexivity. Qed.
Lemma sc_gone_upd_expectCont (c : sconn hstate) n : sc_gone (upd_expectCont c n) = sc_gone c. Proof. reflexivity. Qed.
Lemma sc_open_upd_expectCont (c : sconn hstate) n : sc_open (upd_expectCont c n) = sc_open c. Proof. reflexivity. Qed.
Lemma sc_initWin_upd_expectCont (c : sconn hstate) n : sc_initWin (upd_expectCont c n) = sc_initWin c. Proof. reflexivity. Qed.
Lemma sc_ring_upd_expectCont (c : sconn hstate) n : sc_ring (upd_expectCont c n) = sc_ring c. Proof. reflexivity. Qed.
Lemma sc_oldest_upd_expectCont (c : sconn hstate) n : sc_oldest (upd_expectCont c n) = sc_oldest c. Proof. reflexivity. Qed.
Lemma sc_lastID_upd_expectCont (c : sconn hstate) n : sc_lastID (upd_expectCont c n) = sc_lastID c. Proof. reflexivity. Qed.
Lemma sc_highestID_upd_expectCont (c : sconn hstate) n : sc_highestID (upd_expectCont c n) = sc_highestID c. Proof. reflexivity. Qed.
Lemma sc_clientWindow_upd_expectCont (c : sconn hstate) n : sc_clientWindow (upd_expectCont c n) = sc_clientWindow c. Proof. reflexivity. Qed.
Lemma sc_currentWindow_upd_expectCont (c : sconn hstate) n : sc_currentWindow (upd_expectCont c n) = sc_currentWindow c. Proof. reflexivity. Qed.
Lemma sc_enc_upd_expectCont (c : sconn hstate) n : sc_enc (upd_expectCont c n) = sc_enc c. Proof. reflexivity. Qed.
Lemma sc_dec_upd_expectCont (c : sconn hstate) n : sc_dec (upd_expectCont c n) = sc_dec c. Proof. reflexivity. Qed.
Lemma sc_closing_upd_expectCont (c : sconn hstate) n : sc_closing (upd_expectCont c n) = sc_closing c. Proof. reflexivity. Qed.
Lemma sc_closeRef_upd_expectCont (c : sconn hstate) n : sc_closeRef (upd_expectCont c n) = sc_closeRef c. Proof. reflexivity. Qed.
Lemma sc_expectCont_upd_expectCont (c : sconn hstate) n : sc_expectCont (upd_expectCont c n) = n. Proof. reflexivity. Qed.
Lemma sc_readerQ_upd_expectCont (c : sconn hstate) n : sc_readerQ (upd_expectCont c n) = sc_readerQ c. Proof. reflexivity. Qed.
Lemma sc_rl_done_upd_expectCont (c : sconn hstate) n : sc_rl_done (upd_expectCont c n) = sc_rl_done c. Proof. reflexivity. Qed.
Lemma sc_sl_done_upd_expectCont (c : sconn hstate) n : sc_sl_done (upd_expectCont c n) = sc_sl_done c. Proof. reflexivity. Qed.
Lemma sc_closer_upd_expectCont (c : sconn hstate) n : sc_closer (upd_expectCont c n) = sc_closer c. Proof. reflexivity. Qed.
Lemma sc_wl_dead_upd_expectCont (c : sconn hstate) n : sc_wl_dead (upd_expectCont c n) = sc_wl_dead c. Proof. reflexivity. Qed.
Lemma sc_now_upd_expectCont (c : sconn hstate) n : sc_now (upd_expectCont c n) = sc_now c. Proof. reflexivity. Qed.
Lemma sc_discardID_upd_expectCont (c : sconn hstate) n : sc_discardID (upd_expectCont c n) = sc_discardID c. Proof. reflexivity. Qed.
Lemma sc_discardPrev_upd_expectCont (c : sconn hstate) n : sc_discardPrev (upd_expectCont c n) = sc_discardPrev c. Proof. reflexivity. Qed.
Lemma sc_discardFields_upd_expectCont (c : sconn hstate) n : sc_discardFields (upd_expectCont c n) = sc_discardFields c. Proof. reflexivity. Qed.
Lemma sc_out_upd_expectCont (c : sconn hstate) n : sc_out (upd_expectCont c n) = sc_out c. Proof. reflexivity. Qed.
Lemma sc_strms_upd_readerQ (c : sconn hstate) q : sc_strms (upd_readerQ c q) = sc_strms c. Proof. reflexivity. Qed.
Lemma sc_gone_upd_readerQ (c : sconn hstate) q : sc_gone (upd_readerQ c q) = sc_gone c. Proof. reflexivity. Qed.
Lemma sc_open_upd_readerQ (c : sconn hstate) q : sc_open (upd_readerQ c q) = sc_open c. Proof. reflexivity. Qed.
Lemma sc_initWin_upd_readerQ (c : sconn hstate) q : sc_initWin (upd_readerQ c q) = sc_initWin c. Proof. reflexivity. Qed.
Lemma sc_ring_upd_readerQ (c : sconn hstate) q : sc_ring (upd_readerQ c q) = sc_ring c. Proof. reflexivity. Qed.
Lemma sc_oldest_upd_readerQ (c : sconn hstate) q : sc_oldest (upd_readerQ c q) = sc_oldest c. Proof. reflexivity. Qed.
Lemma sc_lastID_upd_readerQ (c : sconn hstate) q : sc_lastID (upd_readerQ c q) = sc_lastID c. Proof. reflexivity. Qed.
Lemma sc_highestID_upd_readerQ (c : sconn hstate) q : sc_highestID (upd_readerQ c q) = sc_highestID c. Proof. reflexivity. Qed.
Lemma sc_clientWindow_upd_readerQ (c : sconn hstate) q : sc_clientWindow (upd_readerQ c q) = sc_clientWindow c. Proof. reflexivity. Qed.
Lemma sc_currentWindow_upd_readerQ (c : sconn hstate) q : sc_currentWindow (upd_readerQ c q) = sc_currentWindow c. Proof. reflexivity. Qed.
Lemma sc_enc_upd_readerQ (c : sconn hstate) q : sc_enc (upd_readerQ c q) = sc_enc c. Proof. reflexivity. Qed.
Lemma sc_dec_upd_readerQ (c : sconn hstate) q : sc_dec (upd_readerQ c q) = sc_dec c. Proof. reflexivity. Qed.
Lemma sc_closing_upd_readerQ (c : sconn hstate) q : sc_closing (upd_readerQ c q) = sc_closing c. Proof. reflexivity. Qed.
Lemma sc_closeRef_upd_readerQ (c : sconn hstate) q : sc_closeRef (upd_readerQ c q) = sc_closeRef c. Proof. reflexivity. Qed.
Lemma sc_expectCont_upd_readerQ (c : sconn hstate) q : sc_expectCont (upd_readerQ c q) = sc_expectCont c. Proof. reflexivity. Qed.
Lemma sc_readerQ_upd_readerQ (c : sconn hstate) q : sc_readerQ (upd_readerQ c q) = q. Proof. reflexivity. Qed.
Lemma sc_rl_done_upd_readerQ (c : sconn hstate) q : sc_rl_done (upd_readerQ c q) = sc_rl_done c. Proof. reflexivity. Qed.
Lemma sc_sl_done_upd_readerQ (c : sconn hstate) q : sc_sl_done (upd_readerQ c q) = sc_sl_done c. Proof. reflexivity. Qed.
Lemma sc_closer_upd_readerQ (c : sconn hstate) q : sc_closer (upd_readerQ c q) = sc_closer c. Proof. reflexivity. Qed.
Lemma sc_wl_dead_upd_readerQ (c : sconn hstate) q : sc_wl_dead (upd_readerQ c q) = sc_wl_dead c. Proof. reflexivity. Qed.
Lemma sc_now_upd_readerQ (c : sconn hstate) q : sc_now (upd_readerQ c q) = sc_now c. Proof. reflexivity. Qed.
Lemma sc_discardID_upd_readerQ (c : sconn hstate) q : sc_discardID (upd_readerQ c q) = sc_discardID c. Proof. reflexivity. Qed.
Lemma sc_discardPrev_upd_readerQ (c : sconn hstate) q : sc_discardPrev (upd_readerQ c q) = sc_discardPrev c. Proof. reflexivity. Qed.
Lemma sc_discardFields_upd_readerQ (c : sconn hstate) q : sc_discardFields (upd_readerQ c q) = sc_discardFields c. Proof. reflexivity. Qed.
Lemma sc_out_upd_readerQ (c : sconn hstate) q : sc_out (upd_readerQ c q) = sc_out c. Proof. reflexivity. Qed.
Lemma sc_strms_upd_done (c : sconn hstate) rl sl : sc_strms (upd_done c rl sl) = sc_strms c. Proof. reflexivity. Qed.
Lemma sc_gone_upd_done (c : sconn hstate) rl sl : sc_gone (upd_done c rl sl) = sc_gone c. Proof. reflexivity. Qed.
Lemma sc_open_upd_done (c : sconn hstate) rl sl : sc_open (upd_done c rl sl) = sc_open c. Proof. reflexivity. Qed.
Lemma sc_initWin_upd_done (c : sconn hstate) rl sl : sc_initWin (upd_done c rl sl) = sc_initWin c. Proof. reflexivity. Qed.
Lemma sc_ring_upd_done (c : sconn hstate) rl sl : sc_ring (upd_done c rl sl) = sc_ring c. Proof. reflexivity. Qed.
Lemma sc_oldest_upd_done (c : sconn hstate) rl sl : sc_oldest (upd_done c rl sl) = sc_oldest c. Proof. reflexivity. Qed.
Lemma sc_lastID_upd_done (c : sconn hstate) rl sl : sc_lastID (upd_done c rl sl) = sc_lastID c. Proof. reflexivity. Qed.
Lemma sc_highestID_upd_done (c : sconn hstate) rl sl : sc_highestID (upd_done c rl sl) = sc_highestID c. Proof. reflexivity. Qed.
Lemma sc_clientWindow_upd_done (c : sconn hstate) rl sl : sc_clientWindow (upd_done c rl sl) = sc_clientWindow c. Proof. reflexivity. Qed.
Lemma sc_currentWindow_upd_done (c : sconn hstate) rl sl : sc_currentWindow (upd_done c rl sl) = sc_currentWindow c. Proof. reflexivity. Qed.
Lemma sc_enc_upd_done (c : sconn hstate) rl sl : sc_enc (upd_done c rl sl) = sc_enc c. Proof. reflexivity. Qed.
Lemma sc_dec_upd_done (c : sconn hstate) rl sl : sc_dec (upd_done c rl sl) = sc_dec c. Proof. reflexivity. Qed.
Lemma sc_closing_upd_done (c : sconn hstate) rl sl : sc_closing (upd_done c rl sl) = sc_closing c. Proof. reflexivity. Qed.
Lemma sc_closeRef_upd_done (c : sconn hstate) rl sl : sc_closeRef (upd_done c rl sl) = sc_closeRef c. Proof. reflexivity. Qed.
Lemma sc_expectCont_upd_done (c : sconn hstate) rl sl : sc_expectCont (upd_done c rl sl) = sc_expectCont c. Proof. reflexivity. Qed.
Lemma sc_readerQ_upd_done (c : sconn hstate) rl sl : sc_readerQ (upd_done c rl sl) = sc_readerQ c. Proof. reflexivity. Qed.
Lemma sc_rl_done_upd_done (c : sconn hstate) rl sl : sc_rl_done (upd_done c rl sl) = rl. Proof. reflexivity. Qed.
Lemma sc_sl_done_upd_done (c : sconn hstate) rl sl : sc_sl_done (upd_done c rl sl) = sl. Proof. reflexivity. Qed.
Lemma sc_closer_upd_done (c : sconn hstate) rl sl : sc_closer (upd_done c rl sl) = sc_closer c. Proof. reflexivity. Qed.
Lemma sc_wl_dead_upd_done (c : sconn hstate) rl sl : sc_wl_dead (upd_done c rl sl) = sc_wl_dead c. Proof. reflexivity. Qed.
Lemma sc_now_upd_done (c : sconn hstate) rl sl : sc_now (upd_done c rl sl) = sc_now c. Proof. reflexivity. Qed.
Lemma sc_discardID_upd_done (c : sconn hstate) rl sl : sc_discardID (upd_done c rl sl) = sc_discardID c. Proof. reflexivity. Qed.
Lemma sc_discardPrev_upd_done (c : sconn hstate) rl sl : sc_discardPrev (upd_done c rl sl) = sc_discardPrev c. Proof. reflexivity. Qed.
Lemma sc_discardFields_upd_done (c : sconn hstate) rl sl : sc_discardFields (upd_done c rl sl) = sc_discardFields c. Proof. reflexivity. Qed.
Lemma sc_out_upd_done (c : sconn hstate) rl sl : sc_out (upd_done c rl sl) = sc_out c. Proof. reflexivity. Qed.
Lemma sc_strms_upd_closer (c : sconn hstate) b : sc_strms (upd_closer c b) = sc_strms c. Proof. reflexivity. Qed.
Lemma sc_gone_upd_closer (c : sconn hstate) b : sc_gone (upd_closer c b) = sc_gone c. Proof. reflexivity. Qed.
Lemma sc_open_upd_closer (c : sconn hstate) b : sc_open (upd_closer c b) = sc_open c. Proof. reflexivity. Qed.
Lemma sc_initWin_upd_closer (c : sconn hstate) b : sc_initWin (upd_closer c b) = sc_initWin c. Proof. reflexivity. Qed.
Lemma sc_ring_upd_closer (c : sconn hstate) b : sc_ring (upd_closer c b) = sc_ring c. Proof. reflexivity. Qed.
Lemma sc_oldest_upd_closer (c : sconn hstate) b : sc_oldest (upd_closer c b) = sc_oldest c. Proof. reflexivity. Qed.
Lemma sc_lastID_upd_closer (c : sconn hstate) b : sc_lastID (upd_closer c b) = sc_lastID c. Proof. reflexivity. Qed.
Lemma sc_highestID_upd_closer (c : sconn hstate) b : sc_highestID (upd_closer c b) = sc_highestID c. Proof. reflexivity. Qed.
Lemma sc_clientWindow_upd_closer (c : sconn hstate) b : sc_clientWindow (upd_closer c b) = sc_clientWindow c. Proof. reflexivity. Qed.
Lemma sc_currentWindow_upd_closer (c : sconn hstate) b : sc_currentWindow (upd_closer c b) = sc_currentWindow c. Proof. reflexivity. Qed.
Lemma sc_enc_upd_closer (c : sconn hstate) b : sc_enc (upd_closer c b) = sc_enc c. Proof. reflexivity. Qed.
Lemma sc_dec_upd_closer (c : sconn hstate) b : sc_dec (upd_closer c b) = sc_dec c. Proof. reflexivity. Qed.
Lemma sc_closing_upd_closer (c : sconn hstate) b : sc_closing (upd_closer c b) = sc_closing c. Proof. reflexivity. Qed.
Lemma sc_closeRef_upd_closer (c : sconn hstate) b : sc_closeRef (upd_closer c b) = sc_closeRef c. Proof. reflexivity. Qed.
Lemma sc_expectCont_upd_closer (c : sconn hstate) b : sc_expectCont (upd_closer c b) = sc_expectCont c. Proof. reflexivity. Qed.
Lemma sc_readerQ_upd_closer (c : sconn hstate) b : sc_readerQ (upd_closer c b) = sc_readerQ c. Proof. reflexivity. Qed.
Lemma sc_rl_done_upd_closer (c : sconn hstate) b : sc_rl_done (upd_closer c b) = sc_rl_done c. Proof. reflexivity. Qed.
Lemma sc_sl_done_upd_closer (c : sconn hstate) b : sc_sl_done (upd_closer c b) = sc_sl_done c. Proof. reflexivity. Qed.
Lemma sc_closer_upd_closer (c : sconn hstate) b : sc_closer (upd_closer c b) = b. Proof. reflexivity. Qed.
Lemma sc_wl_dead_upd_closer (c : sconn hstate) b : sc_wl_dead (upd_closer c b) = sc_wl_dead c. Proof. reflexivity. Qed.
Lemma sc_now_upd_closer (c : sconn hstate) b : sc_now (upd_closer c b) = sc_now c. Proof. reflexivity. Qed.
Lemma sc_discardID_upd_closer (c : sconn hstate) b : sc_discardID (upd_closer c b) = sc_discardID c. Proof. reflexivity. Qed.
Lemma sc_discardPrev_upd_closer (c : sconn hstate) b : sc_discardPrev (upd_closer c b) = sc_discardPrev c. Proof. reflexivity. Qed.
Lemma sc_discardFields_upd_closer (c : sconn hstate) b : sc_discardFields (upd_closer c b) = sc_discardFields c. Proof. reflexivity. Qed.
Lemma sc_out_upd_closer (c : sconn hstate) b : sc_out (upd_closer c b) = sc_out c. Proof. reflexivity. Qed.
Lemma sc_strms_upd_wl_dead (c : sconn hstate) b : sc_strms (upd_wl_dead c b) = sc_strms c. Proof. reflexivity. Qed.
Lemma sc_gone_upd_wl_dead (c : sconn hstate) b : sc_gone (upd_wl_dead c b) = sc_gone c. Proof. reflexivity. Qed.
Lemma sc_open_upd_wl_dead (c : sconn hstate) b : sc_open (upd_wl_dead c b) = sc_open c. Proof. reflexivity. Qed.
Lemma sc_initWin_upd_wl_dead (c : sconn hstate) b : sc_initWin (upd_wl_dead c b) = sc_initWin c. Proof. reflexivity. Qed.
Lemma sc_ring_upd_wl_dead (c : sconn hstate) b : sc_ring (upd_wl_dead c b) = sc_ring c. Proof. reflexivity. Qed.
Lemma sc_oldest_upd_wl_dead (c : sconn hstate) b : sc_oldest (upd_wl_dead c b) = sc_oldest c. Proof. reflexivity. Qed.
Lemma sc_lastID_upd_wl_dead (c : sconn hstate) b : sc_lastID (upd_wl_dead c b) = sc_lastID c. Proof. reflexivity. Qed.
Lemma sc_highestID_upd_wl_dead (c : sconn hstate) b : sc_highestID (upd_wl_dead c b) = sc_highestID c. Proof. reflexivity. Qed.
Lemma sc_clientWindow_upd_wl_dead (c : sconn hstate) b : sc_clientWindow (upd_wl_dead c b) = sc_clientWindow c. Proof. reflexivity. Qed.
Lemma sc_currentWindow_upd_wl_dead (c : sconn hstate) b : sc_currentWindow (upd_wl_dead c b) = sc_currentWindow c. Proof. reflexivity. Qed.
Lemma sc_enc_upd_wl_dead (c : sconn hstate) b : sc_enc (upd_wl_dead c b) = sc_enc c. Proof. reflexivity. Qed.
Lemma sc_dec_upd_wl_dead (c : sconn hstate) b : sc_dec (upd_wl_dead c b) = sc_dec c. Proof. reflexivity. Qed.
Lemma sc_closing_upd_wl_dead (c : sconn hstate) b : sc_closing (upd_wl_dead c b) = sc_closing c. Proof. reflexivity. Qed.
Lemma sc_closeRef_upd_wl_dead (c : sconn hstate) b : sc_closeRef (upd_wl_dead c b) = sc_closeRef c. Proof. reflexivity. Qed.
Lemma sc_expectCont_upd_wl_dead (c : sconn hstate) b : sc_expectCont (upd_wl_dead c b) = sc_expectCont c. Proof. reflexivity. Qed.
Lemma sc_readerQ_upd_wl_dead (c : sconn hstate) b : sc_readerQ (upd_wl_dead c b) = sc_readerQ c. Proof. reflexivity. Qed.
Lemma sc_rl_done_upd_wl_dead (c : sconn hstate) b : sc_rl_done (upd_wl_dead c b) = sc_rl_done c. Proof. reflexivity. Qed.
Lemma sc_sl_done_upd_wl_dead (c : sconn hstate) b : sc_sl_done (upd_wl_dead c b) = sc_sl_done c. Proof. reflexivity. Qed.
Lemma sc_closer_upd_wl_dead (c : sconn hstate) b : sc_closer (upd_wl_dead c b) = sc_closer c. Proof. reflexivity. Qed.
Lemma sc_wl_dead_upd_wl_dead (c : sconn hstate) b : sc_wl_dead (upd_wl_dead c b) = b. Proof. reflexivity. Qed.
Lemma sc_now_upd_wl_dead (c : sconn hstate) b : sc_now (upd_wl_dead c b) = sc_now c. Proof. reflexivity. Qed.
Lemma sc_discardID_upd_wl_dead (c : sconn hstate) b : sc_discardID (upd_wl_dead c b) = sc_discardID c. Proof. reflexivity. Qed.
Lemma sc_discardPrev_upd_wl_dead (c : sconn hstate) b : sc_discardPrev (upd_wl_dead c b) = sc_discardPrev c. Proof. reflexivity. Qed.
Lemma sc_discardFields_upd_wl_dead (c : sconn hstate) b : sc_discardFields (upd_wl_dead c b) = sc_discardFields c. Proof. reflexivity. Qed.
Lemma sc_out_upd_wl_dead (c : sconn hstate) b : sc_out (upd_wl_dead c b) = sc_out c. Proof. reflexivity. Qed.
Lemma sc_strms_upd_now (c : sconn hstate) t : sc_strms (upd_now c t) = sc_strms c. Proof. reflexivity. Qed.
Lemma sc_gone_upd_now (c : sconn hstate) t : sc_gone (upd_now c t) = sc_gone c. Proof. reflexivity. Qed.
Lemma sc_open_upd_now (c : sconn hstate) t : sc_open (upd_now c t) = sc_open c. Proof. reflexivity. Qed.
Lemma sc_initWin_upd_now (c : sconn hstate) t : sc_initWin (upd_now c t) = sc_initWin c. Proof. reflexivity. Qed.
Lemma sc_ring_upd_now (c : sconn hstate) t : sc_ring (upd_now c t) = sc_ring c. Proof. reflexivity. Qed.
Lemma sc_oldest_upd_now (c : sconn hstate) t : sc_oldest (upd_now c t) = sc_oldest c. Proof. reflexivity. Qed.
Lemma sc_lastID_upd_now (c : sconn hstate) t : sc_lastID (upd_now c t) = sc_lastID c. Proof. reflexivity. Qed.
Lemma sc_highestID_upd_now (c : sconn hstate) t : sc_highestID (upd_now c t) = sc_highestID c. Proof. reflexivity. Qed.
Lemma sc_clientWindow_upd_now (c : sconn hstate) t : sc_clientWindow (upd_now c t) = sc_clientWindow c. Proof. reflexivity. Qed.
Lemma sc_currentWindow_upd_now (c : sconn hstate) t : sc_currentWindow (upd_now c t) = sc_currentWindow c. Proof. reflexivity. Qed.
Lemma sc_enc_upd_now (c : sconn hstate) t : sc_enc (upd_now c t) = sc_enc c. Proof. reflexivity. Qed.
Lemma sc_dec_upd_now (c : sconn hstate) t : sc_dec (upd_now c t) = sc_dec c. Proof. reflexivity. Qed.
Lemma sc_closing_upd_now (c : sconn hstate) t : sc_closing (upd_now c t) = sc_closing c. Proof. reflexivity. Qed.
Lemma sc_closeRef_upd_now (c : sconn hstate) t : sc_closeRef (upd_now c t) = sc_closeRef c. Proof. reflexivity. Qed.
Lemma sc_expectCont_upd_now (c : sconn hstate) t : sc_expectCont (upd_now c t) = sc_expectCont c. Proof. reflexivity. Qed.
Lemma sc_readerQ_upd_now (c : sconn hstate) t : sc_readerQ (upd_now c t) = sc_readerQ c. Proof. reflexivity. Qed.
Lemma sc_rl_done_upd_now (c : sconn hstate) t : sc_rl_done (upd_now c t) = sc_rl_done c. Proof. reflexivity. Qed.
Lemma sc_sl_done_upd_now (c : sconn hstate) t : sc_sl_done (upd_now c t) = sc_sl_done c. Proof. reflexivity. Qed.
Lemma sc_closer_upd_now (c : sconn hstate) t : sc_closer (upd_now c t) = sc_closer c. Proof. reflexivity. Qed.
Lemma sc_wl_dead_upd_now (c : sconn hstate) t : sc_wl_dead (upd_now c t) = sc_wl_dead c. Proof. reflexivity. Qed.
Lemma sc_now_upd_now (c : sconn hstate) t : sc_now (upd_now c t) = t. Proof. reflexivity. Qed.
Lemma sc_discardID_upd_now (c : sconn hstate) t : sc_discardID (upd_now c t) = sc_discardID c. Proof. reflexivity. Qed.
Lemma sc_discardPrev_upd_now (c : sconn hstate) t : sc_discardPrev (upd_now c t) = sc_discardPrev c. Proof. reflexivity. Qed.
Lemma sc_discardFields_upd_now (c : sconn hstate) t : sc_discardFields (upd_now c t) = sc_discardFields c. Proof. reflexivity. Qed.
Lemma sc_out_upd_now (c : sconn hstate) t : sc_out (upd_now c t) = sc_out c. Proof. reflexivity. Qed.
Lemma sc_strms_upd_discard (c : sconn hstate) id prev n : sc_strms (upd_discard c id prev n) = sc_strms c. Proof. reflexivity. Qed.
Lemma sc_gone_upd_discard (c : sconn hstate) id prev n : sc_gone (upd_discard c id prev n) = sc_gone c. Proof. reflexivity. Qed.
Lemma sc_open_upd_discard (c : sconn hstate) id prev n : sc_open (upd_discard c id prev n) = sc_open c. Proof. reflexivity. Qed.
Lemma sc_initWin_upd_discard (c : sconn hstate) id prev n : sc_initWin (upd_discard c id prev n) = sc_initWin c. Proof. reflexivity. Qed.
Lemma sc_ring_upd_discard (c : sconn hstate) id prev n : sc_ring (upd_discard c id prev n) = sc_ring c. Proof. reflexivity. Qed.
Lemma sc_oldest_upd_discard (c : sconn hstate) id prev n : sc_oldest (upd_discard c id prev n) = sc_oldest c. Proof. reflexivity. Qed.
Lemma sc_lastID_upd_discard (c : sconn hstate) id prev n : sc_lastID (upd_discard c id prev n) = sc_lastID c. Proof. reflexivity. Qed.
Lemma sc_highestID_upd_discard (c : sconn hstate) id prev n : sc_highestID (upd_discard c id prev n) = sc_highestID c. Proof. reflexivity. Qed.
Lemma sc_clientWindow_upd_discard (c : sconn hstate) id prev n : sc_clientWindow (upd_discard c id prev n) = sc_clientWindow c. Proof. reflexivity. Qed.
Lemma sc_currentWindow_upd_discard (c : sconn hstate) id prev n : sc_currentWindow (upd_discard c id prev n) = sc_currentWindow c. Proof. reflexivity. Qed.
Lemma sc_enc_upd_discard (c : sconn hstate) id prev n : sc_enc (upd_discard c id prev n) = sc_enc c. Proof. reflexivity. Qed.
Lemma sc_dec_upd_discard (c : sconn hstate) id prev n : sc_dec (upd_discard c id prev n) = sc_dec c. Proof. reflexivity. Qed.
Lemma sc_closing_upd_discard (c : sconn hstate) id prev n : sc_closing (upd_discard c id prev n) = sc_closing c. Proof. reflexivity. Qed.
Lemma sc_closeRef_upd_discard (c : sconn hstate) id prev n : sc_closeRef (upd_discard c id prev n) = sc_closeRef c. Proof. reflexivity. Qed.
Lemma sc_expectCont_upd_discard (c : sconn hstate) id prev n : sc_expectCont (upd_discard c id prev n) = sc_expectCont c. Proof. reflexivity. Qed.
Lemma sc_readerQ_upd_discard (c : sconn hstate) id prev n : sc_readerQ (upd_discard c id prev n) = sc_readerQ c. Proof. reflexivity. Qed.
Lemma sc_rl_done_upd_discard (c : sconn hstate) id prev n : sc_rl_done (upd_discard c id prev n) = sc_rl_done c. Proof. reflexivity. Qed.
Lemma sc_sl_done_upd_discard (c : sconn hstate) id prev n : sc_sl_done (upd_discard c id prev n) = sc_sl_done c. Proof. reflexivity. Qed.
Lemma sc_closer_upd_discard (c : sconn hstate) id prev n : sc_closer (upd_discard c id prev n) = sc_closer c. Proof. reflexivity. Qed.
Lemma sc_wl_dead_upd_discard (c : sconn hstate) id prev n : sc_wl_dead (upd_discard c id prev n) = sc_wl_dead c. Proof. reflexivity. Qed.
Lemma sc_now_upd_discard (c : sconn hstate) id prev n : sc_now (upd_discard c id prev n) = sc_now c. Proof. reflexivity. Qed.
Lemma sc_discardID_upd_discard (c : sconn hstate) id prev n : sc_discardID (upd_discard c id prev n) = id. Proof. reflexivity. Qed.
Lemma sc_discardPrev_upd_discard (c : sconn hstate) id prev n : sc_discardPrev (upd_discard c id prev n) = prev. Proof. reflexivity. Qed.
Lemma sc_discardFields_upd_discard (c : sconn hstate) id prev n : sc_discardFields (upd_discard c id prev n) = n. Proof. reflexivity. Qed.
Lemma sc_out_upd_discard (c : sconn hstate) id prev n : sc_out (upd_discard c id prev n) = sc_out c. Proof. reflexivity. Qed.
Lemma sc_strms_emit (c : sconn hstate) o : sc_strms (emit c o) = sc_strms c. Proof. sc_unf. Qed.
Lemma sc_gone_emit (c : sconn hstate) o : sc_gone (emit c o) = sc_gone c. Proof. sc_unf. Qed.
Lemma sc_open_emit (c : sconn hstate) o : sc_open (emit c o) = sc_open c. Proof. sc_unf. Qed.
Lemma sc_initWin_emit (c : sconn hstate) o : sc_initWin (emit c o) = sc_initWin c. Proof. sc_unf. Qed.
Lemma sc_ring_emit (c : sconn hstate) o : sc_ring (emit c o) = sc_ring c. Proof. sc_unf. Qed.
Lemma sc_oldest_emit (c : sconn hstate) o : sc_oldest (emit c o) = sc_oldest c. Proof. sc_unf. Qed.
Lemma sc_lastID_emit (c : sconn hstate) o : sc_lastID (emit c o) = sc_lastID c. Proof. sc_unf. Qed.
Lemma sc_highestID_emit (c : sconn hstate) o : sc_highestID (emit c o) = sc_highestID c. Proof. sc_unf. Qed.
Lemma sc_clientWindow_emit (c : sconn hstate) o : sc_clientWindow (emit c o) = sc_clientWindow c. Proof. sc_unf. Qed.
Lemma sc_currentWindow_emit (c : sconn hstate) o : sc_currentWindow (emit c o) = sc_currentWindow c. Proof. sc_unf. Qed.
Lemma sc_enc_emit (c : sconn hstate) o : sc_enc (emit c o) = sc_enc c. Proof. sc_unf. Qed.
Lemma sc_dec_emit (c : sconn hstate) o : sc_dec (emit c o) = sc_dec c. Proof. sc_unf. Qed.
Lemma sc_closing_emit (c : sconn hstate) o : sc_closing (emit c o) = sc_closing c. Proof. sc_unf. Qed.
Lemma sc_closeRef_emit (c : sconn hstate) o : sc_closeRef (emit c o) = sc_closeRef c. Proof. sc_unf. Qed.
Lemma sc_expectCont_emit (c : sconn hstate) o : sc_expectCont (emit c o) = sc_expectCont c. Proof. sc_unf. Qed.
Lemma sc_readerQ_emit (c : sconn hstate) o : sc_readerQ (emit c o) = sc_readerQ c. Proof. sc_unf. Qed.
Lemma sc_rl_done_emit (c : sconn hstate) o : sc_rl_done (emit c o) = sc_rl_done c. Proof. sc_unf. Qed.
Lemma sc_sl_done_emit (c : sconn hstate) o : sc_sl_done (emit c o) = sc_sl_done c. Proof. sc_unf. Qed.
Lemma sc_closer_emit (c : sconn hstate) o : sc_closer (emit c o) = sc_closer c. Proof. sc_unf. Qed.
Lemma sc_wl_dead_emit (c : sconn hstate) o : sc_wl_dead (emit c o) = sc_wl_dead c. Proof. sc_unf. Qed.
Lemma sc_now_emit (c : sconn hstate) o : sc_now (emit c o) = sc_now c. Proof. sc_unf. Qed.
Lemma sc_discardID_emit (c : sconn hstate) o : sc_discardID (emit c o) = sc_discardID c. Proof. sc_unf. Qed.
Lemma sc_discardPrev_emit (c : sconn hstate) o : sc_discardPrev (emit c o) = sc_discardPrev c. Proof. sc_unf. Qed.
Lemma sc_discardFields_emit (c : sconn hstate) o : sc_discardFields (emit c o) = sc_discardFields c. Proof. sc_unf. Qed.
Lemma sc_strms_note (c : sconn hstate) o : sc_strms (note c o) = sc_strms c. Proof. sc_unf. Qed.
Lemma sc_gone_note (c : sconn hstate) o : sc_gone (note c o) = sc_gone c. Proof. sc_unf. Qed.
Lemma sc_open_note (c : sconn hstate) o : sc_open (note c o) = sc_open c. Proof. sc_unf. Qed.
Lemma sc_initWin_note (c : sconn hstate) o : sc_initWin (note c o) = sc_initWin c. Proof. sc_unf. Qed.
Lemma sc_ring_note (c : sconn hstate) o : sc_ring (note c o) = sc_ring c. Proof. sc_unf. Qed.
Lemma sc_oldest_note (c : sconn hstate) o : sc_oldest (note c o) = sc_oldest c. Proof. sc_unf. Qed.
Lemma sc_lastID_note (c : sconn hstate) o : sc_lastID (note c o) = sc_lastID c. Proof. sc_unf. Qed.
Lemma sc_highestID_note (c : sconn hstate) o : sc_highestID (note c o) = sc_highestID c. Proof. sc_unf. Qed.
Lemma sc_clientWindow_note (c : sconn hstate) o : sc_clientWindow (note c o) = sc_clientWindow c. Proof. sc_unf. Qed.
Lemma sc_currentWindow_note (c : sconn hstate) o : sc_currentWindow (note c o) = sc_currentWindow c. Proof. sc_unf. Qed.
Lemma sc_enc_note (c : sconn hstate) o : sc_enc (note c o) = sc_enc c. Proof. sc_unf. Qed.
Lemma sc_dec_note (c : sconn hstate) o : sc_dec (note c o) = sc_dec c. Proof. sc_unf. Qed.
Lemma sc_closing_note (c : sconn hstate) o : sc_closing (note c o) = sc_closing c. Proof. sc_unf. Qed.
Lemma sc_closeRef_note (c : sconn hstate) o : sc_closeRef (note c o) = sc_closeRef c. Proof. sc_unf. Qed.
Lemma sc_expectCont_note (c : sconn hstate) o : sc_expectCont (note c o) = sc_expectCont c. Proof. sc_unf. Qed.
Lemma sc_readerQ_note (c : sconn hstate) o : sc_readerQ (note c o) = sc_readerQ c. Proof. sc_unf. Qed.
Lemma sc_rl_done_note (c : sconn hstate) o : sc_rl_done (note c o) = sc_rl_done c. Proof. sc_unf. Qed.
Lemma sc_sl_done_note (c : sconn hstate) o : sc_sl_done (note c o) = sc_sl_done c. Proof. sc_unf. Qed.
Lemma sc_closer_note (c : sconn hstate) o : sc_closer (note c o) = sc_closer c. Proof. sc_unf. Qed.
Lemma sc_wl_dead_note (c : sconn hstate) o : sc_wl_dead (note c o) = sc_wl_dead c. Proof. sc_unf. Qed.
Lemma sc_now_note (c : sconn hstate) o : sc_now (note c o) = sc_now c. Proof. sc_unf. Qed.
Lemma sc_discardID_note (c : sconn hstate) o : sc_discardID (note c o) = sc_discardID c. Proof. sc_unf. Qed.
Lemma sc_discardPrev_note (c : sconn hstate) o : sc_discardPrev (note c o) = sc_discardPrev c. Proof. sc_unf. Qed.
Lemma sc_discardFields_note (c : sconn hstate) o : sc_discardFields (note c o) = sc_discardFields c. Proof. sc_unf. Qed.
Lemma sc_strms_write_reset (c : sconn hstate) sid code : sc_strms (write_reset c sid code) = sc_strms c. Proof. sc_unf. Qed.
Lemma sc_gone_write_reset (c : sconn hstate) sid code : sc_gone (write_reset c sid code) = sc_gone c. Proof. sc_unf. Qed.
Lemma sc_open_write_reset (c : sconn hstate) sid code : sc_open (write_reset c sid code) = sc_open c. Proof. sc_unf. Qed.
Lemma sc_initWin_write_reset (c : sconn hstate) sid code : sc_initWin (write_reset c sid code) = sc_initWin c. Proof. sc_unf. Qed.
Lemma sc_ring_write_reset (c : sconn hstate) sid code : sc_ring (write_reset c sid code) = sc_ring c. Proof. sc_unf. Qed.
Lemma sc_oldest_write_reset (c : sconn hstate) sid code : sc_oldest (write_reset c sid code) = sc_oldest c. Proof. sc_unf. Qed.
Lemma sc_lastID_write_reset (c : sconn hstate) sid code : sc_lastID (write_reset c sid code) = sc_lastID c. Proof. sc_unf. Qed.
Lemma sc_highestID_write_reset (c : sconn hstate) sid code : sc_highestID (write_reset c sid code) = sc_highestID c. Proof. sc_unf. Qed.
Lemma sc_clientWindow_write_reset (c : sconn hstate) sid code : sc_clientWindow (write_reset c sid code) = sc_clientWindow c. Proof. sc_unf. Qed.
Lemma sc_currentWindow_write_reset (c : sconn hstate) sid code : sc_currentWindow (write_reset c sid code) = sc_currentWindow c. Proof. sc_unf. Qed.
Lemma sc_enc_write_reset (c : sconn hstate) sid code : sc_enc (write_reset c sid code) = sc_enc c. Proof. sc_unf. Qed.
Lemma sc_dec_write_reset (c : sconn hstate) sid code : sc_dec (write_reset c sid code) = sc_dec c. Proof. sc_unf. Qed.
Lemma sc_closing_write_reset (c : sconn hstate) sid code : sc_closing (write_reset c sid code) = sc_closing c. Proof. sc_unf. Qed.
Lemma sc_closeRef_write_reset (c : sconn hstate) sid code : sc_closeRef (write_reset c sid code) = sc_closeRef c. Proof. sc_unf. Qed.
Lemma sc_expectCont_write_reset (c : sconn hstate) sid code : sc_expectCont (write_reset c sid code) = sc_expectCont c. Proof. sc_unf. Qed.
Lemma sc_readerQ_write_reset (c : sconn hstate) sid code : sc_readerQ (write_reset c sid code) = sc_readerQ c. Proof. sc_unf. Qed.
Lemma sc_rl_done_write_reset (c : sconn hstate) sid code : sc_rl_done (write_reset c sid code) = sc_rl_done c. Proof. sc_unf. Qed.
Lemma sc_sl_done_write_reset (c : sconn hstate) sid code : sc_sl_done (write_reset c sid code) = sc_sl_done c. Proof. sc_unf. Qed.
Lemma sc_closer_write_reset (c : sconn hstate) sid code : sc_closer (write_reset c sid code) = sc_closer c. Proof. sc_unf. Qed.
Lemma sc_wl_dead_write_reset (c : sconn hstate) sid code : sc_wl_dead (write_reset c sid code) = sc_wl_dead c. Proof. sc_unf. Qed.
Lemma sc_now_write_reset (c : sconn hstate) sid code : sc_now (write_reset c sid code) = sc_now c. Proof. sc_unf. Qed.
Lemma sc_discardID_write_reset (c : sconn hstate) sid code : sc_discardID (write_reset c sid code) = sc_discardID c. Proof. sc_unf. Qed.
Lemma sc_discardPrev_write_reset (c : sconn hstate) sid code : sc_discardPrev (write_reset c sid code) = sc_discardPrev c. Proof. sc_unf. Qed.
Lemma sc_discardFields_write_reset (c : sconn hstate) sid code : sc_discardFields (write_reset c sid code) = sc_discardFields c. Proof. sc_unf. Qed.
Lemma sc_strms_write_window_update (c : sconn hstate) sid inc : sc_strms (write_window_update c sid inc) = sc_strms c. Proof. sc_unf. Qed.
Lemma sc_gone_write_window_update (c : sconn hstate) sid inc : sc_gone (write_window_update c sid inc) = sc_gone c. Proof. sc_unf. Qed.
Lemma sc_open_write_window_update (c : sconn hstate) sid inc : sc_open (write_window_update c sid inc) = sc_open c. Proof. sc_unf. Qed.
Lemma sc_initWin_write_window_update (c : sconn hstate) sid inc : sc_initWin (write_window_update c sid inc) = sc_initWin c. Proof. sc_unf. Qed.
Lemma sc_ring_write_window_update (c : sconn hstate) sid inc : sc_ring (write_window_update c sid inc) = sc_ring c. Proof. sc_unf. Qed.
Lemma sc_oldest_write_window_update (c : sconn hstate) sid inc : sc_oldest (write_window_update c sid inc) = sc_oldest c. Proof. sc_unf. Qed.
Lemma sc_lastID_write_window_update (c : sconn hstate) sid inc : sc_lastID (write_window_update c sid inc) = sc_lastID c. Proof. sc_unf. Qed.
Lemma sc_highestID_write_window_update (c : sconn hstate) sid inc : sc_highestID (write_window_update c sid inc) = sc_highestID c. Proof. sc_unf. Qed.
Lemma sc_clientWindow_write_window_update (c : sconn hstate) sid inc : sc_clientWindow (write_window_update c sid inc) = sc_clientWindow c. Proof. sc_unf. Qed.
Lemma sc_currentWindow_write_window_update (c : sconn hstate) sid inc : sc_currentWindow (write_window_update c sid inc) = sc_currentWindow c. Proof. sc_unf. Qed.
Lemma sc_enc_write_window_update (c : sconn hstate) sid inc : sc_enc (write_window_update c sid inc) = sc_enc c. Proof. sc_unf. Qed.
Lemma sc_dec_write_window_update (c : sconn hstate) sid inc : sc_dec (write_window_update c sid inc) = sc_dec c. Proof. sc_unf. Qed.
Lemma sc_closing_write_window_update (c : sconn hstate) sid inc : sc_closing (write_window_update c sid inc) = sc_closing c. Proof. sc_unf. Qed.
Lemma sc_closeRef_write_window_update (c : sconn hstate) sid inc : sc_closeRef (write_window_update c sid inc) = sc_closeRef c. Proof. sc_unf. Qed.
Lemma sc_expectCont_write_window_update (c : sconn hstate) sid inc : sc_expectCont (write_window_update c sid inc) = sc_expectCont c. Proof. sc_unf. Qed.
Lemma sc_readerQ_write_window_update (c : sconn hstate) sid inc : sc_readerQ (write_window_update c sid inc) = sc_readerQ c. Proof. sc_unf. Qed.
Lemma sc_rl_done_write_window_update (c : sconn hstate) sid inc : sc_rl_done (write_window_update c sid inc) = sc_rl_done c. Proof. sc_unf. Qed.
Lemma sc_sl_done_write_window_update (c : sconn hstate) sid inc : sc_sl_done (write_window_update c sid inc) = sc_sl_done c. Proof. sc_unf. Qed.
Lemma sc_closer_write_window_update (c : sconn hstate) sid inc : sc_closer (write_window_update c sid inc) = sc_closer c. Proof. sc_unf. Qed.
Lemma sc_wl_dead_write_window_update (c : sconn hstate) sid inc : sc_wl_dead (write_window_update c sid inc) = sc_wl_dead c. Proof. sc_unf. Qed.
Lemma sc_now_write_window_update (c : sconn hstate) sid inc : sc_now (write_window_update c sid inc) = sc_now c. Proof. sc_unf. Qed.
Lemma sc_discardID_write_window_update (c : sconn hstate) sid inc : sc_discardID (write_window_update c sid inc) = sc_discardID c. Proof. sc_unf. Qed.
Lemma sc_discardPrev_write_window_update (c : sconn hstate) sid inc : sc_discardPrev (write_window_update c sid inc) = sc_discardPrev c. Proof. sc_unf. Qed.
Lemma sc_discardFields_write_window_update (c : sconn hstate) sid inc : sc_discardFields (write_window_update c sid inc) = sc_discardFields c. Proof. sc_unf. Qed.
Lemma sc_strms_write_goaway (c : sconn hstate) sid code : sc_strms (write_goaway c sid code) = sc_strms c. Proof. sc_unf. Qed.
Lemma sc_gone_write_goaway (c : sconn hstate) sid code : sc_gone (write_goaway c sid code) = sc_gone c. Proof. sc_unf. Qed.
Lemma sc_open_write_goaway (c : sconn hstate) sid code : sc_open (write_goaway c sid code) = sc_open c. Proof. sc_unf. Qed.
Lemma sc_initWin_write_goaway (c : sconn hstate) sid code : sc_initWin (write_goaway c sid code) = sc_initWin c. Proof. sc_unf. Qed.
Lemma sc_ring_write_goaway (c : sconn hstate) sid code : sc_ring (write_goaway c sid code) = sc_ring c. Proof. sc_unf. Qed.
Lemma sc_oldest_write_goaway (c : sconn hstate) sid code : sc_oldest (write_goaway c sid code) = sc_oldest c. Proof. sc_unf. Qed.
Lemma sc_lastID_write_goaway (c : sconn hstate) sid code : sc_lastID (write_goaway c sid code) = sc_lastID c. Proof. sc_unf. Qed.
Lemma sc_highestID_write_goaway (c : sconn hstate) sid code : sc_highestID (write_goaway c sid code) = sc_highestID c. Proof. sc_unf. Qed.
Lemma sc_clientWindow_write_goaway (c : sconn hstate) sid code : sc_clientWindow (write_goaway c sid code) = sc_clientWindow c. Proof. sc_unf. Qed.
Lemma sc_currentWindow_write_goaway (c : sconn hstate) sid code : sc_currentWindow (write_goaway c sid code) = sc_currentWindow c. Proof. sc_unf. Qed.
Lemma sc_enc_write_goaway (c : sconn hstate) sid code : sc_enc (write_goaway c sid code) = sc_enc c. Proof. sc_unf. Qed.
Lemma sc_dec_write_goaway (c : sconn hstate) sid code : sc_dec (write_goaway c sid code) = sc_dec c. Proof. sc_unf. Qed.
Lemma sc_expectCont_write_goaway (c : sconn hstate) sid code : sc_expectCont (write_goaway c sid code) = sc_expectCont c. Proof. sc_unf. Qed.
Lemma sc_readerQ_write_goaway (c : sconn hstate) sid code : sc_readerQ (write_goaway c sid code) = sc_readerQ c. Proof. sc_unf. Qed.
Lemma sc_rl_done_write_goaway (c : sconn hstate) sid code : sc_rl_done (write_goaway c sid code) = sc_rl_done c. Proof. sc_unf. Qed.
Lemma sc_sl_done_write_goaway (c : sconn hstate) sid code : sc_sl_done (write_goaway c sid code) = sc_sl_done c. Proof. sc_unf. Qed.
Lemma sc_closer_write_goaway (c : sconn hstate) sid code : sc_closer (write_goaway c sid code) = sc_closer c. Proof. sc_unf. Qed.
Lemma sc_wl_dead_write_goaway (c : sconn hstate) sid code : sc_wl_dead (write_goaway c sid code) = sc_wl_dead c. Proof. sc_unf. Qed.
Lemma sc_now_write_goaway (c : sconn hstate) sid code : sc_now (write_goaway c sid code) = sc_now c. Proof. sc_unf. Qed.
Lemma sc_discardID_write_goaway (c : sconn hstate) sid code : sc_discardID (write_goaway c sid code) = sc_discardID c. Proof. sc_unf. Qed.
Lemma sc_discardPrev_write_goaway (c : sconn hstate) sid code : sc_discardPrev (write_goaway c sid code) = sc_discardPrev c. Proof. sc_unf. Qed.
Lemma sc_discardFields_write_goaway (c : sconn hstate) sid code : sc_discardFields (write_goaway c sid code) = sc_discardFields c. Proof. sc_unf. Qed.
Lemma sc_strms_write_error (c : sconn hstate) s e : sc_strms (fst (write_error c s e)) = sc_strms c. Proof. sc_unf. Qed.
Lemma sc_gone_write_error (c : sconn hstate) s e : sc_gone (fst (write_error c s e)) = sc_gone c. Proof. sc_unf. Qed.
Lemma sc_open_write_error (c : sconn hstate) s e : sc_open (fst (write_error c s e)) = sc_open c. Proof. sc_unf. Qed.
Lemma sc_initWin_write_error (c : sconn hstate) s e : sc_initWin (fst (write_error c s e)) = sc_initWin c. Proof. sc_unf. Qed.
Lemma sc_ring_write_error (c : sconn hstate) s e : sc_ring (fst (write_error c s e)) = sc_ring c. Proof. sc_unf. Qed.
Lemma sc_oldest_write_error (c : sconn hstate) s e : sc_oldest (fst (write_error c s e)) = sc_oldest c. Proof. sc_unf. Qed.
Lemma sc_lastID_write_error (c : sconn hstate) s e : sc_lastID (fst (write_error c s e)) = sc_lastID c. Proof. sc_unf. Qed.
Lemma sc_highestID_write_error (c : sconn hstate) s e : sc_highestID (fst (write_error c s e)) = sc_highestID c. Proof. sc_unf. Qed.
Lemma sc_clientWindow_write_error (c : sconn hstate) s e : sc_clientWindow (fst (write_error c s e)) = sc_clientWindow c. Proof. sc_unf. Qed.
Lemma sc_currentWindow_write_error (c : sconn hstate) s e : sc_currentWindow (fst (write_error c s e)) = sc_currentWindow c. Proof. sc_unf. Qed.
Lemma sc_enc_write_error (c : sconn hstate) s e : sc_enc (fst (write_error c s e)) = sc_enc c. Proof. sc_unf. Qed.
Lemma sc_dec_write_error (c : sconn hstate) s e : sc_dec (fst (write_error c s e)) = sc_dec c. Proof. sc_unf. Qed.
Lemma sc_expectCont_write_error (c : sconn hstate) s e : sc_expectCont (fst (write_error c s e)) = sc_expectCont c. Proof. sc_unf. Qed.
Lemma sc_readerQ_write_error (c : sconn hstate) s e : sc_readerQ (fst (write_error c s e)) = sc_readerQ c. Proof. sc_unf. Qed.
Lemma sc_rl_done_write_error (c : sconn hstate) s e : sc_rl_done (fst (write_error c s e)) = sc_rl_done c. Proof. sc_unf. Qed.
Lemma sc_sl_done_write_error (c : sconn hstate) s e : sc_sl_done (fst (write_error c s e)) = sc_sl_done c. Proof. sc_unf. Qed.
Lemma sc_closer_write_error (c : sconn hstate) s e : sc_closer (fst (write_error c s e)) = sc_closer c. Proof. sc_unf. Qed.
Lemma sc_wl_dead_write_error (c : sconn hstate) s e : sc_wl_dead (fst (write_error c s e)) = sc_wl_dead c. Proof. sc_unf. Qed.
Lemma sc_now_write_error (c : sconn hstate) s e : sc_now (fst (write_error c s e)) = sc_now c. Proof. sc_unf. Qed.
Lemma sc_discardID_write_error (c : sconn hstate) s e : sc_discardID (fst (write_error c s e)) = sc_discardID c. Proof. sc_unf. Qed.
Lemma sc_discardPrev_write_error (c : sconn hstate) s e : sc_discardPrev (fst (write_error c s e)) = sc_discardPrev c. Proof. sc_unf. Qed.
Lemma sc_discardFields_write_error (c : sconn hstate) s e : sc_discardFields (fst (write_error c s e)) = sc_discardFields c. Proof. sc_unf. Qed.
Lemma sc_strms_mark_closed (c : sconn hstate) id w : sc_strms (mark_closed c id w) = sc_strms c. Proof. sc_unf. Qed.
Lemma sc_gone_mark_closed (c : sconn hstate) id w : sc_gone (mark_closed c id w) = sc_gone c. Proof. sc_unf. Qed.
Lemma sc_open_mark_closed (c : sconn hstate) id w : sc_open (mark_closed c id w) = sc_open c. Proof. sc_unf. Qed.
Lemma sc_initWin_mark_closed (c : sconn hstate) id w : sc_initWin (mark_closed c id w) = sc_initWin c. Proof. sc_unf. Qed.
Lemma sc_lastID_mark_closed (c : sconn hstate) id w : sc_lastID (mark_closed c id w) = sc_lastID c. Proof. sc_unf. Qed.
Lemma sc_highestID_mark_closed (c : sconn hstate) id w : sc_highestID (mark_closed c id w) = sc_highestID c. Proof. sc_unf. Qed.
Lemma sc_clientWindow_mark_closed (c : sconn hstate) id w : sc_clientWindow (mark_closed c id w) = sc_clientWindow c. Proof. sc_unf. Qed.
Lemma sc_currentWindow_mark_closed (c : sconn hstate) id w : sc_currentWindow (mark_closed c id w) = sc_currentWindow c. Proof. sc_unf. Qed.
Lemma sc_enc_mark_closed (c : sconn hstate) id w : sc_enc (mark_closed c id w) = sc_enc c. Proof. sc_unf. Qed.
Lemma sc_dec_mark_closed (c : sconn hstate) id w : sc_dec (mark_closed c id w) = sc_dec c. Proof. sc_unf. Qed.
Lemma sc_closing_mark_closed (c : sconn hstate) id w : sc_closing (mark_closed c id w) = sc_closing c. Proof. sc_unf. Qed.
Lemma sc_closeRef_mark_closed (c : sconn hstate) id w : sc_closeRef (mark_closed c id w) = sc_closeRef c. Proof. sc_unf. Qed.
Lemma sc_expectCont_mark_closed (c : sconn hstate) id w : sc_expectCont (mark_closed c id w) = sc_expectCont c. Proof. sc_unf. Qed.
Lemma sc_readerQ_mark_closed (c : sconn hstate) id w : sc_readerQ (mark_closed c id w) = sc_readerQ c. Proof. sc_unf. Qed.
Lemma sc_rl_done_mark_closed (c : sconn hstate) id w : sc_rl_done (mark_closed c id w) = sc_rl_done c. Proof. sc_unf. Qed.
Lemma sc_sl_done_mark_closed (c : sconn hstate) id w : sc_sl_done (mark_closed c id w) = sc_sl_done c. Proof. sc_unf. Qed.
Lemma sc_closer_mark_closed (c : sconn hstate) id w : sc_closer (mark_closed c id w) = sc_closer c. Proof. sc_unf. Qed.
Lemma sc_wl_dead_mark_closed (c : sconn hstate) id w : sc_wl_dead (mark_closed c id w) = sc_wl_dead c. Proof. sc_unf. Qed.
Lemma sc_now_mark_closed (c : sconn hstate) id w : sc_now (mark_closed c id w) = sc_now c. Proof. sc_unf. Qed.
Lemma sc_discardID_mark_closed (c : sconn hstate) id w : sc_discardID (mark_closed c id w) = sc_discardID c. Proof. sc_unf. Qed.
Lemma sc_discardPrev_mark_closed (c : sconn hstate) id w : sc_discardPrev (mark_closed c id w) = sc_discardPrev c. Proof. sc_unf. Qed.
Lemma sc_discardFields_mark_closed (c : sconn hstate) id w : sc_discardFields (mark_closed c id w) = sc_discardFields c. Proof. sc_unf. Qed.
Lemma sc_out_mark_closed (c : sconn hstate) id w : sc_out (mark_closed c id w) = sc_out c. Proof. sc_unf. Qed.
Lemma sc_strms_release_stream (c : sconn hstate) s : sc_strms (release_stream c s) = sc_strms c. Proof. sc_unf. Qed.
Lemma sc_gone_release_stream (c : sconn hstate) s : sc_gone (release_stream c s) = sc_gone c. Proof. sc_unf. Qed.
Lemma sc_initWin_release_stream (c : sconn hstate) s : sc_initWin (release_stream c s) = sc_initWin c. Proof. sc_unf. Qed.
Lemma sc_ring_release_stream (c : sconn hstate) s : sc_ring (release_stream c s) = sc_ring c. Proof. sc_unf. Qed.
Lemma sc_oldest_release_stream (c : sconn hstate) s : sc_oldest (release_stream c s) = sc_oldest c. Proof. sc_unf. Qed.
Lemma sc_lastID_release_stream (c : sconn hstate) s : sc_lastID (release_stream c s) = sc_lastID c. Proof. sc_unf. Qed.
Lemma sc_highestID_release_stream (c : sconn hstate) s : sc_highestID (release_stream c s) = sc_highestID c. Proof. sc_unf. Qed.
Lemma sc_clientWindow_release_stream (c : sconn hstate) s : sc_clientWindow (release_stream c s) = sc_clientWindow c. Proof. sc_unf. Qed.
Lemma sc_currentWindow_release_stream (c : sconn hstate) s : sc_currentWindow (release_stream c s) = sc_currentWindow c. Proof. sc_unf. Qed.
Lemma sc_enc_release_stream (c : sconn hstate) s : sc_enc (release_stream c s) = sc_enc c. Proof. sc_unf. Qed.
Lemma sc_dec_release_stream (c : sconn hstate) s : sc_dec (release_stream c s) = sc_dec c. Proof. sc_unf. Qed.
Lemma sc_closing_release_stream (c : sconn hstate) s : sc_closing (release_stream c s) = sc_closing c. Proof. sc_unf. Qed.
Lemma sc_closeRef_release_stream (c : sconn hstate) s : sc_closeRef (release_stream c s) = sc_closeRef c. Proof. sc_unf. Qed.
Lemma sc_expectCont_release_stream (c : sconn hstate) s : sc_expectCont (release_stream c s) = sc_expectCont c. Proof. sc_unf. Qed.
Lemma sc_readerQ_release_stream (c : sconn hstate) s : sc_readerQ (release_stream c s) = sc_readerQ c. Proof. sc_unf. Qed.
Lemma sc_rl_done_release_stream (c : sconn hstate) s : sc_rl_done (release_stream c s) = sc_rl_done c. Proof. sc_unf. Qed.
Lemma sc_sl_done_release_stream (c : sconn hstate) s : sc_sl_done (release_stream c s) = sc_sl_done c. Proof. sc_unf. Qed.
Lemma sc_closer_release_stream (c : sconn hstate) s : sc_closer (release_stream c s) = sc_closer c. Proof. sc_unf. Qed.
Lemma sc_wl_dead_release_stream (c : sconn hstate) s : sc_wl_dead (release_stream c s) = sc_wl_dead c. Proof. sc_unf. Qed.
Lemma sc_now_release_stream (c : sconn hstate) s : sc_now (release_stream c s) = sc_now c. Proof. sc_unf. Qed.
Lemma sc_discardID_release_stream (c : sconn hstate) s : sc_discardID (release_stream c s) = sc_discardID c. Proof. sc_unf. Qed.
Lemma sc_discardPrev_release_stream (c : sconn hstate) s : sc_discardPrev (release_stream c s) = sc_discardPrev c. Proof. sc_unf. Qed.
Lemma sc_discardFields_release_stream (c : sconn hstate) s : sc_discardFields (release_stream c s) = sc_discardFields c. Proof. sc_unf. Qed.
Lemma sc_initWin_close_stream (c : sconn hstate) s : sc_initWin (close_stream c s) = sc_initWin c. Proof. sc_unf. Qed.
Lemma sc_lastID_close_stream (c : sconn hstate) s : sc_lastID (close_stream c s) = sc_lastID c. Proof. sc_unf. Qed.
Lemma sc_highestID_close_stream (c : sconn hstate) s : sc_highestID (close_stream c s) = sc_highestID c. Proof. sc_unf. Qed.
Lemma sc_clientWindow_close_stream (c : sconn hstate) s : sc_clientWindow (close_stream c s) = sc_clientWindow c. Proof. sc_unf. Qed.
Lemma sc_currentWindow_close_stream (c : sconn hstate) s : sc_currentWindow (close_stream c s) = sc_currentWindow c. Proof. sc_unf. Qed.
Lemma sc_enc_close_stream (c : sconn hstate) s : sc_enc (close_stream c s) = sc_enc c. Proof. sc_unf. Qed.
Lemma sc_dec_close_stream (c : sconn hstate) s : sc_dec (close_stream c s) = sc_dec c. Proof. sc_unf. Qed.
Lemma sc_closing_close_stream (c : sconn hstate) s : sc_closing (close_stream c s) = sc_closing c. Proof. sc_unf. Qed.
Lemma sc_closeRef_close_stream (c : sconn hstate) s : sc_closeRef (close_stream c s) = sc_closeRef c. Proof. sc_unf. Qed.
Lemma sc_expectCont_close_stream (c : sconn hstate) s : sc_expectCont (close_stream c s) = sc_expectCont c. Proof. sc_unf. Qed.
Lemma sc_readerQ_close_stream (c : sconn hstate) s : sc_readerQ (close_stream c s) = sc_readerQ c. Proof. sc_unf. Qed.
Lemma sc_rl_done_close_stream (c : sconn hstate) s : sc_rl_done (close_stream c s) = sc_rl_done c. Proof. sc_unf. Qed.
Lemma sc_sl_done_close_stream (c : sconn hstate) s : sc_sl_done (close_stream c s) = sc_sl_done c. Proof. sc_unf. Qed.
Lemma sc_closer_close_stream (c : sconn hstate) s : sc_closer (close_stream c s) = sc_closer c. Proof. sc_unf. Qed.
Lemma sc_wl_dead_close_stream (c : sconn hstate) s : sc_wl_dead (close_stream c s) = sc_wl_dead c. Proof. sc_unf. Qed.
Lemma sc_now_close_stream (c : sconn hstate) s : sc_now (close_stream c s) = sc_now c. Proof. sc_unf. Qed.
Lemma sc_gone_put (c : sconn hstate) x : sc_gone (put c x) = sc_gone c. Proof. sc_unf. Qed.
Lemma sc_open_put (c : sconn hstate) x : sc_open (put c x) = sc_open c. Proof. sc_unf. Qed.
Lemma sc_initWin_put (c : sconn hstate) x : sc_initWin (put c x) = sc_initWin c. Proof. sc_unf. Qed.
Lemma sc_ring_put (c : sconn hstate) x : sc_ring (put c x) = sc_ring c. Proof. sc_unf. Qed.
Lemma sc_oldest_put (c : sconn hstate) x : sc_oldest (put c x) = sc_oldest c. Proof. sc_unf. Qed.
Lemma sc_lastID_put (c : sconn hstate) x : sc_lastID (put c x) = sc_lastID c. Proof. sc_unf. Qed.
Lemma sc_highestID_put (c : sconn hstate) x : sc_highestID (put c x) = sc_highestID c. Proof. sc_unf. Qed.
Lemma sc_clientWindow_put (c : sconn hstate) x : sc_clientWindow (put c x) = sc_clientWindow c. Proof. sc_unf. Qed.
Lemma sc_currentWindow_put (c : sconn hstate) x : sc_currentWindow (put c x) = sc_currentWindow c. Proof. sc_unf. Qed.
Lemma sc_enc_put (c : sconn hstate) x : sc_enc (put c x) = sc_enc c. Proof. sc_unf. Qed.
Lemma sc_dec_put (c : sconn hstate) x : sc_dec (put c x) = sc_dec c. Proof. sc_unf. Qed.
Lemma sc_closing_put (c : sconn hstate) x : sc_closing (put c x) = sc_closing c. Proof. sc_unf. Qed.
Lemma sc_closeRef_put (c : sconn hstate) x : sc_closeRef (put c x) = sc_closeRef c. Proof. sc_unf. Qed.
Lemma sc_expectCont_put (c : sconn hstate) x : sc_expectCont (put c x) = sc_expectCont c. Proof. sc_unf. Qed.
Lemma sc_readerQ_put (c : sconn hstate) x : sc_readerQ (put c x) = sc_readerQ c. Proof. sc_unf. Qed.
Lemma sc_rl_done_put (c : sconn hstate) x : sc_rl_done (put c x) = sc_rl_done c. Proof. sc_unf. Qed.
Lemma sc_sl_done_put (c : sconn hstate) x : sc_sl_done (put c x) = sc_sl_done c. Proof. sc_unf. Qed.
Lemma sc_closer_put (c : sconn hstate) x : sc_closer (put c x) = sc_closer c. Proof. sc_unf. Qed.
Lemma sc_wl_dead_put (c : sconn hstate) x : sc_wl_dead (put c x) = sc_wl_dead c. Proof. sc_unf. Qed.
Lemma sc_now_put (c : sconn hstate) x : sc_now (put c x) = sc_now c. Proof. sc_unf. Qed.
Lemma sc_discardID_put (c : sconn hstate) x : sc_discardID (put c x) = sc_discardID c. Proof. sc_unf. Qed.
Lemma sc_discardPrev_put (c : sconn hstate) x : sc_discardPrev (put c x) = sc_discardPrev c. Proof. sc_unf. Qed.
Lemma sc_discardFields_put (c : sconn hstate) x : sc_discardFields (put c x) = sc_discardFields c. Proof. sc_unf. Qed.
Lemma sc_out_put (c : sconn hstate) x : sc_out (put c x) = sc_out c. Proof. sc_unf. Qed.
Lemma sc_strms_credit_conn_window (c : sconn hstate) cfg n : sc_strms (credit_conn_window cfg c n) = sc_strms c. Proof. sc_unf. Qed.
Lemma sc_gone_credit_conn_window (c : sconn hstate) cfg n : sc_gone (credit_conn_window cfg c n) = sc_gone c. Proof. sc_unf. Qed.
Lemma sc_open_credit_conn_window (c : sconn hstate) cfg n : sc_open (credit_conn_window cfg c n) = sc_open c. Proof. sc_unf. Qed.
Lemma sc_initWin_credit_conn_window (c : sconn hstate) cfg n : sc_initWin (credit_conn_window cfg c n) = sc_initWin c. Proof. sc_unf. Qed.
Lemma sc_ring_credit_conn_window (c : sconn hstate) cfg n : sc_ring (credit_conn_window cfg c n) = sc_ring c. Proof. sc_unf. Qed.
Lemma sc_oldest_credit_conn_window (c : sconn hstate) cfg n : sc_oldest (credit_conn_window cfg c n) = sc_oldest c. Proof. sc_unf. Qed.
Lemma sc_lastID_credit_conn_window (c : sconn hstate) cfg n : sc_lastID (credit_conn_window cfg c n) = sc_lastID c. Proof. sc_unf. Qed.
Lemma sc_highestID_credit_conn_window (c : sconn hstate) cfg n : sc_highestID (credit_conn_window cfg c n) = sc_highestID c. Proof. sc_unf. Qed.
Lemma sc_clientWindow_credit_conn_window (c : sconn hstate) cfg n : sc_clientWindow (credit_conn_window cfg c n) = sc_clientWindow c. Proof. sc_unf. Qed.
Lemma sc_enc_credit_conn_window (c : sconn hstate) cfg n : sc_enc (credit_conn_window cfg c n) = sc_enc c. Proof. sc_unf. Qed.
Lemma sc_dec_credit_conn_window (c : sconn hstate) cfg n : sc_dec (credit_conn_window cfg c n) = sc_dec c. Proof. sc_unf. Qed.
Lemma sc_closing_credit_conn_window (c : sconn hstate) cfg n : sc_closing (credit_conn_window cfg c n) = sc_closing c. Proof. sc_unf. Qed.
Lemma sc_closeRef_credit_conn_window (c : sconn hstate) cfg n : sc_closeRef (credit_conn_window cfg c n) = sc_closeRef c. Proof. sc_unf. Qed.
Lemma sc_expectCont_credit_conn_window (c : sconn hstate) cfg n : sc_expectCont (credit_conn_window cfg c n) = sc_expectCont c. Proof. sc_unf. Qed.
Lemma sc_readerQ_credit_conn_window (c : sconn hstate) cfg n : sc_readerQ (credit_conn_window cfg c n) = sc_readerQ c. Proof. sc_unf. Qed.
Lemma sc_rl_done_credit_conn_window (c : sconn hstate) cfg n : sc_rl_done (credit_conn_window cfg c n) = sc_rl_done c. Proof. sc_unf. Qed.
Lemma sc_sl_done_credit_conn_window (c : sconn hstate) cfg n : sc_sl_done (credit_conn_window cfg c n) = sc_sl_done c. Proof. sc_unf. Qed.
Lemma sc_closer_credit_conn_window (c : sconn hstate) cfg n : sc_closer (credit_conn_window cfg c n) = sc_closer c. Proof. sc_unf. Qed.
Lemma sc_wl_dead_credit_conn_window (c : sconn hstate) cfg n : sc_wl_dead (credit_conn_window cfg c n) = sc_wl_dead c. Proof. sc_unf. Qed.
Lemma sc_now_credit_conn_window (c : sconn hstate) cfg n : sc_now (credit_conn_window cfg c n) = sc_now c. Proof. sc_unf. Qed.
Lemma sc_discardID_credit_conn_window (c : sconn hstate) cfg n : sc_discardID (credit_conn_window cfg c n) = sc_discardID c. Proof. sc_unf. Qed.
Lemma sc_discardPrev_credit_conn_window (c : sconn hstate) cfg n : sc_discardPrev (credit_conn_window cfg c n) = sc_discardPrev c. Proof. sc_unf. Qed.
Lemma sc_discardFields_credit_conn_window (c : sconn hstate) cfg n : sc_discardFields (credit_conn_window cfg c n) = sc_discardFields c. Proof. sc_unf. Qed.
Lemma sc_strms_consume_recv_window (c : sconn hstate) cfg s fr n : sc_strms (consume_recv_window cfg c s fr n) = sc_strms c. Proof. sc_unf. Qed.
Lemma sc_gone_consume_recv_window (c : sconn hstate) cfg s fr n : sc_gone (consume_recv_window cfg c s fr n) = sc_gone c. Proof. sc_unf. Qed.
Lemma sc_open_consume_recv_window (c : sconn hstate) cfg s fr n : sc_open (consume_recv_window cfg c s fr n) = sc_open c. Proof. sc_unf. Qed.
Lemma sc_initWin_consume_recv_window (c : sconn hstate) cfg s fr n : sc_initWin (consume_recv_window cfg c s fr n) = sc_initWin c. Proof. sc_unf. Qed.
Lemma sc_ring_consume_recv_window (c : sconn hstate) cfg s fr n : sc_ring (consume_recv_window cfg c s fr n) = sc_ring c. Proof. sc_unf. Qed.
Lemma sc_oldest_consume_recv_window (c : sconn hstate) cfg s fr n : sc_oldest (consume_recv_window cfg c s fr n) = sc_oldest c. Proof. sc_unf. Qed.
Lemma sc_lastID_consume_recv_window (c : sconn hstate) cfg s fr n : sc_lastID (consume_recv_window cfg c s fr n) = sc_lastID c. Proof. sc_unf. Qed.
Lemma sc_highestID_consume_recv_window (c : sconn hstate) cfg s fr n : sc_highestID (consume_recv_window cfg c s fr n) = sc_highestID c. Proof. sc_unf. Qed.
Lemma sc_clientWindow_consume_recv_window (c : sconn hstate) cfg s fr n : sc_clientWindow (consume_recv_window cfg c s fr n) = sc_clientWindow c. Proof. sc_unf. Qed.
Lemma sc_enc_consume_recv_window (c : sconn hstate) cfg s fr n : sc_enc (consume_recv_window cfg c s fr n) = sc_enc c. Proof. sc_unf. Qed.
Lemma sc_dec_consume_recv_window (c : sconn hstate) cfg s fr n : sc_dec (consume_recv_window cfg c s fr n) = sc_dec c. Proof. sc_unf. Qed.
Lemma sc_closing_consume_recv_window (c : sconn hstate) cfg s fr n : sc_closing (consume_recv_window cfg c s fr n) = sc_closing c. Proof. sc_unf. Qed.
Lemma sc_closeRef_consume_recv_window (c : sconn hstate) cfg s fr n : sc_closeRef (consume_recv_window cfg c s fr n) = sc_closeRef c. Proof. sc_unf. Qed.
Lemma sc_expectCont_consume_recv_window (c : sconn hstate) cfg s fr n : sc_expectCont (consume_recv_window cfg c s fr n) = sc_expectCont c. Proof. sc_unf. Qed.
Lemma sc_readerQ_consume_recv_window (c : sconn hstate) cfg s fr n : sc_readerQ (consume_recv_window cfg c s fr n) = sc_readerQ c. Proof. sc_unf. Qed.
Lemma sc_rl_done_consume_recv_window (c : sconn hstate) cfg s fr n : sc_rl_done (consume_recv_window cfg c s fr n) = sc_rl_done c. Proof. sc_unf. Qed.
Lemma sc_sl_done_consume_recv_window (c : sconn hstate) cfg s fr n : sc_sl_done (consume_recv_window cfg c s fr n) = sc_sl_done c. Proof. sc_unf. Qed.
Lemma sc_closer_consume_recv_window (c : sconn hstate) cfg s fr n : sc_closer (consume_recv_window cfg c s fr n) = sc_closer c. Proof. sc_unf. Qed.
Lemma sc_wl_dead_consume_recv_window (c : sconn hstate) cfg s fr n : sc_wl_dead (consume_recv_window cfg c s fr n) = sc_wl_dead c. Proof. sc_unf. Qed.
Lemma sc_now_consume_recv_window (c : sconn hstate) cfg s fr n : sc_now (consume_recv_window cfg c s fr n) = sc_now c. Proof. sc_unf. Qed.
Lemma sc_discardID_consume_recv_window (c : sconn hstate) cfg s fr n : sc_discardID (consume_recv_window cfg c s fr n) = sc_discardID c. Proof. sc_unf. Qed.
Lemma sc_discardPrev_consume_recv_window (c : sconn hstate) cfg s fr n : sc_discardPrev (consume_recv_window cfg c s fr n) = sc_discardPrev c. Proof. sc_unf. Qed.
Lemma sc_discardFields_consume_recv_window (c : sconn hstate) cfg s fr n : sc_discardFields (consume_recv_window cfg c s fr n) = sc_discardFields c. Proof. sc_unf. Qed.
Lemma sc_strms_rl_exit (c : sconn hstate) why : sc_strms (rl_exit c why) = sc_strms c. Proof. sc_unf. Qed.
Lemma sc_gone_rl_exit (c : sconn hstate) why : sc_gone (rl_exit c why) = sc_gone c. Proof. sc_unf. Qed.
Lemma sc_open_rl_exit (c : sconn hstate) why : sc_open (rl_exit c why) = sc_open c. Proof. sc_unf. Qed.
Lemma sc_initWin_rl_exit (c : sconn hstate) why : sc_initWin (rl_exit c why) = sc_initWin c. Proof. sc_unf. Qed.
Lemma sc_ring_rl_exit (c : sconn hstate) why : sc_ring (rl_exit c why) = sc_ring c. Proof. sc_unf. Qed.
Lemma sc_oldest_rl_exit (c : sconn hstate) why : sc_oldest (rl_exit c why) = sc_oldest c. Proof. sc_unf. Qed.
Lemma sc_lastID_rl_exit (c : sconn hstate) why : sc_lastID (rl_exit c why) = sc_lastID c. Proof. sc_unf. Qed.
Lemma sc_highestID_rl_exit (c : sconn hstate) why : sc_highestID (rl_exit c why) = sc_highestID c. Proof. sc_unf. Qed.
Lemma sc_clientWindow_rl_exit (c : sconn hstate) why : sc_clientWindow (rl_exit c why) = sc_clientWindow c. Proof. sc_unf. Qed.
Lemma sc_currentWindow_rl_exit (c : sconn hstate) why : sc_currentWindow (rl_exit c why) = sc_currentWindow c. Proof. sc_unf. Qed.
Lemma sc_enc_rl_exit (c : sconn hstate) why : sc_enc (rl_exit c why) = sc_enc c. Proof. sc_unf. Qed.
Lemma sc_dec_rl_exit (c : sconn hstate) why : sc_dec (rl_exit c why) = sc_dec c. Proof. sc_unf. Qed.
Lemma sc_closing_rl_exit (c : sconn hstate) why : sc_closing (rl_exit c why) = sc_closing c. Proof. sc_unf. Qed.
Lemma sc_closeRef_rl_exit (c : sconn hstate) why : sc_closeRef (rl_exit c why) = sc_closeRef c. Proof. sc_unf. Qed.
Lemma sc_expectCont_rl_exit (c : sconn hstate) why : sc_expectCont (rl_exit c why) = sc_expectCont c. Proof. sc_unf. Qed.
Lemma sc_readerQ_rl_exit (c : sconn hstate) why : sc_readerQ (rl_exit c why) = sc_readerQ c. Proof. sc_unf. Qed.
Lemma sc_sl_done_rl_exit (c : sconn hstate) why : sc_sl_done (rl_exit c why) = sc_sl_done c. Proof. sc_unf. Qed.
Lemma sc_closer_rl_exit (c : sconn hstate) why : sc_closer (rl_exit c why) = sc_closer c. Proof. sc_unf. Qed.
Lemma sc_wl_dead_rl_exit (c : sconn hstate) why : sc_wl_dead (rl_exit c why) = sc_wl_dead c. Proof. sc_unf. Qed.
Lemma sc_now_rl_exit (c : sconn hstate) why : sc_now (rl_exit c why) = sc_now c. Proof. sc_unf. Qed.
Lemma sc_discardID_rl_exit (c : sconn hstate) why : sc_discardID (rl_exit c why) = sc_discardID c. Proof. sc_unf. Qed.
Lemma sc_discardPrev_rl_exit (c : sconn hstate) why : sc_discardPrev (rl_exit c why) = sc_discardPrev c. Proof. sc_unf. Qed.
Lemma sc_discardFields_rl_exit (c : sconn hstate) why : sc_discardFields (rl_exit c why) = sc_discardFields c. Proof. sc_unf. Qed.
Lemma sc_strms_forward (c : sconn hstate) fr : sc_strms (forward c fr) = sc_strms c. Proof. sc_unf. Qed.
Lemma sc_gone_forward (c : sconn hstate) fr : sc_gone (forward c fr) = sc_gone c. Proof. sc_unf. Qed.
Lemma sc_open_forward (c : sconn hstate) fr : sc_open (forward c fr) = sc_open c. Proof. sc_unf. Qed.
Lemma sc_initWin_forward (c : sconn hstate) fr : sc_initWin (forward c fr) = sc_initWin c. Proof. sc_unf. Qed.
Lemma sc_ring_forward (c : sconn hstate) fr : sc_ring (forward c fr) = sc_ring c. Proof. sc_unf. Qed.
Lemma sc_oldest_forward (c : sconn hstate) fr : sc_oldest (forward c fr) = sc_oldest c. Proof. sc_unf. Qed.
Lemma sc_lastID_forward (c : sconn hstate) fr : sc_lastID (forward c fr) = sc_lastID c. Proof. sc_unf. Qed.
Lemma sc_highestID_forward (c : sconn hstate) fr : sc_highestID (forward c fr) = sc_highestID c. Proof. sc_unf. Qed.
Lemma sc_clientWindow_forward (c : sconn hstate) fr : sc_clientWindow (forward c fr) = sc_clientWindow c. Proof. sc_unf. Qed.
Lemma sc_currentWindow_forward (c : sconn hstate) fr : sc_currentWindow (forward c fr) = sc_currentWindow c. Proof. sc_unf. Qed.
Lemma sc_enc_forward (c : sconn hstate) fr : sc_enc (forward c fr) = sc_enc c. Proof. sc_unf. Qed.
Lemma sc_dec_forward (c : sconn hstate) fr : sc_dec (forward c fr) = sc_dec c. Proof. sc_unf. Qed.
Lemma sc_closing_forward (c : sconn hstate) fr : sc_closing (forward c fr) = sc_closing c. Proof. sc_unf. Qed.
Lemma sc_closeRef_forward (c : sconn hstate) fr : sc_closeRef (forward c fr) = sc_closeRef c. Proof. sc_unf. Qed.
Lemma sc_expectCont_forward (c : sconn hstate) fr : sc_expectCont (forward c fr) = sc_expectCont c. Proof. sc_unf. Qed.
Lemma sc_sl_done_forward (c : sconn hstate) fr : sc_sl_done (forward c fr) = sc_sl_done c. Proof. sc_unf. Qed.
Lemma sc_closer_forward (c : sconn hstate) fr : sc_closer (forward c fr) = sc_closer c. Proof. sc_unf. Qed.
Lemma sc_wl_dead_forward (c : sconn hstate) fr : sc_wl_dead (forward c fr) = sc_wl_dead c. Proof. sc_unf. Qed.
Lemma sc_now_forward (c : sconn hstate) fr : sc_now (forward c fr) = sc_now c. Proof. sc_unf. Qed.
Lemma sc_discardID_forward (c : sconn hstate) fr : sc_discardID (forward c fr) = sc_discardID c. Proof. sc_unf. Qed.
Lemma sc_discardPrev_forward (c : sconn hstate) fr : sc_discardPrev (forward c fr) = sc_discardPrev c. Proof. sc_unf. Qed.
Lemma sc_discardFields_forward (c : sconn hstate) fr : sc_discardFields (forward c fr) = sc_discardFields c. Proof. sc_unf. Qed.
Lemma sc_strms_brk (c : sconn hstate)  : sc_strms (fst (brk c)) = sc_strms c. Proof. sc_unf. Qed.
Lemma sc_gone_brk (c : sconn hstate)  : sc_gone (fst (brk c)) = sc_gone c. Proof. sc_unf. Qed.
Lemma sc_open_brk (c : sconn hstate)  : sc_open (fst (brk c)) = sc_open c. Proof. sc_unf. Qed.
Lemma sc_initWin_brk (c : sconn hstate)  : sc_initWin (fst (brk c)) = sc_initWin c. Proof. sc_unf. Qed.
Lemma sc_ring_brk (c : sconn hstate)  : sc_ring (fst (brk c)) = sc_ring c. Proof. sc_unf. Qed.
Lemma sc_oldest_brk (c : sconn hstate)  : sc_oldest (fst (brk c)) = sc_oldest c. Proof. sc_unf. Qed.
Lemma sc_lastID_brk (c : sconn hstate)  : sc_lastID (fst (brk c)) = sc_lastID c. Proof. sc_unf. Qed.
Lemma sc_highestID_brk (c : sconn hstate)  : sc_highestID (fst (brk c)) = sc_highestID c. Proof. sc_unf. Qed.
Lemma sc_clientWindow_brk (c : sconn hstate)  : sc_clientWindow (fst (brk c)) = sc_clientWindow c. Proof. sc_unf. Qed.
Lemma sc_currentWindow_brk (c : sconn hstate)  : sc_currentWindow (fst (brk c)) = sc_currentWindow c. Proof. sc_unf. Qed.
Lemma sc_enc_brk (c : sconn hstate)  : sc_enc (fst (brk c)) = sc_enc c. Proof. sc_unf. Qed.
Lemma sc_dec_brk (c : sconn hstate)  : sc_dec (fst (brk c)) = sc_dec c. Proof. sc_unf. Qed.
Lemma sc_closing_brk (c : sconn hstate)  : sc_closing (fst (brk c)) = sc_closing c. Proof. sc_unf. Qed.
Lemma sc_closeRef_brk (c : sconn hstate)  : sc_closeRef (fst (brk c)) = sc_closeRef c. Proof. sc_unf. Qed.
Lemma sc_expectCont_brk (c : sconn hstate)  : sc_expectCont (fst (brk c)) = sc_expectCont c. Proof. sc_unf. Qed.
Lemma sc_readerQ_brk (c : sconn hstate)  : sc_readerQ (fst (brk c)) = sc_readerQ c. Proof. sc_unf. Qed.
Lemma sc_rl_done_brk (c : sconn hstate)  : sc_rl_done (fst (brk c)) = sc_rl_done c. Proof. sc_unf. Qed.
Lemma sc_closer_brk (c : sconn hstate)  : sc_closer (fst (brk c)) = sc_closer c. Proof. sc_unf. Qed.
Lemma sc_wl_dead_brk (c : sconn hstate)  : sc_wl_dead (fst (brk c)) = sc_wl_dead c. Proof. sc_unf. Qed.
Lemma sc_now_brk (c : sconn hstate)  : sc_now (fst (brk c)) = sc_now c. Proof. sc_unf. Qed.
Lemma sc_discardID_brk (c : sconn hstate)  : sc_discardID (fst (brk c)) = sc_discardID c. Proof. sc_unf. Qed.
Lemma sc_discardPrev_brk (c : sconn hstate)  : sc_discardPrev (fst (brk c)) = sc_discardPrev c. Proof. sc_unf. Qed.
Lemma sc_discardFields_brk (c : sconn hstate)  : sc_discardFields (fst (brk c)) = sc_discardFields c. Proof. sc_unf. Qed.
End Proj.

#[export] Hint Rewrite @sc_strms_upd_out @sc_gone_upd_out @sc_open_upd_out @sc_initWin_upd_out @sc_ring_upd_out @sc_oldest_upd_out @sc_lastID_upd_out @sc_highestID_upd_out : sc.
#[export] Hint Rewrite @sc_clientWindow_upd_out @sc_currentWindow_upd_out @sc_enc_upd_out @sc_dec_upd_out @sc_closing_upd_out @sc_closeRef_upd_out @sc_expectCont_upd_out @sc_readerQ_upd_out : sc.
#[export] Hint Rewrite @sc_rl_done_upd_out @sc_sl_done_upd_out @sc_closer_upd_out @sc_wl_dead_upd_out @sc_now_upd_out @sc_discardID_upd_out @sc_discardPrev_upd_out @sc_discardFields_upd_out : sc.
#[export] Hint Rewrite @sc_out_upd_out @sc_strms_upd_strms @sc_gone_upd_strms @sc_open_upd_strms @sc_initWin_upd_strms @sc_ring_upd_strms @sc_oldest_upd_strms @sc_lastID_upd_strms : sc.
#[export] Hint Rewrite @sc_highestID_upd_strms @sc_clientWindow_upd_strms @sc_currentWindow_upd_strms @sc_enc_upd_strms @sc_dec_upd_strms @sc_closing_upd_strms @sc_closeRef_upd_strms @sc_expectCont_upd_strms : sc.
#[export] Hint Rewrite @sc_readerQ_upd_strms @sc_rl_done_upd_strms @sc_sl_done_upd_strms @sc_closer_upd_strms @sc_wl_dead_upd_strms @sc_now_upd_strms @sc_discardID_upd_strms @sc_discardPrev_upd_strms : sc.
#[export] Hint Rewrite @sc_discardFields_upd_strms @sc_out_upd_strms @sc_strms_upd_gone @sc_gone_upd_gone @sc_open_upd_gone @sc_initWin_upd_gone @sc_ring_upd_gone @sc_oldest_upd_gone : sc.
#[export] Hint Rewrite @sc_lastID_upd_gone @sc_highestID_upd_gone @sc_clientWindow_upd_gone @sc_currentWindow_upd_gone @sc_enc_upd_gone @sc_dec_upd_gone @sc_closing_upd_gone @sc_closeRef_upd_gone : sc.
#[export] Hint Rewrite @sc_expectCont_upd_gone @sc_readerQ_upd_gone @sc_rl_done_upd_gone @sc_sl_done_upd_gone @sc_closer_upd_gone @sc_wl_dead_upd_gone @sc_now_upd_gone @sc_discardID_upd_gone : sc.
#[export] Hint Rewrite @sc_discardPrev_upd_gone @sc_discardFields_upd_gone @sc_out_upd_gone @sc_strms_upd_open @sc_gone_upd_open @sc_open_upd_open @sc_initWin_upd_open @sc_ring_upd_open : sc.
#[export] Hint Rewrite @sc_oldest_upd_open @sc_lastID_upd_open @sc_highestID_upd_open @sc_clientWindow_upd_open @sc_currentWindow_upd_open @sc_enc_upd_open @sc_dec_upd_open @sc_closing_upd_open : sc.
#[export] Hint Rewrite @sc_closeRef_upd_open @sc_expectCont_upd_open @sc_readerQ_upd_open @sc_rl_done_upd_open @sc_sl_done_upd_open @sc_closer_upd_open @sc_wl_dead_upd_open @sc_now_upd_open : sc.
#[export] Hint Rewrite @sc_discardID_upd_open @sc_discardPrev_upd_open @sc_discardFields_upd_open @sc_out_upd_open @sc_strms_upd_initWin @sc_gone_upd_initWin @sc_open_upd_initWin @sc_initWin_upd_initWin : sc.
#[export] Hint Rewrite @sc_ring_upd_initWin @sc_oldest_upd_initWin @sc_lastID_upd_initWin @sc_highestID_upd_initWin @sc_clientWindow_upd_initWin @sc_currentWindow_upd_initWin @sc_enc_upd_initWin @sc_dec_upd_initWin : sc.
#[export] Hint Rewrite @sc_closing_upd_initWin @sc_closeRef_upd_initWin @sc_expectCont_upd_initWin @sc_readerQ_upd_initWin @sc_rl_done_upd_initWin @sc_sl_done_upd_initWin @sc_closer_upd_initWin @sc_wl_dead_upd_initWin : sc.
#[export] Hint Rewrite @sc_now_upd_initWin @sc_discardID_upd_initWin @sc_discardPrev_upd_initWin @sc_discardFields_upd_initWin @sc_out_upd_initWin @sc_strms_upd_ring @sc_gone_upd_ring @sc_open_upd_ring : sc.
#[export] Hint Rewrite @sc_initWin_upd_ring @sc_ring_upd_ring @sc_oldest_upd_ring @sc_lastID_upd_ring @sc_highestID_upd_ring @sc_clientWindow_upd_ring @sc_currentWindow_upd_ring @sc_enc_upd_ring : sc.
#[export] Hint Rewrite @sc_dec_upd_ring @sc_closing_upd_ring @sc_closeRef_upd_ring @sc_expectCont_upd_ring @sc_readerQ_upd_ring @sc_rl_done_upd_ring @sc_sl_done_upd_ring @sc_closer_upd_ring : sc.
#[export] Hint Rewrite @sc_wl_dead_upd_ring @sc_now_upd_ring @sc_discardID_upd_ring @sc_discardPrev_upd_ring @sc_discardFields_upd_ring @sc_out_upd_ring @sc_strms_upd_lastID @sc_gone_upd_lastID : sc.
#[export] Hint Rewrite @sc_open_upd_lastID @sc_initWin_upd_lastID @sc_ring_upd_lastID @sc_oldest_upd_lastID @sc_lastID_upd_lastID @sc_highestID_upd_lastID @sc_clientWindow_upd_lastID @sc_currentWindow_upd_lastID : sc.
#[export] Hint Rewrite @sc_enc_upd_lastID @sc_dec_upd_lastID @sc_closing_upd_lastID @sc_closeRef_upd_lastID @sc_expectCont_upd_lastID @sc_readerQ_upd_lastID @sc_rl_done_upd_lastID @sc_sl_done_upd_lastID : sc.
#[export] Hint Rewrite @sc_closer_upd_lastID @sc_wl_dead_upd_lastID @sc_now_upd_lastID @sc_discardID_upd_lastID @sc_discardPrev_upd_lastID @sc_discardFields_upd_lastID @sc_out_upd_lastID @sc_strms_upd_highestID : sc.
#[export] Hint Rewrite @sc_gone_upd_highestID @sc_open_upd_highestID @sc_initWin_upd_highestID @sc_ring_upd_highestID @sc_oldest_upd_highestID @sc_lastID_upd_highestID @sc_highestID_upd_highestID @sc_clientWindow_upd_highestID : sc.
#[export] Hint Rewrite @sc_currentWindow_upd_highestID @sc_enc_upd_highestID @sc_dec_upd_highestID @sc_closing_upd_highestID @sc_closeRef_upd_highestID @sc_expectCont_upd_highestID @sc_readerQ_upd_highestID @sc_rl_done_upd_highestID : sc.
#[export] Hint Rewrite @sc_sl_done_upd_highestID @sc_closer_upd_highestID @sc_wl_dead_upd_highestID @sc_now_upd_highestID @sc_discardID_upd_highestID @sc_discardPrev_upd_highestID @sc_discardFields_upd_highestID @sc_out_upd_highestID : sc.
#[export] Hint Rewrite @sc_strms_upd_clientWindow @sc_gone_upd_clientWindow @sc_open_upd_clientWindow @sc_initWin_upd_clientWindow @sc_ring_upd_clientWindow @sc_oldest_upd_clientWindow @sc_lastID_upd_clientWindow @sc_highestID_upd_clientWindow : sc.
#[export] Hint Rewrite @sc_clientWindow_upd_clientWindow @sc_currentWindow_upd_clientWindow @sc_enc_upd_clientWindow @sc_dec_upd_clientWindow @sc_closing_upd_clientWindow @sc_closeRef_upd_clientWindow @sc_expectCont_upd_clientWindow @sc_readerQ_upd_clientWindow : sc.
#[export] Hint Rewrite @sc_rl_done_upd_clientWindow @sc_sl_done_upd_clientWindow @sc_closer_upd_clientWindow @sc_wl_dead_upd_clientWindow @sc_now_upd_clientWindow @sc_discardID_upd_clientWindow @sc_discardPrev_upd_clientWindow @sc_discardFields_upd_clientWindow : sc.
#[export] Hint Rewrite @sc_out_upd_clientWindow @sc_strms_upd_currentWindow @sc_gone_upd_currentWindow @sc_open_upd_currentWindow @sc_initWin_upd_currentWindow @sc_ring_upd_currentWindow @sc_oldest_upd_currentWindow @sc_lastID_upd_currentWindow : sc.
#[export] Hint Rewrite @sc_highestID_upd_currentWindow @sc_clientWindow_upd_currentWindow @sc_currentWindow_upd_currentWindow @sc_enc_upd_currentWindow @sc_dec_upd_currentWindow @sc_closing_upd_currentWindow @sc_closeRef_upd_currentWindow @sc_expectCont_upd_currentWindow : sc.
#[export] Hint Rewrite @sc_readerQ_upd_currentWindow @sc_rl_done_upd_currentWindow @sc_sl_done_upd_currentWindow @sc_closer_upd_currentWindow @sc_wl_dead_upd_currentWindow @sc_now_upd_currentWindow @sc_discardID_upd_currentWindow @sc_discardPrev_upd_currentWindow : sc.
#[export] Hint Rewrite @sc_discardFields_upd_currentWindow @sc_out_upd_currentWindow @sc_strms_upd_enc @sc_gone_upd_enc @sc_open_upd_enc @sc_initWin_upd_enc @sc_ring_upd_enc @sc_oldest_upd_enc : sc.
#[export] Hint Rewrite @sc_lastID_upd_enc @sc_highestID_upd_enc @sc_clientWindow_upd_enc @sc_currentWindow_upd_enc @sc_enc_upd_enc @sc_dec_upd_enc @sc_closing_upd_enc @sc_closeRef_upd_enc : sc.
#[export] Hint Rewrite @sc_expectCont_upd_enc @sc_readerQ_upd_enc @sc_rl_done_upd_enc @sc_sl_done_upd_enc @sc_closer_upd_enc @sc_wl_dead_upd_enc @sc_now_upd_enc @sc_discardID_upd_enc : sc.
#[export] Hint Rewrite @sc_discardPrev_upd_enc @sc_discardFields_upd_enc @sc_out_upd_enc @sc_strms_upd_dec @sc_gone_upd_dec @sc_open_upd_dec @sc_initWin_upd_dec @sc_ring_upd_dec : sc.
#[export] Hint Rewrite @sc_oldest_upd_dec @sc_lastID_upd_dec @sc_highestID_upd_dec @sc_clientWindow_upd_dec @sc_currentWindow_upd_dec @sc_enc_upd_dec @sc_dec_upd_dec @sc_closing_upd_dec : sc.
#[export] Hint Rewrite @sc_closeRef_upd_dec @sc_expectCont_upd_dec @sc_readerQ_upd_dec @sc_rl_done_upd_dec @sc_sl_done_upd_dec @sc_closer_upd_dec @sc_wl_dead_upd_dec @sc_now_upd_dec : sc.
#[export] Hint Rewrite @sc_discardID_upd_dec @sc_discardPrev_upd_dec @sc_discardFields_upd_dec @sc_out_upd_dec @sc_strms_upd_closing @sc_gone_upd_closing @sc_open_upd_closing @sc_initWin_upd_closing : sc.
#[export] Hint Rewrite @sc_ring_upd_closing @sc_oldest_upd_closing @sc_lastID_upd_closing @sc_highestID_upd_closing @sc_clientWindow_upd_closing @sc_currentWindow_upd_closing @sc_enc_upd_closing @sc_dec_upd_closing : sc.
#[export] Hint Rewrite @sc_closing_upd_closing @sc_closeRef_upd_closing @sc_expectCont_upd_closing @sc_readerQ_upd_closing @sc_rl_done_upd_closing @sc_sl_done_upd_closing @sc_closer_upd_closing @sc_wl_dead_upd_closing : sc.
#[export] Hint Rewrite @sc_now_upd_closing @sc_discardID_upd_closing @sc_discardPrev_upd_closing @sc_discardFields_upd_closing @sc_out_upd_closing @sc_strms_upd_expectCont @sc_gone_upd_expectCont @sc_open_upd_expectCont : sc.
#[export] Hint Rewrite @sc_initWin_upd_expectCont @sc_ring_upd_expectCont @sc_oldest_upd_expectCont @sc_lastID_upd_expectCont @sc_highestID_upd_expectCont @sc_clientWindow_upd_expectCont @sc_currentWindow_upd_expectCont @sc_enc_upd_expectCont : sc.
#[export] Hint Rewrite @sc_dec_upd_expectCont @sc_closing_upd_expectCont @sc_closeRef_upd_expectCont @sc_expectCont_upd_expectCont @sc_readerQ_upd_expectCont @sc_rl_done_upd_expectCont @sc_sl_done_upd_expectCont @sc_closer_upd_expectCont : sc.
#[export] Hint Rewrite @sc_wl_dead_upd_expectCont @sc_now_upd_expectCont @sc_discardID_upd_expectCont @sc_discardPrev_upd_expectCont @sc_discardFields_upd_expectCont @sc_out_upd_expectCont @sc_strms_upd_readerQ @sc_gone_upd_readerQ : sc.
#[export] Hint Rewrite @sc_open_upd_readerQ @sc_initWin_upd_readerQ @sc_ring_upd_readerQ @sc_oldest_upd_readerQ @sc_lastID_upd_readerQ @sc_highestID_upd_readerQ @sc_clientWindow_upd_readerQ @sc_currentWindow_upd_readerQ : sc.
#[export] Hint Rewrite @sc_enc_upd_readerQ @sc_dec_upd_readerQ @sc_closing_upd_readerQ @sc_closeRef_upd_readerQ @sc_expectCont_upd_readerQ @sc_readerQ_upd_readerQ @sc_rl_done_upd_readerQ @sc_sl_done_upd_readerQ : sc.
#[export] Hint Rewrite @sc_closer_upd_readerQ @sc_wl_dead_upd_readerQ @sc_now_upd_readerQ @sc_discardID_upd_readerQ @sc_discardPrev_upd_readerQ @sc_discardFields_upd_readerQ @sc_out_upd_readerQ @sc_strms_upd_done : sc.
#[export] Hint Rewrite @sc_gone_upd_done @sc_open_upd_done @sc_initWin_upd_done @sc_ring_upd_done @sc_oldest_upd_done @sc_lastID_upd_done @sc_highestID_upd_done @sc_clientWindow_upd_done : sc.
#[export] Hint Rewrite @sc_currentWindow_upd_done @sc_enc_upd_done @sc_dec_upd_done @sc_closing_upd_done @sc_closeRef_upd_done @sc_expectCont_upd_done @sc_readerQ_upd_done @sc_rl_done_upd_done : sc.
#[export] Hint Rewrite @sc_sl_done_upd_done @sc_closer_upd_done @sc_wl_dead_upd_done @sc_now_upd_done @sc_discardID_upd_done @sc_discardPrev_upd_done @sc_discardFields_upd_done @sc_out_upd_done : sc.
#[export] Hint Rewrite @sc_strms_upd_closer @sc_gone_upd_closer @sc_open_upd_closer @sc_initWin_upd_closer @sc_ring_upd_closer @sc_oldest_upd_closer @sc_lastID_upd_closer @sc_highestID_upd_closer : sc.
#[export] Hint Rewrite @sc_clientWindow_upd_closer @sc_currentWindow_upd_closer @sc_enc_upd_closer @sc_dec_upd_closer @sc_closing_upd_closer @sc_closeRef_upd_closer @sc_expectCont_upd_closer @sc_readerQ_upd_closer : sc.
#[export] Hint Rewrite @sc_rl_done_upd_closer @sc_sl_done_upd_closer @sc_closer_upd_closer @sc_wl_dead_upd_closer @sc_now_upd_closer @sc_discardID_upd_closer @sc_discardPrev_upd_closer @sc_discardFields_upd_closer : sc.
#[export] Hint Rewrite @sc_out_upd_closer @sc_strms_upd_wl_dead @sc_gone_upd_wl_dead @sc_open_upd_wl_dead @sc_initWin_upd_wl_dead @sc_ring_upd_wl_dead @sc_oldest_upd_wl_dead @sc_lastID_upd_wl_dead : sc.
#[export] Hint Rewrite @sc_highestID_upd_wl_dead @sc_clientWindow_upd_wl_dead @sc_currentWindow_upd_wl_dead @sc_enc_upd_wl_dead @sc_dec_upd_wl_dead @sc_closing_upd_wl_dead @sc_closeRef_upd_wl_dead @sc_expectCont_upd_wl_dead : sc.
#[export] Hint Rewrite @sc_readerQ_upd_wl_dead @sc_rl_done_upd_wl_dead @sc_sl_done_upd_wl_dead @sc_closer_upd_wl_dead @sc_wl_dead_upd_wl_dead @sc_now_upd_wl_dead @sc_discardID_upd_wl_dead @sc_discardPrev_upd_wl_dead : sc.
#[export] Hint Rewrite @sc_discardFields_upd_wl_dead @sc_out_upd_wl_dead @sc_strms_upd_now @sc_gone_upd_now @sc_open_upd_now @sc_initWin_upd_now @sc_ring_upd_now @sc_oldest_upd_now : sc.
#[export] Hint Rewrite @sc_lastID_upd_now @sc_highestID_upd_now @sc_clientWindow_upd_now @sc_currentWindow_upd_now @sc_enc_upd_now @sc_dec_upd_now @sc_closing_upd_now @sc_closeRef_upd_now : sc.
#[export] Hint Rewrite @sc_expectCont_upd_now @sc_readerQ_upd_now @sc_rl_done_upd_now @sc_sl_done_upd_now @sc_closer_upd_now @sc_wl_dead_upd_now @sc_now_upd_now @sc_discardID_upd_now : sc.
#[export] Hint Rewrite @sc_discardPrev_upd_now @sc_discardFields_upd_now @sc_out_upd_now @sc_strms_upd_discard @sc_gone_upd_discard @sc_open_upd_discard @sc_initWin_upd_discard @sc_ring_upd_discard : sc.
#[export] Hint Rewrite @sc_oldest_upd_discard @sc_lastID_upd_discard @sc_highestID_upd_discard @sc_clientWindow_upd_discard @sc_currentWindow_upd_discard @sc_enc_upd_discard @sc_dec_upd_discard @sc_closing_upd_discard : sc.
#[export] Hint Rewrite @sc_closeRef_upd_discard @sc_expectCont_upd_discard @sc_readerQ_upd_discard @sc_rl_done_upd_discard @sc_sl_done_upd_discard @sc_closer_upd_discard @sc_wl_dead_upd_discard @sc_now_upd_discard : sc.
#[export] Hint Rewrite @sc_discardID_upd_discard @sc_discardPrev_upd_discard @sc_discardFields_upd_discard @sc_out_upd_discard : sc.

#[export] Hint Rewrite @sc_strms_emit @sc_gone_emit @sc_open_emit @sc_initWin_emit @sc_ring_emit @sc_oldest_emit @sc_lastID_emit @sc_highestID_emit : sc.
#[export] Hint Rewrite @sc_clientWindow_emit @sc_currentWindow_emit @sc_enc_emit @sc_dec_emit @sc_closing_emit @sc_closeRef_emit @sc_expectCont_emit @sc_readerQ_emit : sc.
#[export] Hint Rewrite @sc_rl_done_emit @sc_sl_done_emit @sc_closer_emit @sc_wl_dead_emit @sc_now_emit @sc_discardID_emit @sc_discardPrev_emit @sc_discardFields_emit : sc.
#[export] Hint Rewrite @sc_strms_note @sc_gone_note @sc_open_note @sc_initWin_note @sc_ring_note @sc_oldest_note @sc_lastID_note @sc_highestID_note : sc.
#[export] Hint Rewrite @sc_clientWindow_note @sc_currentWindow_note @sc_enc_note @sc_dec_note @sc_closing_note @sc_closeRef_note @sc_expectCont_note @sc_readerQ_note : sc.
#[export] Hint Rewrite @sc_rl_done_note @sc_sl_done_note @sc_closer_note @sc_wl_dead_note @sc_now_note @sc_discardID_note @sc_discardPrev_note @sc_discardFields_note : sc.
#[export] Hint Rewrite @sc_strms_write_reset @sc_gone_write_reset @sc_open_write_reset @sc_initWin_write_reset @sc_ring_write_reset @sc_oldest_write_reset @sc_lastID_write_reset @sc_highestID_write_reset : sc.
#[export] Hint Rewrite @sc_clientWindow_write_reset @sc_currentWindow_write_reset @sc_enc_write_reset @sc_dec_write_reset @sc_closing_write_reset @sc_closeRef_write_reset @sc_expectCont_write_reset @sc_readerQ_write_reset : sc.
#[export] Hint Rewrite @sc_rl_done_write_reset @sc_sl_done_write_reset @sc_closer_write_reset @sc_wl_dead_write_reset @sc_now_write_reset @sc_discardID_write_reset @sc_discardPrev_write_reset @sc_discardFields_write_reset : sc.
#[export] Hint Rewrite @sc_strms_write_window_update @sc_gone_write_window_update @sc_open_write_window_update @sc_initWin_write_window_update @sc_ring_write_window_update @sc_oldest_write_window_update @sc_lastID_write_window_update @sc_highestID_write_window_update : sc.
#[export] Hint Rewrite @sc_clientWindow_write_window_update @sc_currentWindow_write_window_update @sc_enc_write_window_update @sc_dec_write_window_update @sc_closing_write_window_update @sc_closeRef_write_window_update @sc_expectCont_write_window_update @sc_readerQ_write_window_update : sc.
#[export] Hint Rewrite @sc_rl_done_write_window_update @sc_sl_done_write_window_update @sc_closer_write_window_update @sc_wl_dead_write_window_update @sc_now_write_window_update @sc_discardID_write_window_update @sc_discardPrev_write_window_update @sc_discardFields_write_window_update : sc.
#[export] Hint Rewrite @sc_strms_write_goaway @sc_gone_write_goaway @sc_open_write_goaway @sc_initWin_write_goaway @sc_ring_write_goaway @sc_oldest_write_goaway @sc_lastID_write_goaway @sc_highestID_write_goaway : sc.
#[export] Hint Rewrite @sc_clientWindow_write_goaway @sc_currentWindow_write_goaway @sc_enc_write_goaway @sc_dec_write_goaway @sc_expectCont_write_goaway @sc_readerQ_write_goaway @sc_rl_done_write_goaway @sc_sl_done_write_goaway : sc.
#[export] Hint Rewrite @sc_closer_write_goaway @sc_wl_dead_write_goaway @sc_now_write_goaway @sc_discardID_write_goaway @sc_discardPrev_write_goaway @sc_discardFields_write_goaway @sc_strms_write_error @sc_gone_write_error : sc.
#[export] Hint Rewrite @sc_open_write_error @sc_initWin_write_error @sc_ring_write_error @sc_oldest_write_error @sc_lastID_write_error @sc_highestID_write_error @sc_clientWindow_write_error @sc_currentWindow_write_error : sc.
#[export] Hint Rewrite @sc_enc_write_error @sc_dec_write_error @sc_expectCont_write_error @sc_readerQ_write_error @sc_rl_done_write_error @sc_sl_done_write_error @sc_closer_write_error @sc_wl_dead_write_error : sc.
#[export] Hint Rewrite @sc_now_write_error @sc_discardID_write_error @sc_discardPrev_write_error @sc_discardFields_write_error @sc_strms_mark_closed @sc_gone_mark_closed @sc_open_mark_closed @sc_initWin_mark_closed : sc.
#[export] Hint Rewrite @sc_lastID_mark_closed @sc_highestID_mark_closed @sc_clientWindow_mark_closed @sc_currentWindow_mark_closed @sc_enc_mark_closed @sc_dec_mark_closed @sc_closing_mark_closed @sc_closeRef_mark_closed : sc.
#[export] Hint Rewrite @sc_expectCont_mark_closed @sc_readerQ_mark_closed @sc_rl_done_mark_closed @sc_sl_done_mark_closed @sc_closer_mark_closed @sc_wl_dead_mark_closed @sc_now_mark_closed @sc_discardID_mark_closed : sc.
#[export] Hint Rewrite @sc_discardPrev_mark_closed @sc_discardFields_mark_closed @sc_out_mark_closed @sc_strms_release_stream @sc_gone_release_stream @sc_initWin_release_stream @sc_ring_release_stream @sc_oldest_release_stream : sc.
#[export] Hint Rewrite @sc_lastID_release_stream @sc_highestID_release_stream @sc_clientWindow_release_stream @sc_currentWindow_release_stream @sc_enc_release_stream @sc_dec_release_stream @sc_closing_release_stream @sc_closeRef_release_stream : sc.
#[export] Hint Rewrite @sc_expectCont_release_stream @sc_readerQ_release_stream @sc_rl_done_release_stream @sc_sl_done_release_stream @sc_closer_release_stream @sc_wl_dead_release_stream @sc_now_release_stream @sc_discardID_release_stream : sc.
#[export] Hint Rewrite @sc_discardPrev_release_stream @sc_discardFields_release_stream @sc_initWin_close_stream @sc_lastID_close_stream @sc_highestID_close_stream @sc_clientWindow_close_stream @sc_currentWindow_close_stream @sc_enc_close_stream : sc.
#[export] Hint Rewrite @sc_dec_close_stream @sc_closing_close_stream @sc_closeRef_close_stream @sc_expectCont_close_stream @sc_readerQ_close_stream @sc_rl_done_close_stream @sc_sl_done_close_stream @sc_closer_close_stream : sc.
#[export] Hint Rewrite @sc_wl_dead_close_stream @sc_now_close_stream @sc_gone_put @sc_open_put @sc_initWin_put @sc_ring_put @sc_oldest_put @sc_lastID_put : sc.
#[export] Hint Rewrite @sc_highestID_put @sc_clientWindow_put @sc_currentWindow_put @sc_enc_put @sc_dec_put @sc_closing_put @sc_closeRef_put @sc_expectCont_put : sc.
#[export] Hint Rewrite @sc_readerQ_put @sc_rl_done_put @sc_sl_done_put @sc_closer_put @sc_wl_dead_put @sc_now_put @sc_discardID_put @sc_discardPrev_put : sc.
#[export] Hint Rewrite @sc_discardFields_put @sc_out_put @sc_strms_credit_conn_window @sc_gone_credit_conn_window @sc_open_credit_conn_window @sc_initWin_credit_conn_window @sc_ring_credit_conn_window @sc_oldest_credit_conn_window : sc.
#[export] Hint Rewrite @sc_lastID_credit_conn_window @sc_highestID_credit_conn_window @sc_clientWindow_credit_conn_window @sc_enc_credit_conn_window @sc_dec_credit_conn_window @sc_closing_credit_conn_window @sc_closeRef_credit_conn_window @sc_expectCont_credit_conn_window : sc.
#[export] Hint Rewrite @sc_readerQ_credit_conn_window @sc_rl_done_credit_conn_window @sc_sl_done_credit_conn_window @sc_closer_credit_conn_window @sc_wl_dead_credit_conn_window @sc_now_credit_conn_window @sc_discardID_credit_conn_window @sc_discardPrev_credit_conn_window : sc.
#[export] Hint Rewrite @sc_discardFields_credit_conn_window @sc_strms_consume_recv_window @sc_gone_consume_recv_window @sc_open_consume_recv_window @sc_initWin_consume_recv_window @sc_ring_consume_recv_window @sc_oldest_consume_recv_window @sc_lastID_consume_recv_window : sc.
#[export] Hint Rewrite @sc_highestID_consume_recv_window @sc_clientWindow_consume_recv_window @sc_enc_consume_recv_window @sc_dec_consume_recv_window @sc_closing_consume_recv_window @sc_closeRef_consume_recv_window @sc_expectCont_consume_recv_window @sc_readerQ_consume_recv_window : sc.
#[export] Hint Rewrite @sc_rl_done_consume_recv_window @sc_sl_done_consume_recv_window @sc_closer_consume_recv_window @sc_wl_dead_consume_recv_window @sc_now_consume_recv_window @sc_discardID_consume_recv_window @sc_discardPrev_consume_recv_window @sc_discardFields_consume_recv_window : sc.
#[export] Hint Rewrite @sc_strms_rl_exit @sc_gone_rl_exit @sc_open_rl_exit @sc_initWin_rl_exit @sc_ring_rl_exit @sc_oldest_rl_exit @sc_lastID_rl_exit @sc_highestID_rl_exit : sc.
#[export] Hint Rewrite @sc_clientWindow_rl_exit @sc_currentWindow_rl_exit @sc_enc_rl_exit @sc_dec_rl_exit @sc_closing_rl_exit @sc_closeRef_rl_exit @sc_expectCont_rl_exit @sc_readerQ_rl_exit : sc.
#[export] Hint Rewrite @sc_sl_done_rl_exit @sc_closer_rl_exit @sc_wl_dead_rl_exit @sc_now_rl_exit @sc_discardID_rl_exit @sc_discardPrev_rl_exit @sc_discardFields_rl_exit @sc_strms_forward : sc.
#[export] Hint Rewrite @sc_gone_forward @sc_open_forward @sc_initWin_forward @sc_ring_forward @sc_oldest_forward @sc_lastID_forward @sc_highestID_forward @sc_clientWindow_forward : sc.
#[export] Hint Rewrite @sc_currentWindow_forward @sc_enc_forward @sc_dec_forward @sc_closing_forward @sc_closeRef_forward @sc_expectCont_forward @sc_sl_done_forward @sc_closer_forward : sc.
#[export] Hint Rewrite @sc_wl_dead_forward @sc_now_forward @sc_discardID_forward @sc_discardPrev_forward @sc_discardFields_forward @sc_strms_brk @sc_gone_brk @sc_open_brk : sc.
#[export] Hint Rewrite @sc_initWin_brk @sc_ring_brk @sc_oldest_brk @sc_lastID_brk @sc_highestID_brk @sc_clientWindow_brk @sc_currentWindow_brk @sc_enc_brk : sc.
#[export] Hint Rewrite @sc_dec_brk @sc_closing_brk @sc_closeRef_brk @sc_expectCont_brk @sc_readerQ_brk @sc_rl_done_brk @sc_closer_brk @sc_wl_dead_brk : sc.
#[export] Hint Rewrite @sc_now_brk @sc_discardID_brk @sc_discardPrev_brk @sc_discardFields_brk : sc.
(* END GENERATED *)

(* ---------- stream table ---------- *)
Section Strms.

Lemma strms_search_In l id s : strms_search l id = Some s -> In s l /\ st_id s = id.
Proof.
  induction l as [|x t IH]; cbn [strms_search]; [discriminate|].
  destruct (st_id x =? id) eqn:E; intro H.
  - inversion H; subst. split; [left; reflexivity | lia].
  - destruct (IH H); split; [right|]; assumption.
Qed.

Lemma strms_search_None l id : strms_search l id = None -> forall s, In s l -> st_id s <> id.
Proof.
  induction l as [|x t IH]; cbn [strms_search]; intros H s []; subst.
  - destruct (st_id s =? id) eqn:E; [discriminate | lia].
  - destruct (st_id x =? id); [discriminate | auto].
Qed.

Lemma strms_search_app_None l l' id : strms_search l id = None -> strms_search (l ++ l') id = strms_search l' id.
Proof.
  induction l as [|x t IH]; cbn [strms_search app]; [reflexivity|].
  destruct (st_id x =? id); [discriminate | assumption].
Qed.

Lemma strms_put_length l x : length (strms_put l x) = length l.
Proof. induction l as [|s t IH]; cbn [strms_put length]; [reflexivity|]. destruct (st_id s =? st_id x); cbn [length]; congruence. Qed.

Lemma strms_put_ids l x : map st_id (strms_put l x) = map st_id l.
Proof.
  induction l as [|s t IH]; cbn [strms_put map]; [reflexivity|].
  destruct (st_id s =? st_id x) eqn:E; cbn [map]; [f_equal; lia | congruence].
Qed.

(* what is in the table after a write-back: the old streams, except that one with x's id may have become x *)
Lemma strms_put_In l x s : In s (strms_put l x) -> s = x \/ In s l.
Proof.
  induction l as [|y t IH]; cbn [strms_put]; [intros []|].
  destruct (st_id y =? st_id x); cbn [In]; intros [H|H]; auto.
  destruct (IH H); auto.
Qed.

Lemma strms_put_Forall (P : stream -> Prop) l x : Forall P l -> P x -> Forall P (strms_put l x).
Proof.
  intros Hl Hx. apply Forall_forall. intros s Hs. destruct (strms_put_In _ _ _ Hs); [subst; assumption|].
  rewrite Forall_forall in Hl. auto.
Qed.

Lemma strms_del_In l id s : In s (strms_del l id) -> In s l.
Proof.
  induction l as [|y t IH]; cbn [strms_del]; [intros []|].
  destruct (st_id y =? id); cbn [In]; intros H; [right; assumption|]. destruct H; auto.
Qed.

Lemma strms_del_Forall (P : stream -> Prop) l id : Forall P l -> Forall P (strms_del l id).
Proof. intros Hl. apply Forall_forall. intros s Hs. rewrite Forall_forall in Hl. eauto using strms_del_In. Qed.

Lemma strms_del_length l id : (length (strms_del l id) <= length l)%nat.
Proof. induction l as [|y t IH]; cbn [strms_del length]; [lia|]. destruct (st_id y =? id); cbn [length]; lia. Qed.

Lemma strms_del_length_found l id s : strms_search l id = Some s -> S (length (strms_del l id)) = length l.
Proof.
  induction l as [|y t IH]; cbn [strms_del strms_search length]; [discriminate|].
  destruct (st_id y =? id); cbn [length]; [reflexivity|]. intro H. rewrite (IH H). reflexivity.
Qed.

Lemma strms_del_notfound l id : strms_search l id = None -> strms_del l id = l.
Proof.
  induction l as [|y t IH]; cbn [strms_del strms_search]; [reflexivity|].
  destruct (st_id y =? id); [discriminate|]. intro H. rewrite (IH H). reflexivity.
Qed.

Lemma take_stream_Some l id s rest : take_stream l id = Some (s, rest) ->
  st_id s = id /\ In s l /\ length l = S (length rest) /\ (forall x, In x rest -> In x l) /\
  (forall x, In x l -> x = s \/ In x rest).
Proof.
  revert s rest. induction l as [|y t IH]; cbn [take_stream]; [discriminate|]. intros s rest.
  destruct (st_id y =? id) eqn:E.
  - intro H; inversion H; subst. cbn [In length]. repeat split; auto; try lia. intros x [|]; auto.
  - destruct (take_stream t id) as [[x t']|] eqn:T; [|discriminate]. intro H; inversion H; subst.
    destruct (IH _ _ eq_refl) as (A & B & C & D & F). cbn [In length]. repeat split; auto; try lia.
    + intros z [|]; auto.
    + intros z [|Hz]; auto. destruct (F z Hz); auto.
Qed.

Lemma take_stream_None l id : take_stream l id = None -> forall s, In s l -> st_id s <> id.
Proof.
  induction l as [|y t IH]; cbn [take_stream]; intros H s []; subst.
  - destruct (st_id s =? id) eqn:E; [discriminate | lia].
  - destruct (st_id y =? id); [discriminate|]. destruct (take_stream t id) as [[]|]; [discriminate | auto].
Qed.

End Strms.

(* ---------- the small helpers: what they DO change ---------- *)
Section Helpers.
Variable hstate : Type.
Implicit Types c : sconn hstate.

Lemma sc_out_emit c o :
  sc_out (emit c o) = if sc_wl_dead c then sc_out c else if sc_sl_done c then OLate o :: sc_out c else o :: sc_out c.
Proof. unfold emit. destruct (sc_wl_dead c); [reflexivity|]. destruct (sc_sl_done c); reflexivity. Qed.

(* emit changes sc_out only *)
Lemma emit_eq c o : emit c o = upd_out c (sc_out (emit c o)).
Proof. unfold emit. destruct c; cbn. destruct sc_wl_dead; [reflexivity|]. destruct sc_sl_done; reflexivity. Qed.

Lemma emit_In c o x : In x (sc_out (emit c o)) -> In x (sc_out c) \/ x = o \/ x = OLate o.
Proof.
  rewrite sc_out_emit. destruct (sc_wl_dead c); [auto|]. destruct (sc_sl_done c); cbn [In]; intros [H|H]; auto.
Qed.

Lemma emit_incl c o x : In x (sc_out c) -> In x (sc_out (emit c o)).
Proof. rewrite sc_out_emit. destruct (sc_wl_dead c); [auto|]. destruct (sc_sl_done c); cbn [In]; auto. Qed.

(* while the stream loop runs nothing is OLate *)
Lemma sc_out_emit_live c o : sc_sl_done c = false -> sc_out (emit c o) = sc_out c \/ sc_out (emit c o) = o :: sc_out c.
Proof. intro H. rewrite sc_out_emit, H. destruct (sc_wl_dead c); auto. Qed.

Lemma sc_out_note c o : sc_out (note c o) = o :: sc_out c.
Proof. reflexivity. Qed.

Lemma sc_out_write_reset c sid code : sc_out (write_reset c sid code) = sc_out (emit c (ORst sid code)).
Proof. reflexivity. Qed.

Lemma write_goaway_eq c sid code :
  write_goaway c sid code =
  emit (upd_closing c true (if sid =? 0 then sc_closeRef c else sc_lastID c)) (OGoAway (sc_lastID c) code).
Proof. reflexivity. Qed.

Lemma sc_closing_write_goaway c sid code : sc_closing (write_goaway c sid code) = true.
Proof. rewrite write_goaway_eq. unfold emit. sc_split_ifs; reflexivity. Qed.

Lemma sc_closeRef_write_goaway c sid code :
  sc_closeRef (write_goaway c sid code) = if sid =? 0 then sc_closeRef c else sc_lastID c.
Proof. rewrite write_goaway_eq. unfold emit. sc_split_ifs; reflexivity. Qed.

Lemma sc_out_write_goaway c sid code :
  sc_out (write_goaway c sid code) =
  if sc_wl_dead c then sc_out c
  else if sc_sl_done c then OLate (OGoAway (sc_lastID c) code) :: sc_out c else OGoAway (sc_lastID c) code :: sc_out c.
Proof. rewrite write_goaway_eq, sc_out_emit. reflexivity. Qed.

(* writeError: a GOAWAY unless it is a stream error on a known stream (RST_STREAM) or a panic (nothing) *)
Lemma write_error_fst c s e :
  fst (write_error c s e) =
  match e, s with
  | EGoAway code, None => write_goaway c 0 code
  | EGoAway code, Some st => write_goaway c (st_id st) code
  | EReset code, None => write_goaway c 0 code
  | EReset code, Some st => write_reset c (st_id st) code
  | EPanic, _ => c
  end.
Proof. destruct e, s; reflexivity. Qed.

Lemma write_error_snd c s e :
  snd (write_error c s e) =
  match e, s with
  | EGoAway _, Some st => Some (set_state st SClosed)
  | EReset _, Some st => Some (set_state (set_weReset st) SClosed)
  | EPanic, _ => s
  | _, None => None
  end.
Proof. destruct e, s; reflexivity. Qed.

(* closing is only ever set *)
Lemma sc_closing_write_error c s e : sc_closing c = true -> sc_closing (fst (write_error c s e)) = true.
Proof.
  intro H. rewrite write_error_fst. destruct e, s; auto using sc_closing_write_goaway.
  unfold write_reset, emit. sc_split_ifs; assumption.
Qed.

Lemma mark_closed_ring_length c id w :
  (length (sc_ring c) <= N.to_nat closedStrmsCap -> length (sc_ring (mark_closed c id w)) <= N.to_nat closedStrmsCap)%nat.
Proof.
  assert (L : forall l i x, length (set_nth_N l i x) = length l).
  { induction l as [|h t IH]; intros [|i] x; cbn [set_nth_N length]; auto. }
  intro H. unfold mark_closed. destruct (in_ring c id); [assumption|].
  destruct (N.of_nat (length (sc_ring c)) <? closedStrmsCap) eqn:E; cbn [sc_ring upd_ring].
  - rewrite app_length. cbn [length]. lia.
  - rewrite L. assumption.
Qed.

Lemma sc_open_release_stream c s :
  sc_open (release_stream c s) = if fkind_eqb (st_orig s) KHeaders then (sc_open c - 1)%Z else sc_open c.
Proof. unfold release_stream, note. destruct (fkind_eqb (st_orig s) KHeaders); reflexivity. Qed.

Lemma sc_out_release_stream c s : sc_out (release_stream c s) = ORelease (st_id s) true :: sc_out c.
Proof. unfold release_stream, note. destruct (fkind_eqb (st_orig s) KHeaders); reflexivity. Qed.

Lemma sc_strms_put c x : sc_strms (put c x) = strms_put (sc_strms c) x.
Proof. reflexivity. Qed.

(* closeStream, field by field. The stream handed in is `s`; what goes to sc_gone / the pool is `s` with its
   body stream closed (and the abandoned flag set). *)
Definition closed_body (s : stream) : stream :=
  set_snd s (mkSnd (st_window s) (st_pending s) (st_pendingEnd s) None (st_bodySize s) (st_bodyRead s)).

(* the reset-in-mid-header-block adjustment of closeStream: only the discard registers change *)
Definition close_discard c (s : stream) : sconn hstate :=
  if st_weReset s && negb (st_headersFinished s) && negb (sc_discardID c =? st_id s)
  then upd_discard c (st_id s) (st_prev s) (st_blockFields s) else c.

Lemma close_stream_eq c s :
  close_stream c s =
  let c2 := close_discard (upd_strms (mark_closed c (st_id s) (st_weReset s)) (strms_del (sc_strms c) (st_id s))) s in
  if st_handlerRunning s
  then upd_gone c2 (set_flags (closed_body s) (st_responded s) true true :: sc_gone c)
  else release_stream c2 (closed_body s).
Proof.
  unfold close_stream, closed_body, close_discard.
  replace (sc_strms (mark_closed c (st_id s) (st_weReset s))) with (sc_strms c) by (symmetry; sc_unf).
  cbv zeta.
  match goal with |- context [upd_gone ?X (?h :: sc_gone ?X)] =>
    replace (sc_gone X) with (sc_gone c) by (symmetry; unfold mark_closed; sc_split_ifs; reflexivity) end.
  reflexivity.
Qed.

Ltac close_tac := rewrite close_stream_eq; cbv zeta; unfold close_discard, release_stream, note, mark_closed, closed_body;
  cbn [set_snd st_orig st_id st_handlerRunning];
  sc_split_ifs; sc_cbn; first [reflexivity | congruence].

Lemma sc_strms_close_stream c s : sc_strms (close_stream c s) = strms_del (sc_strms c) (st_id s).
Proof. close_tac. Qed.

Lemma sc_gone_close_stream c s :
  sc_gone (close_stream c s) =
  if st_handlerRunning s then set_flags (closed_body s) (st_responded s) true true :: sc_gone c else sc_gone c.
Proof. close_tac. Qed.

Lemma sc_open_close_stream c s :
  sc_open (close_stream c s) =
  if st_handlerRunning s then sc_open c
  else if fkind_eqb (st_orig s) KHeaders then (sc_open c - 1)%Z else sc_open c.
Proof. close_tac. Qed.

Lemma sc_out_close_stream c s :
  sc_out (close_stream c s) = if st_handlerRunning s then sc_out c else ORelease (st_id s) true :: sc_out c.
Proof. close_tac. Qed.

Lemma sc_ring_close_stream c s : sc_ring (close_stream c s) = sc_ring (mark_closed c (st_id s) (st_weReset s)).
Proof. close_tac. Qed.

Lemma sc_rl_done_rl_exit c why : sc_rl_done (rl_exit c why) = true.
Proof. reflexivity. Qed.
Lemma sc_out_rl_exit c why : sc_out (rl_exit c why) = OExit 0 why :: sc_out c.
Proof. reflexivity. Qed.
Lemma sc_sl_done_brk c : sc_sl_done (fst (brk c)) = true.
Proof. reflexivity. Qed.
Lemma sc_out_brk c : sc_out (fst (brk c)) = OExit 1 0 :: sc_out c.
Proof. reflexivity. Qed.
Lemma snd_brk c : snd (brk c) = true. Proof. reflexivity. Qed.
Lemma snd_cont c : snd (cont c) = false. Proof. reflexivity. Qed.
Lemma fst_cont c : fst (cont c) = c. Proof. reflexivity. Qed.

End Helpers.

(* ---------- step and run ---------- *)
Section Run.
Variable hstate : Type.
Variable dec_field : hstate -> N -> bytes -> dec_res hstate.
Variable enc_field : hstate -> bytes -> bytes -> bool -> bytes * hstate.
Variable enc_set_max : hstate -> N -> hstate.
Variable cfg : config.
Variable h0 : hstate.

Notation step := (step dec_field enc_field enc_set_max cfg).
Notation run := (run dec_field enc_field enc_set_max cfg h0).
Notation sconn := (sconn hstate).

(* the state reached from any state (run = run_from init) *)
Definition run_from (c : sconn) (evs : list event) : sconn := fold_left step evs c.

Lemma run_eq evs : run evs = run_from (init_conn cfg h0) evs.
Proof. reflexivity. Qed.
Lemma run_nil : run [] = init_conn cfg h0.
Proof. reflexivity. Qed.
Lemma run_from_app c evs1 evs2 : run_from c (evs1 ++ evs2) = run_from (run_from c evs1) evs2.
Proof. apply fold_left_app. Qed.
Lemma run_app evs1 evs2 : run (evs1 ++ evs2) = run_from (run evs1) evs2.
Proof. apply fold_left_app. Qed.
Lemma run_snoc evs e : run (evs ++ [e]) = step (run evs) e.
Proof. rewrite run_app. reflexivity. Qed.
Lemma run_from_cons c e evs : run_from c (e :: evs) = run_from (step c e) evs.
Proof. reflexivity. Qed.
Lemma run_from_nil c : run_from c [] = c.
Proof. reflexivity. Qed.

(* reachable states *)
Inductive reachable : sconn -> Prop :=
| reach_init : reachable (init_conn cfg h0)
| reach_step c e : reachable c -> reachable (step c e).

Lemma run_from_reachable c evs : reachable c -> reachable (run_from c evs).
Proof. revert c. induction evs as [|e evs IH]; intros c H; [assumption|]. rewrite run_from_cons. apply IH. constructor. assumption. Qed.
Lemma run_reachable evs : reachable (run evs).
Proof. rewrite run_eq. apply run_from_reachable. constructor. Qed.
Lemma reachable_run c : reachable c -> exists evs, c = run evs.
Proof.
  induction 1 as [|c e _ [evs ->]]; [exists []; reflexivity|]. exists (evs ++ [e]). symmetry. apply run_snoc.
Qed.

(* invariants over all event lists *)
Lemma run_from_ind (P : sconn -> Prop) :
  (forall c e, P c -> P (step c e)) -> forall evs c, P c -> P (run_from c evs).
Proof. intros Hs evs. induction evs as [|e evs IH]; intros c H; [assumption|]. rewrite run_from_cons. apply IH, Hs, H. Qed.

Lemma run_ind (P : sconn -> Prop) :
  P (init_conn cfg h0) -> (forall c e, P c -> P (step c e)) -> forall evs, P (run evs).
Proof. intros Hi Hs evs. rewrite run_eq. apply run_from_ind; assumption. Qed.

(* the same with reachability of c available in the step case (so that earlier invariants can be used) *)
Lemma run_ind_reach (P : sconn -> Prop) :
  P (init_conn cfg h0) -> (forall c e, reachable c -> P c -> P (step c e)) -> forall evs, P (run evs).
Proof.
  intros Hi Hs evs.
  assert (H : reachable (run evs) /\ P (run evs)); [|apply H].
  apply (run_ind (fun c => reachable c /\ P c)).
  - split; [constructor | assumption].
  - intros c e [R H]. split; [constructor; assumption | auto].
Qed.

Lemma reachable_ind_inv (P : sconn -> Prop) :
  P (init_conn cfg h0) -> (forall c e, reachable c -> P c -> P (step c e)) -> forall c, reachable c -> P c.
Proof. intros Hi Hs c R. induction R; auto. Qed.

(* a property of pairs (state, next state): holds along every run *)
Lemma run_from_rel (R : sconn -> sconn -> Prop) :
  (forall c, R c c) -> (forall a b c, R a b -> R b c -> R a c) -> (forall c e, R c (step c e)) ->
  forall evs c, R c (run_from c evs).
Proof.
  intros Hr Ht Hs evs. induction evs as [|e evs IH]; intros c; [apply Hr|].
  rewrite run_from_cons. eapply Ht; [apply Hs | apply IH].
Qed.

(* step, event by event (all by computation) *)
Lemma step_EvRL c i : step c (EvRL i) = if sc_rl_done c then c else rl_step cfg c i.
Proof. reflexivity. Qed.
Lemma step_EvSL c : step c EvSL =
  if sc_sl_done c then c
  else match sc_readerQ c with
       | [] => if sc_rl_done c then note (upd_done c true true) (OExit 1 1) else c
       | fr :: q => fst (sl_frame dec_field enc_set_max cfg (upd_readerQ c q) fr)
       end.
Proof. reflexivity. Qed.
Lemma step_EvDone c sid r : step c (EvDone sid r) = if sc_sl_done c then c else fst (sl_done enc_field cfg c sid r).
Proof. reflexivity. Qed.
Lemma step_EvClock c t : step c (EvClock t) = if (sc_now c <? t)%Z then upd_now c t else c.
Proof. reflexivity. Qed.
Lemma step_EvTimer c : step c EvTimer = if sc_sl_done c then c else fst (sl_timer cfg c).
Proof. reflexivity. Qed.
Lemma step_EvIdle c : step c EvIdle = upd_closer (write_goaway c 0 c_NoError) true.
Proof. reflexivity. Qed.
Lemma step_EvCloser c : step c EvCloser = if sc_closer c && negb (sc_sl_done c) then fst (brk c) else c.
Proof. reflexivity. Qed.
Lemma step_EvWriteFail c : step c EvWriteFail = upd_wl_dead c true.
Proof. reflexivity. Qed.

Lemma trace_In (c : sconn) o : In o (trace c) <-> In o (sc_out c).
Proof. unfold trace. symmetry. apply in_rev. Qed.

End Run.

Arguments run_from {hstate}.
Arguments reachable {hstate}.
Arguments closed_body s : simpl never.
