(* Proofs/CliFlowCWin.v - C07, "and finishes": how far the client's send windows can be below the server's ledger.
   Sim (Proofs/CliFlowSafe.v) says they are never above. The only thing that takes them below is a critical section
   of sendPending whose bytes are debited and then not written (the request was taken back, or the write failed): it
   debits the connection window and the stream's window by the same amount. So the deficit of a pending body's window
   is never more than the deficit of the connection window (WEQ): when the connection window is exactly the ledger's,
   so is every pending body's. *)
From H2V Require Import Base.Bytes Base.MachineInt Base.Result Gen.GenConsts Impl.ServerConn Impl.ClientConn
     Proofs.CliDefs Spec.FlowLedger Proofs.SrvFlowLedger Proofs.CliFlowMoves Proofs.CliFlowOut Proofs.CliFlowSettings Proofs.CliFlowSafe.
From Coq Require Import ZArith Lia ZifyN ZifyNat ZifyBool List Bool.
Import ListNotations.
Local Open Scope N_scope.

Section Win.
Variable hstate : Type.
Variable enc_field : hstate -> bytes -> bytes -> bool -> bytes * hstate.
Variable enc_set_max : hstate -> N -> hstate.
Notation cconn := (cconn hstate).
Notation move := (move hstate).
Notation apply := (apply hstate enc_field enc_set_max).
Notation valid := (valid hstate).
Notation items := (items hstate).
Notation Sim := (Sim hstate).
Notation lof := (lof hstate).

Definition WEQ (c : cconn) (L : ledger) : Prop :=
  forall pb, In pb (cc_pending c) ->
    exists w, l_strm L (pb_id pb) = Some w /\ (w - pb_window pb <= l_conn L - cc_connWindow c)%Z.

Lemma WEQ_same (c c' : cconn) L : cc_connWindow c' = cc_connWindow c -> (forall p, In p (cc_pending c') -> In p (cc_pending c)) ->
  WEQ c L -> WEQ c' L.
Proof. intros A B W pb HP. rewrite A. apply W. apply B. exact HP. Qed.

Lemma notes_flow l : forall (c : cconn), cc_pending (cl_notes c l) = cc_pending c /\ cc_connWindow (cl_notes c l) = cc_connWindow c.
Proof. induction l as [|o t IH]; intro c; cbn [cl_notes]; [split; reflexivity|]. destruct (IH (cl_note c o)) as [A B]. rewrite A, B. split; reflexivity. Qed.

Lemma mv_WEQ m (c : cconn) L :
  valid m c -> mv_pos hstate m -> Sim c L -> LB L -> LB (lrun L (grants_of m)) -> WEQ c L ->
  WEQ (apply m c) (lrun L (lof m c)).
Proof.
  intros V P S B BG W. unfold CliFlowSafe.lof.
  destruct m; cbn [grants_of CliFlowOut.items app ledger_out flat_map];
    try (apply (WEQ_same c); [reflexivity | cbn [CliFlowMoves.apply]; cc_cbn; auto | exact W]; fail).
  - (* MNote *)
    cbn [CliFlowMoves.apply]. destruct (quietb o) eqn:Q; cbn [ledger_out flat_map app lrun fold_left]; [|exact W].
    destruct o; try discriminate; cbn [app lrun fold_left]; apply (WEQ_same c); try reflexivity; auto.
  - (* MReqTake *)
    cbn [CliFlowMoves.apply]. unfold cl_take_req_count. destruct (cl_req_find _ _); [apply (WEQ_same c); try reflexivity; auto | exact W].
  - (* MOutQPush *)
    cbn [CliFlowMoves.apply]. destruct (pushb o); [|exact W]. unfold cl_write_out. destruct (cc_closed c); [exact W | apply (WEQ_same c); try reflexivity; auto].
  - (* MWlWrite *)
    cbn [CliFlowMoves.apply]. destruct (cc_outQ c) as [|o q] eqn:Q; cbn [ledger_out flat_map lrun fold_left]; [exact W|].
    pose proof (sim_q _ _ _ S) as QQ. rewrite Q in QQ. inversion QQ as [|? ? QO QT]; subst.
    destruct o; try (exfalso; exact QO); cbn [flat_map app lrun fold_left]; apply (WEQ_same c); try reflexivity; auto.
  - (* MRecvData *)
    cbn [CliFlowMoves.apply]. destruct (recv_data_fields hstate c fr has_res) as (_ & A2 & A3 & _).
    apply (WEQ_same c); [exact A2 | rewrite A3; auto | exact W].
  - (* MSettings *)
    cbn [CliFlowMoves.apply grants_of] in *. destruct (cl_settings_deserialize false payload) as [st|] eqn:DS; [|cbn [app lrun fold_left]; exact W].
    rewrite app_nil_r in *. destruct S as [s1 s2 s3 s4 s5 s6 s7 s8]. destruct BG as [B1 B2].
    destruct (deserialize_win _ _ DS) as [WO WS]. pose proof (inits_of_linit payload) as AL. unfold win_of in WO, WS.
    unfold cl_handle_settings, cl_write_out.
    assert (NOWIN : cs_hasWin st = false -> inits_of payload = []).
    { intro HW. rewrite HW in WO. apply last_init_opt_none; [exact AL | symmetry; exact WO]. }
    destruct (cs_hasWin st) eqn:HW.
    + cbn [win_small] in WS. destruct (lrun_inits _ AL L) as (LI & LC & LS).
      rewrite (last_init_spec _ AL), <- WO in LI, LS. set (v := Z.of_N (cs_window st)) in *.
      assert (IV : cl_i32 v = v) by (apply cl_i32_id; flia).
      assert (ID : cl_i32 (v - cc_streamWindow c) = (v - cc_streamWindow c)%Z) by (apply cl_i32_id; unfold MAXW in *; flia).
      unfold cl_apply_initial_window, cl_signal_window. rewrite IV.
      intros p HP.
      assert (HP' : exists q, In q (cc_pending c) /\ p = pbu_window q (cl_i32 (pb_window q + (v - cc_streamWindow c)))).
      { destruct (cl_settings_has st c_HeaderTableSize); cc_cbn_in HP; destruct (cc_closed c); cc_cbn_in HP; rewrite ?ID in HP;
          apply in_map_iff in HP; destruct HP as (q & <- & HQ); exists q; split; auto. }
      destruct HP' as (q & HQ & ->). cbn [pb_id pb_window pbu_window].
      destruct (s7 q HQ) as (w & W1 & W2 & W3). destruct (W q HQ) as (w' & W1' & W4). rewrite W1 in W1'. inversion W1'; subst w'.
      assert (WB : (w + (v - l_init L) <= MAXW)%Z) by (apply (B2 (pb_id q)); rewrite LS, W1; reflexivity).
      assert (I32 : cl_i32 (pb_window q + (v - cc_streamWindow c)) = (pb_window q + (v - cc_streamWindow c))%Z).
      { apply cl_i32_id. unfold MAXW in *. rewrite s1 in WB. flia. }
      rewrite I32, LS, W1, LC. exists (w + (v - l_init L))%Z. split; [reflexivity|].
      match goal with |- context [cc_connWindow ?cc] => assert (CWE : cc_connWindow cc = cc_connWindow c) end.
      { destruct (cl_settings_has st c_HeaderTableSize); cc_cbn; destruct (cc_closed c); reflexivity. }
      rewrite CWE, s1. flia.
    + rewrite (NOWIN eq_refl). cbn [lrun fold_left].
      apply (WEQ_same c); [| |exact W]; destruct (cl_settings_has st c_HeaderTableSize); cc_cbn; destruct (cc_closed c); cc_cbn; auto.
  - (* MAddWindow *)
    cbn [mv_pos] in P. cbn [grants_of app lrun fold_left] in *. cbn [CliFlowMoves.apply].
    destruct S as [s1 s2 s3 s4 s5 s6 s7 s8]. destruct BG as [B1 B2].
    unfold cl_add_window, cl_signal_window. destruct (sid =? 0) eqn:S0.
    + cbn [lstep] in *. rewrite S0 in *. cbn [l_conn l_strm l_init] in *. cc_cbn.
      rewrite cl_i32_id by (unfold MAXW in *; flia). intros p HP. destruct (W p HP) as (w & W1 & W2). exists w. split; [exact W1 | cbn [l_conn]; cc_cbn; flia].
    + apply N.eqb_neq in S0. destruct (cl_pend_get (cc_pending c) sid) as [pb|] eqn:G.
      * destruct (pend_get_In _ _ _ G) as [HI EI]. destruct (s7 pb HI) as (w & W1 & W2 & W3). rewrite EI in W1.
        cbn [lstep] in *. rewrite (proj2 (N.eqb_neq sid 0) S0) in *. rewrite W1 in *. cbn [l_conn l_strm l_init] in *.
        assert (WB : (w + inc <= MAXW)%Z) by (apply (B2 sid); apply strm_upd_same).
        assert (I32 : cl_i32 (pb_window pb + inc) = (pb_window pb + inc)%Z) by (apply cl_i32_id; unfold MAXW in *; flia).
        cc_cbn. intros p HP. apply (pend_put_In _ _ _ s4) in HP. destruct HP as [->|[HP NE]].
        -- cbn [pb_id pb_window pbu_window l_strm l_conn]. cc_cbn. rewrite EI, strm_upd_same, I32. exists (w + inc)%Z. split; [reflexivity|].
           destruct (W pb HI) as (w' & W1' & W4). rewrite EI, W1 in W1'. inversion W1'; subst w'. flia.
        -- cbn [pb_id pbu_window] in NE. rewrite EI in NE. cbn [l_strm l_conn]. cc_cbn. rewrite strm_upd_other by exact NE. apply W. exact HP.
      * cbn [lstep]. rewrite (proj2 (N.eqb_neq sid 0) S0).
        assert (PN : forall p, In p (cc_pending c) -> pb_id p <> sid) by (apply pend_get_None; exact G).
        destruct (l_strm L sid) as [w|] eqn:W1; [|exact W].
        intros p HP. cc_cbn_in HP. cbn [l_conn l_strm]. cc_cbn. rewrite strm_upd_other by (apply PN; exact HP). apply W. exact HP.
  - (* MPendDel *)
    apply (WEQ_same c); [reflexivity | cbn [CliFlowMoves.apply]; cc_cbn; intro p; apply pend_del_In | exact W].
  - (* MPendAddDel *)
    destruct V as [PI IDS]. cbn [CliFlowMoves.apply].
    assert (X : cl_pend_del (cc_pending c ++ [pb]) (pb_id pb) = cc_pending c).
    { apply pend_del_app_last. intros p HP. pose proof (sim_ids _ _ _ S p HP). flia. }
    apply (WEQ_same c); [reflexivity | cc_cbn; rewrite X; auto | exact W].
  - (* MRefill *)
    destruct V as (pb & pb' & G & RC & RF). cbn [CliFlowMoves.apply]. rewrite G, RF.
    destruct (refill_same _ _ RF) as [RI RW]. destruct (pend_get_In _ _ _ G) as [HI EI].
    intros p HP. cc_cbn_in HP. cc_cbn. apply (pend_put_In _ _ _ (sim_nodup _ _ _ S)) in HP.
    destruct HP as [->|[HP _]]; [rewrite RI, RW; apply W; exact HI | apply W; exact HP].
  - (* MSend *)
    destruct V as (pb & G & _). cbn [CliFlowMoves.apply CliFlowOut.items]. rewrite G.
    destruct S as [s1 s2 s3 s4 s5 s6 s7 s8]. destruct B as [B1 B2].
    destruct (pend_get_In _ _ _ G) as [HI EI]. destruct (s7 pb HI) as (w & W1 & W2 & W3). rewrite EI in W1.
    pose proof (cs_n_facts hstate c pb) as [N1 N2]. pose proof (cs_chunk_len hstate c pb) as CL.
    pose proof (B2 _ _ W1) as WB. set (n := cs_n c pb) in *.
    assert (IC : cl_i32 (cc_connWindow c - n) = (cc_connWindow c - n)%Z).
    { apply cl_i32_id. unfold MAXW in *. destruct (Z_lt_le_dec 0 n) as [P0|P0]; [destruct (N2 P0)|]; flia. }
    assert (IW : cl_i32 (pb_window pb - n) = (pb_window pb - n)%Z).
    { apply cl_i32_id. unfold MAXW in *. destruct (Z_lt_le_dec 0 n) as [P0|P0]; [destruct (N2 P0)|]; flia. }
    destruct (W pb HI) as (w' & W1' & W4). rewrite EI, W1 in W1'. inversion W1'; subst w'.
    (* the state after the critical section against a ledger in which the stream and the connection went down by d *)
    assert (CS : forall L' d, (0 <= d <= n)%Z -> l_conn L' = (l_conn L - d)%Z -> l_strm L' id = Some (w - d)%Z ->
                   (forall x, x <> id -> l_strm L' x = l_strm L x) -> WEQ (cs_conn c pb id) L').
    { intros L' d Dd LC LW LO p HP. unfold cs_conn in HP |- *. fold n in HP |- *. rewrite IC in HP |- *.
      destruct (cs_end c pb); cc_cbn_in HP; cc_cbn.
      - pose proof (pend_del_not_In _ _ _ s4 HP) as NE. rewrite LO by exact NE. apply pend_del_In in HP.
        destruct (W p HP) as (wp & A1 & A2). exists wp. split; [exact A1 | rewrite LC; flia].
      - apply (pend_put_In _ _ _ s4) in HP. destruct HP as [->|[HP NE]].
        + unfold cs_pb. fold n. cbn [pb_id pb_window pbu_body pbu_window]. rewrite IW, EI, LW. exists (w - d)%Z. split; [reflexivity | rewrite LC; flia].
        + unfold cs_pb in NE. cbn [pb_id pbu_body pbu_window] in NE. rewrite EI in NE. rewrite LO by exact NE.
          destruct (W p HP) as (wp & A1 & A2). exists wp. split; [exact A1 | rewrite LC; flia]. }
    destruct wr; cbv iota.
    + assert (CC : 0 < len (cs_chunk c pb) -> (Z.of_N (len (cs_chunk c pb)) <= l_conn L)%Z /\ (Z.of_N (len (cs_chunk c pb)) <= w)%Z).
      { intro P0. rewrite CL. assert (P1 : (0 < n)%Z) by flia. destruct (N2 P1). flia. }
      destruct (write_data_led (cc_maxFrame c) id (cs_chunk c pb) (cs_end c pb) L w W1 CC) as (_ & A & _ & Cc & Dd).
      assert (MF : cc_maxFrame (cs_conn c pb id) = cc_maxFrame c) by (unfold cs_conn; destruct (cs_end c pb); reflexivity).
      rewrite MF. destruct (notes_flow (cl_write_data (cc_maxFrame c) id (cs_chunk c pb) (cs_end c pb)) (cs_conn c pb id)) as [F1 F2].
      intros p HP. rewrite F1 in HP. rewrite F2.
      apply (CS _ n); [flia | rewrite <- CL; exact A | rewrite <- CL; exact Cc | exact Dd | exact HP].
    + cbn [ledger_out flat_map lrun fold_left]. apply (CS L 0%Z); [flia | flia | rewrite W1; f_equal; flia | reflexivity].
  - (* MSendBack: both windows are debited, the connection window gets the chunk back, the body leaves c.pending *)
    destruct V as (pb & G & _). cbn [lrun fold_left]. cbn [CliFlowMoves.apply]. rewrite G. unfold send_back. cbv zeta.
    destruct S as [s1 s2 s3 s4 s5 s6 s7 s8]. destruct B as [B1 B2].
    destruct (pend_get_In _ _ _ G) as [HI EI].
    pose proof (cs_n_facts hstate c pb) as [N1 N2]. set (n := cs_n c pb) in *.
    assert (IC : cl_i32 (cc_connWindow c - n) = (cc_connWindow c - n)%Z).
    { apply cl_i32_id. unfold MAXW in *. destruct (Z_lt_le_dec 0 n) as [P0|P0]; [destruct (N2 P0)|]; flia. }
    set (c3 := if (0 <? n)%Z then cl_add_window (cs_conn c pb id) 0 n else cs_conn c pb id).
    assert (CW3 : cc_connWindow c3 = cc_connWindow c).
    { subst c3. destruct (0 <? n)%Z eqn:NP; [apply Z.ltb_lt in NP | apply Z.ltb_ge in NP].
      - unfold cl_add_window, cl_signal_window. cbn [N.eqb]. cc_cbn. rewrite (cs_conn_cw hstate). fold n. rewrite IC.
        replace (cc_connWindow c - n + n)%Z with (cc_connWindow c) by flia. apply cl_i32_id. unfold MAXW in *. flia.
      - rewrite (cs_conn_cw hstate). fold n. rewrite IC. flia. }
    assert (PN3 : cc_pending c3 = cc_pending (cs_conn c pb id)) by (subst c3; destruct (0 <? n)%Z; reflexivity).
    assert (KEY : forall p, In p (cc_pending (cs_conn c pb id)) -> pb_id p <> id -> In p (cc_pending c)).
    { intros p HP NE. unfold cs_conn in HP. destruct (cs_end c pb); cc_cbn_in HP; [eapply pend_del_In; exact HP|].
      apply (pend_put_In _ _ _ s4) in HP. destruct HP as [->|[HP _]]; [|exact HP].
      exfalso. apply NE. unfold cs_pb. cbn [pb_id pbu_body pbu_window]. exact EI. }
    assert (ND3 : NoDup (map pb_id (cc_pending c3))).
    { rewrite PN3. unfold cs_conn. destruct (cs_end c pb); cc_cbn; [apply pend_del_NoDup | rewrite pend_put_ids]; exact s4. }
    destruct (cl_pend_get (cc_pending c3) id) as [pb3|] eqn:G3; intros p HP; cc_cbn_in HP; cc_cbn; rewrite ?CW3.
    + pose proof (pend_del_not_In _ _ _ ND3 HP) as NE. apply pend_del_In in HP. rewrite PN3 in HP. apply W. apply KEY; assumption.
    + pose proof (pend_get_None _ _ G3 p HP) as NE. rewrite PN3 in HP. apply W. apply KEY; assumption.
  - (* MEncSync *)
    cbn [CliFlowMoves.apply]. destruct (negb _); [apply (WEQ_same c); try reflexivity; auto | exact W].
  - (* MHeaders *)
    destruct V as (_ & IDS & _ & _ & _ & PB & _). destruct S as [s1 s2 s3 s4 s5 s6 s7 s8].
    assert (NS : l_strm L (cc_nextID c) = None).
    { destruct (l_strm L (cc_nextID c)) as [w|] eqn:EQ; [|reflexivity]. apply s6 in EQ. flia. }
    cbn [app lrun fold_left lstep]. rewrite NS. cbn [CliFlowMoves.apply].
    assert (OLD : forall p, In p (cc_pending c) ->
              exists w, strm_upd (l_strm L) (cc_nextID c) (Some (l_init L)) (pb_id p) = Some w /\ (w - pb_window p <= l_conn L - cc_connWindow c)%Z).
    { intros p HP. rewrite strm_upd_other; [apply W; exact HP|]. pose proof (s5 p HP). flia. }
    destruct opb as [pb|]; intros p HP; cc_cbn_in HP; cbn [l_conn l_strm]; cc_cbn.
    + apply in_app_or in HP. destruct HP as [HP|[<-|[]]]; [apply OLD; exact HP|].
      destruct (PB pb eq_refl) as [PI PW]. rewrite PI, strm_upd_same, PW. exists (l_init L). split; [reflexivity|]. rewrite s1. flia.
    + apply OLD. exact HP.
Qed.

(* sequences of moves: the simulation and the deficit bound together *)
Lemma mvs_SW (c : cconn) ms c' : mvs enc_field enc_set_max c ms c' -> Forall (mv_pos hstate) ms ->
  forall L, Sim c L -> WEQ c L -> GOK L (mlof hstate enc_field enc_set_max c ms) ->
  Sim c' (lrun L (mlof hstate enc_field enc_set_max c ms)) /\ WEQ c' (lrun L (mlof hstate enc_field enc_set_max c ms)).
Proof.
  induction 1 as [c|c m ms c' V M IH]; intros P L S W G; cbn [mlof] in *.
  - split; assumption.
  - inversion P as [|? ? P1 P2]; subst.
    assert (B : LB L) by (eapply GOK_nil; exact G).
    assert (BG : LB (lrun L (grants_of m))).
    { unfold CliFlowSafe.lof in G. rewrite <- app_assoc in G. eapply GOK_pre. exact G. }
    destruct (mv_Sim hstate enc_field enc_set_max m c L V P1 S B BG) as [_ S1].
    pose proof (mv_WEQ m c L V P1 S B BG W) as W1.
    apply GOK_app in G. destruct G as [_ G2].
    destruct (IH P2 _ S1 W1 G2) as [S2 W2]. rewrite lrun_app. split; assumption.
Qed.

End Win.

Section WinRun.
Variable hstate : Type.
Variable dec_field : hstate -> N -> bytes -> dec_res hstate.
Variable enc_field : hstate -> bytes -> bytes -> bool -> bytes * hstate.
Variable enc_set_max : hstate -> N -> hstate.
Variable cfg : cl_config.
Variable h0 : hstate.
Notation cconn := (cconn hstate).
Notation step := (cl_step dec_field enc_field enc_set_max cfg).
Notation Sim := (Sim hstate).
Notation WEQ := (WEQ hstate).
Notation g_tl_step := (g_tl_step hstate dec_field enc_field enc_set_max cfg).
Notation g_timeline_from := (g_timeline_from hstate dec_field enc_field enc_set_max cfg).

Lemma step_SW (c : cconn) e L : Sim c L -> WEQ c L -> GOK L (g_tl_step c e) ->
  Sim (step c e) (lrun L (g_tl_step c e)) /\ WEQ (step c e) (lrun L (g_tl_step c e)).
Proof.
  intros S W G. destruct (step_D hstate dec_field enc_field enc_set_max cfg c e) as (ms & M & F & GR & _).
  assert (EQ : g_tl_step c e = mlof hstate enc_field enc_set_max c ms).
  { unfold CliFlowSafe.g_tl_step. rewrite (mlof_split hstate enc_field enc_set_max e ms F c), GR, (mvs_new _ _ _ _ _ _ M). reflexivity. }
  rewrite EQ in *. apply (mvs_SW hstate enc_field enc_set_max c ms _ M); [|exact S | exact W | exact G].
  eapply Forall_impl; [|exact F]. apply ev_ok_pos.
Qed.

Lemma timeline_SW evs : forall (c : cconn) L, Sim c L -> WEQ c L -> GOK L (g_timeline_from c evs) ->
  Sim (fold_left step evs c) (lrun L (g_timeline_from c evs)) /\ WEQ (fold_left step evs c) (lrun L (g_timeline_from c evs)).
Proof.
  induction evs as [|e t IH]; intros c L S W G; cbn [CliFlowSafe.g_timeline_from fold_left]; [split; assumption|].
  apply GOK_app in G. destruct G as [G1 G2]. destruct (step_SW c e L S W G1) as [S1 W1].
  rewrite lrun_app. apply IH; assumption.
Qed.

(* C07: the client's send windows against the server's ledger after any events. They are never above the ledger's;
   a pending body's window is below its ledger window by at most what the connection window is below the ledger's *)
Theorem windows_vs_ledger first evs : cl_settings_deserialize false first <> None ->
  GOK ledger0 (g_ledger hstate dec_field enc_field enc_set_max cfg h0 first evs) ->
  let c := cl_run dec_field enc_field enc_set_max cfg h0 first evs in
  let L := lrun ledger0 (g_ledger hstate dec_field enc_field enc_set_max cfg h0 first evs) in
  (0 <= cc_connWindow c <= l_conn L)%Z /\
  forall pb, In pb (cc_pending c) ->
    exists w, l_strm L (pb_id pb) = Some w /\ (pb_window pb <= w)%Z /\ (w - pb_window pb <= l_conn L - cc_connWindow c)%Z.
Proof.
  intros NN G. cbv zeta. unfold g_ledger in *. apply GOK_app in G. destruct G as [_ G]. rewrite lrun_app.
  pose proof (Sim_init hstate enc_set_max h0 first NN) as S0.
  assert (W0 : WEQ (cl_init enc_set_max h0 first) (lrun ledger0 (inits_of first))).
  { intros pb HP. exfalso. revert HP. unfold cl_init. destruct (cl_settings_deserialize false first); cbn; auto. }
  destruct (timeline_SW evs _ _ S0 W0 G) as [S W]. unfold cl_run.
  split; [apply (sim_conn _ _ _ S)|]. intros pb HP.
  destruct (sim_pend _ _ _ S pb HP) as (w & A1 & A2 & _). destruct (W pb HP) as (w' & B1 & B2).
  rewrite A1 in B1. inversion B1; subst w'. exists w. split; [exact A1|]. split; assumption.
Qed.

End WinRun.
