(* Proofs/SrvIsoSteps.v - every function of the stream loop that is not header decoding, as a sequence
   of the moves of Proofs/SrvIsoMoves.v.  Results used later:
     hmvs_sl_done, hmvs_sl_timer          (events between the frames of a header block)
     hmvs_after_frame, hmvs_implicit_close, hmvs_flush_streams (parts of sl_frame)
     hmvs_sl_frame_other                   (sl_frame on anything but HEADERS / CONTINUATION) *)
From H2V Require Import Base.Bytes Base.MachineInt Base.Result Gen.GenConsts Impl.ServerConn Proofs.SrvBase
  Proofs.SrvIsoMoves.
From Coq Require Import ZArith Lia ZifyN ZifyNat ZifyBool.
Local Open Scope N_scope.

Section Steps.
Variable hstate : Type.
Variable dec_field : hstate -> N -> bytes -> dec_res hstate.
Variable enc_field : hstate -> bytes -> bytes -> bool -> bytes * hstate.
Variable enc_set_max : hstate -> N -> hstate.
Variable cfg : config.
(* the stream the step is about *)
Variable own : N.
Notation sconn := (sconn hstate).
Implicit Types c : sconn.
Local Notation tr := (tr own).
Local Notation hmv := (hmv own).
Local Notation hmvs := (hmvs own).

(* ---------- quiet updates ---------- *)
Ltac hsame_tac :=
  unfold hsame; sc_rw; repeat (split; [reflexivity|]);
  first [apply base_emit | apply base_note | apply base_same_out; sc_rw; reflexivity].

Lemma hsame_emit c o : hsame c (emit c o). Proof. hsame_tac. Qed.
Lemma hsame_note c o : hsame c (note c o). Proof. hsame_tac. Qed.
Lemma hsame_write_reset c sid code : hsame c (write_reset c sid code). Proof. apply hsame_emit. Qed.
Lemma hsame_write_window_update c sid inc : hsame c (write_window_update c sid inc). Proof. apply hsame_emit. Qed.
Lemma hsame_upd_clientWindow c w : hsame c (upd_clientWindow c w). Proof. hsame_tac. Qed.
Lemma hsame_upd_currentWindow c w : hsame c (upd_currentWindow c w). Proof. hsame_tac. Qed.
Lemma hsame_upd_enc c e : hsame c (upd_enc c e). Proof. hsame_tac. Qed.
Lemma hsame_upd_open c n : hsame c (upd_open c n). Proof. hsame_tac. Qed.
Lemma hsame_upd_initWin c n : hsame c (upd_initWin c n). Proof. hsame_tac. Qed.
Lemma hsame_upd_gone c l : hsame c (upd_gone c l). Proof. hsame_tac. Qed.

Lemma hsame_release_stream c s : hsame c (release_stream c s).
Proof.
  unfold release_stream. destruct (fkind_eqb _ _).
  - eapply hsame_trans; [apply hsame_upd_open | apply hsame_note].
  - apply hsame_note.
Qed.

Lemma hsame_credit_conn_window c n : hsame c (credit_conn_window cfg c n).
Proof.
  unfold credit_conn_window. destruct (_ <=? 0)%Z; [apply hsame_refl|]. destruct (_ <? _)%Z.
  - eapply hsame_trans; [apply hsame_upd_currentWindow | apply hsame_write_window_update].
  - apply hsame_upd_currentWindow.
Qed.

Lemma hsame_consume_recv_window c s fr n : hsame c (consume_recv_window cfg c s fr n).
Proof.
  unfold consume_recv_window. destruct (_ <=? 0)%Z; [apply hsame_refl|]. destruct (flag_has _ _).
  - apply hsame_credit_conn_window.
  - eapply hsame_trans; [apply hsame_write_window_update | apply hsame_credit_conn_window].
Qed.

(* ---------- sending ---------- *)
Lemma hsame_send_data_loop fuel : forall c sid n, hsame c (fst (fst (fst (send_data_loop fuel c sid n)))).
Proof.
  induction fuel as [|fuel IH]; intros c sid n; cbn [send_data_loop]; [apply hsame_refl|].
  assert (GO : forall c0 n0, hsame c0 (fst (fst (fst
     (let avail := zmin (sn_window n0) (sc_clientWindow c0) in
      if (avail <=? 0)%Z then (c0, n0, false, false)
      else
        let step := zmin (zmin (Z.of_N maxDataFrameSize) avail) (Z.of_N (len (sn_pending n0))) in
        let chunk := takeN (Z.to_N step) (sn_pending n0) in
        let rest := dropN (Z.to_N step) (sn_pending n0) in
        let e := sn_pendingEnd n0 && match rest with [] => true | _ => false end in
        let c1 := emit c0 (OData sid e chunk) in
        let c2 := upd_clientWindow c1 (sc_clientWindow c1 - step) in
        let n' := mkSnd (sn_window n0 - step) rest (sn_pendingEnd n0) (sn_bodyStream n0) (sn_bodySize n0) (sn_bodyRead n0) in
        if e then (c2, n', true, false) else send_data_loop fuel c2 sid n'))))).
  { intros c0 n0. cbv zeta. destruct (_ <=? 0)%Z; [apply hsame_refl|].
    match goal with |- context [emit c0 ?o] => set (oo := o) end.
    assert (L1 : hsame c0 (upd_clientWindow (emit c0 oo)
       (sc_clientWindow (emit c0 oo) - zmin (zmin (Z.of_N maxDataFrameSize) (zmin (sn_window n0) (sc_clientWindow c0))) (Z.of_N (len (sn_pending n0)))))).
    { eapply hsame_trans; [apply hsame_emit | apply hsame_upd_clientWindow]. }
    destruct (_ && _)%bool; cbn [fst]; [exact L1|].
    eapply hsame_trans; [exact L1 | apply IH]. }
  destruct (sn_pending n) eqn:EP.
  - destruct (sn_bodyStream n); [|apply hsame_refl].
    destruct (refill_pending n) as [n1|].
    + destruct (sn_pending n1) eqn:EP1.
      * cbn [fst]. destruct (sn_pendingEnd n1); [apply hsame_emit | apply hsame_refl].
      * rewrite <- EP1. apply GO.
    + cbn [fst]. apply hsame_write_reset.
  - rewrite <- EP. apply GO.
Qed.

Lemma hsame_send_data c s : hsame c (fst (fst (send_data c s))).
Proof.
  unfold send_data.
  pose proof (hsame_send_data_loop (send_data_fuel (get_snd s)) c (st_id s) (get_snd s)) as L.
  destruct (send_data_loop _ c (st_id s) (get_snd s)) as [[[c1 n1] dn] wr]. exact L.
Qed.

Lemma tr_send_data k c s : tr k s (snd (fst (send_data c s))).
Proof.
  unfold send_data. destruct (send_data_loop _ c (st_id s) (get_snd s)) as [[[c1 n1] dn] wr]. cbn [fst snd].
  destruct wr; [eapply tr_trans; [apply tr_set_snd | apply tr_set_weReset] | apply tr_set_snd].
Qed.

Lemma hsame_finish_request c s r : hsame c (fst (fst (finish_request enc_field c s r))).
Proof.
  unfold finish_request. destruct (response_block enc_field (sc_enc c) r) as [blk e'].
  match goal with |- context [emit (upd_enc c e') ?o] => set (oo := o) end.
  assert (L1 : hsame c (emit (upd_enc c e') oo)) by (eapply hsame_trans; [apply hsame_upd_enc | apply hsame_emit]).
  destruct (negb _); [exact L1|].
  eapply hsame_trans; [exact L1 | apply hsame_send_data].
Qed.

Lemma tr_finish_request k c s r : tr k s (snd (fst (finish_request enc_field c s r))).
Proof.
  unfold finish_request. destruct (response_block enc_field (sc_enc c) r) as [blk e'].
  destruct (negb _); [apply tr_refl|]. cbn [fst snd].
  eapply tr_trans; [|apply tr_send_data]. apply tr_set_snd.
Qed.

(* ---------- working copies ---------- *)
(* s is a working copy of the table stream with its id *)
Definition wk (k : bool) c (s : stream) : Prop := exists s0, strms_search (sc_strms c) (st_id s) = Some s0 /\ tr k s0 s.

Lemma wk_found k c id s : strms_search (sc_strms c) id = Some s -> wk k c s.
Proof. intro H. exists s. destruct (strms_search_In _ _ _ H) as [_ E]. rewrite E. split; [assumption | apply tr_refl]. Qed.
Lemma wk_hsame k c c' s : hsame c c' -> wk k c s -> wk k c' s.
Proof. intros (_ & _ & _ & _ & E & _) (s0 & H & T). exists s0. rewrite E. auto. Qed.
Lemma wk_tr k c s x : wk k c s -> tr k s x -> wk k c x.
Proof. intros (s0 & H & T) T2. exists s0. rewrite (tr_id _ _ _ _ T2). split; [assumption | eapply tr_trans; eassumption]. Qed.

Lemma hmvs_put k c x : wk k c x -> hmvs k c (put c x).
Proof. intros (s0 & H & T). apply hmvs_one. eapply hmv_put; eassumption. Qed.

Lemma wk_put k c x : wk k c x -> strms_search (sc_strms (put c x)) (st_id x) = Some x.
Proof. intros (s0 & H & _). rewrite sc_strms_put. eapply iso_search_put_same. exact H. Qed.

Lemma hmvs_put_close k c x : wk k c x -> close_ok k x -> hmvs k c (close_stream (put c x) x).
Proof.
  intros W OK. eapply hmvs_trans; [apply hmvs_put; exact W|].
  apply hmvs_one. eapply hm_close; [eapply wk_put; exact W | apply tr_refl | exact OK].
Qed.

Lemma hmvs_put_maybe_close k c x : wk k c x -> (st_state x = SClosed -> close_ok k x) ->
  hmvs k c (if sstate_eqb (st_state x) SClosed then close_stream (put c x) x else put c x).
Proof.
  intros W OK. destruct (sstate_eqb (st_state x) SClosed) eqn:E; [|apply hmvs_put; exact W].
  apply hmvs_put_close; [exact W|]. apply OK. destruct (st_state x); try discriminate. reflexivity.
Qed.

Lemma hmvs_brk_if k (b : bool) c : (b = true -> sc_closing c = true) -> hmvs k c (fst (if b then brk c else cont c)).
Proof. intro H. destruct b; [apply hmvs_one, hm_brk; auto | constructor]. Qed.

(* ---------- flushStreams ---------- *)
(* what flush_loop knows about the streams it is going to close (only needed for strict sequences) *)
Definition answered (k : bool) c (ids : list N) : Prop :=
  k = true -> NoDup (map st_id (sc_strms c)) /\
              (forall s, In s (sc_strms c) -> In (st_id s) ids -> st_responded s = true).

Lemma hmvs_close_all k ids : forall c, answered k c ids -> hmvs k c (close_all c ids).
Proof.
  induction ids as [|id t IH]; intros c R; cbn [close_all]; [constructor|].
  destruct (strms_search (sc_strms c) id) as [s|] eqn:E.
  - destruct (strms_search_In _ _ _ E) as [Is Ei].
    eapply hmvs_trans.
    + apply hmvs_one. apply hm_close with (s := s) (x := set_state s SClosed).
      * cbn [set_state st_id]. rewrite Ei. exact E.
      * apply tr_set_state_closed. intros K _. right. apply (R K); [assumption | left; auto].
      * intros K _. right. cbn [set_state st_responded]. apply (R K); [assumption | left; auto].
    + apply IH. intro K. destruct (R K) as [ND Rs]. rewrite sc_strms_close_stream. split; [apply iso_del_NoDup; exact ND|].
      intros y Iy Ht. apply Rs; [eapply strms_del_In; eassumption | right; assumption].
  - apply IH. intro K. destruct (R K) as [ND Rs]. split; [exact ND|]. intros y Iy Ht. apply Rs; [assumption | right; assumption].
Qed.

Lemma hmvs_flush_loop k ids : forall c done, answered k c done ->
  hmvs k c (fst (flush_loop c ids done)) /\ answered k (fst (flush_loop c ids done)) (snd (flush_loop c ids done)).
Proof.
  induction ids as [|id t IH]; intros c done R; cbn [flush_loop]; [split; [constructor | exact R]|].
  destruct (strms_search (sc_strms c) id) as [s|] eqn:E; [|apply IH; exact R].
  destruct (st_responded s && negb (st_handlerRunning s) && has_more_to_send s)%bool eqn:Cnd; [|apply IH; exact R].
  apply andb_prop in Cnd. destruct Cnd as [Cnd _]. apply andb_prop in Cnd. destruct Cnd as [Rs _].
  pose proof (hsame_send_data c s) as L. pose proof (tr_send_data k c s) as T.
  destruct (send_data c s) as [[c1 s1] fin]. cbn [fst snd] in *.
  destruct (strms_search_In _ _ _ E) as [Is Ei].
  assert (W1 : wk k c1 s1). { eapply wk_hsame; [exact L|]. eapply wk_tr; [eapply wk_found; exact E | exact T]. }
  assert (R1 : st_responded s1 = true) by (eapply tr_responded; eassumption).
  destruct (IH (put c1 s1) (if fin then done ++ [id] else done)) as [M Rn].
  - intro K. destruct (R K) as [ND Rd]. destruct L as (_ & _ & _ & _ & ES & _).
    rewrite sc_strms_put, strms_put_ids, ES. split; [exact ND|].
    intros y Iy Hd. destruct (strms_put_In _ _ _ Iy) as [->|Iy']; [exact R1|].
    assert (Hd' : In (st_id y) done \/ st_id y = id).
    { destruct fin; [|left; exact Hd]. apply in_app_or in Hd. destruct Hd as [Hd|[Hd|[]]]; [left | right]; auto. }
    destruct Hd' as [Hd'|Ey]; [apply Rd; assumption|].
    pose proof (iso_NoDup_search _ _ ND Iy') as Sy. rewrite Ey, E in Sy. inversion Sy; subst. exact Rs.
  - split; [|exact Rn]. eapply hmvs_trans; [apply hmvs_same; exact L|].
    eapply hmvs_trans; [apply hmvs_put; exact W1 | exact M].
Qed.

Lemma hmvs_flush_streams k c : (k = true -> NoDup (map st_id (sc_strms c))) -> hmvs k c (flush_streams c).
Proof.
  intro ND. unfold flush_streams.
  destruct (hmvs_flush_loop k (map st_id (sc_strms c)) c []) as [M R].
  - intro K. split; [auto | intros s _ []].
  - destruct (flush_loop c (map st_id (sc_strms c)) []) as [c1 done]. cbn [fst snd] in *.
    eapply hmvs_trans; [exact M | apply hmvs_close_all; exact R].
Qed.

(* ---------- hsame, component by component ---------- *)
Lemma hsame_strms c c' : hsame c c' -> sc_strms c' = sc_strms c. Proof. unfold hsame. tauto. Qed.
Lemma hsame_closing c c' : hsame c c' -> sc_closing c' = sc_closing c. Proof. unfold hsame. tauto. Qed.
Lemma hsame_sl_done c c' : hsame c c' -> sc_sl_done c' = sc_sl_done c. Proof. unfold hsame. tauto. Qed.
Lemma hsame_lastID c c' : hsame c c' -> sc_lastID c' = sc_lastID c. Proof. unfold hsame. tauto. Qed.

(* putting a working copy over the table entry commutes with everything that leaves the table alone *)
Lemma strms_put_put l s x : st_id x = st_id s -> strms_put (strms_put l s) x = strms_put l x.
Proof.
  intro E. induction l as [|y t IH]; cbn [strms_put]; [reflexivity|].
  destruct (st_id y =? st_id s) eqn:Es; cbn [strms_put].
  - replace (st_id s =? st_id x) with true by lia. replace (st_id y =? st_id x) with true by lia. reflexivity.
  - replace (st_id y =? st_id x) with false by lia. rewrite IH. reflexivity.
Qed.
Lemma put_put c s x : st_id x = st_id s -> put (put c s) x = put c x.
Proof. intro E. unfold put. sc_cbn. rewrite strms_put_put by exact E. reflexivity. Qed.

Lemma hsame_put_lift c c2 s : hsame c c2 -> hsame (put c s) (put c2 s).
Proof.
  unfold hsame, base, put, oext. sc_cbn. intros (A1 & A2 & A3 & A4 & A5 & A6 & A7 & A8 & A9 & A10 & A11 & A12 & A13).
  rewrite A5. repeat (split; [assumption || reflexivity|]). assumption.
Qed.

Definition inT c (s : stream) : Prop := exists s0, strms_search (sc_strms c) (st_id s) = Some s0.
Lemma inT_hsame c c' s : hsame c c' -> inT c s -> inT c' s.
Proof. intros H [s0 E]. exists s0. rewrite (hsame_strms _ _ H). exact E. Qed.
Lemma wk_put_self k c s : inT c s -> wk k (put c s) s.
Proof. intros [s0 E]. exists s. split; [rewrite sc_strms_put; eapply iso_search_put_same; exact E | apply tr_refl]. Qed.
Lemma wk_inT k c s : wk k c s -> inT c s.
Proof. intros (s0 & E & _). exists s0. exact E. Qed.

(* from "s has been written back" to "x (an evolution of s) has been written back (and closed)", the
   connection having gone from c to c2 meanwhile without touching the table *)
Lemma hmvs_reput k c c2 s x : inT c s -> hsame c c2 -> tr k s x -> hmvs k (put c s) (put c2 x).
Proof.
  intros I H T. eapply hmvs_trans; [apply hmvs_same, hsame_put_lift; exact H|].
  rewrite <- (put_put c2 s x) by (eapply tr_id; exact T).
  apply hmvs_put. eapply wk_tr; [apply wk_put_self; eapply inT_hsame; eassumption | exact T].
Qed.

Lemma hmvs_reput_maybe_close k c c2 s x : inT c s -> hsame c c2 -> tr k s x -> (st_state x = SClosed -> close_ok k x) ->
  hmvs k (put c s) (if sstate_eqb (st_state x) SClosed then close_stream (put c2 x) x else put c2 x).
Proof.
  intros I H T OK.
  assert (W : wk k (put c2 s) x) by (eapply wk_tr; [apply wk_put_self; eapply inT_hsame; eassumption | exact T]).
  eapply hmvs_trans; [apply hmvs_same, hsame_put_lift; exact H|].
  rewrite <- (put_put c2 s x) by (eapply tr_id; exact T).
  apply hmvs_put_maybe_close; assumption.
Qed.

Lemma sc_closing_put_maybe_close c x :
  sc_closing (if sstate_eqb (st_state x) SClosed then close_stream (put c x) x else put c x) = sc_closing c.
Proof. destruct (sstate_eqb _ _); sc_rw; reflexivity. Qed.

(* ---------- after_frame ---------- *)
Lemma hmvs_after_frame k c s fr wc : inT c s -> (wc = true -> sc_closing c = true) ->
  (st_state (handle_state fr s) = SClosed -> close_ok k s) ->
  hmvs k (put c s) (fst (after_frame cfg c s fr wc)).
Proof.
  intros I WC OK. unfold after_frame.
  pose proof (tr_handle_state own k fr s OK) as T1. set (s1 := handle_state fr s) in *.
  assert (OK1 : st_state s1 = SClosed -> close_ok k s1).
  { intros E K Hf. rewrite (tr_hf _ _ _ _ T1) in Hf. destruct (OK E K Hf) as [W|R]; [left | right].
    - destruct T1 as (_ & _ & _ & _ & _ & _ & T6 & _). auto.
    - eapply tr_responded; eassumption. }
  clearbody s1.
  assert (FIN : forall c2 x, hsame c c2 -> tr k s x -> (st_state x = SClosed -> close_ok k x) ->
    hmvs k (put c s) (fst (let c3 := if sstate_eqb (st_state x) SClosed then close_stream (put c2 x) x else put c2 x in
                           if wc && can_close_after_goaway c3 then brk c3 else cont c3))).
  { intros c2 x H T OKx. cbv zeta. eapply hmvs_trans; [apply hmvs_reput_maybe_close; eassumption|].
    apply hmvs_brk_if. intro B. apply andb_prop in B. destruct B as [B _].
    rewrite sc_closing_put_maybe_close, (hsame_closing _ _ H). auto. }
  destruct (sstate_eqb (st_state s1) SHalfClosed && st_headersFinished s1 && negb (st_responded s1))%bool eqn:Cnd.
  - apply andb_prop in Cnd. destruct Cnd as [Cnd Hr]. apply andb_prop in Cnd. destruct Cnd as [Hs Hf].
    assert (Hst : st_state s1 = SHalfClosed) by (destruct (st_state s1); try discriminate; reflexivity).
    destruct (st_hasCL _ && negb _)%bool.
    + apply FIN.
      * apply hsame_write_reset.
      * eapply tr_trans; [exact T1|]. eapply tr_trans; [apply tr_respond; [exact Hf | rewrite Hst; cbn; lia]|].
        apply tr_reset_closed.
      * intros _ _ _. left. reflexivity.
    + apply FIN.
      * apply hsame_note.
      * eapply tr_trans; [exact T1|]. eapply tr_trans; [apply tr_respond; [exact Hf | rewrite Hst; cbn; lia]|].
        apply tr_respond; cbn [set_flags st_headersFinished st_state]; [exact Hf | rewrite Hst; cbn; lia].
      * cbn [set_flags st_state]. rewrite Hst. discriminate.
  - destruct (st_responded s1 && negb (st_handlerRunning s1) && has_more_to_send s1)%bool eqn:Snd.
    + apply andb_prop in Snd. destruct Snd as [Snd _]. apply andb_prop in Snd. destruct Snd as [Rs _].
      pose proof (hsame_send_data c s1) as L. pose proof (tr_send_data k c s1) as T.
      destruct (send_data c s1) as [[c1 s2] fin]. cbn [fst snd] in *.
      assert (R2 : st_responded s2 = true) by (eapply tr_responded; eassumption).
      apply FIN.
      * exact L.
      * eapply tr_trans; [exact T1|]. destruct fin; [eapply tr_trans; [exact T | apply tr_set_state_closed; intros _ _; right; exact R2] | exact T].
      * intros _ _ _. right. destruct fin; [cbn [set_state st_responded]|]; exact R2.
    + apply FIN; [apply hsame_refl | exact T1 | exact OK1].
Qed.

(* ---------- what follows handle_frame ---------- *)
Definition ftail_rest (c3 : sconn) (s3 : stream) (e : option h2err) (fr : sframe) (wasClosing : bool) : sconn * bool :=
  match e with
  | Some e =>
    let '(c4, s4) := write_error c3 (Some s3) e in
    let s5 := match s4 with Some x => set_state x SClosed | None => set_state s3 SClosed end in
    match e with
    | EGoAway code => if negb (code =? c_NoError) then brk (put c4 s5) else after_frame cfg c4 s5 fr wasClosing
    | EReset _ => after_frame cfg c4 s5 fr wasClosing
    | EPanic => brk (note c3 (OPanic 1 0))
    end
  | None => after_frame cfg c3 s3 fr wasClosing
  end.

Lemma write_goaway_upd_strms c l sid code : write_goaway (upd_strms c l) sid code = upd_strms (write_goaway c sid code) l.
Proof. unfold write_goaway, emit. sc_cbn. destruct (sc_wl_dead c); [reflexivity|]. destruct (sc_sl_done c); reflexivity. Qed.
Lemma write_goaway_put c s sid code : write_goaway (put c s) sid code = put (write_goaway c sid code) s.
Proof. unfold put. rewrite write_goaway_upd_strms. sc_rw. reflexivity. Qed.
Lemma note_upd_strms c l o : note (upd_strms c l) o = upd_strms (note c o) l.
Proof. reflexivity. Qed.

Lemma hmvs_ftail_rest k c3 s3 e fr wc : inT c3 s3 -> (wc = true -> sc_closing c3 = true) ->
  (e = None -> st_state (handle_state fr s3) = SClosed -> close_ok k s3) ->
  (forall code, e = Some (EGoAway code) -> (code =? c_NoError) = false) ->
  hmvs k (put c3 s3) (fst (ftail_rest c3 s3 e fr wc)).
Proof.
  intros I WC OK NE. unfold ftail_rest. destruct e as [[code|code|]|].
  - (* a connection error: GOAWAY, the loop ends; the table is not read any more *)
    cbn [write_error]. rewrite (NE code eq_refl). cbn [negb].
    apply hmvs_one, hm_fatal.
    + unfold brk, note, put. sc_cbn. sc_rw. reflexivity.
    + unfold base, oext, brk, note, put. sc_cbn. sc_rw. repeat split; try reflexivity.
      rewrite sc_out_write_goaway. destruct (sc_wl_dead c3); [exists [OExit 1 0]; reflexivity|].
      destruct (sc_sl_done c3); eexists [_; _]; reflexivity.
    + reflexivity.
    + right. unfold brk, note, put. sc_cbn. sc_rw. split; [apply sc_closing_write_goaway|].
      intro W. rewrite gcount_cons. cbn [conn_err_out].
      pose proof (gcount_write_goaway _ c3 (st_id s3) code W) as G. lia.
    + intro W. unfold brk, note, put. sc_cbn. rewrite gcount_cons. cbn [conn_err_out].
      pose proof (gcount_write_goaway _ c3 (st_id s3) code W) as G. lia.
  - cbn [write_error].
    eapply hmvs_trans; [|apply hmvs_after_frame].
    + apply hmvs_reput; [exact I | apply hsame_write_reset|].
      eapply tr_trans; [apply tr_reset_closed|]. apply tr_set_state_closed. intros _ _. left. reflexivity.
    + destruct I as [s0 E]. exists s0. sc_rw. exact E.
    + sc_rw. exact WC.
    + intros _ _ _. left. reflexivity.
  - cbn [write_error].
    (* the table write-back is lost in the panic: the loop has ended, nothing reads the table any more *)
    apply hmvs_one. apply hm_fatal.
    + reflexivity.
    + unfold base, oext, brk, note, put. sc_cbn. repeat split; try reflexivity. exists [OExit 1 0; OPanic 1 0]. reflexivity.
    + reflexivity.
    + left. split; reflexivity.
    + intros _. unfold brk, note, put. sc_cbn. rewrite !gcount_cons. cbn [conn_err_out]. lia.
  - apply hmvs_after_frame; [exact I | exact WC | apply OK; reflexivity].
Qed.

(* ---------- implicit close (RFC 5.1.1), the request timer ---------- *)
Lemma head_search (n : stream) t : strms_search (n :: t) (st_id n) = Some n.
Proof. cbn [strms_search]. rewrite N.eqb_refl. reflexivity. Qed.

Lemma hmvs_implicit_close k fuel : forall c sid,
  hmvs k c (implicit_close fuel c sid) /\ (forall id, sid <= id -> strms_search (sc_strms (implicit_close fuel c sid)) id = strms_search (sc_strms c) id) /\ sc_closing (implicit_close fuel c sid) = sc_closing c.
Proof.
  induction fuel as [|fuel IH]; intros c sid; cbn [implicit_close]; [split; [apply hms_nil | split; reflexivity]|].
  destruct (sc_strms c) as [|n t] eqn:E; [split; [apply hms_nil | split; [intros; rewrite ?E; reflexivity | reflexivity]]|].
  destruct ((st_id n <? sid) && sstate_eqb (st_state n) SIdle && fkind_eqb (st_orig n) KHeaders)%bool eqn:Cnd;
    [|split; [apply hms_nil | split; [intros; rewrite ?E; reflexivity | reflexivity]]].
  apply andb_prop in Cnd. destruct Cnd as [Cnd _]. apply andb_prop in Cnd. destruct Cnd as [Lt _].
  set (x := set_state (set_weReset n) SClosed).
  destruct (IH (write_reset (close_stream c x) (st_id n) c_StreamCanceled) sid) as (M & S & C).
  split; [|split].
  - eapply hmvs_trans; [|eapply hmvs_trans; [apply hmvs_same, hsame_write_reset | exact M]].
    apply hmvs_one. apply hm_close with (s := n).
    + rewrite E. exact (head_search n t).
    + apply tr_reset_closed.
    + intros _ _. left. reflexivity.
  - intros id Hid. rewrite S by exact Hid. rewrite sc_strms_write_reset, sc_strms_close_stream, E.
    apply iso_search_del_other. cbn [x set_state set_weReset st_id]. lia.
  - rewrite C. sc_rw. reflexivity.
Qed.

Lemma hmvs_close_heads k n : forall c, hmvs k c (close_heads n c).
Proof.
  induction n as [|n IH]; intro c; cbn [close_heads]; [constructor|].
  destruct (sc_strms c) as [|s t] eqn:E; [constructor|].
  eapply hmvs_trans; [apply hmvs_same, (hsame_write_reset c (st_id s) c_StreamCanceled)|].
  eapply hmvs_trans; [|apply IH].
  apply hmvs_one. apply hm_close with (s := s).
  - rewrite sc_strms_write_reset, E. exact (head_search s t).
  - apply tr_reset_closed.
  - intros _ _. left. reflexivity.
Qed.

Theorem hmvs_sl_timer k c : hmvs k c (fst (sl_timer cfg c)).
Proof. unfold sl_timer. destruct (_ <=? 0)%Z; cbn [fst cont]; [constructor | apply hmvs_close_heads]. Qed.

(* ---------- a handler returns ---------- *)
Theorem hmvs_sl_done k c sid r :
  (k = true -> forall s, strms_search (sc_strms c) sid = Some s -> st_handlerRunning s = true -> st_responded s = true) ->
  hmvs k c (fst (sl_done enc_field cfg c sid r)).
Proof.
  intro PRE. unfold sl_done.
  destruct (take_stream (sc_gone c) sid) as [[s rest]|].
  { cbn [cont fst]. apply hmvs_same. eapply hsame_trans; [apply hsame_upd_gone | apply hsame_release_stream]. }
  destruct (strms_search (sc_strms c) sid) as [s|] eqn:E; [|constructor].
  destruct (st_handlerRunning s) eqn:Run; cbn [negb]; [|constructor].
  set (s1 := set_flags s (st_responded s) false (st_abandoned s)).
  pose proof (hsame_finish_request c s1 r) as L. pose proof (tr_finish_request k c s1 r) as T.
  destruct (finish_request enc_field c s1 r) as [[c1 s2] fin]. cbn [fst snd] in *.
  assert (T2 : tr k s s2) by (eapply tr_trans; [apply tr_done_flags | exact T]).
  assert (W : wk k c s) by (eapply wk_found; exact E).
  assert (M : hmvs k c (if fin then close_stream (put c1 (set_state s2 SClosed)) (set_state s2 SClosed) else put c1 s2)).
  { eapply hmvs_trans; [apply hmvs_same; exact L|]. destruct fin.
    - assert (OKc : close_ok k s2).
      { intros K _. right. eapply tr_responded; [exact T2|]. apply (PRE K s); auto. }
      apply hmvs_put_close.
      + eapply wk_hsame; [exact L|]. eapply wk_tr; [exact W|]. eapply tr_trans; [exact T2 | apply tr_set_state_closed; exact OKc].
      + intros K Hf. destruct (OKc K Hf) as [Wr|Rs]; [left | right]; assumption.
    - apply hmvs_put. eapply wk_hsame; [exact L|]. eapply wk_tr; eassumption. }
  set (c2 := if fin then _ else _) in *. clearbody c2.
  eapply hmvs_trans; [exact M|]. apply hmvs_brk_if. intro B. apply andb_prop in B. tauto.
Qed.

(* ---------- handle_frame on anything but HEADERS / CONTINUATION ---------- *)
Definition is_hdr_kind (k : fkind) : bool := fkind_eqb k KHeaders || fkind_eqb k KCont.

Lemma handle_frame_other k c s fr : is_hdr_kind (sf_kind fr) = false -> (sf_kind fr = KData -> st_id s = own) ->
  hsame c (fst (fst (handle_frame dec_field cfg c s fr))) /\ tr k s (snd (fst (handle_frame dec_field cfg c s fr))) /\ (forall code, snd (handle_frame dec_field cfg c s fr) = Some (EGoAway code) -> (code =? c_NoError) = false) /\ snd (handle_frame dec_field cfg c s fr) <> Some EPanic.
Proof.
  intros NK EO. unfold handle_frame.
  destruct (verify_state s fr) as [e|] eqn:V.
  { cbn [fst snd]. split; [apply hsame_refl|]. split; [apply tr_refl|]. split.
    - intros code Ec. inversion Ec; subst. unfold verify_state in V.
      destruct (st_state s); try discriminate;
      repeat match type of V with context [if ?b then _ else _] => destruct b end; inversion V; reflexivity.
    - intro Ec. inversion Ec; subst. unfold verify_state in V.
      destruct (st_state s); try discriminate;
      repeat match type of V with context [if ?b then _ else _] => destruct b end; inversion V. }
  destruct (sf_kind fr); try discriminate NK;
  repeat match goal with |- context [if ?b then _ else _] => destruct b end; cbn [fst snd];
  (split; [first [apply hsame_refl | apply hsame_credit_conn_window | apply hsame_consume_recv_window]|]);
  (split; [first [apply tr_refl | apply tr_set_recv; apply EO; reflexivity | apply tr_set_window]|]);
  (split; [intros code Ec; inversion Ec; reflexivity | intro Ec; discriminate Ec]).
Qed.

(* ---------- the frame once its stream is known: prelude, handle_frame, what follows ---------- *)
Definition ftail (c2 : sconn) (s : stream) (fr : sframe) (wasClosing : bool) : sconn * bool :=
  let '(c3, s3, e) := handle_frame dec_field cfg c2 s fr in ftail_rest c3 s3 e fr wasClosing.

Definition fwork (c1 : sconn) (s : stream) (fr : sframe) (wasClosing : bool) : sconn * bool :=
  let pre2 : (sconn * bool) + sconn :=
    if fkind_eqb (sf_kind fr) KHeaders then
      match get_previous_headers (sc_strms c1) with
      | Some p =>
        if negb (st_headersFinished p) then
          let '(c2, p') := write_error c1 (Some p) (EGoAway c_ProtocolError) in
          inl (cont (match p' with Some p' => put c2 p' | None => c2 end))
        else inr (implicit_close (S (length (sc_strms c1))) c1 (st_id s))
      | None => inr (implicit_close (S (length (sc_strms c1))) c1 (st_id s))
      end
    else inr c1 in
  match pre2 with
  | inl r => r
  | inr c2 => ftail c2 s fr wasClosing
  end.

Lemma hmvs_ftail_other k c s fr wc : is_hdr_kind (sf_kind fr) = false -> (sf_kind fr = KData -> st_id s = own) -> wk k c s -> (wc = true -> sc_closing c = true) ->
  (k = true -> st_headersFinished s = true) ->
  hmvs k c (fst (ftail c s fr wc)).
Proof.
  intros NK EO W WC HF. unfold ftail.
  destruct (handle_frame_other k c s fr NK EO) as (L & T & NE & NP).
  destruct (handle_frame dec_field cfg c s fr) as [[c3 s3] e]. cbn [fst snd] in *.
  assert (W3 : wk k c3 s3) by (eapply wk_hsame; [exact L|]; eapply wk_tr; eassumption).
  eapply hmvs_trans; [apply hmvs_same; exact L|].
  eapply hmvs_trans; [apply hmvs_put; exact W3|].
  apply hmvs_ftail_rest.
  - eapply wk_inT. exact W3.
  - rewrite (hsame_closing _ _ L). exact WC.
  - intros _ _ K Hf. rewrite (tr_hf _ _ _ _ T), (HF K) in Hf. discriminate.
  - intros code Ec. apply NE. exact Ec.
Qed.

(* ---------- sl_frame on anything but a header-block fragment ---------- *)
Definition is_hdr_frame (fr : sframe) : bool := negb (sf_sid fr =? 0) && is_hdr_kind (sf_kind fr).

Lemma bumpall_tr k (delta : Z) : forall l pre,
  let r := (fix bumpall (pre : list stream) (l : list stream) {struct l} : list stream * bool :=
          match l with
          | [] => (pre, false)
          | s :: t =>
            let s' := set_window s (st_window s + delta) in
            if (MAXWIN <? st_window s')%Z then (pre ++ s' :: t, true) else bumpall (pre ++ [s']) t
          end) pre l in
  exists l', fst r = pre ++ l' /\ Forall2 (tr k) l l'.
Proof.
  induction l as [|s t IH]; intros pre.
  - exists []. rewrite app_nil_r. split; [reflexivity | constructor].
  - cbv zeta. cbv zeta in IH.
    destruct (MAXWIN <? st_window (set_window s (st_window s + delta)))%Z eqn:OV.
    + exists (set_window s (st_window s + delta) :: t). cbn [fst]. split; [reflexivity|].
      constructor; [apply tr_set_window | apply Forall2_tr_refl].
    + destruct (IH (pre ++ [set_window s (st_window s + delta)])) as (l' & E & F2).
      exists (set_window s (st_window s + delta) :: l'). split.
      * etransitivity; [exact E|]. rewrite <- app_assoc. reflexivity.
      * constructor; [apply tr_set_window | assumption].
Qed.

(* what the strict version needs to know: no header block is open *)
Definition no_open_block (k : bool) c : Prop :=
  k = true -> NoDup (map st_id (sc_strms c)) /\ (forall s, In s (sc_strms c) -> st_headersFinished s = true).

Lemma hmvs_goaway_cont k c sid code : hmvs k c (fst (cont (write_goaway c sid code))).
Proof. cbn [cont fst]. apply hmvs_one, hm_goaway. Qed.

Theorem hmvs_sl_frame_other k c fr : is_hdr_frame fr = false -> (sf_kind fr = KData -> sf_sid fr = own) -> no_open_block k c ->
  hmvs k c (fst (sl_frame dec_field enc_set_max cfg c fr)).
Proof.
  intros NH EO PRE. unfold sl_frame. unfold is_hdr_frame in NH.
  destruct (sf_sid fr =? 0) eqn:Z0.
  { (* connection-level frames *)
    destruct (sf_kind fr); try (cbn [cont fst]; constructor).
    - (* SETTINGS *)
      set (c0 := if sf_set_hastable fr then upd_enc c (enc_set_max (sc_enc c) (sf_set_table fr)) else c).
      assert (L0 : hsame c c0) by (subst c0; destruct (sf_set_hastable fr); [apply hsame_upd_enc | apply hsame_refl]).
      eapply hmvs_trans; [apply hmvs_same; exact L0|].
      destruct (sf_set_haswin fr).
      + cbv zeta.
        match goal with |- context [let '(aa, bb) := ?B in _] =>
          assert (BS : exists l', fst B = [] ++ l' /\ Forall2 (tr k) (sc_strms (upd_initWin c0 (signed 32 (sf_set_win fr)))) l')
            by (apply (bumpall_tr k (signed 32 (sf_set_win fr) - sc_initWin c0)));
          destruct B as [lB over] end.
        destruct BS as (lq & E & F2). cbn [fst app] in E. subst lB.
        set (c1 := upd_initWin c0 (signed 32 (sf_set_win fr))) in *.
        eapply hmvs_trans; [apply hmvs_same, (hsame_upd_initWin c0 (signed 32 (sf_set_win fr)))|]. fold c1.
        eapply hmvs_trans; [apply hmvs_one, (hm_map _ own k c1 lq); exact F2|].
        destruct over.
        * eapply hmvs_trans; [apply hmvs_one; apply hm_goaway with (sid := 0) (code := c_FlowControlError)|].
          apply hmvs_one, hm_brk. apply sc_closing_write_goaway.
        * cbn [cont fst].
          eapply hmvs_trans; [apply hmvs_same, (hsame_emit (upd_strms c1 lq) OSettingsAck)|].
          apply hmvs_flush_streams. intro K. destruct (PRE K) as [ND _].
          rewrite sc_strms_emit. sc_cbn. rewrite (Forall2_tr_ids _ _ _ _ F2). unfold c1. sc_cbn.
          rewrite (hsame_strms _ _ L0). exact ND.
      + cbn [cont fst]. apply hmvs_same, hsame_emit.
    - (* WINDOW_UPDATE *)
      eapply hmvs_trans; [apply hmvs_same, (hsame_upd_clientWindow c (sc_clientWindow c + Z.of_N (sf_inc fr)))|].
      destruct (_ <? _)%Z.
      + eapply hmvs_trans; [apply hmvs_one; apply hm_goaway with (sid := 0) (code := c_FlowControlError)|].
        apply hmvs_one, hm_brk. apply sc_closing_write_goaway.
      + cbn [cont fst]. apply hmvs_flush_streams. intro K. destruct (PRE K) as [ND _]. exact ND. }
  cbn [negb andb] in NH.
  assert (KH : fkind_eqb (sf_kind fr) KHeaders = false) by (unfold is_hdr_kind in NH; apply orb_false_elim in NH; tauto).
  assert (KC : fkind_eqb (sf_kind fr) KCont = false) by (unfold is_hdr_kind in NH; apply orb_false_elim in NH; tauto).
  rewrite KC. cbn [andb]. cbv zeta.
  change (match ?pre with inl r => r | inr (c1, s) => _ end) with
    (match pre with inl r => r | inr (c1, s) => fwork c1 s fr (sc_closing c) end).
  assert (FW : forall c1 s, fwork c1 s fr (sc_closing c) = ftail c1 s fr (sc_closing c)).
  { intros c1 s. unfold fwork. rewrite KH. reflexivity. }
  destruct (if sf_sid fr <=? sc_lastID c then strms_search (sc_strms c) (sf_sid fr) else None) as [s|] eqn:Found.
  { (* a stream of the table *)
    rewrite FW. assert (SS : strms_search (sc_strms c) (sf_sid fr) = Some s) by (destruct (_ <=? _); [exact Found | discriminate]).
    apply hmvs_ftail_other; [exact NH | intro KD; destruct (strms_search_In _ _ _ SS) as [_ Ei]; rewrite Ei; auto | eapply wk_found; exact SS | auto|].
    intro K. destruct (PRE K) as [_ HF]. apply HF. apply strms_search_In in SS. tauto. }
  destruct (fkind_eqb (sf_kind fr) KRst).
  { destruct (_ && _)%bool; [apply hmvs_goaway_cont | constructor]. }
  destruct (in_ring c (sf_sid fr)).
  { destruct (sf_kind fr); try discriminate KH; try discriminate KC; try apply hmvs_goaway_cont; try (cbn [cont fst]; constructor).
    destruct (match ring_find c (sf_sid fr) with Some b => b | None => false end); [|apply hmvs_goaway_cont].
    cbn [cont fst]. apply hmvs_same, hsame_credit_conn_window. }
  destruct (fkind_eqb (sf_kind fr) KPriority) eqn:KP.
  { destruct (sf_dep fr =? sf_sid fr); cbn [cont fst]; [apply hmvs_same, hsame_write_reset | constructor]. }
  rewrite !KH. cbn [andb].
  destruct (sf_sid fr <? sc_lastID c); [apply hmvs_goaway_cont|].
  (* any other frame on an unknown stream: the stream is made, the frame is refused, the loop ends *)
  set (s := set_orig_started (new_stream (sf_sid fr) (sc_initWin c)) (sf_kind fr) (sc_now c)).
  rewrite FW. unfold ftail, handle_frame.
  assert (V : verify_state s fr = Some (EGoAway c_ProtocolError)).
  { unfold verify_state. cbn [s set_orig_started new_stream st_state]. rewrite KH, KP. reflexivity. }
  rewrite V. unfold ftail_rest. cbn [write_error].
  replace (negb (c_ProtocolError =? c_NoError)) with true by reflexivity.
  apply hmvs_one, hm_fatal.
  - unfold brk, note, put. sc_cbn. sc_rw. reflexivity.
  - unfold base, oext, brk, note, put. sc_cbn. sc_rw. repeat split; try reflexivity.
    rewrite sc_out_write_goaway. sc_cbn. destruct (sc_wl_dead c); [exists [OExit 1 0]; reflexivity|].
    destruct (sc_sl_done c); eexists [_; _]; reflexivity.
  - reflexivity.
  - right. unfold brk, note, put. sc_cbn. sc_rw. split; [apply sc_closing_write_goaway|].
    intro W. rewrite gcount_cons. cbn [conn_err_out]. sc_cbn.
    pose proof (gcount_write_goaway _ (upd_strms c (sc_strms c ++ [s])) (st_id s) c_ProtocolError W) as G. sc_cbn_in G. lia.
  - intro W. unfold brk, note, put. sc_cbn. rewrite gcount_cons. cbn [conn_err_out].
    pose proof (gcount_write_goaway _ (upd_strms c (sc_strms c ++ [s])) (st_id s) c_ProtocolError W) as G. sc_cbn_in G. lia.
Qed.

End Steps.

Arguments wk {hstate}. Arguments inT {hstate}. Arguments answered {hstate}. Arguments no_open_block {hstate}.
Arguments ftail_rest {hstate}. Arguments ftail {hstate}. Arguments fwork {hstate}.
