(* Proofs/SrvFlowCExactB.v - C06 completion: exact windows, part 2: flushStreams, afterFrame, the frame arm, every
   step, and the theorem over runs. *)
From H2V Require Import Base.Bytes Base.MachineInt Base.Result Gen.GenConsts Impl.ServerConn Proofs.SrvBase
  Spec.FlowLedger Proofs.SrvFlowLedger Proofs.SrvFlowDefs Proofs.SrvFlowSend Proofs.SrvFlowEff Proofs.SrvFlowSafe
  Proofs.SrvFlowSafeB Proofs.SrvFlowSafeC Proofs.SrvFlowRecv Proofs.SrvFlowStall Proofs.SrvFlowCDecomp Proofs.SrvFlowCRing Proofs.SrvFlowCExact.
From Coq Require Import ZArith Lia ZifyN ZifyNat ZifyBool List.
Import ListNotations.
Local Open Scope N_scope.
Set Default Proof Using "Type".

Section Exact2.
Variable hstate : Type.
Variable dec_field : hstate -> N -> bytes -> dec_res hstate.
Variable enc_field : hstate -> bytes -> bytes -> bool -> bytes * hstate.
Variable enc_set_max : hstate -> N -> hstate.
Variable cfg : config.
Notation sconn := (sconn hstate).
Implicit Types c : sconn.
Notation Sim := (SimX hstate None).
Notation LedOn := (LedOn hstate).
Notation ExX := (ExX hstate).
Notation RI := (RI hstate).

Lemma send_data_wl c s : sc_wl_dead (fst (fst (send_data c s))) = sc_wl_dead c.
Proof. apply (f_wl_dead _ _ _ (proj1 (send_data_NoCredit _ c s))). Qed.

(* a piece of a step that keeps the windows exact *)
Definition GoodX c (L : ledger) c' : Prop :=
  exists L', LedOn (fun _ => True) c L c' L' /\ (sc_sl_done c' = true \/ ExX None c' L').

Lemma flush_loop_exact ids : forall c done L, Sim c L -> ExX None c L -> sc_wl_dead c = false ->
  exists L', LedOn (fun _ => True) c L (fst (flush_loop c ids done)) L' /\ ExX None (fst (flush_loop c ids done)) L'.
Proof.
  induction ids as [|id t IH]; intros c done L S X WD; cbn [flush_loop].
  - exists L. split; [apply LedOn_refl | assumption].
  - destruct (strms_search (sc_strms c) id) as [s|] eqn:F; [|apply IH; assumption].
    destruct (st_responded s && negb (st_handlerRunning s) && has_more_to_send s); [|apply IH; assumption].
    apply strms_search_In in F. destruct F as [Hin Hid].
    assert (Hx : heldx L s) by (apply (x_strm _ _ _ _ X); [assumption | discriminate]).
    assert (Hle : st_id s <= sc_lastID c) by (apply (sim_le _ _ _ _ S); assumption).
    destruct (send_data_led _ None c s L S (or_introl eq_refl) (heldx_held _ _ Hx) Hle) as (L1 & Led & S1 & H1 & I1 & Lid).
    destruct (send_data_exact _ None c s L S X WD (or_introl eq_refl) Hx Hle) as (L1' & Led' & X1 & Hx1).
    assert (EL : L1' = L1) by (eapply LedOn_unique; eassumption). subst L1'.
    pose proof (send_data_wl c s) as W1.
    destruct (send_data c s) as [[c1 s1] fin]. cbn [fst snd] in *.
    assert (S2 : Sim (put c1 s1) L1).
    { eapply SimX_put; [exact S1 | right; congruence | exact H1 | rewrite I1, Lid; exact Hle]. }
    assert (X2 : ExX None (put c1 s1) L1).
    { eapply ExX_put; [exact X1 | apply (sim_nodup _ _ _ _ S1) | right; congruence | exact Hx1]. }
    destruct (IH (put c1 s1) (if fin then done ++ [id] else done) L1 S2 X2) as (L' & Led2 & X').
    { unfold put. sc_cbn. congruence. }
    exists L'. split; [|exact X'].
    eapply LedOn_trans; [eapply LedOn_weaken; [|exact Led]; auto|].
    eapply LedOn_trans; [|exact Led2]. apply LedOn_quiet. apply out_ext_same. reflexivity.
Qed.

Lemma flush_streams_exact c L : Sim c L -> ExX None c L -> sc_wl_dead c = false ->
  exists L', LedOn (fun _ => True) c L (flush_streams c) L' /\ ExX None (flush_streams c) L'.
Proof.
  intros S X WD. unfold flush_streams.
  destruct (flush_loop_exact (map st_id (sc_strms c)) c [] L S X WD) as (L' & Led & X').
  destruct (flush_loop c (map st_id (sc_strms c)) []) as [c1 done]. cbn [fst] in *.
  exists L'. split.
  - eapply LedOn_trans; [exact Led|]. apply LedOn_quiet. apply (close_all_Closes _ done c1).
  - eapply ExX_Closes; [apply close_all_Closes | exact X'].
Qed.

Lemma GoodX_brk_cont c L c' (b : bool) L' :
  LedOn (fun _ => True) c L c' L' -> ExX None c' L' -> GoodX c L (fst (if b then brk c' else cont c')).
Proof.
  intros Led S. destruct b; cbn [fst cont].
  - exists L'. split; [|left; reflexivity].
    eapply LedOn_trans; [exact Led|]. apply LedOn_quiet. apply (q_out _ _ _ (Quiet_brk _ c')).
  - exists L'. split; [exact Led | right; exact S].
Qed.

Lemma after_frame_exact ex c s fr wc L :
  SimX hstate ex c L -> ExX ex c L -> sc_wl_dead c = false ->
  (ex = None \/ ex = Some (st_id s)) -> heldx L s -> st_id s <= sc_lastID c ->
  GoodX c L (fst (after_frame cfg c s fr wc)).
Proof.
  intros S X WD Hex Hx Hid. unfold after_frame. cbv zeta.
  destruct (handle_state_eff fr s) as ((I1 & W1 & _) & _).
  set (s1 := handle_state fr s) in *.
  assert (Hx1 : heldx L s1) by (eapply heldx_same_win; eassumption).
  assert (M : exists c2 s2 L2,
             (if sstate_eqb (st_state s1) SHalfClosed && st_headersFinished s1 && negb (st_responded s1) then
                  let s2 := set_flags s1 true (st_handlerRunning s1) (st_abandoned s1) in
                  if st_hasCL s2 && negb (st_recvBody s2 =? st_contentLength s2)%Z then
                    (write_reset c (st_id s2) c_ProtocolError, set_state (set_weReset s2) SClosed)
                  else
                    (note c (ODispatch (st_id s2) (st_req s2)), set_flags s2 true true (st_abandoned s2))
                else if st_responded s1 && negb (st_handlerRunning s1) && has_more_to_send s1 then
                  let '(c1, s2, fin) := send_data c s1 in
                  (c1, if fin then set_state s2 SClosed else s2)
                else (c, s1)) = (c2, s2) /\
             LedOn (fun _ => True) c L c2 L2 /\ SimX hstate (Some (st_id s)) c2 L2 /\ ExX (Some (st_id s)) c2 L2 /\
             heldx L2 s2 /\ st_id s2 = st_id s).
  { destruct (sstate_eqb (st_state s1) SHalfClosed && st_headersFinished s1 && negb (st_responded s1)).
    - cbv zeta. match goal with |- context [if ?b then _ else _] => destruct b end.
      + eexists _, _, L. split; [reflexivity|]. split; [apply LedOn_quiet, (q_out _ _ _ (Quiet_write_reset _ c _ _))|].
        split; [eapply SimX_Quiet; [apply Quiet_write_reset | eapply SimX_some; eassumption]|].
        split; [eapply ExX_Quiet; [apply Quiet_write_reset | eapply ExX_some; eassumption]|].
        split; [eapply heldx_same_win; [| |exact Hx1]; reflexivity | exact I1].
      + eexists _, _, L. split; [reflexivity|].
        split; [apply LedOn_quiet, (q_out _ _ _ (Quiet_note _ c (ODispatch _ _) I))|].
        split; [eapply SimX_Quiet; [apply (Quiet_note _ c (ODispatch _ _) I) | eapply SimX_some; eassumption]|].
        split; [eapply ExX_Quiet; [apply (Quiet_note _ c (ODispatch _ _) I) | eapply ExX_some; eassumption]|].
        split; [eapply heldx_same_win; [| |exact Hx1]; reflexivity | exact I1].
    - destruct (st_responded s1 && negb (st_handlerRunning s1) && has_more_to_send s1).
      + destruct (send_data_led _ ex c s1 L S) as (L1 & Led & S1 & Hh1 & Id1 & Lid); rewrite ?I1; try assumption.
        { apply heldx_held, Hx1. }
        destruct (send_data_exact _ ex c s1 L S X WD) as (L1' & Led' & X1 & Hx2); rewrite ?I1; try assumption.
        assert (EL : L1' = L1) by (eapply LedOn_unique; eassumption). subst L1'.
        destruct (send_data c s1) as [[c1 s2] fin]. cbn [fst snd] in *. rewrite I1 in *.
        eexists _, _, L1. split; [reflexivity|]. split; [eapply LedOn_weaken; [|exact Led]; auto|].
        split; [exact S1|]. split; [exact X1|]. split.
        * destruct fin; [eapply heldx_same_win; [| |exact Hx2]; reflexivity | exact Hx2].
        * destruct fin; exact Id1.
      + eexists _, _, L. split; [reflexivity|]. split; [apply LedOn_refl|].
        split; [eapply SimX_some; eassumption|]. split; [eapply ExX_some; eassumption|]. auto. }
  destruct M as (c2 & s2 & L2 & E & Led & S2 & X2 & H2 & I2). cbv zeta in E. rewrite E. clear E.
  assert (X3 : ExX None (put c2 s2) L2).
  { eapply ExX_put; [exact X2 | apply (sim_nodup _ _ _ _ S2) | right; congruence | exact H2]. }
  set (c3 := if sstate_eqb (st_state s2) SClosed then close_stream (put c2 s2) s2 else put c2 s2).
  assert (G3 : LedOn (fun _ => True) c L c3 L2 /\ ExX None c3 L2).
  { subst c3. destruct (sstate_eqb (st_state s2) SClosed).
    - split.
      + eapply LedOn_trans; [exact Led|]. apply LedOn_quiet.
        apply (out_ext_trans _ _ c2 (put c2 s2)); [apply out_ext_same; reflexivity | apply close_stream_out].
      + eapply ExX_close; [exact X3 | | left; reflexivity].
        unfold put. sc_cbn. rewrite strms_put_ids. apply (sim_nodup _ _ _ _ S2).
    - split; [|exact X3]. eapply LedOn_trans; [exact Led|]. apply LedOn_quiet. apply out_ext_same. reflexivity. }
  destruct G3 as [Led3 X3'].
  eapply GoodX_brk_cont; eassumption.
Qed.

(* ---------- the grants of a frame ---------- *)

Lemma lgrants_strm fr : sf_sid fr <> 0 ->
  lgrants_of fr = match sf_kind fr with
                  | KHeaders => [LOpen (sf_sid fr)]
                  | KWinUpd => [LGrant (sf_sid fr) (Z.of_N (sf_inc fr))]
                  | _ => []
                  end.
Proof. intro NZ. unfold lgrants_of. replace (sf_sid fr =? 0) with false by flia. reflexivity. Qed.

(* grants on a stream that is not in the table *)
Lemma ExX_grants_absent c L fr : ExX None c L -> sf_sid fr <> 0 ->
  (forall s, In s (sc_strms c) -> st_id s <> sf_sid fr) -> (sf_kind fr = KHeaders -> sf_sid fr <= sc_highestID c) ->
  ExX None c (lrun L (lgrants_of fr)).
Proof.
  intros [xc xs xf] NZ NI HH. rewrite (lgrants_strm fr NZ).
  assert (NZ' : N.eqb (sf_sid fr) 0 = false) by flia.
  destruct (sf_kind fr) eqn:K; try (constructor; assumption); cbn [lrun fold_left lstep].
  - destruct (l_strm L (sf_sid fr)) eqn:E; [constructor; assumption|]. constructor; cbn [l_conn l_strm].
    + assumption.
    + intros s Hs Hne. unfold heldx. cbn [l_strm]. rewrite strm_upd_other by (apply NI; exact Hs). apply xs; assumption.
    + intros sid Hs. specialize (HH eq_refl). rewrite strm_upd_other by flia. auto.
  - rewrite NZ'. destruct (l_strm L (sf_sid fr)) eqn:E; [|constructor; assumption]. constructor; cbn [l_conn l_strm].
    + assumption.
    + intros s Hs Hne. unfold heldx. cbn [l_strm]. rewrite strm_upd_other by (apply NI; exact Hs). apply xs; assumption.
    + intros sid Hs. destruct (N.eq_dec sid (sf_sid fr)) as [->|NE]; [rewrite (xf _ Hs) in E; discriminate|].
      rewrite strm_upd_other by assumption. auto.
Qed.

Lemma found_None_absent c fr L : Sim c L -> found hstate c fr = None -> forall s, In s (sc_strms c) -> st_id s <> sf_sid fr.
Proof.
  intros S F s Hs. unfold found in F. destruct (sf_sid fr <=? sc_lastID c) eqn:LE.
  - eapply strms_search_None; eassumption.
  - pose proof (sim_le _ _ _ _ S s Hs). flia.
Qed.

(* the stream the frame is handled on, after the frame's grants: its ledger window is its window plus the increment *)
Definition winc (fr : sframe) : Z := if fkind_eqb (sf_kind fr) KWinUpd then Z.of_N (sf_inc fr) else 0%Z.

Lemma Origin_exact c fr c1 s L : sf_sid fr <> 0 -> Sim c L -> ExX None c L -> Origin c fr c1 s ->
  ExX (Some (st_id s)) c1 (lrun L (lgrants_of fr)) /\
  l_strm (lrun L (lgrants_of fr)) (st_id s) = Some (st_window s + winc fr)%Z.
Proof.
  intros NZ S X O. rewrite (lgrants_strm fr NZ). unfold winc.
  assert (NZ' : N.eqb (sf_sid fr) 0 = false) by flia.
  destruct O as [s LE F | KH FD HI LA].
  - apply strms_search_In in F. destruct F as [Hin Hid].
    assert (Hx : heldx L s) by (apply (x_strm _ _ _ _ X); [assumption | discriminate]). unfold heldx in Hx.
    assert (X' : ExX (Some (st_id s)) c L) by (eapply ExX_some; [left; reflexivity | exact X]).
    destruct (sf_kind fr) eqn:K; cbn [fkind_eqb lrun fold_left lstep];
      try (split; [exact X' | rewrite Hx; f_equal; flia]).
    + rewrite <- Hid, Hx. split; [exact X' | rewrite Hx; f_equal; flia].
    + rewrite NZ', <- Hid, Hx. destruct X' as [xc xs xf]. split.
      * constructor; cbn [l_conn l_strm]; [assumption | |].
        -- intros s0 Hs Hne. unfold heldx. cbn [l_strm]. rewrite strm_upd_other by congruence. apply xs; assumption.
        -- intros sid Hs. pose proof (sim_le _ _ _ _ S s Hin). pose proof (sim_hi _ _ _ _ S).
           rewrite strm_upd_other by flia. auto.
      * cbn [l_strm]. apply strm_upd_same.
  - rewrite KH. cbn [fkind_eqb lrun fold_left lstep].
    destruct X as [xc xs xf]. rewrite (xf _ HI).
    assert (NI : forall s0, In s0 (sc_strms c) -> st_id s0 <> sf_sid fr).
    { intros s0 Hs. destruct (sf_sid fr <=? sc_lastID c) eqn:LE.
      - eapply strms_search_None; eassumption.
      - pose proof (sim_le _ _ _ _ S s0 Hs). flia. }
    split.
    + constructor; sc_cbn; cbn [l_conn l_strm].
      * assumption.
      * intros s0 Hs Hne. apply in_app_or in Hs. destruct Hs as [Hs|[<-|[]]]; [|congruence].
        unfold heldx. cbn [l_strm]. rewrite strm_upd_other by (apply NI; exact Hs). apply xs; [assumption | discriminate].
      * intros sid Hs. rewrite strm_upd_other by flia. apply xf. flia.
    + cbn [l_strm]. unfold new_strm at 1. cbn [st_id set_orig_started new_stream]. rewrite strm_upd_same.
      unfold new_strm. cbn [st_window set_orig_started new_stream]. rewrite (sim_init _ _ _ _ S). f_equal. flia.
Qed.

(* what handleFrame does to the window of its stream, when the stream loop goes on to afterFrame *)
Lemma HFok_window c2 s fr cX sX : HFok dec_field cfg c2 s fr cX sX -> st_window sX = (st_window s + winc fr)%Z.
Proof.
  intro HF. unfold winc. destruct (fkind_eqb (sf_kind fr) KWinUpd) eqn:K.
  - apply fkind_eqb_eq in K. unfold HFok, handle_frame in HF. rewrite K in HF.
    destruct (verify_state s fr) as [e|] eqn:V.
    { unfold verify_state in V. destruct (st_state s); repeat match type of V with context [if ?b then _ else _] => destruct b end;
        inversion V; subst; destruct HF as (E & _); discriminate E. }
    destruct (sstate_eqb (st_state s) SIdle); [destruct HF as (E & _); discriminate E|].
    destruct (sf_inc fr =? 0); [destruct HF as (E & _); discriminate E|].
    match type of HF with context [if ?b then _ else _] => destruct b end.
    + destruct HF as (_ & ->). reflexivity.
    + destruct HF as (_ & ->). reflexivity.
  - destruct (HFok_eff _ dec_field cfg c2 s fr cX sX HF) as (c3 & s3 & _ & _ & _ & _ & WW & SW & _).
    destruct SW as (_ & -> & _). destruct WW as [->|[KW _]]; [flia|]. rewrite KW in K. discriminate.
Qed.

Lemma after_pre_exact c fr c1 s c2 cX sX L : Sim c L -> ExX None c L -> sf_sid fr <> 0 -> Origin c fr c1 s ->
  Closes c1 c2 -> HFok dec_field cfg c2 s fr cX sX ->
  ExX (Some (st_id sX)) cX (lrun L (lgrants_of fr)) /\ heldx (lrun L (lgrants_of fr)) sX.
Proof.
  intros S X NZ Or CL HF.
  destruct (Origin_exact c fr c1 s L NZ S X Or) as (X1 & H1).
  pose proof (ExX_Closes _ _ _ _ _ CL X1) as X2.
  pose proof (HFok_window _ _ _ _ _ HF) as WX.
  destruct (HFok_eff _ dec_field cfg c2 s fr cX sX HF) as (c3 & s3 & R & Q & _ & SS & _ & SW & _).
  assert (IX : st_id sX = st_id s) by (destruct SW as (-> & _); apply SS).
  rewrite IX. split.
  - eapply ExX_Quiet; [exact Q|]. eapply ExX_Recv; eassumption.
  - unfold heldx. rewrite IX, WX. exact H1.
Qed.

Lemma settings_exact c fr L : Sim c L -> ExX None c L ->
  let newInit := signed 32 (sf_set_win fr) in
  let delta := (newInit - sc_initWin c)%Z in
  ExX None (emit (upd_strms (upd_initWin (settings_c0 enc_set_max c fr) newInit) (map (bump delta) (sc_strms c))) OSettingsAck)
      (lstep L (LInit newInit)).
Proof.
  intros S X newInit delta.
  destruct (settings_c0_fields _ enc_set_max c fr) as (E1 & E2 & E3 & E4 & E5 & E6).
  destruct X as [xc xs xf].
  constructor; rewrite ?sc_clientWindow_emit, ?sc_strms_emit, ?sc_highestID_emit; sc_cbn.
  - rewrite E3. assumption.
  - intros s Hs _. apply in_map_iff in Hs. destruct Hs as (s0 & <- & Hs0).
    unfold heldx. cbn [l_strm lstep bump st_id set_window st_window]. rewrite (xs s0 Hs0) by discriminate.
    subst delta. rewrite (sim_init _ _ _ _ S). reflexivity.
  - rewrite E5. intros sid H0. cbn [l_strm lstep]. rewrite (xf _ H0). reflexivity.
Qed.

Lemma winupd_exact c inc L : ExX None c L ->
  ExX None (upd_clientWindow c (sc_clientWindow c + Z.of_N inc)) (lstep L (LGrant 0 (Z.of_N inc))).
Proof.
  intros [xc xs xf]. constructor; sc_cbn; cbn [lstep N.eqb l_conn l_strm]; [flia | assumption | assumption].
Qed.

(* ---------- the frame arm ---------- *)

Lemma sl_frame_exact c fr L : Sim c L -> ExX None c L -> RI c -> sc_wl_dead c = false ->
  GoodX c (lrun L (lgrants_of fr)) (fst (sl_frame dec_field enc_set_max cfg c fr)).
Proof.
  intros S X HR WD.
  destruct (sl_frame_SLX _ dec_field enc_set_max cfg c fr)
    as [c' Q R G0 G1 HH | c' F O SD | Z K HW c0 newInit delta Fa | Z K W | NZ K | c1 s p NZ Or KH Hp | c1 s c2 cX sX NZ Or CL HF].
  - (* nothing that matters *)
    exists (lrun L (lgrants_of fr)). split; [apply LedOn_quiet, Q | right].
    pose proof (ExX_Quiet _ _ _ _ _ Q X) as X'.
    destruct (N.eq_dec (sf_sid fr) 0) as [Z|NZ]; [rewrite (G0 Z); exact X'|].
    destruct (G1 NZ) as [E|FN]; [rewrite E; exact X'|].
    apply ExX_grants_absent; [exact X' | exact NZ | |].
    + rewrite (q_strms _ _ _ Q). eapply found_None_absent; eassumption.
    + intro KH. apply HH; [exact NZ | exact KH | exact HR | apply (sim_hi _ _ _ _ S)].
  - exists (lrun L (lgrants_of fr)). split; [apply LedOn_quiet, O | left; exact SD].
  - (* SETTINGS_INITIAL_WINDOW_SIZE *)
    assert (E : lgrants_of fr = [LInit newInit]).
    { unfold lgrants_of. replace (sf_sid fr =? 0) with true by flia. rewrite K, HW. reflexivity. }
    rewrite E. cbn [lrun fold_left].
    pose proof (settings_Sim _ enc_set_max c fr L S) as S2. cbv zeta in S2. fold c0 newInit delta in S2.
    pose proof (settings_exact c fr L S X) as X2. cbv zeta in X2. fold c0 newInit delta in X2.
    destruct (flush_streams_exact _ _ S2 X2) as (L' & Led & X').
    { rewrite sc_wl_dead_emit. sc_cbn. unfold c0, settings_c0. destruct (sf_set_hastable fr); exact WD. }
    exists L'. split; [|right; exact X'].
    eapply LedOn_trans; [|exact Led]. apply LedOn_quiet.
    eapply out_ext_trans; [|apply out_ext_emit; exact I]. apply out_ext_same. sc_cbn. apply (settings_c0_fields _ enc_set_max c fr).
  - (* WINDOW_UPDATE on the connection *)
    assert (E : lgrants_of fr = [LGrant 0 (Z.of_N (sf_inc fr))]).
    { unfold lgrants_of. replace (sf_sid fr =? 0) with true by flia. rewrite K. reflexivity. }
    rewrite E. cbn [lrun fold_left].
    destruct (flush_streams_exact _ _ (winupd_Sim _ c (sf_inc fr) L S) (winupd_exact c (sf_inc fr) L X)) as (L' & Led & X').
    { exact WD. }
    exists L'. split; [|right; exact X'].
    eapply LedOn_trans; [|exact Led]. apply LedOn_quiet. apply out_ext_same. reflexivity.
  - assert (E : lgrants_of fr = []) by (rewrite (lgrants_strm fr NZ), K; reflexivity).
    rewrite E. cbn [lrun fold_left].
    pose proof (Recv_credit _ cfg c (Z.of_N (sf_len fr))) as R.
    exists L. split; [|right; eapply ExX_Recv; eassumption].
    apply LedOn_nodata. eapply out_ext_weaken; [apply winupd_nodata | apply R].
  - (* the previous stream's header block is not finished *)
    destruct (Origin_Sim _ c fr c1 s L NZ S Or) as (S1 & _ & _ & Is & _).
    destruct (Origin_exact c fr c1 s L NZ S X Or) as (X1 & H1).
    set (L1 := lrun L (lgrants_of fr)) in *.
    assert (W0 : winc fr = 0%Z) by (unfold winc; rewrite KH; reflexivity).
    assert (X1' : ExX None c1 L1).
    { destruct X1 as [xc xs xf]. constructor; [assumption| |assumption]. intros s0 Hs _.
      destruct (N.eq_dec (st_id s0) (st_id s)) as [E|NE]; [|apply xs; [assumption | congruence]].
      assert (s0 = s).
      { destruct Or as [s LE F | KH' FD HI LA].
        - apply strms_search_In in F. destruct F as [Hin _]. eapply NoDup_ids_eq; [apply (sim_nodup _ _ _ _ S) | exact Hs | exact Hin | exact E].
        - eapply NoDup_ids_eq; [apply (sim_nodup _ _ _ _ S1) | exact Hs | | exact E]. sc_cbn. apply in_or_app. right. left. reflexivity. }
      subst s0. unfold heldx. rewrite H1, W0. f_equal. flia. }
    exists L1. split.
    + apply LedOn_quiet. eapply out_ext_trans; [apply (Origin_Frame _ _ _ _ _ Or)|].
      eapply out_ext_trans; [apply (q_out _ _ _ (Quiet_write_goaway _ c1 (st_id p) c_ProtocolError))|]. apply out_ext_same. reflexivity.
    + right. eapply ExX_put; [eapply ExX_Quiet; [apply Quiet_write_goaway | exact X1'] | | left; reflexivity |].
      * rewrite sc_strms_write_goaway. apply (sim_nodup _ _ _ _ S1).
      * eapply heldx_same_win; [| |apply (x_strm _ _ _ _ X1' p Hp); discriminate]; reflexivity.
  - (* the frame is handled on its stream *)
    pose proof (cr_closes _ _ _ CL) as CL'.
    destruct (after_pre_Sim _ dec_field cfg c fr c1 s c2 cX sX L S NZ Or CL' HF) as (SX & HX & LeX & IdX & OX).
    destruct (after_pre_exact c fr c1 s c2 cX sX L S X NZ Or CL' HF) as (XX & HxX).
    assert (WX : sc_wl_dead cX = false).
    { destruct (HFok_eff _ dec_field cfg c2 s fr cX sX HF) as (c3 & s3 & R & Q & _).
      rewrite (q_wl_dead _ _ _ Q), (rv_wl_dead _ _ _ R), (f_wl_dead _ _ _ (cl_frame _ _ _ CL')),
        (f_wl_dead _ _ _ (proj1 (Origin_Frame _ _ _ _ _ Or))). exact WD. }
    destruct (after_frame_exact (Some (st_id sX)) cX sX fr (sc_closing c) _ (Sim_SimX _ _ _ _ SX) XX WX (or_intror eq_refl) HxX LeX)
      as (L' & Led & G).
    exists L'. split; [|exact G]. eapply LedOn_trans; [apply LedOn_nodata; exact OX | exact Led].
Qed.

Lemma sl_done_exact c sid r L : Sim c L -> ExX None c L -> sc_wl_dead c = false -> GoodX c L (fst (sl_done enc_field cfg c sid r)).
Proof.
  intros S X WD. unfold sl_done.
  destruct (take_stream (sc_gone c) sid) as [[s rest]|].
  - cbn [fst cont]. exists L.
    assert (Q : Quiet c (release_stream (upd_gone c rest) (set_flags s (st_responded s) false true))).
    { eapply Quiet_trans; [|apply Quiet_release_stream].
      constructor; sc_cbn; first [reflexivity | flia | (left; reflexivity) | (intro; assumption) | (apply out_ext_same; reflexivity)]. }
    split; [apply LedOn_quiet, Q | right; eapply ExX_Quiet; eassumption].
  - destruct (strms_search (sc_strms c) sid) as [s|] eqn:F; [|exists L; split; [apply LedOn_refl | right; exact X]].
    destruct (negb (st_handlerRunning s)); [exists L; split; [apply LedOn_refl | right; exact X]|].
    apply strms_search_In in F. destruct F as [Hin Hid].
    set (s1 := set_flags s (st_responded s) false (st_abandoned s)).
    assert (Hx1 : heldx L s1).
    { eapply heldx_same_win; [| |apply (x_strm _ _ _ _ X s Hin); discriminate]; reflexivity. }
    assert (Le1 : st_id s1 <= sc_lastID c) by apply (sim_le _ _ _ _ S s Hin).
    destruct (finish_request_led _ enc_field None c s1 r L S (or_introl eq_refl) (heldx_held _ _ Hx1) Le1) as (L1 & Led & S1 & Hh & I1 & Lid).
    destruct (finish_request_exact _ enc_field None c s1 r L S X WD (or_introl eq_refl) Hx1 Le1) as (L1' & Led' & X1 & Hx2).
    assert (EL : L1' = L1) by (eapply LedOn_unique; eassumption). subst L1'.
    destruct (finish_request enc_field c s1 r) as [[c1 s2] fin]. cbn [fst snd] in *.
    set (c2 := if fin then close_stream (put c1 (set_state s2 SClosed)) (set_state s2 SClosed) else put c1 s2).
    assert (G : LedOn (fun _ => True) c L c2 L1 /\ ExX None c2 L1).
    { subst c2. destruct fin.
      - assert (X2 : ExX None (put c1 (set_state s2 SClosed)) L1).
        { eapply ExX_put; [exact X1 | apply (sim_nodup _ _ _ _ S1) | right; cbn [st_id set_state]; rewrite I1; reflexivity|].
          eapply heldx_same_win; [| |exact Hx2]; reflexivity. }
        split; [|eapply ExX_close; [exact X2 | | left; reflexivity]].
        + eapply LedOn_trans; [eapply LedOn_weaken; [|exact Led]; auto|]. apply LedOn_quiet.
          apply (out_ext_trans _ _ c1 (put c1 (set_state s2 SClosed))); [apply out_ext_same; reflexivity | apply close_stream_out].
        + unfold put. sc_cbn. rewrite strms_put_ids. apply (sim_nodup _ _ _ _ S1).
      - split; [|eapply ExX_put; [exact X1 | apply (sim_nodup _ _ _ _ S1) | right; rewrite I1; reflexivity | exact Hx2]].
        eapply LedOn_trans; [eapply LedOn_weaken; [|exact Led]; auto|]. apply LedOn_quiet. apply out_ext_same. reflexivity. }
    destruct G as [Led2 X2].
    eapply GoodX_brk_cont; eassumption.
Qed.

End Exact2.
