(* Proofs/SrvFlowLedger.v - facts about the ghost ledgers of Spec/FlowLedger.v (no reference to the model). *)
From Coq Require Import ZArith List Lia Bool.
From H2V Require Import Spec.FlowLedger.
Import ListNotations.
Local Open Scope Z_scope.

Lemma lrun_app L a b : lrun L (a ++ b) = lrun (lrun L a) b.
Proof. apply fold_left_app. Qed.

Lemma lrun_nil L : lrun L [] = L.
Proof. reflexivity. Qed.

Lemma lrun_cons L e t : lrun L (e :: t) = lrun (lstep L e) t.
Proof. reflexivity. Qed.

Lemma lvalid_app L a b : lvalid L (a ++ b) <-> lvalid L a /\ lvalid (lrun L a) b.
Proof.
  revert L. induction a as [|e a IH]; intro L; cbn [app lvalid].
  - rewrite lrun_nil. tauto.
  - rewrite lrun_cons, IH. tauto.
Qed.

(* ---------- the windows as granted - sent ---------- *)

Lemma sent_conn_app a b : sent_conn (a ++ b) = sent_conn a + sent_conn b.
Proof. induction a as [|[] a IH]; cbn [app sent_conn]; lia. Qed.

Lemma sent_strm_app sid a b : sent_strm sid (a ++ b) = sent_strm sid a + sent_strm sid b.
Proof. induction a as [|[] a IH]; cbn [app sent_strm]; lia. Qed.

Lemma l_conn_lrun L evs : l_conn (lrun L evs) = l_conn L + (granted_conn evs - DEFAULT_WINDOW) - sent_conn evs.
Proof.
  revert L. induction evs as [|e t IH]; intro L.
  - cbn. lia.
  - rewrite lrun_cons, IH. destruct e as [v|sid|sid inc|sid n]; cbn [lstep granted_conn sent_conn].
    + cbn [l_conn]. lia.
    + destruct (l_strm L sid); cbn [l_conn]; lia.
    + destruct (N.eqb sid 0); [cbn [l_conn]; lia|]. destruct (l_strm L sid); cbn [l_conn]; lia.
    + cbn [l_conn]. lia.
Qed.

Lemma strm_upd_same f sid v : strm_upd f sid v sid = v.
Proof. unfold strm_upd. rewrite N.eqb_refl. reflexivity. Qed.

Lemma strm_upd_other f sid v x : x <> sid -> strm_upd f sid v x = f x.
Proof. intro H. unfold strm_upd. destruct (N.eqb x sid) eqn:E; [apply N.eqb_eq in E; contradiction | reflexivity]. Qed.

Lemma l_strm_lrun evs : forall L sid, lvalid L evs ->
  l_strm (lrun L evs) sid =
  match l_strm L sid with
  | Some w => Some (w + granted_strm_from sid (l_init L) true evs - sent_strm sid evs)
  | None => if opened_in sid evs then Some (granted_strm_from sid (l_init L) false evs - sent_strm sid evs) else None
  end.
Proof.
  induction evs as [|e t IH]; intros L sid V.
  - cbn. destruct (l_strm L sid); [f_equal; lia | reflexivity].
  - destruct V as [A V]. rewrite lrun_cons, (IH _ sid V). clear IH V.
    assert (NE : forall s, N.eqb s sid = false -> sid <> s).
    { intros s E ->. rewrite N.eqb_refl in E. discriminate. }
    assert (FIN : forall (a : option Z) (x y : Z), x = y ->
              match a with Some w => Some (w + x) | None => if opened_in sid t then Some x else None end =
              match a with Some w => Some (w + y) | None => if opened_in sid t then Some y else None end).
    { intros a x y ->. reflexivity. }
    destruct e as [v|s|s inc|s n]; cbn [lstep granted_strm_from sent_strm opened_in].
    + cbn [l_strm l_init]. destruct (l_strm L sid); cbn [andb orb negb]; [f_equal; lia|].
      destruct (opened_in sid t); [f_equal; lia | reflexivity].
    + destruct (N.eqb s sid) eqn:E; cbn [andb orb negb].
      * apply N.eqb_eq in E. subst s. destruct (l_strm L sid) eqn:F.
        -- rewrite ?F. reflexivity.
        -- cbn [l_strm l_init]. rewrite strm_upd_same. try (f_equal; lia); try reflexivity.
      * apply NE in E. destruct (l_strm L s) eqn:F; [reflexivity|]. cbn [l_strm l_init].
        rewrite strm_upd_other by assumption. reflexivity.
    + destruct (N.eqb s 0) eqn:Z0; cbn [negb andb].
      * cbn [l_strm l_init]. destruct (l_strm L sid); [f_equal; lia|]. destruct (opened_in sid t); [f_equal; lia | reflexivity].
      * destruct (N.eqb s sid) eqn:E; cbn [negb andb].
        -- apply N.eqb_eq in E. subst s. destruct (l_strm L sid) eqn:F.
           ++ cbn [l_strm l_init]. rewrite strm_upd_same. try (f_equal; lia); try reflexivity.
           ++ rewrite ?F. destruct (opened_in sid t); [f_equal; lia | reflexivity].
        -- apply NE in E. destruct (l_strm L s) eqn:F.
           ++ cbn [l_strm l_init]. rewrite strm_upd_other by assumption.
              destruct (l_strm L sid); [f_equal; lia|]. destruct (opened_in sid t); [f_equal; lia | reflexivity].
           ++ destruct (l_strm L sid); [f_equal; lia|]. destruct (opened_in sid t); [f_equal; lia | reflexivity].
    + destruct A as (w & Hw & _). cbn [l_strm l_init]. rewrite Hw.
      destruct (N.eqb s sid) eqn:E.
      * apply N.eqb_eq in E. subst s. rewrite strm_upd_same, Hw. try (f_equal; lia); try reflexivity.
      * apply NE in E. rewrite strm_upd_other by assumption.
        destruct (l_strm L sid); [f_equal; lia|]. destruct (opened_in sid t); [f_equal; lia | reflexivity].
Qed.

(* C06 safety in the totals form of the property's text follows from the window form *)
Theorem lvalid_within_grants evs : lvalid ledger0 evs -> within_grants evs.
Proof.
  intros V pre sid n post -> Hn.
  apply lvalid_app in V. destruct V as [Vp [A _]]. cbn [lallowed] in A. destruct A as (w & Hw & [->|(_ & Hc & Hs)]); [lia|].
  split.
  - rewrite sent_conn_app. cbn [sent_conn]. rewrite l_conn_lrun in Hc. cbn [ledger0 l_conn] in Hc. lia.
  - rewrite sent_strm_app. cbn [sent_strm]. rewrite N.eqb_refl.
    rewrite (l_strm_lrun _ _ sid Vp) in Hw. cbn [ledger0 l_strm l_init] in Hw.
    destruct (opened_in sid pre); [|discriminate]. inversion Hw; subst w. unfold granted_strm. lia.
Qed.

(* ---------- data-only histories ---------- *)

Definition is_ldata (e : levent) : Prop := match e with LData _ _ => True | _ => False end.

Lemma l_init_lrun_data L evs : Forall is_ldata evs -> l_init (lrun L evs) = l_init L.
Proof.
  revert L. induction evs as [|e t IH]; intros L H; [reflexivity|]. inversion H; subst.
  rewrite lrun_cons, IH by assumption. destruct e; try contradiction. reflexivity.
Qed.

(* data on other streams leaves a stream's window alone *)
Lemma l_strm_lrun_data_other L evs sid :
  Forall (fun e => match e with LData s _ => s <> sid | _ => False end) evs -> l_strm (lrun L evs) sid = l_strm L sid.
Proof.
  revert L. induction evs as [|e t IH]; intros L H; [reflexivity|]. inversion H; subst.
  rewrite lrun_cons, IH by assumption. destruct e as [| | |s n]; try contradiction. cbn [lstep l_strm].
  destruct (l_strm L s); [|reflexivity]. apply strm_upd_other. congruence.
Qed.

(* ---------- receive side ---------- *)

Lemma peer_conn_window_app w0 a b : peer_conn_window w0 (a ++ b) = peer_conn_window (peer_conn_window w0 a) b.
Proof. revert w0. induction a as [|[] a IH]; intro w0; cbn [app peer_conn_window]; auto. Qed.

Lemma peer_strm_window_app sid w0 a b : peer_strm_window sid w0 (a ++ b) = peer_strm_window sid (peer_strm_window sid w0 a) b.
Proof. revert w0. induction a as [|[] a IH]; intro w0; cbn [app peer_strm_window]; auto. Qed.

Lemma peer_conn_window_shift w0 d evs : peer_conn_window (w0 + d) evs = peer_conn_window w0 evs + d.
Proof.
  revert w0. induction evs as [|[s inc|s n] t IH]; intro w0; cbn [peer_conn_window]; [reflexivity| |].
  - destruct (N.eqb s 0); [|apply IH]. replace (w0 + d + inc) with (w0 + inc + d) by lia. apply IH.
  - replace (w0 + d - n) with (w0 - n + d) by lia. apply IH.
Qed.
