(* Proofs/SrvFlowSafeB.v - C06 safety, part 2: sendData, finishRequest, flushStreams, afterFrame against the ledger. *)
From H2V Require Import Base.Bytes Base.MachineInt Base.Result Gen.GenConsts Impl.ServerConn Proofs.SrvBase
  Spec.FlowLedger Proofs.SrvFlowLedger Proofs.SrvFlowDefs Proofs.SrvFlowSend Proofs.SrvFlowEff Proofs.SrvFlowSafe.
From Coq Require Import ZArith Lia ZifyN ZifyNat ZifyBool List.
Import ListNotations.
Local Open Scope N_scope.
Set Default Proof Using "Type".

Section Safe2.
Variable hstate : Type.
Variable dec_field : hstate -> N -> bytes -> dec_res hstate.
Variable enc_field : hstate -> bytes -> bytes -> bool -> bytes * hstate.
Variable enc_set_max : hstate -> N -> hstate.
Variable cfg : config.
Notation sconn := (sconn hstate).
Implicit Types c : sconn.
Notation Sim := (SimX hstate None).

Lemma SDL_Frame sid c n r k : SDL sid c n r k ->
  Frame c (fst (fst (fst r))) /\ sc_strms (fst (fst (fst r))) = sc_strms c /\
  sc_initWin (fst (fst (fst r))) = sc_initWin c /\ sc_lastID (fst (fst (fst r))) = sc_lastID c /\
  sc_highestID (fst (fst (fst r))) = sc_highestID c.
Proof.
  intro H. pose proof (SDL_nf _ _ _ _ _ _ H) as NF. rewrite NF.
  split; [eapply Frame_trans; [apply Frame_upd_out | apply Frame_upd_clientWindow]|]. repeat split.
Qed.

Lemma held_same_win L a b : st_id b = st_id a -> st_window b = st_window a -> held L a -> held L b.
Proof. intros E1 E2 (w & Hw & Hle). exists w. rewrite E1, E2. auto. Qed.

(* sendData on a stream of the table (or the one being worked on) *)
Lemma send_data_led ex c s L :
  SimX hstate ex c L -> (ex = None \/ ex = Some (st_id s)) -> held L s -> st_id s <= sc_lastID c ->
  let r := send_data c s in
  exists L', LedOn hstate (eq (st_id s)) c L (fst (fst r)) L' /\ SimX hstate (Some (st_id s)) (fst (fst r)) L' /\
             held L' (snd (fst r)) /\ st_id (snd (fst r)) = st_id s /\ sc_lastID (fst (fst r)) = sc_lastID c.
Proof.
  intros S Hex (w & Hw & Hle) Hid. cbv zeta. unfold send_data.
  destruct (send_data_loop_SDL _ (st_id s) (send_data_fuel (get_snd s)) c (get_snd s)) as [k H].
  pose proof (SDL_Frame _ _ _ _ _ H) as (F & E1 & E2 & E3 & E4).
  destruct (SDL_led _ _ _ _ _ _ H L w (sim_conn _ _ _ _ S) Hw Hle) as (L' & Led & C' & w' & Hw' & Hle').
  destruct (send_data_loop (send_data_fuel (get_snd s)) c (st_id s) (get_snd s)) as [[[c1 n1] done] wr].
  cbn [fst snd] in *.
  exists L'. split; [exact Led|]. split.
  - destruct S as [i_init i_conn i_strm i_nodup i_le i_hi i_fresh]. constructor.
    + rewrite E2, (LedOn_init _ _ _ _ _ _ Led). assumption.
    + assumption.
    + rewrite E1. intros s0 Hs Hne.
      assert (Hne' : st_id s0 <> st_id s) by congruence.
      destruct (i_strm s0 Hs) as (w0 & Hw0 & Hle0).
      { destruct Hex as [->| ->]; [discriminate | congruence]. }
      exists w0. rewrite (LedOn_other _ _ _ _ _ _ (st_id s0) Led) by congruence. auto.
    + rewrite E1. assumption.
    + rewrite E1, E3. assumption.
    + rewrite E3, E4. assumption.
    + rewrite E4, (LedOn_init _ _ _ _ _ _ Led). intros sid w0 Hs Hw0.
      rewrite (LedOn_other _ _ _ _ _ _ sid Led) in Hw0; [eauto|]. intro. subst. flia.
  - split; [|split; [|assumption]].
    + exists w'. destruct wr, done; cbn [st_id st_window set_weReset set_snd sn_window]; auto.
    + destruct wr; reflexivity.
Qed.

Lemma SimX_same ex c c' L : sc_strms c' = sc_strms c -> sc_initWin c' = sc_initWin c ->
  sc_clientWindow c' = sc_clientWindow c -> sc_lastID c' = sc_lastID c -> sc_highestID c' = sc_highestID c ->
  SimX hstate ex c L -> SimX hstate ex c' L.
Proof.
  intros E1 E2 E3 E4 E5 [i_init i_conn i_strm i_nodup i_le i_hi i_fresh]. constructor.
  - rewrite E2. assumption.
  - rewrite E3. assumption.
  - rewrite E1. assumption.
  - rewrite E1. assumption.
  - rewrite E1, E4. assumption.
  - rewrite E4, E5. assumption.
  - rewrite E5. assumption.
Qed.

Lemma SimX_weaken ex c L : (ex = None \/ True) -> SimX hstate None c L -> SimX hstate ex c L.
Proof. intros _. apply Sim_SimX. Qed.

Lemma SimX_some ex sid c L : (ex = None \/ ex = Some sid) -> SimX hstate ex c L -> SimX hstate (Some sid) c L.
Proof. intros [->| ->] S; [apply Sim_SimX|]; assumption. Qed.

Lemma finish_request_led ex c s r L :
  SimX hstate ex c L -> (ex = None \/ ex = Some (st_id s)) -> held L s -> st_id s <= sc_lastID c ->
  let res := finish_request enc_field c s r in
  exists L', LedOn hstate (eq (st_id s)) c L (fst (fst res)) L' /\ SimX hstate (Some (st_id s)) (fst (fst res)) L' /\
             held L' (snd (fst res)) /\ st_id (snd (fst res)) = st_id s /\ sc_lastID (fst (fst res)) = sc_lastID c.
Proof.
  intros S Hex Hh Hid. cbv zeta. unfold finish_request.
  destruct (response_block enc_field (sc_enc c) r) as [blk e'].
  set (hb := match rs_body r with BBuffered [] => false | _ => true end).
  set (c1 := emit (upd_enc c e') (OHeaders (st_id s) (negb hb) blk)).
  assert (S1 : SimX hstate ex c1 L).
  { eapply SimX_same; [..|exact S]; subst c1; rewrite ?sc_strms_emit, ?sc_initWin_emit, ?sc_clientWindow_emit,
      ?sc_lastID_emit, ?sc_highestID_emit; reflexivity. }
  assert (Led1 : LedOn hstate (eq (st_id s)) c L c1 L).
  { apply LedOn_nodata. subst c1. apply (out_ext_trans _ _ c (upd_enc c e')); [apply out_ext_same; reflexivity|].
    apply out_ext_emit; exact I. }
  assert (Lid : sc_lastID c1 = sc_lastID c) by (subst c1; rewrite sc_lastID_emit; reflexivity).
  destruct (negb hb) eqn:HB.
  - cbn [fst snd]. exists L. split; [exact Led1|]. split; [eapply SimX_some; eassumption|]. auto.
  - match goal with |- context [send_data c1 ?x] => set (s1 := x) end.
    assert (I1 : st_id s1 = st_id s) by reflexivity.
    assert (H1 : held L s1).
    { eapply held_same_win; [exact I1 | | exact Hh]. subst s1. cbn [set_snd st_window sn_window]. destruct (rs_body r); reflexivity. }
    destruct (send_data_led ex c1 s1 L S1) as (L' & Led & S' & H' & I' & Lid'); rewrite ?I1, ?Lid; try assumption.
    rewrite I1 in *. exists L'. split; [eapply LedOn_trans; eassumption|]. split; [assumption|]. split; [assumption|].
    split; [assumption|]. rewrite Lid'. assumption.
Qed.

(* flushStreams *)
Definition GoodStep c (L : ledger) c' : Prop :=
  exists L', LedOn hstate (fun _ => True) c L c' L' /\ (sc_sl_done c' = true \/ Sim c' L').

Lemma flush_loop_led ids : forall c done L, Sim c L ->
  exists L', LedOn hstate (fun _ => True) c L (fst (flush_loop c ids done)) L' /\ Sim (fst (flush_loop c ids done)) L'.
Proof.
  induction ids as [|id t IH]; intros c done L S; cbn [flush_loop].
  - exists L. split; [apply LedOn_refl | assumption].
  - destruct (strms_search (sc_strms c) id) as [s|] eqn:F; [|apply IH; assumption].
    destruct (st_responded s && negb (st_handlerRunning s) && has_more_to_send s); [|apply IH; assumption].
    apply strms_search_In in F. destruct F as [Hin Hid].
    assert (Hh : held L s) by (apply (sim_strm _ _ _ _ S); [assumption | discriminate]).
    assert (Hle : st_id s <= sc_lastID c) by (apply (sim_le _ _ _ _ S); assumption).
    destruct (send_data_led None c s L S (or_introl eq_refl) Hh Hle) as (L1 & Led & S1 & H1 & I1 & Lid).
    destruct (send_data c s) as [[c1 s1] fin]. cbn [fst snd] in *.
    assert (S2 : Sim (put c1 s1) L1).
    { eapply SimX_put; [exact S1 | right; congruence | exact H1 | rewrite I1, Lid; exact Hle]. }
    destruct (IH (put c1 s1) (if fin then done ++ [id] else done) L1 S2) as (L' & Led' & S').
    exists L'. split; [|exact S'].
    eapply LedOn_trans; [eapply LedOn_weaken; [|exact Led]; auto|].
    eapply LedOn_trans; [|exact Led']. apply LedOn_quiet. apply out_ext_same. reflexivity.
Qed.

Lemma Sim_Closes c c' L : Closes c c' -> Sim c L -> Sim c' L.
Proof.
  intros [F E1 E0 E2 E3 O D] [i_init i_conn i_strm i_nodup i_le i_hi i_fresh].
  assert (ND : forall l l', Dels l l' -> NoDup (map st_id l) -> NoDup (map st_id l')).
  { induction 1; [auto|]. intro. apply IHDels. apply strms_del_NoDup. assumption. }
  constructor.
  - rewrite E0. assumption.
  - rewrite E1. assumption.
  - intros s Hs Hne. apply i_strm; [eapply Dels_In; eassumption | assumption].
  - eapply ND; eassumption.
  - rewrite E2. intros s Hs. apply i_le. eapply Dels_In; eassumption.
  - rewrite E2, E3. assumption.
  - rewrite E3. assumption.
Qed.
Lemma flush_streams_led c L : Sim c L ->
  exists L', LedOn hstate (fun _ => True) c L (flush_streams c) L' /\ Sim (flush_streams c) L'.
Proof.
  intro S. unfold flush_streams.
  destruct (flush_loop_led (map st_id (sc_strms c)) c [] L S) as (L' & Led & S').
  destruct (flush_loop c (map st_id (sc_strms c)) []) as [c1 done]. cbn [fst] in *.
  exists L'. split.
  - eapply LedOn_trans; [exact Led|]. apply LedOn_quiet. apply (close_all_Closes _ done c1).
  - eapply Sim_Closes; [apply close_all_Closes | exact S'].
Qed.

Lemma GoodStep_brk_cont c L c' (b : bool) L' :
  LedOn hstate (fun _ => True) c L c' L' -> Sim c' L' -> GoodStep c L (fst (if b then brk c' else cont c')).
Proof.
  intros Led S. destruct b; cbn [fst cont].
  - exists L'. split; [|left; reflexivity].
    eapply LedOn_trans; [exact Led|]. apply LedOn_quiet. apply (q_out _ _ _ (Quiet_brk _ c')).
  - exists L'. split; [exact Led | right; exact S].
Qed.

(* afterFrame, given the stream it works on *)
Lemma after_frame_led ex c s fr wc L :
  SimX hstate ex c L -> (ex = None \/ ex = Some (st_id s)) -> held L s -> st_id s <= sc_lastID c ->
  GoodStep c L (fst (after_frame cfg c s fr wc)).
Proof.
  intros S Hex Hh Hid. unfold after_frame. cbv zeta.
  destruct (handle_state_eff fr s) as ((I1 & W1 & _) & _).
  set (s1 := handle_state fr s) in *.
  assert (H1 : held L s1) by (eapply held_same_win; eassumption).
  (* the middle part: a connection, a ledger, and the stream to write back *)
  assert (M : exists c2 s2 L2,
             (if sstate_eqb (st_state s1) SHalfClosed && st_headersFinished s1 && negb (st_responded s1) then
                  let s2 := set_flags s1 true (st_handlerRunning s1) (st_abandoned s1) in
                  if st_hasCL s2 && negb (st_recvBody s2 =? st_contentLength s2)%Z then
                    (write_reset c (st_id s2) c_ProtocolError, set_state (set_weReset s2) SClosed)
                  else
                    (note c (ODispatch (st_id s2) (st_req s2)), set_flags s2 true true (st_abandoned s2))
                else if st_responded s1 && negb (st_handlerRunning s1) && has_more_to_send s1 then
                  let '(c1, s2, fin) := send_data c s1 in
                  (c1, if fin then set_state s2 SClosed else s2)
                else (c, s1)) = (c2, s2) /\
             LedOn hstate (fun _ => True) c L c2 L2 /\ SimX hstate (Some (st_id s)) c2 L2 /\ held L2 s2 /\
             st_id s2 = st_id s /\ sc_lastID c2 = sc_lastID c).
  { destruct (sstate_eqb (st_state s1) SHalfClosed && st_headersFinished s1 && negb (st_responded s1)).
    - cbv zeta. match goal with |- context [if ?b then _ else _] => destruct b end.
      + eexists _, _, L. split; [reflexivity|]. split; [apply LedOn_quiet, (q_out _ _ _ (Quiet_write_reset _ c _ _))|].
        split; [eapply SimX_Quiet; [apply Quiet_write_reset | eapply SimX_some; eassumption]|].
        split; [eapply held_same_win; [| |exact H1]; reflexivity|]. split; [exact I1 | apply sc_lastID_write_reset].
      + eexists _, _, L. split; [reflexivity|].
        split; [apply LedOn_quiet, (q_out _ _ _ (Quiet_note _ c (ODispatch _ _) I))|].
        split; [eapply SimX_Quiet; [apply (Quiet_note _ c (ODispatch _ _) I) | eapply SimX_some; eassumption]|].
        split; [eapply held_same_win; [| |exact H1]; reflexivity|]. split; [exact I1 | reflexivity].
    - destruct (st_responded s1 && negb (st_handlerRunning s1) && has_more_to_send s1).
      + destruct (send_data_led ex c s1 L S) as (L1 & Led & S1 & Hh1 & Id1 & Lid); rewrite ?I1; try assumption.
        destruct (send_data c s1) as [[c1 s2] fin]. cbn [fst snd] in *. rewrite I1 in *.
        eexists _, _, L1. split; [reflexivity|]. split; [eapply LedOn_weaken; [|exact Led]; auto|].
        split; [exact S1|]. split; [|split; [|exact Lid]].
        * destruct fin; [eapply held_same_win; [| |exact Hh1]; reflexivity | exact Hh1].
        * destruct fin; [exact Id1 | exact Id1].
      + eexists _, _, L. split; [reflexivity|]. split; [apply LedOn_refl|].
        split; [eapply SimX_some; eassumption|]. auto. }
  destruct M as (c2 & s2 & L2 & E & Led & S2 & H2 & I2 & Lid). cbv zeta in E. rewrite E. clear E.
  assert (S3 : Sim (put c2 s2) L2).
  { eapply SimX_put; [exact S2 | right; congruence | exact H2 | rewrite I2, Lid; exact Hid]. }
  set (c3 := if sstate_eqb (st_state s2) SClosed then close_stream (put c2 s2) s2 else put c2 s2).
  assert (G3 : LedOn hstate (fun _ => True) c L c3 L2 /\ Sim c3 L2).
  { subst c3. destruct (sstate_eqb (st_state s2) SClosed).
    - split.
      + eapply LedOn_trans; [exact Led|]. apply LedOn_quiet.
        apply (out_ext_trans _ _ c2 (put c2 s2)); [apply out_ext_same; reflexivity | apply close_stream_out].
      + eapply SimX_close; [exact S3 | left; reflexivity].
    - split; [|exact S3]. eapply LedOn_trans; [exact Led|]. apply LedOn_quiet. apply out_ext_same. reflexivity. }
  destruct G3 as [Led3 S3'].
  eapply GoodStep_brk_cont; eassumption.
Qed.
End Safe2.
