(* Proofs/SrvRfcExamples.v - C08: concrete lockstep runs of the instantiated server model
   (Impl/ServerInst.v) against Spec/Rfc7540Streams.v, by computation. *)
From H2V Require Import Base.Bytes Base.MachineInt Base.Result Gen.GenConsts Impl.Hpack Impl.ServerConn Impl.ServerInst.
From H2V Require Import Proofs.SrvBase Proofs.SrvRfcDefs Proofs.SrvRfcLegal.
From Coq Require Import ZArith.
Local Open Scope N_scope.

Notation srv_feed := (feed hpack_state srv_dec_field srv_enc_field set_max_table_size).
Notation srv_spec_feed := (spec_feed hpack_state srv_dec_field srv_enc_field set_max_table_size).
Notation srv_item_ok := (item_ok hpack_state srv_dec_field srv_enc_field set_max_table_size).
Notation srv_run_items := (run_items hpack_state srv_dec_field srv_enc_field set_max_table_size).
Notation srv_check_from := (check_from hpack_state srv_dec_field srv_enc_field set_max_table_size).

Definition ex_cfg : config := mkCfg 100 0 0 0 65535.
Definition ex_init : sconn hpack_state := init_conn ex_cfg srv_init_hpack.

(* frames as the harness builds them (ocaml/drv_server.ml frame_of_tokens) *)
Definition fr (k : fkind) (fl sid : N) (pl : bytes) (dep code inc : N) : sframe :=
  mkSFrame k fl sid (len pl) pl dep code inc false 0 false 0.
Definition GET : bytes := [0x82; 0x84; 0x87].            (* :method GET, :path /, :scheme https *)
Definition TRAILER : bytes := [0; 1; 97; 1; 98].         (* a: b, literal without indexing *)
Definition F (f : sframe) : item := IIn (RFrame f).
Definition resp : response := mkResp 200 [] (BBuffered [1; 2; 3]).

(* a request in four frames with trailers, its response, a second request reset by the peer,
   PRIORITY and WINDOW_UPDATE frames on open, closed and idle streams, PING and SETTINGS in between *)
Definition ex_run : list item :=
  [ F (fr KPriority 0 1 [] 0 0 0);
    F (fr KHeaders 0 1 [0x82] 0 0 0); F (fr KCont 4 1 [0x84; 0x87] 0 0 0);
    F (fr KPing 0 0 [1;2;3;4;5;6;7;8] 0 0 0);
    F (fr KData 0 1 [104; 105] 0 0 0);
    F (fr KWinUpd 0 1 [] 0 0 100);
    F (fr KHeaders 5 1 TRAILER 0 0 0);
    F (fr KHeaders 4 3 GET 0 0 0);
    IDone 1 resp;
    F (mkSFrame KSettings 0 0 0 [] 0 0 0 false 0 false 0);
    F (fr KWinUpd 0 1 [] 0 0 10);
    F (fr KRst 0 3 [] 0 8 0);
    F (fr KPriority 0 3 [] 0 0 0);
    F (fr KPriority 0 9 [] 0 0 0);
    F (fr KHeaders 5 5 GET 0 0 0);
    IDone 5 resp ].

Definition ex_ids : list N := [1; 3; 5; 7; 9; 11].

(* every reaction allowed, relation R kept (on ex_ids): the executable check says 0 *)
Example ex_run_checks : srv_check_from ex_cfg ex_ids 0 ex_init RS.init ex_run = 0%nat.
Proof. vm_compute. reflexivity. Qed.

Example ex_run_dispatches_1 :
  exists rq, In (ODispatch 1 rq) (trace (fst (srv_run_items ex_cfg ex_init RS.init ex_run))) /\ rq_body rq = [104; 105].
Proof.
  eexists. split; [vm_compute; repeat match goal with |- _ \/ _ => first [left; reflexivity | right] end | reflexivity].
Qed.

Example ex_run_frames_on_1_complete :
  RS.complete_request (frames_on 1 ex_run) = true.
Proof. vm_compute. reflexivity. Qed.

(* the fifth item (DATA on stream 1) may take effect in the state reached, and does *)
Example ex_run_item4_legal :
  let pre := firstn 4 ex_run in
  let c := fst (srv_run_items ex_cfg ex_init RS.init pre) in
  let s := snd (srv_run_items ex_cfg ex_init RS.init pre) in
  let i := RFrame (fr KData 0 1 [104; 105] 0 0 0) in
  nth_error ex_run 4 = Some (IIn i) /\ RS.may_process s (abs_input i) = true /\
  resolve s (abs_input i) (reaction_of hpack_state c i (srv_feed ex_cfg c (IIn i))) = RS.Process.
Proof. vm_compute. repeat split. Qed.

(* two responses wait for send window (initial window 2); the SETTINGS frame that raises it makes
   flushStreams send the rest of both and close both streams in one step *)
Definition ex_flush : list item :=
  [ F (mkSFrame KSettings 0 0 0 [] 0 0 0 false 0 true 2);
    F (fr KHeaders 5 1 GET 0 0 0); F (fr KHeaders 5 3 GET 0 0 0); IDone 1 resp; IDone 3 resp;
    F (mkSFrame KSettings 0 0 0 [] 0 0 0 false 0 true 10) ].
Example ex_flush_checks : srv_check_from ex_cfg ex_ids 0 ex_init RS.init ex_flush = 0%nat.
Proof. vm_compute. reflexivity. Qed.
Example ex_flush_last_step :
  let c := fst (srv_run_items ex_cfg ex_init RS.init (firstn 5 ex_flush)) in
  new_out hpack_state c (srv_feed ex_cfg c (F (mkSFrame KSettings 0 0 0 [] 0 0 0 false 0 true 10))) =
  [OSettingsAck; OData 1 true [3]; OData 3 true [3]; ORelease 1 true; ORelease 3 true].
Proof. vm_compute. reflexivity. Qed.

(* the request timer resets an overdue stream whose handler runs (1) and one whose header block is still
   arriving (3); the rest of the block is discarded, WINDOW_UPDATE on the reset stream ignored *)
Definition ex_tcfg : config := mkCfg 100 0 0 5 65535.
Definition ex_timer : list item :=
  [ F (fr KHeaders 5 1 GET 0 0 0); F (fr KHeaders 0 3 [0x82] 0 0 0); ILocal (LClock 100); ILocal LTimer;
    F (fr KCont 4 3 [0x84; 0x87] 0 0 0); F (fr KWinUpd 0 1 [] 0 0 10); IDone 1 resp ].
Example ex_timer_checks : srv_check_from ex_tcfg ex_ids 0 (init_conn ex_tcfg srv_init_hpack) RS.init ex_timer = 0%nat.
Proof. vm_compute. reflexivity. Qed.
Example ex_timer_resets :
  filter (fun o => match o with ORst _ _ => true | _ => false end)
         (trace (fst (srv_run_items ex_tcfg (init_conn ex_tcfg srv_init_hpack) RS.init ex_timer))) = [ORst 1 8; ORst 3 8].
Proof. vm_compute. reflexivity. Qed.

(* the peer cancels a response that waits for send window (2 of 3 bytes sent): not a deviation (D7 is about a
   stream that could send), the RST_STREAM is processed, nothing is sent *)
Definition ex_cancel_pre : list item :=
  [ F (mkSFrame KSettings 0 0 0 [] 0 0 0 false 0 true 2); F (fr KHeaders 5 1 GET 0 0 0); IDone 1 resp ].
Definition ex_cancel : item := F (fr KRst 0 1 [] 0 8 0).
Example ex_cancel_ok :
  let '(c, s) := srv_run_items ex_cfg ex_init RS.init ex_cancel_pre in
  known_deviation hpack_state c s (RFrame (fr KRst 0 1 [] 0 8 0)) = false /\ srv_item_ok ex_cfg c ex_cancel s = true /\
  new_out hpack_state c (srv_feed ex_cfg c ex_cancel) = [ORelease 1 true].
Proof. vm_compute. repeat split. Qed.

(* a legal frame sequence on three streams (requests with and without body, a cancellation, PRIORITY on an idle
   stream, WINDOW_UPDATE after the response) and its handler completions: no error of any kind in the trace *)
Definition ex_legal : list item :=
  [ F (fr KHeaders 4 1 GET 0 0 0); F (fr KData 1 1 [104; 105] 0 0 0); F (fr KPriority 0 5 [] 0 0 0);
    IDone 1 resp; F (fr KWinUpd 0 1 [] 0 0 10); F (fr KPing 0 0 [1;2;3;4;5;6;7;8] 0 0 0);
    F (fr KHeaders 5 3 GET 0 0 0); F (fr KRst 0 3 [] 0 8 0); IDone 3 resp;
    F (fr KHeaders 1 5 [0x82] 0 0 0); F (fr KCont 4 5 [0x84; 0x87] 0 0 0); IDone 5 resp ].
Example ex_legal_served :
  only_frames_and_completions ex_legal = true /\
  RS.legal (map abs_frame (flat_map frame_of_item ex_legal)) = true /\
  forallb no_error_at_all (trace (fst (srv_run_items ex_cfg ex_init RS.init ex_legal))) = true.
Proof. vm_compute. repeat split. Qed.

(* ---------- the known deviations are real ---------- *)

(* D1: PRIORITY on an even stream id: GOAWAY(PROTOCOL_ERROR); RFC 6.3: allowed on an idle stream *)
Definition ex_D1 : item := F (fr KPriority 0 2 [] 0 0 0).
Example ex_D1_not_allowed : srv_item_ok ex_cfg ex_init ex_D1 RS.init = false.
Proof. vm_compute. reflexivity. Qed.
Example ex_D1_trace : trace (srv_feed ex_cfg ex_init ex_D1) = [OGoAway 0 c_ProtocolError; OExit 0 1; OExit 1 1].
Proof. vm_compute. reflexivity. Qed.
Example ex_D1_is_known : known_deviation hpack_state ex_init RS.init (RFrame (fr KPriority 0 2 [] 0 0 0)) = true.
Proof. vm_compute. reflexivity. Qed.

(* D3: WINDOW_UPDATE after the peer's own RST_STREAM: ignored; RFC 5.1: STREAM_CLOSED *)
Definition ex_D3_pre : list item := [F (fr KHeaders 4 1 GET 0 0 0); F (fr KRst 0 1 [] 0 8 0)].
Definition ex_D3 : item := F (fr KWinUpd 0 1 [] 0 0 10).
Example ex_D3_not_allowed :
  let '(c, s) := srv_run_items ex_cfg ex_init RS.init ex_D3_pre in srv_item_ok ex_cfg c ex_D3 s = false.
Proof. vm_compute. reflexivity. Qed.
Example ex_D3_nothing_sent :
  let '(c, s) := srv_run_items ex_cfg ex_init RS.init ex_D3_pre in sc_out (srv_feed ex_cfg c ex_D3) = sc_out c.
Proof. vm_compute. reflexivity. Qed.
Example ex_D3_is_known :
  let '(c, s) := srv_run_items ex_cfg ex_init RS.init ex_D3_pre in known_deviation hpack_state c s (RFrame (fr KWinUpd 0 1 [] 0 0 10)) = true.
Proof. vm_compute. reflexivity. Qed.

(* D6: SETTINGS carrying the id of a closed stream: GOAWAY(STREAM_CLOSED); RFC 6.5: PROTOCOL_ERROR *)
Definition ex_D6 : item := F (mkSFrame KSettings 0 1 0 [] 0 0 0 false 0 false 0).
Example ex_D6_not_allowed :
  let '(c, s) := srv_run_items ex_cfg ex_init RS.init ex_D3_pre in srv_item_ok ex_cfg c ex_D6 s = false.
Proof. vm_compute. reflexivity. Qed.
Example ex_D6_goaway_code :
  let '(c, s) := srv_run_items ex_cfg ex_init RS.init ex_D3_pre in
  reaction_of hpack_state c (RFrame (mkSFrame KSettings 0 1 0 [] 0 0 0 false 0 false 0)) (srv_feed ex_cfg c ex_D6) = RS.ConnErr c_StreamClosedError.
Proof. vm_compute. reflexivity. Qed.
