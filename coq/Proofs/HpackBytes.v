(* C03: small facts about byte strings, byte-sized case tables (by computation over 0..255)
   and the machine arithmetic used by hpack.go. *)
From Coq Require Import List NArith ZArith Bool Lia.
From H2V Require Import Base.Bytes Base.MachineInt Base.Result.
Import ListNotations.
Local Open Scope N_scope.

(* ---- lists of bytes ---- *)

Lemma len_nil : len [] = 0.
Proof. reflexivity. Qed.

Lemma len_cons x b : len (x :: b) = len b + 1.
Proof. unfold len. cbn [length]. lia. Qed.

Lemma len_app a b : len (a ++ b) = len a + len b.
Proof. unfold len. rewrite app_length. lia. Qed.

Lemma len_length b : len b = N.of_nat (length b).
Proof. reflexivity. Qed.

Lemma bytes_ok_cons x b : bytes_ok (x :: b) = true <-> x < 256 /\ bytes_ok b = true.
Proof.
  unfold bytes_ok. cbn [forallb]. rewrite andb_true_iff. unfold byte_ok. rewrite N.ltb_lt. tauto.
Qed.

Lemma bytes_ok_app a b : bytes_ok (a ++ b) = true <-> bytes_ok a = true /\ bytes_ok b = true.
Proof. unfold bytes_ok. rewrite forallb_app, andb_true_iff. tauto. Qed.

Lemma bytes_ok_firstn n b : bytes_ok b = true -> bytes_ok (firstn n b) = true.
Proof.
  intros H. rewrite <- (firstn_skipn n b) in H. apply bytes_ok_app in H. tauto.
Qed.

Lemma bytes_ok_skipn n b : bytes_ok b = true -> bytes_ok (skipn n b) = true.
Proof.
  intros H. rewrite <- (firstn_skipn n b) in H. apply bytes_ok_app in H. tauto.
Qed.

Lemma bytes_ok_takeN n b : bytes_ok b = true -> bytes_ok (takeN n b) = true.
Proof. apply bytes_ok_firstn. Qed.

Lemma bytes_ok_dropN n b : bytes_ok b = true -> bytes_ok (dropN n b) = true.
Proof. apply bytes_ok_skipn. Qed.

Lemma takeN_dropN n b : takeN n b ++ dropN n b = b.
Proof. apply firstn_skipn. Qed.

Lemma len_takeN n b : n <= len b -> len (takeN n b) = n.
Proof. unfold len, takeN. intros H. rewrite firstn_length. lia. Qed.

Lemma len_dropN n b : len (dropN n b) = len b - n.
Proof. unfold len, dropN. rewrite skipn_length. lia. Qed.

Lemma takeN_app n a y : n <= len a -> takeN n (a ++ y) = takeN n a.
Proof.
  unfold len, takeN. intros H. rewrite firstn_app.
  replace (N.to_nat n - length a)%nat with 0%nat by lia. cbn [firstn]. apply app_nil_r.
Qed.

Lemma dropN_app n a y : n <= len a -> dropN n (a ++ y) = dropN n a ++ y.
Proof.
  unfold len, dropN. intros H. rewrite skipn_app.
  replace (N.to_nat n - length a)%nat with 0%nat by lia. reflexivity.
Qed.

Lemma bytes_eqb_eq : forall a b, bytes_eqb a b = true <-> a = b.
Proof.
  induction a as [|x a IH]; destruct b as [|y b]; cbn [bytes_eqb]; split; intros H;
    try reflexivity; try discriminate.
  - apply andb_prop in H. destruct H as [H1 H2]. apply N.eqb_eq in H1. apply IH in H2. congruence.
  - injection H as -> ->. rewrite N.eqb_refl. cbn [andb]. apply IH. reflexivity.
Qed.

(* ---- case tables over a byte ---- *)

Lemma byte_table (P : N -> bool) :
  forallb P (map N.of_nat (seq 0 256)) = true -> forall x, x < 256 -> P x = true.
Proof.
  intros H x Hx. rewrite forallb_forall in H. apply H.
  rewrite in_map_iff. exists (N.to_nat x). split; [apply N2Nat.id|]. apply in_seq. lia.
Qed.

(* the dispatch of nextField on the first octet, against the specification's comparisons *)
Definition dispatch_okb (c : N) : bool :=
  Bool.eqb (N.land c 128 =? 128) (128 <=? c) &&
  (if c <? 128 then Bool.eqb (N.land c 64 =? 64) (64 <=? c) else true) &&
  (if c <? 64 then Bool.eqb (N.land c 240 =? 16) ((16 <=? c) && (c <? 32)) &&
                   Bool.eqb (N.land c 240 =? 0) (c <? 16) &&
                   Bool.eqb (N.land c 32 =? 32) (32 <=? c) else true) &&
  Bool.eqb (N.land c 15 =? 0) (c mod 16 =? 0) &&
  (if (64 <=? c) && (c <? 128) then Bool.eqb (c =? 64) (c mod 64 =? 0) else true).

Ltac split_andb :=
  repeat match goal with X : _ && _ = true |- _ => apply andb_prop in X; destruct X end.

Lemma dispatch_table : forallb dispatch_okb (map N.of_nat (seq 0 256)) = true.
Proof. vm_compute. reflexivity. Qed.

Lemma dispatch_128 c : c < 256 -> (N.land c 128 =? 128) = (128 <=? c).
Proof.
  intros H. pose proof (byte_table _ dispatch_table c H) as T. unfold dispatch_okb in T.
  split_andb. apply eqb_prop. assumption.
Qed.

Lemma dispatch_64 c : c < 128 -> (N.land c 64 =? 64) = (64 <=? c).
Proof.
  intros H. assert (H' : c < 256) by lia. pose proof (byte_table _ dispatch_table c H') as T.
  unfold dispatch_okb in T. apply N.ltb_lt in H. rewrite H in T.
  split_andb. apply eqb_prop. assumption.
Qed.

Lemma dispatch_low c : c < 64 ->
  (N.land c 240 =? 16) = ((16 <=? c) && (c <? 32)) /\
  (N.land c 240 =? 0) = (c <? 16) /\
  (N.land c 32 =? 32) = (32 <=? c).
Proof.
  intros H. assert (H' : c < 256) by lia. pose proof (byte_table _ dispatch_table c H') as T.
  unfold dispatch_okb in T. apply N.ltb_lt in H. rewrite H in T.
  split_andb.
  repeat match goal with X : Bool.eqb _ _ = true |- _ => apply eqb_prop in X end. auto.
Qed.

Lemma dispatch_15 c : c < 256 -> (N.land c 15 =? 0) = (c mod 16 =? 0).
Proof.
  intros H. pose proof (byte_table _ dispatch_table c H) as T. unfold dispatch_okb in T.
  split_andb. apply eqb_prop. assumption.
Qed.

Lemma dispatch_eq64 c : 64 <= c -> c < 128 -> (c =? 64) = (c mod 64 =? 0).
Proof.
  intros H1 H. assert (H' : c < 256) by lia. pose proof (byte_table _ dispatch_table c H') as T.
  unfold dispatch_okb in T. apply N.ltb_lt in H. apply N.leb_le in H1. rewrite H, H1 in T.
  split_andb. apply eqb_prop. assumption.
Qed.

(* masks only look at the low eight bits, whatever the N is *)
Lemma land_low8 c m : m < 256 -> N.land c m = N.land (c mod 256) m.
Proof.
  intros Hm. change 256 with (2 ^ 8). rewrite <- N.land_ones, <- N.land_assoc. f_equal.
  change (N.ones 8) with 255. symmetry.
  apply N.bits_inj. intros k. rewrite N.land_spec.
  destruct (N.ltb_spec k 8) as [Hk|Hk].
  - replace (N.testbit 255 k) with true; [reflexivity|].
    change 255 with (N.ones 8). symmetry. apply N.ones_spec_low. exact Hk.
  - replace (N.testbit m k) with false; [apply andb_false_r|]. symmetry.
    destruct (N.eq_dec m 0) as [->|Hm0]; [apply N.bits_0|].
    apply N.bits_above_log2. apply N.lt_le_trans with 8; [|exact Hk].
    apply N.log2_lt_pow2; [lia|]. exact Hm.
Qed.

(* ---- machine arithmetic ---- *)

Lemma u8_small x : x < 256 -> u8 x = x.
Proof. intros H. unfold u8, wrap. apply N.mod_small. exact H. Qed.

Lemma u32_small x : x < 2 ^ 32 -> u32 x = x.
Proof. intros H. unfold u32, wrap. apply N.mod_small. exact H. Qed.

Lemma u64_small x : x < 2 ^ 64 -> u64 x = x.
Proof. intros H. unfold u64, wrap. apply N.mod_small. exact H. Qed.

Lemma subw32_small a b : b <= a -> a < 2 ^ 32 -> subw 32 a b = a - b.
Proof.
  intros H1 H2. unfold subw. rewrite (N.mod_small b) by lia.
  replace (a + 2 ^ 32 - b) with (a - b + 1 * 2 ^ 32) by lia.
  rewrite N.mod_add by (compute; discriminate). apply N.mod_small. lia.
Qed.

Lemma lor_low_shift a x m : a < 2 ^ m -> N.lor a (x * 2 ^ m) = a + x * 2 ^ m.
Proof.
  intros H. rewrite N.lor_comm, N.add_comm.
  apply N.bits_inj. intros k.
  rewrite <- N.shiftl_mul_pow2.
  rewrite <- (N.lxor_lor (N.shiftl x m) a).
  - rewrite <- N.add_nocarry_lxor; [reflexivity|].
    apply N.bits_inj. intros j. rewrite N.land_spec, N.bits_0.
    destruct (N.ltb_spec j m) as [Hj|Hj].
    + rewrite N.shiftl_spec_low by exact Hj. reflexivity.
    + replace (N.testbit a j) with false; [apply andb_false_r|]. symmetry.
      destruct (N.eq_dec a 0) as [->|Ha]; [apply N.bits_0|].
      apply N.bits_above_log2. apply N.lt_le_trans with m; [|exact Hj].
      apply N.log2_lt_pow2; [lia|exact H].
  - apply N.bits_inj. intros j. rewrite N.land_spec, N.bits_0.
    destruct (N.ltb_spec j m) as [Hj|Hj].
    + rewrite N.shiftl_spec_low by exact Hj. reflexivity.
    + replace (N.testbit a j) with false; [apply andb_false_r|]. symmetry.
      destruct (N.eq_dec a 0) as [->|Ha]; [apply N.bits_0|].
      apply N.bits_above_log2. apply N.lt_le_trans with m; [|exact Hj].
      apply N.log2_lt_pow2; [lia|exact H].
Qed.
