(* Proofs/TeardownSrvS2.v -- blocking-structure model (Impl/Teardown.v), server, S2: fair runs.
   Statements: Props/Teardown.v; overview: Proofs/TeardownProofs.v. *)
From Coq Require Import Arith Lia Bool List.
From RecordUpdate Require Import RecordSet.
Import RecordSetNotations.
Import ListNotations.
From H2V Require Import Impl.Teardown Proofs.TeardownGen Proofs.TeardownSrvInv Proofs.TeardownSrvS1.

Module SrvP2.
Import Srv SrvP SrvP1.

Ltac act_cases a := destruct a; try match goal with c : wchoice |- _ => destruct c end.
Ltac injs :=
  repeat match goal with
         | H : RWrite _ = RWrite _ |- _ => inversion H; clear H; subst
         | H : WSock _ = WSock _ |- _ => inversion H; clear H; subst
         end.
Ltac done_goal := cbn; rw_pcs; injs; cbn; repeat split; auto; try congruence; try lia.
Ltac ens1 :=
  let s := fresh "s" in let a := fresh "a" in let I := fresh "I" in
  let HP := fresh "HP" in let G := fresh "G" in
  intros s a I HP G; act_cases a; cbn in G |- *; break; try congruence;
  first [ left; solve [done_goal] | right; solve [done_goal] | idtac ].
Ltac ens2 :=
  let s := fresh "s" in let a := fresh "a" in let I := fresh "I" in
  let HP := fresh "HP" in let G := fresh "G" in let Ga := fresh "Ga" in
  intros s a I HP Ga G; act_cases a; cbn in Ga; try contradiction; cbn in G |- *; break;
  try congruence; try solve [done_goal].

Ltac rd_case :=
  first [ left; solve [cbn; auto 6]
        | right; bools; cbn -[Nat.mul] in *; repeat split; eauto; lia ].

Section P.
Variable cap : nat.
Hypothesis cap_pos : 1 <= cap.
Notation guard := (Srv.guard cap).
Notation reachable := (Srv.reachable cap).
Notation inv := (SrvP.inv cap).

Variable r : run guard eff.
Hypothesis F : fair_run cap r.
Hypothesis R0 : reachable (st r 0).

Lemma Inv_run : forall i, inv (st r i).
Proof. intros; apply reachable_inv; apply reach_run; auto. Qed.

Notation "P ~> Q" := (leadsto r P Q) (at level 70).
Notation ensures := (lt_ensures guard eff r inv Inv_run).

Let Fsv : fair g_sv r := proj1 F.
Let Fsl : fair g_sl r := proj1 (proj2 F).
Let Fwl : fair g_wl r := proj1 (proj2 (proj2 F)).
Let Ftmo : fair g_tmo r := proj2 (proj2 (proj2 (proj2 (proj2 (proj2 F))))).

(* -- the stream loop's goroutine finishes its three statements -- *)
Lemma slA : (fun s => sl s = SExitA) ~> (fun s => sl s = SExitB).
Proof. apply (ensures g_sl); auto; [ens1 | ens2 | intros s I H; exists SCloseHStop; cbn; auto]. Qed.
Lemma slB : (fun s => sl s = SExitB) ~> (fun s => sl s = SExitC).
Proof. apply (ensures g_sl); auto; [ens1 | ens2 | intros s I H; exists SStopPing; cbn; auto]. Qed.
Lemma slC : (fun s => sl s = SExitC) ~> (fun s => sl s = SDone).
Proof. apply (ensures g_sl); auto; [ens1 | ens2 | intros s I H; exists SCloseWStop; cbn; auto]. Qed.

Lemma sl_finishes : sl_exited ~> (fun s => sl s = SDone).
Proof.
  intros i [H|[H|[H|H]]].
  - eapply (lt_trans _ _ _ _ _ _ slA (lt_trans _ _ _ _ _ _ slB slC)); eauto.
  - eapply (lt_trans _ _ _ _ _ _ slB slC); eauto.
  - eapply slC; eauto.
  - exists i; auto.
Qed.

Lemma sl_done_stable : stable guard eff inv (fun s => sl s = SDone).
Proof. intros s a I H G; act_cases a; cbn in G |- *; break; congruence. Qed.
Lemma sl_exited_stable : stable guard eff inv sl_exited.
Proof.
  unfold sl_exited; intros s a I H G; act_cases a; cbn in G |- *; break; auto;
    destruct H as [H|[H|[H|H]]]; try congruence; auto.
Qed.

(* -- Serve's teardown, once readLoop has returned, ends within the drain timeout -- *)
Lemma svStop : (fun s => sv s = VStop) ~> (fun s => sv s = VCloseRd).
Proof. apply (ensures g_sv); auto; [ens1 | ens2 | intros s I H; exists VStopTimers; cbn; auto]. Qed.
Lemma svCloseRd : (fun s => sv s = VCloseRd) ~> (fun s => sv s = VWait).
Proof. apply (ensures g_sv); auto; [ens1 | ens2 | intros s I H; exists VCloseReader; cbn; auto]. Qed.
Lemma svWait1 : (fun s => sv s = VWait /\ wdone s = false /\ tmo s = false) ~>
                (fun s => sv s = VWait /\ (wdone s = true \/ tmo s = true)).
Proof.
  apply (ensures g_tmo); auto; [ens1 | ens2 | intros s I (H1 & H2 & H3); exists EDrainTimeout; cbn; auto].
Qed.
Lemma svWait2 : (fun s => sv s = VWait /\ (wdone s = true \/ tmo s = true)) ~> (fun s => sv s = VEnd).
Proof.
  apply (ensures g_sv); auto; [ens1 | ens2 | ].
  - intros s I (H1 & [H2|H2]); [exists VWaitDone | exists VWaitTmo]; cbn; auto.
Qed.
Lemma svWait : (fun s => sv s = VWait) ~> (fun s => sv s = VEnd).
Proof.
  intros i H. destruct (wdone (st r i)) eqn:E1; [|destruct (tmo (st r i)) eqn:E2].
  - apply svWait2; auto.
  - apply svWait2; auto.
  - eapply (lt_trans _ _ _ _ _ _ svWait1 svWait2); eauto.
Qed.
Lemma sv_teardown : (fun s => sv s = VStop \/ sv s = VCloseRd \/ sv s = VWait \/ sv s = VEnd) ~>
                    (fun s => sv s = VEnd).
Proof.
  intros i [H|[H|[H|H]]].
  - eapply (lt_trans _ _ _ _ _ _ svStop (lt_trans _ _ _ _ _ _ svCloseRd svWait)); eauto.
  - eapply (lt_trans _ _ _ _ _ _ svCloseRd svWait); eauto.
  - eapply svWait; eauto.
  - exists i; auto.
Qed.
Lemma sv_end_stable : stable guard eff inv (fun s => sv s = VEnd).
Proof. intros s a I H G; act_cases a; cbn in G |- *; break; congruence. Qed.

(* -- the parking points of the read loop, once the stream loop's goroutine is through -- *)
Lemma svWriteRet : (fun s => sv s = RWrite true /\ sl s = SDone) ~> (fun s => sv s = VStop).
Proof.
  apply (ensures g_sv); auto; [ens1 | ens2 | ].
  intros s I (H1 & H2). exists (RWr ViaStop); cbn; repeat split; eauto.
  destruct I. rewrite i_wstop0, H2; auto.
Qed.
Lemma svWriteGo : (fun s => sv s = RWrite false /\ sl s = SDone) ~> (fun s => sv s = RRead).
Proof.
  apply (ensures g_sv); auto; [ens1 | ens2 | ].
  intros s I (H1 & H2). exists (RWr ViaStop); cbn; repeat split; eauto.
  destruct I. rewrite i_wstop0, H2; auto.
Qed.
Lemma svFwd : (fun s => sv s = RFwd /\ sl s = SDone) ~> (fun s => sv s = RRead \/ sv s = VStop).
Proof.
  apply (ensures g_sv); auto; [ens1 | ens2 | ].
  intros s I (H1 & H2). exists RFwdStop; cbn; repeat split; eauto.
  destruct I. rewrite i_hstop0, H2; auto.
Qed.
(* reader is full: forward can only take the handlerStop case *)
Lemma svFwdFull : (fun s => sv s = RFwd /\ cap <= rd s /\ sl s = SDone) ~> (fun s => sv s = VStop).
Proof.
  apply (ensures g_sv); auto; [ens1 | ens2 | ].
  intros s I (H1 & H2 & H3). exists RFwdStop; cbn; repeat split; eauto.
  destruct I. rewrite i_hstop0, H3; auto.
Qed.

(* -- once the socket is dead and writeStop closed, the write loop's goroutine ends -- *)
Definition wl_rank_dead (p : wl_pc) : nat :=
  match p with
  | WDone => 0 | WCloseDone => 1 | WCloseSock => 2 | WFlush => 3 | WSock true => 3 | WDrain => 4
  | WSock false => 5 | WSelect => 6
  end.
Definition wlP (s : state) : Prop := dead s = true /\ sl s = SDone.
Lemma wlP_stable : stable guard eff inv wlP.
Proof.
  intros s a I (H1 & H2) G. split; [apply dead_stable; auto | eapply sl_done_stable; eauto].
Qed.
Lemma wl_step : forall n,
  (fun s => (wlP s /\ wl s <> WDone) /\ wl_rank_dead (wl s) = n) ~>
  (fun s => wlP s /\ wl_rank_dead (wl s) < n).
Proof.
  intros n. apply (ensures g_wl); auto.
  - intros s a I ((HP & Hw) & Hn) G.
    pose proof (wlP_stable s a I HP G) as HP'.
    unfold wlP in *; act_cases a; cbn in G, HP' |- *; break;
      first [ left; solve [repeat split; auto]
            | right; (split; [auto|]); rw_pcs; injs; cbn in *; try lia ];
      try congruence; try (destruct x; cbn in *; lia).
  - intros s a I ((HP & Hw) & Hn) Ga G.
    pose proof (wlP_stable s a I HP G) as HP'.
    unfold wlP in *; act_cases a; cbn in Ga; try contradiction; cbn in G, HP' |- *; break;
      (split; [auto|]); rw_pcs; injs; cbn in *; try lia;
      try congruence; try (destruct x; cbn in *; lia).
  - intros s I (((D & Hs) & Hw) & Hn). destruct I.
    destruct (wl s) eqn:E; try congruence.
    + exists WStop; cbn; repeat split; auto. rewrite i_wstop0, Hs; auto.
    + exists WSockFail; cbn; repeat split; eauto.
    + destruct (Nat.eq_dec (wr s) 0); [exists WDrainEmpty | exists WDrainTake]; cbn; repeat split; auto; lia.
    + exists WFlushRet; cbn; repeat split; auto.
    + exists WSockClose; cbn; auto.
    + exists WDoneClose; cbn; auto.
Qed.
Lemma wl_finishes : wlP ~> (fun s => wl s = WDone).
Proof.
  apply (lt_variant guard eff r wlP (fun s => wl s = WDone) (fun s => wl_rank_dead (wl s))).
  intros n i (HP & Hn).
  assert (wl (st r i) = WDone \/ wl (st r i) <> WDone) as [E|E]
    by (destruct (wl (st r i)); auto; right; congruence).
  - exists i; split; auto.
  - destruct (wl_step n i) as (j & Hj & HP' & Hlt); [repeat split; auto; apply HP|].
    exists j; split; auto.
Qed.

(* -- S2: the read loop does not stay parked on reader or in sc.write -- *)
Lemma sv_pc_dec : forall p q : sv_pc, {p = q} + {p <> q}.
Proof. decide equality; apply bool_dec. Qed.

Theorem unpark_forward :
  (fun s => sl_exited s /\ sv s = RFwd) ~> (fun s => sv s <> RFwd).
Proof.
  intros i (Hx & Hs).
  destruct (sl_finishes i Hx) as (j & Hj & Hd).
  destruct (sv_pc_dec (sv (st r j)) RFwd) as [E|E]; [|exists j; auto].
  destruct (svFwd j (conj E Hd)) as (k & Hk & Hq).
  exists k; split; [lia|]. destruct Hq; congruence.
Qed.

Theorem unpark_write :
  (fun s => sl_exited s /\ exists b, sv s = RWrite b) ~> (fun s => forall b, sv s <> RWrite b).
Proof.
  intros i (Hx & Hs).
  destruct (sl_finishes i Hx) as (j & Hj & Hd).
  destruct (sv (st r j)) eqn:E; try (exists j; split; [auto | intros; congruence]).
  destruct ret.
  - destruct (svWriteRet j (conj E Hd)) as (k & Hk & Hq). exists k; split; [lia|]. intros; congruence.
  - destruct (svWriteGo j (conj E Hd)) as (k & Hk & Hq). exists k; split; [lia|]. intros; congruence.
Qed.

(* -- S2: once the read loop is on its way out, Serve returns and everything unwinds -- *)
Lemma leaving_stable : stable guard eff inv (fun s => sl_exited s /\ sv_leaving cap s).
Proof.
  intros s a I (Hx & Hl) G. split; [eapply sl_exited_stable; eauto|].
  unfold sv_leaving, sl_exited in *.
  act_cases a; cbn in G |- *; break; auto;
    try (destruct Hl as [Hl|[(Hl & Hr)|[Hl|[Hl|[Hl|Hl]]]]]; rw_pcs; injs; cbn; auto 10; try congruence; try lia; fail).
  all: destruct Hx as [Hx|[Hx|[Hx|Hx]]]; congruence.
Qed.

Lemma leaving_to_teardown :
  (fun s => sv_leaving cap s /\ sl s = SDone) ~>
  (fun s => sv s = VStop \/ sv s = VCloseRd \/ sv s = VWait \/ sv s = VEnd).
Proof.
  intros i (Hl & Hd). destruct Hl as [Hl|[(Hl & Hr)|Hl]].
  - destruct (svWriteRet i (conj Hl Hd)) as (k & Hk & Hq). exists k; auto.
  - destruct (svFwdFull i (conj Hl (conj Hr Hd))) as (k & Hk & Hq). exists k; auto.
  - exists i; auto.
Qed.

Lemma end_to_exited : (fun s => sv s = VEnd /\ sl s = SDone) ~> loops_exited.
Proof.
  intros i (H1 & H2).
  assert (wlP (st r i)) as HP.
  { split; auto. pose proof (Inv_run i) as I. destruct I. unfold dead.
    rewrite i_svend0; [apply orb_true_r | rewrite H1; auto]. }
  assert (stable guard eff inv (fun s => sv s = VEnd /\ sl s = SDone)) as HS.
  { intros s a I (A & B) G; split; [eapply sv_end_stable | eapply sl_done_stable]; eauto. }
  destruct (lt_stable guard eff r inv Inv_run _ _ _ wl_finishes HS i) as (j & Hj & Hw & H3 & H4); auto.
  exists j; repeat split; auto.
Qed.

Theorem serve_returns :
  (fun s => sl_exited s /\ sv_leaving cap s) ~> loops_exited.
Proof.
  intros i H.
  destruct (lt_stable guard eff r inv Inv_run _ _ _ sl_finishes leaving_stable i)
    as (j & Hj & Hd & Hx & Hl); [tauto|].
  destruct (lt_stable guard eff r inv Inv_run _ _ _ leaving_to_teardown sl_done_stable j)
    as (k & Hk & Ht & Hd'); [tauto|].
  destruct (lt_stable guard eff r inv Inv_run _ _ _ sv_teardown sl_done_stable k)
    as (m & Hm & He & Hd''); [tauto|].
  destruct (end_to_exited m (conj He Hd'')) as (n & Hn & Hq).
  exists n; split; auto; lia.
Qed.

(* -- S2/S1 under fairness: if the socket is dead (the peer closed, or the write loop closed it
      after its drain), the read loop leaves whatever it is doing -- *)
Definition sv_rank_dead (s : state) : nat :=
  20 * b2n (rdy s) + sv_rank (sv s).
Definition rdP (s : state) : Prop := dead s = true /\ sl s = SDone.
Definition sv_reading (s : state) : Prop := sv s = RRead \/ sv s = RFwd \/ exists b, sv s = RWrite b.
Definition sv_tearing (s : state) : Prop :=
  sv s = VStop \/ sv s = VCloseRd \/ sv s = VWait \/ sv s = VEnd.

Lemma rd_step : forall n,
  (fun s => (rdP s /\ sv_reading s) /\ sv_rank_dead s = n) ~>
  (fun s => sv_tearing s \/ ((rdP s /\ sv_reading s) /\ sv_rank_dead s < n)).
Proof.
  intros n. apply (ensures g_sv); auto.
  - intros s a I ((HP & Hr) & Hn) G.
    pose proof (wlP_stable s a I HP G) as HP'.
    unfold rdP, wlP, sv_reading, sv_tearing, sv_rank_dead in *.
    act_cases a; cbn -[Nat.mul] in G, HP' |- *; break;
      first [ left; solve [repeat split; auto]
            | right; destruct Hr as [Hr|[Hr|(b' & Hr)]]; rw_pcs; injs; try discriminate;
              repeat match goal with b : bool |- _ => destruct b end; try rd_case ];
      try (unfold dead in *; bools; cbn in *; congruence).
  - intros s a I ((HP & Hr) & Hn) Ga G.
    pose proof (wlP_stable s a I HP G) as HP'.
    unfold rdP, wlP, sv_reading, sv_tearing, sv_rank_dead in *.
    act_cases a; cbn in Ga; try contradiction; cbn -[Nat.mul] in G, HP' |- *; break;
      destruct Hr as [Hr|[Hr|(b' & Hr)]]; rw_pcs; injs; try discriminate;
      repeat match goal with b : bool |- _ => destruct b end; try rd_case;
      try (unfold dead in *; bools; cbn in *; congruence).
  - intros s I (((D & Hs) & Hr) & Hn). destruct I.
    destruct Hr as [Hr|[Hr|(b' & Hr)]].
    + exists RReadFail; cbn; auto.
    + exists RFwdStop; cbn; repeat split; auto. rewrite i_hstop0, Hs; auto.
    + exists (RWr ViaStop); cbn; repeat split; eauto. rewrite i_wstop0, Hs; auto.
Qed.

Lemma reading_or_tearing : forall s, sv_reading s \/ sv_tearing s.
Proof. intros s; unfold sv_reading, sv_tearing; destruct (sv s); eauto 8. Qed.

Lemma rd_finishes : (fun s => rdP s /\ sv_reading s) ~> sv_tearing.
Proof.
  apply (lt_variant guard eff r _ _ sv_rank_dead). intros n i H.
  destruct (rd_step n i H) as (j & Hj & Hq). exists j; auto.
Qed.

Theorem dead_returns : (fun s => sl_exited s /\ dead s = true) ~> loops_exited.
Proof.
  intros i (Hx & Hd).
  assert (stable guard eff inv (fun s => dead s = true)) as HS
    by (intros s a I H G; apply dead_stable; auto).
  destruct (lt_stable guard eff r inv Inv_run _ _ _ sl_finishes HS i) as (j & Hj & Hs & Hd'); [tauto|].
  assert (exists k, j <= k /\ sv_tearing (st r k) /\ sl (st r k) = SDone) as (k & Hk & Ht & Hs').
  { destruct (reading_or_tearing (st r j)) as [Hr|Ht]; [|exists j; auto].
    destruct (lt_stable guard eff r inv Inv_run _ _ _ rd_finishes sl_done_stable j)
      as (k & Hk & Ht & Hs'); [unfold rdP; tauto|]. exists k; auto. }
  destruct (lt_stable guard eff r inv Inv_run _ _ _ sv_teardown sl_done_stable k)
    as (m & Hm & He & Hs''); [tauto|].
  destruct (end_to_exited m (conj He Hs'')) as (n & Hn & Hq).
  exists n; split; auto; lia.
Qed.
End P.
End SrvP2.
