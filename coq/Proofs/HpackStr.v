(* C03: readString against RFC 7541 5.2 (spec_dec_str), and its structural properties. *)
From Coq Require Import List NArith ZArith Bool Lia.
From H2V Require Import Base.Bytes Base.MachineInt Base.Result Gen.GenConsts Impl.Huffman Impl.Hpack
     Spec.Rfc7541Huffman Spec.Rfc7541 Proofs.HuffmanDecode Proofs.HpackBytes Proofs.HpackInt Proofs.HpackSpecHuff.
Import ListNotations.
Local Open Scope N_scope.
Local Opaque huffman_root.

(* ---- the error classes of HuffmanDecode (any table) ---- *)

Definition huff_class (e : N) : Prop := e = E_huff_index \/ e = E_huff_left \/ e = E_huff_zero.

Lemma dec_inner_err : forall fuel root s e, dec_inner fuel root s = Err e -> huff_class e.
Proof.
  induction fuel as [|fuel IH]; intros root s e H; [discriminate|].
  rewrite dec_inner_S in H.
  destruct (8 <=? d_bits s); [|discriminate].
  cbv zeta in H.
  destruct (step_node (d_node s) (u8 (N.shiftr (d_acc s) (d_bits s - 8)))) as [[[sym cl|sub]|]|e'|w] eqn:E.
  - eapply IH; exact H.
  - eapply IH; exact H.
  - injection H as <-. left. reflexivity.
  - unfold step_node in E. destruct (d_node s); [discriminate|]. destruct (idx sub _); discriminate.
  - discriminate.
Qed.

Lemma dec_bytes_err : forall root src s e, dec_bytes root src s = Err e -> huff_class e.
Proof.
  intros root. induction src as [|b rest IH]; intros s e H; [discriminate|].
  rewrite dec_bytes_cons in H. remember 40%nat as f40 eqn:Hf. clear Hf.
  destruct (dec_inner f40 root _) as [s2|e'|w] eqn:E.
  - eapply IH; exact H.
  - injection H as <-. eapply dec_inner_err; exact E.
  - discriminate.
Qed.

Lemma dec_tail_err : forall fuel root s e, dec_tail fuel root s = Err e -> huff_class e.
Proof.
  induction fuel as [|fuel IH]; intros root s e H; [discriminate|].
  rewrite dec_tail_S in H.
  destruct (0 <? d_bits s); [|discriminate].
  cbv zeta in H.
  destruct (step_node (d_node s) (u8 (N.shiftl (d_acc s) (8 - d_bits s)))) as [[[sym cl|sub]|]|e'|w] eqn:E.
  - destruct (d_bits s <? cl); [discriminate|]. eapply IH; exact H.
  - discriminate.
  - injection H as <-. left. reflexivity.
  - unfold step_node in E. destruct (d_node s); [discriminate|]. destruct (idx sub _); discriminate.
  - discriminate.
Qed.

Lemma huffman_decode_with_unfold root src : huffman_decode_with root src =
  match dec_bytes root src (mkD 0 0 0 root []) with
  | Ok s1 =>
    match dec_tail 16 root s1 with
    | Ok s2 => dec_finish s2
    | Err e => Err e
    | Panic w => Panic w
    end
  | Err e => Err e
  | Panic w => Panic w
  end.
Proof. reflexivity. Qed.

Lemma huffman_decode_with_err root src e : huffman_decode_with root src = Err e -> huff_class e.
Proof.
  rewrite huffman_decode_with_unfold. remember 16%nat as f16 eqn:Hf. clear Hf.
  destruct (dec_bytes root src _) as [s1|e1|w1] eqn:E1.
  - destruct (dec_tail f16 root s1) as [s2|e2|w2] eqn:E2.
    + unfold dec_finish. destruct (7 <? d_left s2).
      * intros H. injection H as <-. right. left. reflexivity.
      * destruct (_ =? _); [discriminate|]. intros H. injection H as <-. right. right. reflexivity.
    + intros H. injection H as <-. eapply dec_tail_err; exact E2.
    + discriminate.
  - intros H. injection H as <-. eapply dec_bytes_err; exact E1.
  - discriminate.
Qed.

Lemma huffman_decode_err src e : huffman_decode src = Err e -> e <> E_unexpected_size.
Proof.
  intros H. apply huffman_decode_with_err in H. destruct H as [->| [->| ->]]; discriminate.
Qed.

(* ---- structure of readString: valid for any list of N ---- *)

Lemma read_string_cons c b :
  read_string (c :: b) =
  match read_int 7 (c :: b) with
  | Err e => Err e
  | Panic w => Panic w
  | Ok (b1, n) =>
      if len b1 <? n then Err E_unexpected_size
      else if N.land c 128 =? 128 then
        match huffman_decode (takeN n b1) with
        | Ok dst => Ok (dropN n b1, dst)
        | Err e => Err e
        | Panic w => Panic w
        end
      else Ok (dropN n b1, takeN n b1)
  end.
Proof. reflexivity. Qed.

Lemma read_string_ok b rest s : read_string b = Ok (rest, s) ->
  exists pre, b = pre ++ rest /\ pre <> [] /\ forall y, read_string (b ++ y) = Ok (rest ++ y, s).
Proof.
  destruct b as [|c b]; [discriminate|]. rewrite read_string_cons.
  destruct (read_int 7 (c :: b)) as [[b1 n]|e|w] eqn:E; try discriminate.
  destruct (read_int_ok _ _ _ _ E) as [pre [Hb [Hne Hy]]].
  destruct (N.ltb_spec (len b1) n) as [Hlt|Hge]; [discriminate|].
  assert (Hpre : c :: b = (pre ++ takeN n b1) ++ dropN n b1)
    by (rewrite <- app_assoc, takeN_dropN; exact Hb).
  assert (Hne' : pre ++ takeN n b1 <> []) by (destruct pre; [congruence | discriminate]).
  assert (Hext : forall y, len (b1 ++ y) <? n = false)
    by (intros y; apply N.ltb_ge; rewrite len_app; lia).
  destruct (N.land c 128 =? 128) eqn:Eh.
  - destruct (huffman_decode (takeN n b1)) as [dst|e|w] eqn:Ed; try discriminate.
    intros H. injection H as <- <-. exists (pre ++ takeN n b1). split; [exact Hpre|]. split; [exact Hne'|].
    intros y. change ((c :: b) ++ y) with (c :: (b ++ y)). rewrite read_string_cons.
    change (c :: (b ++ y)) with ((c :: b) ++ y). rewrite Hy, Hext, Eh, takeN_app, Ed, dropN_app by exact Hge.
    reflexivity.
  - intros H. injection H as <- <-. exists (pre ++ takeN n b1). split; [exact Hpre|]. split; [exact Hne'|].
    intros y. change ((c :: b) ++ y) with (c :: (b ++ y)). rewrite read_string_cons.
    change (c :: (b ++ y)) with ((c :: b) ++ y). rewrite Hy, Hext, Eh, takeN_app, dropN_app by exact Hge.
    reflexivity.
Qed.

Lemma read_string_err b e : read_string b = Err e ->
  e = E_unexpected_size \/ (e <> E_unexpected_size /\ forall y, read_string (b ++ y) = Err e).
Proof.
  destruct b as [|c b]; [intros H; injection H as <-; left; reflexivity|]. rewrite read_string_cons.
  destruct (read_int 7 (c :: b)) as [[b1 n]|e'|w] eqn:E; try discriminate.
  - destruct (read_int_ok _ _ _ _ E) as [pre [Hb [Hne Hy]]].
    destruct (N.ltb_spec (len b1) n) as [Hlt|Hge]; [intros H; injection H as <-; left; reflexivity|].
    assert (Hext : forall y, len (b1 ++ y) <? n = false)
      by (intros y; apply N.ltb_ge; rewrite len_app; lia).
    destruct (N.land c 128 =? 128) eqn:Eh; [|discriminate].
    destruct (huffman_decode (takeN n b1)) as [dst|e'|w] eqn:Ed; try discriminate.
    intros H. injection H as <-. right. split; [eapply huffman_decode_err; exact Ed|].
    intros y. change ((c :: b) ++ y) with (c :: (b ++ y)). rewrite read_string_cons.
    change (c :: (b ++ y)) with ((c :: b) ++ y). rewrite Hy, Hext, Eh, takeN_app, Ed by exact Hge.
    reflexivity.
  - intros H. injection H as <-.
    destruct (read_int_err _ _ _ E) as [Hl | [He Hy]]; [left; exact Hl|]. right.
    split; [rewrite He; discriminate|].
    intros y. change ((c :: b) ++ y) with (c :: (b ++ y)). rewrite read_string_cons.
    change (c :: (b ++ y)) with ((c :: b) ++ y). rewrite Hy. reflexivity.
Qed.

Lemma read_string_ok_length b rest s : read_string b = Ok (rest, s) -> (length rest < length b)%nat.
Proof.
  intros H. destruct (read_string_ok _ _ _ H) as [pre [-> [Hne _]]]. rewrite app_length.
  destruct pre; [congruence | simpl; lia].
Qed.

(* ---- value: RFC 7541 5.2 ---- *)

Theorem read_string_spec b : bytes_ok b = true ->
  match spec_dec_str b with
  | Some (h, s, rest) =>
      read_string b = Ok (rest, s) /\ bytes_ok s = true /\ bytes_ok rest = true /\
      len s + 2 * len rest + 2 <= 2 * len b
  | None => exists e, read_string b = Err e
  end.
Proof.
  intros Hok. destruct b as [|c b]; [exists E_unexpected_size; reflexivity|].
  rewrite read_string_cons. cbn [spec_dec_str].
  pose proof (read_int_spec 7 (c :: b) ltac:(lia) Hok) as HI.
  destruct (spec_dec_int 7 (c :: b)) as [[n rest]|] eqn:ES.
  2:{ destruct HI as [e ->]. exists e. reflexivity. }
  destruct HI as [HI _]. rewrite HI.
  destruct (read_int_ok _ _ _ _ HI) as [pre [Hb [Hne _]]].
  assert (Hrest : bytes_ok rest = true) by (rewrite Hb in Hok; apply bytes_ok_app in Hok; tauto).
  assert (Hlen : len (c :: b) >= len rest + 1).
  { rewrite Hb, len_app. destruct pre; [congruence|]. rewrite len_cons. lia. }
  apply bytes_ok_cons in Hok. destruct Hok as [Hc _].
  destruct (N.ltb_spec (len rest) n) as [Hlt|Hge]; [exists E_unexpected_size; reflexivity|].
  rewrite (dispatch_128 c Hc).
  pose proof (len_dropN n rest) as Hd. pose proof (len_takeN n rest Hge) as Ht.
  destruct (128 <=? c).
  - pose proof (spec_huff_agrees (takeN n rest) (bytes_ok_takeN _ _ Hrest)) as HA.
    destruct (spec_huff_decode (takeN n rest)) as [s|] eqn:EH.
    + destruct (huffman_decode (takeN n rest)) as [s'|e|w]; try discriminate.
      injection HA as ->. split; [reflexivity|].
      destruct (spec_huff_decode_ok _ _ (bytes_ok_takeN _ _ Hrest) EH) as [Hs Hbound].
      split; [exact Hs|]. split; [apply bytes_ok_dropN; exact Hrest|].
      unfold len in *. lia.
    + destruct (huffman_decode (takeN n rest)) as [s'|e|w] eqn:ED; try discriminate.
      * exists e. reflexivity.
      * pose proof (decode_total _ (bytes_ok_takeN n _ Hrest)) as HT. rewrite ED in HT. discriminate.
  - split; [reflexivity|]. split; [apply bytes_ok_takeN; exact Hrest|].
    split; [apply bytes_ok_dropN; exact Hrest|]. lia.
Qed.

Lemma read_string_no_panic_ok b : bytes_ok b = true -> is_panic (read_string b) = false.
Proof.
  intros Hok. pose proof (read_string_spec b Hok) as H.
  destruct (spec_dec_str b) as [[[h s] rest]|].
  - destruct H as [-> _]. reflexivity.
  - destruct H as [e ->]. reflexivity.
Qed.
