(* Reading a frame and writing the returned *FrameHeader back out (what a forwarder such as
   examples/proxy does): for every frame type but SETTINGS the frame that goes out reads
   back to the same accessor values. *)
From Coq Require Import List NArith ZArith Bool Lia.
From Coq Require Import ZifyN ZifyNat ZifyBool.
From H2V Require Import Base.Bytes Base.MachineInt Base.Result Gen.GenConsts Spec.Rfc7540Frames
  Impl.Pools Impl.Frames Impl.FrameView Proofs.FramesBits Proofs.FramesSpec Proofs.FramesRead
  Proofs.FramesC16 Proofs.FramesWrite.
Import ListNotations.
Local Open Scope N_scope.
Ltac Zify.zify_post_hook ::= Z.div_mod_to_equations.

Definition not_settings (b : payload) : Prop := match b with Settings _ => False | _ => True end.

Lemma view_kind fl b : Z.of_N (type_code b) = body_type (view_body fl b).
Proof. destruct b as [| ? [?|] ?| | | | | | | |]; reflexivity. Qed.

Lemma view_body_ok fl b : wf_body fl b -> not_settings b -> body_ok (view_body fl b).
Proof.
  assert (forall x, x < 2 ^ 31 -> x < 2 ^ 32) as Up.
  { intros x. change (2 ^ 31) with 2147483648. change (2 ^ 32) with 4294967296. lia. }
  destruct b as [pad d|pad [p|] frag|p|code|items|pad r promised frag|d|r last code debug|r incr|frag];
    cbn [wf_body view_body body_ok not_settings].
  - tauto.
  - intros (_ & B & _ & D & W) _. auto.
  - intros (_ & B & _) _. split; [reflexivity|]. split; [reflexivity|assumption].
  - intros [D W] _. auto.
  - auto.
  - contradiction.
  - intros (_ & P & B) _. auto.
  - auto.
  - auto.
  - auto.
  - auto.
Qed.

(* the bits a body's accessors are read from survive the flag rewriting of Serialize *)
Lemma sb_other fl i bit on j : fl < 256 -> In (i, bit) [(0, 1); (2, 4); (3, 8); (5, 32)] ->
  In j [0; 1; 2; 3; 4; 5; 6; 7] -> (i =? j) = false -> flag (set_bit fl bit on) j = flag fl j.
Proof. intros H I J E. destruct (set_bit_spec fl i bit on j H I J) as [_ ->]. rewrite E. reflexivity. Qed.
Lemma sb_same fl i bit on : fl < 256 -> In (i, bit) [(0, 1); (2, 4); (3, 8); (5, 32)] ->
  In i [0; 1; 2; 3; 4; 5; 6; 7] -> flag (set_bit fl bit on) i = on.
Proof. intros H I J. destruct (set_bit_spec fl i bit on i H I J) as [_ ->]. rewrite N.eqb_refl. reflexivity. Qed.

Ltac sbl := first [ assumption | eapply (set_bit_lt _ 0 1); [sbl|inl] | eapply (set_bit_lt _ 2 4); [sbl|inl]
                  | eapply (set_bit_lt _ 3 8); [sbl|inl] | eapply (set_bit_lt _ 5 32); [sbl|inl] ].
Ltac sbf :=
  repeat first
    [ rewrite (sb_same _ 0 1) by (first [sbl|inl]) | rewrite (sb_same _ 2 4) by (first [sbl|inl])
    | rewrite (sb_same _ 3 8) by (first [sbl|inl]) | rewrite (sb_same _ 5 32) by (first [sbl|inl])
    | rewrite (sb_other _ 0 1) by (first [sbl|inl|reflexivity]) | rewrite (sb_other _ 2 4) by (first [sbl|inl|reflexivity])
    | rewrite (sb_other _ 3 8) by (first [sbl|inl|reflexivity]) | rewrite (sb_other _ 5 32) by (first [sbl|inl|reflexivity]) ].

Lemma view_of_view fl b padn : fl < 256 -> wf_body fl b -> not_settings b ->
  view_body (flags_of fl (view_body fl b)) (payload_of (view_body fl b) padn) = view_body fl b.
Proof.
  intros H W NS.
  destruct b as [pad d|pad [p|] frag|p|code|items|pad r promised frag|d|r last code debug|r incr|frag];
    cbn [view_body flags_of payload_of pad_of wf_body not_settings] in *;
    unfold END_STREAM, END_HEADERS, ACK, PADDED, PRIORITY_FLAG in *.
  - sbf. reflexivity.
  - destruct W as (_ & _ & _ & D & _). cbn [p_dep p_weight]. rewrite (N.mod_small _ _ D). sbf. reflexivity.
  - sbf. reflexivity.
  - reflexivity.
  - reflexivity.
  - contradiction.
  - destruct W as (_ & P & _). rewrite (N.mod_small _ _ P). sbf. reflexivity.
  - sbf. reflexivity.
  - reflexivity.
  - unfold of_signed.
    assert (Z.to_N (Z.of_N incr mod Z.of_N (2 ^ 32)) = incr) as ->.
    { change (Z.of_N (2 ^ 32)) with 4294967296%Z. change (2 ^ 31) with 2147483648 in W. lia. }
    unfold low31. rewrite (N.mod_small _ _ W). reflexivity.
  - sbf. reflexivity.
Qed.

Lemma len_be n x : len (be n x) = N.of_nat n.
Proof. unfold len. rewrite be_length. reflexivity. Qed.

Lemma len_with_pad pad c : len c <= len (with_pad pad c).
Proof. destruct pad as [p|]; cbn [with_pad]; [rewrite len_cons, len_app|]; lia. Qed.

Lemma len_prio p : len (prio_bytes p) = 5.
Proof. unfold prio_bytes. rewrite len_app, len_be. reflexivity. Qed.

Lemma forwarded_len fl b padn : not_settings b ->
  len (payload_bytes (payload_of (view_body fl b) padn)) <= len (payload_bytes b).
Proof.
  intros NS.
  destruct b as [pad d|pad [p|] frag|p|code|items|pad r promised frag|d|r last code debug|r incr|frag];
    cbn [view_body payload_of pad_of payload_bytes with_pad not_settings] in *.
  - apply len_with_pad.
  - eapply N.le_trans; [|apply len_with_pad]. rewrite !len_app, !len_prio. lia.
  - eapply N.le_trans; [|apply len_with_pad]. cbn [app]. lia.
  - rewrite !len_prio. lia.
  - rewrite !len_be. lia.
  - contradiction.
  - eapply N.le_trans; [|apply len_with_pad]. rewrite !len_app, !len_be. lia.
  - lia.
  - rewrite !len_app, !len_be. lia.
  - rewrite !len_be. lia.
  - lia.
Qed.

(* read, then write the returned *FrameHeader: the frame on the wire is well-formed and
   reads back to the same accessor values (padding is not reproduced, reserved and E bits
   are gone, undefined flag bits are kept) *)
Theorem forward_preserves_view f rest max :
  wf f -> not_settings (f_body f) -> payload_len f <= effective_limit max -> bytes_ok rest = true ->
  exists fr out f' g,
    ro_res (read_frame_with_size max (spec_write f ++ rest)) = Ok fr /\
    write_to fr 9 = Ok (out, f') /\ spec_parse out = Some (g, []) /\ wf g /\
    f_stream g = f_stream f /\ f_rsv g = false /\
    view_body (f_flags g) (f_body g) = view_body (f_flags f) (f_body f).
Proof.
  intros W NS L B. pose proof W as (Hfl & Hs & Hn & Hb).
  assert (settings_valid (f_body f) = true) as V by (destruct (f_body f); try reflexivity; contradiction).
  destruct (read_written_frame f rest max W V L B) as [R _].
  set (bd := view_body (f_flags f) (f_body f)).
  assert (Hs32 : f_stream f < 2 ^ 32).
  { change (2 ^ 31) with 2147483648 in Hs. change (2 ^ 32) with 4294967296. lia. }
  assert (Hl : payload_len (frame_of (f_flags f) (f_stream f) bd 9) < 2 ^ 24).
  { unfold payload_len, frame_of. cbn [f_body]. unfold payload_len in Hn.
    eapply N.le_lt_trans; [apply forwarded_len; assumption|exact Hn]. }
  destruct (write_to_spec (view max f) bd 9 eq_refl (view_kind _ _) Hfl Hs32
              (view_body_ok _ _ Hb NS) (N.le_refl 9) eq_refl Hl) as (Wg & f' & bd' & E & _).
  cbn [view fh_flags fh_stream] in *.
  exists (view max f), (spec_write (frame_of (f_flags f) (f_stream f) bd 9)), f', (frame_of (f_flags f) (f_stream f) bd 9).
  split; [exact R|]. split; [exact E|]. split.
  { rewrite <- (app_nil_r (spec_write _)). apply spec_parse_write. exact Wg. }
  split; [exact Wg|]. unfold frame_of. cbn [f_stream f_rsv f_flags f_body].
  split; [unfold low31; apply N.mod_small; exact Hs|]. split.
  { unfold top_bit. apply N.leb_gt. exact Hs. }
  apply view_of_view; assumption.
Qed.

(* ---- SETTINGS: the Settings value is the state after the frame, so the frame that goes
   out is not the frame that came in; what it does carry is the state ---- *)

Definition st_inv (st : settings_v) : Prop := body_ok (BSettings st) /\ st_frameSize st <> 0.

Lemma view_setting_inv st kv : wf_setting kv -> setting_valid kv = true -> st_inv st -> st_inv (view_setting st kv).
Proof.
  destruct kv as [k v]. unfold wf_setting, setting_valid, view_setting, st_inv. cbn [fst snd body_ok].
  intros [_ Hv] V ((H1 & H3 & H4 & H5 & H6) & NZ).
  destruct k as [|[[[q|q|]|[q|q|]|]|[[q|q|]|[q|q|]|]|]]; cbn; repeat split; try assumption.
  apply andb_prop in V. destruct V as [V _]. apply N.leb_le in V. change (2 ^ 14) with 16384 in V. lia.
Qed.

Lemma fold_view_inv items : Forall wf_setting items -> forallb setting_valid items = true ->
  forall st, st_inv st -> st_inv (fold_left view_setting items st).
Proof.
  induction 1 as [|kv items W _ IH]; intros V st I; [exact I|].
  cbn [forallb] in V. apply andb_prop in V. destruct V as [V1 V2].
  cbn [fold_left]. apply IH; [exact V2|]. apply view_setting_inv; assumption.
Qed.

Lemma reset_inv a : st_inv (st_set_ack settings_reset a).
Proof. unfold st_inv. cbn. repeat split; try reflexivity. discriminate. Qed.

Lemma fold_ack items : forall s, st_ack (fold_left view_setting items s) = st_ack s.
Proof.
  induction items as [|[k v] items IH]; intros s; [reflexivity|].
  cbn [fold_left]. rewrite IH. unfold view_setting. cbn [fst snd].
  destruct k as [|[[[q|q|]|[q|q|]|]|[[q|q|]|[q|q|]|]|]]; reflexivity.
Qed.

Theorem forward_settings_meaning items fl sid rest max :
  let f := mkFrame fl false sid (Settings items) in
  wf f -> settings_valid (f_body f) = true -> flag fl ACK = false ->
  payload_len f <= effective_limit max -> bytes_ok rest = true ->
  exists fr st out f' items',
    ro_res (read_frame_with_size max (spec_write f ++ rest)) = Ok fr /\
    fh_body fr = Some (BSettings st) /\
    write_to fr 9 = Ok (out, f') /\
    spec_parse out = Some (mkFrame (flags_of fl (BSettings st)) false sid (Settings items'), []) /\
    apply_settings initial_params items' = params_of st.
Proof.
  intros f W V A L B. pose proof W as (Hfl & Hs & Hn & Hb).
  destruct (read_written_frame f rest max W V L B) as [R _].
  set (f0 := mkFrame fl false sid (Settings items)) in *. unfold f in *. clear f.
  cbn [f_body f_flags f_stream wf_body f0] in Hfl, Hs, Hb, V. destruct Hb as [Wi _].
  set (st := fold_left view_setting items (st_set_ack settings_reset (flag fl ACK))).
  destruct (fold_view_inv items Wi V _ (reset_inv (flag fl ACK))) as [Ok' NZ]. fold st in Ok', NZ.
  assert (st_ack st = false) as Ack by (unfold st; rewrite fold_ack, A; reflexivity).
  assert (Hs32 : sid < 2 ^ 32).
  { change (2 ^ 31) with 2147483648 in Hs. change (2 ^ 32) with 4294967296. lia. }
  assert (Hl : payload_len (frame_of fl sid (BSettings st) 9) < 2 ^ 24).
  { unfold payload_len, frame_of. cbn [f_body payload_of payload_bytes]. rewrite Ack.
    unfold sent_settings.
    repeat match goal with |- context [if ?c then _ else _] => destruct c end;
      cbn [app flat_map]; unfold setting_bytes; rewrite ?len_app, ?len_be; cbn; reflexivity. }
  destruct (write_to_spec (view max f0) (BSettings st) 9 eq_refl eq_refl Hfl Hs32 Ok' (N.le_refl 9) eq_refl Hl)
    as (Wg & f' & bd' & E & _).
  cbn [view fh_flags fh_stream] in *. change (f_flags f0) with fl in *. change (f_stream f0) with sid in *.
  exists (view max f0), st, (spec_write (frame_of fl sid (BSettings st) 9)), f', (sent_settings st).
  split; [exact R|]. split; [reflexivity|]. split; [exact E|]. split.
  - rewrite <- (app_nil_r (spec_write _)). rewrite (spec_parse_write _ [] Wg). f_equal. f_equal.
    unfold frame_of. cbn [payload_of]. rewrite Ack.
    unfold top_bit, low31. rewrite (N.mod_small _ _ Hs).
    assert (2 ^ 31 <=? sid = false) as -> by (apply N.leb_gt; exact Hs). reflexivity.
  - apply settings_meaning. exact NZ.
Qed.

(* Faithful forwarding of every frame - the frame written reads back to the same accessor
   values as the frame read - is FALSE of SETTINGS: the Settings value re-encodes the whole
   state (RFC defaults included) and forgets which parameters the frame carried. *)
Definition forward_faithful_statement : Prop :=
  forall f rest max,
    wf f -> settings_valid (f_body f) = true -> payload_len f <= effective_limit max -> bytes_ok rest = true ->
    exists fr out f' g,
      ro_res (read_frame_with_size max (spec_write f ++ rest)) = Ok fr /\
      write_to fr 9 = Ok (out, f') /\ spec_parse out = Some (g, []) /\
      view_body (f_flags g) (f_body g) = view_body (f_flags f) (f_body f).

(* witness: SETTINGS [ENABLE_PUSH=1] comes back out as [MAX_CONCURRENT_STREAMS=100] *)
Definition ex_push_on : frame := mkFrame 0 false 0 (Settings [(2, 1)]).

Theorem forward_faithful_refuted : ~ forward_faithful_statement.
Proof.
  intros H.
  assert (wf ex_push_on) as W.
  { unfold wf. split; [reflexivity|]. split; [reflexivity|]. split; [reflexivity|].
    cbn [wf_body f_body ex_push_on f_flags]. split; [repeat constructor|intros X; discriminate X]. }
  destruct (H ex_push_on [] 16384 W eq_refl) as (fr & out & f' & g & R & Wt & P & V);
    [vm_compute; discriminate|reflexivity|].
  vm_compute in R. injection R as <-.
  vm_compute in Wt. injection Wt as <- _.
  vm_compute in P. injection P as <-.
  vm_compute in V. discriminate V.
Qed.

Example ex_forward_settings_bytes :
  match ro_res (read_frame_with_size 16384 (spec_write ex_push_on)) with
  | Ok fr => match write_to fr 9 with
             | Ok (out, _) => spec_write ex_push_on = [0; 0; 6; 4; 0; 0; 0; 0; 0; 0; 2; 0; 0; 0; 1] /\
                              out = [0; 0; 6; 4; 0; 0; 0; 0; 0; 0; 3; 0; 0; 0; 100]
             | _ => False
             end
  | _ => False
  end.
Proof. vm_compute. split; reflexivity. Qed.
