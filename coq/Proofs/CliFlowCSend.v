(* Proofs/CliFlowCSend.v - C07, "and finishes": the bookkeeping Bk of Proofs/CliFlowCInv.v through sendPending,
   flushPending, writeRequest and the two select cases of the write loop that run them, then through every step. *)
From H2V Require Import Base.Bytes Base.MachineInt Base.Result Gen.GenConsts Impl.ServerConn Impl.ClientConn
     Proofs.CliDefs Spec.FlowLedger Proofs.CliFlowMoves Proofs.CliFlowOut Proofs.CliFlowSettings Proofs.CliFlowSafe Proofs.CliFlowEs
     Proofs.CliFlowStall Proofs.CliFlowCBody Proofs.CliFlowCInv.
From Coq Require Import ZArith Lia ZifyN ZifyNat ZifyBool List Bool.
Import ListNotations.
Local Open Scope N_scope.

Section Send.
Variable hstate : Type.
Variable dec_field : hstate -> N -> bytes -> dec_res hstate.
Variable enc_field : hstate -> bytes -> bytes -> bool -> bytes * hstate.
Variable enc_set_max : hstate -> N -> hstate.
Variable cfg : cl_config.
Notation cconn := (cconn hstate).
Notation move := (move hstate).
Notation apply := (apply hstate enc_field enc_set_max).
Notation valid := (valid hstate).
Notation D := (D enc_field enc_set_max).
Notation step := (cl_step dec_field enc_field enc_set_max cfg).
Notation Bk := (Bk hstate).
Notation pget := (pget hstate).
Notation untouched := (untouched hstate).
Notation Dstep := (D_step hstate enc_field enc_set_max).
Notation Dany := (D_any hstate enc_field enc_set_max).
Notation Dtrans0 := (D_trans0 hstate enc_field enc_set_max).
Notation Drefl := (D_refl hstate enc_field enc_set_max).

(* ---------- sendPending(id0) as moves: its critical sections and refills are those of id0 ---------- *)

Definition pin (id0 : N) (m : move) : Prop :=
  match m with MSend i _ | MSendBack i | MRefill i => i = id0 | _ => True end.

Lemma anym_pin id0 (m : move) : anym m -> pin id0 m.
Proof. destruct m; cbn; auto; intros []. Qed.

Lemma pin_untouched id0 id (m : move) : id <> id0 -> pin id0 m -> untouched id m.
Proof. intros NE. destruct m; cbn; auto; intros -> X; apply NE; symmetry; exact X. Qed.

Lemma send_pending_pin fuel : forall (c : cconn) id, D (pin id) [] c (fst (cl_send_pending fuel c id)).
Proof.
  induction fuel as [|fuel IH]; intros c id; [apply Drefl|]. rewrite send_pending_S.
  destruct (cl_pend_get (cc_pending c) id) as [pb|] eqn:G; [|apply Drefl].
  destruct (refill_cond pb) eqn:RC.
  - destruct (cl_refill pb) as [pb'|] eqn:RF.
    + apply (Dstep _ _ (MRefill id)); [exists pb, pb'; auto | reflexivity | split; reflexivity |].
      cbn [CliFlowMoves.apply]. rewrite G, RF. apply IH.
    + destruct (cl_delete_pending 1 [] c id) as [c1 stuck] eqn:DP. apply (delete_pending_D' hstate enc_field enc_set_max) in DP.
      apply (Dany _ _ _ _ (anym_pin id)) in DP.
      destruct stuck; cbn [fst]; [exact DP|].
      destruct (cl_req_find (cc_reqQueued c1) id) as [tg|]; cbn [fst]; [|exact DP]. cbv zeta.
      eapply Dtrans0; [exact DP|].
      eapply Dtrans0; [apply (Dany _ _ _ _ (anym_pin id)), take_req_D|].
      eapply Dtrans0; [apply (Dany _ _ _ _ (anym_pin id)), ctx_upd_D|].
      destruct (cl_can_write _) eqn:CW; cbn [fst]; [|apply Drefl].
      apply (Dstep _ _ (MWlReset id)); [exact CW | exact I | split; reflexivity |]. apply Drefl.
  - cbv zeta.
    assert (V : forall wr, (wr = true -> cl_can_write c = true /\ ((cs_n c pb =? 0)%Z && negb (cs_end c pb)) = false) ->
                           valid (MSend id wr) c).
    { intros wr H. exists pb. auto. }
    assert (A : forall wr, apply (MSend id wr) c =
                           if wr then cl_notes (cs_conn c pb id) (cl_write_data (cc_maxFrame (cs_conn c pb id)) id (cs_chunk c pb) (cs_end c pb))
                           else cs_conn c pb id).
    { intro wr. cbn [CliFlowMoves.apply]. rewrite G. reflexivity. }
    destruct ((cs_n c pb =? 0)%Z && negb (cs_end c pb)) eqn:Z0.
    + apply (Dstep _ _ (MSend id false)); [apply V; discriminate | reflexivity | split; reflexivity |]. rewrite A. apply Drefl.
    + destruct (cl_acquire_for [] (cs_conn c pb id) (pb_tag pb) id).
      * destruct (cl_can_write (cs_conn c pb id)) eqn:CW.
        -- apply (Dstep _ _ (MSend id true)); [apply V; intros _; split; [exact CW | reflexivity] | reflexivity | split; reflexivity |].
           rewrite A. destruct (cs_end c pb); cbn [fst].
           ++ apply (Dany _ _ _ _ (anym_pin id)). apply close_body_D.
           ++ apply IH.
        -- apply (Dstep _ _ (MSend id false)); [apply V; discriminate | reflexivity | split; reflexivity |]. rewrite A. apply Drefl.
      * apply (Dstep _ _ (MSendBack id)); [exists pb; auto | reflexivity | split; reflexivity |].
        cbn [CliFlowMoves.apply]. rewrite G. unfold send_back. cbv zeta.
        match goal with |- context [cl_delete_pending 1 [] ?cc id] =>
          pose proof (delete_pending_tail hstate enc_field enc_set_max 1 [] cc id) as DT; destruct (cl_delete_pending 1 [] cc id) as [c3 stuck] end.
        cbn [fst] in DT. apply (Dany _ _ _ _ (anym_pin id)). exact DT.
      * apply (Dstep _ _ (MSend id false)); [apply V; discriminate | reflexivity | split; reflexivity |]. rewrite A.
        apply (Dany _ _ _ _ (anym_pin id)). apply go_stuck_D.
      * apply (Dstep _ _ (MSend id false)); [apply V; discriminate | reflexivity | split; reflexivity |]. rewrite A.
        apply (Dany _ _ _ _ (anym_pin id)). apply go_stuck_D.
Qed.

(* ---------- one critical section of the stream itself ---------- *)

Lemma Bk_none (ex : Prop) B ok id (c : cconn) : Bk False B ok id c -> pget c id = None -> Bk ex B ok id c.
Proof. intros [b1 b2 b3 b4] G. constructor; auto. intros _ pb X. congruence. Qed.

Lemma Bk_any (ex : Prop) B ok id (c : cconn) : Bk True B ok id c -> Bk ex B ok id c.
Proof. apply (Bk_weaken hstate True ex). auto. Qed.
Lemma Bk_not (ex : Prop) B ok id (c : cconn) : ~ ex -> Bk False B ok id c -> Bk ex B ok id c.
Proof. intro H. apply (Bk_weaken hstate False ex). exact H. Qed.

Lemma Bk_esn0 (ex : Prop) B ok id (c : cconn) pb : Bk ex B ok id c -> pget c id = Some pb -> esn id (cc_out c) = 0%nat.
Proof. intros [b1 b2 b3 b4] G. destruct b3 as [b3|(_ & _ & _ & X)]; [exact b3 | congruence]. Qed.

(* the state after the critical section: what it does to the pending body of the stream *)
Lemma cs_conn_pget (c : cconn) pb id : cl_pend_get (cc_pending c) id = Some pb -> NoDup (map pb_id (cc_pending c)) ->
  cc_out (cs_conn c pb id) = cc_out c /\ cc_nextID (cs_conn c pb id) = cc_nextID c /\
  pget (cs_conn c pb id) id = if cs_end c pb then None else Some (cs_pb c pb).
Proof.
  intros G ND. destruct (pend_get_In _ _ _ G) as [HI EI]. unfold CliFlowCInv.pget, cs_conn. destruct (cs_end c pb); cc_cbn.
  - split; [reflexivity|]. split; [reflexivity|]. apply pend_get_del_same. exact ND.
  - split; [reflexivity|]. split; [reflexivity|].
    assert (PI : pb_id (cs_pb c pb) = id) by (unfold cs_pb; cbn [pb_id pbu_body pbu_window]; exact EI).
    pose proof (pend_get_put_same (cc_pending c) (cs_pb c pb)) as X. rewrite PI in X. apply X. rewrite G. discriminate.
Qed.

(* the bytes are debited, nothing is written: the prefix stays a prefix; nothing is lost if nothing was debited *)
Lemma Bk_send_false (ex : Prop) B ok id (c : cconn) pb : cl_pend_get (cc_pending c) id = Some pb -> ES hstate c ->
  Bk ex B ok id c ->
  Bk False B ok id (cs_conn c pb id) /\ (cs_n c pb = 0%Z -> Bk ex B ok id (cs_conn c pb id)).
Proof.
  intros G E K. destruct (cs_conn_pget c pb id G (es_nodup _ _ E)) as (O2 & N2 & P2).
  pose proof (Bk_esn0 _ _ _ _ _ _ K G) as E0. destruct K as [b1 b2 b3 b4].
  split.
  - constructor; rewrite ?O2, ?N2; auto. intros [].
  - intro N0. constructor; rewrite ?O2, ?N2; auto. intros X p GP. rewrite P2 in GP.
    destruct (cs_end c pb); [discriminate|]. inversion GP; subst p.
    destruct (cs_all hstate c pb) as [A1 A2]. destruct (b4 X pb G) as [A3 A4].
    unfold cs_chunk in A1. rewrite N0 in A1. cbn [Z.to_N takeN N.to_nat firstn app] in A1. rewrite A1, A2. split; assumption.
Qed.

(* the bytes are debited and written *)
Lemma Bk_send_true B ok id (c : cconn) pb : cl_pend_get (cc_pending c) id = Some pb -> ES hstate c ->
  Bk True B ok id c ->
  Bk True B ok id (cl_notes (cs_conn c pb id) (cl_write_data (cc_maxFrame (cs_conn c pb id)) id (cs_chunk c pb) (cs_end c pb))).
Proof.
  intros G E K. destruct (cs_conn_pget c pb id G (es_nodup _ _ E)) as (O2 & N2 & P2).
  pose proof (Bk_esn0 _ _ _ _ _ _ K G) as E0. destruct K as [b1 b2 b3 b4].
  destruct (b4 Logic.I pb G) as [A3 A4]. destruct (cs_all hstate c pb) as [A1 A2].
  set (c2 := cs_conn c pb id) in *. set (l := cl_write_data (cc_maxFrame c2) id (cs_chunk c pb) (cs_end c pb)).
  assert (O3 : cc_out (cl_notes c2 l) = rev l ++ cc_out c) by (rewrite (out_notes hstate), O2; reflexivity).
  destruct (notes_fields hstate l c2) as (F1 & F2 & _).
  assert (DB : dbytes id (cc_out (cl_notes c2 l)) = dbytes id (cc_out c) ++ cs_chunk c pb).
  { rewrite O3, dbytes_app. subst l. rewrite dbl_write_data, N.eqb_refl. reflexivity. }
  assert (EN : esn id (cc_out (cl_notes c2 l)) = if cs_end c pb then 1%nat else 0%nat).
  { rewrite O3, esn_app, E0. subst l. rewrite esl_write_data, N.eqb_refl. reflexivity. }
  assert (P3 : pget (cl_notes c2 l) id = if cs_end c pb then None else Some (cs_pb c pb)).
  { unfold CliFlowCInv.pget in *. rewrite F2. exact P2. }
  constructor.
  - rewrite F1, N2. exact b1.
  - exists (pb_all (cs_pb c pb)). rewrite DB, <- app_assoc, A1. exact A3.
  - rewrite EN, DB, P3. destruct (cs_end c pb) eqn:EE; [right | left; reflexivity].
    destruct (cs_end_all hstate c pb EE) as [Z1 Z2]. rewrite Z1, app_nil_r in A1.
    repeat split; [rewrite A1; exact A3 | congruence].
  - intros _ p GP. rewrite P3 in GP. destruct (cs_end c pb); [discriminate|]. inversion GP; subst p.
    rewrite DB, <- app_assoc, A1, A2. split; assumption.
Qed.

Lemma valid_send_false (c : cconn) id pb : cl_pend_get (cc_pending c) id = Some pb -> refill_cond pb = false -> valid (MSend id false) c.
Proof. intros G RC. exists pb. split; [exact G|]. split; [exact RC | discriminate]. Qed.

Lemma ES_cs_conn (c : cconn) id pb : cl_pend_get (cc_pending c) id = Some pb -> refill_cond pb = false -> ES hstate c ->
  ES hstate (cs_conn c pb id).
Proof.
  intros G RC E. pose proof (mv_ES hstate enc_field enc_set_max (MSend id false) c (valid_send_false c id pb G RC) E) as X.
  cbn [CliFlowMoves.apply] in X. rewrite G in X. exact X.
Qed.

Definition sp_ok (r : cl_spres) : Prop := r = CSPOk.

(* sendPending(id) and the body of stream id itself *)
Lemma send_pending_same fuel B ok : forall (c : cconn) id, ES hstate c -> Bk True B ok id c ->
  Bk (sp_ok (snd (cl_send_pending fuel c id))) B ok id (fst (cl_send_pending fuel c id)).
Proof.
  induction fuel as [|fuel IH]; intros c id E K.
  { cbn [cl_send_pending fst snd]. apply Bk_any. exact K. }
  rewrite send_pending_S. destruct (cl_pend_get (cc_pending c) id) as [pb|] eqn:G.
  2:{ cbn [fst snd]. apply Bk_any. exact K. }
  destruct (refill_cond pb) eqn:RC.
  - destruct (cl_refill pb) as [pb'|] eqn:RF.
    + assert (V : valid (MRefill id) c) by (exists pb, pb'; auto).
      pose proof (mv_Bk hstate enc_field enc_set_max True B ok id (MRefill id) c V E Logic.I K) as K1.
      pose proof (mv_ES hstate enc_field enc_set_max (MRefill id) c V E) as E1.
      cbn [CliFlowMoves.apply] in K1, E1. rewrite G, RF in K1, E1. apply IH; assumption.
    + (* the reader failed: moves that leave the trace of the stream alone *)
      assert (X : forall c' r, D anym [] c c' -> Bk (sp_ok r) B ok id c').
      { intros c' r DD. apply Bk_any. eapply D_Bk; [exact DD | apply anym_untouched | exact E | exact K]. }
      destruct (cl_delete_pending 1 [] c id) as [c1 stuck] eqn:DP. apply (delete_pending_D' hstate enc_field enc_set_max) in DP.
      destruct stuck; cbn [fst snd]; [apply X; exact DP|].
      destruct (cl_req_find (cc_reqQueued c1) id) as [tg|]; cbn [fst snd]; [|apply X; exact DP]. cbv zeta.
      assert (D3 : D anym [] c (cl_ctx_upd (cl_take_req_count c1 id) (pb_tag pb) (fun x => cl_ctx_resolve (ctu_finished x true) CEBody))).
      { eapply Dtrans0; [exact DP|]. eapply Dtrans0; [apply take_req_D | apply ctx_upd_D]. }
      destruct (cl_can_write _) eqn:CW; cbn [fst snd]; [|apply X; exact D3].
      set (c3 := cl_ctx_upd _ _ _) in *.
      pose proof (D_Bk hstate enc_field enc_set_max _ _ True B ok id c c3 D3 (anym_untouched hstate id) E K) as K3.
      pose proof (D_ES hstate enc_field enc_set_max _ _ c c3 D3 E) as E3.
      apply Bk_any. exact (mv_Bk hstate enc_field enc_set_max True B ok id (MWlReset id) c3 CW E3 Logic.I K3).
  - cbv zeta.
    destruct (Bk_send_false True B ok id c pb G E K) as [KF K0].
    pose proof (ES_cs_conn c id pb G RC E) as E2.
    set (c2 := cs_conn c pb id) in *.
    assert (XF : forall c' r, r <> CSPOk -> D anym [] c2 c' -> Bk (sp_ok r) B ok id c').
    { intros c' r NR DD. apply Bk_not; [exact NR|]. eapply D_Bk; [exact DD | apply anym_untouched | exact E2 | exact KF]. }
    destruct ((cs_n c pb =? 0)%Z && negb (cs_end c pb)) eqn:Z0.
    + cbn [fst snd]. apply andb_prop in Z0. destruct Z0 as [Z0 _]. apply Z.eqb_eq in Z0.
      apply Bk_any. apply K0. exact Z0.
    + destruct (cl_acquire_for [] c2 (pb_tag pb) id).
      * destruct (cl_can_write c2) eqn:CW; [|cbn [fst snd]; apply (XF _ CSPWriteErr); [discriminate | apply Drefl]].
        pose proof (Bk_send_true B ok id c pb G E K) as K3. fold c2 in K3.
        assert (V : valid (MSend id true) c).
        { exists pb. split; [exact G|]. split; [exact RC|]. intros _. split; [|exact Z0].
          subst c2. unfold cs_conn, cl_can_write in *. destruct (cs_end c pb); exact CW. }
        pose proof (mv_ES hstate enc_field enc_set_max (MSend id true) c V E) as E3. cbn [CliFlowMoves.apply] in E3. rewrite G in E3. fold c2 in E3.
        destruct (cs_end c pb) eqn:EE; cbn [fst snd].
        -- apply Bk_any. eapply D_Bk; [apply (close_body_D hstate enc_field enc_set_max) | apply anym_untouched | exact E3 | exact K3].
        -- apply IH; assumption.
      * (* the request has been taken back: the body is dropped *)
        set (c2' := if (0 <? cs_n c pb)%Z then cl_add_window c2 0 (cs_n c pb) else c2) in *.
        assert (E2' : ES hstate c2').
        { subst c2'. destruct (0 <? cs_n c pb)%Z; [|exact E2].
          destruct (add_window_fields hstate c2 0 (cs_n c pb)) as (A & B0 & C).
          apply (ES_sub hstate c2); [exact A | unfold cl_add_window, cl_signal_window; reflexivity | rewrite C; auto | rewrite B0; auto | rewrite B0; apply (es_nodup _ _ E2) | exact E2]. }
        assert (KF' : Bk False B ok id c2').
        { subst c2'. destruct (0 <? cs_n c pb)%Z; [|exact KF].
          apply (Bk_frame hstate False False B ok id c2); [apply N.le_refl | reflexivity | reflexivity | | auto | exact KF].
          intros pb' G'. exists pb'. split; [exact G' | split; reflexivity]. }
        destruct (cl_delete_pending 1 [] c2' id) as [c3 stuck] eqn:DP.
        destruct (delete_pending_flow hstate _ _ _ _ DP) as (A1 & _).
        apply (delete_pending_D' hstate enc_field enc_set_max) in DP. cbn [fst snd].
        apply Bk_none.
        -- eapply D_Bk; [exact DP | apply anym_untouched | exact E2' | exact KF'].
        -- unfold CliFlowCInv.pget. rewrite A1. apply pend_get_del_same. apply (es_nodup _ _ E2').
      * cbn [fst snd]. apply (XF _ CSPStuck); [discriminate | apply go_stuck_D].
      * cbn [fst snd]. apply (XF _ CSPStuck); [discriminate | apply go_stuck_D].
Qed.

(* sendPending(id0) and every stream *)
Lemma send_pending_Bk fuel B ok id (c : cconn) id0 : ES hstate c -> Bk True B ok id c ->
  Bk (sp_ok (snd (cl_send_pending fuel c id0))) B ok id (fst (cl_send_pending fuel c id0)).
Proof.
  intros E K. destruct (N.eq_dec id id0) as [->|NE]; [apply send_pending_same; assumption|].
  apply Bk_any. eapply D_Bk; [apply (send_pending_pin fuel c id0) | intros m; apply pin_untouched; exact NE | exact E | exact K].
Qed.

Lemma send_pending_ES fuel (c : cconn) id0 : ES hstate c -> ES hstate (fst (cl_send_pending fuel c id0)).
Proof. intro E. eapply D_ES; [apply (send_pending_pin fuel c id0) | exact E]. Qed.

(* flushPending *)
Lemma flush_pending_Bk B ok id ids : forall (c : cconn), ES hstate c -> Bk True B ok id c ->
  Bk (sp_ok (snd (cl_flush_pending c ids))) B ok id (fst (cl_flush_pending c ids)) /\ ES hstate (fst (cl_flush_pending c ids)).
Proof.
  induction ids as [|id0 t IH]; intros c E K; cbn [cl_flush_pending].
  - cbn [fst snd]. split; [apply Bk_any; exact K | exact E].
  - pose proof (send_pending_Bk (cl_send_fuel c id0) B ok id c id0 E K) as K1.
    pose proof (send_pending_ES (cl_send_fuel c id0) c id0 E) as E1.
    destruct (cl_send_pending (cl_send_fuel c id0) c id0) as [c1 r]. cbn [fst snd] in K1, E1.
    destruct r; cbn [fst snd]; [|split; assumption | split; assumption].
    apply IH; [exact E1|]. apply (Bk_weaken hstate (sp_ok CSPOk) True); [intros _; reflexivity | exact K1].
Qed.

End Send.
