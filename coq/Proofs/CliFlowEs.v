(* Proofs/CliFlowEs.v - C07: DATA frame sizes against SETTINGS_MAX_FRAME_SIZE, END_STREAM exactly once and
   nothing on the stream after it, DATA only on streams whose body is pending. *)
From H2V Require Import Base.Bytes Base.MachineInt Base.Result Gen.GenConsts Impl.ServerConn Impl.ClientConn
     Proofs.CliDefs Spec.FlowLedger Spec.Rfc7540Frames Proofs.CliFlowMoves Proofs.CliFlowOut Proofs.CliFlowSettings Proofs.CliFlowSafe.
From Coq Require Import ZArith Lia ZifyN ZifyNat ZifyBool List Bool.
Import ListNotations.
Local Open Scope N_scope.
Set Default Proof Using "Type".

(* ---------- one call of writeData ---------- *)

Definition frames_of (sid : N) (l : list (bool * bytes)) : list coutev := map (fun x => COData sid (fst x) (snd x)) l.

(* END_STREAM on the last frame of the run, if at all *)
Inductive es_shape : list (bool * bytes) -> bool -> Prop :=
| es_none : es_shape [] false
| es_last e p : es_shape [(e, p)] e
| es_more p l e : es_shape l e -> l <> [] -> es_shape ((false, p) :: l) e.

Definition wd_step (mf : N) : N := if (mf =? 0) || (c_maxFrameSize <? mf) then c_defaultDataFrameSize else mf.

Lemma data_frames_shape fuel : forall sid step body endb, 0 < step -> (length body <= fuel)%nat ->
  exists l, cl_data_frames fuel sid step body endb = frames_of sid l /\ concat (map snd l) = body /\
            Forall (fun x => len (snd x) <= step) l /\ es_shape l endb /\ l <> [].
Proof.
  induction fuel as [|fuel IH]; intros sid step body endb ST FU; cbn [cl_data_frames].
  - exists [(endb, body)]. cbn [frames_of map fst snd concat]. rewrite app_nil_r.
    repeat split; try discriminate; [|constructor]. constructor; [|constructor]. cbn [snd]. unfold len. lia.
  - destruct (len body <=? step) eqn:E.
    + apply N.leb_le in E. exists [(endb, body)]. cbn [frames_of map fst snd concat]. rewrite app_nil_r.
      repeat split; try discriminate; [|constructor]. constructor; [exact E | constructor].
    + apply N.leb_gt in E.
      assert (FU' : (length (dropN step body) <= fuel)%nat) by (unfold dropN; rewrite skipn_length; unfold len in E; lia).
      destruct (IH sid step (dropN step body) endb ST FU') as (l & A & B & C & Dd & NE).
      exists ((false, takeN step body) :: l). cbn [frames_of map fst snd concat]. fold (frames_of sid l). rewrite A, B, takeN_dropN.
      repeat split; try discriminate.
      * constructor; [cbn [snd]; rewrite len_takeN; lia | exact C].
      * constructor; assumption.
Qed.

Lemma wd_step_pos mf : 0 < wd_step mf.
Proof.
  unfold wd_step. destruct (mf =? 0) eqn:E; cbn [orb]; [reflexivity|]. apply N.eqb_neq in E.
  destruct (c_maxFrameSize <? mf); [reflexivity | lia].
Qed.

Lemma write_data_shape mf sid body endb :
  exists l, cl_write_data mf sid body endb = frames_of sid l /\ concat (map snd l) = body /\
            Forall (fun x => len (snd x) <= wd_step mf) l /\ es_shape l endb /\ (l = [] <-> body = [] /\ endb = false).
Proof.
  unfold cl_write_data. fold (wd_step mf). destruct body as [|b0 bt].
  - destruct endb.
    + exists [(true, [])]. split; [reflexivity|]. split; [reflexivity|]. split; [constructor; [cbn; lia | constructor]|]. split; [constructor|]. split; [discriminate | intros [_ X]; discriminate].
    + exists []. split; [reflexivity|]. split; [reflexivity|]. split; [constructor|]. split; [constructor|]. split; auto.
  - destruct (data_frames_shape (length (b0 :: bt)) sid (wd_step mf) (b0 :: bt) endb (wd_step_pos mf) (le_n _)) as (l & A & B & C & Dd & NE).
    exists l. split; [exact A|]. split; [exact B|]. split; [exact C|]. split; [exact Dd|]. split; [intro; contradiction | intros [X _]; discriminate].
Qed.

(* ---------- frames on a stream ---------- *)

Definition frame_sid (o : coutev) : option N :=
  match o with COHeaders sid _ _ | COData sid _ _ => Some sid | _ => None end.
Definition is_es (o : coutev) : bool :=
  match o with COHeaders _ es _ | COData _ es _ => es | _ => false end.

Lemma qclass_no_sid o : qclass o -> frame_sid o = None.
Proof. destruct o; cbn; try reflexivity; contradiction. Qed.

(* newest first: a frame is never preceded, on its stream, by a frame with END_STREAM *)
Fixpoint es_ok (l : list coutev) : Prop :=
  match l with
  | [] => True
  | o :: t => (forall sid, frame_sid o = Some sid -> forall o1, In o1 t -> frame_sid o1 = Some sid -> is_es o1 = false) /\ es_ok t
  end.

Lemma es_ok_quiet o t : frame_sid o = None -> es_ok t -> es_ok (o :: t).
Proof. intros H E. split; [intros sid X; congruence | exact E]. Qed.

Lemma es_shape_flags l e : es_shape l e -> forall x, In x l -> fst x = true -> e = true.
Proof.
  induction 1 as [|e p|p l e S IH NE]; intros x HI F.
  - destruct HI.
  - destruct HI as [<-|[]]. exact F.
  - destruct HI as [<-|HI]; [discriminate | apply (IH x HI F)].
Qed.

(* a run of DATA frames on sid after a trace none of whose frames on sid has END_STREAM *)
Lemma es_ok_run sid l e : es_shape l e -> forall out,
  es_ok out -> (forall o1, In o1 out -> frame_sid o1 = Some sid -> is_es o1 = false) ->
  es_ok (rev (frames_of sid l) ++ out).
Proof.
  induction 1 as [|e p|p l e S IH NE]; intros out E OLD; cbn [frames_of map rev app fst snd].
  - exact E.
  - split; [|exact E]. cbn [frame_sid]. intros s X. inversion X; subst s. exact OLD.
  - fold (frames_of sid l). rewrite <- app_assoc. cbn [app]. apply IH.
    + split; [|exact E]. cbn [frame_sid]. intros s X. inversion X; subst s. exact OLD.
    + intros o1 [<-|HI] F; [reflexivity | apply OLD; assumption].
Qed.

(* newest first: a DATA frame comes after a HEADERS frame without END_STREAM on its stream *)
Fixpoint hdr_ok (l : list coutev) : Prop :=
  match l with
  | [] => True
  | o :: t => (forall sid es p, o = COData sid es p -> exists blk, In (COHeaders sid false blk) t) /\ hdr_ok t
  end.

Lemma hdr_ok_run sid l : forall out, hdr_ok out -> (exists blk, In (COHeaders sid false blk) out) ->
  hdr_ok (rev (frames_of sid l) ++ out).
Proof.
  induction l as [|x l IH]; intros out H (blk & HB); cbn [frames_of map rev app]; [exact H|].
  fold (frames_of sid l). rewrite <- app_assoc. cbn [app]. apply IH.
  - split; [|exact H]. intros s es p X. inversion X; subst. exists blk. exact HB.
  - exists blk. right. exact HB.
Qed.

Lemma in_frames_of sid l o : In o (frames_of sid l) -> exists x, In x l /\ o = COData sid (fst x) (snd x).
Proof. unfold frames_of. intro H. apply in_map_iff in H. destruct H as (x & <- & HI). exists x. split; [exact HI | reflexivity]. Qed.

Lemma is_rl_dec e : is_rl e \/ ~ is_rl e.
Proof. destruct e; cbn; try (right; intros []; fail); left; exact I. Qed.

Section Es.
Variable hstate : Type.
Variable enc_field : hstate -> bytes -> bytes -> bool -> bytes * hstate.
Variable enc_set_max : hstate -> N -> hstate.
Notation cconn := (cconn hstate).
Notation move := (move hstate).
Notation apply := (apply hstate enc_field enc_set_max).
Notation valid := (valid hstate).
Notation items := (items hstate).

Record ES (c : cconn) : Prop := mkES {
  es_fresh : forall pb, In pb (cc_pending c) -> pb_id pb < cc_nextID c;
  es_nodup : NoDup (map pb_id (cc_pending c));
  es_q : Forall qclass (cc_outQ c);
  es_ids : forall o sid, In o (cc_out c) -> frame_sid o = Some sid -> sid < cc_nextID c;
  es_ended : forall o sid, In o (cc_out c) -> frame_sid o = Some sid -> is_es o = true -> ~ In sid (map pb_id (cc_pending c));
  es_hdr : forall id, In id (map pb_id (cc_pending c)) -> exists blk, In (COHeaders id false blk) (cc_out c);
  es_first : hdr_ok (cc_out c);
  es_out : es_ok (cc_out c)
}.

(* the pending ids shrink or stay, nothing else that matters changes *)
Lemma ES_sub (c c' : cconn) :
  cc_nextID c' = cc_nextID c -> cc_out c' = cc_out c -> (Forall qclass (cc_outQ c) -> Forall qclass (cc_outQ c')) ->
  (forall x, In x (map pb_id (cc_pending c')) -> In x (map pb_id (cc_pending c))) -> NoDup (map pb_id (cc_pending c')) ->
  ES c -> ES c'.
Proof.
  intros A B Q S ND [e1 e2 e3 e4 e5 e6 e7 e8]. constructor; rewrite ?A, ?B; auto.
  - intros pb HP. assert (X : In (pb_id pb) (map pb_id (cc_pending c))) by (apply S, in_map, HP).
    apply in_map_iff in X. destruct X as (q & <- & HQ). apply e1. exact HQ.
  - intros o sid HO F T X. exact (e5 o sid HO F T (S _ X)).
Qed.

Lemma ES_same (c c' : cconn) :
  cc_nextID c' = cc_nextID c -> cc_out c' = cc_out c -> (Forall qclass (cc_outQ c) -> Forall qclass (cc_outQ c')) ->
  cc_pending c' = cc_pending c -> ES c -> ES c'.
Proof.
  intros A B Q P E. apply (ES_sub c); auto; rewrite P; [auto | apply (es_nodup _ E)].
Qed.

(* one more item that is not a frame on a stream *)
Lemma ES_note (c : cconn) o : frame_sid o = None -> ES c -> ES (cl_note c o).
Proof.
  intros F [e1 e2 e3 e4 e5 e6 e7 e8]. constructor; cc_cbn; auto.
  - intros o1 sid [<-|HI] X; [congruence | eauto].
  - intros o1 sid [<-|HI] X; [congruence | eauto].
  - intros id HI. destruct (e6 id HI) as (blk & H). exists blk. right. exact H.
  - split; [|exact e7]. intros sid es p X. subst o. discriminate.
  - apply es_ok_quiet; assumption.
Qed.

Lemma handle_settings_fields (c : cconn) st :
  cc_nextID (cl_handle_settings c st) = cc_nextID c /\
  map pb_id (cc_pending (cl_handle_settings c st)) = map pb_id (cc_pending c) /\
  (Forall qclass (cc_outQ c) -> Forall qclass (cc_outQ (cl_handle_settings c st))).
Proof.
  unfold cl_handle_settings, cl_apply_initial_window, cl_signal_window, cl_write_out. cc_cbn.
  destruct (cl_settings_has st c_HeaderTableSize), (cs_hasWin st); cc_cbn;
    match goal with |- context [if ?b then _ else _] => destruct b end; cc_cbn;
    repeat split; auto; try (rewrite map_map; reflexivity);
    intro H; try (apply Forall_app; split; [exact H | repeat constructor]); exact H.
Qed.

Lemma add_window_fields (c : cconn) sid inc :
  cc_nextID (cl_add_window c sid inc) = cc_nextID c /\
  map pb_id (cc_pending (cl_add_window c sid inc)) = map pb_id (cc_pending c) /\
  cc_outQ (cl_add_window c sid inc) = cc_outQ c.
Proof.
  unfold cl_add_window, cl_signal_window. destruct (sid =? 0); [repeat split|].
  destruct (cl_pend_get _ _); cc_cbn; repeat split. apply pend_put_ids.
Qed.

Lemma notes_fields l : forall (c : cconn),
  cc_nextID (cl_notes c l) = cc_nextID c /\ cc_pending (cl_notes c l) = cc_pending c /\ cc_outQ (cl_notes c l) = cc_outQ c.
Proof. induction l as [|o t IH]; intro c; cbn [cl_notes]; [repeat split|]. destruct (IH (cl_note c o)) as (A & B & C). rewrite A, B, C. repeat split. Qed.

Lemma mv_ES m (c : cconn) : valid m c -> ES c -> ES (apply m c).
Proof.
  intros V E.
  destruct m; try (apply (ES_same c); try reflexivity; auto; fail).
  - (* MNote *) cbn [apply]. destruct (quietb o) eqn:Q; [|exact E]. apply ES_note; [|exact E]. destruct o; try discriminate; reflexivity.
  - (* MReqTake *) cbn [apply]. unfold cl_take_req_count. destruct (cl_req_find _ _); [|exact E]. apply (ES_same c); try reflexivity; auto.
  - (* MQClear *) apply (ES_same c); try reflexivity; auto. intros _. constructor.
  - (* MOutQPush *)
    cbn [apply]. destruct (pushb o) eqn:Q; [|exact E]. unfold cl_write_out. destruct (cc_closed c); [exact E|].
    apply (ES_same c); try reflexivity; auto. cc_cbn. intro H. apply Forall_app. split; [exact H|]. repeat constructor.
    destruct o; try discriminate; exact I.
  - (* MWlWrite *)
    cbn [apply]. destruct (cc_outQ c) as [|o q] eqn:Q; [exact E|].
    pose proof (es_q _ E) as QQ. rewrite Q in QQ. inversion QQ as [|? ? QO QT]; subst.
    apply ES_note; [apply qclass_no_sid; exact QO|]. apply (ES_same c); try reflexivity; auto.
  - (* MWlReset: RST_STREAM is not a frame of the stream's HEADERS/DATA sequence *)
    cbn [apply]. apply ES_note; [reflexivity | exact E].
  - (* MOutQDrop *)
    apply (ES_same c); try reflexivity; auto. cbn [apply]. cc_cbn. intro H. destruct (cc_outQ c); [exact H | inversion H; assumption].
  - (* MRecvData *)
    destruct (recv_data_fields hstate c fr has_res) as (_ & _ & A3 & A4 & A5).
    apply (ES_same c); auto. rewrite (out_apply hstate enc_field enc_set_max). reflexivity.
  - (* MSettings *)
    cbn [apply]. destruct (cl_settings_deserialize false payload) as [st|] eqn:DS; [|exact E].
    destruct (handle_settings_fields c st) as (A & B & C).
    apply (ES_sub c); auto.
    + pose proof (out_apply hstate enc_field enc_set_max (MSettings payload) c) as O. cbn [apply items] in O. rewrite DS in O. exact O.
    + rewrite B. auto.
    + rewrite B. apply (es_nodup _ E).
  - (* MAddWindow *)
    cbn [apply]. destruct (add_window_fields c sid inc) as (A & B & C).
    apply (ES_sub c); auto.
    + pose proof (out_apply hstate enc_field enc_set_max (MAddWindow sid inc) c) as O. exact O.
    + rewrite C. auto.
    + rewrite B. auto.
    + rewrite B. apply (es_nodup _ E).
  - (* MPendDel *)
    cbn [apply]. apply (ES_sub c); try reflexivity; auto; cc_cbn.
    + intro x. apply pend_del_ids_incl.
    + apply pend_del_NoDup. apply (es_nodup _ E).
  - (* MPendAddDel *)
    destruct V as [PI IDS]. cbn [apply].
    assert (X : cl_pend_del (cc_pending c ++ [pb]) (pb_id pb) = cc_pending c).
    { apply pend_del_app_last. intros p HP. pose proof (es_fresh _ E p HP). flia. }
    rewrite X. apply (ES_same c); try reflexivity; auto.
  - (* MRefill *)
    destruct V as (pb & pb' & G & RC & RF). cbn [apply]. rewrite G, RF.
    apply (ES_sub c); try reflexivity; auto; cc_cbn; rewrite pend_put_ids; [auto | apply (es_nodup _ E)].
  - (* MSend *)
    destruct V as (pb & G & RC & WR). cbn [apply]. rewrite G.
    destruct (pend_get_In _ _ _ G) as [HI EI].
    assert (IDP : In id (map pb_id (cc_pending c))) by (rewrite <- EI; apply in_map; exact HI).
    assert (SUB : forall x, In x (map pb_id (cc_pending (cs_conn c pb id))) -> In x (map pb_id (cc_pending c))).
    { unfold cs_conn. destruct (cs_end c pb); cc_cbn; [apply pend_del_ids_incl | rewrite pend_put_ids; auto]. }
    assert (ND : NoDup (map pb_id (cc_pending (cs_conn c pb id)))).
    { unfold cs_conn. destruct (cs_end c pb); cc_cbn; [apply pend_del_NoDup | rewrite pend_put_ids]; apply (es_nodup _ E). }
    assert (E2 : ES (cs_conn c pb id)).
    { apply (ES_sub c); auto; unfold cs_conn; destruct (cs_end c pb); reflexivity || auto. }
    destruct wr; [|exact E2].
    destruct (write_data_shape (cc_maxFrame (cs_conn c pb id)) id (cs_chunk c pb) (cs_end c pb)) as (l & A & B & C & Dd & NE).
    rewrite A. set (c2 := cs_conn c pb id) in *.
    destruct (notes_fields (frames_of id l) c2) as (F1 & F2 & F3).
    pose proof (out_notes hstate c2 (frames_of id l)) as OUT.
    assert (O2 : cc_out c2 = cc_out c) by (subst c2; unfold cs_conn; destruct (cs_end c pb); reflexivity).
    assert (N2 : cc_nextID c2 = cc_nextID c) by (subst c2; unfold cs_conn; destruct (cs_end c pb); reflexivity).
    assert (OLD : forall o1, In o1 (cc_out c2) -> frame_sid o1 = Some id -> is_es o1 = false).
    { intros o1 H1 F. destruct (is_es o1) eqn:T; [|reflexivity]. exfalso. rewrite O2 in H1. exact (es_ended _ E o1 id H1 F T IDP). }
    destruct (es_hdr _ E id IDP) as (blk & HB).
    destruct E2 as [e1 e2 e3 e4 e5 e6 e7 e8].
    constructor; rewrite ?F1, ?F2, ?F3, ?OUT; auto.
    + intros o sid HO F. apply in_app_or in HO. destruct HO as [HO|HO]; [|eauto].
      apply in_rev, in_frames_of in HO. destruct HO as (x & _ & ->). cbn [frame_sid] in F. inversion F; subst sid.
      rewrite N2. pose proof (es_fresh _ E pb HI). rewrite EI in H. exact H.
    + intros o sid HO F T. apply in_app_or in HO. destruct HO as [HO|HO]; [|eauto].
      apply in_rev, in_frames_of in HO. destruct HO as (x & HX & ->). cbn [frame_sid is_es] in F, T. inversion F; subst sid.
      pose proof (es_shape_flags _ _ Dd x HX T) as EN. subst c2. unfold cs_conn. rewrite EN. cc_cbn.
      intro X. apply in_map_iff in X. destruct X as (p & PE & HP). exact (pend_del_not_In _ _ _ (es_nodup _ E) HP PE).
    + intros i HI2. destruct (e6 i HI2) as (b & H). exists b. apply in_or_app. right. exact H.
    + apply hdr_ok_run; [exact e7|]. exists blk. rewrite O2. exact HB.
    + apply (es_ok_run id l _ Dd); assumption.
  - (* MSendBack *)
    destruct V as (pb & G & RC). cbn [apply]. rewrite G. unfold send_back. cbv zeta.
    assert (SUB : forall x, In x (map pb_id (cc_pending (cs_conn c pb id))) -> In x (map pb_id (cc_pending c))).
    { unfold cs_conn. destruct (cs_end c pb); cc_cbn; [apply pend_del_ids_incl | rewrite pend_put_ids; auto]. }
    assert (ND : NoDup (map pb_id (cc_pending (cs_conn c pb id)))).
    { unfold cs_conn. destruct (cs_end c pb); cc_cbn; [apply pend_del_NoDup | rewrite pend_put_ids]; apply (es_nodup _ E). }
    assert (E2 : ES (cs_conn c pb id)).
    { apply (ES_sub c); auto; unfold cs_conn; destruct (cs_end c pb); reflexivity || auto. }
    assert (E3 : ES (if (0 <? cs_n c pb)%Z then cl_add_window (cs_conn c pb id) 0 (cs_n c pb) else cs_conn c pb id)).
    { destruct (0 <? cs_n c pb)%Z; [|exact E2].
      destruct (add_window_fields (cs_conn c pb id) 0 (cs_n c pb)) as (A & B & C).
      apply (ES_sub (cs_conn c pb id)); [exact A | unfold cl_add_window, cl_signal_window; reflexivity | rewrite C; auto | rewrite B; auto | rewrite B; exact ND | exact E2]. }
    set (c3 := if (0 <? cs_n c pb)%Z then _ else _) in *.
    destruct (cl_pend_get (cc_pending c3) id); [|exact E3].
    apply (ES_sub c3); try reflexivity; auto; cc_cbn; [intro x; apply pend_del_ids_incl | apply pend_del_NoDup, (es_nodup _ E3)].
  - (* MEncSync *) cbn [apply]. destruct (negb _); [|exact E]. apply (ES_same c); try reflexivity; auto.
  - (* MNextID *)
    cbn [apply]. cbn [valid] in V. rewrite (u32_next _ V). destruct E as [e1 e2 e3 e4 e5 e6 e7 e8]. constructor; cc_cbn; auto.
    + intros p HP. pose proof (e1 p HP). flia.
    + intros o sid HO F. pose proof (e4 o sid HO F). flia.
  - (* MHeaders *)
    destruct V as (CW & IDS & GA & OP & RQ & PB & _). cbn [apply]. rewrite (u32_next _ IDS).
    destruct E as [e1 e2 e3 e4 e5 e6 e7 e8].
    assert (NEW : forall o1, In o1 (cc_out c) -> frame_sid o1 = Some (cc_nextID c) -> is_es o1 = false).
    { intros o1 H1 F. pose proof (e4 o1 _ H1 F). flia. }
    assert (NIN : ~ In (cc_nextID c) (map pb_id (cc_pending c))).
    { intro X. apply in_map_iff in X. destruct X as (p & PE & HP). pose proof (e1 p HP). flia. }
    destruct opb as [pb|].
    + destruct (PB pb eq_refl) as [PI PW].
      constructor; cc_cbn; auto.
      * intros p HP. apply in_app_or in HP. destruct HP as [HP|[<-|[]]]; [pose proof (e1 p HP); flia | flia].
      * rewrite map_app. cbn [map]. apply NoDup_app_snoc; [exact e2 | rewrite PI; exact NIN].
      * intros o sid [<-|HO] F; [cbn [frame_sid] in F; inversion F; flia | pose proof (e4 o sid HO F); flia].
      * intros o sid [<-|HO] F T; [discriminate|]. rewrite map_app. cbn [map]. intro X. apply in_app_or in X.
        destruct X as [X|[X|[]]]; [exact (e5 o sid HO F T X)|]. rewrite PI in X. subst sid. pose proof (e4 o _ HO F). flia.
      * intros id HI. rewrite map_app in HI. cbn [map] in HI. apply in_app_or in HI. destruct HI as [HI|[<-|[]]].
        -- destruct (e6 id HI) as (b & H). exists b. right. exact H.
        -- exists blk. left. rewrite PI. reflexivity.
      * split; [|exact e7]. intros sid es p X. discriminate.
      * split; [|exact e8]. cbn [frame_sid]. intros s X. inversion X; subst s. exact NEW.
    + constructor; cc_cbn; auto.
      * intros p HP. pose proof (e1 p HP). flia.
      * intros o sid [<-|HO] F; [cbn [frame_sid] in F; inversion F; flia | pose proof (e4 o sid HO F); flia].
      * intros o sid [<-|HO] F T; [cbn [frame_sid] in F; inversion F; subst sid; exact NIN | eauto].
      * intros id HI. destruct (e6 id HI) as (b & H). exists b. right. exact H.
      * split; [|exact e7]. intros sid es p X. discriminate.
      * split; [|exact e8]. cbn [frame_sid]. intros s X. inversion X; subst s. exact NEW.
Qed.

End Es.

(* ---------- the settings in force ---------- *)

Lemma pairs_last_frame_range ps : forallb setting_valid ps = true -> forall cur,
  16384 <= cur <= 16777215 -> 16384 <= pairs_last ps 5 cur <= 16777215.
Proof.
  unfold pairs_last, plast. induction ps as [|[k v] t IH]; intros V cur R; cbn [fold_left fst snd]; [exact R|].
  cbn [forallb] in V. apply andb_prop in V. destruct V as [V1 V2]. apply IH; [exact V2|].
  destruct (k =? 5) eqn:E; [|exact R]. apply N.eqb_eq in E. subst k.
  unfold setting_valid in V1. cbn [fst snd] in V1. apply andb_prop in V1. destruct V1 as [A B].
  apply N.leb_le in A, B. change (2 ^ 14) with 16384 in A. change (2 ^ 24 - 1) with 16777215 in B. lia.
Qed.

Section Fs.
Variable hstate : Type.
Variable dec_field : hstate -> N -> bytes -> dec_res hstate.
Variable enc_field : hstate -> bytes -> bytes -> bool -> bytes * hstate.
Variable enc_set_max : hstate -> N -> hstate.
Variable cfg : cl_config.
Variable h0 : hstate.
Variable first : bytes.
Notation cconn := (cconn hstate).
Notation move := (move hstate).
Notation apply := (apply hstate enc_field enc_set_max).
Notation valid := (valid hstate).
Notation items := (items hstate).
Notation mvs := (mvs enc_field enc_set_max).
Notation mitems := (mitems hstate enc_field enc_set_max).
Notation step := (cl_step dec_field enc_field enc_set_max cfg).
Notation run := (cl_run dec_field enc_field enc_set_max cfg h0 first).
Notation init := (cl_init enc_set_max h0 first).

(* the atomics the write loop reads are the server's values as merged so far, and MAX_FRAME_SIZE is in range *)
Record FS (c : cconn) : Prop := mkFS {
  fs_frame : cc_maxFrame c = cs_frame (cc_serverS c);
  fs_streams : cc_maxStreams c = cs_streams (cc_serverS c);
  fs_range : 16384 <= cc_maxFrame c <= 16777215
}.

Lemma apply_settings_fields m (c : cconn) : (forall p, m <> MSettings p) ->
  cc_maxFrame (apply m c) = cc_maxFrame c /\ cc_maxStreams (apply m c) = cc_maxStreams c /\ cc_serverS (apply m c) = cc_serverS c.
Proof.
  intro NS. destruct m; cbn [apply]; try (repeat split; fail).
  - destruct (quietb o); repeat split.
  - unfold cl_take_req_count. destruct (cl_req_find _ _); repeat split.
  - destruct (pushb o); [|repeat split]. unfold cl_write_out. destruct (cc_closed c); repeat split.
  - destruct (cc_outQ c); repeat split.
  - unfold recv_data, cl_update_window, cl_write_out. cc_cbn.
    repeat match goal with |- context [if ?b then _ else _] => destruct b end; repeat split.
  - exfalso. exact (NS payload eq_refl).
  - unfold cl_add_window, cl_signal_window. destruct (sid =? 0); [repeat split|]. destruct (cl_pend_get _ _); repeat split.
  - destruct (cl_pend_get _ _) as [pb|]; [|repeat split]. destruct (cl_refill pb); repeat split.
  - destruct (cl_pend_get _ _) as [pb|]; [|repeat split].
    assert (X : cc_maxFrame (cs_conn c pb id) = cc_maxFrame c /\ cc_maxStreams (cs_conn c pb id) = cc_maxStreams c /\ cc_serverS (cs_conn c pb id) = cc_serverS c)
      by (unfold cs_conn; destruct (cs_end c pb); repeat split).
    destruct wr; [|exact X]. destruct X as (X1 & X2 & X3).
    generalize (cl_write_data (cc_maxFrame (cs_conn c pb id)) id (cs_chunk c pb) (cs_end c pb)). intro l.
    rewrite <- X1, <- X2, <- X3. generalize (cs_conn c pb id). induction l as [|o t IH]; intro c0; cbn [cl_notes]; [repeat split|].
    destruct (IH (cl_note c0 o)) as (A & B & C). rewrite A, B, C. repeat split.
  - destruct (cl_pend_get _ _) as [pb|]; [|repeat split]. sb_cases c pb; repeat split.
  - destruct (negb _); repeat split.
  - destruct opb; repeat split.
Qed.

Lemma mv_FS m (c : cconn) : valid m c -> FS c -> FS (apply m c).
Proof.
  intros _ [f1 f2 f3].
  assert (SET : (exists p, m = MSettings p) \/ forall p, m <> MSettings p) by (destruct m; try (right; discriminate); left; eexists; reflexivity).
  destruct SET as [(p & ->)|NS].
  - cbn [apply]. destruct (cl_settings_deserialize false p) as [st|] eqn:DS; [|constructor; assumption].
    pose proof (settings_merge_delta _ _ (cc_serverS c) DS) as MD.
    destruct (deserialize_facts _ _ DS) as (_ & VAL & _).
    unfold cl_handle_settings, cl_apply_initial_window, cl_signal_window, cl_write_out. cc_cbn.
    assert (R : 16384 <= cs_frame (cl_settings_merge st (cc_serverS c)) <= 16777215).
    { rewrite MD. cbn [cs_frame]. apply pairs_last_frame_range; [exact VAL | rewrite <- f1; exact f3]. }
    destruct (cl_settings_has st c_HeaderTableSize), (cs_hasWin st); cc_cbn;
      match goal with |- context [if ?b then _ else _] => destruct b end; constructor; cc_cbn; auto.
  - destruct (apply_settings_fields m c NS) as (A & B & C). constructor; rewrite ?A, ?B, ?C; assumption.
Qed.

Lemma FS_init : cl_settings_deserialize false first <> None -> FS init.
Proof.
  intro NN. unfold cl_init. destruct (cl_settings_deserialize false first) as [st|] eqn:DS; [|congruence].
  pose proof (settings_merge_delta _ _ cl_settings_default DS) as MD.
  destruct (deserialize_facts _ _ DS) as (_ & VAL & _).
  constructor; cc_cbn; try reflexivity. rewrite MD. cbn [cs_frame]. apply pairs_last_frame_range; [exact VAL|].
  cbn [cl_settings_default cs_frame]. unfold c_defaultDataFrameSize. flia.
Qed.

(* ---------- DATA frames of a step against the MAX_FRAME_SIZE in force when it starts ---------- *)

Lemma item_small m (c : cconn) sid es p : valid m c -> FS c -> ES hstate c ->
  In (COData sid es p) (items m c) -> len p <= cc_maxFrame c /\ In sid (map pb_id (cc_pending c)).
Proof.
  intros V F E HI. destruct m; cbn [items] in HI; try (destruct HI; fail).
  - destruct (quietb o) eqn:Q; [|destruct HI]. destruct HI as [->|[]]. discriminate.
  - destruct (cc_outQ c) as [|o q] eqn:Q; [destruct HI|]. destruct HI as [->|[]].
    pose proof (es_q _ _ E) as QQ. rewrite Q in QQ. inversion QQ as [|? ? QO QT]. destruct QO.
  - (* MWlReset *) destruct HI as [X|[]]. discriminate.
  - destruct V as (pb & G & _). rewrite G in HI. destruct wr; [|destruct HI].
    destruct (write_data_shape (cc_maxFrame c) id (cs_chunk c pb) (cs_end c pb)) as (l & A & _ & C & _).
    rewrite A in HI. apply in_frames_of in HI. destruct HI as (x & HX & X). inversion X; subst.
    rewrite Forall_forall in C. specialize (C x HX). destruct F as [_ _ [R1 R2]].
    assert (W : wd_step (cc_maxFrame c) = cc_maxFrame c).
    { unfold wd_step. destruct (cc_maxFrame c =? 0) eqn:Z0; [apply N.eqb_eq in Z0; flia|]. cbn [orb].
      destruct (c_maxFrameSize <? cc_maxFrame c) eqn:Z1; [apply N.ltb_lt in Z1; unfold c_maxFrameSize in Z1; flia | reflexivity]. }
    rewrite W in C. split; [exact C|]. destruct (pend_get_In _ _ _ G) as [HP <-]. apply in_map. exact HP.
  - destruct HI as [X|[]]. discriminate.
Qed.

(* the ids with a pending body only grow by the stream a HEADERS frame opens; ids are handed out upwards *)
Lemma apply_ids m (c : cconn) : valid m c ->
  cc_nextID c <= cc_nextID (apply m c) /\
  forall x, In x (map pb_id (cc_pending (apply m c))) -> In x (map pb_id (cc_pending c)) \/ x = cc_nextID c.
Proof.
  intro V. destruct m; cbn [apply]; try (split; [apply N.le_refl | intros x H; left; exact H]; fail).
  - destruct (quietb o); split; try apply N.le_refl; intros x H; left; exact H.
  - unfold cl_take_req_count. destruct (cl_req_find _ _); split; try apply N.le_refl; intros x H; left; exact H.
  - destruct (pushb o); [|split; [apply N.le_refl | intros x H; left; exact H]].
    unfold cl_write_out. destruct (cc_closed c); split; try apply N.le_refl; intros x H; left; exact H.
  - destruct (cc_outQ c); split; try apply N.le_refl; intros x H; left; exact H.
  - destruct (recv_data_fields hstate c fr has_res) as (_ & _ & A3 & A4 & _). rewrite A3, A4.
    split; [apply N.le_refl | intros x H; left; exact H].
  - destruct (cl_settings_deserialize false payload) as [st|]; [|split; [apply N.le_refl | intros x H; left; exact H]].
    destruct (handle_settings_fields hstate c st) as (A & B & _). rewrite A, B. split; [apply N.le_refl | intros x H; left; exact H].
  - destruct (add_window_fields hstate c sid inc) as (A & B & _). rewrite A, B. split; [apply N.le_refl | intros x H; left; exact H].
  - split; [apply N.le_refl | intros x H; left; cc_cbn_in H; apply pend_del_ids_incl in H; exact H].
  - destruct V as [PI _]. split; [apply N.le_refl|]. intros x H. cc_cbn_in H. apply pend_del_ids_incl in H.
    rewrite map_app in H. apply in_app_or in H. destruct H as [H|[H|[]]]; [left; exact H | right; rewrite <- H; exact PI].
  - destruct (cl_pend_get _ _) as [pb|]; [|split; [apply N.le_refl | intros x H; left; exact H]].
    destruct (cl_refill pb); split; try apply N.le_refl; intros x H; left; cc_cbn_in H; rewrite ?pend_put_ids in H; exact H.
  - destruct (cl_pend_get _ _) as [pb|]; [|split; [apply N.le_refl | intros x H; left; exact H]].
    assert (X : cc_nextID (cs_conn c pb id) = cc_nextID c /\
                forall x, In x (map pb_id (cc_pending (cs_conn c pb id))) -> In x (map pb_id (cc_pending c))).
    { unfold cs_conn. destruct (cs_end c pb); cc_cbn; split; try reflexivity; intros x H;
        [apply pend_del_ids_incl in H | rewrite pend_put_ids in H]; exact H. }
    destruct X as [X1 X2]. destruct wr.
    + destruct (notes_fields hstate (cl_write_data (cc_maxFrame (cs_conn c pb id)) id (cs_chunk c pb) (cs_end c pb)) (cs_conn c pb id)) as (F1 & F2 & _).
      rewrite F1, F2, X1. split; [apply N.le_refl | intros x H; left; apply X2; exact H].
    + rewrite X1. split; [apply N.le_refl | intros x H; left; apply X2; exact H].
  - destruct (cl_pend_get _ _) as [pb|]; [|split; [apply N.le_refl | intros x H; left; exact H]].
    assert (X : cc_nextID (cs_conn c pb id) = cc_nextID c /\
                forall x, In x (map pb_id (cc_pending (cs_conn c pb id))) -> In x (map pb_id (cc_pending c))).
    { unfold cs_conn. destruct (cs_end c pb); cc_cbn; split; try reflexivity; intros x H;
        [apply pend_del_ids_incl in H | rewrite pend_put_ids in H]; exact H. }
    destruct X as [X1 X2]. unfold send_back. cbv zeta.
    assert (Y : cc_nextID (if (0 <? cs_n c pb)%Z then cl_add_window (cs_conn c pb id) 0 (cs_n c pb) else cs_conn c pb id) = cc_nextID c /\
                forall x, In x (map pb_id (cc_pending (if (0 <? cs_n c pb)%Z then cl_add_window (cs_conn c pb id) 0 (cs_n c pb) else cs_conn c pb id))) ->
                          In x (map pb_id (cc_pending c))).
    { destruct (0 <? cs_n c pb)%Z; [|split; assumption].
      destruct (add_window_fields hstate (cs_conn c pb id) 0 (cs_n c pb)) as (A & B & _). rewrite A, B. split; assumption. }
    destruct Y as [Y1 Y2]. set (c3 := if (0 <? cs_n c pb)%Z then _ else _) in *.
    destruct (cl_pend_get (cc_pending c3) id); cc_cbn; rewrite Y1; (split; [apply N.le_refl|]); intros x H; left.
    + apply Y2. apply pend_del_ids_incl in H. exact H.
    + apply Y2. exact H.
  - destruct (negb _); split; try apply N.le_refl; intros x H; left; exact H.
  - cbn [valid] in V. cc_cbn. rewrite (u32_next _ V). split; [flia | intros x H; left; exact H].
  - destruct V as (_ & IDS & _ & _ & _ & PB & _). rewrite (u32_next _ IDS). destruct opb as [pb|]; cc_cbn.
    + split; [flia|]. intros x H. rewrite map_app in H. apply in_app_or in H. destruct H as [H|[H|[]]]; [left; exact H|].
      right. rewrite <- H. apply (PB pb eq_refl).
    + split; [flia | intros x H; left; exact H].
Qed.

Lemma items_rl_nodata e m (c : cconn) sid es p : is_rl e -> ev_ok e m -> ~ In (COData sid es p) (items m c).
Proof.
  intros R E HI. pose proof (items_rl_quiet hstate e m c R E) as Q.
  apply in_split in HI. destruct HI as (a & b & X). rewrite X in Q. rewrite ledger_out_app in Q.
  apply app_eq_nil in Q. destruct Q as [_ Q]. discriminate.
Qed.

Lemma mitems_rl_nodata e ms sid es p : is_rl e -> Forall (ev_ok e) ms -> forall (c0 : cconn), ~ In (COData sid es p) (mitems c0 ms).
Proof.
  intros R F. induction F as [|m' t' B1 B2 IH']; intros c0 HI; cbn [CliFlowOut.mitems] in HI; [destruct HI|].
  apply in_app_or in HI. destruct HI as [HI|HI]; [exact (items_rl_nodata e m' c0 sid es p R B1 HI) | exact (IH' _ HI)].
Qed.

Lemma mvs_data e (c : cconn) ms c' : mvs c ms c' -> Forall (ev_ok e) ms -> FS c -> ES hstate c ->
  forall sid es p, In (COData sid es p) (mitems c ms) ->
  len p <= cc_maxFrame c /\ (In sid (map pb_id (cc_pending c)) \/ cc_nextID c <= sid).
Proof.
  induction 1 as [c|c m ms c' V M IH]; intros FA F E sid es p HI; cbn [CliFlowOut.mitems] in HI; [destruct HI|].
  inversion FA as [|? ? A1 A2]; subst.
  apply in_app_or in HI. destruct HI as [HI|HI].
  - destruct (item_small m c sid es p V F E HI) as [X Y]. split; [exact X | left; exact Y].
  - assert (RL : is_rl e \/ ~ is_rl e) by apply is_rl_dec.
    destruct RL as [R|R].
    + exfalso. exact (mitems_rl_nodata e ms sid es p R A2 _ HI).
    + assert (NS : forall q, m <> MSettings q).
      { intros q ->. cbn in A1. destruct A1 as (fr & -> & _). apply R. exact I. }
      destruct (apply_settings_fields m c NS) as (S1 & _ & _).
      destruct (apply_ids m c V) as [I1 I2].
      destruct (IH A2 (mv_FS m c V F) (mv_ES hstate enc_field enc_set_max m c V E) sid es p HI) as [X Y].
      split; [rewrite <- S1; exact X|]. destruct Y as [Y|Y]; [|right; clear - I1 Y; lia].
      destruct (I2 _ Y) as [Z|Z]; [left; exact Z | right; rewrite Z; apply N.le_refl].
Qed.

(* ---------- all runs ---------- *)

Lemma ES_init : ES hstate init.
Proof.
  unfold cl_init. destruct (cl_settings_deserialize false first); constructor; cc_cbn; cbn [map es_ok hdr_ok];
    try exact I; try (constructor; fail); try (intros ? []; fail); try (intros ? ? []; fail).
Qed.

Lemma ES_run evs : ES hstate (run evs).
Proof. apply (run_inv hstate dec_field enc_field enc_set_max cfg h0 first); [exact ES_init | apply mv_ES]. Qed.

Lemma FS_run evs : cl_settings_deserialize false first <> None -> FS (run evs).
Proof. intro NN. apply (run_inv hstate dec_field enc_field enc_set_max cfg h0 first); [apply FS_init; exact NN | apply mv_FS]. Qed.

Lemma es_ok_split a : forall o2 b, es_ok (a ++ o2 :: b) ->
  forall sid o1, frame_sid o2 = Some sid -> In o1 b -> frame_sid o1 = Some sid -> is_es o1 = false.
Proof.
  induction a as [|x a IH]; intros o2 b E sid o1 F2 HI F1; cbn [app es_ok] in E.
  - destruct E as [E _]. exact (E sid F2 o1 HI F1).
  - destruct E as [_ E]. exact (IH _ _ E sid o1 F2 HI F1).
Qed.

(* C07 (b): of two frames (HEADERS or DATA) the client writes on one stream, the earlier one has no END_STREAM:
   at most one END_STREAM per stream, and no HEADERS or DATA after it *)
Theorem end_stream_once evs pre o1 mid o2 post sid :
  cl_trace (run evs) = pre ++ o1 :: mid ++ o2 :: post ->
  frame_sid o1 = Some sid -> frame_sid o2 = Some sid -> is_es o1 = false.
Proof.
  intros T F1 F2. pose proof (es_out _ _ (ES_run evs)) as E. unfold cl_trace in T.
  assert (O : cc_out (run evs) = rev post ++ o2 :: (rev mid ++ o1 :: rev pre)).
  { rewrite <- (rev_involutive (cc_out (run evs))), T. rewrite rev_app_distr. cbn [rev]. rewrite rev_app_distr. cbn [rev].
    rewrite <- !app_assoc. cbn [app]. reflexivity. }
  rewrite O in E. apply (es_ok_split _ _ _ E sid o1 F2); [|exact F1]. apply in_or_app. right. left. reflexivity.
Qed.

Lemma hdr_ok_split a : forall o b, hdr_ok (a ++ o :: b) ->
  forall sid es p, o = COData sid es p -> exists blk, In (COHeaders sid false blk) b.
Proof.
  induction a as [|x a IH]; intros o b H sid es p X; cbn [app hdr_ok] in H.
  - destruct H as [H _]. exact (H sid es p X).
  - destruct H as [_ H]. exact (IH _ _ H sid es p X).
Qed.

(* every DATA frame comes after a HEADERS frame without END_STREAM on its stream *)
Theorem data_after_headers evs pre sid es p post :
  cl_trace (run evs) = pre ++ COData sid es p :: post -> exists blk, In (COHeaders sid false blk) pre.
Proof.
  intro T. pose proof (es_first _ _ (ES_run evs)) as H. unfold cl_trace in T.
  assert (O : cc_out (run evs) = rev post ++ COData sid es p :: rev pre).
  { rewrite <- (rev_involutive (cc_out (run evs))), T. rewrite rev_app_distr. cbn [rev]. rewrite <- app_assoc. reflexivity. }
  rewrite O in H. destruct (hdr_ok_split _ _ _ H sid es p eq_refl) as (blk & HB). exists blk. apply in_rev. exact HB.
Qed.

(* C07 (a): no DATA frame is larger than the SETTINGS_MAX_FRAME_SIZE in force when the step that writes it starts
   (cc_maxFrame: the last value the read loop has stored, 16384 until the server says otherwise), and DATA is
   written only on a stream whose body is pending when the step starts, or that the step opens *)
Theorem data_frames_small evs e sid es p : cl_settings_deserialize false first <> None ->
  In (COData sid es p) (g_new hstate (run evs) (step (run evs) e)) ->
  len p <= cc_maxFrame (run evs) /\ 16384 <= cc_maxFrame (run evs) <= 16777215 /\
  (In sid (map pb_id (cc_pending (run evs))) \/ cc_nextID (run evs) <= sid).
Proof.
  intros NN HI. destruct (step_D hstate dec_field enc_field enc_set_max cfg (run evs) e) as (ms & M & F & _).
  rewrite (mvs_new _ _ _ _ _ _ M) in HI.
  destruct (mvs_data e _ _ _ M F (FS_run evs NN) (ES_run evs) sid es p HI) as [A B].
  split; [exact A|]. split; [apply (fs_range _ (FS_run evs NN)) | exact B].
Qed.

End Fs.
