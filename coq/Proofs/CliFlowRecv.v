(* Proofs/CliFlowRecv.v - C14, client role: the read loop hands flow-control credit back.
   Every WINDOW_UPDATE the client queues or writes has an increment in 1 .. 2^31-1; the connection receive window
   stays between half of maxWindow (1 << 20) and maxWindow; every DATA frame readStream sees is debited with its
   whole length on the wire; the server's view of its connection send window never exceeds what the client
   accounts for. *)
From H2V Require Import Base.Bytes Base.MachineInt Base.Result Gen.GenConsts Impl.ServerConn Impl.ClientConn
     Proofs.CliDefs Spec.FlowLedger Proofs.SrvFlowLedger Proofs.CliFlowMoves Proofs.CliFlowOut Proofs.CliFlowSafe Proofs.CliFlowEs.
From Coq Require Import ZArith Lia ZifyN ZifyNat ZifyBool List Bool.
Import ListNotations.
Local Open Scope N_scope.
Set Default Proof Using "Type".

(* the frame header's length field has 24 bits *)
Definition WLIMIT : N := 16777216.
Definition wire_ev (e : cevent) : Prop := match e with CEvRL (RFrame fr) => sf_len fr < WLIMIT | _ => True end.

(* RFC 7540 6.9.1 *)
Definition wu_ok (o : coutev) : Prop := match o with COWinUpd _ inc => (0 < inc <= 2147483647)%Z | _ => True end.

Lemma frames_wu_ok sid l : Forall wu_ok (frames_of sid l).
Proof. unfold frames_of. induction l; cbn [map]; constructor; [exact I | assumption]. Qed.

Section Recv.
Variable hstate : Type.
Variable dec_field : hstate -> N -> bytes -> dec_res hstate.
Variable enc_field : hstate -> bytes -> bytes -> bool -> bytes * hstate.
Variable enc_set_max : hstate -> N -> hstate.
Variable cfg : cl_config.
Variable h0 : hstate.
Variable first : bytes.
Notation cconn := (cconn hstate).
Notation move := (move hstate).
Notation apply := (apply hstate enc_field enc_set_max).
Notation valid := (valid hstate).
Notation items := (items hstate).
Notation mvs := (mvs enc_field enc_set_max).
Notation mitems := (mitems hstate enc_field enc_set_max).
Notation step := (cl_step dec_field enc_field enc_set_max cfg).
Notation run := (cl_run dec_field enc_field enc_set_max cfg h0 first).
Notation init := (cl_init enc_set_max h0 first).

Definition mv_wire (m : move) : Prop := match m with MRecvData fr _ => sf_len fr < WLIMIT | _ => True end.

Lemma ev_ok_wire e (m : move) : wire_ev e -> ev_ok e m -> mv_wire m.
Proof. intros W E. destruct m; cbn [mv_wire]; try exact I. cbn in E. destruct E as (-> & _). exact W. Qed.

Record AInv (c : cconn) : Prop := mkAInv {
  a_cw : (cl_maxWindow / 2 <= cc_currentWindow c <= cl_maxWindow)%Z;
  a_out : Forall wu_ok (cc_out c);
  a_q : Forall wu_ok (cc_outQ c)
}.

Lemma AInv_same (c c' : cconn) :
  cc_currentWindow c' = cc_currentWindow c -> cc_out c' = cc_out c -> cc_outQ c' = cc_outQ c -> AInv c -> AInv c'.
Proof. intros A B C [a1 a2 a3]. constructor; rewrite ?A, ?B, ?C; assumption. Qed.

Lemma items_wu_ok m (c : cconn) : valid m c -> Forall wu_ok (cc_outQ c) -> Forall wu_ok (items m c).
Proof.
  intros V Q. destruct m; cbn [items]; try constructor.
  - destruct (quietb o) eqn:E; [|constructor]. constructor; [destruct o; try discriminate; exact I | constructor].
  - destruct (cc_outQ c) as [|o q]; [constructor|]. inversion Q; subst. constructor; [assumption | constructor].
  - (* MWlReset *) exact I.
  - constructor.
  - destruct (cl_pend_get _ _) as [pb|]; [|constructor]. destruct wr; [|constructor].
    destruct (write_data_shape (cc_maxFrame c) id (cs_chunk c pb) (cs_end c pb)) as (l & A & _). rewrite A. apply frames_wu_ok.
  - exact I.
  - constructor.
Qed.

Lemma write_out_AInv (c : cconn) o : wu_ok o -> AInv c -> AInv (cl_write_out c o).
Proof.
  intros W [a1 a2 a3]. unfold cl_write_out. destruct (cc_closed c); constructor; cc_cbn; auto.
  apply Forall_app. split; [exact a3 | constructor; [exact W | constructor]].
Qed.

Lemma recv_data_AInv (c : cconn) fr hr : sf_len fr < WLIMIT -> AInv c -> AInv (recv_data c fr hr).
Proof.
  intros W A. unfold recv_data, cl_update_window.
  assert (R : (524288 <= cc_currentWindow c <= 1048576)%Z) by (destruct A as [a1 _ _]; exact a1).
  unfold WLIMIT in W.
  assert (IC : cl_i32 (cc_currentWindow c - Z.of_N (sf_len fr)) = (cc_currentWindow c - Z.of_N (sf_len fr))%Z) by (apply cl_i32_id; flia).
  rewrite IC. set (cur := (cc_currentWindow c - Z.of_N (sf_len fr))%Z) in *.
  change (cl_maxWindow / 2)%Z with 524288%Z. unfold cl_maxWindow.
  (* the state after the debit and the stream credit satisfies everything but the lower bound *)
  set (c2 := if hr then if negb (sf_len fr =? 0) && negb (flag_has (sf_flags fr) FL_ES)
                        then cl_write_out (ccu_currentWindow c cur) (COWinUpd (sf_sid fr) (Z.of_N (sf_len fr)))
                        else ccu_currentWindow c cur
             else ccu_currentWindow c cur).
  assert (A2 : cc_currentWindow c2 = cur /\ Forall wu_ok (cc_out c2) /\ Forall wu_ok (cc_outQ c2)).
  { destruct A as [a1 a2 a3]. subst c2. destruct hr; [|repeat split; assumption].
    destruct (negb (sf_len fr =? 0) && negb (flag_has (sf_flags fr) FL_ES)) eqn:CR; [|repeat split; assumption].
    apply andb_prop in CR. destruct CR as [CR _]. apply negb_true_iff, N.eqb_neq in CR.
    unfold cl_write_out. destruct (cc_closed _); cc_cbn; repeat split; auto.
    apply Forall_app. split; [exact a3|]. constructor; [cbn [wu_ok]; flia | constructor]. }
  destruct A2 as (C2 & O2 & Q2). clearbody c2.
  destruct (cur <? 524288)%Z eqn:LOW; [apply Z.ltb_lt in LOW | apply Z.ltb_ge in LOW].
  - apply write_out_AInv; [cbn [wu_ok]; flia|]. constructor; cc_cbn; auto. change (1048576 / 2)%Z with 524288%Z. unfold cl_maxWindow. flia.
  - constructor; auto. rewrite C2. change (cl_maxWindow / 2)%Z with 524288%Z. unfold cl_maxWindow. subst cur. flia.
Qed.

Lemma mv_AInv m (c : cconn) : valid m c -> mv_wire m -> AInv c -> AInv (apply m c).
Proof.
  intros V W A.
  assert (OUT : Forall wu_ok (cc_out (apply m c))).
  { rewrite (out_apply hstate enc_field enc_set_max). apply Forall_app. split; [|apply (a_out _ A)].
    apply Forall_rev. apply items_wu_ok; [exact V | apply (a_q _ A)]. }
  destruct m; try (apply (AInv_same c); try reflexivity; exact A);
    try (destruct A as [a1 a2 a3]; constructor; [exact a1 | exact OUT | exact a3]; fail).
  - (* MNote *) destruct A as [a1 a2 a3]. constructor; [|exact OUT|]; cbn [apply]; destruct (quietb o); assumption.
  - (* MReqTake *) cbn [apply]. unfold cl_take_req_count. destruct (cl_req_find _ _); [|exact A]. apply (AInv_same c); try reflexivity; exact A.
  - (* MQClear *) destruct A as [a1 a2 a3]. constructor; [exact a1 | exact a2 | constructor].
  - (* MOutQPush *)
    cbn [apply]. destruct (pushb o) eqn:Q; [|exact A]. unfold cl_write_out. destruct (cc_closed c); [exact A|].
    destruct A as [a1 a2 a3]. constructor; cc_cbn; auto. apply Forall_app. split; [exact a3|].
    constructor; [destruct o; try discriminate; exact I | constructor].
  - (* MWlWrite *)
    destruct A as [a1 a2 a3]. constructor; [|exact OUT|]; cbn [apply]; destruct (cc_outQ c) as [|o q] eqn:Q; cc_cbn; rewrite ?Q; auto.
    inversion a3; assumption.
  - (* MOutQDrop *)
    destruct A as [a1 a2 a3]. constructor; cbn [apply]; cc_cbn; auto. destruct (cc_outQ c); [constructor | inversion a3; assumption].
  - (* MRecvData *) apply recv_data_AInv; assumption.
  - (* MSettings *)
    cbn [apply] in *. destruct (cl_settings_deserialize false payload) as [st|]; [|exact A].
    destruct A as [a1 a2 a3]. constructor; [|exact OUT|];
      unfold cl_handle_settings, cl_apply_initial_window, cl_signal_window, cl_write_out; cc_cbn;
      destruct (cl_settings_has st c_HeaderTableSize), (cs_hasWin st); cc_cbn;
      match goal with |- context [if ?b then _ else _] => destruct b end; cc_cbn; auto;
      apply Forall_app; split; auto; repeat constructor.
  - (* MAddWindow *)
    cbn [apply]. unfold cl_add_window, cl_signal_window. destruct (sid =? 0); [apply (AInv_same c); try reflexivity; exact A|].
    destruct (cl_pend_get _ _); apply (AInv_same c); try reflexivity; exact A.
  - (* MRefill *)
    cbn [apply]. destruct (cl_pend_get _ _) as [pb|]; [|exact A]. destruct (cl_refill pb); [|exact A]. apply (AInv_same c); try reflexivity; exact A.
  - (* MSend *)
    destruct A as [a1 a2 a3]. constructor; [|exact OUT|]; cbn [apply]; destruct (cl_pend_get _ _) as [pb|]; auto.
    + destruct wr; [|unfold cs_conn; destruct (cs_end c pb); exact a1].
      assert (E : forall l (c0 : cconn), cc_currentWindow (cl_notes c0 l) = cc_currentWindow c0).
      { induction l as [|o t IH]; intro c0; [reflexivity|]. cbn [cl_notes]. rewrite IH. reflexivity. }
      rewrite E. unfold cs_conn; destruct (cs_end c pb); exact a1.
    + destruct wr; [|unfold cs_conn; destruct (cs_end c pb); exact a3].
      destruct (notes_fields hstate (cl_write_data (cc_maxFrame (cs_conn c pb id)) id (cs_chunk c pb) (cs_end c pb)) (cs_conn c pb id)) as (_ & _ & F3).
      rewrite F3. unfold cs_conn; destruct (cs_end c pb); exact a3.
  - (* MSendBack *)
    cbn [apply]. destruct (cl_pend_get _ _) as [pb|]; [|exact A]. sb_cases c pb; apply (AInv_same c); try reflexivity; exact A.
  - (* MEncSync *) cbn [apply]. destruct (negb _); [|exact A]. apply (AInv_same c); try reflexivity; exact A.
  - (* MHeaders *)
    destruct A as [a1 a2 a3]. constructor; [|exact OUT|]; cbn [apply]; destruct opb; assumption.
Qed.

(* ---------- all runs whose frames fit the length field ---------- *)

Lemma run_inv_ev (I : cconn -> Prop) (Pm : move -> Prop) (Pe : cevent -> Prop) :
  (forall e m, Pe e -> ev_ok e m -> Pm m) -> I init ->
  (forall m c, valid m c -> Pm m -> I c -> I (apply m c)) -> forall evs, Forall Pe evs -> I (run evs).
Proof.
  intros PM H0 H evs F. unfold cl_run. generalize init H0. induction F as [|e t He Ht IH]; intros c HI; cbn [fold_left]; [exact HI|].
  apply IH. destruct (step_D hstate dec_field enc_field enc_set_max cfg c e) as (ms & M & FO & _).
  clear IH Ht. revert HI. induction M as [c|c m ms c' V M IHM]; intro HI; [exact HI|]. inversion FO; subst.
  apply IHM; [assumption|]. apply H; [exact V | eapply PM; eassumption | exact HI].
Qed.

Lemma AInv_init : AInv init.
Proof.
  unfold cl_init. destruct (cl_settings_deserialize false first); constructor; cc_cbn; try constructor;
    change (cl_maxWindow / 2)%Z with 524288%Z; unfold cl_maxWindow; clear; lia.
Qed.

Lemma AInv_run evs : Forall wire_ev evs -> AInv (run evs).
Proof. apply (run_inv_ev AInv mv_wire wire_ev); [intros e m; apply ev_ok_wire | exact AInv_init | exact mv_AInv]. Qed.

(* C14 (client): every WINDOW_UPDATE the client writes, for the connection or a stream, has an increment in 1 .. 2^31-1 *)
Theorem window_update_increments evs sid inc : Forall wire_ev evs ->
  In (COWinUpd sid inc) (cl_trace (run evs)) \/ In (COWinUpd sid inc) (cc_outQ (run evs)) -> (0 < inc <= 2147483647)%Z.
Proof.
  intros W H. destruct (AInv_run evs W) as [_ a2 a3]. rewrite Forall_forall in a2, a3.
  destruct H as [H|H]; [apply in_rev in H; exact (a2 _ H) | exact (a3 _ H)].
Qed.

(* the connection receive window stays between half of maxWindow and maxWindow *)
Theorem receive_window_bounds evs : Forall wire_ev evs ->
  (cl_maxWindow / 2 <= cc_currentWindow (run evs) <= cl_maxWindow)%Z.
Proof. intro W. apply (a_cw _ (AInv_run evs W)). Qed.

(* ---------- the server's view of its connection send window ---------- *)

Definition rcredit_of (o : coutev) : list revent := match o with COWinUpd sid inc => [RCredit sid inc] | _ => [] end.
Definition rcredits (l : list coutev) : list revent := flat_map rcredit_of l.
Definition rdata_ev (fr : sframe) : revent := RData (sf_sid fr) (Z.of_N (sf_len fr)).

(* the DATA frame the server has sent and the read loop takes in *)
Definition p_rdata (c : cconn) (e : cevent) : list sframe :=
  match e with
  | CEvRL (RFrame fr) => if g_rl_takes hstate c fr && fkind_eqb (sf_kind fr) KData && negb (sf_sid fr =? 0) then [fr] else []
  | _ => []
  end.

(* C14, the server's history of its own send windows: DATA counts when the read loop takes it in, credit when the
   WINDOW_UPDATE is written *)
Definition rtl_step (c : cconn) (e : cevent) : list revent :=
  map rdata_ev (p_rdata c e) ++ rcredits (g_new hstate c (step c e)).
Fixpoint rtimeline_from (c : cconn) (evs : list cevent) : list revent :=
  match evs with
  | [] => []
  | e :: t => rtl_step c e ++ rtimeline_from (step c e) t
  end.
Definition rtimeline (evs : list cevent) : list revent := rtimeline_from init evs.

(* connection credit still waiting in c.out *)
Fixpoint qconn (q : list coutev) : Z :=
  match q with
  | [] => 0
  | COWinUpd sid inc :: t => (if sid =? 0 then inc else 0) + qconn t
  | _ :: t => qconn t
  end.

Lemma qconn_app a b : qconn (a ++ b) = (qconn a + qconn b)%Z.
Proof. induction a as [|o t IH]; cbn [app qconn]; [reflexivity|]. destruct o; try exact IH. rewrite IH. clear. lia. Qed.

Lemma qconn_nonneg q : Forall wu_ok q -> (0 <= qconn q)%Z.
Proof.
  induction 1 as [|o t Ho Ht IH]; cbn [qconn]; [clear; lia|]. destruct o; try exact IH. cbn [wu_ok] in Ho.
  destruct (sid =? 0); clear - Ho IH; lia.
Qed.

(* the connection is in working order: Close has not begun, writes reach the socket, the read loop is not parked *)
Definition healthy (c : cconn) : Prop := cc_closed c = false /\ cl_can_write c = true /\ cc_rl_stuck c = false.

Record PInv (c : cconn) (w : Z) : Prop := mkPInv {
  p_le : (w + qconn (cc_outQ c) <= cc_currentWindow c)%Z;
  p_eq : healthy c -> (w + qconn (cc_outQ c))%Z = cc_currentWindow c
}.

Lemma PInv_same (c c' : cconn) w :
  cc_currentWindow c' = cc_currentWindow c -> cc_outQ c' = cc_outQ c -> (healthy c' -> healthy c) -> PInv c w -> PInv c' w.
Proof. intros A B H [p1 p2]. constructor; rewrite ?A, ?B; auto. Qed.

(* the server's history a move stands for *)
Definition rl_of (m : move) (c : cconn) : list revent := map rdata_ev (rdatas_of m) ++ rcredits (items m c).

Definition mv_rok (m : move) : Prop := match m with MRecvData fr _ => sf_len fr < WLIMIT /\ sf_sid fr <> 0 | _ => True end.

Lemma ev_ok_rok e (m : move) : wire_ev e -> ev_ok e m -> mv_rok m.
Proof. intros W E. destruct m; cbn [mv_rok]; try exact I. cbn in E. destruct E as (-> & _ & NZ). split; [exact W | exact NZ]. Qed.

Lemma rcredits_frames sid l : rcredits (frames_of sid l) = [].
Proof. unfold frames_of, rcredits. induction l as [|x t IH]; cbn [map flat_map rcredit_of app]; [reflexivity | exact IH]. Qed.

Lemma healthy_fields (c c' : cconn) :
  cc_closed c' = cc_closed c -> cl_can_write c' = cl_can_write c -> cc_rl_stuck c' = cc_rl_stuck c -> healthy c' -> healthy c.
Proof. unfold healthy. intros -> -> ->. auto. Qed.

Lemma recv_data_PInv (c : cconn) fr hr w : sf_len fr < WLIMIT -> sf_sid fr <> 0 -> AInv c -> PInv c w ->
  PInv (recv_data c fr hr) (w - Z.of_N (sf_len fr))%Z.
Proof.
  intros W NZ A [p1 p2]. unfold recv_data, cl_update_window.
  assert (R : (524288 <= cc_currentWindow c <= 1048576)%Z) by (destruct A as [a1 _ _]; exact a1).
  pose proof (qconn_nonneg _ (a_q _ A)) as QN.
  unfold WLIMIT in W.
  assert (IC : cl_i32 (cc_currentWindow c - Z.of_N (sf_len fr)) = (cc_currentWindow c - Z.of_N (sf_len fr))%Z) by (apply cl_i32_id; flia).
  rewrite IC. set (cur := (cc_currentWindow c - Z.of_N (sf_len fr))%Z) in *.
  change (cl_maxWindow / 2)%Z with 524288%Z. unfold cl_maxWindow.
  set (c2 := if hr then if negb (sf_len fr =? 0) && negb (flag_has (sf_flags fr) FL_ES)
                        then cl_write_out (ccu_currentWindow c cur) (COWinUpd (sf_sid fr) (Z.of_N (sf_len fr)))
                        else ccu_currentWindow c cur
             else ccu_currentWindow c cur).
  assert (A2 : cc_currentWindow c2 = cur /\ qconn (cc_outQ c2) = qconn (cc_outQ c) /\ cc_closed c2 = cc_closed c /\
               cl_can_write c2 = cl_can_write c /\ cc_rl_stuck c2 = cc_rl_stuck c).
  { subst c2. destruct hr; [|repeat split].
    destruct (negb (sf_len fr =? 0) && negb (flag_has (sf_flags fr) FL_ES)); [|repeat split].
    unfold cl_write_out. destruct (cc_closed _) eqn:CL; cc_cbn; repeat split; auto.
    rewrite qconn_app. cbn [qconn]. apply N.eqb_neq in NZ. rewrite NZ. clear; lia. }
  destruct A2 as (C2 & Q2 & CL2 & CW2 & ST2). clearbody c2.
  destruct (cur <? 524288)%Z eqn:LOW; [apply Z.ltb_lt in LOW | apply Z.ltb_ge in LOW].
  - unfold cl_write_out. cc_cbn. destruct (cc_closed c2) eqn:CL.
    + constructor; cc_cbn; [rewrite Q2; subst cur; flia|]. intros (X & _). cc_cbn_in X. congruence.
    + constructor; cc_cbn; rewrite qconn_app, Q2; cbn [qconn N.eqb]; [subst cur; flia|].
      intros (X & Y & Zz). cc_cbn_in X. unfold cl_can_write in Y. cc_cbn_in Y. fold (cl_can_write c2) in Y. cc_cbn_in Zz.
      assert (HC : healthy c) by (unfold healthy; rewrite <- CL2, <- CW2, <- ST2; auto).
      specialize (p2 HC). subst cur. flia.
  - constructor; rewrite C2, Q2; [subst cur; flia|]. intro HC.
    assert (HC0 : healthy c) by (unfold healthy in *; rewrite <- CL2, <- CW2, <- ST2; exact HC).
    specialize (p2 HC0). subst cur. flia.
Qed.

Lemma mv_PInv m (c : cconn) w : valid m c -> mv_rok m -> AInv c -> PInv c w ->
  PInv (apply m c) (peer_conn_window w (rl_of m c)).
Proof.
  intros V RO A P. pose proof (qconn_nonneg _ (a_q _ A)) as QN. unfold rl_of.
  destruct m; cbn [rdatas_of items map app rcredits flat_map rcredit_of peer_conn_window];
    try (apply (PInv_same c); try reflexivity; [apply healthy_fields; reflexivity | exact P]; fail).
  - (* MNote *)
    cbn [apply]. destruct (quietb o) eqn:Q; cbn [flat_map app peer_conn_window]; [|exact P].
    destruct o; try discriminate; cbn [rcredit_of app peer_conn_window];
      (apply (PInv_same c); try reflexivity; [apply healthy_fields; reflexivity | exact P]).
  - (* MClosed *) apply (PInv_same c); try reflexivity; [|exact P]. intros (X & _). discriminate.
  - (* MNetClosed *) apply (PInv_same c); try reflexivity; [|exact P]. intros (_ & X & _). unfold cl_can_write in X. cbn [apply] in X. cc_cbn_in X. rewrite andb_false_r in X. discriminate.
  - (* MWriteFail *) apply (PInv_same c); try reflexivity; [|exact P]. intros (_ & X & _). unfold cl_can_write in X. cbn [apply] in X. cc_cbn_in X. discriminate.
  - (* MRlStuck *) apply (PInv_same c); try reflexivity; [|exact P]. intros (_ & _ & X). discriminate.
  - (* MReqTake *)
    cbn [apply]. unfold cl_take_req_count. destruct (cl_req_find _ _); [|exact P].
    apply (PInv_same c); try reflexivity; [apply healthy_fields; reflexivity | exact P].
  - (* MQClear *)
    cbn [valid] in V. destruct P as [p1 p2]. constructor; cbn [apply]; cc_cbn; cbn [qconn]; [flia|].
    intros (X & _). cc_cbn_in X. congruence.
  - (* MOutQPush *)
    cbn [apply]. destruct (pushb o) eqn:Q; [|exact P]. unfold cl_write_out. destruct (cc_closed c) eqn:CL; [exact P|].
    destruct P as [p1 p2].
    assert (Q0 : qconn (cc_outQ c ++ [o]) = qconn (cc_outQ c)).
    { rewrite qconn_app. destruct o; try discriminate; cbn [qconn]; clear; lia. }
    constructor; cc_cbn; rewrite Q0; [exact p1|]. intro H. apply p2. revert H. apply healthy_fields; reflexivity.
  - (* MWlWrite *)
    destruct V as [CW NE]. destruct P as [p1 p2]. cbn [apply]. destruct (cc_outQ c) as [|o q] eqn:Q; [congruence|].
    cbn [flat_map app]. rewrite app_nil_r.
    assert (H : healthy (cl_note (ccu_outQ c q) o) -> healthy c) by (apply healthy_fields; reflexivity).
    cbn [qconn] in p1, p2.
    destruct o; cbn [rcredit_of peer_conn_window]; try (constructor; cc_cbn; auto; fail).
    destruct (sid =? 0); constructor; cc_cbn; try flia; intro HC; specialize (p2 (H HC)); flia.
  - (* MOutQDrop *)
    cbn [valid] in V. destruct P as [p1 p2]. constructor; cbn [apply]; cc_cbn.
    + destruct (cc_outQ c) as [|o q] eqn:Q; cbn [tl]; [exact p1|]. cbn [qconn] in p1.
      pose proof (a_q _ A) as AQ. rewrite Q in AQ. inversion AQ as [|? ? HO HT]; subst.
      destruct o; try exact p1. cbn [wu_ok] in HO. destruct (sid =? 0); flia.
    + intros (_ & X & _). unfold cl_can_write in *. cc_cbn_in X. congruence.
  - (* MRecvData *)
    destruct RO as [W NZ]. cbn [app peer_conn_window rdata_ev flat_map map].
    apply recv_data_PInv; assumption.
  - (* MSettings *)
    cbn [apply]. destruct (cl_settings_deserialize false payload) as [st|]; [|exact P]. destruct P as [p1 p2].
    unfold cl_handle_settings, cl_apply_initial_window, cl_signal_window, cl_write_out. cc_cbn.
    destruct (cl_settings_has st c_HeaderTableSize), (cs_hasWin st); cc_cbn;
      destruct (cc_closed c) eqn:CL; constructor; cc_cbn; rewrite ?qconn_app; cbn [qconn]; rewrite ?Z.add_0_r; auto;
      intros (X & Y & Zz); cc_cbn_in X; try congruence; apply p2; unfold healthy, cl_can_write in *; cc_cbn_in Y; cc_cbn_in Zz; auto.
  - (* MAddWindow *)
    cbn [apply]. unfold cl_add_window, cl_signal_window. destruct (sid =? 0); [apply (PInv_same c); try reflexivity; [apply healthy_fields; reflexivity | exact P]|].
    destruct (cl_pend_get _ _); apply (PInv_same c); try reflexivity; try exact P; apply healthy_fields; reflexivity.
  - (* MRefill *)
    cbn [apply]. destruct (cl_pend_get _ _) as [pb|]; [|exact P]. destruct (cl_refill pb); [|exact P].
    apply (PInv_same c); try reflexivity; [apply healthy_fields; reflexivity | exact P].
  - (* MSend *)
    cbn [apply]. destruct (cl_pend_get _ _) as [pb|]; cbn [flat_map peer_conn_window]; [|exact P].
    assert (X : PInv (cs_conn c pb id) w).
    { apply (PInv_same c); unfold cs_conn; destruct (cs_end c pb); try reflexivity; try exact P; apply healthy_fields; reflexivity. }
    destruct wr; [|exact X].
    destruct (write_data_shape (cc_maxFrame c) id (cs_chunk c pb) (cs_end c pb)) as (l & E & _).
    fold (rcredits (cl_write_data (cc_maxFrame c) id (cs_chunk c pb) (cs_end c pb))). rewrite E, rcredits_frames. cbn [peer_conn_window].
    set (l2 := cl_write_data _ _ _ _). apply (PInv_same (cs_conn c pb id)); try exact X.
    + clear. generalize (cs_conn c pb id). induction l2 as [|o t IH]; intro c0; [reflexivity|]. cbn [cl_notes]. rewrite IH. reflexivity.
    + destruct (notes_fields hstate l2 (cs_conn c pb id)) as (_ & _ & F3). exact F3.
    + assert (E2 : forall l (c0 : cconn), cc_closed (cl_notes c0 l) = cc_closed c0 /\ cl_can_write (cl_notes c0 l) = cl_can_write c0 /\ cc_rl_stuck (cl_notes c0 l) = cc_rl_stuck c0).
      { clear. induction l as [|o t IH]; intro c0; [repeat split|]. cbn [cl_notes]. destruct (IH (cl_note c0 o)) as (A & B & C). rewrite A, B, C. repeat split. }
      destruct (E2 l2 (cs_conn c pb id)) as (A1 & B1 & C1). apply healthy_fields; assumption.
  - (* MSendBack *)
    cbn [apply]. destruct (cl_pend_get _ _) as [pb|]; [|exact P].
    sb_cases c pb; apply (PInv_same c); try reflexivity; try exact P; apply healthy_fields; reflexivity.
  - (* MEncSync *)
    cbn [apply]. destruct (negb _); [|exact P]. apply (PInv_same c); try reflexivity; [apply healthy_fields; reflexivity | exact P].
  - (* MHeaders *)
    cbn [apply]. destruct opb; apply (PInv_same c); try reflexivity; try exact P; apply healthy_fields; reflexivity.
Qed.

Fixpoint mrl (c : cconn) (ms : list move) : list revent :=
  match ms with
  | [] => []
  | m :: t => rl_of m c ++ mrl (apply m c) t
  end.

Lemma mvs_PInv (c : cconn) ms c' : mvs c ms c' -> Forall mv_rok ms -> Forall mv_wire ms ->
  forall w, AInv c -> PInv c w -> AInv c' /\ PInv c' (peer_conn_window w (mrl c ms)).
Proof.
  induction 1 as [c|c m ms c' V M IH]; intros R W w A P; cbn [mrl]; [split; assumption|].
  inversion R; subst. inversion W; subst. rewrite peer_conn_window_app.
  apply IH; try assumption; [apply mv_AInv | apply mv_PInv]; assumption.
Qed.

Lemma rcredits_app a b : rcredits (a ++ b) = rcredits a ++ rcredits b.
Proof. apply flat_map_app. Qed.

Lemma items_rl_nocredit e m (c : cconn) : is_rl e -> ev_ok e m -> rcredits (items m c) = [].
Proof.
  intros R E. destruct e; try contradiction. destruct m; cbn [items]; try reflexivity; try (cbn in E; first [contradiction | discriminate]).
  destruct (quietb o) eqn:Q; [|reflexivity]. destruct o; try discriminate; reflexivity.
Qed.

Lemma rdatas_not_rl e (m : move) : ~ is_rl e -> ev_ok e m -> rdatas_of m = [].
Proof. intros R E. destruct m; try reflexivity. cbn in E. destruct E as (-> & _). exfalso. apply R. exact I. Qed.

Lemma mrl_split e ms : Forall (ev_ok e) ms -> forall (c : cconn),
  mrl c ms = map rdata_ev (flat_map rdatas_of ms) ++ rcredits (mitems c ms).
Proof.
  intro F. pose proof (is_rl_dec e) as RL.
  induction F as [|m t Hm Ht IH]; intro c; cbn [mrl flat_map CliFlowOut.mitems]; [reflexivity|].
  rewrite IH, rcredits_app, map_app. unfold rl_of. destruct RL as [R|R].
  - rewrite (items_rl_nocredit e m c R Hm). cbn [app]. rewrite app_nil_r, app_assoc. reflexivity.
  - rewrite (rdatas_not_rl e m R Hm). cbn [map app]. assert (E : flat_map rdatas_of t = []).
    { clear IH. induction Ht as [|m' t' Hm' Ht' IH']; [reflexivity|]. cbn [flat_map]. rewrite (rdatas_not_rl e m' R Hm'), IH'. reflexivity. }
    rewrite E. reflexivity.
Qed.

(* dispatch parks the read loop: from then on it is stuck *)
Lemma dispatch_stuck (c : cconn) fr : snd (cl_dispatch dec_field c fr) = CDStuck ->
  cc_rl_stuck (fst (cl_dispatch dec_field c fr)) = true.
Proof.
  unfold cl_dispatch. cbv zeta.
  assert (TAIL : forall (c0 : cconn) (ok : option cctx) (X : cconn * cl_dres),
            X = (let '(c1, res', ended, err) := cl_read_stream dec_field c0 fr (match ok with Some x => Some (ct_resp x) | None => None end) in
                 let ok1 := match ok, res' with Some x, Some r => Some (ctu_resp x r) | _, _ => ok end in
                 let '(ok2, err2) :=
                   match ok1, err with
                   | Some x, CRSNone =>
                     if (cc_hdrStream c1 =? 0) && (fkind_eqb (sf_kind fr) KHeaders || fkind_eqb (sf_kind fr) KCont) then
                       if (cc_hdrStatus c1 =? 0)%Z then
                         if negb (ct_gotStatus x) || negb (cc_hdrEndStream c1) then (ok1, CRSStream CEMalformed) else (ok1, CRSNone)
                       else if ct_gotStatus x then (ok1, CRSStream CEMalformed)
                       else
                         let final := (200 <=? cc_hdrStatus c1)%Z in
                         (Some (ctu_gotStatus x final), if negb final && cc_hdrEndStream c1 then CRSStream CEMalformed else CRSNone)
                     else (ok1, err)
                   | _, _ => (ok1, err)
                   end in
                 let err2 :=
                   match ok2, err2 with
                   | Some x, CRSNone => if fkind_eqb (sf_kind fr) KData && negb (ct_gotStatus x) then CRSStream CEMalformed else err2
                   | _, _ => err2
                   end in
                 let c2 := match ok2 with Some x => cl_ctx_put c1 x | None => c1 end in
                 match err2 with
                 | CRSPanic => (c2, CDPanic)
                 | CRSConn e =>
                   let c3 := cl_set_last_err c2 e in
                   (match ok2 with Some x => cl_finish c3 (ct_tag x) (sf_sid fr) e | None => c3 end, CDStop)
                 | CRSStream e =>
                   let c3 := match ok2 with Some x => cl_finish c2 (ct_tag x) (sf_sid fr) e | None => c2 end in
                   (c3, if cl_gone_away c3 then CDStop else CDCont)
                 | CRSNone =>
                   let c3 := match ok2 with
                             | Some x => if ended then cl_finish c2 (ct_tag x) (sf_sid fr) CENil else c2
                             | None => c2
                             end in
                   (c3, if cl_gone_away c3 then CDStop else CDCont)
                 end) -> snd X <> CDStuck).
  { intros c0 ok X ->. destruct (cl_read_stream _ _ _ _) as [[[c1 res'] ended] err]. cbv zeta.
    match goal with |- context [let '(a, b) := ?p in _] => destruct p as [ok2 err2] end.
    destruct ok2, err2; cbn [fst snd]; repeat match goal with |- context [if ?b then _ else _] => destruct b end; cbn [snd]; discriminate. }
  destruct (cl_req_find (cc_reqQueued c) (sf_sid fr)) as [tag|].
  - destruct (cl_acquire_for [] c tag (sf_sid fr)).
    + intro H. exfalso. exact (TAIL c (cl_ctx_get c tag) _ eq_refl H).
    + intro H. exfalso. exact (TAIL (cl_take_req_count c (sf_sid fr)) None _ eq_refl H).
    + intros _. reflexivity.
    + intros _. reflexivity.
  - intro H. exfalso. exact (TAIL c None _ eq_refl H).
Qed.

Lemma step_data_stuck (c : cconn) fr :
  g_rl_takes hstate c fr = true -> sf_kind fr = KData -> sf_sid fr <> 0 -> snd (cl_dispatch dec_field c fr) = CDStuck ->
  cc_rl_stuck (step c (CEvRL (RFrame fr))) = true.
Proof.
  intros T K NZ ST. unfold g_rl_takes in T. apply andb_prop in T. destruct T as [T T3]. apply andb_prop in T. destruct T as [T1 T2].
  apply N.eqb_neq in NZ. rewrite NZ, K in T3. cbn [orb fkind_eqb negb andb] in T3.
  destruct (cc_hdrStream c =? 0) eqn:HS; [|discriminate].
  cbn [cl_step]. rewrite T1. unfold cl_rl_step. apply negb_true_iff in T2. rewrite T2, NZ.
  unfold cl_rl_frame. rewrite K, HS. cbn [fkind_eqb negb andb orb].
  pose proof (dispatch_stuck c fr ST) as DS. destruct (cl_dispatch dec_field c fr) as [c2 r]. cbn [fst snd] in *. subst r. exact DS.
Qed.

Lemma step_PInv (c : cconn) e w : wire_ev e -> AInv c -> PInv c w ->
  AInv (step c e) /\ PInv (step c e) (peer_conn_window w (rtl_step c e)).
Proof.
  intros W A P. destruct (step_D hstate dec_field enc_field enc_set_max cfg c e) as (ms & M & F & _ & RD).
  assert (RO : Forall mv_rok ms) by (eapply Forall_impl; [|exact F]; intro m; apply ev_ok_rok; exact W).
  assert (WI : Forall mv_wire ms) by (eapply Forall_impl; [|exact F]; intro m; apply ev_ok_wire; exact W).
  destruct (mvs_PInv c ms _ M RO WI w A P) as [A' P']. split; [exact A'|].
  rewrite (mrl_split e ms F c), RD in P'. unfold rtl_step. rewrite (mvs_new _ _ _ _ _ _ M).
  (* the frames debited are the frames taken in, unless dispatch parked the read loop *)
  destruct e as [| | | | | | |i| | | | | |]; try exact P'. destruct i as [fr| | |]; try exact P'.
  cbn [g_rdata_in p_rdata] in *.
  destruct (g_rl_takes hstate c fr && fkind_eqb (sf_kind fr) KData && negb (sf_sid fr =? 0)) eqn:T; [|exact P'].
  destruct (snd (cl_dispatch dec_field c fr)) eqn:ST; try exact P'.
  apply andb_prop in T. destruct T as [T T3]. apply andb_prop in T. destruct T as [T1 T2].
  apply fkind_eqb_eq in T2. apply negb_true_iff, N.eqb_neq in T3.
  pose proof (step_data_stuck c fr T1 T2 T3 ST) as STK.
  cbn [map app] in P' |- *. cbn [peer_conn_window rdata_ev].
  replace (w - Z.of_N (sf_len fr))%Z with (w + - Z.of_N (sf_len fr))%Z by (clear; lia). rewrite peer_conn_window_shift.
  destruct P' as [p1 p2]. constructor; [flia|]. intros (_ & _ & X). congruence.
Qed.

Lemma PInv_from evs : Forall wire_ev evs -> forall (c : cconn) w, AInv c -> PInv c w ->
  AInv (fold_left step evs c) /\ PInv (fold_left step evs c) (peer_conn_window w (rtimeline_from c evs)).
Proof.
  induction 1 as [|e t He Ht IH]; intros c w A P; cbn [fold_left rtimeline_from]; [split; assumption|].
  rewrite peer_conn_window_app. destruct (step_PInv c e w He A P) as [A' P']. apply IH; assumption.
Qed.

Lemma PInv_init : PInv init cl_maxWindow.
Proof.
  unfold cl_init. destruct (cl_settings_deserialize false first); constructor; cc_cbn; cbn [qconn]; intros; clear; lia.
Qed.

(* C14 (client): the server's view of its connection send window, w = maxWindow + increments written - DATA sent.
   Together with the credit still waiting in c.out it never exceeds what the client accounts for (so never maxWindow,
   1 << 20); while the connection is in working order it is exactly the receive window minus that waiting credit:
   once the write loop has written what is queued the server can send at least maxWindow/2 more bytes *)
Theorem peer_connection_window evs : Forall wire_ev evs ->
  let c := run evs in
  let w := peer_conn_window cl_maxWindow (rtimeline evs) in
  (w + qconn (cc_outQ c) <= cc_currentWindow c)%Z /\ (0 <= qconn (cc_outQ c))%Z /\
  (w <= cl_maxWindow <= 2147483647)%Z /\
  (healthy c -> (w + qconn (cc_outQ c))%Z = cc_currentWindow c /\ (cc_outQ c = [] -> (cl_maxWindow / 2 <= w)%Z)).
Proof.
  intros W. cbv zeta. destruct (PInv_from evs W init cl_maxWindow AInv_init PInv_init) as [A [p1 p2]].
  fold (run evs) in *. fold (rtimeline evs) in *.
  pose proof (qconn_nonneg _ (a_q _ A)) as QN. pose proof (a_cw _ A) as CW.
  split; [exact p1|]. split; [exact QN|]. split; [unfold cl_maxWindow in *; flia|].
  intro H. split; [apply p2; exact H|]. intro E. specialize (p2 H). rewrite E in p2. cbn [qconn] in p2. flia.
Qed.

Lemma rl_step_nocredit (c : cconn) e : is_rl e -> rcredits (g_new hstate c (step c e)) = [].
Proof.
  intro R. destruct (step_D hstate dec_field enc_field enc_set_max cfg c e) as (ms & M & F & _).
  rewrite (mvs_new _ _ _ _ _ _ M). clear M. revert c. induction F as [|m t Hm Ht IH]; intro c; cbn [CliFlowOut.mitems]; [reflexivity|].
  rewrite rcredits_app, (items_rl_nocredit e m c R Hm), IH. reflexivity.
Qed.

(* every DATA frame the read loop takes in on a stream is debited with its whole length on the wire, padding
   included, whoever it is for: receive window minus the connection credit waiting in c.out goes down by sf_len *)
Theorem data_accounting (c : cconn) fr : AInv c -> sf_len fr < WLIMIT ->
  g_rl_takes hstate c fr = true -> sf_kind fr = KData -> sf_sid fr <> 0 ->
  let c' := step c (CEvRL (RFrame fr)) in
  healthy c' ->
  (cc_currentWindow c' - qconn (cc_outQ c'))%Z = (cc_currentWindow c - qconn (cc_outQ c) - Z.of_N (sf_len fr))%Z /\
  (cl_maxWindow / 2 <= cc_currentWindow c' <= cl_maxWindow)%Z.
Proof.
  intros A W T K NZ c' H.
  assert (P : PInv c (cc_currentWindow c - qconn (cc_outQ c))%Z) by (constructor; intros; clear; lia).
  destruct (step_PInv c (CEvRL (RFrame fr)) _ W A P) as [A' [p1 p2]]. fold c' in A', p1, p2.
  specialize (p2 H). unfold rtl_step in p2. rewrite (rl_step_nocredit c (CEvRL (RFrame fr)) I), app_nil_r in p2.
  cbn [p_rdata] in p2. rewrite T, K in p2. apply N.eqb_neq in NZ. rewrite NZ in p2. cbn [fkind_eqb negb andb map peer_conn_window rdata_ev] in p2.
  split; [flia | apply (a_cw _ A')].
Qed.

(* stream credit: when somebody is waiting for the response, readStream answers a DATA frame that does not end the
   stream with WINDOW_UPDATE(stream, its whole length on the wire) *)
Theorem recv_data_stream_credit (c : cconn) fr : cc_closed c = false -> sf_len fr <> 0 -> flag_has (sf_flags fr) FL_ES = false ->
  exists q, cc_outQ (recv_data c fr true) = cc_outQ c ++ COWinUpd (sf_sid fr) (Z.of_N (sf_len fr)) :: q.
Proof.
  intros CL NZ ES. unfold recv_data, cl_update_window, cl_write_out. cc_cbn.
  apply N.eqb_neq in NZ. rewrite NZ, ES. cbn [negb andb]. cc_cbn. rewrite CL. cc_cbn.
  destruct (_ <? _)%Z; cc_cbn; rewrite ?CL; cc_cbn; [eexists; rewrite <- app_assoc; reflexivity | exists []; reflexivity].
Qed.

End Recv.
