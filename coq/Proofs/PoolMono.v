(* Closed() of a connection is monotone in the pool model (Impl/ClientPool.v): a connection the client made and that
   reads as closed reads as closed in every later state, whatever events follow; so no later pickConn hands it out.
   (pl_is_closed answers true for an unknown id as well; `shut` below is the strict reading: made AND closed.) *)
From Coq Require Import List NArith Bool Lia.
From H2V Require Import Impl.ClientPool Proofs.PoolThms.
Import ListNotations.
Open Scope N_scope.

Definition shut_in (st : list pl_conn) (id : N) : bool :=
  match pl_find st id with Some c => plc_closed c | None => false end.
Definition shut (p : pool) (id : N) : bool := shut_in (pl_stat p) id.

Lemma shut_is_closed p id : shut p id = true -> pl_is_closed p id = true.
Proof. unfold shut, shut_in, pl_is_closed. destruct (pl_find (pl_stat p) id); [tauto | discriminate]. Qed.

Lemma shut_made p id : shut p id = true -> In id (map plc_id (pl_stat p)).
Proof.
  unfold shut, shut_in. destruct (pl_find (pl_stat p) id) as [c|] eqn:F; [|discriminate].
  intros _. eapply pl_find_Some_In. exact F.
Qed.

Lemma shut_set_closed st id x : shut_in st x = true -> shut_in (pl_set st id pl_mark_closed) x = true.
Proof.
  unfold shut_in. destruct (N.eq_dec x id) as [E|E].
  - subst x. rewrite (pl_find_set_same _ _ _ mark_closed_id). destruct (pl_find st id); cbn [option_map]; [reflexivity | tauto].
  - rewrite (pl_find_set_other _ _ _ _ mark_closed_id E). tauto.
Qed.

Lemma shut_set_can st id b x : shut_in st x = true -> shut_in (pl_set st id (pl_mark_can b)) x = true.
Proof.
  unfold shut_in. destruct (N.eq_dec x id) as [E|E].
  - subst x. rewrite (pl_find_set_same _ _ _ (mark_can_id b)). destruct (pl_find st id); cbn [option_map pl_mark_can plc_closed]; tauto.
  - rewrite (pl_find_set_other _ _ _ _ (mark_can_id b) E). tauto.
Qed.

Lemma shut_create p d q c o x : Inv p -> pl_create_conn p d = (q, c, o) -> shut p x = true -> shut q x = true.
Proof.
  intros I H S. destruct d; cbn [pl_create_conn] in H; inversion H; subst; clear H; unfold shut in *; cbn [pl_stat]; try exact S.
  unfold shut_in. cbn [pl_find plc_id].
  destruct (N.eqb_spec (pl_next p) x) as [E|E]; [|exact S].
  exfalso. pose proof (inv_fresh p I x (shut_made p x S)) as L. lia.
Qed.

Lemma shut_pick p d q r o x : Inv p -> pl_pick_conn p d = (q, r, o) -> shut p x = true -> shut q x = true.
Proof.
  intros I H S. unfold pl_pick_conn in H. destruct (pl_closed p) eqn:Cl; [inversion H; subst; exact S|].
  destruct (pl_walk p (pl_conns p)) as [l f] eqn:W.
  destruct f as [id|]; [inversion H; subst; exact S|].
  destruct (pl_create_conn (pl_upd_conns p l) d) as [[p2 c] o2] eqn:C. inversion H; subst.
  refine (shut_create (pl_upd_conns p l) d q c o x _ C S).
  apply Inv_upd_conns; [exact I | eapply pl_walk_NoDup; [exact W | exact (inv_nodup p I)] | intros y Hy; eapply pl_walk_sub; eassumption].
Qed.

Lemma shut_on_dropped p id d q o x : Inv p -> pl_on_dropped p id d = (q, o) -> shut p x = true -> shut q x = true.
Proof.
  intros I H S. unfold pl_on_dropped in H. destruct (pl_closed p); [inversion H; subst; exact S|].
  destruct (pl_mem (pl_conns p) id); [|inversion H; subst; exact S].
  destruct (pl_create_conn (pl_upd_conns p (pl_remove (pl_conns p) id)) d) as [[p1 c] o1] eqn:E. inversion H; subst.
  refine (shut_create _ d q c o x _ E S).
  apply Inv_upd_conns; [exact I | apply pl_remove_NoDup; exact (inv_nodup p I) | intros y Hy; eapply pl_remove_In; exact Hy].
Qed.

Lemma shut_close_all p l q o x : pl_close_all p l = (q, o) -> shut p x = true -> shut q x = true.
Proof.
  revert p q o. induction l as [|id r IH]; cbn [pl_close_all]; intros p q o H S; [inversion H; subst; exact S|].
  destruct (pl_is_closed p id); [exact (IH _ _ _ H S)|].
  destruct (pl_close_all (pl_upd_stat p (pl_set (pl_stat p) id pl_mark_closed)) r) as [p1 o1] eqn:R. inversion H; subst.
  refine (IH _ _ _ R _). unfold shut. cbn [pl_upd_stat pl_stat]. apply shut_set_closed. exact S.
Qed.

Lemma shut_step p e x : Inv p -> shut p x = true -> shut (pl_state_of (pl_step p e)) x = true.
Proof.
  intros I S. unfold pl_state_of. destruct e as [d|id b|id|id d|]; cbn [pl_step].
  - destruct (pl_pick_conn p d) as [[q r] o] eqn:H. cbn [fst]. eapply shut_pick; eassumption.
  - cbn [fst]. unfold shut. cbn [pl_upd_stat pl_stat]. apply shut_set_can. exact S.
  - destruct (pl_close_begin p id) as [q o] eqn:H. cbn [fst]. unfold pl_close_begin in H.
    destruct (pl_find (pl_stat p) id) as [c|]; [|inversion H; subst; exact S].
    destruct (plc_closed c); inversion H; subst; [exact S|]. unfold shut. cbn [pl_upd_closing pl_upd_stat pl_stat].
    apply shut_set_closed. exact S.
  - destruct (pl_close_end p id d) as [q o] eqn:H. cbn [fst]. unfold pl_close_end in H.
    destruct (pl_mem (pl_closing p) id) eqn:M; [|inversion H; subst; exact S].
    refine (shut_on_dropped (pl_upd_closing p (pl_remove (pl_closing p) id)) id d q o x _ H S).
    apply Inv_upd_closing; [exact I|]. intros y Hy. apply (inv_closing p I). eapply pl_remove_In; exact Hy.
  - destruct (pl_client_close p) as [q o] eqn:H. cbn [fst]. unfold pl_client_close in H.
    destruct (pl_closed p); [inversion H; subst; exact S|]. eapply shut_close_all; [exact H|]. exact S.
Qed.

Lemma shut_run_from p evs x : Inv p -> shut p x = true -> shut (pl_run_from p evs) x = true.
Proof.
  revert p. induction evs as [|e r IH]; intros p I S; [exact S|]. cbn [pl_run_from fold_left].
  apply IH; [apply Inv_step; exact I | apply shut_step; assumption].
Qed.

(* a connection that has been closed stays closed *)
Theorem closed_conn_stays_closed evs1 evs2 x : shut (pl_run evs1) x = true -> shut (pl_run_from (pl_run evs1) evs2) x = true.
Proof. apply shut_run_from. apply Inv_run. Qed.

Lemma run_from_app evs1 evs2 : pl_run_from (pl_run evs1) evs2 = pl_run (evs1 ++ evs2).
Proof. unfold pl_run, pl_run_from. rewrite fold_left_app. reflexivity. Qed.

(* ... and no later pickConn returns it: not from the list (it reads as closed), not as a fresh dial (its number is used) *)
Theorem closed_conn_never_picked evs1 evs2 x d q o :
  shut (pl_run evs1) x = true -> pl_pick_conn (pl_run_from (pl_run evs1) evs2) d <> (q, PRConn x, o).
Proof.
  intros S H. pose proof (closed_conn_stays_closed evs1 evs2 x S) as S2. rewrite run_from_app in *.
  destruct (pick_conn_has_room _ _ _ _ _ H) as [(_ & C & _)|(_ & _ & C & _)].
  - rewrite (shut_is_closed _ _ S2) in C. discriminate.
  - assert (S3 : shut q x = true) by (eapply shut_pick; [apply Inv_run | exact H | exact S2]).
    rewrite (shut_is_closed _ _ S3) in C. discriminate.
Qed.

(* the premise is met: connection 1 of the example run is closed; it stays so and is not picked after a further dial *)
Example ex_shut : shut (pl_run (ex_evs ++ [PEvClientClose])) 1 = true /\ shut (pl_run ex_evs) 7 = false.
Proof. vm_compute. auto. Qed.
