(* Proofs/TeardownCliLive5.v -- blocking-structure model (Impl/Teardown.v), client, S3 liveness (5): the read loop ends.
   Statements: Props/Teardown.v; overview: Proofs/TeardownProofs.v. *)
From Coq Require Import Arith Lia Bool List.
From RecordUpdate Require Import RecordSet.
Import RecordSetNotations.
Import ListNotations.
From H2V Require Import Impl.Teardown Proofs.TeardownGen Proofs.TeardownCliInv Proofs.TeardownCliInv1 Proofs.TeardownCliInv2 Proofs.TeardownCliInv3 Proofs.TeardownCliInv4 Proofs.TeardownCliLocks Proofs.TeardownCliInv5 Proofs.TeardownCliLive1 Proofs.TeardownCliGone0 Proofs.TeardownCliLive4.

Module CliL6.
Import Cli CliP CliP2 CliL CliL2 CliGd CliL5.

Ltac easy_fin ::= solve [auto | congruence | lia | tauto | (intuition congruence)
                         | (intuition (try congruence; try lia))
                         | (repeat split; eauto; try congruence; try lia)
                         | (left; repeat split; eauto; try congruence; try lia)
                         | (right; right; right; repeat split; eauto; try congruence; try lia) ].
Ltac solve_side ::= cbn; unf; rwk; rwx; cbn;
  first [ solve [repeat split; eauto; try congruence; try lia]
        | match goal with |- _ \/ _ => first [ solve [left; solve_side] | solve [right; solve_side] ] end
        | solve [timeout 10 fin] ].
Ltac stab := let s := fresh "s" in let a := fresh "a" in let I := fresh "I" in
  let H := fresh "H" in let G := fresh "G" in
  intros s a I H G; clear I; act_cases a; cbn in G; break; try lia; params; unf; rwk; cbn in *;
  try congruence; try solve [solve_side].
Ltac wunf := unfold iterQ, wl_t, wl_iter, wm, pcw in *.

Section P.
Variable cap : nat.
Hypothesis cap_pos : 1 <= cap.
Notation guard := (Cli.guard cap).
Notation reachable := (Cli.reachable cap).
Notation inv := (CliP.inv cap).
Variable r : run guard eff.
Hypothesis F : fair_run cap r.
Hypothesis R0 : reachable (st r 0).
Hypothesis NS : forall i, stalled (st r i) = false \/ dead (st r i) = true.

Notation Inv_run := (CliL2.Inv_run cap cap_pos r R0 NS).
Notation "P ~> Q" := (leadsto r P Q) (at level 70).
Notation ensures := (lt_ensures guard eff r (Inv cap) Inv_run).
Notation ensures_s := (lt_ensures_s guard eff r (Inv cap) Inv_run).
Let Fwl : sfair g_wl r := proj1 (proj2 (proj2 (proj2 F))).
Let Fbody : sfair g_body r := proj1 (proj2 (proj2 (proj2 (proj2 (proj2 (proj2 (proj2 F))))))).
Let Wwl := sfair_fair guard eff r g_wl Fwl.
Let Wbody := sfair_fair guard eff r g_body Fbody.
Notation rl_release := (CliL2.rl_release cap cap_pos r F R0 NS).

Notation done_stable := (CliL2.done_stable cap cap_pos r NS).
Notation sclosed_stable := (CliL2.sclosed_stable cap cap_pos r NS).
Let Frl : sfair g_rl r := proj1 (proj2 (proj2 (proj2 (proj2 F)))).
Let Wrl := sfair_fair guard eff r g_rl Frl.

Lemma wl_t_stable : stable guard eff (Inv cap) wl_t.
Proof. wunf; stab. Qed.

(* -- (D) with the socket closed and the write loop in its teardown, the read loop ends -- *)
Definition PD (s : state) : Prop := sclosed s = true /\ done s = true /\ wl_t s.

Lemma PD_stable : stable guard eff (Inv cap) PD.
Proof.
  intros s a I (H1 & H2 & H3) G. repeat split.
  - eapply sclosed_stable; eauto.
  - eapply done_stable; eauto.
  - eapply wl_t_stable; eauto.
Qed.

Lemma rl_step : forall n,
  (fun s => (PD s /\ rl s <> RDone) /\ rm s = n) ~> (fun s => PD s /\ rm s < n).
Proof.
  intros n. apply (ensures g_rl); auto.
  - intros s a I ((HP & Hr) & Hn) G. pose proof (PD_stable s a I HP G) as HP'.
    revert HP'. generalize (PD (eff a s)). intros PD' HP'. unfold PD, rm, rlr in *.
    clear I; act_cases a; cbn in G; break; try lia; params; unf; rwk; cbn in *; unf; xr;
      try congruence;
      first [ left; solve [solve_side] | right; solve [solve_side] | idtac ].
  - intros s a I ((HP & Hr) & Hn) Ga G. pose proof (PD_stable s a I HP G) as HP'.
    revert HP'. generalize (PD (eff a s)). intros PD' HP'. unfold PD, rm, rlr in *.
    clear I; act_cases a; cbn in Ga; try contradiction; try lia;
      cbn in G; break; try lia; params; unf; rwk; cbn in *; unf; xr; try congruence;
      try solve [solve_side].
  - intros s I (((Hs & Hd & Ht) & Hr) & Hn).
    destruct I as (I & _ & Hst). pose proof I as (I1 & I2 & _).
    assert (dead s = true) as Dd by (unfold dead; rewrite Hs; apply orb_true_r).
    destruct (rl s) eqn:E; try congruence.
    + exists RReadFail; cbn; auto.
    + exists (RIterEnd false); cbn; eauto.
    + assert (lx s = LxNone) as Hl.
      { pose proof (i_lx _ I1) as Hl. unfold rl_hold, wl_hold, wl_t in *. rewrite E in Hl.
        destruct (wl s); try contradiction; cbn in Hl; auto. }
      destruct (xdone s) eqn:Ex; [exists RAcqXFail | exists RAcqX]; cbn; auto.
    + exists (RHoldFinish false false); cbn; eauto.
    + exists RPostEnd; cbn; eauto.
    + exists RPostDone; cbn; eauto.
    + exists ROutDone; cbn; eauto.
    + exists RDeferClose; cbn; auto.
    + destruct c.
      * exists (CCasLose 1); cbn; rewrite E; repeat split; auto. apply (i_done _ I2); auto.
      * exists (CCloseDone 1); cbn; rewrite E; auto.
      * exists (CLockB 1); cbn; rewrite E; repeat split; auto.
        destruct (clock_holder cap cap_pos s 1 ltac:(lia) I) as [Hb|(h & Hw)]; auto.
        { unfold cpc; rewrite E; auto. }
        unfold wl_t in Ht; rewrite Hw in Ht; contradiction.
      * exists (CWriteRet 1); cbn; rewrite E; repeat split; auto; try lia; tauto.
Qed.

Lemma rl_finishes : PD ~> (fun s => rl s = RDone).
Proof.
  apply (lt_variant guard eff r PD (fun s => rl s = RDone) rm). intros n i (HP & Hn).
  assert (rl (st r i) = RDone \/ rl (st r i) <> RDone) as [E|E]
    by (destruct (rl (st r i)); auto; right; congruence).
  - exists i; auto.
  - destruct (rl_step n i) as (j & Hj & HP' & Hlt); [|exists j; split; auto].
    repeat split; auto; apply HP.
Qed.
End P.
End CliL6.
