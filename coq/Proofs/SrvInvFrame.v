(* Proofs/SrvInvFrame.v - frame conditions (C19): which components of the connection each loop can change.
   rl_step (the read loop) leaves every component owned by the stream loop alone; sl_frame / sl_done / sl_timer (the
   stream loop) leave the read loop's components alone. All lemmas are unconditional: forall c x, proj (f c x) = proj c. *)
From H2V Require Import Base.Bytes Base.MachineInt Base.Result Gen.GenConsts Impl.ServerConn Proofs.SrvBase
  Proofs.SrvInvMoves.
From Coq Require Import ZArith Lia.
Local Open Scope N_scope.

Section Frame.
Variable hstate : Type.
Variable dec_field : hstate -> N -> bytes -> dec_res hstate.
Variable enc_field : hstate -> bytes -> bytes -> bool -> bytes * hstate.
Variable enc_set_max : hstate -> N -> hstate.
Variable cfg : config.
Notation sconn := (sconn hstate).
Implicit Types c : sconn.

(* ---------- the read loop ---------- *)
(* everything the stream loop owns *)
Definition slview (c : sconn) :=
  (sc_strms c, sc_gone c, sc_open c, sc_initWin c, sc_ring c, sc_oldest c, sc_lastID c, sc_highestID c,
   (sc_clientWindow c, sc_currentWindow c, sc_enc c, sc_dec c, sc_sl_done c, sc_discardID c, sc_discardPrev c,
    sc_discardFields c),
   (* and what neither loop owns *)
   (sc_closer c, sc_wl_dead c, sc_now c)).

Lemma slview_emit c o : slview (emit c o) = slview c.
Proof. unfold slview. sc_rw. reflexivity. Qed.
Lemma slview_write_goaway c sid code : slview (write_goaway c sid code) = slview c.
Proof. unfold slview. sc_rw. reflexivity. Qed.
Lemma slview_rl_exit c why : slview (rl_exit c why) = slview c.
Proof. reflexivity. Qed.
Lemma slview_forward c fr : slview (forward c fr) = slview c.
Proof. unfold forward. destruct (sc_sl_done c); reflexivity. Qed.
Lemma slview_upd_expectCont c n : slview (upd_expectCont c n) = slview c.
Proof. reflexivity. Qed.

Theorem rl_step_frame c i : slview (rl_step cfg c i) = slview c.
Proof.
  unfold rl_step. destruct i as [fr| |[code|]|].
  - assert (R : forall c1 : sconn, slview c1 = slview c -> slview
      (if negb (sf_sid fr =? 0)
       then match check_frame_with_stream fr with
            | Some e => rl_exit (fst (write_error c1 None e)) 1
            | None => forward c1 fr
            end
       else match sf_kind fr with
            | KSettings => if negb (flag_has (sf_flags fr) FL_ES) then forward c1 fr else c1
            | KWinUpd => if sf_inc fr =? 0 then rl_exit (write_goaway c1 0 c_ProtocolError) 1 else forward c1 fr
            | KPing => if negb (flag_has (sf_flags fr) FL_ES) then emit c1 (OPingAck (sf_payload fr)) else c1
            | KGoAway => rl_exit c1 (if sf_code fr =? c_NoError then 0 else 4)
            | _ => rl_exit (write_goaway c1 0 c_ProtocolError) 1
            end) = slview c).
    { intros c1 H1. destruct (negb (sf_sid fr =? 0)).
      - destruct (check_frame_with_stream fr) as [e|]; [|rewrite slview_forward; assumption].
        rewrite slview_rl_exit, write_error_fst. destruct e; rewrite ?slview_write_goaway; assumption.
      - destruct (sf_kind fr); repeat match goal with |- context [if ?b then _ else _] => destruct b end;
          rewrite ?slview_rl_exit, ?slview_forward, ?slview_write_goaway, ?slview_emit; assumption. }
    destruct (negb (sc_expectCont c =? 0)).
    + destruct (_ || _)%bool; [rewrite slview_rl_exit, slview_write_goaway; reflexivity|].
      destruct (flag_has (sf_flags fr) FL_EH); apply R; reflexivity.
    + destruct (fkind_eqb (sf_kind fr) KCont); [rewrite slview_rl_exit, slview_write_goaway; reflexivity|].
      destruct (_ && _)%bool; apply R; reflexivity.
  - destruct (negb _); [rewrite slview_rl_exit, slview_write_goaway|]; reflexivity.
  - rewrite slview_rl_exit, slview_write_goaway. reflexivity.
  - reflexivity.
  - reflexivity.
Qed.

(* the read loop reads sc_lastID (under goAwayMu) and sets the shared atomics only through write_goaway *)
Theorem rl_step_closing c i : sc_closing c = true -> sc_closing (rl_step cfg c i) = true.
Proof.
  intro H.
  assert (G : forall c1 : sconn, sc_closing c1 = true -> forall sid code why,
              sc_closing (rl_exit (write_goaway c1 sid code) why) = true).
  { intros. rewrite sc_closing_rl_exit. apply sc_closing_write_goaway. }
  unfold rl_step. destruct i as [fr| |[code|]|].
  - assert (R : forall c1 : sconn, sc_closing c1 = true -> sc_closing
      (if negb (sf_sid fr =? 0)
       then match check_frame_with_stream fr with
            | Some e => rl_exit (fst (write_error c1 None e)) 1
            | None => forward c1 fr
            end
       else match sf_kind fr with
            | KSettings => if negb (flag_has (sf_flags fr) FL_ES) then forward c1 fr else c1
            | KWinUpd => if sf_inc fr =? 0 then rl_exit (write_goaway c1 0 c_ProtocolError) 1 else forward c1 fr
            | KPing => if negb (flag_has (sf_flags fr) FL_ES) then emit c1 (OPingAck (sf_payload fr)) else c1
            | KGoAway => rl_exit c1 (if sf_code fr =? c_NoError then 0 else 4)
            | _ => rl_exit (write_goaway c1 0 c_ProtocolError) 1
            end) = true).
    { intros c1 H1. destruct (negb (sf_sid fr =? 0)).
      - destruct (check_frame_with_stream fr) as [e|]; [|rewrite sc_closing_forward; assumption].
        rewrite sc_closing_rl_exit. apply sc_closing_write_error. assumption.
      - destruct (sf_kind fr); repeat match goal with |- context [if ?b then _ else _] => destruct b end;
          rewrite ?sc_closing_rl_exit, ?sc_closing_forward, ?sc_closing_emit; auto using sc_closing_write_goaway. }
    destruct (negb (sc_expectCont c =? 0)).
    + destruct (_ || _)%bool; [apply G; assumption|].
      destruct (flag_has (sf_flags fr) FL_EH); apply R; assumption.
    + destruct (fkind_eqb (sf_kind fr) KCont); [apply G; assumption|].
      destruct (_ && _)%bool; apply R; assumption.
  - destruct (negb _); [apply G|]; assumption.
  - apply G. assumption.
  - rewrite sc_closing_rl_exit. assumption.
  - rewrite sc_closing_rl_exit. assumption.
Qed.

(* ---------- the stream loop ---------- *)
(* what the read loop owns, and what neither loop owns *)
Definition rlview (c : sconn) := (sc_expectCont c, sc_rl_done c, sc_readerQ c, (sc_closer c, sc_wl_dead c, sc_now c)).

Lemma rlview_lite c c' : lite cfg c c' -> rlview c' = rlview c.
Proof. intros [H _]. unfold same_core in H. decompose [and] H. unfold rlview. congruence. Qed.
Lemma rlview_quiet c c' : quiet_core c c' -> rlview c' = rlview c.
Proof. intros [H _]. unfold same_core in H. decompose [and] H. unfold rlview. congruence. Qed.

Lemma rlview_emit c o : rlview (emit c o) = rlview c.
Proof. unfold rlview. sc_rw. reflexivity. Qed.
Lemma rlview_note c o : rlview (note c o) = rlview c.
Proof. reflexivity. Qed.
Lemma rlview_write_reset c sid code : rlview (write_reset c sid code) = rlview c.
Proof. apply rlview_emit. Qed.
Lemma rlview_write_goaway c sid code : rlview (write_goaway c sid code) = rlview c.
Proof. unfold rlview. sc_rw. reflexivity. Qed.
Lemma rlview_put c x : rlview (put c x) = rlview c.
Proof. reflexivity. Qed.
Lemma rlview_mark_closed c id w : rlview (mark_closed c id w) = rlview c.
Proof. unfold rlview. sc_rw. reflexivity. Qed.
Lemma rlview_close_stream c s : rlview (close_stream c s) = rlview c.
Proof. unfold rlview. sc_rw. reflexivity. Qed.
Lemma rlview_release_stream c s : rlview (release_stream c s) = rlview c.
Proof. unfold rlview. sc_rw. reflexivity. Qed.
Lemma rlview_brk c : rlview (fst (brk c)) = rlview c.
Proof. reflexivity. Qed.
Lemma rlview_write_error c s e : rlview (fst (write_error c s e)) = rlview c.
Proof. rewrite write_error_fst. destruct e, s; rewrite ?rlview_write_goaway, ?rlview_write_reset; reflexivity. Qed.

Lemma rlview_credit_conn_window c n : rlview (credit_conn_window cfg c n) = rlview c.
Proof.
  unfold credit_conn_window, write_window_update.
  repeat match goal with |- context [if ?b then _ else _] => destruct b end; unfold rlview; sc_rw; reflexivity.
Qed.

Lemma rlview_brk_if (b : bool) c : rlview (fst (if b then brk c else cont c)) = rlview c.
Proof. destruct b; reflexivity. Qed.

Lemma rlview_close_all ids : forall c, rlview (close_all c ids) = rlview c.
Proof.
  induction ids as [|id t IH]; intros c; cbn [close_all]; [reflexivity|].
  destruct (strms_search (sc_strms c) id); [rewrite IH, rlview_close_stream|rewrite IH]; reflexivity.
Qed.

Lemma rlview_send_data c s : rlview (fst (fst (send_data c s))) = rlview c.
Proof.
  (* send_data is lite only while the loop runs; the frame condition holds regardless: by the same induction *)
  unfold send_data.
  assert (L : forall fuel c sid n, rlview (fst (fst (fst (send_data_loop fuel c sid n)))) = rlview c).
  { induction fuel as [|fuel IH]; intros c0 sid n; cbn [send_data_loop]; [reflexivity|].
    assert (GO : forall c1 n0, rlview (fst (fst (fst
       (let avail := zmin (sn_window n0) (sc_clientWindow c1) in
        if (avail <=? 0)%Z then (c1, n0, false, false)
        else
          let step := zmin (zmin (Z.of_N maxDataFrameSize) avail) (Z.of_N (len (sn_pending n0))) in
          let chunk := takeN (Z.to_N step) (sn_pending n0) in
          let rest := dropN (Z.to_N step) (sn_pending n0) in
          let e := sn_pendingEnd n0 && match rest with [] => true | _ => false end in
          let c2 := emit c1 (OData sid e chunk) in
          let c3 := upd_clientWindow c2 (sc_clientWindow c2 - step) in
          let n' := mkSnd (sn_window n0 - step) rest (sn_pendingEnd n0) (sn_bodyStream n0) (sn_bodySize n0) (sn_bodyRead n0) in
          if e then (c3, n', true, false) else send_data_loop fuel c3 sid n')))) = rlview c1).
    { intros c1 n0. cbv zeta. destruct (_ <=? 0)%Z; [reflexivity|].
      destruct (_ && _)%bool; cbn [fst]; [|rewrite IH]; unfold rlview; sc_rw; reflexivity. }
    destruct (sn_pending n) eqn:EP.
    - destruct (sn_bodyStream n); [|reflexivity].
      destruct (refill_pending n) as [n1|].
      + destruct (sn_pending n1) eqn:EP1.
        * cbn [fst]. destruct (sn_pendingEnd n1); [apply rlview_emit | reflexivity].
        * rewrite <- EP1. apply GO.
      + cbn [fst]. apply rlview_write_reset.
    - rewrite <- EP. apply GO. }
  specialize (L (send_data_fuel (get_snd s)) c (st_id s) (get_snd s)).
  destruct (send_data_loop _ c (st_id s) (get_snd s)) as [[[c1 n1] dn] wr]. exact L.
Qed.

Lemma rlview_flush_loop ids : forall c done, rlview (fst (flush_loop c ids done)) = rlview c.
Proof.
  induction ids as [|id t IH]; intros c done; cbn [flush_loop]; [reflexivity|].
  destruct (strms_search (sc_strms c) id) as [s|]; [|apply IH].
  destruct (_ && _)%bool; [|apply IH].
  pose proof (rlview_send_data c s) as L. destruct (send_data c s) as [[c1 s1] fin]. cbn [fst] in L.
  rewrite IH, rlview_put. exact L.
Qed.

Lemma rlview_flush_streams c : rlview (flush_streams c) = rlview c.
Proof.
  unfold flush_streams. pose proof (rlview_flush_loop (map st_id (sc_strms c)) c []) as L.
  destruct (flush_loop c (map st_id (sc_strms c)) []) as [c1 done]. cbn [fst] in L. rewrite rlview_close_all. exact L.
Qed.

Lemma rlview_implicit_close fuel : forall c sid, rlview (implicit_close fuel c sid) = rlview c.
Proof.
  induction fuel as [|fuel IH]; intros c sid; cbn [implicit_close]; [reflexivity|].
  destruct (sc_strms c) as [|n t]; [reflexivity|]. destruct (_ && _)%bool; [|reflexivity].
  rewrite IH, rlview_write_reset, rlview_close_stream. reflexivity.
Qed.

Lemma rlview_close_heads n : forall c, rlview (close_heads n c) = rlview c.
Proof.
  induction n as [|n IH]; intros c; cbn [close_heads]; [reflexivity|].
  destruct (sc_strms c) as [|s t]; [reflexivity|]. rewrite IH, rlview_close_stream, rlview_write_reset. reflexivity.
Qed.

Theorem sl_timer_frame c : rlview (fst (sl_timer cfg c)) = rlview c.
Proof. unfold sl_timer. destruct (_ <=? 0)%Z; cbn [fst cont]; [reflexivity | apply rlview_close_heads]. Qed.

Lemma rlview_discard_header_block c fr : rlview (fst (discard_header_block dec_field cfg c fr)) = rlview c.
Proof. apply rlview_quiet, quiet_discard_header_block. Qed.

Lemma rlview_discard_or_break (r : sconn * option h2err) : rlview (fst (discard_or_break r)) = rlview (fst r).
Proof.
  destruct r as [c1 [e|]]; [|reflexivity]. destruct e; cbn [discard_or_break fst];
    rewrite ?rlview_brk, ?rlview_write_error, ?rlview_note; reflexivity.
Qed.

Lemma rlview_handle_frame c s fr : rlview (fst (fst (handle_frame dec_field cfg c s fr))) = rlview c.
Proof.
  (* handle_frame is lite while the loop runs; its only outputs are window updates, which keep rlview anyway *)
  unfold handle_frame. destruct (verify_state s fr); [reflexivity|].
  pose proof (rlview_quiet _ _ (quiet_handle_header_frame _ dec_field cfg c s fr)) as LH.
  match goal with |- context [match sf_kind fr with KHeaders => ?X | _ => _ end] => set (hb := X) end.
  assert (HH : rlview (fst (fst hb)) = rlview c).
  { subst hb. destruct (_ && _)%bool; [reflexivity|].
    destruct (handle_header_frame dec_field cfg c s fr) as [[c1 s1] e]. cbn [fst] in LH.
    destruct e; [exact LH|]. destruct (flag_has (sf_flags fr) FL_EH); [|exact LH].
    cbv zeta. destruct (negb _); [exact LH|]. destruct (validate_request_pseudo_headers _); exact LH. }
  clearbody hb.
  destruct (sf_kind fr); try reflexivity; try exact HH;
    repeat match goal with |- context [if ?b then _ else _] => destruct b end; cbn [fst]; try reflexivity;
    unfold consume_recv_window, credit_conn_window, write_window_update;
    repeat match goal with |- context [if ?b then _ else _] => destruct b end; unfold rlview; sc_rw; reflexivity.
Qed.

Lemma rlview_after_frame c s fr wc : rlview (fst (after_frame cfg c s fr wc)) = rlview c.
Proof.
  unfold after_frame. set (s1 := handle_state fr s). clearbody s1.
  assert (T : forall c2 s2, rlview c2 = rlview c ->
    rlview (fst (let c3 := if sstate_eqb (st_state s2) SClosed then close_stream (put c2 s2) s2 else put c2 s2 in
                 if wc && can_close_after_goaway c3 then brk c3 else cont c3)) = rlview c).
  { intros c2 s2 H2. cbv zeta. rewrite rlview_brk_if. destruct (sstate_eqb _ _); rewrite ?rlview_close_stream, rlview_put; exact H2. }
  destruct (_ && _ && _)%bool.
  - destruct (_ && _)%bool; apply T; [apply rlview_write_reset | apply rlview_note].
  - destruct (_ && _ && _)%bool; [|apply T; reflexivity].
    pose proof (rlview_send_data c s1) as L. destruct (send_data c s1) as [[c1 s2] fin]. cbn [fst] in L.
    apply T. exact L.
Qed.

Theorem sl_frame_frame c fr : rlview (fst (sl_frame dec_field enc_set_max cfg c fr)) = rlview c.
Proof.
  unfold sl_frame. destruct (sf_sid fr =? 0).
  { destruct (sf_kind fr); try reflexivity.
    - set (c0 := if sf_set_hastable fr then upd_enc c (enc_set_max (sc_enc c) (sf_set_table fr)) else c).
      assert (E0 : rlview c0 = rlview c) by (subst c0; destruct (sf_set_hastable fr); reflexivity).
      destruct (sf_set_haswin fr); [|cbn [cont fst]; rewrite rlview_emit; exact E0].
      cbv zeta. match goal with |- context [let '(aa, bb) := ?B in _] => destruct B as [lB over] end.
      destruct over; cbn [cont fst]; rewrite ?rlview_brk, ?rlview_write_goaway, ?rlview_flush_streams, ?rlview_emit; exact E0.
    - destruct (_ <? _)%Z; cbn [cont fst]; rewrite ?rlview_brk, ?rlview_write_goaway, ?rlview_flush_streams; reflexivity. }
  destruct (_ && _ && _)%bool; [rewrite rlview_discard_or_break; apply rlview_discard_header_block|].
  cbv zeta.
  (* once the stream is known *)
  assert (TL : forall c2 s, rlview c2 = rlview c -> rlview (fst
     (let '(c3, s3, e) := handle_frame dec_field cfg c2 s fr in
      match e with
      | Some e =>
        let '(c4, s4) := write_error c3 (Some s3) e in
        let s5 := match s4 with Some x => set_state x SClosed | None => set_state s3 SClosed end in
        match e with
        | EGoAway code => if negb (code =? c_NoError) then brk (put c4 s5) else after_frame cfg c4 s5 fr (sc_closing c)
        | EReset _ => after_frame cfg c4 s5 fr (sc_closing c)
        | EPanic => brk (note c3 (OPanic 1 0))
        end
      | None => after_frame cfg c3 s3 fr (sc_closing c)
      end)) = rlview c).
  { intros c2 s H2. pose proof (rlview_handle_frame c2 s fr) as L.
    destruct (handle_frame dec_field cfg c2 s fr) as [[c3 s3] e]. cbn [fst] in L. rewrite H2 in L.
    destruct e as [e|]; [|rewrite rlview_after_frame; exact L].
    pose proof (rlview_write_error c3 (Some s3) e) as LE. destruct (write_error c3 (Some s3) e) as [c4 s4]. cbn [fst] in LE.
    destruct e as [code|code|]; [destruct (negb _)| |];
      rewrite ?rlview_after_frame, ?rlview_brk, ?rlview_put, ?rlview_note; congruence. }
  assert (WK : forall c1 s, rlview c1 = rlview c -> rlview (fst
     (let pre2 : (sconn * bool) + sconn :=
        if fkind_eqb (sf_kind fr) KHeaders then
          match get_previous_headers (sc_strms c1) with
          | Some p =>
            if negb (st_headersFinished p) then
              let '(c2, p') := write_error c1 (Some p) (EGoAway c_ProtocolError) in
              inl (cont (match p' with Some p' => put c2 p' | None => c2 end))
            else inr (implicit_close (S (length (sc_strms c1))) c1 (st_id s))
          | None => inr (implicit_close (S (length (sc_strms c1))) c1 (st_id s))
          end
        else inr c1 in
      match pre2 with
      | inl r => r
      | inr c2 =>
        let '(c3, s3, e) := handle_frame dec_field cfg c2 s fr in
        match e with
        | Some e =>
          let '(c4, s4) := write_error c3 (Some s3) e in
          let s5 := match s4 with Some x => set_state x SClosed | None => set_state s3 SClosed end in
          match e with
          | EGoAway code => if negb (code =? c_NoError) then brk (put c4 s5) else after_frame cfg c4 s5 fr (sc_closing c)
          | EReset _ => after_frame cfg c4 s5 fr (sc_closing c)
          | EPanic => brk (note c3 (OPanic 1 0))
          end
        | None => after_frame cfg c3 s3 fr (sc_closing c)
        end
      end)) = rlview c).
  { intros c1 s H1. cbv zeta. destruct (fkind_eqb (sf_kind fr) KHeaders); [|apply TL; exact H1].
    destruct (get_previous_headers (sc_strms c1)) as [p|]; [|apply TL; rewrite rlview_implicit_close; exact H1].
    destruct (negb (st_headersFinished p)); [|apply TL; rewrite rlview_implicit_close; exact H1].
    cbn [write_error cont fst]. rewrite rlview_put, rlview_write_goaway. exact H1. }
  destruct (if sf_sid fr <=? sc_lastID c then strms_search (sc_strms c) (sf_sid fr) else None) as [s|].
  { apply WK. reflexivity. }
  assert (RF : forall c1 : sconn, rlview c1 = rlview c -> rlview (fst (discard_or_break (discard_header_block dec_field cfg
                 (mark_closed (write_reset c1 (sf_sid fr) c_RefusedStreamError) (sf_sid fr) true) fr))) = rlview c).
  { intros c1 H1. rewrite rlview_discard_or_break, rlview_discard_header_block, rlview_mark_closed, rlview_write_reset. exact H1. }
  destruct (fkind_eqb (sf_kind fr) KRst).
  { destruct (_ && _)%bool; cbn [cont fst]; rewrite ?rlview_write_goaway; reflexivity. }
  destruct (in_ring c (sf_sid fr)).
  { destruct (sf_kind fr); repeat match goal with |- context [if ?b then _ else _] => destruct b end; cbn [cont fst];
      rewrite ?rlview_write_goaway, ?rlview_discard_or_break, ?rlview_discard_header_block, ?rlview_credit_conn_window;
      reflexivity. }
  destruct (fkind_eqb (sf_kind fr) KPriority).
  { destruct (_ =? _); cbn [cont fst]; rewrite ?rlview_write_reset; reflexivity. }
  destruct (fkind_eqb (sf_kind fr) KHeaders); cbn [andb].
  - destruct (sf_sid fr <=? sc_highestID c); [cbn [cont fst]; rewrite rlview_write_goaway; reflexivity|].
    destruct (_ || _)%bool; [apply RF; reflexivity|].
    destruct (_ <? _); [cbn [cont fst]; rewrite rlview_write_goaway; reflexivity|].
    destruct (sc_closing _); [apply RF; reflexivity|]. apply WK. reflexivity.
  - destruct (_ <? _); [cbn [cont fst]; rewrite rlview_write_goaway; reflexivity|]. apply WK. reflexivity.
Qed.

Lemma rlview_finish_request c s r : rlview (fst (fst (finish_request enc_field c s r))) = rlview c.
Proof.
  unfold finish_request. destruct (response_block enc_field (sc_enc c) r) as [blk e'].
  destruct (negb _); cbn [fst]; [rewrite rlview_emit; reflexivity|].
  rewrite rlview_send_data, rlview_emit. reflexivity.
Qed.

Theorem sl_done_frame c sid r : rlview (fst (sl_done enc_field cfg c sid r)) = rlview c.
Proof.
  unfold sl_done. destruct (take_stream (sc_gone c) sid) as [[s rest]|].
  { cbn [cont fst]. rewrite rlview_release_stream. reflexivity. }
  destruct (strms_search (sc_strms c) sid) as [s|]; [|reflexivity].
  destruct (negb (st_handlerRunning s)); [reflexivity|].
  match goal with |- context [finish_request enc_field c ?s1 r] =>
    pose proof (rlview_finish_request c s1 r) as L; destruct (finish_request enc_field c s1 r) as [[c1 s2] fin] end.
  cbn [fst] in L. cbv zeta. rewrite rlview_brk_if. destruct fin; rewrite ?rlview_close_stream, rlview_put; exact L.
Qed.

(* ---------- at the level of events ---------- *)
Notation step := (step dec_field enc_field enc_set_max cfg).

(* an event of the read loop changes nothing the stream loop owns *)
Theorem read_loop_event_frame c i : slview (step c (EvRL i)) = slview c.
Proof. rewrite step_EvRL. destruct (sc_rl_done c); [reflexivity | apply rl_step_frame]. Qed.

Definition stream_loop_event (e : event) : Prop :=
  match e with EvSL | EvDone _ _ | EvTimer | EvCloser => True | _ => False end.

(* an event of the stream loop leaves the read loop's variables alone and at most takes the head of sc.reader *)
Theorem stream_loop_event_frame c e : stream_loop_event e ->
  sc_expectCont (step c e) = sc_expectCont c /\ sc_rl_done (step c e) = sc_rl_done c /\
  (sc_readerQ (step c e) = sc_readerQ c \/ exists fr, sc_readerQ c = fr :: sc_readerQ (step c e)).
Proof.
  assert (P : forall a b : sconn, rlview a = rlview b ->
              sc_expectCont a = sc_expectCont b /\ sc_rl_done a = sc_rl_done b /\ sc_readerQ a = sc_readerQ b).
  { unfold rlview. intros a b H. inversion H. auto. }
  destruct e; cbn [stream_loop_event]; try contradiction; intros _.
  - rewrite step_EvSL. destruct (sc_sl_done c); [auto|].
    destruct (sc_readerQ c) as [|fr q] eqn:RQ.
    + destruct (sc_rl_done c) eqn:Hr; [|rewrite RQ; auto]. cbn. rewrite RQ. auto.
    + destruct (P _ _ (sl_frame_frame (upd_readerQ c q) fr)) as (E1 & E2 & E3). rewrite E1, E2, E3.
      repeat split. right. exists fr. reflexivity.
  - rewrite step_EvDone. destruct (sc_sl_done c); [auto|].
    destruct (P _ _ (sl_done_frame c sid r)) as (E1 & E2 & E3). rewrite E1, E2, E3. auto.
  - rewrite step_EvTimer. destruct (sc_sl_done c); [auto|].
    destruct (P _ _ (sl_timer_frame c)) as (E1 & E2 & E3). rewrite E1, E2, E3. auto.
  - rewrite step_EvCloser. destruct (_ && _)%bool; auto.
Qed.

End Frame.
