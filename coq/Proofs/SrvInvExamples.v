(* Proofs/SrvInvExamples.v - the instance with the real HPACK coder, and concrete event lists for the Examples of
   Props/C13.v, C10.v, C17.v, C19.v. *)
From H2V Require Import Base.Bytes Base.MachineInt Base.Result Gen.GenConsts Impl.Hpack Impl.ServerConn Impl.ServerInst
  Proofs.SrvBase Proofs.SrvInvMoves Proofs.SrvInvDecomp Proofs.SrvInvSteps Proofs.SrvInvSlots Proofs.SrvInvOut
  Proofs.SrvInvOwn Proofs.SrvInvGoAway Proofs.HpackTotal.
From Coq Require Import ZArith Lia.
Local Open Scope N_scope.

(* the HPACK decoder of the instance never panics (C03_next_field_no_panic) *)
Lemma srv_dec_field_no_panic hp n b : srv_dec_field hp n b <> DPanic hpack_state.
Proof.
  unfold srv_dec_field. pose proof (next_field_no_panic hp empty_field true n b) as H.
  destruct (nf_res (next_field hp empty_field true n b)) as [[rest [|]]|e|w]; try discriminate.
  destruct (e =? E_unexpected_size); discriminate.
Qed.

(* ---------- a connection with two slots ---------- *)
Definition cfgx : config := mkCfg 2 4096 1000 0 65535.
(* HEADERS: :method GET, :path /, :scheme https *)
Definition fH (sid fl : N) : sframe := mkSFrame KHeaders fl sid 3 [0x82; 0x84; 0x87] 0 0 0 false 0 false 0.
Definition fRst (sid code : N) : sframe := mkSFrame KRst 0 sid 4 [] 0 code 0 false 0 false 0.
Definition fData (sid fl : N) (b : bytes) : sframe := mkSFrame KData fl sid (len b) b 0 0 0 false 0 false 0.
Definition fSettings : sframe := mkSFrame KSettings 0 0 0 [] 0 0 0 false 4096 false 0.
Definition resp200 : response := mkResp 200 [] (BBuffered [104; 105]).

Definition evs_slots : list event :=
  [EvRL (RFrame fSettings); EvSL;
   EvRL (RFrame (fH 1 5)); EvSL;           (* request 1: dispatched *)
   EvRL (RFrame (fH 3 5)); EvSL;           (* request 3: dispatched *)
   EvRL (RFrame (fH 5 5)); EvSL;           (* refused: both slots taken *)
   EvRL (RFrame (fRst 1 8)); EvSL;         (* the peer cancels 1 while its handler runs: the slot is kept *)
   EvRL (RFrame (fH 7 5)); EvSL].          (* still refused *)
Definition evs_full : list event :=
  evs_slots ++
  [EvDone 1 resp200;                       (* the handler of 1 returns: released now *)
   EvDone 3 resp200;                       (* the response of 3 goes out, 3 is released *)
   EvRL (RFrame (fData 9 0 [1; 2; 3])); EvSL;  (* DATA on an idle stream: GOAWAY(3, PROTOCOL_ERROR), the loop ends *)
   EvRL RLEof; EvSL].

Definition rq_get : request := mkReq [71; 69; 84] [47] [104; 116; 116; 112; 115] None [] [].

(* C17 (a) for the instance: the hypothesis of no_panic is C03's theorem *)
Theorem srv_no_panic cfg evs who why :
  ~ In (OPanic who why) (srv_trace (srv_run cfg evs)) /\ ~ In (OLate (OPanic who why)) (srv_trace (srv_run cfg evs)).
Proof. apply (no_panic hpack_state srv_dec_field srv_enc_field set_max_table_size cfg srv_init_hpack evs srv_dec_field_no_panic). Qed.

(* a POST with a body: HEADERS (:method POST, :path /, :scheme https) without END_STREAM, then DATA with END_STREAM *)
Definition fHpost (sid fl : N) : sframe := mkSFrame KHeaders fl sid 3 [0x83; 0x84; 0x87] 0 0 0 false 0 false 0.
Definition evs_post : list event :=
  [EvRL (RFrame (fHpost 1 4)); EvSL; EvRL (RFrame (fData 1 1 [1; 2; 3])); EvSL].
Definition rq_post : request := mkReq [80; 79; 83; 84] [47] [104; 116; 116; 112; 115] None [] [1; 2; 3].
