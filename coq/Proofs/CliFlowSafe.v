(* Proofs/CliFlowSafe.v - C07 (a): the client's DATA frames against the server's ledger of Spec/FlowLedger.v.
   Sim c L relates a state of the client to the ledger the server keeps: the client's windows are never above
   the ledger's. It is closed under the moves of Proofs/CliFlowMoves.v while the server's grants keep every
   window at or below 2^31-1 (LB), so every run is a valid history. *)
From H2V Require Import Base.Bytes Base.MachineInt Base.Result Gen.GenConsts Impl.ServerConn Impl.ClientConn
     Proofs.CliDefs Spec.FlowLedger Proofs.SrvFlowLedger Proofs.CliFlowMoves Proofs.CliFlowOut Proofs.CliFlowSettings.
From Coq Require Import ZArith Lia ZifyN ZifyNat ZifyBool List Bool.
Import ListNotations.
Local Open Scope N_scope.
Set Default Proof Using "Type".

Definition MAXW : Z := 2147483647.

(* what the frames written mean to the ledger: HEADERS opens the stream, DATA spends payload bytes *)
Definition ledger_out (items : list coutev) : list levent :=
  flat_map (fun o => match o with
                     | COHeaders sid _ _ => [LOpen sid]
                     | COData sid _ p => [LData sid (Z.of_N (len p))]
                     | _ => []
                     end) items.

Lemma ledger_out_app a b : ledger_out (a ++ b) = ledger_out a ++ ledger_out b.
Proof. apply flat_map_app. Qed.

(* the server keeps its own side of RFC 7540 6.9.1: no window above 2^31-1 *)
Definition LB (L : ledger) : Prop :=
  (l_conn L <= MAXW)%Z /\ forall sid w, l_strm L sid = Some w -> (w <= MAXW)%Z.
Definition GOK (L : ledger) (h : list levent) : Prop := forall pre post, h = pre ++ post -> LB (lrun L pre).

Lemma GOK_nil L h : GOK L h -> LB L.
Proof. intro G. apply (G [] h). reflexivity. Qed.

Lemma GOK_app L a b : GOK L (a ++ b) -> GOK L a /\ GOK (lrun L a) b.
Proof.
  intro G. split.
  - intros pre post E. apply (G pre (post ++ b)). rewrite E, <- app_assoc. reflexivity.
  - intros pre post E. rewrite <- lrun_app. apply (G (a ++ pre) post). rewrite E, <- app_assoc. reflexivity.
Qed.

Lemma GOK_pre L a b : GOK L (a ++ b) -> LB (lrun L a).
Proof. intro G. apply (G a b). reflexivity. Qed.

(* ---------- SETTINGS_INITIAL_WINDOW_SIZE: payload, Settings.Read and the ledger ---------- *)

(* the window part of a settings value *)
Definition win_of (st : csettings) : option Z := if cs_hasWin st then Some (Z.of_N (cs_window st)) else None.
Definition last_init_opt (l : list levent) (cur : option Z) : option Z :=
  fold_left (fun a e => match e with LInit v => Some v | _ => a end) l cur.

Lemma settings_apply_win st k v st' : cl_settings_apply st k v = Some st' ->
  win_of st' = (if k =? c_MaxWindowSize then Some (Z.of_N v) else win_of st) /\
  (k =? c_MaxWindowSize = true -> v <= 2147483647).
Proof.
  unfold cl_settings_apply, win_of. cbn [cs_table cs_push cs_streams cs_window cs_frame cs_hdr cs_hasWin cs_present].
  change c_HeaderTableSize with 1. change c_EnablePush with 2. change c_MaxConcurrentStreams with 3.
  change c_MaxWindowSize with 4. change c_MaxFrameSize with 5. change c_MaxHeaderListSize with 6.
  destruct (k =? 1) eqn:K1; [apply N.eqb_eq in K1; subst k; intro H; inversion H; subst; cbn; split; [reflexivity | discriminate]|].
  destruct (k =? 2) eqn:K2.
  { apply N.eqb_eq in K2; subst k. destruct (_ && _); [discriminate|]. intro H; inversion H; subst; cbn; split; [reflexivity | discriminate]. }
  destruct (k =? 3) eqn:K3; [apply N.eqb_eq in K3; subst k; intro H; inversion H; subst; cbn; split; [reflexivity | discriminate]|].
  destruct (k =? 4) eqn:K4.
  { destruct (2147483647 <? v) eqn:V; [discriminate|]. apply N.ltb_ge in V.
    intro H; inversion H; subst; cbn. split; [reflexivity | intros _; exact V]. }
  destruct (k =? 5) eqn:K5.
  { destruct (_ || _); [discriminate|]. intro H; inversion H; subst; cbn; split; [reflexivity | discriminate]. }
  destruct (k =? 6) eqn:K6; intro H; inversion H; subst; cbn; split; try reflexivity; discriminate.
Qed.

Definition win_small (o : option Z) : Prop := match o with Some v => (0 <= v <= 2147483647)%Z | None => True end.

Lemma settings_read_win d : forall st st', cl_settings_read d st = Some st' ->
  win_of st' = last_init_opt (inits_of d) (win_of st) /\ (win_small (win_of st) -> win_small (win_of st')).
Proof.
  induction d as [d Hs|k1 k0 v3 v2 v1 v0 rest IH] using bytes6_ind; intros st st'.
  - unfold inits_of. rewrite settings_read_short, settings_pairs_short by assumption. intro H. inversion H; subst. split; [reflexivity | auto].
  - unfold inits_of. cbn [cl_settings_read settings_pairs flat_map fst snd].
    destruct (cl_settings_apply st _ _) as [st1|] eqn:A; [|discriminate]. intro R.
    apply settings_apply_win in A. destruct A as [A1 A2]. destruct (IH _ _ R) as [I1 I2].
    fold (inits_of rest). unfold last_init_opt in *. rewrite fold_left_app. split.
    + rewrite I1, A1. destruct (_ =? c_MaxWindowSize); reflexivity.
    + intro B. apply I2. rewrite A1. destruct (_ =? c_MaxWindowSize) eqn:E; [|exact B].
      cbn [win_small]. specialize (A2 eq_refl). lia.
Qed.

(* the same on the ledger's side *)
Definition is_linit (e : levent) : Prop := match e with LInit _ => True | _ => False end.
Definition last_init (l : list levent) (cur : Z) : Z :=
  fold_left (fun a e => match e with LInit v => v | _ => a end) l cur.

Lemma lrun_inits l : Forall is_linit l -> forall L,
  l_init (lrun L l) = last_init l (l_init L) /\ l_conn (lrun L l) = l_conn L /\
  forall x, l_strm (lrun L l) x =
            match l_strm L x with Some w => Some (w + (last_init l (l_init L) - l_init L))%Z | None => None end.
Proof.
  induction 1 as [|e t He Ht IH]; intro L.
  - cbn. split; [reflexivity|]. split; [reflexivity|]. intro x. destruct (l_strm L x); [f_equal; lia | reflexivity].
  - destruct e as [v| | |]; try contradiction. rewrite lrun_cons. destruct (IH (lstep L (LInit v))) as (A & B & C).
    unfold last_init in *. cbn [fold_left]. cbn [lstep l_init l_conn l_strm] in A, B, C.
    split; [exact A|]. split; [exact B|]. intro x. rewrite C. destruct (l_strm L x); [f_equal; lia | reflexivity].
Qed.

Lemma lvalid_linits l : Forall is_linit l -> forall L, lvalid L l.
Proof. induction 1 as [|e t He Ht IH]; intro L; cbn [lvalid]; [exact I|]. split; [destruct e; try contradiction; exact I | apply IH]. Qed.

Lemma inits_of_linit d : Forall is_linit (inits_of d).
Proof.
  unfold inits_of. induction (settings_pairs d) as [|[k v] t IH]; cbn [flat_map fst snd]; [constructor|].
  destruct (k =? c_MaxWindowSize); cbn [app]; [constructor; [exact I | exact IH] | exact IH].
Qed.

Lemma last_init_opt_some l : Forall is_linit l -> forall a, last_init_opt l (Some a) = Some (last_init l a).
Proof. induction 1 as [|e t He Ht IH]; intro a; [reflexivity|]. destruct e; try contradiction. cbn. apply IH. Qed.

Lemma last_init_spec l : Forall is_linit l -> forall cur,
  last_init l cur = match last_init_opt l None with Some v => v | None => cur end.
Proof.
  destruct 1 as [|e t He Ht]; intro cur; [reflexivity|]. destruct e; try contradiction.
  unfold last_init, last_init_opt. cbn [fold_left]. fold (last_init_opt t (Some v)). rewrite last_init_opt_some by assumption. reflexivity.
Qed.

Lemma last_init_opt_none l : Forall is_linit l -> last_init_opt l None = None -> l = [].
Proof.
  destruct 1 as [|e t He Ht]; [reflexivity|]. destruct e; try contradiction.
  unfold last_init_opt. cbn [fold_left]. fold (last_init_opt t (Some v)). rewrite last_init_opt_some by assumption. discriminate.
Qed.

Lemma deserialize_win payload st : cl_settings_deserialize false payload = Some st ->
  win_of st = last_init_opt (inits_of payload) None /\ win_small (win_of st).
Proof.
  unfold cl_settings_deserialize. destruct (negb _); [discriminate|]. cbn [andb]. intro R.
  apply settings_read_win in R. destruct R as [A B]. split; [exact A | apply B; exact I].
Qed.

(* ---------- bytes ---------- *)

Lemma len_takeN k (b : bytes) : len (takeN k b) = N.min k (len b).
Proof. unfold len, takeN. rewrite firstn_length. lia. Qed.
Lemma len_dropN k (b : bytes) : len (dropN k b) = len b - k.
Proof. unfold len, dropN. rewrite skipn_length. lia. Qed.
Lemma takeN_dropN k (b : bytes) : takeN k b ++ dropN k b = b.
Proof. apply firstn_skipn. Qed.
Lemma len_nil_iff (b : bytes) : len b = 0 <-> b = [].
Proof. unfold len. destruct b; cbn [length]; split; intro H; try reflexivity; try discriminate; lia. Qed.

(* ---------- a run of DATA frames against the ledger ---------- *)

Lemma data_frames_led fuel : forall sid step body endb L w,
  l_strm L sid = Some w -> (0 < len body -> (Z.of_N (len body) <= l_conn L)%Z /\ (Z.of_N (len body) <= w)%Z) -> 0 < step ->
  let h := ledger_out (cl_data_frames fuel sid step body endb) in
  lvalid L h /\ l_conn (lrun L h) = (l_conn L - Z.of_N (len body))%Z /\ l_init (lrun L h) = l_init L /\
  l_strm (lrun L h) sid = Some (w - Z.of_N (len body))%Z /\ forall x, x <> sid -> l_strm (lrun L h) x = l_strm L x.
Proof.
  assert (ONE : forall sid body endb L w,
             l_strm L sid = Some w -> (0 < len body -> (Z.of_N (len body) <= l_conn L)%Z /\ (Z.of_N (len body) <= w)%Z) ->
             let h := ledger_out [COData sid endb body] in
             lvalid L h /\ l_conn (lrun L h) = (l_conn L - Z.of_N (len body))%Z /\ l_init (lrun L h) = l_init L /\
             l_strm (lrun L h) sid = Some (w - Z.of_N (len body))%Z /\ forall x, x <> sid -> l_strm (lrun L h) x = l_strm L x).
  { intros sid body endb L w S C. cbn [ledger_out flat_map app lvalid lrun fold_left lstep lallowed]. rewrite S.
    cbn [l_conn l_init l_strm]. split; [split; [|exact I]; exists w; split; [reflexivity|]; destruct (N.eq_dec (len body) 0); [left; lia | right; lia]|].
    split; [reflexivity|]. split; [reflexivity|]. split; [apply strm_upd_same | intros x NE; apply strm_upd_other; exact NE]. }
  induction fuel as [|fuel IH]; intros sid step body endb L w S C ST; cbn [cl_data_frames]; [apply ONE; assumption|].
  destruct (len body <=? step) eqn:E; [apply ONE; assumption|]. apply N.leb_gt in E.
  cbn [ledger_out flat_map]. fold (ledger_out (cl_data_frames fuel sid step (dropN step body) endb)).
  cbn [app lvalid]. rewrite lrun_cons.
  assert (LT : len (takeN step body) = step) by (rewrite len_takeN; lia).
  assert (LD : len (dropN step body) = len body - step) by apply len_dropN.
  set (L1 := lstep L (LData sid (Z.of_N (len (takeN step body))))).
  assert (S1 : l_strm L1 sid = Some (w - Z.of_N step)%Z).
  { subst L1. cbn [lstep]. rewrite S. cbn [l_strm]. rewrite LT. apply strm_upd_same. }
  assert (C1 : l_conn L1 = (l_conn L - Z.of_N step)%Z) by (subst L1; cbn [lstep l_conn]; rewrite LT; reflexivity).
  destruct (IH sid step (dropN step body) endb L1 (w - Z.of_N step)%Z S1) as (V & A & B & Cc & Dd); [lia | exact ST|].
  split; [split; [|exact V]|].
  - cbn [lallowed]. exists w. split; [exact S|]. right. lia.
  - split; [rewrite A, C1; lia|]. split; [rewrite B; reflexivity|]. split; [rewrite Cc; f_equal; lia|].
    intros x NE. rewrite Dd by exact NE. subst L1. cbn [lstep]. rewrite S. cbn [l_strm]. apply strm_upd_other. exact NE.
Qed.

Lemma write_data_led mf sid body endb L w :
  l_strm L sid = Some w -> (0 < len body -> (Z.of_N (len body) <= l_conn L)%Z /\ (Z.of_N (len body) <= w)%Z) ->
  let h := ledger_out (cl_write_data mf sid body endb) in
  lvalid L h /\ l_conn (lrun L h) = (l_conn L - Z.of_N (len body))%Z /\ l_init (lrun L h) = l_init L /\
  l_strm (lrun L h) sid = Some (w - Z.of_N (len body))%Z /\ forall x, x <> sid -> l_strm (lrun L h) x = l_strm L x.
Proof.
  intros S C. cbv zeta. unfold cl_write_data.
  match goal with |- context [if ?b then c_defaultDataFrameSize else mf] => set (step := if b then c_defaultDataFrameSize else mf) end.
  assert (ST : 0 < step).
  { subst step. destruct (mf =? 0) eqn:E; cbn [orb]; [reflexivity|]. apply N.eqb_neq in E.
    destruct (c_maxFrameSize <? mf); [reflexivity | lia]. }
  destruct body as [|b0 bt].
  - destruct endb.
    + cbn [ledger_out flat_map app lvalid lrun fold_left lstep lallowed len length]. rewrite S. cbn [l_conn l_init l_strm].
      split; [split; [|exact I]; exists w; split; [reflexivity | left; reflexivity]|].
      split; [cbn; lia|]. split; [reflexivity|]. split; [rewrite strm_upd_same; f_equal; cbn; lia|].
      intros x NE; apply strm_upd_other; exact NE.
    + cbn. rewrite S. split; [exact I|]. split; [lia|]. split; [reflexivity|]. split; [f_equal; lia | reflexivity].
  - apply data_frames_led; assumption.
Qed.

(* ---------- the simulation ---------- *)

(* the frames that go through c.out *)
Definition qclass (o : coutev) : Prop := match o with COHeaders _ _ _ | COData _ _ _ => False | _ => True end.

Lemma ledger_out_qclass l : Forall qclass l -> ledger_out l = [].
Proof. induction 1 as [|o t Ho Ht IH]; [reflexivity|]. cbn [ledger_out flat_map]. fold (ledger_out t). rewrite IH. destruct o; try contradiction; reflexivity. Qed.

Section Sim.
Variable hstate : Type.
Variable enc_field : hstate -> bytes -> bytes -> bool -> bytes * hstate.
Variable enc_set_max : hstate -> N -> hstate.
Notation cconn := (cconn hstate).
Notation move := (move hstate).
Notation apply := (apply hstate enc_field enc_set_max).
Notation valid := (valid hstate).
Notation items := (items hstate).

Record Sim (c : cconn) (L : ledger) : Prop := mkSim {
  sim_init : l_init L = cc_streamWindow c;
  sim_sw : (0 <= cc_streamWindow c <= MAXW)%Z;
  sim_conn : (0 <= cc_connWindow c <= l_conn L)%Z;
  sim_nodup : NoDup (map pb_id (cc_pending c));
  sim_ids : forall pb, In pb (cc_pending c) -> pb_id pb < cc_nextID c;
  sim_fresh : forall sid w, l_strm L sid = Some w -> sid < cc_nextID c;
  sim_pend : forall pb, In pb (cc_pending c) ->
             exists w, l_strm L (pb_id pb) = Some w /\ (pb_window pb <= w)%Z /\ (cc_streamWindow c - MAXW <= pb_window pb)%Z;
  sim_q : Forall qclass (cc_outQ c)
}.

(* the history a move stands for: the grants it applies, then the frames it writes *)
Definition lof (m : move) (c : cconn) : list levent := grants_of m ++ ledger_out (items m c).

(* WINDOW_UPDATE increments are not negative (they are 31-bit numbers on the wire) *)
Definition mv_pos (m : move) : Prop := match m with MAddWindow _ inc => (0 <= inc)%Z | _ => True end.

Lemma Sim_same (c c' : cconn) L :
  cc_streamWindow c' = cc_streamWindow c -> cc_connWindow c' = cc_connWindow c -> cc_pending c' = cc_pending c ->
  cc_nextID c' = cc_nextID c -> (Forall qclass (cc_outQ c) -> Forall qclass (cc_outQ c')) -> Sim c L -> Sim c' L.
Proof.
  intros A B C D E [s1 s2 s3 s4 s5 s6 s7 s8]. constructor; rewrite ?A, ?B, ?C, ?D; auto.
Qed.

Lemma refill_same pb pb' : cl_refill pb = Some pb' -> pb_id pb' = pb_id pb /\ pb_window pb' = pb_window pb.
Proof.
  unfold cl_refill. destruct (pb_stream pb) as [reads|]; [|intro H; inversion H; split; reflexivity].
  destruct reads as [|[ch e] t].
  - cbn [cl_is_nil]. intro H. inversion H. destruct (_ && _)%Z; split; reflexivity.
  - destruct e.
    + destruct (cl_is_nil ch); [discriminate|]. intro H. inversion H. destruct (_ && _)%Z; split; reflexivity.
    + intro H. inversion H. destruct (cl_is_nil ch); destruct (_ && _)%Z; split; reflexivity.
    + discriminate.
Qed.

Lemma LB_sub L L' : LB L -> (l_conn L' <= l_conn L)%Z ->
  (forall sid w', l_strm L' sid = Some w' -> exists w, l_strm L sid = Some w /\ (w' <= w)%Z) -> LB L'.
Proof.
  intros [A B] C D. split; [unfold MAXW in *; flia|]. intros sid w' H. destruct (D _ _ H) as (w & E & F).
  specialize (B _ _ E). flia.
Qed.

(* WINDOW_UPDATE *)
Lemma add_window_Sim (c : cconn) L sid inc : (0 <= inc)%Z -> Sim c L -> LB (lstep L (LGrant sid inc)) ->
  Sim (cl_add_window c sid inc) (lstep L (LGrant sid inc)).
Proof.
  intros P [s1 s2 s3 s4 s5 s6 s7 s8] [B1 B2]. unfold cl_add_window, cl_signal_window.
  destruct (sid =? 0) eqn:S0.
  - cbn [lstep] in *. rewrite S0 in *. cbn [l_conn l_strm l_init] in *.
    constructor; cc_cbn; cbn [l_conn l_strm l_init]; auto.
    rewrite cl_i32_id; unfold MAXW in *; flia.
  - apply N.eqb_neq in S0. destruct (cl_pend_get (cc_pending c) sid) as [pb|] eqn:G.
    + destruct (pend_get_In _ _ _ G) as [HI EI]. destruct (s7 pb HI) as (w & W1 & W2 & W3). rewrite EI in W1.
      cbn [lstep] in *. rewrite (proj2 (N.eqb_neq sid 0) S0) in *. rewrite W1 in *. cbn [l_conn l_strm l_init] in *.
      assert (WB : (w + inc <= MAXW)%Z) by (apply (B2 sid); apply strm_upd_same).
      assert (I32 : cl_i32 (pb_window pb + inc) = (pb_window pb + inc)%Z) by (apply cl_i32_id; unfold MAXW in *; flia).
      constructor; cc_cbn; cbn [l_conn l_strm l_init]; auto.
      * rewrite pend_put_ids. exact s4.
      * intros p HP. apply (pend_put_In _ _ _ s4) in HP. destruct HP as [->|[HP _]]; [cbn [pb_id pbu_window]; apply s5; exact HI | apply s5; exact HP].
      * intros x wx. unfold strm_upd. destruct (x =? sid) eqn:E; [apply N.eqb_eq in E; subst x; intros _; apply (s6 _ _ W1) | apply s6].
      * intros p HP. apply (pend_put_In _ _ _ s4) in HP. destruct HP as [->|[HP NE]].
        -- cbn [pb_id pb_window pbu_window]. rewrite EI, strm_upd_same, I32. exists (w + inc)%Z. split; [reflexivity|]. flia.
        -- cbn [pb_id pbu_window] in NE. rewrite EI in NE. rewrite strm_upd_other by exact NE. apply s7. exact HP.
    + cbn [lstep]. rewrite (proj2 (N.eqb_neq sid 0) S0).
      assert (PN : forall p, In p (cc_pending c) -> pb_id p <> sid) by (apply pend_get_None; exact G).
      destruct (l_strm L sid) as [w|] eqn:W1.
      * constructor; cc_cbn; cbn [l_conn l_strm l_init]; auto.
        -- intros x wx. unfold strm_upd. destruct (x =? sid) eqn:E; [apply N.eqb_eq in E; subst x; intros _; apply (s6 _ _ W1) | apply s6].
        -- intros p HP. rewrite strm_upd_other by (apply PN; exact HP). apply s7. exact HP.
      * constructor; cc_cbn; auto.
Qed.

Lemma write_out_Sim (c : cconn) L o : qclass o -> Sim c L -> Sim (cl_write_out c o) L.
Proof.
  intros Q S. unfold cl_write_out. destruct (cc_closed c); [exact S|].
  apply (Sim_same c); try reflexivity; [|exact S]. cc_cbn. intro H. apply Forall_app. split; [exact H | repeat constructor; exact Q].
Qed.

(* SETTINGS *)
Lemma settings_Sim (c : cconn) L payload st :
  cl_settings_deserialize false payload = Some st -> Sim c L -> LB (lrun L (inits_of payload)) ->
  Sim (cl_handle_settings c st) (lrun L (inits_of payload)).
Proof.
  intros DS [s1 s2 s3 s4 s5 s6 s7 s8] [B1 B2].
  destruct (deserialize_win _ _ DS) as [WO WS].
  pose proof (inits_of_linit payload) as AL.
  unfold cl_handle_settings. apply write_out_Sim; [exact I|]. unfold win_of in WO, WS.
  set (c1 := ccu_maxFrame _ _). set (c2 := if cl_settings_has st c_HeaderTableSize then _ else c1).
  assert (F2 : cc_streamWindow c2 = cc_streamWindow c /\ cc_connWindow c2 = cc_connWindow c /\ cc_pending c2 = cc_pending c /\
               cc_nextID c2 = cc_nextID c /\ cc_outQ c2 = cc_outQ c).
  { subst c2 c1. destruct (cl_settings_has st c_HeaderTableSize); repeat split. }
  destruct F2 as (F21 & F22 & F23 & F24 & F25). clearbody c2. clear c1.
  destruct (cs_hasWin st) eqn:HW.
  - (* SETTINGS_INITIAL_WINDOW_SIZE *)
    cbn [win_small] in WS.
    destruct (lrun_inits _ AL L) as (LI & LC & LS).
    rewrite (last_init_spec _ AL), <- WO in LI, LS. set (v := Z.of_N (cs_window st)) in *.
    assert (IV : cl_i32 v = v) by (apply cl_i32_id; flia).
    assert (ID : cl_i32 (v - cc_streamWindow c) = (v - cc_streamWindow c)%Z) by (apply cl_i32_id; unfold MAXW in *; flia).
    unfold cl_apply_initial_window, cl_signal_window. rewrite IV. cc_cbn. rewrite F21, F23, ID.
    set (L' := lrun L (inits_of payload)) in *.
    assert (PW : forall pb, In pb (cc_pending c) ->
                 exists w, l_strm L (pb_id pb) = Some w /\ (pb_window pb <= w)%Z /\ (cc_streamWindow c - MAXW <= pb_window pb)%Z /\
                           cl_i32 (pb_window pb + (v - cc_streamWindow c)) = (pb_window pb + (v - cc_streamWindow c))%Z).
    { intros pb HI. destruct (s7 pb HI) as (w & W1 & W2 & W3). exists w. split; [exact W1|]. split; [exact W2|]. split; [exact W3|].
      assert (WB : (w + (v - l_init L) <= MAXW)%Z) by (apply (B2 (pb_id pb)); rewrite LS, W1; reflexivity).
      apply cl_i32_id. unfold MAXW in *. rewrite s1 in WB. flia. }
    constructor; cc_cbn.
    + exact LI.
    + unfold MAXW. flia.
    + rewrite F22, LC. exact s3.
    + rewrite map_map. cbn [pb_id pbu_window]. exact s4.
    + rewrite F24. intros p HP. apply in_map_iff in HP. destruct HP as (q & <- & HQ). cbn [pb_id pbu_window]. apply s5. exact HQ.
    + rewrite F24. intros x wx HX. rewrite LS in HX. destruct (l_strm L x) eqn:E; [|discriminate]. eapply s6. exact E.
    + intros p HP. apply in_map_iff in HP. destruct HP as (q & <- & HQ). cbn [pb_id pb_window pbu_window].
      destruct (PW q HQ) as (w & W1 & W2 & W3 & W4). rewrite W4, LS, W1. exists (w + (v - l_init L))%Z. split; [reflexivity|].
      rewrite s1. flia.
    + rewrite F25. exact s8.
  - (* no window in this frame *)
    assert (E : inits_of payload = []) by (apply last_init_opt_none; [exact AL | symmetry; exact WO]).
    rewrite E. cbn [lrun fold_left].
    apply (Sim_same c); try assumption; [rewrite F25; auto | constructor; assumption].
Qed.

(* one critical section of sendPending and the DATA run it decides *)
Lemma cs_n_facts (c : cconn) pb :
  (0 <= cs_n c pb <= Z.of_N (len (pb_body pb)))%Z /\
  ((0 < cs_n c pb)%Z -> (cs_n c pb <= pb_window pb)%Z /\ (cs_n c pb <= cc_connWindow c)%Z).
Proof.
  unfold cs_n, cl_zmin.
  destruct (Z.of_N (len (pb_body pb)) <? pb_window pb)%Z eqn:A; [apply Z.ltb_lt in A | apply Z.ltb_ge in A].
  - destruct (Z.of_N (len (pb_body pb)) <? cc_connWindow c)%Z eqn:B; [apply Z.ltb_lt in B | apply Z.ltb_ge in B].
    + destruct (Z.of_N (len (pb_body pb)) <? 0)%Z eqn:C; [apply Z.ltb_lt in C | apply Z.ltb_ge in C]; flia.
    + destruct (cc_connWindow c <? 0)%Z eqn:C; [apply Z.ltb_lt in C | apply Z.ltb_ge in C]; flia.
  - destruct (pb_window pb <? cc_connWindow c)%Z eqn:B; [apply Z.ltb_lt in B | apply Z.ltb_ge in B].
    + destruct (pb_window pb <? 0)%Z eqn:C; [apply Z.ltb_lt in C | apply Z.ltb_ge in C]; flia.
    + destruct (cc_connWindow c <? 0)%Z eqn:C; [apply Z.ltb_lt in C | apply Z.ltb_ge in C]; flia.
Qed.

Lemma cs_chunk_len (c : cconn) pb : Z.of_N (len (cs_chunk c pb)) = cs_n c pb.
Proof. unfold cs_chunk. rewrite len_takeN. pose proof (cs_n_facts c pb) as [A _]. flia. Qed.

Lemma send_Sim (c : cconn) L id wr pb :
  cl_pend_get (cc_pending c) id = Some pb -> Sim c L -> LB L ->
  let h := ledger_out (items (MSend id wr) c) in
  lvalid L h /\ Sim (apply (MSend id wr) c) (lrun L h).
Proof.
  intros G [s1 s2 s3 s4 s5 s6 s7 s8] [B1 B2]. cbv zeta. cbn [items apply]. rewrite G.
  destruct (pend_get_In _ _ _ G) as [HI EI]. destruct (s7 pb HI) as (w & W1 & W2 & W3). rewrite EI in W1.
  pose proof (cs_n_facts c pb) as [N1 N2]. pose proof (cs_chunk_len c pb) as CL.
  pose proof (B2 _ _ W1) as WB.
  set (n := cs_n c pb) in *.
  assert (IC : cl_i32 (cc_connWindow c - n) = (cc_connWindow c - n)%Z).
  { apply cl_i32_id. unfold MAXW in *. destruct (Z_lt_le_dec 0 n) as [P|P]; [destruct (N2 P)|]; flia. }
  assert (IW : cl_i32 (pb_window pb - n) = (pb_window pb - n)%Z).
  { apply cl_i32_id. unfold MAXW in *. destruct (Z_lt_le_dec 0 n) as [P|P]; [destruct (N2 P)|]; flia. }
  (* the state after the critical section against a ledger whose windows for this stream went down by d <= n *)
  assert (CS : forall L', l_init L' = l_init L -> (cc_connWindow c - n <= l_conn L')%Z ->
                 (exists w', l_strm L' id = Some w' /\ (pb_window pb - n <= w')%Z) ->
                 (forall x, x <> id -> l_strm L' x = l_strm L x) -> Sim (cs_conn c pb id) L').
  { intros L' LI LC (w' & LW1 & LW2) LO. unfold cs_conn. fold n. rewrite IC.
    assert (FR : forall x wx, l_strm L' x = Some wx -> x < cc_nextID c).
    { intros x wx HX. destruct (N.eq_dec x id) as [->|NE]; [apply (s6 _ _ W1) | rewrite LO in HX by exact NE; apply (s6 _ _ HX)]. }
    destruct (cs_end c pb).
    - constructor; cc_cbn; auto.
      + rewrite LI. exact s1.
      + destruct (Z_lt_le_dec 0 n) as [P|P]; [destruct (N2 P)|]; flia.
      + apply pend_del_NoDup. exact s4.
      + intros p HP. apply s5. eapply pend_del_In. exact HP.
      + intros p HP. pose proof (pend_del_not_In _ _ _ s4 HP) as NE. rewrite LO by exact NE. apply s7. eapply pend_del_In. exact HP.
    - constructor; cc_cbn; auto.
      + rewrite LI. exact s1.
      + destruct (Z_lt_le_dec 0 n) as [P|P]; [destruct (N2 P)|]; flia.
      + rewrite pend_put_ids. exact s4.
      + intros p HP. apply (pend_put_In _ _ _ s4) in HP. destruct HP as [->|[HP _]]; [unfold cs_pb; cbn [pb_id pbu_body pbu_window]; apply s5; exact HI | apply s5; exact HP].
      + intros p HP. apply (pend_put_In _ _ _ s4) in HP. destruct HP as [->|[HP NE]].
        * unfold cs_pb. fold n. cbn [pb_id pb_window pbu_body pbu_window]. rewrite IW, EI. exists w'. split; [exact LW1|]. split; [exact LW2|].
          unfold MAXW in *. destruct (Z_lt_le_dec 0 n) as [P|P]; [destruct (N2 P)|]; flia.
        * unfold cs_pb in NE. cbn [pb_id pbu_body pbu_window] in NE. rewrite EI in NE. rewrite LO by exact NE. apply s7. exact HP. }
  destruct wr.
  - (* the DATA run is written *)
    assert (CC : 0 < len (cs_chunk c pb) -> (Z.of_N (len (cs_chunk c pb)) <= l_conn L)%Z /\ (Z.of_N (len (cs_chunk c pb)) <= w)%Z).
    { intro P0. rewrite CL. assert (P : (0 < n)%Z) by flia. destruct (N2 P). flia. }
    destruct (write_data_led (cc_maxFrame c) id (cs_chunk c pb) (cs_end c pb) L w W1 CC) as (V & A & B & Cc & Dd).
    split; [exact V|].
    set (L' := lrun L _) in *.
    assert (S2 : Sim (cs_conn c pb id) L').
    { apply CS; [exact B | rewrite A, CL; flia | exists (w - Z.of_N (len (cs_chunk c pb)))%Z; split; [exact Cc | rewrite CL; flia] | exact Dd]. }
    apply (Sim_same (cs_conn c pb id)); try (rewrite cl_notes_fields; reflexivity); try exact S2.
    + unfold cl_notes. generalize (cl_write_data (cc_maxFrame (cs_conn c pb id)) id (cs_chunk c pb) (cs_end c pb)). generalize (cs_conn c pb id).
      intros c0 l. revert c0. induction l as [|o t IH]; intro c0; [reflexivity|]. cbn [cl_notes]. rewrite IH. reflexivity.
    + unfold cl_notes. generalize (cl_write_data (cc_maxFrame (cs_conn c pb id)) id (cs_chunk c pb) (cs_end c pb)). generalize (cs_conn c pb id).
      intros c0 l. revert c0. induction l as [|o t IH]; intro c0; [reflexivity|]. cbn [cl_notes]. rewrite IH. reflexivity.
    + unfold cl_notes. generalize (cl_write_data (cc_maxFrame (cs_conn c pb id)) id (cs_chunk c pb) (cs_end c pb)). generalize (cs_conn c pb id).
      intros c0 l. revert c0. induction l as [|o t IH]; intro c0; [reflexivity|]. cbn [cl_notes]. rewrite IH. reflexivity.
    + unfold cl_notes. generalize (cl_write_data (cc_maxFrame (cs_conn c pb id)) id (cs_chunk c pb) (cs_end c pb)). generalize (cs_conn c pb id).
      intros c0 l. revert c0. induction l as [|o t IH]; intro c0; [reflexivity|]. cbn [cl_notes]. rewrite IH. reflexivity.
    + assert (E : forall l (c0 : cconn), cc_outQ (cl_notes c0 l) = cc_outQ c0).
      { induction l as [|o t IH]; intro c0; [reflexivity|]. cbn [cl_notes]. rewrite IH. reflexivity. }
      rewrite E. auto.
  - (* nothing is written *)
    cbn [ledger_out flat_map lvalid lrun fold_left]. split; [exact I|].
    apply CS; [reflexivity | flia | exists w; split; [exact W1 | flia] | reflexivity].
Qed.

Lemma u32_next (id : N) : id <= cl_maxStreamID -> u32 (id + 2) = id + 2.
Proof. intro H. unfold u32, wrap, cl_maxStreamID in *. change (2 ^ 32) with 4294967296. apply N.mod_small. flia. Qed.

Lemma NoDup_app_snoc (l : list N) x : NoDup l -> ~ In x l -> NoDup (l ++ [x]).
Proof.
  intros ND NI. induction l as [|a t IH]; cbn [app]; [constructor; [intros []|constructor]|].
  inversion ND; subst. constructor.
  - intro H. apply in_app_or in H. destruct H as [H|[H|[]]]; [contradiction|]. apply NI. left. symmetry. exact H.
  - apply IH; [assumption|]. intro H. apply NI. right. exact H.
Qed.

Lemma headers_Sim (c : cconn) L blk opb :
  valid (MHeaders blk opb) c -> Sim c L -> LB L ->
  Sim (apply (MHeaders blk opb) c) (lstep L (LOpen (cc_nextID c))).
Proof.
  intros (CW & IDS & GA & OP & RQ & PB & _) [s1 s2 s3 s4 s5 s6 s7 s8] [B1 B2].
  assert (NS : l_strm L (cc_nextID c) = None).
  { destruct (l_strm L (cc_nextID c)) as [w|] eqn:E; [|reflexivity]. apply s6 in E. flia. }
  cbn [lstep]. rewrite NS. cbn [apply]. rewrite (u32_next _ IDS).
  assert (FR : forall x wx, strm_upd (l_strm L) (cc_nextID c) (Some (l_init L)) x = Some wx -> x < cc_nextID c + 2).
  { intros x wx. unfold strm_upd. destruct (x =? cc_nextID c) eqn:E; [apply N.eqb_eq in E; subst x; intros _; flia|].
    intro H. apply s6 in H. flia. }
  assert (OLD : forall p, In p (cc_pending c) ->
                exists w, strm_upd (l_strm L) (cc_nextID c) (Some (l_init L)) (pb_id p) = Some w /\ (pb_window p <= w)%Z /\
                          (cc_streamWindow c - MAXW <= pb_window p)%Z).
  { intros p HP. rewrite strm_upd_other; [apply s7; exact HP|]. pose proof (s5 p HP). flia. }
  destruct opb as [pb|].
  - destruct (PB pb eq_refl) as [PI PW].
    constructor; cc_cbn; cbn [l_init l_conn l_strm]; auto.
    + rewrite map_app. cbn [map]. apply NoDup_app_snoc; [exact s4|]. rewrite PI. intro X. apply in_map_iff in X.
      destruct X as (p & E & HP). pose proof (s5 p HP). flia.
    + intros p HP. apply in_app_or in HP. destruct HP as [HP|[<-|[]]]; [pose proof (s5 p HP); flia | flia].
    + intros p HP. apply in_app_or in HP. destruct HP as [HP|[<-|[]]]; [apply OLD; exact HP|].
      rewrite PI, strm_upd_same, PW. exists (l_init L). split; [reflexivity|]. unfold MAXW. flia.
  - constructor; cc_cbn; cbn [l_init l_conn l_strm]; auto.
    intros p HP. pose proof (s5 p HP). flia.
Qed.

Lemma pending_sub_Sim (c c' : cconn) L :
  cc_streamWindow c' = cc_streamWindow c -> cc_connWindow c' = cc_connWindow c -> cc_nextID c' = cc_nextID c ->
  cc_outQ c' = cc_outQ c -> (forall p, In p (cc_pending c') -> In p (cc_pending c)) -> NoDup (map pb_id (cc_pending c')) ->
  Sim c L -> Sim c' L.
Proof.
  intros A B C D E F [s1 s2 s3 s4 s5 s6 s7 s8]. constructor; rewrite ?A, ?B, ?C, ?D; auto.
Qed.

(* the critical section of a request that has been taken back: the chunk goes back to the connection window, which the
   server's ledger never saw go down *)
Lemma cs_conn_cw (c : cconn) pb id : cc_connWindow (cs_conn c pb id) = cl_i32 (cc_connWindow c - cs_n c pb).
Proof. unfold cs_conn. destruct (cs_end c pb); reflexivity. Qed.

Lemma send_back_Sim (c : cconn) L id pb :
  cl_pend_get (cc_pending c) id = Some pb -> Sim c L -> LB L -> Sim (apply (MSendBack id) c) L.
Proof.
  intros G S B. destruct (send_Sim c L id false pb G S B) as [_ S2]. cbn [items apply] in S2. rewrite G in S2.
  cbn [ledger_out flat_map lrun fold_left] in S2. cbn [apply]. rewrite G. unfold send_back. cbv zeta.
  assert (S3 : Sim (if (0 <? cs_n c pb)%Z then cl_add_window (cs_conn c pb id) 0 (cs_n c pb) else cs_conn c pb id) L).
  { destruct (0 <? cs_n c pb)%Z eqn:NP; [|exact S2]. apply Z.ltb_lt in NP.
    pose proof (cs_n_facts c pb) as [N1 N2]. destruct (N2 NP) as [_ N3].
    destruct S as [s1 s2 s3 s4 s5 s6 s7 s8]. destruct B as [B1 _].
    assert (CW : cl_i32 (cc_connWindow (cs_conn c pb id) + cs_n c pb) = cc_connWindow c).
    { rewrite cs_conn_cw. rewrite (cl_i32_id (cc_connWindow c - cs_n c pb)) by (unfold MAXW in *; flia).
      replace (cc_connWindow c - cs_n c pb + cs_n c pb)%Z with (cc_connWindow c) by flia. apply cl_i32_id. unfold MAXW in *. flia. }
    destruct S2 as [t1 t2 t3 t4 t5 t6 t7 t8]. unfold cl_add_window, cl_signal_window. cbn [N.eqb].
    constructor; cc_cbn; auto. rewrite CW. exact s3. }
  set (c3 := if (0 <? cs_n c pb)%Z then _ else _) in *.
  destruct (cl_pend_get (cc_pending c3) id); [|exact S3].
  apply (pending_sub_Sim c3); try reflexivity; [cc_cbn; intro p; apply pend_del_In | cc_cbn; apply pend_del_NoDup, (sim_nodup _ _ S3) | exact S3].
Qed.

Lemma recv_data_fields (c : cconn) fr hr :
  cc_streamWindow (recv_data c fr hr) = cc_streamWindow c /\ cc_connWindow (recv_data c fr hr) = cc_connWindow c /\
  cc_pending (recv_data c fr hr) = cc_pending c /\ cc_nextID (recv_data c fr hr) = cc_nextID c /\
  (Forall qclass (cc_outQ c) -> Forall qclass (cc_outQ (recv_data c fr hr))).
Proof.
  unfold recv_data, cl_update_window, cl_write_out. cc_cbn.
  repeat match goal with |- context [if ?b then _ else _] => destruct b end; cc_cbn; repeat split; auto;
    intro H; repeat (apply Forall_app; split); try exact H; repeat constructor.
Qed.

(* every move keeps the simulation, along the history it stands for *)
Lemma mv_Sim m (c : cconn) L :
  valid m c -> mv_pos m -> Sim c L -> LB L -> LB (lrun L (grants_of m)) ->
  lvalid L (lof m c) /\ Sim (apply m c) (lrun L (lof m c)).
Proof.
  intros V P S B BG. unfold lof.
  destruct m; cbn [grants_of items app ledger_out flat_map lvalid lrun fold_left];
    try (split; [exact I|]; apply (Sim_same c); try reflexivity; try exact S; cbn [apply]; cc_cbn; auto; fail).
  - (* MNote *)
    cbn [apply]. destruct (quietb o) eqn:Q; cbn [ledger_out flat_map app lvalid lrun fold_left].
    + destruct o; try discriminate; cbn [app lvalid lrun fold_left]; (split; [exact I|]); apply (Sim_same c); try reflexivity; auto.
    + split; [exact I | exact S].
  - (* MReqTake *)
    split; [exact I|]. cbn [apply]. unfold cl_take_req_count. destruct (cl_req_find _ _); [|exact S].
    apply (Sim_same c); try reflexivity; auto.
  - (* MOutQPush *)
    split; [exact I|]. cbn [apply]. destruct (pushb o) eqn:Q; [|exact S]. apply write_out_Sim; [|exact S].
    destruct o; try discriminate; exact I.
  - (* MWlWrite *)
    destruct S as [s1 s2 s3 s4 s5 s6 s7 s8]. cbn [apply]. destruct (cc_outQ c) as [|o q] eqn:Q.
    + cbn [ledger_out flat_map lvalid lrun fold_left]. split; [exact I|]. constructor; auto. rewrite Q. constructor.
    + inversion s8 as [|? ? QO QT]; subst.
      destruct o; try (exfalso; exact QO); cbn [flat_map app lvalid lrun fold_left]; (split; [exact I|]); constructor; cc_cbn; auto.
  - (* MOutQDrop *)
    split; [exact I|]. apply (Sim_same c); try reflexivity; auto. cbn [apply]. cc_cbn.
    intro H. destruct (cc_outQ c); [exact H | inversion H; assumption].
  - (* MRecvData *)
    split; [exact I|]. cbn [apply]. destruct (recv_data_fields c fr has_res) as (A1 & A2 & A3 & A4 & A5).
    apply (Sim_same c); auto.
  - (* MSettings *)
    cbn [apply grants_of] in *. destruct (cl_settings_deserialize false payload) as [st|] eqn:DS.
    + rewrite app_nil_r in *. split; [apply lvalid_linits; apply inits_of_linit|]. apply settings_Sim; assumption.
    + cbn [app lvalid lrun fold_left]. split; [exact I | exact S].
  - (* MAddWindow *)
    cbn [app lvalid lrun fold_left lallowed] in *. split; [split; exact I|]. apply add_window_Sim; assumption.
  - (* MPendDel *)
    split; [exact I|]. destruct S as [s1 s2 s3 s4 s5 s6 s7 s8]. cbn [apply].
    apply (pending_sub_Sim c); try reflexivity; [| |constructor; assumption]; cc_cbn.
    + intros p. apply pend_del_In.
    + apply pend_del_NoDup. exact s4.
  - (* MPendAddDel *)
    split; [exact I|]. destruct V as [PI IDS]. cbn [apply].
    assert (E : cl_pend_del (cc_pending c ++ [pb]) (pb_id pb) = cc_pending c).
    { apply pend_del_app_last. intros p HP. pose proof (sim_ids _ _ S p HP). flia. }
    rewrite E. apply (Sim_same c); try reflexivity; auto.
  - (* MRefill *)
    split; [exact I|]. destruct V as (pb & pb' & G & RC & RF). cbn [apply]. rewrite G, RF.
    destruct (refill_same _ _ RF) as [RI RW]. destruct (pend_get_In _ _ _ G) as [HI EI].
    destruct S as [s1 s2 s3 s4 s5 s6 s7 s8]. constructor; cc_cbn; auto.
    + rewrite pend_put_ids. exact s4.
    + intros p HP. apply (pend_put_In _ _ _ s4) in HP. destruct HP as [->|[HP _]]; [rewrite RI; apply s5; exact HI | apply s5; exact HP].
    + intros p HP. apply (pend_put_In _ _ _ s4) in HP. destruct HP as [->|[HP _]]; [rewrite RI, RW; apply s7; exact HI | apply s7; exact HP].
  - (* MSend *)
    destruct V as (pb & G & _). apply (send_Sim c L id wr pb); assumption.
  - (* MSendBack *)
    destruct V as (pb & G & _). split; [exact I|]. apply (send_back_Sim c L id pb); assumption.
  - (* MEncSync *)
    split; [exact I|]. cbn [apply]. destruct (negb _); [|exact S]. apply (Sim_same c); try reflexivity; auto.
  - (* MNextID *)
    split; [exact I|]. cbn [apply]. rewrite (u32_next _ V). destruct S as [s1 s2 s3 s4 s5 s6 s7 s8]. constructor; cc_cbn; auto.
    + intros p HP. pose proof (s5 p HP). flia.
    + intros x wx HX. pose proof (s6 _ _ HX). flia.
  - (* MHeaders *)
    split; [split; exact I|]. apply headers_Sim; assumption.
Qed.

(* ---------- sequences of moves ---------- *)

Fixpoint mlof (c : cconn) (ms : list move) : list levent :=
  match ms with
  | [] => []
  | m :: t => lof m c ++ mlof (apply m c) t
  end.

Lemma mvs_Sim (c : cconn) ms c' : mvs enc_field enc_set_max c ms c' -> Forall mv_pos ms ->
  forall L, Sim c L -> GOK L (mlof c ms) -> lvalid L (mlof c ms) /\ Sim c' (lrun L (mlof c ms)).
Proof.
  induction 1 as [c|c m ms c' V M IH]; intros P L S G; cbn [mlof] in *.
  - split; [exact I | exact S].
  - inversion P as [|? ? P1 P2]; subst.
    assert (B : LB L) by (eapply GOK_nil; exact G).
    assert (BG : LB (lrun L (grants_of m))).
    { unfold lof in G. rewrite <- app_assoc in G. eapply GOK_pre. exact G. }
    destruct (mv_Sim m c L V P1 S B BG) as [V1 S1].
    apply GOK_app in G. destruct G as [_ G2].
    destruct (IH P2 _ S1 G2) as [V2 S2].
    split; [apply lvalid_app; split; assumption | rewrite lrun_app; exact S2].
Qed.

Lemma items_rl_quiet e m (c : cconn) : is_rl e -> ev_ok e m -> ledger_out (items m c) = [].
Proof.
  intros R E. destruct e; try contradiction. destruct m; cbn [items]; try reflexivity; try (cbn in E; first [contradiction | discriminate]).
  destruct (quietb o) eqn:Q; [|reflexivity]. destruct o; try discriminate; reflexivity.
Qed.

Lemma grants_not_rl e (m : move) : ~ is_rl e -> ev_ok e m -> grants_of m = [].
Proof.
  intros R E. destruct m; try reflexivity; cbn in E; destruct E as (fr & -> & _); exfalso; apply R; exact I.
Qed.

Lemma mlof_split e ms : Forall (ev_ok e) ms -> forall (c : cconn),
  mlof c ms = flat_map grants_of ms ++ ledger_out (mitems hstate enc_field enc_set_max c ms).
Proof.
  intro F. assert (RL : is_rl e \/ ~ is_rl e) by (destruct e; cbn; tauto).
  induction F as [|m t Hm Ht IH]; intro c; cbn [mlof flat_map mitems]; [reflexivity|].
  rewrite IH, ledger_out_app. unfold lof. destruct RL as [R|R].
  - rewrite (items_rl_quiet e m c R Hm). cbn [app]. rewrite app_nil_r, app_assoc. reflexivity.
  - rewrite (grants_not_rl e m R Hm). cbn [app]. assert (E : flat_map grants_of t = []).
    { clear IH. induction Ht as [|m' t' Hm' Ht' IH']; [reflexivity|]. cbn [flat_map]. rewrite (grants_not_rl e m' R Hm'), IH'. reflexivity. }
    rewrite E. reflexivity.
Qed.

Lemma ev_ok_pos e (m : move) : ev_ok e m -> mv_pos m.
Proof. destruct m; cbn [ev_ok mv_pos]; try (intros; exact I). intros (fr & _ & _ & _ & ->). flia. Qed.

End Sim.

(* ---------- the run as a history of the server's ledger ---------- *)

Section Run.
Variable hstate : Type.
Variable dec_field : hstate -> N -> bytes -> dec_res hstate.
Variable enc_field : hstate -> bytes -> bytes -> bool -> bytes * hstate.
Variable enc_set_max : hstate -> N -> hstate.
Variable cfg : cl_config.
Variable h0 : hstate.
Notation cconn := (cconn hstate).
Notation step := (cl_step dec_field enc_field enc_set_max cfg).

(* what a step means to the ledger: the grants it takes in, then the streams it opens and the DATA it sends *)
Definition g_tl_step (c : cconn) (e : cevent) : list levent :=
  g_ledger_in hstate c e ++ ledger_out (g_new hstate c (step c e)).

Fixpoint g_timeline_from (c : cconn) (evs : list cevent) : list levent :=
  match evs with
  | [] => []
  | e :: t => g_tl_step c e ++ g_timeline_from (step c e) t
  end.

Definition g_ledger (first : bytes) (evs : list cevent) : list levent :=
  inits_of first ++ g_timeline_from (cl_init enc_set_max h0 first) evs.

Lemma step_Sim (c : cconn) e L : Sim hstate c L -> GOK L (g_tl_step c e) ->
  lvalid L (g_tl_step c e) /\ Sim hstate (step c e) (lrun L (g_tl_step c e)).
Proof.
  intros S G. destruct (step_D hstate dec_field enc_field enc_set_max cfg c e) as (ms & M & F & GR & _).
  assert (E : g_tl_step c e = mlof hstate enc_field enc_set_max c ms).
  { unfold g_tl_step. rewrite (mlof_split hstate enc_field enc_set_max e ms F c), GR, (mvs_new _ _ _ _ _ _ M). reflexivity. }
  rewrite E in *. apply (mvs_Sim hstate enc_field enc_set_max c ms _ M); [|exact S | exact G].
  eapply Forall_impl; [|exact F]. apply ev_ok_pos.
Qed.

Lemma timeline_valid evs : forall (c : cconn) L, Sim hstate c L -> GOK L (g_timeline_from c evs) ->
  lvalid L (g_timeline_from c evs).
Proof.
  induction evs as [|e t IH]; intros c L S G; cbn [g_timeline_from]; [exact I|].
  apply GOK_app in G. destruct G as [G1 G2]. destruct (step_Sim c e L S G1) as [V1 S1].
  apply lvalid_app. split; [exact V1 | apply IH; assumption].
Qed.

Lemma Sim_init first : cl_settings_deserialize false first <> None ->
  Sim hstate (cl_init enc_set_max h0 first) (lrun ledger0 (inits_of first)).
Proof.
  intro NN. unfold cl_init. destruct (cl_settings_deserialize false first) as [st|] eqn:DS; [|congruence].
  destruct (deserialize_win _ _ DS) as [WO WS]. pose proof (inits_of_linit first) as AL.
  destruct (lrun_inits _ AL ledger0) as (LI & LC & LS). rewrite (last_init_spec _ AL), <- WO in LI.
  destruct (deserialize_facts _ _ DS) as (_ & _ & _ & HW & HAS).
  assert (H4 : cl_settings_has st c_MaxWindowSize = cs_hasWin st) by (rewrite HW; apply HAS; unfold c_MaxWindowSize; flia).
  unfold win_of in *. cbn [cl_settings_merge cs_window]. rewrite H4.
  assert (NS : forall x, l_strm (lrun ledger0 (inits_of first)) x = None) by (intro x; rewrite LS; reflexivity).
  destruct (cs_hasWin st).
  - cbn [win_small] in WS. rewrite cl_i32_id by flia.
    constructor; cc_cbn; try (rewrite LC); cbn [ledger0 l_conn]; try exact LI; unfold MAXW, DEFAULT_WINDOW, c_defaultWindowSize; try flia.
    + constructor.
    + intros pb [].
    + intros x w. rewrite NS. discriminate.
    + intros pb [].
    + constructor.
  - cbn [cs_window cl_settings_default]. rewrite cl_i32_id by (unfold c_defaultWindowSize; flia).
    constructor; cc_cbn; try (rewrite LC); cbn [ledger0 l_conn l_init] in *; try exact LI; unfold MAXW, DEFAULT_WINDOW, c_defaultWindowSize; try flia.
    + constructor.
    + intros pb [].
    + intros x w. rewrite NS. discriminate.
    + intros pb [].
    + constructor.
Qed.

(* C07 (a), window form: while the server's grants keep every window at or below 2^31-1, every DATA frame the
   client writes fits the connection window and its stream's window of the server's ledger at that moment *)
Theorem ledger_safe first evs : cl_settings_deserialize false first <> None ->
  GOK ledger0 (g_ledger first evs) -> lvalid ledger0 (g_ledger first evs).
Proof.
  intros NN G. unfold g_ledger in *. apply GOK_app in G. destruct G as [_ G].
  apply lvalid_app. split; [apply lvalid_linits, inits_of_linit|].
  apply timeline_valid; [apply Sim_init; exact NN | exact G].
Qed.

Theorem ledger_within_grants first evs : cl_settings_deserialize false first <> None ->
  GOK ledger0 (g_ledger first evs) -> within_grants (g_ledger first evs).
Proof. intros NN G. apply lvalid_within_grants. apply ledger_safe; assumption. Qed.

End Run.
