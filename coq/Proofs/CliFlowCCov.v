(* Proofs/CliFlowCCov.v - C07, "and finishes": who may drop a pending body.
   A step that takes a body off c.pending without END_STREAM having been written for it either takes the request off
   the request table in the same step (finish: the response ended or failed, a reset; GOAWAY; the cancel timer; the
   body's reader failed), or finds the request's Ctx taken back by its caller (done). Function by function. *)
From H2V Require Import Base.Bytes Base.MachineInt Base.Result Gen.GenConsts Impl.ServerConn Impl.ClientConn
     Proofs.CliBase Proofs.CliResInv Proofs.CliResStep Proofs.CliResMoves Proofs.CliResThms
     Proofs.CliDefs Spec.FlowLedger Proofs.CliFlowMoves Proofs.CliFlowOut Proofs.CliFlowSettings Proofs.CliFlowSafe Proofs.CliFlowEs
     Proofs.CliFlowStall Proofs.CliFlowCBody Proofs.CliFlowCInv Proofs.CliFlowCSend Proofs.CliFlowCStep.
From Coq Require Import ZArith Lia ZifyN ZifyNat ZifyBool List Bool.
Import ListNotations.
Local Open Scope N_scope.

Section Cov.
Variable hstate : Type.
Variable dec_field : hstate -> N -> bytes -> dec_res hstate.
Variable enc_field : hstate -> bytes -> bytes -> bool -> bytes * hstate.
Variable enc_set_max : hstate -> N -> hstate.
Variable cfg : cl_config.
Notation cconn := (cconn hstate).
Notation step := (cl_step dec_field enc_field enc_set_max cfg).
Notation pget := (pget hstate).

Definition tbl (c : cconn) : list N := map fst (cc_reqQueued c).

(* ---------- the request table ---------- *)

Lemma take_req_notin (c : cconn) id : ~ In id (tbl (cl_take_req_count c id)).
Proof.
  unfold tbl, cl_take_req_count. destruct (cl_req_find (cc_reqQueued c) id) eqn:F.
  - unfold cl_req_del. cbn [cc_reqQueued ccu_reqQueued ccu_open]. intro H. apply in_map_iff in H. destruct H as ([i t] & E & H).
    apply filter_In in H. destruct H as [_ H]. cbn [fst] in *. subst i. rewrite N.eqb_refl in H. discriminate.
  - apply cl_req_find_None. exact F.
Qed.

Lemma take_req_sub (c : cconn) id x : In x (tbl (cl_take_req_count c id)) -> In x (tbl c).
Proof.
  unfold tbl. rewrite cc_reqQueued_cl_take_req_count. intro H. apply in_map_iff in H. destruct H as (e & E & H).
  apply filter_In in H. apply in_map_iff. exists e. split; [exact E | apply H].
Qed.

Lemma finish_notin (c : cconn) tag id e : ~ In id (tbl (cl_finish c tag id e)).
Proof.
  unfold tbl. rewrite cc_reqQueued_cl_finish. intro H. apply in_map_iff in H. destruct H as ([i t] & E & H).
  apply filter_In in H. destruct H as [_ H]. cbn [fst] in *. subst i. rewrite N.eqb_refl in H. discriminate.
Qed.

Lemma pending_finish (c : cconn) tag id e : cc_pending (cl_finish c tag id e) = cl_pend_del (cc_pending c) id.
Proof.
  unfold cl_finish. rewrite cc_pending_cl_ctx_upd.
  destruct (cl_pend_get (cc_pending (cl_take_req_count c id)) id) as [pb|] eqn:G.
  - rewrite cc_pending_cl_close_body. cbn [cc_pending ccu_pending]. rewrite cc_pending_cl_take_req_count. reflexivity.
  - rewrite cc_pending_cl_take_req_count in *. symmetry. apply pend_del_absent. apply pend_get_None. exact G.
Qed.

(* ---------- the read loop ---------- *)

Lemma pending_read_header_fragment (c : cconn) id frag eh res :
  cc_pending (rs_conn (cl_read_header_fragment dec_field c id frag eh res)) = cc_pending c /\
  cc_reqQueued (rs_conn (cl_read_header_fragment dec_field c id frag eh res)) = cc_reqQueued c.
Proof.
  unfold cl_read_header_fragment, rs_conn.
  destruct (cl_hdr_loop _ _ _ _ _ _ _ _ _ _) as [[[[[[[d' fields] rseen] status] herr] res'] prev] er].
  destruct er; cbn [fst]; repeat match goal with |- context [if ?b then _ else _] => destruct b | |- context [match ?o with Some _ => _ | None => _ end] => destruct o end;
    cbn [fst]; split; reflexivity.
Qed.

Lemma pending_read_stream (c : cconn) fr res :
  cc_pending (rs_conn (cl_read_stream dec_field c fr res)) = cc_pending c /\
  cc_reqQueued (rs_conn (cl_read_stream dec_field c fr res)) = cc_reqQueued c.
Proof.
  unfold cl_read_stream. destruct (sf_kind fr); try (split; reflexivity).
  - unfold rs_conn. cbn [fst]. unfold cl_update_window, cl_write_out.
    repeat match goal with |- context [if ?b then _ else _] => destruct b | |- context [match ?o with Some _ => _ | None => _ end] => destruct o end;
      split; reflexivity.
  - destruct (pending_read_header_fragment
                (ccu_hdrEndStream (ccu_hdrErr (ccu_hdrStatus (ccu_hdrRegularSeen (ccu_hdrFields (ccu_hdrPrev c []) 0) false) 0%Z) None) (flag_has (sf_flags fr) FL_ES))
                (sf_sid fr) (sf_payload fr) (flag_has (sf_flags fr) FL_EH) res) as [A B].
    rewrite A, B. split; reflexivity.
  - apply pending_read_header_fragment.
Qed.

(* dispatch: the only body it may drop is that of the frame's stream, and then the stream is off the table *)
Lemma dispatch_pend (c : cconn) fr :
  (forall x, In x (tbl (fst (cl_dispatch dec_field c fr))) -> In x (tbl c)) /\
  (cc_pending (fst (cl_dispatch dec_field c fr)) = cc_pending c \/
   (cc_pending (fst (cl_dispatch dec_field c fr)) = cl_pend_del (cc_pending c) (sf_sid fr) /\
    ~ In (sf_sid fr) (tbl (fst (cl_dispatch dec_field c fr))))).
Proof.
  rewrite cl_dispatch_eq. unfold disp_pre.
  assert (PRE : forall (c0 : cconn) ok, cc_pending c0 = cc_pending c -> (forall x, In x (tbl c0) -> In x (tbl c)) ->
    (forall x, In x (tbl (fst (let '(c1, res', ended, err) := cl_read_stream dec_field c0 fr (match ok with Some x => Some (ct_resp x) | None => None end) in
       let '(ok2, err2) := disp_chk c1 fr (disp_ok1 ok res') err in
       let c2 := match ok2 with Some x => cl_ctx_put c1 x | None => c1 end in
       disp_tail c2 (sf_sid fr) ok2 ended (disp_err3 fr ok2 err2)))) -> In x (tbl c)) /\
    (cc_pending (fst (let '(c1, res', ended, err) := cl_read_stream dec_field c0 fr (match ok with Some x => Some (ct_resp x) | None => None end) in
       let '(ok2, err2) := disp_chk c1 fr (disp_ok1 ok res') err in
       let c2 := match ok2 with Some x => cl_ctx_put c1 x | None => c1 end in
       disp_tail c2 (sf_sid fr) ok2 ended (disp_err3 fr ok2 err2))) = cc_pending c \/
     (cc_pending (fst (let '(c1, res', ended, err) := cl_read_stream dec_field c0 fr (match ok with Some x => Some (ct_resp x) | None => None end) in
       let '(ok2, err2) := disp_chk c1 fr (disp_ok1 ok res') err in
       let c2 := match ok2 with Some x => cl_ctx_put c1 x | None => c1 end in
       disp_tail c2 (sf_sid fr) ok2 ended (disp_err3 fr ok2 err2))) = cl_pend_del (cc_pending c) (sf_sid fr) /\
      ~ In (sf_sid fr) (tbl (fst (let '(c1, res', ended, err) := cl_read_stream dec_field c0 fr (match ok with Some x => Some (ct_resp x) | None => None end) in
       let '(ok2, err2) := disp_chk c1 fr (disp_ok1 ok res') err in
       let c2 := match ok2 with Some x => cl_ctx_put c1 x | None => c1 end in
       disp_tail c2 (sf_sid fr) ok2 ended (disp_err3 fr ok2 err2))))))).
  { intros c0 ok P0 T0.
    destruct (pending_read_stream c0 fr (match ok with Some x => Some (ct_resp x) | None => None end)) as [P1 T1].
    destruct (cl_read_stream dec_field c0 fr _) as [[[c1 res'] ended] err]. unfold rs_conn in P1, T1. cbn [fst] in P1, T1.
    destruct (disp_chk c1 fr (disp_ok1 ok res') err) as [ok2 err2]. cbv zeta.
    set (c2 := match ok2 with Some x => cl_ctx_put c1 x | None => c1 end).
    assert (P2 : cc_pending c2 = cc_pending c) by (subst c2; destruct ok2; rewrite ?cc_pending_cl_ctx_put; congruence).
    assert (T2 : forall x, In x (tbl c2) -> In x (tbl c)).
    { intros x H. apply T0. unfold tbl in *. subst c2. destruct ok2; rewrite ?cc_reqQueued_cl_ctx_put in H; rewrite <- T1; exact H. }
    assert (FIN : forall (c3 : cconn) tag e, cc_pending c3 = cc_pending c -> (forall x, In x (tbl c3) -> In x (tbl c)) ->
              (forall x, In x (tbl (cl_finish c3 tag (sf_sid fr) e)) -> In x (tbl c)) /\
              (cc_pending (cl_finish c3 tag (sf_sid fr) e) = cc_pending c \/
               (cc_pending (cl_finish c3 tag (sf_sid fr) e) = cl_pend_del (cc_pending c) (sf_sid fr) /\ ~ In (sf_sid fr) (tbl (cl_finish c3 tag (sf_sid fr) e))))).
    { intros c3 tag e P3 T3. split.
      - intros x H. apply T3. unfold tbl in *. rewrite cc_reqQueued_cl_finish in H. apply in_map_iff in H. destruct H as (en & E & H).
        apply filter_In in H. apply in_map_iff. exists en. split; [exact E | apply H].
      - right. split; [rewrite pending_finish, P3; reflexivity | apply finish_notin]. }
    unfold disp_tail. destruct (disp_err3 fr ok2 err2) as [|e|e|]; cbn [fst].
    - destruct ok2 as [x2|]; [destruct ended|]; try (split; [exact T2 | left; exact P2]). apply FIN; assumption.
    - destruct ok2 as [x2|]; [|split; [exact T2 | left; exact P2]]. apply FIN; assumption.
    - destruct ok2 as [x2|].
      + apply FIN; [rewrite cc_pending_cl_set_last_err; exact P2 | intros x H; apply T2; unfold tbl in *; rewrite cc_reqQueued_cl_set_last_err in H; exact H].
      + split; [intros x H; apply T2; unfold tbl in *; rewrite cc_reqQueued_cl_set_last_err in H; exact H | left; rewrite cc_pending_cl_set_last_err; exact P2].
    - split; [exact T2 | left; exact P2]. }
  destruct (cl_req_find (cc_reqQueued c) (sf_sid fr)) as [tag|]; [|exact (PRE c None eq_refl (fun x H => H))].
  destruct (cl_acquire_for [] c tag (sf_sid fr)).
  - exact (PRE c (cl_ctx_get c tag) eq_refl (fun x H => H)).
  - exact (PRE (cl_take_req_count c (sf_sid fr)) None ltac:(apply cc_pending_cl_take_req_count) (take_req_sub c (sf_sid fr))).
  - cbn [fst]. split; [unfold tbl; rewrite cc_reqQueued_cl_go_stuck; auto | left; apply cc_pending_cl_go_stuck].
  - cbn [fst]. split; [unfold tbl; rewrite cc_reqQueued_cl_go_stuck; auto | left; apply cc_pending_cl_go_stuck].
Qed.

(* ---------- what a step may do to c.pending and to the request table ---------- *)

Definition pids (c : cconn) : list N := map pb_id (cc_pending c).

(* the table only loses entries, and a body that leaves c.pending leaves the table *)
Definition Cv (c c' : cconn) : Prop :=
  (forall x, In x (tbl c') -> In x (tbl c)) /\ (forall x, In x (pids c') -> In x (pids c)) /\
  (forall id, In id (pids c) -> ~ In id (pids c') -> ~ In id (tbl c')).

Lemma Cv_refl (c : cconn) : Cv c c.
Proof. split; [auto|]. split; [auto|]. intros id H N. contradiction. Qed.

Lemma Cv_trans (a b c : cconn) : Cv a b -> Cv b c -> Cv a c.
Proof.
  intros (A1 & A2 & A3) (B1 & B2 & B3). split; [auto|]. split; [auto|]. intros id H N.
  destruct (in_dec N.eq_dec id (pids b)) as [I|I]; [apply B3; assumption|]. intro X. apply (A3 id H I). apply B1. exact X.
Qed.

Lemma Cv_same (c c' : cconn) : (forall x, In x (tbl c') -> In x (tbl c)) -> pids c' = pids c -> Cv c c'.
Proof. intros T P. split; [exact T|]. split; [rewrite P; auto|]. intros id H N. rewrite P in N. contradiction. Qed.

Lemma Cv_eq (c c' : cconn) : cc_reqQueued c' = cc_reqQueued c -> cc_pending c' = cc_pending c -> Cv c c'.
Proof. intros T P. apply Cv_same; unfold tbl, pids; rewrite ?T, ?P; auto. Qed.

Lemma pend_del_ids_keep l i id : In id (map pb_id l) -> id <> i -> In id (map pb_id (cl_pend_del l i)).
Proof.
  induction l as [|q t IH]; cbn [cl_pend_del map]; [auto|]. intros H NE.
  destruct (pb_id q =? i) eqn:E.
  - apply N.eqb_eq in E. destruct H as [H|H]; [congruence | exact H].
  - cbn [map]. destruct H as [H|H]; [left; exact H | right; apply IH; assumption].
Qed.

(* a body is taken off after its stream has left the table *)
Lemma Cv_del (c c' : cconn) i : (forall x, In x (tbl c') -> In x (tbl c)) -> cc_pending c' = cl_pend_del (cc_pending c) i ->
  ~ In i (tbl c') -> Cv c c'.
Proof.
  intros T P NI. split; [exact T|]. split; [unfold pids; rewrite P; apply pend_del_ids_incl|].
  intros id H N X. destruct (N.eq_dec id i) as [->|NE]; [contradiction|]. apply N. unfold pids. rewrite P. apply pend_del_ids_keep; assumption.
Qed.

Lemma rl_exit_eq (c : cconn) why : cc_reqQueued (cl_rl_exit c why) = cc_reqQueued c /\ cc_pending (cl_rl_exit c why) = cc_pending c.
Proof. unfold cl_rl_exit. cbn [cl_note cc_reqQueued cc_pending ccu_out ccu_rl_done]. rewrite cc_reqQueued_cl_conn_close, cc_pending_cl_conn_close. split; reflexivity. Qed.

Lemma Cv_rl_exit (c : cconn) why : Cv c (cl_rl_exit c why).
Proof. destruct (rl_exit_eq c why). apply Cv_eq; assumption. Qed.

Lemma Cv_rl_fail (c : cconn) : Cv c (cl_rl_fail c).
Proof.
  unfold cl_rl_fail. eapply Cv_trans; [|apply Cv_rl_exit]. apply Cv_eq; [apply cc_reqQueued_cl_set_last_err | apply cc_pending_cl_set_last_err].
Qed.

Lemma Cv_rl_panic (c : cconn) : Cv c (cl_rl_panic c).
Proof.
  unfold cl_rl_panic. eapply Cv_trans; [|apply Cv_rl_exit].
  apply Cv_same.
  - unfold tbl. cbn [cc_reqQueued ccu_reqQueued map]. intros x [].
  - unfold pids. cbn [cc_pending ccu_reqQueued]. rewrite cc_pending_cl_resolve_all, cc_pending_cl_set_last_err. reflexivity.
Qed.

Lemma Cv_dispatch (c : cconn) fr : Cv c (fst (cl_dispatch dec_field c fr)).
Proof.
  destruct (dispatch_pend c fr) as [T [P|[P NI]]]; [apply Cv_same; [exact T | unfold pids; rewrite P; reflexivity]|].
  eapply Cv_del; eassumption.
Qed.

Lemma Cv_add_window (c : cconn) sid inc : Cv c (cl_add_window c sid inc).
Proof.
  apply Cv_same; [unfold tbl; rewrite cc_reqQueued_cl_add_window; auto|]. apply (add_window_fields hstate c sid inc).
Qed.

Lemma Cv_rl_frame (c : cconn) fr : Cv c (cl_rl_frame dec_field c fr).
Proof.
  unfold cl_rl_frame.
  assert (X : Cv c (cl_rl_exit (cl_set_last_err c CEConn) 1)).
  { eapply Cv_trans; [|apply Cv_rl_exit]. apply Cv_eq; [apply cc_reqQueued_cl_set_last_err | apply cc_pending_cl_set_last_err]. }
  destruct (fkind_eqb (sf_kind fr) KPush); [exact X|].
  destruct (_ && _); [exact X|]. destruct (_ && _); [exact X|].
  set (c1 := if fkind_eqb (sf_kind fr) KWinUpd then _ else c).
  assert (C1 : Cv c c1) by (subst c1; destruct (fkind_eqb (sf_kind fr) KWinUpd); [apply Cv_add_window | apply Cv_refl]).
  pose proof (Cv_dispatch c1 fr) as C2. destruct (cl_dispatch dec_field c1 fr) as [c2 r]. cbn [fst] in C2.
  pose proof (Cv_trans _ _ _ C1 C2) as C3.
  destruct r; [exact C3 | eapply Cv_trans; [exact C3 | apply Cv_rl_exit] | exact C3 | eapply Cv_trans; [exact C3 | apply Cv_rl_panic]].
Qed.

(* GOAWAY: the requests above the last stream id leave the table, then their bodies are dropped *)
Lemma goaway_fail_pend l : forall (c : cconn),
  cc_reqQueued (fst (cl_goaway_fail c l)) = cc_reqQueued c /\
  (forall x, In x (pids (fst (cl_goaway_fail c l))) -> In x (pids c)) /\
  (forall id, In id (pids c) -> ~ In id (pids (fst (cl_goaway_fail c l))) -> In id (map fst l)).
Proof.
  induction l as [|[i tag] t IH]; intro c; cbn [cl_goaway_fail].
  - cbn [fst]. split; [reflexivity|]. split; [auto|]. intros id H N. contradiction.
  - pose proof (cc_pending_cl_delete_pending' 0 [] (ccu_open c (cc_open c - 1)%Z) i) as PD.
    pose proof (cc_reqQueued_cl_delete_pending hstate (ccu_open c (cc_open c - 1)%Z) 0 [] i) as RD.
    destruct (cl_delete_pending 0 [] (ccu_open c (cc_open c - 1)%Z) i) as [c2 stuck]. cbn [fst] in PD, RD. cbn [cc_pending cc_reqQueued ccu_open] in PD, RD.
    assert (LOST : forall id, In id (pids c) -> ~ In id (pids c2) -> id = i).
    { intros id H N. destruct (N.eq_dec id i) as [E|NE]; [exact E|]. exfalso. apply N. unfold pids. rewrite PD. apply pend_del_ids_keep; assumption. }
    assert (SUB : forall x, In x (pids c2) -> In x (pids c)) by (unfold pids; rewrite PD; apply pend_del_ids_incl).
    destruct stuck; cbn [fst].
    + split; [exact RD|]. split; [exact SUB|]. intros id H N. left. cbn [fst]. symmetry. apply LOST; assumption.
    + destruct (IH (cl_ctx_upd c2 tag (fun x => cl_ctx_resolve (ctu_finished x true) CEGoAway))) as (A & B & C).
      rewrite cc_reqQueued_cl_ctx_upd in A. unfold pids in B, C. rewrite cc_pending_cl_ctx_upd in B, C. fold (pids c2) in B, C.
      split; [rewrite A; exact RD|]. split; [intros x H; apply SUB, B, H|].
      intros id H N. destruct (in_dec N.eq_dec id (pids c2)) as [I2|I2]; [right; apply C; assumption | left; cbn [fst]; symmetry; apply LOST; assumption].
Qed.

Lemma Cv_goaway (c : cconn) last : Cv c (fst (cl_goaway c last)).
Proof.
  unfold cl_goaway.
  set (c1 := ccu_closeRef (ccu_stateClosed (ccu_goAway c true) true) last).
  set (above := filter (fun e => last <? fst e) (cc_reqQueued c1)).
  set (c2 := ccu_reqQueued c1 (filter (fun e => negb (last <? fst e)) (cc_reqQueued c1))).
  destruct (goaway_fail_pend above c2) as (A & B & C).
  split; [|split].
  - unfold tbl. rewrite A. subst c2 c1. cbn [cc_reqQueued ccu_reqQueued ccu_closeRef ccu_stateClosed ccu_goAway].
    intros x H. apply in_map_iff in H. destruct H as (e & E & H). apply filter_In in H. apply in_map_iff. exists e. split; [exact E | apply H].
  - exact B.
  - intros id H N X. specialize (C id H N). unfold tbl in X. rewrite A in X. subst c2 above c1. cbn [cc_reqQueued ccu_reqQueued ccu_closeRef ccu_stateClosed ccu_goAway] in *.
    apply in_map_iff in C. destruct C as (e1 & E1 & C). apply filter_In in C. destruct C as [_ C].
    apply in_map_iff in X. destruct X as (e2 & E2 & X). apply filter_In in X. destruct X as [_ X].
    rewrite E1 in C. rewrite E2 in X. rewrite C in X. discriminate.
Qed.

Lemma Cv_handle_settings (c : cconn) st : Cv c (cl_handle_settings c st).
Proof.
  apply Cv_same; [unfold tbl; rewrite cc_reqQueued_cl_handle_settings; auto|]. apply (handle_settings_fields hstate c st).
Qed.

Lemma Cv_rl_step (c : cconn) i : Cv c (cl_rl_step dec_field c i).
Proof.
  unfold cl_rl_step. destruct (cc_netClosed c); [apply Cv_rl_fail|].
  destruct i as [fr| | |]; try apply Cv_rl_fail; [|apply Cv_refl].
  destruct (sf_sid fr =? 0); [|apply Cv_rl_frame].
  destruct (sf_kind fr); try apply Cv_refl.
  - destruct (cl_settings_deserialize _ _) as [st|]; [|apply Cv_rl_fail]. destruct (flag_has _ _); [apply Cv_refl | apply Cv_handle_settings].
  - destruct (flag_has _ _); [apply Cv_eq; reflexivity|]. apply Cv_eq; [apply cc_reqQueued_cl_write_out | apply cc_pending_cl_write_out].
  - pose proof (Cv_goaway c (sf_dep fr)) as G. destruct (cl_goaway c (sf_dep fr)) as [c1 st]. cbn [fst] in G.
    destruct st; [exact G|]. eapply Cv_trans; [exact G | apply Cv_rl_frame].
  - apply Cv_add_window.
Qed.

(* ---------- the cancel timer ---------- *)

Lemma delete_pending_nostuck who (c : cconn) id : nostuck c -> snd (cl_delete_pending who [] c id) = false.
Proof.
  intro NS. unfold cl_delete_pending. destruct (cl_pend_get (cc_pending c) id) as [pb|]; [|reflexivity].
  destruct (pb_stream pb); [|reflexivity].
  destruct (acquire_for_nostuck (ccu_pending c (cl_pend_del (cc_pending c) id)) (pb_tag pb) id (nostuck_ccu_pending c _ NS)) as [-> | ->]; reflexivity.
Qed.

Lemma nostuck_put (c : cconn) x x' : nostuck c -> cl_ctx_get c (ct_tag x') = Some x -> ct_lckStuck x' = false -> nostuck (cl_ctx_put c x').
Proof.
  intros (A & B & C) G L. split; [|split; assumption]. intros t y H. rewrite cl_ctx_get_put in H.
  destruct (t =? ct_tag x') eqn:E; [|apply (A t y H)]. apply N.eqb_eq in E. subst t. rewrite G in H. inversion H. subst y. exact L.
Qed.

Lemma Cv_timeout_cancel (c : cconn) tag : nostuck c -> Cv c (cl_timeout_cancel c tag).
Proof.
  intro NS. unfold cl_timeout_cancel. destruct (cl_ctx_get c tag) as [x|] eqn:G; [|apply Cv_refl].
  destruct (_ && _); [|apply Cv_refl]. cbv zeta.
  set (c1 := cl_ctx_put c (ctu_cancelled x true)).
  assert (C1 : Cv c c1) by (apply Cv_eq; [apply cc_reqQueued_cl_ctx_put | apply cc_pending_cl_ctx_put]).
  destruct (_ || _); [exact C1|].
  assert (NS1 : nostuck c1).
  { destruct (cl_ctxs_get_In _ _ _ G) as [_ T]. apply (nostuck_put c x); [exact NS | cbn [ct_tag ctu_cancelled]; rewrite T; exact G|].
    cbn [ct_lckStuck ctu_cancelled]. apply (proj1 NS tag x G). }
  pose proof (delete_pending_nostuck 3 c1 (ct_sid x) NS1) as ST.
  pose proof (cc_pending_cl_delete_pending' 3 [] c1 (ct_sid x)) as PD.
  pose proof (cc_reqQueued_cl_delete_pending hstate c1 3 [] (ct_sid x)) as RD.
  destruct (cl_delete_pending 3 [] c1 (ct_sid x)) as [c2 stuck]. cbn [fst snd] in ST, PD, RD. subst stuck.
  eapply Cv_trans; [exact C1|]. unfold cl_cancel_stream.
  apply (Cv_del c1 _ (ct_sid x)).
  - intros y H. unfold tbl in *. rewrite cc_reqQueued_cl_write_out in H. apply take_req_sub in H. unfold tbl in H. rewrite RD in H. exact H.
  - rewrite cc_pending_cl_write_out, cc_pending_cl_take_req_count. exact PD.
  - unfold tbl. rewrite cc_reqQueued_cl_write_out. apply take_req_notin.
Qed.

(* ---------- the steps that leave c.pending alone ---------- *)

Lemma Cv_wl_exit (c : cconn) le why : Cv c (cl_wl_exit c le why).
Proof.
  apply Cv_same.
  - unfold cl_wl_exit, tbl. cbn [cl_note cc_reqQueued ccu_out ccu_wl_done ccu_outQ ccu_inQ]. rewrite cc_reqQueued_cl_resolve_all.
    cbn [cc_reqQueued ccu_reqQueued map]. intros x [].
  - unfold cl_wl_exit, pids. cbn [cl_note cc_pending ccu_out ccu_wl_done ccu_outQ ccu_inQ]. rewrite cc_pending_cl_resolve_all.
    cbn [cc_pending ccu_reqQueued]. rewrite cc_pending_cl_resolve_all, cc_pending_cl_conn_close, cc_pending_cl_set_last_err. reflexivity.
Qed.

Lemma Cv_wl_after (c : cconn) : Cv c (cl_wl_after cfg c).
Proof. unfold cl_wl_after. destruct (_ && _); [apply Cv_wl_exit | apply Cv_refl]. Qed.

Lemma Cv_step_other (c : cconn) e : nostuck c -> ~ is_wlf e -> Cv c (step c e).
Proof.
  intros NS NW. destruct e; cbn [cl_step]; try (exfalso; apply NW; exact I).
  - (* Submit *)
    unfold cl_submit. destruct (cl_ctx_get c tag); [apply Cv_refl|]. cbv zeta.
    destruct (_ && _); apply Cv_eq; unfold cl_resolve; autorewrite with cc; reflexivity.
  - (* SubmitCheck *)
    unfold cl_submit_check. destruct (cl_ctx_get c tag) as [x|]; [|apply Cv_refl]. destruct (negb (ct_writing x)); [apply Cv_refl|]. cbv zeta.
    destruct (negb (cc_closed c)); [apply Cv_eq; autorewrite with cc; reflexivity|].
    destruct (ct_lckStuck _); [apply Cv_eq; autorewrite with cc; reflexivity|].
    destruct (_ =? 0); apply Cv_eq; autorewrite with cc; reflexivity.
  - (* WLOut *)
    destruct (cl_wl_live c); [|apply Cv_refl]. unfold cl_wl_out. destruct (cc_outQ c) as [|o q]; [apply Cv_refl|]. cbv zeta.
    destruct (cl_can_write _).
    + eapply Cv_trans; [|apply Cv_wl_after]. apply Cv_eq; reflexivity.
    + eapply Cv_trans; [|apply Cv_wl_exit]. apply Cv_eq; reflexivity.
  - (* WLPing *)
    destruct (cl_wl_live c); [|apply Cv_refl]. unfold cl_wl_ping. destruct (cl_can_write c); [|apply Cv_wl_exit].
    eapply Cv_trans; [|apply Cv_wl_after]. apply Cv_eq; reflexivity.
  - (* WLDone *)
    destruct (cl_wl_live c); [|apply Cv_refl]. unfold cl_wl_done. destruct (cc_closed c); [apply Cv_wl_exit | apply Cv_refl].
  - (* RL *)
    destruct (cl_rl_live c); [apply Cv_rl_step | apply Cv_refl].
  - (* Timeout *)
    unfold cl_timeout_fire. destruct (cl_ctx_get c tag) as [x|]; [|apply Cv_refl].
    destruct (_ && _); [apply Cv_eq; autorewrite with cc; reflexivity | apply Cv_refl].
  - apply Cv_timeout_cancel. exact NS.
  - (* Receive *)
    unfold cl_receive. destruct (cl_ctx_get c tag) as [x|]; [|apply Cv_refl]. destruct (ct_returned x); [apply Cv_refl|].
    destruct (ct_err x); [|apply Cv_refl]. cbv zeta. destruct (ct_lckStuck _); [apply Cv_eq; autorewrite with cc; reflexivity|].
    destruct (_ && _); apply Cv_eq; autorewrite with cc; reflexivity.
  - (* Close *)
    unfold cl_close_call, cl_close_begin. destruct (cc_closed c); apply Cv_eq; reflexivity.
  - (* CloseNet *)
    unfold cl_close_finish. destruct (cc_closing c); [|apply Cv_refl]. apply Cv_eq; cbn [cc_reqQueued cc_pending ccu_closing]; autorewrite with cc; reflexivity.
  - apply Cv_eq; reflexivity.
Qed.

(* ---------- the write loop: sendPending may also find the request taken back ---------- *)

(* a body that has left c.pending: END_STREAM was written, or its stream is off the table, or its Ctx was done *)
Definition Cw (c c' : cconn) : Prop :=
  forall id pb, pget c id = Some pb -> pget c' id = None ->
    (esn id (cc_out c) < esn id (cc_out c'))%nat \/ ~ In id (tbl c') \/
    (exists x, cl_ctx_get c (pb_tag pb) = Some x /\ ct_done x = true).

Lemma pget_pids (c : cconn) id pb : pget c id = Some pb -> In id (pids c).
Proof. intro G. apply pend_get_In in G. destruct G as [HI <-]. apply in_map. exact HI. Qed.

Lemma pget_none_pids (c : cconn) id : pget c id = None -> ~ In id (pids c).
Proof. intros G H. apply in_map_iff in H. destruct H as (p & E & HP). exact (pend_get_None _ _ G p HP E). Qed.

Lemma Cv_Cw (c c' : cconn) : Cv c c' -> Cw c c'.
Proof. intros (_ & _ & X) id pb G G'. right. left. apply X; [eapply pget_pids; exact G | apply pget_none_pids; exact G']. Qed.

Lemma esn_app_nf id l out : esn id (l ++ out) = (esn id l + esn id out)%nat.
Proof. induction l as [|o t IH]; cbn [app esn]; [reflexivity|]. rewrite IH. lia. Qed.

(* what lies between two states one of which comes after the other *)
Record Mono (c c' : cconn) : Prop := mkMono {
  mo_esn : forall id, (esn id (cc_out c) <= esn id (cc_out c'))%nat;
  mo_tbl : forall x, In x (tbl c') -> In x (tbl c);
  mo_tag : forall id pb pb', pget c id = Some pb -> pget c' id = Some pb' -> pb_tag pb' = pb_tag pb;
  mo_done : forall t x', cl_ctx_get c' t = Some x' -> ct_done x' = true -> exists x, cl_ctx_get c t = Some x /\ ct_done x = true
}.

Lemma eff_Mono (P : coutev -> Prop) (c c' : cconn) : eff (CP:=cp_any) P c c' -> NoDup (pids c) -> Mono c c'.
Proof.
  intros E ND. constructor.
  - intro id. destruct (e_out _ _ _ E) as (l & -> & _). rewrite esn_app_nf. lia.
  - intros x H. destruct (e_rq _ _ _ E) as [p Hp]. unfold tbl in *. rewrite Hp in H. apply in_map_iff in H. destruct H as (en & EQ & H).
    apply filter_In in H. apply in_map_iff. exists en. split; [exact EQ | apply H].
  - intros id pb pb' G G'. apply pend_get_In in G'. destruct G' as [HI' EI'].
    destruct (proj1 (e_pending _ _ _ E) pb' HI') as (pb0 & HI0 & A & B).
    assert (X : cl_pend_get (cc_pending c) (pb_id pb0) = Some pb0) by (apply pend_get_member; assumption).
    rewrite <- A, EI' in X. unfold CliFlowCInv.pget in G. rewrite G in X. inversion X. subst pb0. exact B.
  - intros t x' G D0. destruct (eff_ctx_back _ _ _ _ _ E G) as (x & Gx & V). exists x. split; [exact Gx|]. rewrite <- (cev_done _ _ V). exact D0.
Qed.

Lemma Mono_trans (a b c : cconn) : Mono a b -> Mono b c -> (forall id, pget c id <> None -> pget b id <> None) -> Mono a c.
Proof.
  intros [a1 a2 a3 a4] [b1 b2 b3 b4] PB. constructor.
  - intro id. specialize (a1 id). specialize (b1 id). lia.
  - auto.
  - intros id pb pb' G G'. destruct (pget b id) as [pb1|] eqn:G1; [|exfalso; apply (PB id); [rewrite G'; discriminate | exact G1]].
    rewrite (b3 id pb1 pb' G1 G'). apply (a3 id pb pb1 G G1).
  - intros t x' G D0. destruct (b4 t x' G D0) as (x1 & G1 & D1). apply (a4 t x1 G1 D1).
Qed.

Lemma Cw_comp (a b c : cconn) : Cw a b -> Cw b c -> Mono a b -> Mono b c -> Cw a c.
Proof.
  intros AB BC [a1 a2 a3 a4] [b1 b2 b3 b4] id pb G G'.
  destruct (pget b id) as [pb1|] eqn:G1.
  - destruct (BC id pb1 G1 G') as [X|[X|(x1 & X1 & X2)]].
    + left. specialize (a1 id). lia.
    + right. left. exact X.
    + right. right. rewrite (a3 id pb pb1 G G1) in X1. apply (a4 _ _ X1 X2).
  - destruct (AB id pb G G1) as [X|[X|X]].
    + left. specialize (b1 id). lia.
    + right. left. intro Y. apply X. apply b2. exact Y.
    + right. right. exact X.
Qed.

Lemma refill_tag pb pb' : cl_refill pb = Some pb' -> pb_tag pb' = pb_tag pb.
Proof.
  unfold cl_refill. destruct (pb_stream pb) as [reads|]; [|intro H; inversion H; reflexivity].
  destruct reads as [|[ch e] t].
  - cbn [cl_is_nil]. intro H. inversion H. destruct (_ && _)%Z; reflexivity.
  - destruct e.
    + destruct (cl_is_nil ch); [discriminate|]. intro H. inversion H. destruct (_ && _)%Z; reflexivity.
    + intro H. inversion H. destruct (cl_is_nil ch); destruct (_ && _)%Z; reflexivity.
    + discriminate.
Qed.

Lemma ctxs_cs_conn (c : cconn) pb id : cc_ctxs (cs_conn c pb id) = cc_ctxs c /\ cc_reqQueued (cs_conn c pb id) = cc_reqQueued c.
Proof. unfold cs_conn. destruct (cs_end c pb); split; reflexivity. Qed.

(* sendPending(id) and the body of stream id *)
Lemma send_pending_cov fuel : forall (c : cconn) id pb, pget c id = Some pb -> NoDup (pids c) ->
  (exists x, cl_ctx_get c (pb_tag pb) = Some x /\ ct_sid x = id /\ ct_conn x = true /\ ct_lckStuck x = false) ->
  snd (cl_send_pending fuel c id) = CSPOk -> pget (fst (cl_send_pending fuel c id)) id = None ->
  (esn id (cc_out c) < esn id (cc_out (fst (cl_send_pending fuel c id))))%nat \/
  ~ In id (tbl (fst (cl_send_pending fuel c id))) \/
  (exists x, cl_ctx_get c (pb_tag pb) = Some x /\ ct_done x = true).
Proof.
  induction fuel as [|fuel IH]; intros c id pb G ND HX R G'.
  { cbn [cl_send_pending fst] in G'. congruence. }
  rewrite send_pending_S in R, G' |- *. unfold CliFlowCInv.pget in G. rewrite G in R, G' |- *.
  destruct (pend_get_In _ _ _ G) as [HI EI].
  destruct (refill_cond pb) eqn:RC.
  - destruct (cl_refill pb) as [pb'|] eqn:RF.
    + destruct (refill_same _ _ RF) as [RI _]. pose proof (refill_tag _ _ RF) as RT.
      set (c1 := ccu_pending c (cl_pend_put (cc_pending c) pb')) in *.
      assert (G1 : pget c1 id = Some pb').
      { unfold CliFlowCInv.pget. subst c1. cbn [cc_pending ccu_pending]. rewrite <- EI, <- RI. apply pend_get_put_same. rewrite RI, EI, G. discriminate. }
      assert (ND1 : NoDup (pids c1)) by (unfold pids; subst c1; cbn [cc_pending ccu_pending]; rewrite pend_put_ids; exact ND).
      rewrite <- RT. apply (IH c1 id pb' G1 ND1); [rewrite RT; exact HX | exact R | exact G'].
    + destruct (cl_delete_pending 1 [] c id) as [c1 stuck] eqn:DP.
      destruct stuck; cbn [fst snd] in *; [discriminate|].
      destruct (cl_req_find (cc_reqQueued c1) id) as [tg|] eqn:RQ; cbn [fst snd] in *.
      * cbv zeta in *. right. left.
        assert (X : ~ In id (tbl (cl_ctx_upd (cl_take_req_count c1 id) (pb_tag pb) (fun x => cl_ctx_resolve (ctu_finished x true) CEBody)))).
        { unfold tbl. rewrite cc_reqQueued_cl_ctx_upd. apply take_req_notin. }
        destruct (cl_can_write _); cbn [fst snd] in *; [exact X | discriminate].
      * right. left. apply cl_req_find_None. exact RQ.
  - cbv zeta in *.
    destruct (cs_conn_pget hstate c pb id G ND) as (O2 & _ & P2). destruct (ctxs_cs_conn c pb id) as [X2 T2].
    set (c2 := cs_conn c pb id) in *.
    destruct ((cs_n c pb =? 0)%Z && negb (cs_end c pb)) eqn:Z0.
    + cbn [fst snd] in *. apply andb_prop in Z0. destruct Z0 as [_ Z0]. apply negb_true_iff in Z0. rewrite Z0 in P2. congruence.
    + destruct (cl_acquire_for [] c2 (pb_tag pb) id) eqn:ACQ.
      * destruct (cl_can_write c2); [|cbn [snd] in R; discriminate].
        set (l := cl_write_data (cc_maxFrame c2) id (cs_chunk c pb) (cs_end c pb)) in *.
        assert (O3 : cc_out (cl_notes c2 l) = rev l ++ cc_out c) by (rewrite (out_notes hstate), O2; reflexivity).
        assert (E3 : esn id (cc_out (cl_notes c2 l)) = (esn id (cc_out c) + (if cs_end c pb then 1 else 0))%nat).
        { rewrite O3, esn_app. subst l. rewrite esl_write_data, N.eqb_refl. reflexivity. }
        destruct (cs_end c pb) eqn:EE.
        -- cbn [fst snd] in *. left.
           assert (X : esn id (cc_out (cl_close_body (cl_notes c2 l) (cs_pb c pb))) = esn id (cc_out (cl_notes c2 l))).
           { unfold cl_close_body. destruct (pb_stream (cs_pb c pb)); [|reflexivity]. cbn [cl_note cc_out ccu_out esn o_es]. rewrite cc_out_cl_ctx_upd. lia. }
           rewrite X, E3. lia.
        -- destruct (notes_fields hstate l c2) as (_ & F2 & _).
           assert (G3 : pget (cl_notes c2 l) id = Some (cs_pb c pb)) by (unfold CliFlowCInv.pget in *; rewrite F2; exact P2).
           assert (ND3 : NoDup (pids (cl_notes c2 l))).
           { unfold pids. rewrite F2. subst c2. unfold cs_conn. rewrite EE. cbn [cc_pending ccu_pending ccu_connWindow]. rewrite pend_put_ids. exact ND. }
           assert (C3 : forall t, cl_ctx_get (cl_notes c2 l) t = cl_ctx_get c t) by (intro t; unfold cl_ctx_get; rewrite cc_ctxs_cl_notes, X2; reflexivity).
           destruct (IH (cl_notes c2 l) id (cs_pb c pb) G3 ND3) as [Y|[Y|Y]]; try assumption.
           ++ change (pb_tag (cs_pb c pb)) with (pb_tag pb). rewrite C3. exact HX.
           ++ left. rewrite E3 in Y. lia.
           ++ right. left. exact Y.
           ++ right. right. change (pb_tag (cs_pb c pb)) with (pb_tag pb) in Y. rewrite C3 in Y. exact Y.
      * right. right. destruct HX as (x & GX & SX & CX & LX). exists x. split; [exact GX|].
        unfold cl_acquire_for in ACQ. assert (GX2 : cl_ctx_get c2 (pb_tag pb) = Some x) by (unfold cl_ctx_get; rewrite X2; exact GX).
        rewrite GX2 in ACQ. cbn [existsb] in ACQ. rewrite LX, SX, CX, N.eqb_refl in ACQ. cbn [negb orb] in ACQ.
        destruct (ct_done x); [reflexivity | discriminate].
      * cbn [snd] in R. discriminate.
      * cbn [snd] in R. discriminate.
Qed.

Definition anyP (o : coutev) : Prop := True.
Lemma anyP_ben : forall o, benign o = true -> anyP o.
Proof. intros; exact I. Qed.

Lemma st_ok_HX (c : cconn) id pb : st_ok c -> pget c id = Some pb ->
  exists x, cl_ctx_get c (pb_tag pb) = Some x /\ ct_sid x = id /\ ct_conn x = true /\ ct_lckStuck x = false.
Proof.
  intros S G. apply pend_get_In in G. destruct G as [HI EI]. destruct (s_pb _ S pb HI) as (NZ & x & GX & SX).
  exists x. split; [exact GX|]. split; [congruence|]. split; [|apply (proj1 (s_nostuck _ S) _ _ GX)].
  destruct (ct_conn x) eqn:CN; [reflexivity|]. exfalso. apply NZ. rewrite <- SX. apply (s_sid _ S _ _ GX). exact CN.
Qed.

Lemma flush_cov ids : forall (c : cconn), st_ok c -> RNG hstate c -> snd (cl_flush_pending c ids) = CSPOk ->
  Cw c (fst (cl_flush_pending c ids)).
Proof.
  induction ids as [|id0 t IH]; intros c S R OK; cbn [cl_flush_pending] in *.
  - cbn [fst]. intros id pb G G'. unfold CliFlowCInv.pget in *. congruence.
  - pose proof (send_pending_fueled hstate c id0 R) as SPO.
    destruct (effo_send_pending (CP:=cp_any) anyP anyP_ben (cl_send_fuel c id0) c id0 S) as [E1 _].
    pose proof (fun pb G => send_pending_cov (cl_send_fuel c id0) c id0 pb G (s_pnd _ S) (st_ok_HX c id0 pb S G)) as CV.
    destruct (cl_send_pending (cl_send_fuel c id0) c id0) as [c1 r1]. cbn [fst snd] in *.
    destruct r1; cbn [fst snd] in OK; try discriminate.
    pose proof (st_ok_eff _ _ _ S (proj1 E1)) as S1.
    destruct (effo_flush_pending (CP:=cp_any) anyP anyP_ben c1 t S1) as [E2 _].
    apply (Cw_comp c c1).
    + intros id pb G G'. destruct (N.eq_dec id id0) as [->|NE]; [apply (CV pb G eq_refl G')|].
      exfalso. unfold CliFlowCInv.pget in *. rewrite (sp_other _ _ _ _ _ SPO id NE) in G'. congruence.
    + apply IH; [exact S1 | apply (sp_rng _ _ _ _ _ SPO) | exact OK].
    + apply (eff_Mono anyP); [apply E1 | apply (s_pnd _ S)].
    + apply (eff_Mono anyP); [apply E2 | apply (s_pnd _ S1)].
Qed.

Lemma tbl_wl_exit (c : cconn) le why : tbl (cl_wl_exit c le why) = [].
Proof.
  unfold cl_wl_exit, tbl. cbn [cl_note cc_reqQueued ccu_out ccu_wl_done ccu_outQ ccu_inQ]. rewrite cc_reqQueued_cl_resolve_all. reflexivity.
Qed.

Lemma Cw_empty (c c' : cconn) : tbl c' = [] -> Cw c c'.
Proof. intros T id pb _ _. right. left. rewrite T. intros []. Qed.

Lemma Cw_wl_after (c c2 : cconn) : Cw c c2 -> Cw c (cl_wl_after cfg c2).
Proof. intro X. unfold cl_wl_after. destruct (_ && _); [apply Cw_empty, tbl_wl_exit | exact X]. Qed.

Lemma Cw_wl_win (c : cconn) order : st_ok c -> RNG hstate c -> Cw c (cl_wl_win cfg c order).
Proof.
  intros S R. unfold cl_wl_win. destruct (cc_winCh c); cbn [negb]; [|intros id pb G G'; unfold CliFlowCInv.pget in *; congruence].
  set (c1 := ccu_winCh c false).
  assert (E1 : eff (CP:=cp_any) anyP c c1).
  { apply (eff_frame (CP:=cp_any) anyP c c1 []); try reflexivity; auto. apply pending_same. reflexivity. }
  pose proof (st_ok_eff _ _ _ S E1) as S1.
  assert (R1 : RNG hstate c1) by (destruct R as [r1 r2 r3 r4]; constructor; assumption).
  pose proof (flush_cov (cl_pending_order c1 order) c1 S1 R1) as FC.
  destruct (effo_flush_pending (CP:=cp_any) anyP anyP_ben c1 (cl_pending_order c1 order) S1) as [_ NST].
  destruct (cl_flush_pending c1 (cl_pending_order c1 order)) as [c2 r]. cbn [fst snd] in *.
  destruct r; [|apply Cw_empty, tbl_wl_exit | contradiction].
  apply Cw_wl_after. exact (FC eq_refl).
Qed.

(* case ctx := <-c.in *)
Lemma Cv_in_tail (c1 : cconn) tag r : Cv c1 (in_tail hstate cfg c1 tag r).
Proof.
  destruct r as [|e|]; cbn [in_tail]; [apply Cv_wl_after | | apply Cv_refl].
  assert (X : Cv c1 (cl_resolve c1 tag e)) by (apply Cv_eq; [apply cc_reqQueued_cl_resolve | apply cc_pending_cl_resolve]).
  destruct e; try (eapply Cv_trans; [exact X | apply Cv_wl_exit]). exact X.
Qed.

Lemma Cw_wl_in (c : cconn) : RNG hstate c -> ES hstate c -> Cw c (cl_wl_in enc_field enc_set_max cfg c).
Proof.
  intros R E. destruct (cc_inQ c) as [|tag q] eqn:Q.
  { unfold cl_wl_in. rewrite Q. intros id pb G G'. unfold CliFlowCInv.pget in *. congruence. }
  rewrite (wl_in_eq hstate enc_field enc_set_max cfg c tag q Q). set (cq := ccu_inQ c q).
  assert (Rq : RNG hstate cq) by (destruct R as [r1 r2 r3 r4]; constructor; assumption).
  assert (Eq : ES hstate cq) by (apply (ES_same hstate c); try reflexivity; auto).
  destruct (cl_write_request enc_field enc_set_max cq tag) as [c1 r] eqn:WR. cbn [fst snd].
  destruct (write_request_aux hstate dec_field enc_field enc_set_max cq tag c1 r Eq WR) as (OTH & _).
  destruct (Cv_in_tail c1 tag r) as (_ & _ & DEL).
  intros id pb G G'. right. left. apply DEL; [|apply pget_none_pids; exact G'].
  apply (pget_pids c1 id pb). rewrite (OTH Rq id); [exact G|].
  apply pend_get_In in G. destruct G as [HI EI]. pose proof (es_fresh _ _ E pb HI) as LT. change (cc_nextID cq) with (cc_nextID c). lia.
Qed.

(* the stream that case opens: its body is pending, or END_STREAM is out, or the request is off the table again *)
Lemma wl_in_new (c : cconn) tag q x : st_ok c -> RNG hstate c -> ES hstate c -> NS hstate c -> cl_wl_live c = true ->
  cc_inQ c = tag :: q -> cl_ctx_get c tag = Some x ->
  cc_nextID c < cc_nextID (cl_wl_in enc_field enc_set_max cfg c) -> cl_wl_live (cl_wl_in enc_field enc_set_max cfg c) = true ->
  pget (cl_wl_in enc_field enc_set_max cfg c) (cc_nextID c) <> None \/
  (1 <= esn (cc_nextID c) (cc_out (cl_wl_in enc_field enc_set_max cfg c)))%nat \/
  ~ In (cc_nextID c) (tbl (cl_wl_in enc_field enc_set_max cfg c)).
Proof.
  intros S R E NSc LV Q GX. rewrite (wl_in_eq hstate enc_field enc_set_max cfg c tag q Q). set (cq := ccu_inQ c q).
  assert (Rq : RNG hstate cq) by (destruct R as [r1 r2 r3 r4]; constructor; assumption).
  assert (Eq : ES hstate cq) by (apply (ES_same hstate c); try reflexivity; auto).
  assert (Nq : NSb hstate cq) by (intros WC p HP; apply (NSc LV WC p HP)).
  destruct (cl_write_request enc_field enc_set_max cq tag) as [c1 r] eqn:WR. cbn [fst snd].
  pose proof (write_request_NS hstate enc_field enc_set_max cq tag c1 r Rq Eq Nq WR) as WP.
  destruct (write_request_aux hstate dec_field enc_field enc_set_max cq tag c1 r Eq WR) as (_ & NEW & NOS).
  rewrite (D_nonext_nextID hstate enc_field enc_set_max _ _ _ _ (in_tail_D hstate enc_field enc_set_max cfg c1 tag r) (wlout_nonext hstate)).
  intros LT LV'. change (cc_nextID cq) with (cc_nextID c) in *.
  destruct r as [|e|]; cbn [in_tail] in *.
  - rewrite (wl_after_live hstate cfg c1 LV') in *.
    destruct (NEW eq_refl LT x GX) as [ES1|(c7 & pb & G7 & PT & E7 & X7 & ES7 & DN & LS & -> & OK)]; [right; left; rewrite ES1; auto|].
    set (c8 := fst (cl_send_pending (cl_send_fuel c7 (cc_nextID c)) c7 (cc_nextID c))) in *.
    destruct (pget c8 (cc_nextID c)) as [pb8|] eqn:G8; [left; discriminate|]. right.
    destruct (cl_ctxs_get_In _ _ _ GX) as [_ TX].
    assert (GX7 : cl_ctx_get c7 tag = Some (ctu_sid (ctu_conn x true) (cc_nextID c))).
    { unfold cl_ctx_get. rewrite X7. change (cc_ctxs cq) with (cc_ctxs c).
      replace tag with (ct_tag (ctu_sid (ctu_conn x true) (cc_nextID c))) at 1 by exact TX.
      apply cl_ctxs_get_put_same. cbn [ct_tag ctu_sid ctu_conn]. rewrite TX. unfold cl_ctx_get in GX. rewrite GX. discriminate. }
    destruct (send_pending_cov (cl_send_fuel c7 (cc_nextID c)) c7 (cc_nextID c) pb G7 (es_nodup _ _ E7)) as [Y|[Y|(x7 & Y1 & Y2)]].
    + rewrite PT. eexists. split; [exact GX7|]. cbn [ct_sid ct_conn ct_lckStuck ctu_sid ctu_conn]. repeat split. exact LS.
    + exact OK.
    + exact G8.
    + left. fold c8 in Y. rewrite ES7 in Y. lia.
    + right. exact Y.
    + exfalso. rewrite PT, GX7 in Y1. inversion Y1. subst x7. cbn [ct_done ctu_sid ctu_conn] in Y2. congruence.
  - destruct e; try (rewrite wl_exit_dead in LV'; discriminate).
    exfalso. specialize (NOS eq_refl). clear - NOS LT. lia.
  - exfalso. unfold cl_wl_live in LV'. cbn [wr_post] in WP. rewrite WP, andb_false_r in LV'. discriminate.
Qed.

(* ---------- every step ---------- *)

Lemma step_Cw (c : cconn) e : st_ok c -> RNG hstate c -> ES hstate c -> Cw c (step c e).
Proof.
  intros S R E.
  assert (GEN : ~ is_wlf e -> Cw c (step c e)) by (intro NW; apply Cv_Cw, Cv_step_other; [apply (s_nostuck _ S) | exact NW]).
  destruct e; try (apply GEN; intros []; fail); cbn [cl_step].
  - destruct (cl_wl_live c); [apply Cw_wl_in; assumption | intros id pb G G'; unfold CliFlowCInv.pget in *; congruence].
  - destruct (cl_wl_live c); [apply Cw_wl_win; assumption | intros id pb G G'; unfold CliFlowCInv.pget in *; congruence].
Qed.

End Cov.
